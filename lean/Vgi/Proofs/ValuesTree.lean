import Vgi.Proofs.ValuesSpec
import Vgi.Proofs.ValuesScalar
/-! Structural round trip: lemmas for `Vgi.Props.C08.roundtrip` / `roundtrip_struct`. -/
namespace Vgi.Values

/-- Leaves: a supported, representable leaf encodes to a non-null cell that decodes to the leaf
at its documented precision. `t'` is the field type as declared (possibly a pointer). -/
theorem leaf_roundtrip (t' : GoTy) (a : ATy) (v : Val) (h : LeafWT (derefTy t') a v) :
    ∃ c, encodeLeaf a v = .ok c ∧ c ≠ .null ∧ decode t' c = .ok (leafCanon a v) := by
  generalize hd : derefTy t' = d at h
  unfold LeafWT at h
  split at h
  · -- integers
    rename_i g w x
    obtain ⟨hg, hw, h1, h2⟩ := h
    refine ⟨.int w (encodeInt w x), by simp [encodeLeaf], by simp, ?_⟩
    simp [decode, hd, decodeLeafInt, leafCanon, int_value_roundtrip g w x hg hw h1 h2]
  · (simp only [encodeLeaf]; exact ⟨_, rfl, by simp, by simp [decode, hd, leafCanon]⟩)
  · (simp only [encodeLeaf]; exact ⟨_, rfl, by simp, by simp [decode, hd, leafCanon]⟩)
  · (simp only [encodeLeaf]; exact ⟨_, rfl, by simp, by simp [decode, hd, leafCanon]⟩)
  · (simp only [encodeLeaf]; exact ⟨_, rfl, by simp, by simp [decode, hd, leafCanon]⟩)
  · (simp only [encodeLeaf]; exact ⟨_, rfl, by simp, by simp [decode, hd, leafCanon]⟩)
  · (simp only [encodeLeaf]; exact ⟨_, rfl, by simp, by simp [decode, hd, leafCanon]⟩)
  · -- decimal
    rename_i x
    obtain ⟨n, hn⟩ := h
    exact ⟨.dec n, by simp [encodeLeaf, hn], by simp, by simp [decode, hd, leafCanon, hn]⟩
  · (simp only [encodeLeaf]; exact ⟨_, rfl, by simp, by simp [decode, hd, leafCanon]⟩)
  · (simp only [encodeLeaf]; exact ⟨_, rfl, by simp, by simp [decode, hd, leafCanon]⟩)
  · rename_i w b
    exact ⟨.bin .fixed b, by simp [encodeLeaf, h], by simp, by simp [decode, hd, leafCanon]⟩
  · -- date
    rename_i t
    (simp only [encodeLeaf]; exact ⟨_, rfl, by simp, by simp [decode, hd, leafCanon, date_value_roundtrip t h]⟩)
  · -- timestamp
    rename_i u t
    (simp only [encodeLeaf]; exact ⟨_, rfl, by simp,
      by simp [decode, hd, leafCanon, ts_value_roundtrip t ⟨h.1, h.2.1⟩ h.2.2.1 h.2.2.2]⟩)
  · -- time of day
    rename_i t
    (simp only [encodeLeaf]; exact ⟨_, rfl, by simp, by simp [decode, hd, leafCanon, time_value_roundtrip t h]⟩)
  · -- duration
    rename_i ns
    (simp only [encodeLeaf]; exact ⟨_, rfl, by simp, by simp [decode, hd, leafCanon, (dur_value_roundtrip ns h).1]⟩)
  · exact h.elim
end Vgi.Values

namespace Vgi.Values

/-! ### small facts -/

theorem tagName_nil : tagName [] = [] := by simp [tagName]

theorem tagName_untagged (tag : BStr) (h : tagged tag = false) : tagName tag = [] := by
  unfold tagged at h
  unfold tagName
  simp only [Bool.not_eq_false', decide_eq_true_eq] at h
  simp [h]

/-! ### prefix bookkeeping for the by-name struct lookups -/

def GoFields.app : GoFields → GoFields → GoFields
  | .nil, s => s
  | .cons tag atag t r, s => .cons tag atag t (r.app s)

def SFields.app : SFields → SFields → SFields
  | .nil, s => s
  | .cons tag atag v r, s => .cons tag atag v (r.app s)

def SFields.length : SFields → Nat
  | .nil => 0
  | .cons _ _ _ r => r.length + 1

theorem GoFields.app_snoc : ∀ (p : GoFields) (tag atag : BStr) (t : GoTy) (s : GoFields),
    (p.app (.cons tag atag t .nil)).app s = p.app (.cons tag atag t s)
  | .nil, _, _, _, _ => rfl
  | .cons a b c r, tag, atag, t, s => by simp [GoFields.app, GoFields.app_snoc r tag atag t s]

theorem SFields.app_snoc : ∀ (p : SFields) (tag atag : BStr) (v : Val) (s : SFields),
    (p.app (.cons tag atag v .nil)).app s = p.app (.cons tag atag v s)
  | .nil, _, _, _, _ => rfl
  | .cons a b c r, tag, atag, v, s => by simp [SFields.app, SFields.app_snoc r tag atag v s]

theorem GoFields.tags_app : ∀ (p s : GoFields), (p.app s).tags = p.tags ++ s.tags
  | .nil, _ => rfl
  | .cons a b c r, s => by simp [GoFields.app, GoFields.tags, GoFields.tags_app r s]

theorem SFields.tags_app : ∀ (p s : SFields), (p.app s).tags = p.tags ++ s.tags
  | .nil, _ => rfl
  | .cons a b c r, s => by simp [SFields.app, SFields.tags, SFields.tags_app r s]

theorem SFields.length_app_snoc : ∀ (p : SFields) (tag atag : BStr) (v : Val),
    (p.app (.cons tag atag v .nil)).length = p.length + 1
  | .nil, _, _, _ => rfl
  | .cons a b c r, tag, atag, v => by simp [SFields.app, SFields.length, SFields.length_app_snoc r tag atag v]

theorem GoFields.length_app_snoc : ∀ (p : GoFields) (tag atag : BStr) (t : GoTy),
    (p.app (.cons tag atag t .nil)).length = p.length + 1
  | .nil, _, _, _ => rfl
  | .cons a b c r, tag, atag, t => by simp [GoFields.app, GoFields.length, GoFields.length_app_snoc r tag atag t]

/-! ### by-name encoding of struct children = positional encoding -/

theorem hasArrow_false : ∀ (sfs : SFields) (name : BStr), NoArrowTags sfs.tags → name ≠ [] →
    sfs.hasArrow name = false
  | .nil, _, _, _ => rfl
  | .cons tag atag v r, name, hna, hne => by
    have h1 : atag = [] := hna (tag, atag) (by simp [SFields.tags])
    have h2 := hasArrow_false r name (fun p hp => hna p (by simp [SFields.tags, hp])) hne
    subst h1
    simp [SFields.hasArrow, tagName_nil, h2]
    exact hne

theorem encodeByTag_app_fresh (a : ATy) (name : BStr) : ∀ (pre suf : SFields), Fresh name pre.tags →
    encodeByTag a name (pre.app suf) = encodeByTag a name suf
  | .nil, _, _ => rfl
  | .cons tag atag v r, suf, hf => by
    have h1 : tagName tag ≠ name := hf (tag, atag) (by simp [SFields.tags])
    have h2 := encodeByTag_app_fresh a name r suf (fun p hp => hf p (by simp [SFields.tags, hp]))
    simp [SFields.app, encodeByTag, h1, h2]

/-- The Arrow children carry, in order, the tag names of the tagged fields. -/
def AlignedA : List (BStr × BStr) → AFields → Prop
  | [], afs => afs = .nil
  | p :: r, afs =>
    if tagged p.1 then
      match afs with
      | .nil => False
      | .cons name _ _ ar => name = tagName p.1 ∧ AlignedA r ar
    else AlignedA r afs

/-- Every tagged name of `suf` is fresh with respect to `pre`. -/
def FreshAll (pre suf : List (BStr × BStr)) : Prop := ∀ p ∈ suf, tagged p.1 = true → Fresh (tagName p.1) pre

theorem freshAll_step (pre : List (BStr × BStr)) (p : BStr × BStr) (r : List (BStr × BStr))
    (hf : FreshAll pre (p :: r)) (hd : NamesDistinct (p :: r)) : FreshAll (pre ++ [p]) r := by
  intro q hq hqt x hx
  simp only [List.mem_append, List.mem_singleton] at hx
  rcases hx with hx | hx
  · exact hf q (by simp [hq]) hqt x hx
  · subst hx
    by_cases hp : tagged x.1 = true
    · have := (hd.1 hp).2 q hq
      exact fun h => this h.symm
    · have hu : tagName x.1 = [] := tagName_untagged x.1 (by simpa using hp)
      rw [hu]
      have hq' : NamesDistinct r := hd.2
      -- q is tagged, so its name is non-empty
      have : ∀ (l : List (BStr × BStr)), NamesDistinct l → q ∈ l → tagName q.1 ≠ [] := by
        intro l
        induction l with
        | nil => intro _ h; simp at h
        | cons y ys ih =>
          intro hl hm
          simp only [List.mem_cons] at hm
          rcases hm with hm | hm
          · subst hm; exact (hl.1 hqt).1
          · exact ih hl.2 hm
      exact fun h => this r hq' hq h.symm

theorem encode_byName_pos (sfs0 : SFields) (hna : NoArrowTags sfs0.tags) :
    ∀ (suf pre : SFields) (afs : AFields) (cfs : CFields),
      sfs0 = pre.app suf → AlignedA suf.tags afs → NamesDistinct suf.tags → FreshAll pre.tags suf.tags →
      encodeTop afs suf = .ok cfs →
      afs.mapM (fun name ca => if sfs0.hasArrow name then encodeByArrow ca name sfs0
        else encodeByTag ca name sfs0) = .ok cfs
  | .nil, pre, afs, cfs, _, hal, _, _, he => by
    simp only [SFields.tags, AlignedA] at hal
    subst hal
    simp only [encodeTop] at he
    cases he
    rfl
  | .cons tag atag v r, pre, afs, cfs, h0, hal, hd, hf, he => by
    have h0' : sfs0 = (pre.app (.cons tag atag v .nil)).app r := by rw [SFields.app_snoc]; exact h0
    have hf' : FreshAll (pre.app (.cons tag atag v .nil)).tags r.tags := by
      rw [SFields.tags_app]
      exact freshAll_step pre.tags (tag, atag) r.tags hf hd
    simp only [SFields.tags, AlignedA] at hal
    by_cases ht : tagged tag = true
    · simp only [ht, if_true] at hal
      cases afs with
      | nil => exact hal.elim
      | cons name a nl ar =>
        obtain ⟨hn, hal'⟩ := hal
        simp only [encodeTop, ht, if_true] at he
        have hne : name ≠ [] := by rw [hn]; exact (hd.1 ht).1
        have hfr : Fresh name pre.tags := by rw [hn]; exact hf (tag, atag) (by simp [SFields.tags]) ht
        cases hv : encode a v with
        | error e => simp [hv] at he
        | ok c =>
          simp only [hv] at he
          cases hr : encodeTop ar r with
          | error e => simp [hr] at he
          | ok cs =>
            simp only [hr] at he
            cases he
            have ih := encode_byName_pos sfs0 hna r _ ar cs h0' hal' hd.2 hf' hr
            simp only [AFields.mapM, hasArrow_false sfs0 name hna hne, Bool.false_eq_true, if_false]
            rw [h0, encodeByTag_app_fresh a name pre _ hfr]
            simp only [encodeByTag, hn, if_true, hv]
            rw [← h0]
            rw [ih]
    · simp only [ht, Bool.false_eq_true, if_false] at hal
      simp only [encodeTop, ht, Bool.false_eq_true, if_false] at he
      exact encode_byName_pos sfs0 hna r _ afs cfs h0' hal hd.2 hf' he

/-! ### by-name decoding of struct children = positional decoding -/

theorem isNull_iff (c : Cell) : c.isNull = true ↔ c = .null := by
  cases c <;> simp [Cell.isNull]

theorem findArrow_none : ∀ (fs : GoFields) (name : BStr) (k : Nat), NoArrowTags fs.tags → name ≠ [] →
    GoFields.findArrow name fs k = none
  | .nil, _, _, _, _ => rfl
  | .cons tag atag t r, name, k, hna, hne => by
    have h1 : atag = [] := hna (tag, atag) (by simp [GoFields.tags])
    have h2 := findArrow_none r name (k + 1) (fun p hp => hna p (by simp [GoFields.tags, hp])) hne
    subst h1
    simp only [GoFields.findArrow, tagName_nil, h2]
    simp only [ite_eq_right_iff]
    exact fun h => absurd h.symm hne

theorem findTag_app_fresh (name : BStr) : ∀ (pre suf : GoFields) (k : Nat), Fresh name pre.tags →
    GoFields.findTag name (pre.app suf) k = GoFields.findTag name suf (k + pre.length)
  | .nil, _, _, _ => rfl
  | .cons tag atag t r, suf, k, hf => by
    have h1 : tagName tag ≠ name := hf (tag, atag) (by simp [GoFields.tags])
    have h2 := findTag_app_fresh name r suf (k + 1) (fun p hp => hf p (by simp [GoFields.tags, hp]))
    simp only [GoFields.app, GoFields.findTag, h1, if_false, h2, GoFields.length]
    congr 1
    omega

theorem setAt_app : ∀ (pre suf : SFields) (j : Nat) (v : Val),
    (pre.app suf).setAt (pre.length + j) v = pre.app (suf.setAt j v)
  | .nil, suf, j, v => by simp [SFields.app, SFields.length]
  | .cons tag atag x r, suf, j, v => by
    have : (SFields.cons tag atag x r).length + j = (r.length + j) + 1 := by simp [SFields.length]; omega
    rw [this]
    simp [SFields.app, SFields.setAt, setAt_app r suf j v]

/-- The cells carry, in order, the tag names of the tagged fields. -/
def AlignedC : List (BStr × BStr) → CFields → Prop
  | [], cfs => cfs = .nil
  | p :: r, cfs =>
    if tagged p.1 then
      match cfs with
      | .nil => False
      | .cons name _ cr => name = tagName p.1 ∧ AlignedC r cr
    else AlignedC r cfs

theorem decode_byName_pos (gfs0 : GoFields) (hna : NoArrowTags gfs0.tags) :
    ∀ (gsuf gpre : GoFields) (spre : SFields) (cfs : CFields) (R : SFields),
      gfs0 = gpre.app gsuf → spre.length = gpre.length → AlignedC gsuf.tags cfs →
      NamesDistinct gsuf.tags → FreshAll gpre.tags gsuf.tags →
      decodeTop gsuf cfs = .ok R →
      decodeChildren gfs0 cfs (spre.app (zeroFields gsuf)) = .ok (spre.app R)
  | .nil, gpre, spre, cfs, R, _, _, hal, _, _, he => by
    simp only [GoFields.tags, AlignedC] at hal
    subst hal
    simp only [decodeTop] at he
    cases he
    simp [decodeChildren, zeroFields]
  | .cons tag atag t gr, gpre, spre, cfs, R, h0, hl, hal, hd, hf, he => by
    have h0' : gfs0 = (gpre.app (.cons tag atag t .nil)).app gr := by rw [GoFields.app_snoc]; exact h0
    have hf' : FreshAll (gpre.app (.cons tag atag t .nil)).tags gr.tags := by
      rw [GoFields.tags_app]
      exact freshAll_step gpre.tags (tag, atag) gr.tags hf hd
    simp only [GoFields.tags, AlignedC] at hal
    by_cases ht : tagged tag = true
    · simp only [ht, if_true] at hal
      cases cfs with
      | nil => exact hal.elim
      | cons name c cr =>
        obtain ⟨hn, hal'⟩ := hal
        simp only [decodeTop, ht, if_true] at he
        have hne : name ≠ [] := by rw [hn]; exact (hd.1 ht).1
        have hfr : Fresh name gpre.tags := by rw [hn]; exact hf (tag, atag) (by simp [GoFields.tags]) ht
        cases hv : decode t c with
        | error e => simp [hv] at he
        | ok v =>
          simp only [hv] at he
          cases hr : decodeTop gr cr with
          | error e => simp [hr] at he
          | ok vs =>
            simp only [hr] at he
            cases he
            have hfind : gfs0.find name = some (gpre.length, t) := by
              unfold GoFields.find
              rw [findArrow_none gfs0 name 0 hna hne, h0, findTag_app_fresh name gpre _ 0 hfr]
              simp [GoFields.findTag, hn]
            have hl' : (spre.app (.cons tag atag v .nil)).length = (gpre.app (.cons tag atag t .nil)).length := by
              rw [SFields.length_app_snoc, GoFields.length_app_snoc, hl]
            have ih := decode_byName_pos gfs0 hna gr _ (spre.app (.cons tag atag v .nil)) cr vs h0' hl' hal' hd.2 hf' hr
            rw [SFields.app_snoc, SFields.app_snoc] at ih
            simp only [decodeChildren, hfind, zeroFields]
            by_cases hc : c.isNull = true
            · have : c = .null := (isNull_iff c).mp hc
              subst this
              simp only [decode] at hv
              cases hv
              simp only [Cell.isNull, if_true]
              exact ih
            · simp only [hc, Bool.false_eq_true, if_false, hv]
              have := setAt_app spre (.cons tag atag (zeroVal t) (zeroFields gr)) 0 v
              simp only [Nat.add_zero, SFields.setAt] at this
              rw [← hl, this]
              exact ih
    · simp only [ht, Bool.false_eq_true, if_false] at hal
      simp only [decodeTop, ht, Bool.false_eq_true, if_false] at he
      cases hr : decodeTop gr cfs with
      | error e => simp [hr] at he
      | ok vs =>
        simp only [hr] at he
        cases he
        have hl' : (spre.app (.cons tag atag (zeroVal t) .nil)).length = (gpre.app (.cons tag atag t .nil)).length := by
          rw [SFields.length_app_snoc, GoFields.length_app_snoc, hl]
        have ih := decode_byName_pos gfs0 hna gr _ (spre.app (.cons tag atag (zeroVal t) .nil)) cfs vs h0' hl' hal hd.2 hf' hr
        rw [SFields.app_snoc, SFields.app_snoc] at ih
        simp only [zeroFields]
        exact ih

/-! ### maps: decoding commutes with the key sort -/

def KeyTexts : CKVs → KVs → Prop
  | .nil, .nil => True
  | .cons ck _ cr, .cons k _ r => cellKeyText ck = valKeyText k ∧ KeyTexts cr r
  | _, _ => False

theorem decodeKVs_insert (kt vt : GoTy) (ck cv : Cell) (k v : Val)
    (hk : decode kt ck = .ok k) (hv : decode vt cv = .ok v) (ht : cellKeyText ck = valKeyText k) :
    ∀ (cs : CKVs) (r : KVs), decodeKVs kt vt cs = .ok r → KeyTexts cs r →
      decodeKVs kt vt (insertCKV ck cv cs) = .ok (insertKV k v r) ∧ KeyTexts (insertCKV ck cv cs) (insertKV k v r)
  | .nil, r, hd, _ => by
    simp only [decodeKVs] at hd
    cases hd
    simp [insertCKV, insertKV, decodeKVs, hk, hv, KeyTexts, ht]
  | .cons ck' cv' cr, r, hd, hx => by
    simp only [decodeKVs] at hd
    cases hk' : decode kt ck' with
    | error e => simp [hk'] at hd
    | ok k' =>
      cases hv' : decode vt cv' with
      | error e => simp [hk', hv'] at hd
      | ok v' =>
        cases hr' : decodeKVs kt vt cr with
        | error e => simp [hk', hv', hr'] at hd
        | ok r' =>
          simp only [hk', hv', hr'] at hd
          cases hd
          simp only [KeyTexts] at hx
          have hlt : cellKeyLt ck' ck = valKeyLt k' k := by simp [cellKeyLt, valKeyLt, hx.1, ht]
          have ih := decodeKVs_insert kt vt ck cv k v hk hv ht cr r' hr' hx.2
          simp only [insertCKV, insertKV, hlt]
          by_cases hc : valKeyLt k' k = true
          · simp only [hc, if_true, decodeKVs, hk', hv', ih.1, KeyTexts, hx.1, ih.2, and_self]
          · simp only [hc, Bool.false_eq_true, if_false, decodeKVs, hk, hv, hk', hv', hr', KeyTexts, ht, hx.1, hx.2, and_self]

theorem decodeKVs_sort (kt vt : GoTy) : ∀ (cs : CKVs) (r : KVs), decodeKVs kt vt cs = .ok r → KeyTexts cs r →
    decodeKVs kt vt (sortCKVs cs) = .ok (sortKVs r) ∧ KeyTexts (sortCKVs cs) (sortKVs r)
  | .nil, r, hd, _ => by
    simp only [decodeKVs] at hd
    cases hd
    simp [sortCKVs, sortKVs, decodeKVs, KeyTexts]
  | .cons ck cv cr, r, hd, hx => by
    simp only [decodeKVs] at hd
    cases hk : decode kt ck with
    | error e => simp [hk] at hd
    | ok k =>
      cases hv : decode vt cv with
      | error e => simp [hk, hv] at hd
      | ok v =>
        cases hr : decodeKVs kt vt cr with
        | error e => simp [hk, hv, hr] at hd
        | ok r' =>
          simp only [hk, hv, hr] at hd
          cases hd
          simp only [KeyTexts] at hx
          have ih := decodeKVs_sort kt vt cr r' hr hx.2
          simp only [sortCKVs, sortKVs]
          exact decodeKVs_insert kt vt ck cv k v hk hv hx.1 _ _ ih.1 ih.2

theorem encodeInt_id (w : ITy) (x : Int) (hw : bitsOK w) (h : w.InRange x) : encodeInt w x = x := by
  have e1 := wrap_i64_of_inRange w x hw h
  have e2 := wrap_of_inRange w x hw.1 h
  unfold encodeInt
  cases hs : w.signed <;> simp_all

/-! ### facts read off `WTfields` -/

theorem wtfields_tags : ∀ (sfs : SFields) (gfs : GoFields) (afs : AFields), WTfields gfs afs sfs → gfs.tags = sfs.tags
  | .nil, gfs, afs, h => by
    simp only [WTfields] at h
    rw [h.1]; rfl
  | .cons tag atag v r, gfs, afs, h => by
    cases gfs with
    | nil => simp [WTfields] at h
    | cons gtag gatag t gr =>
      simp only [WTfields] at h
      obtain ⟨h1, h2, h3⟩ := h
      subst h1; subst h2
      by_cases ht : tagged gtag = true
      · simp only [ht, if_true] at h3
        cases afs with
        | nil => exact h3.elim
        | cons name a nl ar => simp [GoFields.tags, SFields.tags, wtfields_tags r gr ar h3.2.2]
      · simp only [ht, Bool.false_eq_true, if_false] at h3
        simp [GoFields.tags, SFields.tags, wtfields_tags r gr afs h3]

theorem wtfields_alignedA : ∀ (sfs : SFields) (gfs : GoFields) (afs : AFields), WTfields gfs afs sfs → AlignedA sfs.tags afs
  | .nil, gfs, afs, h => by
    simp only [WTfields] at h
    simp [SFields.tags, AlignedA, h.2]
  | .cons tag atag v r, gfs, afs, h => by
    cases gfs with
    | nil => simp [WTfields] at h
    | cons gtag gatag t gr =>
      simp only [WTfields] at h
      obtain ⟨h1, h2, h3⟩ := h
      subst h1; subst h2
      by_cases ht : tagged gtag = true
      · simp only [ht, if_true] at h3
        cases afs with
        | nil => exact h3.elim
        | cons name a nl ar =>
          simp only [SFields.tags, AlignedA, ht, if_true]
          exact ⟨h3.1, wtfields_alignedA r gr ar h3.2.2⟩
      · simp only [ht, Bool.false_eq_true, if_false] at h3
        simp only [SFields.tags, AlignedA, ht, Bool.false_eq_true, if_false]
        exact wtfields_alignedA r gr afs h3

/-- A map key cell has the key text of the key that comes back. -/
theorem key_text (kt : GoTy) (ka : ATy) (k : Val) (c : Cell) (hk : KeyTy kt ka) (hw : WT kt ka k)
    (he : encode ka k = .ok c) : cellKeyText c = valKeyText (canon kt ka k) := by
  unfold KeyTy at hk
  split at hk
  · -- string keys
    cases k <;> simp [WT, derefTy, isPtr, LeafWT] at hw
    simp only [encode, encodeLeaf] at he
    cases he
    simp [cellKeyText, canon, leafCanon, valKeyText]
  · -- integer keys
    rename_i g w
    cases k <;> simp [WT, derefTy, isPtr, LeafWT] at hw
    rename_i x
    simp only [encode, encodeLeaf] at he
    cases he
    simp [cellKeyText, canon, leafCanon, valKeyText, encodeInt_id w x hw.2.1 hw.2.2.2]
  · exact hk.elim

/-! ### the structural round trip -/

mutual
theorem rt_val : ∀ (v : Val) (t : GoTy) (a : ATy), WT t a v →
    ∃ c, encode a v = .ok c ∧ decode t c = .ok (canon t a v)
  | .nil, t, a, h => by
    refine ⟨.null, by simp [encode], ?_⟩
    cases t <;> simp [WT, isPtr] at h
    simp [decode, zeroVal, canon]
  | .slice isNil vs, t, a, h => by
    simp only [WT] at h
    split at h
    · rename_i et ea hd
      obtain ⟨cs, he, hdd⟩ := rt_vals vs et ea h.2
      exact ⟨.list cs, by simp [encode, he], by simp [decode, hd, hdd, canon]⟩
    · exact h.elim
  | .map isNil kvs, t, a, h => by
    simp only [WT] at h
    split at h
    · rename_i kt vt ka va hd
      obtain ⟨cs, he, hdd, hx⟩ := rt_kvs kvs kt vt ka va h.2.1 h.2.2
      have hs := decodeKVs_sort kt vt cs _ hdd hx
      exact ⟨.map (sortCKVs cs), by simp [encode, he], by simp [decode, hd, hs.1, canon]⟩
    · exact h.elim
  | .struct sfs, t, a, h => by
    simp only [WT] at h
    split at h
    · rename_i gfs afs hd
      obtain ⟨hna, hnd, hf⟩ := h
      obtain ⟨cfs, he, hdd, hal⟩ := rt_fields sfs gfs afs hf
      have htags := wtfields_tags sfs gfs afs hf
      have hE := encode_byName_pos sfs (by rw [← htags]; exact hna) sfs .nil afs cfs rfl
        (wtfields_alignedA sfs gfs afs hf) (by rw [← htags]; exact hnd) (fun p _ _ q hq => by simp [SFields.tags] at hq) he
      have hD := decode_byName_pos gfs hna gfs .nil .nil cfs _ rfl rfl (by rw [htags]; exact hal) hnd
        (fun p _ _ q hq => by simp [GoFields.tags] at hq) hdd
      simp only [SFields.app] at hD
      exact ⟨.struct cfs, by simp [encode, hE], by simp [decode, hd, hD, canon]⟩
    · exact h.elim
  | .int x, t, a, h => by
    obtain ⟨c, he, _, hd⟩ := leaf_roundtrip t a (.int x) (by simpa [WT] using h)
    exact ⟨c, by simp [encode, he], by simp [canon, hd]⟩
  | .f32 x, t, a, h => by
    obtain ⟨c, he, _, hd⟩ := leaf_roundtrip t a (.f32 x) (by simpa [WT] using h)
    exact ⟨c, by simp [encode, he], by simp [canon, hd]⟩
  | .f64 x, t, a, h => by
    obtain ⟨c, he, _, hd⟩ := leaf_roundtrip t a (.f64 x) (by simpa [WT] using h)
    exact ⟨c, by simp [encode, he], by simp [canon, hd]⟩
  | .bool x, t, a, h => by
    obtain ⟨c, he, _, hd⟩ := leaf_roundtrip t a (.bool x) (by simpa [WT] using h)
    exact ⟨c, by simp [encode, he], by simp [canon, hd]⟩
  | .str x, t, a, h => by
    obtain ⟨c, he, _, hd⟩ := leaf_roundtrip t a (.str x) (by simpa [WT] using h)
    exact ⟨c, by simp [encode, he], by simp [canon, hd]⟩
  | .bytes x, t, a, h => by
    obtain ⟨c, he, _, hd⟩ := leaf_roundtrip t a (.bytes x) (by simpa [WT] using h)
    exact ⟨c, by simp [encode, he], by simp [canon, hd]⟩
  | .time x, t, a, h => by
    obtain ⟨c, he, _, hd⟩ := leaf_roundtrip t a (.time x) (by simpa [WT] using h)
    exact ⟨c, by simp [encode, he], by simp [canon, hd]⟩
  | .dur x, t, a, h => by
    obtain ⟨c, he, _, hd⟩ := leaf_roundtrip t a (.dur x) (by simpa [WT] using h)
    exact ⟨c, by simp [encode, he], by simp [canon, hd]⟩
theorem rt_vals : ∀ (vs : Vals) (et : GoTy) (ea : ATy), WTs et ea vs →
    ∃ cs, encodeElems ea vs = .ok cs ∧ decodeElems et cs = .ok (canons et ea vs)
  | .nil, _, _, _ => ⟨.nil, by simp [encodeElems], by simp [decodeElems, canons]⟩
  | .cons v r, et, ea, h => by
    simp only [WTs] at h
    obtain ⟨c, he, hd⟩ := rt_val v et ea h.1
    obtain ⟨cs, hes, hds⟩ := rt_vals r et ea h.2
    exact ⟨.cons c cs, by simp [encodeElems, he, hes], by simp [decodeElems, hd, hds, canons]⟩
theorem rt_kvs : ∀ (kvs : KVs) (kt vt : GoTy) (ka va : ATy), KeyTy kt ka → WTkvs kt vt ka va kvs →
    ∃ cs, encodeKVs ka va kvs = .ok cs ∧ decodeKVs kt vt cs = .ok (canonKVs kt vt ka va kvs) ∧
      KeyTexts cs (canonKVs kt vt ka va kvs)
  | .nil, _, _, _, _, _, _ => ⟨.nil, by simp [encodeKVs], by simp [decodeKVs, canonKVs], by simp [canonKVs, KeyTexts]⟩
  | .cons k v r, kt, vt, ka, va, hk, h => by
    simp only [WTkvs] at h
    obtain ⟨ck, hek, hdk⟩ := rt_val k kt ka h.1
    obtain ⟨cv, hev, hdv⟩ := rt_val v vt va h.2.1
    obtain ⟨cs, hes, hds, hxs⟩ := rt_kvs r kt vt ka va hk h.2.2
    have htx := key_text kt ka k ck hk h.1 hek
    exact ⟨.cons ck cv cs, by simp [encodeKVs, hek, hev, hes], by simp [decodeKVs, hdk, hdv, hds, canonKVs],
      by simp [canonKVs, KeyTexts, htx, hxs]⟩
theorem rt_fields : ∀ (sfs : SFields) (gfs : GoFields) (afs : AFields), WTfields gfs afs sfs →
    ∃ cfs, encodeTop afs sfs = .ok cfs ∧ decodeTop gfs cfs = .ok (canonFields gfs afs sfs) ∧ AlignedC sfs.tags cfs
  | .nil, gfs, afs, h => by
    simp only [WTfields] at h
    obtain ⟨h1, h2⟩ := h
    subst h1; subst h2
    exact ⟨.nil, by simp [encodeTop], by simp [decodeTop, canonFields], by simp [SFields.tags, AlignedC]⟩
  | .cons tag atag v r, gfs, afs, h => by
    cases gfs with
    | nil => simp [WTfields] at h
    | cons gtag gatag t gr =>
      simp only [WTfields] at h
      obtain ⟨h1, h2, h3⟩ := h
      subst h1; subst h2
      by_cases ht : tagged gtag = true
      · simp only [ht, if_true] at h3
        cases afs with
        | nil => exact h3.elim
        | cons name a nl ar =>
          obtain ⟨hn, hw, hr⟩ := h3
          obtain ⟨c, he, hd⟩ := rt_val v t a hw
          obtain ⟨cs, hes, hds, hal⟩ := rt_fields r gr ar hr
          exact ⟨.cons name c cs, by simp [encodeTop, ht, he, hes], by simp [decodeTop, ht, hd, hds, canonFields],
            by simp [SFields.tags, AlignedC, ht, hn, hal]⟩
      · simp only [ht, Bool.false_eq_true, if_false] at h3
        obtain ⟨cs, hes, hds, hal⟩ := rt_fields r gr afs h3
        exact ⟨cs, by simp [encodeTop, ht, hes], by simp [decodeTop, ht, hds, canonFields],
          by simp [SFields.tags, AlignedC, ht, hal]⟩
end

end Vgi.Values
