import Vgi.Proofs.ValuesSpec
import Vgi.Proofs.ValuesScalar
/-! Structural round trip: lemmas for `Vgi.Props.C08.roundtrip` / `roundtrip_struct`. -/
namespace Vgi.Values

/-- Leaves: a supported, representable leaf encodes to a non-null cell that decodes to the leaf
at its documented precision. `t'` is the field type as declared (possibly a pointer). -/
theorem leaf_roundtrip (t' : GoTy) (a : ATy) (v : Val) (h : LeafWT (derefTy t') a v) :
    ∃ c, encodeLeaf a v = .ok c ∧ c ≠ .null ∧ decodeNN t' c = .ok (leafCanon a v) := by
  generalize hd : derefTy t' = d at h
  unfold LeafWT at h
  split at h
  · -- integers
    rename_i g w x
    obtain ⟨hg, hw, h1, h2⟩ := h
    refine ⟨.int w (encodeInt w x), by simp [encodeLeaf], by simp, ?_⟩
    simp [decodeNN, hd, decodeLeafInt, leafCanon, int_value_roundtrip g w x hg hw h1 h2]
  · (simp only [encodeLeaf]; exact ⟨_, rfl, by simp, by simp [decodeNN, hd, leafCanon]⟩)
  · (simp only [encodeLeaf]; exact ⟨_, rfl, by simp, by simp [decodeNN, hd, leafCanon]⟩)
  · (simp only [encodeLeaf]; exact ⟨_, rfl, by simp, by simp [decodeNN, hd, leafCanon]⟩)
  · (simp only [encodeLeaf]; exact ⟨_, rfl, by simp, by simp [decodeNN, hd, leafCanon]⟩)
  · (simp only [encodeLeaf]; exact ⟨_, rfl, by simp, by simp [decodeNN, hd, leafCanon]⟩)
  · (simp only [encodeLeaf]; exact ⟨_, rfl, by simp, by simp [decodeNN, hd, leafCanon]⟩)
  · -- decimal
    rename_i x
    obtain ⟨n, hn⟩ := h
    exact ⟨.dec n, by simp [encodeLeaf, hn], by simp, by simp [decodeNN, hd, leafCanon, hn]⟩
  · (simp only [encodeLeaf]; exact ⟨_, rfl, by simp, by simp [decodeNN, hd, leafCanon]⟩)
  · (simp only [encodeLeaf]; exact ⟨_, rfl, by simp, by simp [decodeNN, hd, leafCanon]⟩)
  · rename_i w b
    exact ⟨.bin .fixed b, by simp [encodeLeaf, h], by simp, by simp [decodeNN, hd, leafCanon]⟩
  · -- date
    rename_i t
    (simp only [encodeLeaf]; exact ⟨_, rfl, by simp, by simp [decodeNN, hd, leafCanon, date_value_roundtrip t h]⟩)
  · -- timestamp
    rename_i u t
    (simp only [encodeLeaf]; exact ⟨_, rfl, by simp,
      by simp [decodeNN, hd, leafCanon, ts_value_roundtrip t ⟨h.1, h.2.1⟩ h.2.2.1 h.2.2.2]⟩)
  · -- time of day
    rename_i t
    (simp only [encodeLeaf]; exact ⟨_, rfl, by simp, by simp [decodeNN, hd, leafCanon, time_value_roundtrip t h]⟩)
  · -- duration
    rename_i ns
    (simp only [encodeLeaf]; exact ⟨_, rfl, by simp, by simp [decodeNN, hd, leafCanon, (dur_value_roundtrip ns h).1]⟩)
  · exact h.elim
end Vgi.Values

namespace Vgi.Values

/-! ### small facts -/

theorem decode_of_ne_null (t : GoTy) (c : Cell) (h : c ≠ .null) : decode t c = decodeNN t c := by
  cases c <;> simp [decode] at h ⊢

theorem decodeElems_cons (et : GoTy) (c : Cell) (r : Cells) :
    decodeElems et (.cons c r) =
      match decode et c with
      | .error e => .error e
      | .ok v => match decodeElems et r with
        | .error e => .error e
        | .ok vs => .ok (.cons v vs) := by
  cases c <;> simp [decodeElems, decode]

theorem decodeKVs_cons (kt vt : GoTy) (k v : Cell) (r : CKVs) :
    decodeKVs kt vt (.cons k v r) =
      match decodeNN kt k with
      | .error e => .error e
      | .ok kv => match decode vt v with
        | .error e => .error e
        | .ok vv => match decodeKVs kt vt r with
          | .error e => .error e
          | .ok rest => .ok (.cons kv vv rest) := by
  cases v <;> simp [decodeKVs, decode]

theorem tagName_nil : tagName [] = [] := by simp [tagName]

theorem tagName_untagged (tag : BStr) (h : tagged tag = false) : tagName tag = [] := by
  unfold tagged at h
  unfold tagName
  simp only [Bool.not_eq_false', decide_eq_true_eq] at h
  simp [h]

/-! ### prefix bookkeeping for the by-name struct lookups -/

def GoFields.app : GoFields → GoFields → GoFields
  | .nil, s => s
  | .cons tag atag t r, s => .cons tag atag t (r.app s)

def SFields.app : SFields → SFields → SFields
  | .nil, s => s
  | .cons tag atag v r, s => .cons tag atag v (r.app s)

def SFields.length : SFields → Nat
  | .nil => 0
  | .cons _ _ _ r => r.length + 1

theorem GoFields.app_snoc (p : GoFields) (tag atag : BStr) (t : GoTy) (s : GoFields) :
    (p.app (.cons tag atag t .nil)).app s = p.app (.cons tag atag t s) := by
  induction p with
  | nil => rfl
  | cons a b c r ih => simp [GoFields.app, ih]
