import Vgi.Model.Values
/-!
Specification vocabulary for the structural round-trip theorem of C08:

* `canon t a v`  — the value the property promises back for `v` sent in a field of Go type `t` and
  wire type `a`: the same tree with nil collections read as empty ones, map entries in wire key
  order, every leaf at its documented precision (`leafCanon`), fields without a `vgirpc` tag at
  their zero value.
* `WT t a v`     — `v` is a value of Go type `t`, `(t, a)` is a supported pair at every level and
  every leaf is representable in its wire type.
-/
namespace Vgi.Values

/-- A leaf at the documented precision of its wire type. -/
def leafCanon (a : ATy) (v : Val) : Val :=
  match a, v with
  | .date32, .time t => .time ⟨t.sec / 86400 * 86400, 0⟩             -- midnight of the UTC calendar day
  | .ts _, .time t => .time ⟨t.sec, t.nsec / 1000 * 1000⟩            -- the microsecond instant
  | .time64, .time t => .time ⟨t.sec % 86400, t.nsec / 1000 * 1000⟩  -- the time of day, on the epoch day
  | .dur, .dur ns => .dur (ns - trem ns 1000)                        -- whole microseconds, toward zero
  | .dec, .str x => match decParse x with                            -- four decimal places
    | .ok n => .str (decToString n)
    | .error _ => .str x
  | _, v => v

def bitsOK (t : ITy) : Prop := 0 < t.bits ∧ t.bits ≤ 64

/-- Supported leaf pair (dereferenced Go type, wire type) with a representable value. -/
def LeafWT : GoTy → ATy → Val → Prop
  | .prim (.int g), .int w, .int x => bitsOK g ∧ bitsOK w ∧ g.InRange x ∧ w.InRange x
  | .prim .f32, .f32, .f32 _ => True
  | .prim .f64, .f64, .f64 _ => True
  | .prim .bool, .bool, .bool _ => True
  | .prim .str, .utf8, .str _ => True
  | .prim .str, .largeUtf8, .str _ => True
  | .prim .str, .dict, .str _ => True
  | .prim .str, .dec, .str x => ∃ n, decParse x = .ok n
  | .bytes, .binary, .bytes _ => True
  | .bytes, .largeBinary, .bytes _ => True
  | .bytes, .fixed w, .bytes b => b.length = w
  | .prim .time, .date32, .time t => -2147483648 ≤ t.sec / 86400 ∧ t.sec / 86400 < 2147483648
  | .prim .time, .ts _, .time t => 0 ≤ t.nsec ∧ t.nsec < 1000000000 ∧
      -9223372036854775808 ≤ t.sec * 1000000 + t.nsec / 1000 ∧ t.sec * 1000000 + t.nsec / 1000 < 9223372036854775808
  | .prim .time, .time64, .time t => 0 ≤ t.nsec ∧ t.nsec < 1000000000
  | .prim .dur, .dur, .dur ns => -9223372036854775808 ≤ ns ∧ ns < 9223372036854775808
  | _, _, _ => False

/-! ### map entries in key order, on the Go side -/

def valKeyText : Val → BStr
  | .str x => x
  | .int v => intStr v
  | _ => []

def valKeyLt (a b : Val) : Bool := bstrLt (valKeyText a) (valKeyText b)

def insertKV (k v : Val) : KVs → KVs
  | .nil => .cons k v .nil
  | .cons k' v' r => if valKeyLt k' k then .cons k' v' (insertKV k v r) else .cons k v (.cons k' v' r)

def sortKVs : KVs → KVs
  | .nil => .nil
  | .cons k v r => insertKV k v (sortKVs r)

/-- A map key: a string as utf8, or an integer of any width (never a pointer, never a type
override: a map key is described without tag options). -/
def KeyTy : GoTy → ATy → Prop
  | .prim .str, .utf8 => True
  | .prim (.int _), .int _ => True
  | _, _ => False

/-! ### names inside a struct-tagged struct -/

/-- The (`vgirpc`, `arrow`) tag values of the fields, in order. -/
def GoFields.tags : GoFields → List (BStr × BStr)
  | .nil => []
  | .cons tag atag _ r => (tag, atag) :: r.tags

def SFields.tags : SFields → List (BStr × BStr)
  | .nil => []
  | .cons tag atag _ r => (tag, atag) :: r.tags

/-- No field carries an `arrow` tag. -/
def NoArrowTags (l : List (BStr × BStr)) : Prop := ∀ p ∈ l, p.2 = []

/-- `name` is not the tag name of any field. -/
def Fresh (name : BStr) (l : List (BStr × BStr)) : Prop := ∀ p ∈ l, tagName p.1 ≠ name

/-- Tagged fields have non-empty, pairwise distinct tag names. -/
def NamesDistinct : List (BStr × BStr) → Prop
  | [] => True
  | p :: r => (tagged p.1 = true → tagName p.1 ≠ [] ∧ Fresh (tagName p.1) r) ∧ NamesDistinct r

mutual
/-- The promised result of sending `v` (see the file header). -/
def canon (t : GoTy) (a : ATy) : Val → Val
  | .nil => .nil
  | .slice _ vs => match derefTy t, a with
    | .slice et, .list ea => .slice false (canons et ea vs)
    | _, _ => .slice false vs
  | .map _ kvs => match derefTy t, a with
    | .map kt vt, .map ka va => .map false (sortKVs (canonKVs kt vt ka va kvs))
    | _, _ => .map false kvs
  | .struct sfs => match derefTy t, a with
    | .struct gfs, .struct afs => .struct (canonFields gfs afs sfs)
    | _, _ => .struct sfs
  | .int v => leafCanon a (.int v)
  | .f32 b => leafCanon a (.f32 b)
  | .f64 b => leafCanon a (.f64 b)
  | .bool b => leafCanon a (.bool b)
  | .str x => leafCanon a (.str x)
  | .bytes b => leafCanon a (.bytes b)
  | .time x => leafCanon a (.time x)
  | .dur ns => leafCanon a (.dur ns)
def canons (et : GoTy) (ea : ATy) : Vals → Vals
  | .nil => .nil
  | .cons v r => .cons (canon et ea v) (canons et ea r)
def canonKVs (kt vt : GoTy) (ka va : ATy) : KVs → KVs
  | .nil => .nil
  | .cons k v r => .cons (canon kt ka k) (canon vt va v) (canonKVs kt vt ka va r)
/-- Fields with a `vgirpc` tag travel (aligned with the Arrow children in order); the others come
back at their zero value. -/
def canonFields : GoFields → AFields → SFields → SFields
  | _, _, .nil => .nil
  | gfs, afs, .cons tag atag v r =>
    match gfs with
    | .nil => .cons tag atag v r
    | .cons _ _ t gr =>
      if tagged tag then
        match afs with
        | .nil => .cons tag atag v r
        | .cons _ a _ ar => .cons tag atag (canon t a v) (canonFields gr ar r)
      else .cons tag atag (zeroVal t) (canonFields gr afs r)
end

mutual
/-- `v` is a representable value of a supported (Go type, wire type) pair. -/
def WT (t : GoTy) (a : ATy) : Val → Prop
  | .nil => isPtr t = true
  | .slice isNil vs => match derefTy t, a with
    | .slice et, .list ea => (isNil = true → vs = .nil) ∧ WTs et ea vs
    | _, _ => False
  | .map isNil kvs => match derefTy t, a with
    | .map kt vt, .map ka va => (isNil = true → kvs = .nil) ∧ KeyTy kt ka ∧ WTkvs kt vt ka va kvs
    | _, _ => False
  | .struct sfs => match derefTy t, a with
    | .struct gfs, .struct afs => NoArrowTags gfs.tags ∧ NamesDistinct gfs.tags ∧ WTfields gfs afs sfs
    | _, _ => False
  | .int v => LeafWT (derefTy t) a (.int v)
  | .f32 b => LeafWT (derefTy t) a (.f32 b)
  | .f64 b => LeafWT (derefTy t) a (.f64 b)
  | .bool b => LeafWT (derefTy t) a (.bool b)
  | .str x => LeafWT (derefTy t) a (.str x)
  | .bytes b => LeafWT (derefTy t) a (.bytes b)
  | .time x => LeafWT (derefTy t) a (.time x)
  | .dur ns => LeafWT (derefTy t) a (.dur ns)
def WTs (et : GoTy) (ea : ATy) : Vals → Prop
  | .nil => True
  | .cons v r => WT et ea v ∧ WTs et ea r
/-- Keys are non-nil (a map key cannot be null on the wire). -/
def WTkvs (kt vt : GoTy) (ka va : ATy) : KVs → Prop
  | .nil => True
  | .cons k v r => WT kt ka k ∧ WT vt va v ∧ WTkvs kt vt ka va r
/-- The struct value has exactly the fields of its type; each tagged field is well typed at the
Arrow child of the same position, which carries the field's tag name. -/
def WTfields : GoFields → AFields → SFields → Prop
  | gfs, afs, .nil => gfs = .nil ∧ afs = .nil
  | gfs, afs, .cons tag atag v r =>
    match gfs with
    | .nil => False
    | .cons gtag gatag t gr =>
      gtag = tag ∧ gatag = atag ∧
      (if tagged tag then
        match afs with
        | .nil => False
        | .cons name a _ ar => name = tagName tag ∧ WT t a v ∧ WTfields gr ar r
      else WTfields gr afs r)
end

end Vgi.Values
