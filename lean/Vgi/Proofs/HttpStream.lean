import Vgi.Model.HttpStream
/-!
Helper definitions and lemmas about `Vgi.HttpStream` shared by the HTTP stream property files
(C16, C19, C11): collector invariant, flush lemmas, per-handler specifications and the dispatch
case analysis of `handleExchange`.
-/
namespace Vgi.HttpStream
open Vgi Vgi.Generated.C16

theorem framework_keys_exact (k : Bytes) :
    k ∈ frameworkKeys ↔ k = keyState ∨ k = keyCall ∨ k = keyCancel := by
  simp only [frameworkKeys, keyState, keyCall, keyCancel, List.mem_cons, List.not_mem_nil, or_false]
  constructor
  · rintro (h | h | h) <;> simp [h]
  · rintro (h | h | h) <;> simp [h]

theorem isFramework_iff (k : Bytes) : isFramework k = true ↔ k = keyState ∨ k = keyCall ∨ k = keyCancel := by
  rw [← framework_keys_exact]
  simp [isFramework]

theorem strip_eq (m : Meta) :
    stripFramework m = m.filter fun kv => decide (kv.1 ≠ keyState ∧ kv.1 ≠ keyCall ∧ kv.1 ≠ keyCancel) := by
  unfold stripFramework
  apply List.filter_congr
  intro kv _
  have := isFramework_iff kv.1
  cases h : isFramework kv.1
  · simp [h] at this; simp [this]
  · simp [h] at this; simp; intro a b; rcases this with h | h | h <;> simp_all

def isData : RBatch → Bool
  | .data _ _ => true
  | .token _ => true
  | _ => false
def rbMeta : RBatch → Meta
  | .data _ m => m
  | .token m => m
  | _ => []
def toR : OBatch → RBatch
  | .log m => .log m
  | .data vs md => .data vs (litMeta md)
def isLogO : OBatch → Bool
  | .log _ => true
  | _ => false
def AllLog (l : List OBatch) : Prop := ∀ b ∈ l, isLogO b = true

def CollInv (c : Coll) : Prop :=
  match c.dataIdx with
  | none => AllLog c.batches
  | some i => ∃ pre vs md post, c.batches = pre ++ OBatch.data vs md :: post ∧ pre.length = i ∧
      AllLog pre ∧ AllLog post

theorem allLog_append {a b : List OBatch} (ha : AllLog a) (hb : AllLog b) : AllLog (a ++ b) := by
  intro x hx
  rcases List.mem_append.mp hx with h | h
  · exact ha x h
  · exact hb x h

theorem runActs_inv (input : List Int) : ∀ (acts : List Act) (c : Coll), CollInv c →
    CollInv (runActs input c acts).1 := by
  intro acts
  induction acts with
  | nil => intro c h; simpa [runActs] using h
  | cons a r ih =>
    intro c h
    cases a with
    | log m =>
      simp only [runActs]
      apply ih
      unfold CollInv at h ⊢
      cases hd : c.dataIdx with
      | none =>
        simp only [hd] at h ⊢
        exact allLog_append h (by intro x hx; simp at hx; subst hx; rfl)
      | some i =>
        simp only [hd] at h ⊢
        obtain ⟨pre, vs, md, post, h1, h2, h3, h4⟩ := h
        refine ⟨pre, vs, md, post ++ [.log m], by simp [h1], h2, h3, ?_⟩
        exact allLog_append h4 (by intro x hx; simp at hx; subst hx; rfl)
    | emit src md prop =>
      simp only [runActs]
      cases hd : c.dataIdx with
      | some i =>
        simp only []
        by_cases hp : prop = true
        · simp only [hp, if_true]; exact h
        · simp only [hp]; exact ih c h
      | none =>
        simp only []
        apply ih
        unfold CollInv at h ⊢
        simp only [hd] at h
        exact ⟨c.batches, srcVals input src, md, [], by simp, rfl, h, by intro x hx; cases hx⟩
    | emitEcho src prop =>
      simp only [runActs]
      cases hd : c.dataIdx with
      | some i =>
        simp only []
        by_cases hp : prop = true
        · simp only [hp, if_true]; exact h
        · simp only [hp]; exact ih c h
      | none =>
        simp only []
        apply ih
        unfold CollInv at h ⊢
        simp only [hd] at h
        exact ⟨c.batches, srcVals input src, [], [], by simp, rfl, h, by intro x hx; cases hx⟩
    | finish prop =>
      simp only [runActs]
      by_cases hpr : c.producer = true
      · simp only [hpr, if_true]
        apply ih
        unfold CollInv at h ⊢
        exact h
      · simp only [hpr]
        by_cases hp : prop = true
        · simp only [hp, if_true]; exact h
        · simp only [hp]; exact ih c h
    | fail k => simpa [runActs] using h
    | panic k => simpa [runActs] using h

theorem collInv_new (p : Bool) : CollInv (Coll.new p) := by
  simp [CollInv, Coll.new, AllLog]

theorem flush_above (tok : Val) (di : Nat) : ∀ (l : List OBatch) (k : Nat), di < k →
    flushExchange tok di k l = l.map toR := by
  intro l
  induction l with
  | nil => intro k _; rfl
  | cons b r ih =>
    intro k hk
    cases b with
    | log m => simp [flushExchange, toR, ih (k + 1) (by omega)]
    | data vs md =>
      have : ¬ k = di := by omega
      simp [flushExchange, toR, this, ih (k + 1) (by omega)]

theorem flush_split (tok : Val) (vs : List Int) (md : List (Bytes × Bytes)) (post : List OBatch) :
    ∀ (pre : List OBatch) (k : Nat),
      flushExchange tok (k + pre.length) k (pre ++ OBatch.data vs md :: post)
        = pre.map toR ++ RBatch.data vs (mergeToken tok md) :: post.map toR := by
  intro pre
  induction pre with
  | nil =>
    intro k
    simp [flushExchange, flush_above tok k post (k + 1) (by omega)]
  | cons b r ih =>
    intro k
    have e : k + (b :: r).length = (k + 1) + r.length := by simp; omega
    cases b with
    | log m =>
      simp only [List.cons_append, flushExchange, List.map_cons, toR]
      rw [e, ih (k + 1)]
    | data v2 m2 =>
      have hne : ¬ k = k + (OBatch.data v2 m2 :: r).length := by simp
      simp only [List.cons_append, flushExchange, List.map_cons, toR, hne, if_false]
      rw [e, ih (k + 1)]

theorem filter_isData_logs : ∀ (l : List OBatch), AllLog l → (l.map toR).filter isData = [] := by
  intro l
  induction l with
  | nil => intro _; rfl
  | cons b r ih =>
    intro h
    have hb := h b (by simp)
    cases b with
    | log m =>
      have := ih (fun x hx => h x (by simp [hx]))
      simp only [List.map_cons, toR, List.filter_cons, isData]
      simpa using this
    | data vs md => simp [isLogO] at hb

/-- What one `handleExchangeCall` does: the handler runs exactly once on the stripped metadata;
the turn either fails (one exception batch, world unchanged) or answers logs + exactly one data
batch with the fresh cursor merged in, and the world gains that one cursor. -/
theorem exchangeCall_spec (cfg : Cfg) (w : World) (cur : Cursor) (req : Req) :
    (exchangeCall cfg w cur req).2.2 = [Event.exchange cur.st.pos (stripFramework req.md) req.vals] ∧
    ((∃ e, (exchangeCall cfg w cur req).1 = errResp 200 true e ∧ (exchangeCall cfg w cur req).2.1 = w) ∨
     (∃ pre vs md post,
        (exchangeCall cfg w cur req).1 = Resp.mk 200 false
          (pre.map toR ++ RBatch.data vs (mergeToken (.cursor w.minted.length) md) :: post.map toR) [] ∧
        AllLog pre ∧ AllLog post ∧
        (exchangeCall cfg w cur req).2.1 = { w with minted := w.minted ++ [advance cur (cur.st.pos + 1)] })) := by
  unfold exchangeCall
  simp only []
  have hinv := runActs_inv req.vals (turnTick cur req) (Coll.new false) (collInv_new false)
  rcases hr : runActs req.vals (Coll.new false) (turnTick cur req) with ⟨c, e⟩
  rw [hr] at hinv
  cases e with
  | some err => exact ⟨rfl, Or.inl ⟨err, rfl, rfl⟩⟩
  | none =>
    simp only []
    cases hd : c.dataIdx with
    | none => exact ⟨rfl, Or.inl ⟨_, rfl, rfl⟩⟩
    | some di =>
      simp only []
      cases hp : extPreflight cfg c (req.env.ticks.headD {}) 0 with
      | true => exact ⟨rfl, Or.inl ⟨_, rfl, rfl⟩⟩
      | false =>
        simp only [Bool.false_eq_true, if_false]
        cases hb : enforceBudgets cfg req.env.wire (chargedExt cfg c (req.env.ticks.headD {})) with
        | some e2 => exact ⟨rfl, Or.inl ⟨_, rfl, rfl⟩⟩
        | none =>
          refine ⟨rfl, Or.inr ?_⟩
          simp only [CollInv, hd] at hinv
          obtain ⟨pre, vs, md, post, h1, h2, h3, h4⟩ := hinv
          refine ⟨pre, vs, md, post, ?_, h3, h4, rfl⟩
          have := flush_split (.cursor w.minted.length) vs md post pre 0
          simp only [Nat.zero_add] at this
          simp only [h1, ← h2, this]

def LitOnly (m : Meta) : Prop := ∀ kv ∈ m, ∃ b, kv.2 = Val.lit b

theorem litMeta_litOnly (m : List (Bytes × Bytes)) : LitOnly (litMeta m) := by
  intro kv hkv
  simp [litMeta] at hkv
  obtain ⟨a, b, _, rfl⟩ := hkv
  exact ⟨b, rfl⟩

/-- how the producer flush writes a collected batch -/
def toRP : OBatch → RBatch
  | .log m => .log m
  | .data vs md => .data vs (litMeta (emitUserMeta md))

theorem flushProducer_eq : ∀ l : List OBatch, flushProducer l = l.map toRP
  | [] => rfl
  | .log m :: r => by simp [flushProducer, toRP, flushProducer_eq r]
  | .data vs md :: r => by simp [flushProducer, toRP, flushProducer_eq r]

theorem toR_litOnly (b : OBatch) : LitOnly (rbMeta (toR b)) := by
  cases b with
  | log m => intro kv h; simp [toR, rbMeta] at h
  | data vs md => simpa [toR, rbMeta] using litMeta_litOnly md

theorem toRP_litOnly (b : OBatch) : LitOnly (rbMeta (toRP b)) := by
  cases b with
  | log m => intro kv h; simp [toRP, rbMeta] at h
  | data vs md => simpa [toRP, rbMeta] using litMeta_litOnly (emitUserMeta md)

theorem flushed_lit (l : List OBatch) : ∀ b ∈ flushProducer l, LitOnly (rbMeta b) := by
  intro b hb
  rw [flushProducer_eq] at hb
  obtain ⟨o, _, rfl⟩ := List.mem_map.mp hb
  exact toRP_litOnly o

theorem flushed_noexc (l : List OBatch) (e : Err) : RBatch.exc e ∉ flushProducer l := by
  intro hb
  rw [flushProducer_eq] at hb
  obtain ⟨o, _, ho⟩ := List.mem_map.mp hb
  cases o <;> simp [toRP] at ho

theorem exc_litOnly (e : Err) : ∀ b ∈ [RBatch.exc e], LitOnly (rbMeta b) := by
  intro b hb kv hkv
  simp at hb; subst hb; simp [rbMeta] at hkv

/-- Nothing the produce loop writes carries a token; an exception batch appears exactly when the
loop reports an error, and then the stream is not finished. Events: the first `Produce` sees the
metadata handed in, every later one sees none. -/
theorem produceLoop_spec (cfg : Cfg) : ∀ (ticks : List Tick) (pos : Nat) (first : Option Meta)
    (nData ext : Nat) (envs : List TickEnv) (body : Nat) (sizes : List Nat),
    (∀ b ∈ (produceLoop cfg ticks pos first nData ext envs body sizes).out, LitOnly (rbMeta b)) ∧
    ((∃ e, RBatch.exc e ∈ (produceLoop cfg ticks pos first nData ext envs body sizes).out) →
        (produceLoop cfg ticks pos first nData ext envs body sizes).err.isSome = true) ∧
    ((produceLoop cfg ticks pos first nData ext envs body sizes).err.isSome = true →
        (produceLoop cfg ticks pos first nData ext envs body sizes).finished = false) ∧
    (∃ tail, (produceLoop cfg ticks pos first nData ext envs body sizes).events
        = Event.produce pos (first.getD []) :: tail ∧ ∀ ev ∈ tail, ∃ p, ev = Event.produce p []) := by
  intro ticks pos first nData ext envs body sizes
  fun_induction produceLoop cfg ticks pos first nData ext envs body sizes with
  | case1 =>
    exact ⟨(by intro b hb; cases hb), (by rintro ⟨e, he⟩; cases he), (by intro h; cases h), [], rfl,
      (by intro ev h; cases h)⟩
  | case2 => exact ⟨exc_litOnly _, fun _ => rfl, fun _ => rfl, [], rfl, (by intro ev h; cases h)⟩
  | case3 => exact ⟨exc_litOnly _, fun _ => rfl, fun _ => rfl, [], rfl, (by intro ev h; cases h)⟩
  | case4 => exact ⟨exc_litOnly _, fun _ => rfl, fun _ => rfl, [], rfl, (by intro ev h; cases h)⟩
  | case5 =>
    exact ⟨flushed_lit _, (by rintro ⟨e, he⟩; exact absurd he (flushed_noexc _ e)), (by intro h; cases h), [], rfl,
      (by intro ev h; cases h)⟩
  | case6 =>
    exact ⟨flushed_lit _, (by rintro ⟨e, he⟩; exact absurd he (flushed_noexc _ e)), (by intro h; cases h), [], rfl,
      (by intro ev h; cases h)⟩
  | case7 =>
    exact ⟨flushed_lit _, (by rintro ⟨e, he⟩; exact absurd he (flushed_noexc _ e)), (by intro h; cases h), [], rfl,
      (by intro ev h; cases h)⟩
  | case8 t rest pos first nData ext envs body sizes ev te c hr h1 h2 flushed nData' body' up h3 h4 h5 r ih =>
    obtain ⟨i1, i2, i3, tail, i4, i5⟩ := ih
    refine ⟨?_, ?_, i3, r.events, rfl, ?_⟩
    · intro b hb
      rcases List.mem_append.mp hb with h | h
      · exact flushed_lit _ b h
      · exact i1 b h
    · rintro ⟨e, he⟩
      rcases List.mem_append.mp he with h | h
      · exact absurd h (flushed_noexc _ e)
      · exact i2 ⟨e, h⟩
    · intro e he
      rw [i4] at he
      simp at he
      rcases he with rfl | he
      · exact ⟨_, rfl⟩
      · exact i5 e he

theorem resolveCall_world {cfg : Cfg} {w : World} {inst : Nat} {cur : Cursor} {ct : Option Val} {w1 : World}
    (h : resolveCall cfg w inst cur ct = .ok w1) : w1.minted = w.minted ∧ w1.calls = w.calls := by
  unfold resolveCall at h
  split at h
  · cases h; exact ⟨rfl, rfl⟩
  · split at h
    · cases h
    · cases h
    · split at h
      · cases h
        split <;> exact ⟨rfl, rfl⟩
      · cases h
    · cases h

/-- The dispatch of `handleStreamExchange`: a request is either refused with a 400 before any
handler runs (no cursor minted, no handler call), or its first `MetaStreamState` value opens to a
minted cursor of the method the URL names and exactly one of cancel / producer continuation /
exchange turn runs on it. -/
theorem handleExchange_cases (cfg : Cfg) (w : World) (req : Req) :
    (∃ e w0, handleExchange cfg w req = (errResp 400 false e, w0, []) ∧ w0.minted = w.minted ∧ w0.calls = w.calls) ∨
    (∃ tv cur w1, getFirst keyState req.md = some tv ∧ openCursor w tv = some cur ∧
       cur.st.producer = req.routeProducer ∧ cur.dyn = req.dynamic ∧
       w1.minted = w.minted ∧ w1.calls = w.calls ∧
       (((getFirst keyCancel req.md).isSome = true ∧ handleExchange cfg w req = cancelTurn w1 cur) ∨
        ((getFirst keyCancel req.md).isSome = false ∧ req.routeProducer = true ∧
          handleExchange cfg w req = producerContinuation cfg w1 cur req) ∨
        ((getFirst keyCancel req.md).isSome = false ∧ req.routeProducer = false ∧
          (req.exact = true ∨ cur.declared = false ∨ req.schemaOk = true) ∧
          handleExchange cfg w req = exchangeCall cfg w1 cur req))) := by
  unfold handleExchange
  simp only []
  split
  · exact Or.inl ⟨_, w, rfl, rfl, rfl⟩
  · rename_i hcast
    cases ht : getFirst keyState req.md with
    | none => exact Or.inl ⟨_, w, rfl, rfl, rfl⟩
    | some tv =>
      simp only []
      cases ho : openCursor w tv with
      | none => exact Or.inl ⟨_, w, rfl, rfl, rfl⟩
      | some cur =>
        simp only []
        split
        · exact Or.inl ⟨_, w, rfl, rfl, rfl⟩
        · rename_i hkind
          cases hr : resolveCall cfg w req.inst cur (getFirst keyCall req.md) with
          | error e => exact Or.inl ⟨_, w, rfl, rfl, rfl⟩
          | ok w1 =>
            simp only []
            obtain ⟨hm, hcl⟩ := resolveCall_world hr
            have hk1 : cur.st.producer = req.routeProducer := by
              cases hrp : req.routeProducer <;> cases hp : cur.st.producer <;> simp_all
            have hk2 : cur.dyn = req.dynamic := by
              cases hrp : req.dynamic <;> cases hp : cur.dyn <;> simp_all
            cases hc : (getFirst keyCancel req.md).isSome with
            | true => exact Or.inr ⟨tv, cur, w1, rfl, ho, hk1, hk2, hm, hcl, Or.inl ⟨rfl, by simp⟩⟩
            | false =>
              by_cases hrp : req.routeProducer = true
              · refine Or.inr ⟨tv, cur, w1, rfl, ho, hk1, hk2, hm, hcl, Or.inr (Or.inl ⟨rfl, hrp, ?_⟩)⟩
                simp [hrp]
              · have hrp' : req.routeProducer = false := by simpa using hrp
                by_cases hdc : (req.dynamic && cur.declared && !req.exact && !req.schemaOk) = true
                · refine Or.inl ⟨Err.cast, w1, ?_, hm, hcl⟩
                  simp [hrp', hdc]
                · refine Or.inr ⟨tv, cur, w1, rfl, ho, hk1, hk2, hm, hcl, Or.inr (Or.inr ⟨rfl, hrp', ?_, ?_⟩)⟩
                  · cases he : req.exact <;> cases hd : cur.declared <;> cases hs : req.schemaOk <;>
                      cases hdy : req.dynamic <;> simp_all
                  · simp [hrp', hdc]

/-! ### The token merge -/

theorem getFirst_append_of_no_key (k : Bytes) : ∀ (a b : Meta), (∀ kv ∈ a, kv.1 ≠ k) →
    getFirst k (a ++ b) = getFirst k b
  | [], _, _ => rfl
  | x :: r, b, h => by
    have hx := h x (by simp)
    simp only [List.cons_append, getFirst, hx, if_false]
    exact getFirst_append_of_no_key k r b (fun kv hkv => h kv (by simp [hkv]))

/-- the cursor wins: whatever metadata the emit carried (a `MetaStreamState` entry included), a
`GetValue(MetaStreamState)` on the merged metadata yields the fresh cursor -/
theorem getFirst_mergeToken (tok : Val) (md : List (Bytes × Bytes)) :
    getFirst keyState (mergeToken tok md) = some tok := by
  unfold mergeToken
  rw [getFirst_append_of_no_key]
  · simp [getFirst]
  · intro kv hkv
    simp only [litMeta, emitUserMeta, List.mem_map, List.mem_filter] at hkv
    obtain ⟨a, ⟨_, ha⟩, rfl⟩ := hkv
    simp only [Bool.and_eq_true, bne_iff_ne, ne_eq] at ha
    exact ha.1


/-! ### One producer turn against the whole stream -/

theorem extPreflight_off {cfg : Cfg} (h : cfg.maxExt = 0) (c : Coll) (te : TickEnv) (a : Nat) :
    extPreflight cfg c te a = false := by
  simp [extPreflight, h]

theorem has_data {c : Coll} (h1 : ¬(!c.finished && c.dataIdx.isNone) = true) (h3 : ¬c.finished = true) :
    ¬ c.dataIdx = none := by
  intro hn
  apply h1
  cases hf : c.finished
  · simp [hn]
  · exact absurd hf h3

/-- One turn against the whole stream (`fullRun`), with no external cap in force: a turn that ends
the stream delivered exactly the whole rest of the stream with the same outcome; a turn that stops
early delivered a proper prefix made of whole cycles, and the rest of the stream is exactly the
stream of the state it left behind. -/
theorem produceLoop_prefix (cfg : Cfg) (hext : cfg.maxExt = 0) : ∀ (ticks : List Tick) (pos : Nat)
    (first : Option Meta) (nData ext : Nat) (envs : List TickEnv) (body : Nat) (sizes : List Nat),
    (((produceLoop cfg ticks pos first nData ext envs body sizes).finished = true ∨
      (produceLoop cfg ticks pos first nData ext envs body sizes).err.isSome = true) ∧
     (produceLoop cfg ticks pos first nData ext envs body sizes).out = (fullRun ticks).1 ∧
     (produceLoop cfg ticks pos first nData ext envs body sizes).finished = (fullRun ticks).2.1 ∧
     (produceLoop cfg ticks pos first nData ext envs body sizes).err = (fullRun ticks).2.2) ∨
    ((produceLoop cfg ticks pos first nData ext envs body sizes).finished = false ∧
     (produceLoop cfg ticks pos first nData ext envs body sizes).err = none ∧
     ∃ k, 0 < k ∧ (produceLoop cfg ticks pos first nData ext envs body sizes).pos = pos + k ∧
       (fullRun ticks).1 = (produceLoop cfg ticks pos first nData ext envs body sizes).out ++ (fullRun (ticks.drop k)).1 ∧
       (fullRun ticks).2 = (fullRun (ticks.drop k)).2) := by
  intro ticks pos first nData ext envs body sizes
  fun_induction produceLoop cfg ticks pos first nData ext envs body sizes with
  | case1 => exact Or.inl ⟨Or.inl rfl, rfl, rfl, rfl⟩
  | case2 t rest pos first nData ext envs body sizes ev c e hr =>
    exact Or.inl ⟨Or.inr rfl, by simp [fullRun, hr], by simp [fullRun, hr], by simp [fullRun, hr]⟩
  | case3 t rest pos first nData ext envs body sizes ev c hr h1 =>
    exact Or.inl ⟨Or.inr rfl, by simp [fullRun, hr, h1], by simp [fullRun, hr, h1], by simp [fullRun, hr, h1]⟩
  | case4 t rest pos first nData ext envs body sizes ev te c hr h1 h2 =>
    rw [extPreflight_off hext] at h2; cases h2
  | case5 t rest pos first nData ext envs body sizes ev te c hr h1 h2 flushed nData' body' up h3 =>
    exact Or.inl ⟨Or.inl rfl, by simp [fullRun, hr, h1, h3, flushed], by simp [fullRun, hr, h1, h3],
      by simp [fullRun, hr, h1, h3]⟩
  | case6 t rest pos first nData ext envs body sizes ev te c hr h1 h2 flushed nData' body' up h3 h4 =>
    have hd := has_data h1 h3
    exact Or.inr ⟨rfl, rfl, 1, Nat.one_pos, rfl, by simp [fullRun, hr, h1, h3, hd, flushed], by simp [fullRun, hr, h1, h3, hd]⟩
  | case7 t rest pos first nData ext envs body sizes ev te c hr h1 h2 flushed nData' body' up h3 h4 h5 =>
    have hd := has_data h1 h3
    exact Or.inr ⟨rfl, rfl, 1, Nat.one_pos, rfl, by simp [fullRun, hr, h1, h3, hd, flushed], by simp [fullRun, hr, h1, h3, hd]⟩
  | case8 t rest pos first nData ext envs body sizes ev te c hr h1 h2 flushed nData' body' up h3 h4 h5 r ih =>
    have hd := has_data h1 h3
    rcases ih with ⟨a1, a2, a3, a4⟩ | ⟨b1, b2, k, hk, b3, b4, b5⟩
    · refine Or.inl ⟨a1, ?_, ?_, ?_⟩
      · show flushed ++ r.out = _
        simp [fullRun, hr, h1, h3, hd, flushed]; exact a2
      · show r.finished = _
        simp [fullRun, hr, h1, h3, hd]; exact a3
      · show r.err = _
        simp [fullRun, hr, h1, h3, hd]; exact a4
    · refine Or.inr ⟨b1, b2, k + 1, Nat.succ_pos _, ?_, ?_, ?_⟩
      · show r.pos = _
        rw [b3]; omega
      · show _ = (flushed ++ r.out) ++ _
        simp [fullRun, hr, h1, h3, hd, flushed]; exact b4
      · simp [fullRun, hr, h1, h3, hd]; exact b5


end Vgi.HttpStream
