import Vgi.Model.RouteAuth
/-!
Helper lemmas for C22 about the ServeMux model (`matchPath`): what it returns matches the path
(soundness) and it returns something whenever some candidate matches (totality).
-/
namespace Vgi.RouteAuth

/-- Declarative meaning of a concrete pattern on a path (segments + trailing-slash flag). -/
def segsMatch : List CSeg → PTail → List String → Bool → Bool
  | [], .exact, [], false => true
  | [], .dollar, [], true => true
  | [], .subtree, rest, sl => !rest.isEmpty || sl
  | .lit s :: ps, t, x :: xs, sl => s = x && segsMatch ps t xs sl
  | .wild :: ps, t, _ :: xs, sl => segsMatch ps t xs sl
  | _, _, _, _ => false

theorem mem_children {α : Type} {cs : List (Cand α)} {seg : CSeg} {c' : Cand α} :
    c' ∈ children cs seg ↔ ∃ c ∈ cs, c.segs = seg :: c'.segs ∧ c.tail = c'.tail ∧ c.val = c'.val := by
  simp only [children, List.mem_filterMap]
  constructor
  · rintro ⟨c, hc, h⟩
    refine ⟨c, hc, ?_⟩
    cases hs : c.segs with
    | nil => simp [hs] at h
    | cons hd tl =>
      simp only [hs] at h
      split at h
      · rename_i heq
        cases h
        exact ⟨by rw [heq], rfl, rfl⟩
      · cases h
  · rintro ⟨c, hc, hs, ht, hv⟩
    refine ⟨c, hc, ?_⟩
    simp only [hs, if_true]
    cases c; cases c'
    simp_all

theorem leaf_some {α : Type} {cs : List (Cand α)} {t : PTail} {v : α} (h : leaf cs t = some v) :
    ∃ c ∈ cs, c.segs = [] ∧ c.tail = t ∧ c.val = v := by
  unfold leaf at h
  cases hf : cs.find? (fun c => c.segs.isEmpty && c.tail == t) with
  | none => simp [hf] at h
  | some c =>
    simp [hf] at h
    have hm := List.mem_of_find?_eq_some hf
    have hp := List.find?_some hf
    simp only [Bool.and_eq_true, List.isEmpty_iff, beq_iff_eq] at hp
    exact ⟨c, hm, hp.1, hp.2, h⟩

theorem leaf_isSome {α : Type} {cs : List (Cand α)} {t : PTail} {c : Cand α}
    (hc : c ∈ cs) (hs : c.segs = []) (ht : c.tail = t) : (leaf cs t).isSome = true := by
  unfold leaf
  cases hf : cs.find? (fun c => c.segs.isEmpty && c.tail == t) with
  | none =>
    have := List.find?_eq_none.mp hf c hc
    simp [hs, ht] at this
  | some _ => simp

/-- Soundness: the returned value belongs to a candidate whose pattern matches the path. -/
theorem matchPath_sound {α : Type} : ∀ (path : List String) (cs : List (Cand α)) (sl : Bool) (v : α),
    matchPath cs path sl = some v → ∃ c ∈ cs, c.val = v ∧ segsMatch c.segs c.tail path sl = true
  | [], cs, false, v, h => by
    simp only [matchPath] at h
    obtain ⟨c, hc, hs, ht, hv⟩ := leaf_some h
    exact ⟨c, hc, hv, by rw [hs, ht]; rfl⟩
  | [], cs, true, v, h => by
    simp only [matchPath] at h
    split at h
    · rename_i w hw
      cases h
      obtain ⟨c, hc, hs, ht, hv⟩ := leaf_some hw
      exact ⟨c, hc, hv, by rw [hs, ht]; rfl⟩
    · obtain ⟨c, hc, hs, ht, hv⟩ := leaf_some h
      exact ⟨c, hc, hv, by rw [hs, ht]; rfl⟩
  | s :: rest, cs, sl, v, h => by
    simp only [matchPath] at h
    split at h
    · rename_i w hw
      cases h
      obtain ⟨c', hc', hv, hm⟩ := matchPath_sound rest _ sl _ hw
      obtain ⟨c, hc, hs, ht, hcv⟩ := mem_children.mp hc'
      exact ⟨c, hc, by rw [hcv, hv], by rw [hs, ht]; simp [segsMatch, hm]⟩
    · split at h
      · rename_i w hw
        cases h
        obtain ⟨c', hc', hv, hm⟩ := matchPath_sound rest _ sl _ hw
        obtain ⟨c, hc, hs, ht, hcv⟩ := mem_children.mp hc'
        exact ⟨c, hc, by rw [hcv, hv], by rw [hs, ht]; simp [segsMatch, hm]⟩
      · obtain ⟨c, hc, hs, ht, hv⟩ := leaf_some h
        exact ⟨c, hc, hv, by rw [hs, ht]; simp [segsMatch]⟩

/-- Totality: if some candidate's pattern matches the path, the matcher returns a route. -/
theorem matchPath_total {α : Type} : ∀ (path : List String) (cs : List (Cand α)) (sl : Bool) (c : Cand α),
    c ∈ cs → segsMatch c.segs c.tail path sl = true → (matchPath cs path sl).isSome = true
  | [], cs, false, c, hc, hm => by
    simp only [matchPath]
    cases hs : c.segs with
    | nil =>
      cases ht : c.tail <;> simp [hs, ht, segsMatch] at hm
      exact leaf_isSome hc hs ht
    | cons hd tl => cases hd <;> simp [hs, segsMatch] at hm
  | [], cs, true, c, hc, hm => by
    simp only [matchPath]
    cases hs : c.segs with
    | nil =>
      cases ht : c.tail with
      | exact => simp [hs, ht, segsMatch] at hm
      | dollar =>
        have := leaf_isSome hc hs ht
        cases hl : leaf cs .dollar with
        | none => simp [hl] at this
        | some w => simp
      | subtree =>
        have := leaf_isSome hc hs ht
        cases hl : leaf cs .dollar with
        | none => simpa using this
        | some w => simp
    | cons hd tl => cases hd <;> simp [hs, segsMatch] at hm
  | x :: xs, cs, sl, c, hc, hm => by
    simp only [matchPath]
    cases hs : c.segs with
    | nil =>
      have ht : c.tail = .subtree := by
        cases ht : c.tail <;> simp [hs, ht, segsMatch] at hm
        rfl
      have hl := leaf_isSome hc hs ht
      cases h1 : matchPath (children cs (.lit x)) xs sl with
      | some w => simp
      | none =>
        cases h2 : matchPath (children cs .wild) xs sl with
        | some w => simp
        | none => simpa using hl
    | cons hd tl =>
      cases hd with
      | lit s =>
        simp only [hs, segsMatch, Bool.and_eq_true, decide_eq_true_eq] at hm
        obtain ⟨rfl, hm⟩ := hm
        have hc' : ({ c with segs := tl } : Cand α) ∈ children cs (.lit s) :=
          mem_children.mpr ⟨c, hc, hs, rfl, rfl⟩
        have := matchPath_total xs _ sl _ hc' hm
        cases h1 : matchPath (children cs (.lit s)) xs sl with
        | some w => simp
        | none => simp [h1] at this
      | wild =>
        simp only [hs, segsMatch] at hm
        have hc' : ({ c with segs := tl } : Cand α) ∈ children cs .wild :=
          mem_children.mpr ⟨c, hc, hs, rfl, rfl⟩
        have := matchPath_total xs _ sl _ hc' hm
        cases h1 : matchPath (children cs (.lit x)) xs sl with
        | some w => simp
        | none =>
          cases h2 : matchPath (children cs .wild) xs sl with
          | some w => simp
          | none => simp [h2] at this

/-- A literal prefix is consumed segment by segment. -/
theorem segsMatch_prefix (p : List String) (ps : List CSeg) (t : PTail) (xs : List String) (sl : Bool) :
    segsMatch (p.map CSeg.lit ++ ps) t (p ++ xs) sl = segsMatch ps t xs sl := by
  induction p with
  | nil => rfl
  | cons a p ih => simp [segsMatch, ih]

/-- An exact pattern only matches paths with as many segments as it has, without trailing slash. -/
theorem segsMatch_exact_length : ∀ (ps : List CSeg) (xs : List String) (sl : Bool),
    segsMatch ps .exact xs sl = true → ps.length = xs.length ∧ sl = false
  | [], [], false, _ => ⟨rfl, rfl⟩
  | [], [], true, h => by simp [segsMatch] at h
  | [], _ :: _, _, h => by simp [segsMatch] at h
  | .lit s :: ps, [], _, h => by simp [segsMatch] at h
  | .wild :: ps, [], _, h => by simp [segsMatch] at h
  | .lit s :: ps, x :: xs, sl, h => by
    simp only [segsMatch, Bool.and_eq_true] at h
    have := segsMatch_exact_length ps xs sl h.2
    exact ⟨by simp [this.1], this.2⟩
  | .wild :: ps, x :: xs, sl, h => by
    simp only [segsMatch] at h
    have := segsMatch_exact_length ps xs sl h
    exact ⟨by simp [this.1], this.2⟩

end Vgi.RouteAuth
