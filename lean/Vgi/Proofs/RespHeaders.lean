import Vgi.Model.RespHeaders
/-!
Helper lemmas for C20: trimming, hex shape, and the small header-map algebra (`hset`/`hdel`/`hget`).
-/
namespace Vgi.RespHeaders

/-! ## trimming -/

theorem trimLeft_decomp : ∀ s : List Char, ∃ pre, s = pre ++ trimLeft s ∧ pre.all isSpace = true
  | [] => ⟨[], rfl, rfl⟩
  | c :: r => by
    by_cases hc : isSpace c = true
    · obtain ⟨pre, h1, h2⟩ := trimLeft_decomp r
      refine ⟨c :: pre, ?_, ?_⟩
      · have : trimLeft (c :: r) = trimLeft r := by simp [trimLeft, hc]
        rw [this]; simpa using h1
      · simp [hc, h2]
    · refine ⟨[], ?_, rfl⟩
      simp [trimLeft, hc]

theorem trimLeft_head : ∀ (s : List Char) (c : Char), (trimLeft s).head? = some c → isSpace c = false
  | [], c, h => by simp [trimLeft] at h
  | d :: r, c, h => by
    by_cases hd : isSpace d = true
    · have : trimLeft (d :: r) = trimLeft r := by simp [trimLeft, hd]
      rw [this] at h
      exact trimLeft_head r c h
    · have : trimLeft (d :: r) = d :: r := by simp [trimLeft, hd]
      rw [this] at h
      simp at h
      subst h
      simpa using hd

theorem trimRight_decomp (s : List Char) : ∃ post, s = trimRight s ++ post ∧ post.all isSpace = true := by
  obtain ⟨pre, h1, h2⟩ := trimLeft_decomp s.reverse
  refine ⟨pre.reverse, ?_, by simpa using h2⟩
  have := congrArg List.reverse h1
  simpa [trimRight] using this

theorem trimRight_last (s : List Char) (c : Char) (h : (trimRight s).getLast? = some c) : isSpace c = false := by
  unfold trimRight at h
  rw [List.getLast?_reverse] at h
  exact trimLeft_head _ _ h

/-! ## hex -/

theorem hexDigitLower_ok : ∀ n, n < 16 → isLowerHexChar (hexDigitLower n) = true := by decide

theorem hexEncode_length : ∀ b : List UInt8, (hexEncode b).length = 2 * b.length
  | [] => rfl
  | _ :: r => by simp [hexEncode, hexEncode_length r]; omega

theorem hexEncode_all : ∀ b : List UInt8, (hexEncode b).all isLowerHexChar = true
  | [] => rfl
  | x :: r => by
    have h1 : x.toNat / 16 < 16 := by have := x.toNat_lt; omega
    have h2 : x.toNat % 16 < 16 := by omega
    simp [hexEncode, hexDigitLower_ok _ h1, hexDigitLower_ok _ h2, hexEncode_all r]

/-! ## header maps -/

theorem hget_append_single (h : Headers) (n m v : String) :
    hget (h ++ [(n, v)]) m = match hget h m with
      | some x => some x
      | none => if n = m then some v else none := by
  unfold hget
  rw [List.find?_append]
  cases hf : h.find? (fun p => p.1 == m) with
  | some x => simp
  | none =>
    by_cases hnm : n = m
    · simp [hnm]
    · simp [hnm]

theorem hget_filter_ne (h : Headers) (n m : String) (hne : m ≠ n) :
    hget (h.filter fun p => p.1 != n) m = hget h m := by
  unfold hget
  rw [List.find?_filter]
  congr 2
  funext a
  by_cases ham : a.1 = m
  · simp [ham, hne]
  · simp [ham]

theorem hget_filter_self (h : Headers) (n : String) :
    hget (h.filter fun p => p.1 != n) n = none := by
  unfold hget
  have : (h.filter fun p => p.1 != n).find? (fun p => p.1 == n) = none := by
    rw [List.find?_eq_none]
    intro p hp
    have := (List.mem_filter.mp hp).2
    simpa using this
  rw [this]; rfl

theorem hget_hset_self (h : Headers) (n v : String) : hget (hset h n v) n = some v := by
  unfold hset
  rw [hget_append_single, hget_filter_self]
  simp

theorem hget_hset_other (h : Headers) (n v m : String) (hne : m ≠ n) : hget (hset h n v) m = hget h m := by
  unfold hset
  rw [hget_append_single, hget_filter_ne h n m hne]
  cases hget h m with
  | some x => rfl
  | none => simp [Ne.symm hne]

theorem hget_hdel_other (h : Headers) (n m : String) (hne : m ≠ n) : hget (hdel h n) m = hget h m :=
  hget_filter_ne h n m hne

theorem hget_applyOp_other (h : Headers) (op : HdrOp) (m : String) (hne : m ≠ op.name) :
    hget (applyOp h op) m = hget h m := by
  cases op with
  | set n v => exact hget_hset_other h n v m hne
  | del n => exact hget_hdel_other h n m hne

theorem hget_foldl_ops (ops : List HdrOp) (h : Headers) (m : String) (hne : ∀ op ∈ ops, m ≠ op.name) :
    hget (ops.foldl applyOp h) m = hget h m := by
  induction ops generalizing h with
  | nil => rfl
  | cons op r ih =>
    simp only [List.foldl_cons]
    rw [ih _ (fun o ho => hne o (List.mem_cons_of_mem _ ho))]
    exact hget_applyOp_other h op m (hne op (List.mem_cons_self ..))

/-- last write wins: a name written exactly once by `setAll` reads back that value. -/
theorem hget_setAll (kvs : List (String × String)) (h : Headers) (m : String) :
    hget (setAll h kvs) m = match (kvs.reverse.find? fun p => p.1 == m) with
      | some p => some p.2
      | none => hget h m := by
  unfold setAll
  induction kvs generalizing h with
  | nil => rfl
  | cons kv r ih =>
    simp only [List.foldl_cons, List.reverse_cons]
    rw [ih, List.find?_append]
    cases hf : r.reverse.find? (fun p => p.1 == m) with
    | some p => simp
    | none =>
      by_cases hkm : kv.1 = m
      · subst hkm
        simp [hget_hset_self]
      · simp [hkm, hget_hset_other _ _ _ _ (Ne.symm hkm)]

end Vgi.RespHeaders
