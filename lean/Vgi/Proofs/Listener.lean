import Vgi.Model.Listener
/-!
Inductive invariant of the socket-listener transition system (`Vgi.Listener.step`), proved for
every action; `Vgi.Props.C42` lifts it to all reachable states (all interleavings).
-/
namespace Vgi.Listener
open Vgi

theorem countP_upd_notin (ids : List Nat) (c : Nat) (hc : c ∉ ids) (f : Nat → Stage) (v : Stage) :
    ids.countP (fun i => upd f c v i = .serving) = ids.countP (fun i => f i = .serving) := by
  apply List.countP_congr
  intro i hi
  have : i ≠ c := fun h => hc (h ▸ hi)
  simp [upd, this]

theorem countP_upd_in : ∀ (ids : List Nat), ids.Nodup → ∀ (c : Nat), c ∈ ids → ∀ (f : Nat → Stage) (v : Stage),
    ((ids.countP (fun i => upd f c v i = .serving) : Nat) : Int) =
      (ids.countP (fun i => f i = .serving) : Nat) + (if v = .serving then 1 else 0) - (if f c = .serving then 1 else 0)
  | [], _, _, hc, _, _ => by cases hc
  | a :: ids, hn, c, hc, f, v => by
    rw [List.nodup_cons] at hn
    simp only [List.countP_cons]
    by_cases hac : a = c
    · subst hac
      rw [countP_upd_notin ids a hn.1]
      simp only [upd, if_true]
      by_cases h1 : v = .serving <;> by_cases h2 : f a = .serving <;> simp [h1, h2] <;> omega
    · have hc' : c ∈ ids := by
        simp only [List.mem_cons] at hc
        rcases hc with h | h
        · exact absurd h.symm hac
        · exact h
      have ih := countP_upd_in ids hn.2 c hc' f v
      have : upd f c v a = f a := by simp [upd, hac]
      rw [this]
      by_cases h2 : f a = .serving <;> simp [h2] <;> omega

theorem countP_accept (ids : List Nat) (c : Nat) (hc : c ∉ ids) (f : Nat → Stage) :
    (c :: ids).countP (fun i => upd f c .accepted i = .serving) = ids.countP (fun i => f i = .serving) := by
  rw [List.countP_cons, countP_upd_notin ids c hc]
  simp [upd]

theorem countP_serving (ids : List Nat) (hn : ids.Nodup) (c : Nat) (hc : c ∈ ids) (f : Nat → Stage)
    (hf : f c = .accepted) :
    ((ids.countP (fun i => upd f c .serving i = .serving) : Nat) : Int) = (ids.countP (fun i => f i = .serving) : Nat) + 1 := by
  rw [countP_upd_in ids hn c hc f .serving]; simp [hf]

theorem countP_done (ids : List Nat) (hn : ids.Nodup) (c : Nat) (hc : c ∈ ids) (f : Nat → Stage)
    (hf : f c = .serving) :
    ((ids.countP (fun i => upd f c .done i = .serving) : Nat) : Int) = (ids.countP (fun i => f i = .serving) : Nat) - 1 := by
  rw [countP_upd_in ids hn c hc f .done]; simp [hf]

/-- Main is past the accept loop. -/
def stopped : MainPc → Bool
  | .broke | .waiting | .returned => true
  | _ => false

structure Inv (C : Cfg) (s : LState) : Prop where
  nodup : s.ids.Nodup
  mem : ∀ c, s.stage c ≠ .absent ↔ c ∈ s.ids
  cnt : s.active = (openCount s : Int)
  got : ∀ c, s.main = .gotConn c → s.stage c = .accepted
  acc : ∀ c, s.stage c = .accepted → s.main = .gotConn c
  armed : ∀ g, s.timer = some (g, true) → s.active = 0
  initS : s.main = .init → s.active = 0 ∧ s.ids = [] ∧ s.timer = none ∧ s.fired = [] ∧ s.shutdown = false ∧
            s.lnClosed = false ∧ s.envFault = false ∧ s.file = none
  noIdle : C.idle = false → s.timer = none ∧ s.fired = [] ∧ s.shutdown = false
  closed : s.lnClosed = true → s.shutdown = true ∨ s.main = .returned
  stop : stopped s.main = true → s.shutdown = true ∨ s.envFault = true
  retd : s.main = .returned → ∀ c ∈ s.ids, s.stage c = .done
  iso : ∀ c, s.outbox c = (s.served c).map C.h ∧ s.sent c = s.served c ++ s.inbox c
  fileU : C.unix = true → (s.main ≠ .init ∧ s.main ≠ .returned → s.file = some ownerOnly) ∧
            (s.main = .returned → s.file = none)
  fileT : C.unix = false → s.file = none

theorem inv_init (C : Cfg) : Inv C init := by
  constructor <;> simp [init, openCount, stopped]

theorem inv_step (C : Cfg) (s s' : LState) (a : Act) (h : Inv C s) (hs : step C s a = some s') : Inv C s' := by
  obtain ⟨hN, hM, hC, hG, hA, hAr, hI, hNI, hCl, hSt, hR, hIso, hFU, hFT⟩ := h
  cases a with
  | bind stale =>
    simp only [step] at hs
    split at hs
    · rename_i hm
      obtain ⟨i1, i2, i3, i4, i5, i6, i7, i8⟩ := hI hm
      cases hs
      have hst : ∀ c, s.stage c = .absent := by
        intro c; by_cases hc : s.stage c = .absent
        · exact hc
        · have := (hM c).1 hc; rw [i2] at this; cases this
      split
      · constructor <;> simp_all [arm, openCount, stopped] <;> grind
      · constructor <;> simp_all [arm, openCount, stopped] <;> grind
    · cases hs
  | accept c =>
    simp only [step] at hs
    split at hs
    · rename_i hg
      obtain ⟨g1, g2, g3⟩ := hg
      cases hs
      have hcn : c ∉ s.ids := fun hin => ((hM c).2 hin) g3
      have hcount := countP_accept s.ids c hcn s.stage
      constructor
      · simp only [List.nodup_cons]; exact ⟨hcn, hN⟩
      · intro i; simp only [upd, List.mem_cons]
        by_cases hi : i = c
        · simp [hi]
        · simp only [hi, if_false, false_or]; exact hM i
      · simp only [openCount]; rw [hcount]; exact hC
      · intro i hi; simp only [MainPc.gotConn.injEq] at hi; subst hi; simp [upd]
      · intro i hi; simp only [upd] at hi
        by_cases hic : i = c
        · rw [hic]
        · simp only [hic, if_false] at hi; have := hA i hi; rw [g1] at this; cases this
      · exact hAr
      · intro hm; cases hm
      · exact hNI
      · intro hc; rw [g2] at hc; cases hc
      · intro hst; simp [stopped] at hst
      · intro hm; cases hm
      · exact hIso
      · intro hu
        have := hFU hu
        refine ⟨fun _ => this.1 ⟨by rw [g1]; simp, by rw [g1]; simp⟩, fun hm => by cases hm⟩
      · exact hFT
    · cases hs
  | fire g =>
    simp only [step] at hs
    split at hs
    · cases hs
      constructor <;> simp_all [arm, openCount, stopped] <;> grind
    · cases hs
  | leave =>
    simp only [step] at hs
    split at hs
    · cases hs
      constructor <;> simp_all [openCount, stopped, disarm] <;> grind
    · cases hs
  | acceptErr fault =>
    simp only [step] at hs
    split at hs
    · cases hs
      constructor <;> simp_all [arm, openCount, stopped] <;> grind
    · cases hs
  | timerRun g =>
    simp only [step] at hs
    split at hs
    · rename_i hg
      cases hs
      have hne : s.fired ≠ [] := by intro h0; rw [h0] at hg; cases hg
      split
      · refine ⟨hN, hM, hC, hG, hA, hAr, ?_, ?_, ?_, ?_, hR, hIso, hFU, hFT⟩
        · intro hm; exact absurd (hI hm).2.2.2.1 hne
        · intro hi; exact absurd (hNI hi).2.1 hne
        · intro _; exact Or.inl rfl
        · intro _; exact Or.inl rfl
      · refine ⟨hN, hM, hC, hG, hA, hAr, ?_, ?_, hCl, hSt, hR, hIso, hFU, hFT⟩
        · intro hm; exact absurd (hI hm).2.2.2.1 hne
        · intro hi; exact absurd (hNI hi).2.1 hne
    · cases hs
  | send c x =>
    simp only [step] at hs
    split at hs
    · rename_i hg
      cases hs
      refine ⟨hN, hM, hC, hG, hA, hAr, ?_, hNI, hCl, hSt, hR, ?_, hFU, hFT⟩
      · intro hm
        have := (hI hm).2.1
        have hc : c ∈ s.ids := (hM c).1 (by rcases hg with h | h <;> rw [h] <;> simp)
        rw [this] at hc; cases hc
      · intro i
        simp only [upd]
        by_cases hi : i = c
        · subst hi; simp only [if_true]
          refine ⟨(hIso i).1, ?_⟩
          rw [(hIso i).2, List.append_assoc]
        · simp only [hi, if_false]; exact hIso i
    · cases hs
  | serveOne c =>
    simp only [step] at hs
    split at hs
    · rename_i hg
      split at hs
      · cases hs
      · rename_i x rest hin
        cases hs
        refine ⟨hN, hM, hC, hG, hA, hAr, ?_, hNI, hCl, hSt, hR, ?_, hFU, hFT⟩
        · intro hm
          have := (hI hm).2.1
          have hc : c ∈ s.ids := (hM c).1 (by rw [hg]; simp)
          rw [this] at hc; cases hc
        · intro i
          simp only [upd]
          by_cases hi : i = c
          · subst hi; simp only [if_true]
            refine ⟨?_, ?_⟩
            · rw [(hIso i).1]; simp
            · rw [(hIso i).2, hin]; simp
          · simp only [hi, if_false]; exact hIso i
    · cases hs
  | count =>
    simp only [step] at hs
    split at hs
    · rename_i c hm
      cases hs
      have hsc : s.stage c = .accepted := hG c hm
      have hcin : c ∈ s.ids := (hM c).1 (by rw [hsc]; simp)
      have hcount := countP_serving s.ids hN c hcin s.stage hsc
      refine ⟨hN, ?_, ?_, ?_, ?_, ?_, ?_, ?_, ?_, ?_, ?_, hIso, ?_, hFT⟩
      · intro i; simp only [disarm, upd]
        by_cases hi : i = c
        · subst hi; simp [hcin]
        · simp only [hi, if_false]; exact hM i
      · show s.active + 1 = _
        rw [hC]; exact hcount.symm
      · intro i hi; simp [disarm] at hi
      · intro i hi; simp only [disarm, upd] at hi
        by_cases hic : i = c
        · simp [hic] at hi
        · simp only [hic, if_false] at hi
          have := hA i hi; rw [hm] at this
          simp only [MainPc.gotConn.injEq] at this
          exact absurd this.symm hic
      · intro g hg; simp [disarm] at hg
      · intro h0; simp [disarm] at h0
      · intro hi; have := hNI hi; exact ⟨rfl, this.2.1, this.2.2⟩
      · intro hc; simp only [disarm] at hc ⊢
        rcases hCl hc with h1 | h1
        · exact Or.inl h1
        · rw [hm] at h1; cases h1
      · intro hst; simp [disarm, stopped] at hst
      · intro h0; simp [disarm] at h0
      · intro hu
        have := (hFU hu).1 ⟨by rw [hm]; simp, by rw [hm]; simp⟩
        simp only [disarm]
        exact ⟨fun _ => this, fun h0 => by cases h0⟩
    · cases hs
  | connDone c =>
    simp only [step] at hs
    split at hs
    · rename_i hsc
      have hcin : c ∈ s.ids := (hM c).1 (by rw [hsc]; simp)
      have hcount := countP_done s.ids hN c hcin s.stage hsc
      have hpos : 0 < openCount s := by
        simp only [openCount, List.countP_pos_iff]; exact ⟨c, hcin, by simp [hsc]⟩
      have hM' : ∀ i, upd s.stage c .done i ≠ .absent ↔ i ∈ s.ids := by
        intro i; simp only [upd]
        by_cases hi : i = c
        · subst hi; simp [hcin]
        · simp only [hi, if_false]; exact hM i
      have hG' : ∀ i, s.main = .gotConn i → upd s.stage c .done i = .accepted := by
        intro i hi
        have h1 := hG i hi
        have : i ≠ c := by intro e; rw [e, hsc] at h1; cases h1
        simp [upd, this, h1]
      have hA' : ∀ i, upd s.stage c .done i = .accepted → s.main = .gotConn i := by
        intro i hi; simp only [upd] at hi
        by_cases hic : i = c
        · simp [hic] at hi
        · simp only [hic, if_false] at hi; exact hA i hi
      have hI' : s.main ≠ .init := by
        intro h0; have := (hI h0).2.1; rw [this] at hcin; cases hcin
      have hR' : s.main ≠ .returned := by
        intro h0; have := hR h0 c hcin; rw [hsc] at this; cases this
      have hAr' : ∀ g, s.timer ≠ some (g, true) := by
        intro g hg; have := hAr g hg; rw [hC] at this; omega
      cases hs
      split
      · rename_i hcond
        refine ⟨hN, hM', ?_, hG', hA', ?_, fun h0 => absurd h0 hI', ?_, hCl, hSt, fun h0 => absurd h0 hR', hIso, hFU, hFT⟩
        · show s.active - 1 = _
          rw [hC]; exact hcount.symm
        · intro g _; exact hcond.1
        · intro hi; rw [hi] at hcond; simp at hcond
      · refine ⟨hN, hM', ?_, hG', hA', ?_, fun h0 => absurd h0 hI', hNI, hCl, hSt, fun h0 => absurd h0 hR', hIso, hFU, hFT⟩
        · show s.active - 1 = _
          rw [hC]; exact hcount.symm
        · intro g hg; exact absurd hg (hAr' g)
    · cases hs
  | ret =>
    simp only [step] at hs
    split at hs
    · rename_i hg
      obtain ⟨hm, hall⟩ := hg
      cases hs
      refine ⟨hN, hM, hC, ?_, ?_, hAr, ?_, hNI, ?_, ?_, ?_, hIso, ?_, ?_⟩
      · intro i hi; cases hi
      · intro i hi; have := hA i hi; rw [hm] at this; cases this
      · intro h0; cases h0
      · intro _; exact Or.inr rfl
      · intro _; exact hSt (by rw [hm]; rfl)
      · intro _ i hi
        simp only [List.all_eq_true, decide_eq_true_eq] at hall
        have h1 := hall i hi
        have h2 : s.stage i ≠ .absent := (hM i).2 hi
        have h3 : s.stage i ≠ .accepted := by
          intro e; have := hA i e; rw [hm] at this; cases this
        cases hst : s.stage i <;> simp_all
      · intro _; exact ⟨fun h0 => absurd rfl h0.2, fun _ => rfl⟩
      · intro _; rfl
    · cases hs
  | tick t =>
    simp only [step] at hs
    cases hs
    exact ⟨hN, hM, hC, hG, hA, hAr, hI, hNI, hCl, hSt, hR, hIso, hFU, hFT⟩
  | expire g =>
    simp only [step] at hs
    split at hs
    · rename_i hg
      cases hs
      have hne : s.timer ≠ none := by rw [hg.1]; simp
      split
      · refine ⟨hN, hM, hC, hG, hA, ?_, ?_, ?_, ?_, ?_, hR, hIso, hFU, hFT⟩
        · intro g' hg'; simp at hg'
        · intro hm; exact absurd (hI hm).2.2.1 hne
        · intro hi; exact absurd (hNI hi).1 hne
        · intro _; exact Or.inl rfl
        · intro _; exact Or.inl rfl
      · refine ⟨hN, hM, hC, hG, hA, ?_, ?_, ?_, hCl, hSt, hR, hIso, hFU, hFT⟩
        · intro g' hg'; simp at hg'
        · intro hm; exact absurd (hI hm).2.2.1 hne
        · intro hi; exact absurd (hNI hi).1 hne
    · cases hs

/-! ### Timed invariant (system `tsys`: a due timer's callback runs without delay) -/

structure TInv (C : Cfg) (s : LState) : Prop where
  armed : ∀ g, s.timer = some (g, true) → s.active = 0 ∧ s.zeroSince + C.T ≤ s.deadline
  cz : s.active = 0 → s.lastCount ≤ s.zeroSince
  mono : s.zeroSince ≤ s.now ∧ s.lastCount ≤ s.now
  nofired : s.fired = []

theorem tinv_init (C : Cfg) : TInv C init := by
  constructor <;> simp [init]

theorem tinv_step (C : Cfg) (hTG : C.T ≤ C.G) (s s' : LState) (a : Act) (hI : Inv C s) (h : TInv C s)
    (hs : (tsys C).step s a = some s') : TInv C s' := by
  obtain ⟨hA, hZ, hM, hF⟩ := h
  have hnn : 0 ≤ s.active := by rw [hI.cnt]; exact Int.natCast_nonneg _
  cases a with
  | fire g => simp [tsys] at hs
  | timerRun g => simp [tsys] at hs
  | bind st =>
    simp only [tsys, step] at hs
    split at hs
    · rename_i hm
      have h0 := (hI.initS hm).1
      cases hs
      split
      · refine ⟨?_, hZ, hM, hF⟩
        intro g _
        refine ⟨h0, ?_⟩
        simp only [arm]
        have := hM.1
        omega
      · exact ⟨hA, hZ, hM, hF⟩
    · cases hs
  | accept c =>
    simp only [tsys, step] at hs
    split at hs
    · cases hs; exact ⟨hA, hZ, hM, hF⟩
    · cases hs
  | count =>
    simp only [tsys, step] at hs
    split at hs
    · cases hs
      refine ⟨?_, ?_, ?_, hF⟩
      · intro g hg; simp [disarm] at hg
      · intro h0; simp only [disarm] at h0; omega
      · simp only [disarm]; exact ⟨hM.1, Nat.le_refl _⟩
    · cases hs
  | send c x =>
    simp only [tsys, step] at hs
    split at hs
    · cases hs; exact ⟨hA, hZ, hM, hF⟩
    · cases hs
  | serveOne c =>
    simp only [tsys, step] at hs
    split at hs
    · split at hs
      · cases hs
      · cases hs; exact ⟨hA, hZ, hM, hF⟩
    · cases hs
  | connDone c =>
    simp only [tsys, step] at hs
    split at hs
    · rename_i hsc
      have hcin : c ∈ s.ids := (hI.mem c).1 (by rw [hsc]; simp)
      have hpos : 0 < openCount s := by
        simp only [openCount, List.countP_pos_iff]; exact ⟨c, hcin, by simp [hsc]⟩
      have hap : 1 ≤ s.active := by rw [hI.cnt]; omega
      have hna : ∀ g, s.timer ≠ some (g, true) := by
        intro g hg; have := (hA g hg).1; omega
      cases hs
      split
      · rename_i hcond
        refine ⟨?_, ?_, ?_, hF⟩
        · intro g _
          refine ⟨hcond.1, ?_⟩
          simp only [arm]
          have h0 : s.active - 1 = 0 := hcond.1
          simp only [h0, if_true]
          omega
        · intro h0
          have h0' : s.active - 1 = 0 := h0
          simp only [arm, h0', if_true]
          exact hM.2
        · simp only [arm]
          refine ⟨?_, hM.2⟩
          split
          · exact Nat.le_refl _
          · exact hM.1
      · refine ⟨?_, ?_, ?_, hF⟩
        · intro g hg; exact absurd hg (hna g)
        · intro h0
          have h0' : s.active - 1 = 0 := h0
          simp only [h0', if_true]
          exact hM.2
        · refine ⟨?_, hM.2⟩
          show (if s.active - 1 = 0 then s.now else s.zeroSince) ≤ s.now
          split
          · exact Nat.le_refl _
          · exact hM.1
    · cases hs
  | acceptErr f =>
    simp only [tsys, step] at hs
    split at hs
    · cases hs; exact ⟨hA, hZ, hM, hF⟩
    · cases hs
  | leave =>
    simp only [tsys, step] at hs
    split at hs
    · cases hs
      refine ⟨?_, hZ, hM, hF⟩
      intro g hg; simp [disarm] at hg
    · cases hs
  | ret =>
    simp only [tsys, step] at hs
    split at hs
    · cases hs; exact ⟨hA, hZ, hM, hF⟩
    · cases hs
  | tick t =>
    simp only [tsys, step] at hs
    cases hs
    refine ⟨hA, hZ, ?_, hF⟩
    have := hM
    exact ⟨by simp only; omega, by simp only; omega⟩
  | expire g =>
    simp only [tsys, step] at hs
    split at hs
    · cases hs
      split
      · refine ⟨?_, hZ, hM, hF⟩
        intro g' hg'; simp at hg'
      · refine ⟨?_, hZ, hM, hF⟩
        intro g' hg'; simp at hg'
    · cases hs

end Vgi.Listener
