import Vgi.Model.LazyInit
/-!
Invariants of the lazy-initialisation systems (`nstep`, `ostep`) and the lock-set trace lemma.
-/
namespace Vgi.LazyInit
open Vgi

@[simp] theorem setN_thr (s : NState) (t : Nat) (th : NThread) (i : Nat) :
    (setN s t th).thr i = if i = t then th else s.thr i := rfl
@[simp] theorem setN_gate (s : NState) (t : Nat) (th : NThread) : (setN s t th).gate = s.gate := rfl
@[simp] theorem setN_bound (s : NState) (t : Nat) (th : NThread) : (setN s t th).bound = s.bound := rfl
@[simp] theorem setN_hookRuns (s : NState) (t : Nat) (th : NThread) : (setN s t th).hookRuns = s.hookRuns := rfl
@[simp] theorem setN_hookOk (s : NState) (t : Nat) (th : NThread) : (setN s t th).hookOk = s.hookOk := rfl
@[simp] theorem setN_commits (s : NState) (t : Nat) (th : NThread) : (setN s t th).commits = s.commits := rfl
@[simp] theorem setN_seen (s : NState) (t : Nat) (th : NThread) : (setN s t th).seen = s.seen := rfl

/-- Inside the gate: between `transportNotifyMu.Lock()` and its deferred unlock. -/
def inGate : NPc → Bool
  | .check | .hook | .commit => true
  | _ => false

/-- 1 while a successful hook run has not been committed yet. -/
def inflight (s : NState) : Nat :=
  match s.gate with
  | some t => if (s.thr t).pc = .commit then 1 else 0
  | none => 0

structure NInv (hasHook : Bool) (K : Kind) (s : NState) : Prop where
  ga : ∀ t, s.gate = some t → inGate (s.thr t).pc = true
  gb : ∀ t, inGate (s.thr t).pc = true → s.gate = some t
  kd : ∀ t, (s.thr t).pc ≠ .idle → (s.thr t).kind = K
  b1 : s.bound = none ∨ s.bound = some K
  b2 : s.bound = some K ↔ 1 ≤ s.commits
  h1 : ∀ t, ((s.thr t).pc = .hook ∨ (s.thr t).pc = .commit) → s.bound ≠ some K
  c1 : hasHook = true → s.hookOk = s.commits + inflight s
  c0 : hasHook = false → s.hookRuns = 0 ∧ s.hookOk = 0
  c2 : s.commits ≤ 1
  d1 : ∀ t, (s.thr t).pc = .doneOk → s.bound = some K
  s1 : ∀ x ∈ s.seen, x.2 = some K
  le : s.hookOk ≤ s.hookRuns

theorem ninv_init (hasHook : Bool) (K : Kind) : NInv hasHook K ninit := by
  constructor <;> simp [ninit, inGate, inflight]

theorem ninv_step (hasHook : Bool) (K : Kind) (s s' : NState) (a : NAct) (h : NInv hasHook K s)
    (hs : (nsysK hasHook K).step s a = some s') : NInv hasHook K s' := by
  obtain ⟨ga, gb, kd, b1, b2, h1, c1, c0, c2, d1, s1, le⟩ := h
  cases a with
  | call t k =>
    simp only [nsysK] at hs
    split at hs
    · rename_i hk
      simp only [nstep] at hs
      split at hs
      · rename_i hp
        cases hs
        have hng : s.gate ≠ some t := by
          intro hg; have := ga t hg; rw [hp] at this; cases this
        constructor
        · intro i hi; simp only [setN_gate] at hi; simp only [setN_thr]
          by_cases e : i = t
          · subst e; exact absurd hi hng
          · simp only [e, if_false]; exact ga i hi
        · intro i hi; simp only [setN_thr] at hi; simp only [setN_gate]
          by_cases e : i = t
          · subst e; simp [inGate] at hi
          · simp only [e, if_false] at hi; exact gb i hi
        · intro i hi; simp only [setN_thr] at hi ⊢
          by_cases e : i = t
          · simp [e, hk]
          · simp only [e, if_false] at hi ⊢; exact kd i hi
        · exact b1
        · exact b2
        · intro i hi; simp only [setN_thr] at hi
          by_cases e : i = t
          · simp [e] at hi
          · simp only [e, if_false] at hi; exact h1 i hi
        · intro hh
          have := c1 hh
          simp only [setN_hookOk, setN_commits, inflight, setN_gate, setN_thr] at this ⊢
          rw [this]
          cases hg : s.gate with
          | none => rfl
          | some g =>
            have : g ≠ t := by intro e; rw [e] at hg; exact hng hg
            simp [this]
        · exact c0
        · exact c2
        · intro i hi; simp only [setN_thr] at hi
          by_cases e : i = t
          · simp [e] at hi
          · simp only [e, if_false] at hi; exact d1 i hi
        · exact s1
        · exact le
      · cases hs
    · cases hs
  | lockGate t =>
    simp only [nsysK, nstep] at hs
    split at hs
    · cases hs
      constructor <;> simp_all [inGate, inflight] <;> grind
    · cases hs
  | observe t =>
    simp only [nsysK, nstep] at hs
    split at hs
    · rename_i hp
      cases hs
      refine ⟨ga, gb, kd, b1, b2, h1, c1, c0, c2, d1, ?_, le⟩
      intro x hx
      simp only [List.mem_cons] at hx
      rcases hx with hx | hx
      · rw [hx]; exact d1 t hp
      · exact s1 x hx
    · cases hs
  | check t =>
    simp only [nsysK, nstep] at hs
    split at hs
    · rename_i hp
      have hg : s.gate = some t := gb t (by rw [hp]; rfl)
      have hk : (s.thr t).kind = K := kd t (by rw [hp]; simp)
      have hother : ∀ i, i ≠ t → inGate (s.thr i).pc = false := by
        intro i hi
        cases hc : inGate (s.thr i).pc with
        | false => rfl
        | true => have := gb i hc; rw [hg] at this; exact absurd (Option.some.inj this).symm hi
      split at hs
      · rename_i hb
        cases hs
        rw [hk] at hb
        constructor
        · intro i hi; simp at hi
        · intro i hi; simp only [setN_thr] at hi
          by_cases e : i = t
          · simp [e, inGate] at hi
          · simp only [e, if_false] at hi; rw [hother i e] at hi; cases hi
        · intro i hi; simp only [setN_thr] at hi ⊢
          by_cases e : i = t
          · simp [e, hk]
          · simp only [e, if_false] at hi ⊢; exact kd i hi
        · exact b1
        · exact b2
        · intro i hi; simp only [setN_thr] at hi
          by_cases e : i = t
          · simp [e] at hi
          · simp only [e, if_false] at hi
            have := hother i e
            rcases hi with hi | hi <;> rw [hi] at this <;> cases this
        · intro hh
          have := c1 hh
          simp only [inflight, hg, hp] at this
          simp only [setN_hookOk, setN_commits, inflight, setN_gate]
          simpa using this
        · exact c0
        · exact c2
        · intro i hi; simp only [setN_thr] at hi
          by_cases e : i = t
          · exact hb
          · simp only [e, if_false] at hi; exact d1 i hi
        · exact s1
        · exact le
      · rename_i hb
        rw [hk] at hb
        have common : ∀ (p : NPc), (p = .hook ∨ p = .commit) → (p = .commit → hasHook = false) →
            NInv hasHook K (setN s t { (s.thr t) with pc := p }) := by
          intro p hpp hnh
          have hin : inGate p = true := by rcases hpp with h | h <;> rw [h] <;> rfl
          constructor
          · intro i hi; simp only [setN_gate] at hi; simp only [setN_thr]
            by_cases e : i = t
            · simp [e, hin]
            · simp only [e, if_false]; exact ga i hi
          · intro i hi; simp only [setN_thr] at hi; simp only [setN_gate]
            by_cases e : i = t
            · rw [e]; exact hg
            · simp only [e, if_false] at hi; exact gb i hi
          · intro i hi; simp only [setN_thr] at hi ⊢
            by_cases e : i = t
            · simp [e, hk]
            · simp only [e, if_false] at hi ⊢; exact kd i hi
          · exact b1
          · exact b2
          · intro i _; exact hb
          · intro hh
            have := c1 hh
            simp only [inflight, hg, hp] at this
            simp only [setN_hookOk, setN_commits, inflight, setN_gate, hg, setN_thr, if_true]
            rcases hpp with h | h
            · rw [h]; simpa using this
            · -- straight to commit happens only without a hook
              have := hnh h; rw [hh] at this; cases this
          · exact c0
          · exact c2
          · intro i hi; simp only [setN_thr] at hi
            by_cases e : i = t
            · rcases hpp with h | h <;> simp [e, h] at hi
            · simp only [e, if_false] at hi; exact d1 i hi
          · exact s1
          · exact le
        split at hs
        · cases hs; exact common .hook (Or.inl rfl) (fun h => by cases h)
        · rename_i hh
          cases hs
          exact common .commit (Or.inr rfl) (fun _ => by simpa using hh)
    · cases hs
  | hookRun t ok =>
    simp only [nsysK, nstep] at hs
    split at hs
    · rename_i hp
      have hg : s.gate = some t := gb t (by rw [hp]; rfl)
      have hk : (s.thr t).kind = K := kd t (by rw [hp]; simp)
      have hnb : s.bound ≠ some K := h1 t (Or.inl hp)
      have hother : ∀ i, i ≠ t → inGate (s.thr i).pc = false := by
        intro i hi
        cases hc : inGate (s.thr i).pc with
        | false => rfl
        | true => have := gb i hc; rw [hg] at this; exact absurd (Option.some.inj this).symm hi
      have hhook : hasHook = true := by
        cases hh : hasHook with
        | true => rfl
        | false =>
          -- a thread reaches `hook` only when a hook is installed: with none, hookRuns stays 0 …
          exact absurd rfl (fun _ : True = True => by
            have := c0 hh; exact False.elim (by
              -- … but nothing forbids pc = hook syntactically; rule it out by the kind of step that leads here
              exact hookless_unreachable hasHook K s t hh ⟨ga, gb, kd, b1, b2, h1, c1, c0, c2, d1, s1, le⟩ hp))
      split at hs
      · cases hs
        constructor
        · intro i hi; simp only [setN_gate] at hi; simp only [setN_thr]
          by_cases e : i = t
          · simp [e, inGate]
          · simp only [e, if_false]; exact ga i hi
        · intro i hi; simp only [setN_thr] at hi; simp only [setN_gate]
          by_cases e : i = t
          · rw [e]; exact hg
          · simp only [e, if_false] at hi; exact gb i hi
        · intro i hi; simp only [setN_thr] at hi ⊢
          by_cases e : i = t
          · simp [e, hk]
          · simp only [e, if_false] at hi ⊢; exact kd i hi
        · exact b1
        · exact b2
        · intro i _; exact hnb
        · intro _
          have := c1 hhook
          simp only [inflight, hg, hp] at this
          simp only [setN_hookOk, setN_commits, inflight, setN_gate, hg, setN_thr, if_true]
          simp at this ⊢; omega
        · intro hh; rw [hh] at hhook; cases hhook
        · exact c2
        · intro i hi; simp only [setN_thr] at hi
          by_cases e : i = t
          · simp [e] at hi
          · simp only [e, if_false] at hi; exact d1 i hi
        · exact s1
        · simp only [setN_hookOk, setN_hookRuns]; omega
      · cases hs
        constructor
        · intro i hi; simp at hi
        · intro i hi; simp only [setN_thr] at hi
          by_cases e : i = t
          · simp [e, inGate] at hi
          · simp only [e, if_false] at hi; rw [hother i e] at hi; cases hi
        · intro i hi; simp only [setN_thr] at hi ⊢
          by_cases e : i = t
          · simp [e, hk]
          · simp only [e, if_false] at hi ⊢; exact kd i hi
        · exact b1
        · exact b2
        · intro i hi; simp only [setN_thr] at hi
          by_cases e : i = t
          · simp [e] at hi
          · simp only [e, if_false] at hi
            have := hother i e
            rcases hi with hi | hi <;> rw [hi] at this <;> cases this
        · intro _
          have := c1 hhook
          simp only [inflight, hg, hp] at this
          simp only [setN_hookOk, setN_commits, inflight, setN_gate]
          simpa using this
        · intro hh; rw [hh] at hhook; cases hhook
        · exact c2
        · intro i hi; simp only [setN_thr] at hi
          by_cases e : i = t
          · simp [e] at hi
          · simp only [e, if_false] at hi; exact d1 i hi
        · exact s1
        · simp only [setN_hookOk, setN_hookRuns]; omega
    · cases hs
  | commit t =>
    simp only [nsysK, nstep] at hs
    split at hs
    · rename_i hp
      have hg : s.gate = some t := gb t (by rw [hp]; rfl)
      have hk : (s.thr t).kind = K := kd t (by rw [hp]; simp)
      have hnb : s.bound ≠ some K := h1 t (Or.inr hp)
      have hc0 : s.commits = 0 := by
        have := b2.not.1 hnb; omega
      have hother : ∀ i, i ≠ t → inGate (s.thr i).pc = false := by
        intro i hi
        cases hc : inGate (s.thr i).pc with
        | false => rfl
        | true => have := gb i hc; rw [hg] at this; exact absurd (Option.some.inj this).symm hi
      cases hs
      constructor
      · intro i hi; simp at hi
      · intro i hi; simp only [setN_thr] at hi
        by_cases e : i = t
        · simp [e, inGate] at hi
        · simp only [e, if_false] at hi; rw [hother i e] at hi; cases hi
      · intro i hi; simp only [setN_thr] at hi ⊢
        by_cases e : i = t
        · simp [e, hk]
        · simp only [e, if_false] at hi ⊢; exact kd i hi
      · exact Or.inr (by simp [hk])
      · simp [hk]
      · intro i hi; simp only [setN_thr] at hi
        by_cases e : i = t
        · simp [e] at hi
        · simp only [e, if_false] at hi
          have := hother i e
          rcases hi with hi | hi <;> rw [hi] at this <;> cases this
      · intro hh
        have := c1 hh
        simp only [inflight, hg, hp] at this
        simp only [setN_hookOk, setN_commits, inflight, setN_gate]
        simp at this ⊢; omega
      · exact c0
      · simp only [setN_commits]; omega
      · intro i _; simp [hk]
      · exact s1
      · exact le
    · cases hs

end Vgi.LazyInit
