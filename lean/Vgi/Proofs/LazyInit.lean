import Vgi.Model.LazyInit
/-!
Invariants of the lazy-initialisation systems (`nstep`, `ostep`) and the lock-set trace lemma.
-/
namespace Vgi.LazyInit
open Vgi

@[simp] theorem setN_thr (s : NState) (t : Nat) (th : NThread) (i : Nat) :
    (setN s t th).thr i = if i = t then th else s.thr i := rfl
@[simp] theorem setN_gate (s : NState) (t : Nat) (th : NThread) : (setN s t th).gate = s.gate := rfl
@[simp] theorem setN_bound (s : NState) (t : Nat) (th : NThread) : (setN s t th).bound = s.bound := rfl
@[simp] theorem setN_hookRuns (s : NState) (t : Nat) (th : NThread) : (setN s t th).hookRuns = s.hookRuns := rfl
@[simp] theorem setN_hookOk (s : NState) (t : Nat) (th : NThread) : (setN s t th).hookOk = s.hookOk := rfl
@[simp] theorem setN_commits (s : NState) (t : Nat) (th : NThread) : (setN s t th).commits = s.commits := rfl
@[simp] theorem setN_seen (s : NState) (t : Nat) (th : NThread) : (setN s t th).seen = s.seen := rfl

/-- Inside the gate: between `transportNotifyMu.Lock()` and its deferred unlock. -/
def inGate : NPc → Bool
  | .check | .hook | .commit => true
  | _ => false

/-- 1 while a successful hook run has not been committed yet. -/
def inflight (s : NState) : Nat :=
  match s.gate with
  | some t => if (s.thr t).pc = .commit then 1 else 0
  | none => 0

structure NInv (hasHook : Bool) (K : Kind) (s : NState) : Prop where
  ga : ∀ t, s.gate = some t → inGate (s.thr t).pc = true
  gb : ∀ t, inGate (s.thr t).pc = true → s.gate = some t
  kd : ∀ t, (s.thr t).pc ≠ .idle → (s.thr t).kind = K
  b1 : s.bound = none ∨ s.bound = some K
  b2 : s.bound = some K ↔ 1 ≤ s.commits
  h1 : ∀ t, ((s.thr t).pc = .hook ∨ (s.thr t).pc = .commit) → s.bound ≠ some K
  c1 : hasHook = true → s.hookOk = s.commits + inflight s
  c0 : hasHook = false → s.hookRuns = 0 ∧ s.hookOk = 0
  c2 : s.commits ≤ 1
  d1 : ∀ t, (s.thr t).pc = .doneOk → s.bound = some K
  s1 : ∀ x ∈ s.seen, x.2 = some K
  le : s.hookOk ≤ s.hookRuns
  hh : ∀ t, (s.thr t).pc = .hook → hasHook = true

theorem ninv_init (hasHook : Bool) (K : Kind) : NInv hasHook K ninit := by
  constructor <;> simp [ninit, inGate, inflight]

theorem ninv_step (hasHook : Bool) (K : Kind) (s s' : NState) (a : NAct) (h : NInv hasHook K s)
    (hs : (nsysK hasHook K).step s a = some s') : NInv hasHook K s' := by
  obtain ⟨ga, gb, kd, b1, b2, h1, c1, c0, c2, d1, s1, le, hhk⟩ := h
  cases a with
  | call t k =>
    simp only [nsysK] at hs
    split at hs
    · rename_i hk
      simp only [nstep] at hs
      split at hs
      · rename_i hp
        cases hs
        have hng : s.gate ≠ some t := by
          intro hg; have := ga t hg; rw [hp] at this; cases this
        constructor
        · intro i hi; simp only [setN_gate] at hi; simp only [setN_thr]
          by_cases e : i = t
          · subst e; exact absurd hi hng
          · simp only [e, if_false]; exact ga i hi
        · intro i hi; simp only [setN_thr] at hi; simp only [setN_gate]
          by_cases e : i = t
          · subst e; simp [inGate] at hi
          · simp only [e, if_false] at hi; exact gb i hi
        · intro i hi; simp only [setN_thr] at hi ⊢
          by_cases e : i = t
          · simp [e, hk]
          · simp only [e, if_false] at hi ⊢; exact kd i hi
        · exact b1
        · exact b2
        · intro i hi; simp only [setN_thr] at hi
          by_cases e : i = t
          · simp [e] at hi
          · simp only [e, if_false] at hi; exact h1 i hi
        · intro hh
          have := c1 hh
          simp only [setN_hookOk, setN_commits, inflight, setN_gate, setN_thr] at this ⊢
          rw [this]
          cases hg : s.gate with
          | none => rfl
          | some g =>
            have : g ≠ t := by intro e; rw [e] at hg; exact hng hg
            simp [this]
        · exact c0
        · exact c2
        · intro i hi; simp only [setN_thr] at hi
          by_cases e : i = t
          · simp [e] at hi
          · simp only [e, if_false] at hi; exact d1 i hi
        · exact s1
        · exact le
        · intro i hi; simp only [setN_thr] at hi
          by_cases e : i = t
          · simp [e] at hi
          · simp only [e, if_false] at hi; exact hhk i hi
      · cases hs
    · cases hs
  | lockGate t =>
    simp only [nsysK, nstep] at hs
    split at hs
    · cases hs
      constructor <;> simp_all [inGate, inflight] <;> grind
    · cases hs
  | observe t =>
    simp only [nsysK, nstep] at hs
    split at hs
    · rename_i hp
      cases hs
      refine ⟨ga, gb, kd, b1, b2, h1, c1, c0, c2, d1, ?_, le, hhk⟩
      intro x hx
      simp only [List.mem_cons] at hx
      rcases hx with hx | hx
      · rw [hx]; exact d1 t hp
      · exact s1 x hx
    · cases hs
  | check t =>
    simp only [nsysK, nstep] at hs
    split at hs
    · rename_i hp
      have hg : s.gate = some t := gb t (by rw [hp]; rfl)
      have hk : (s.thr t).kind = K := kd t (by rw [hp]; simp)
      have hother : ∀ i, i ≠ t → inGate (s.thr i).pc = false := by
        intro i hi
        cases hc : inGate (s.thr i).pc with
        | false => rfl
        | true => have := gb i hc; rw [hg] at this; exact absurd (Option.some.inj this).symm hi
      split at hs
      · rename_i hb
        cases hs
        rw [hk] at hb
        constructor
        · intro i hi; simp at hi
        · intro i hi; simp only [setN_thr] at hi
          by_cases e : i = t
          · simp [e, inGate] at hi
          · simp only [e, if_false] at hi; rw [hother i e] at hi; cases hi
        · intro i hi; simp only [setN_thr] at hi ⊢
          by_cases e : i = t
          · simp [e, hk]
          · simp only [e, if_false] at hi ⊢; exact kd i hi
        · exact b1
        · exact b2
        · intro i hi; simp only [setN_thr] at hi
          by_cases e : i = t
          · simp [e] at hi
          · simp only [e, if_false] at hi
            have := hother i e
            rcases hi with hi | hi <;> rw [hi] at this <;> cases this
        · intro hh
          have := c1 hh
          simp only [inflight, hg, hp] at this
          simp only [setN_hookOk, setN_commits, inflight, setN_gate]
          simpa using this
        · exact c0
        · exact c2
        · intro i hi; simp only [setN_thr] at hi
          by_cases e : i = t
          · exact hb
          · simp only [e, if_false] at hi; exact d1 i hi
        · exact s1
        · exact le
        · intro i hi; simp only [setN_thr] at hi
          by_cases e : i = t
          · simp [e] at hi
          · simp only [e, if_false] at hi; exact hhk i hi
      · rename_i hb
        rw [hk] at hb
        have common : ∀ (p : NPc), (p = .hook ∨ p = .commit) → (p = .commit → hasHook = false) →
            (p = .hook → hasHook = true) →
            NInv hasHook K (setN s t { (s.thr t) with pc := p }) := by
          intro p hpp hnh hhook_of
          have hin : inGate p = true := by rcases hpp with h | h <;> rw [h] <;> rfl
          constructor
          · intro i hi; simp only [setN_gate] at hi; simp only [setN_thr]
            by_cases e : i = t
            · simp [e, hin]
            · simp only [e, if_false]; exact ga i hi
          · intro i hi; simp only [setN_thr] at hi; simp only [setN_gate]
            by_cases e : i = t
            · rw [e]; exact hg
            · simp only [e, if_false] at hi; exact gb i hi
          · intro i hi; simp only [setN_thr] at hi ⊢
            by_cases e : i = t
            · simp [e, hk]
            · simp only [e, if_false] at hi ⊢; exact kd i hi
          · exact b1
          · exact b2
          · intro i _; exact hb
          · intro hh
            have := c1 hh
            simp only [inflight, hg, hp] at this
            simp only [setN_hookOk, setN_commits, inflight, setN_gate, hg, setN_thr, if_true]
            rcases hpp with h | h
            · rw [h]; simpa using this
            · -- straight to commit happens only without a hook
              have := hnh h; rw [hh] at this; cases this
          · exact c0
          · exact c2
          · intro i hi; simp only [setN_thr] at hi
            by_cases e : i = t
            · rcases hpp with h | h <;> simp [e, h] at hi
            · simp only [e, if_false] at hi; exact d1 i hi
          · exact s1
          · exact le
          · intro i hi; simp only [setN_thr] at hi
            by_cases e : i = t
            · simp only [e, if_true] at hi
              cases hhv : hasHook with
              | true => rfl
              | false =>
                rcases hpp with h | h
                · exact absurd hhv (by simpa using hhook_of h)
                · rw [h] at hi; cases hi
            · simp only [e, if_false] at hi; exact hhk i hi
        split at hs
        · rename_i hht
          cases hs; exact common .hook (Or.inl rfl) (fun h => by cases h) (fun _ => hht)
        · rename_i hh
          cases hs
          exact common .commit (Or.inr rfl) (fun _ => by simpa using hh) (fun h => by cases h)
    · cases hs
  | hookRun t ok =>
    simp only [nsysK, nstep] at hs
    split at hs
    · rename_i hp
      have hg : s.gate = some t := gb t (by rw [hp]; rfl)
      have hk : (s.thr t).kind = K := kd t (by rw [hp]; simp)
      have hnb : s.bound ≠ some K := h1 t (Or.inl hp)
      have hother : ∀ i, i ≠ t → inGate (s.thr i).pc = false := by
        intro i hi
        cases hc : inGate (s.thr i).pc with
        | false => rfl
        | true => have := gb i hc; rw [hg] at this; exact absurd (Option.some.inj this).symm hi
      have hhook : hasHook = true := hhk t hp
      split at hs
      · cases hs
        constructor
        · intro i hi; simp only [setN_gate] at hi; simp only [setN_thr]
          by_cases e : i = t
          · simp [e, inGate]
          · simp only [e, if_false]; exact ga i hi
        · intro i hi; simp only [setN_thr] at hi; simp only [setN_gate]
          by_cases e : i = t
          · rw [e]; exact hg
          · simp only [e, if_false] at hi; exact gb i hi
        · intro i hi; simp only [setN_thr] at hi ⊢
          by_cases e : i = t
          · simp [e, hk]
          · simp only [e, if_false] at hi ⊢; exact kd i hi
        · exact b1
        · exact b2
        · intro i _; exact hnb
        · intro _
          have := c1 hhook
          simp only [inflight, hg, hp] at this
          simp only [setN_hookOk, setN_commits, inflight, setN_gate, hg, setN_thr, if_true]
          simp at this ⊢; omega
        · intro hh; rw [hh] at hhook; cases hhook
        · exact c2
        · intro i hi; simp only [setN_thr] at hi
          by_cases e : i = t
          · simp [e] at hi
          · simp only [e, if_false] at hi; exact d1 i hi
        · exact s1
        · simp only [setN_hookOk, setN_hookRuns]; omega
        · intro i _; exact hhook
      · cases hs
        constructor
        · intro i hi; simp at hi
        · intro i hi; simp only [setN_thr] at hi
          by_cases e : i = t
          · simp [e, inGate] at hi
          · simp only [e, if_false] at hi; rw [hother i e] at hi; cases hi
        · intro i hi; simp only [setN_thr] at hi ⊢
          by_cases e : i = t
          · simp [e, hk]
          · simp only [e, if_false] at hi ⊢; exact kd i hi
        · exact b1
        · exact b2
        · intro i hi; simp only [setN_thr] at hi
          by_cases e : i = t
          · simp [e] at hi
          · simp only [e, if_false] at hi
            have := hother i e
            rcases hi with hi | hi <;> rw [hi] at this <;> cases this
        · intro _
          have := c1 hhook
          simp only [inflight, hg, hp] at this
          simp only [setN_hookOk, setN_commits, inflight, setN_gate]
          simpa using this
        · intro hh; rw [hh] at hhook; cases hhook
        · exact c2
        · intro i hi; simp only [setN_thr] at hi
          by_cases e : i = t
          · simp [e] at hi
          · simp only [e, if_false] at hi; exact d1 i hi
        · exact s1
        · simp only [setN_hookOk, setN_hookRuns]; omega
        · intro i _; exact hhook
    · cases hs
  | commit t =>
    simp only [nsysK, nstep] at hs
    split at hs
    · rename_i hp
      have hg : s.gate = some t := gb t (by rw [hp]; rfl)
      have hk : (s.thr t).kind = K := kd t (by rw [hp]; simp)
      have hnb : s.bound ≠ some K := h1 t (Or.inr hp)
      have hc0 : s.commits = 0 := by
        have : ¬ 1 ≤ s.commits := fun h => hnb (b2.2 h)
        omega
      have hother : ∀ i, i ≠ t → inGate (s.thr i).pc = false := by
        intro i hi
        cases hc : inGate (s.thr i).pc with
        | false => rfl
        | true => have := gb i hc; rw [hg] at this; exact absurd (Option.some.inj this).symm hi
      cases hs
      constructor
      · intro i hi; simp at hi
      · intro i hi; simp only [setN_thr] at hi
        by_cases e : i = t
        · simp [e, inGate] at hi
        · simp only [e, if_false] at hi; rw [hother i e] at hi; cases hi
      · intro i hi; simp only [setN_thr] at hi ⊢
        by_cases e : i = t
        · simp [e, hk]
        · simp only [e, if_false] at hi ⊢; exact kd i hi
      · exact Or.inr (by simp [hk])
      · simp [hk]
      · intro i hi; simp only [setN_thr] at hi
        by_cases e : i = t
        · simp [e] at hi
        · simp only [e, if_false] at hi
          have := hother i e
          rcases hi with hi | hi <;> rw [hi] at this <;> cases this
      · intro hh
        have := c1 hh
        simp only [inflight, hg, hp] at this
        simp only [setN_hookOk, setN_commits, inflight, setN_gate]
        simp at this ⊢; omega
      · exact c0
      · simp only [setN_commits]; omega
      · intro i _; simp [hk]
      · exact s1
      · exact le
      · intro i hi; simp only [setN_thr] at hi
        by_cases e : i = t
        · simp [e] at hi
        · simp only [e, if_false] at hi; exact hhk i hi
    · cases hs

/-! ### sync.Once cells -/

@[simp] theorem setO_pc (s : OState) (t : Nat) (p : OPc) (i : Nat) :
    (setO s t p).pc i = if i = t then p else s.pc i := rfl

structure OInv (v : Nat) (s : OState) : Prop where
  ra : ∀ t, s.running = some t → s.pc t = .computing
  rb : ∀ t, s.pc t = .computing → s.running = some t
  nd : ∀ t, s.pc t = .computing → s.done = false
  d0 : s.done = false → s.computes = 0
  d1 : s.done = true → s.computes = 1 ∧ s.value = some v
  af : ∀ t, s.pc t = .after → s.done = true
  rd : ∀ x ∈ s.reads, x.2 = some v

theorem oinv_init (v : Nat) : OInv v oinit := by
  constructor <;> simp [oinit]

theorem oinv_step (v : Nat) (s s' : OState) (a : OAct) (h : OInv v s) (hs : ostep v s a = some s') :
    OInv v s' := by
  obtain ⟨ra, rb, nd, d0, d1, af, rd⟩ := h
  cases a with
  | enter t =>
    simp only [ostep] at hs
    split at hs
    · rename_i hp
      cases hs
      have hnr : s.running ≠ some t := by intro hr; have := ra t hr; rw [hp] at this; cases this
      refine ⟨?_, ?_, ?_, d0, d1, ?_, rd⟩
      · intro i hi; simp only [setO_pc]
        by_cases e : i = t
        · subst e; exact absurd hi hnr
        · simp only [e, if_false]; exact ra i hi
      · intro i hi; simp only [setO_pc] at hi
        by_cases e : i = t
        · simp only [e, if_true] at hi; split at hi <;> cases hi
        · simp only [e, if_false] at hi; exact rb i hi
      · intro i hi; simp only [setO_pc] at hi
        by_cases e : i = t
        · simp only [e, if_true] at hi; split at hi <;> cases hi
        · simp only [e, if_false] at hi; exact nd i hi
      · intro i hi; simp only [setO_pc] at hi
        by_cases e : i = t
        · simp only [e, if_true] at hi
          by_cases hd : s.done = true
          · exact hd
          · simp [hd] at hi
        · simp only [e, if_false] at hi; exact af i hi
    · cases hs
  | begin t =>
    simp only [ostep] at hs
    split at hs
    · rename_i hg
      obtain ⟨hp, hr, hd⟩ := hg
      cases hs
      have hnone : ∀ i, s.pc i ≠ .computing := by
        intro i hi; have := rb i hi; rw [hr] at this; cases this
      refine ⟨?_, ?_, ?_, d0, d1, ?_, rd⟩
      · intro i hi
        have hti : t = i := Option.some.inj hi
        subst hti; simp
      · intro i hi; simp only [setO_pc] at hi
        by_cases e : i = t
        · subst e; rfl
        · simp only [e, if_false] at hi; exact absurd hi (hnone i)
      · intro i _; exact hd
      · intro i hi; simp only [setO_pc] at hi
        by_cases e : i = t
        · simp [e] at hi
        · simp only [e, if_false] at hi; exact af i hi
    · cases hs
  | pass t =>
    simp only [ostep] at hs
    split at hs
    · rename_i hg
      obtain ⟨hp, hr, hd⟩ := hg
      cases hs
      refine ⟨?_, ?_, ?_, d0, d1, ?_, rd⟩
      · intro i hi
        have : s.running = some i := hi
        rw [hr] at this; cases this
      · intro i hi; simp only [setO_pc] at hi
        by_cases e : i = t
        · simp [e] at hi
        · simp only [e, if_false] at hi; exact rb i hi
      · intro i hi; simp only [setO_pc] at hi
        by_cases e : i = t
        · simp [e] at hi
        · simp only [e, if_false] at hi; exact nd i hi
      · intro i hi; simp only [setO_pc] at hi
        by_cases e : i = t
        · exact hd
        · simp only [e, if_false] at hi; exact af i hi
    · cases hs
  | finish t =>
    simp only [ostep] at hs
    split at hs
    · rename_i hp
      have hr := rb t hp
      have hd := nd t hp
      have hc := d0 hd
      have hother : ∀ i, i ≠ t → s.pc i ≠ .computing := by
        intro i hi hc'; have := rb i hc'; rw [hr] at this; exact hi (Option.some.inj this).symm
      cases hs
      refine ⟨?_, ?_, ?_, ?_, ?_, ?_, rd⟩
      · intro i hi; cases hi
      · intro i hi; simp only [setO_pc] at hi
        by_cases e : i = t
        · simp [e] at hi
        · simp only [e, if_false] at hi; exact absurd hi (hother i e)
      · intro i hi; simp only [setO_pc] at hi
        by_cases e : i = t
        · simp [e] at hi
        · simp only [e, if_false] at hi; exact absurd hi (hother i e)
      · intro h0; cases h0
      · intro _; exact ⟨by simp [setO, hc], rfl⟩
      · intro i _; rfl
    · cases hs
  | read t =>
    simp only [ostep] at hs
    split at hs
    · rename_i hp
      cases hs
      refine ⟨ra, rb, nd, d0, d1, af, ?_⟩
      intro x hx
      simp only [List.mem_cons] at hx
      rcases hx with hx | hx
      · rw [hx]; exact (d1 (af t hp)).2
      · exact rd x hx
    · cases hs

/-! ### Lock-set discipline: two accesses by different threads are ordered by the mutex -/

/-- From a holder other than `b`, the trace can reach an access of `b` to `f` only through an
acquisition of `l` by `b`. -/
theorem good_needs_acquire (f l b : Nat) (w : Bool) (post : List Ev) :
    ∀ (mid : List Ev) (h : Option Nat), h ≠ some b → Good f l h (mid ++ .acc b f w :: post) →
      ∃ m2 m3, mid = m2 ++ .acq b l :: m3
  | [], h, hne, hg => by
    simp only [List.nil_append, Good] at hg
    exact absurd (hg.1 trivial) hne
  | .acq t l' :: mid, h, hne, hg => by
    simp only [List.cons_append, Good] at hg
    by_cases e : l' = l
    · simp only [e, if_true] at hg
      by_cases et : t = b
      · subst et; subst e; exact ⟨[], mid, by simp⟩
      · obtain ⟨m2, m3, hm⟩ := good_needs_acquire f l b w post mid (some t) (by simpa using et) hg.2
        exact ⟨.acq t l' :: m2, m3, by rw [hm]; rfl⟩
    · simp only [e, if_false] at hg
      obtain ⟨m2, m3, hm⟩ := good_needs_acquire f l b w post mid h hne hg
      exact ⟨.acq t l' :: m2, m3, by rw [hm]; rfl⟩
  | .rel t l' :: mid, h, hne, hg => by
    simp only [List.cons_append, Good] at hg
    by_cases e : l' = l
    · simp only [e, if_true] at hg
      obtain ⟨m2, m3, hm⟩ := good_needs_acquire f l b w post mid none (by simp) hg.2
      exact ⟨.rel t l' :: m2, m3, by rw [hm]; rfl⟩
    · simp only [e, if_false] at hg
      obtain ⟨m2, m3, hm⟩ := good_needs_acquire f l b w post mid h hne hg
      exact ⟨.rel t l' :: m2, m3, by rw [hm]; rfl⟩
  | .acc t f' w' :: mid, h, hne, hg => by
    simp only [List.cons_append, Good] at hg
    obtain ⟨m2, m3, hm⟩ := good_needs_acquire f l b w post mid h hne hg.2
    exact ⟨.acc t f' w' :: m2, m3, by rw [hm]; rfl⟩

/-- While `a` holds `l`, an access of another thread `b` to `f` can only come after `a` released
`l` and `b` then acquired it. -/
theorem good_release_then_acquire (f l a b : Nat) (hab : a ≠ b) (w : Bool) (post : List Ev) :
    ∀ (mid : List Ev), Good f l (some a) (mid ++ .acc b f w :: post) →
      ∃ m1 m2 m3, mid = m1 ++ .rel a l :: (m2 ++ .acq b l :: m3)
  | [], hg => by
    simp only [List.nil_append, Good] at hg
    exact absurd (Option.some.inj (hg.1 trivial)) hab
  | .acq t l' :: mid, hg => by
    simp only [List.cons_append, Good] at hg
    by_cases e : l' = l
    · simp only [e, if_true] at hg; cases hg.1
    · simp only [e, if_false] at hg
      obtain ⟨m1, m2, m3, hm⟩ := good_release_then_acquire f l a b hab w post mid hg
      exact ⟨.acq t l' :: m1, m2, m3, by rw [hm]; rfl⟩
  | .rel t l' :: mid, hg => by
    simp only [List.cons_append, Good] at hg
    by_cases e : l' = l
    · simp only [e, if_true] at hg
      have hta : t = a := (Option.some.inj hg.1).symm
      obtain ⟨m2, m3, hm⟩ := good_needs_acquire f l b w post mid none (by simp) hg.2
      exact ⟨[], m2, m3, by rw [hm, hta, e]; rfl⟩
    · simp only [e, if_false] at hg
      obtain ⟨m1, m2, m3, hm⟩ := good_release_then_acquire f l a b hab w post mid hg
      exact ⟨.rel t l' :: m1, m2, m3, by rw [hm]; rfl⟩
  | .acc t f' w' :: mid, hg => by
    simp only [List.cons_append, Good] at hg
    obtain ⟨m1, m2, m3, hm⟩ := good_release_then_acquire f l a b hab w post mid hg.2
    exact ⟨.acc t f' w' :: m1, m2, m3, by rw [hm]; rfl⟩

/-- Splitting off a prefix: the holder after it. -/
theorem good_after_prefix (f l : Nat) : ∀ (pre : List Ev) (h : Option Nat) (rest : List Ev),
    Good f l h (pre ++ rest) → ∃ h', Good f l h' rest
  | [], h, rest, hg => ⟨h, hg⟩
  | .acq t l' :: pre, h, rest, hg => by
    simp only [List.cons_append, Good] at hg
    by_cases e : l' = l
    · simp only [e, if_true] at hg; exact good_after_prefix f l pre _ rest hg.2
    · simp only [e, if_false] at hg; exact good_after_prefix f l pre _ rest hg
  | .rel t l' :: pre, h, rest, hg => by
    simp only [List.cons_append, Good] at hg
    by_cases e : l' = l
    · simp only [e, if_true] at hg; exact good_after_prefix f l pre _ rest hg.2
    · simp only [e, if_false] at hg; exact good_after_prefix f l pre _ rest hg
  | .acc t f' w' :: pre, h, rest, hg => by
    simp only [List.cons_append, Good] at hg
    exact good_after_prefix f l pre _ rest hg.2

end Vgi.LazyInit
