import Vgi.Proofs.HttpStream
import Vgi.Model.StreamParity
/-!
Lemmas relating the HTTP client runs of `Vgi.StreamParity` to the pipe runs: what a client makes of
flushed batches, what a conformant client's request resolves to, `httpProduce_spec`,
`httpExchange_spec` and the whole-session equality `httpRun_eq_pipeRun` (restated in
`Vgi.Props.C11`).
-/
namespace Vgi.StreamParity
open Vgi Vgi.HttpStream Vgi.Generated.C16

theorem userMetaVal_litMeta : ∀ (md : List (Bytes × Bytes)), userMetaVal (litMeta md) = userMetaLit md
  | [] => rfl
  | kv :: r => by
    simp only [litMeta, List.map_cons, userMetaVal, userMetaLit, List.filter_cons]
    have ih := userMetaVal_litMeta r
    simp only [litMeta, userMetaLit] at ih
    by_cases h : userKey kv.1 = true
    · simp [h, ih]
    · simp [h, ih]

theorem userMetaLit_emit (md : List (Bytes × Bytes)) : userMetaLit (emitUserMeta md) = userMetaLit md := by
  unfold userMetaLit emitUserMeta userKey
  rw [List.filter_filter]
  congr 1
  funext kv
  simp

theorem viewItems_append : ∀ (a b : List RBatch), viewItems (a ++ b) = viewItems a ++ viewItems b
  | [], _ => rfl
  | x :: r, b => by
    cases x <;> simp [viewItems, viewItems_append r b]

theorem viewItems_flushProducer : ∀ (l : List OBatch), viewItems (flushProducer l) = collItems l
  | [] => rfl
  | .log m :: r => by simp [flushProducer, viewItems, collItems, viewItems_flushProducer r]
  | .data vs md :: r => by
    simp [flushProducer, viewItems, collItems, viewItems_flushProducer r, userMetaVal_litMeta, userMetaLit_emit]

def termOf (r : List RBatch × Bool × Option Err) : Term :=
  match r.2.2 with
  | some e => .error e
  | none => .finished

/-- the pipe's producer loop delivers exactly the client's view of `fullRun` -/
theorem pipeProduce_eq : ∀ (ticks : List Tick), pipeProduce ticks = (viewItems (fullRun ticks).1, termOf (fullRun ticks))
  | [] => rfl
  | t :: rest => by
    have ih := pipeProduce_eq rest
    unfold pipeProduce fullRun
    rcases hr : runActs [] (Coll.new true) t with ⟨c, e⟩
    cases e with
    | some err => simp [viewItems, termOf]
    | none =>
      simp only []
      by_cases h1 : (!c.finished && c.dataIdx.isNone) = true
      · simp [h1, viewItems, termOf]
      · simp only [h1, if_false]
        by_cases h2 : c.finished = true
        · simp [h2, termOf, viewItems_flushProducer]
        · simp only [h2, if_false]
          rw [ih]
          simp [viewItems_append, viewItems_flushProducer, termOf]

theorem firstExc_append : ∀ (a b : List RBatch),
    firstExc (a ++ b) = match firstExc a with
      | some e => some e
      | none => firstExc b
  | [], b => by simp [firstExc]
  | x :: r, b => by
    cases x <;> simp [firstExc, firstExc_append r b]

theorem firstExc_flushProducer : ∀ (l : List OBatch), firstExc (flushProducer l) = none
  | [] => rfl
  | .log m :: r => by simp [flushProducer, firstExc, firstExc_flushProducer r]
  | .data vs md :: r => by simp [flushProducer, firstExc, firstExc_flushProducer r]

theorem firstExc_logs (l : List Nat) : firstExc (l.map RBatch.log) = none := by
  induction l with
  | nil => rfl
  | cons a r ih => simp [firstExc, ih]

theorem firstExc_fullRun : ∀ (ticks : List Tick), firstExc (fullRun ticks).1 = (fullRun ticks).2.2
  | [] => rfl
  | t :: rest => by
    have ih := firstExc_fullRun rest
    unfold fullRun
    rcases hr : runActs [] (Coll.new true) t with ⟨c, e⟩
    cases e with
    | some err => simp [firstExc]
    | none =>
      simp only []
      split
      · simp [firstExc]
      · split
        · simp [firstExc_flushProducer]
        · rw [firstExc_append, firstExc_flushProducer]
          exact ih

theorem getFirst_emit_none (k : Bytes) (hk : k = keyState ∨ k = keyCall) :
    ∀ (md : List (Bytes × Bytes)), getFirst k (litMeta (emitUserMeta md)) = none
  | [] => rfl
  | kv :: r => by
    have ih := getFirst_emit_none k hk r
    unfold emitUserMeta at ih ⊢
    simp only [List.filter_cons]
    by_cases h : (kv.1 != keyState && kv.1 != keyCall) = true
    · simp only [h, if_true, litMeta, List.map_cons, getFirst]
      have hne : ¬ kv.1 = k := by
        simp only [Bool.and_eq_true, bne_iff_ne, ne_eq] at h
        rcases hk with rfl | rfl
        · exact h.1
        · exact h.2
      simp only [hne, if_false]
      exact ih
    · simp only [h]
      exact ih

theorem nextCursor_append : ∀ (a b : List RBatch),
    nextCursor (a ++ b) = match nextCursor a with
      | some v => some v
      | none => nextCursor b
  | [], b => by simp [nextCursor]
  | x :: r, b => by
    have ih := nextCursor_append r b
    cases x with
    | log m => simp [nextCursor, ih]
    | exc e => simp [nextCursor, ih]
    | data vs md =>
      simp only [List.cons_append, nextCursor]
      cases getFirst keyState md <;> simp [ih]
    | token md =>
      simp only [List.cons_append, nextCursor]
      cases getFirst keyState md <;> simp [ih]

theorem nextCursor_flushProducer : ∀ (l : List OBatch), nextCursor (flushProducer l) = none
  | [] => rfl
  | .log m :: r => by simp [flushProducer, nextCursor, nextCursor_flushProducer r]
  | .data vs md :: r => by
    simp [flushProducer, nextCursor, getFirst_emit_none keyState (Or.inl rfl) md, nextCursor_flushProducer r]

theorem nextCursor_logs (l : List Nat) : nextCursor (l.map RBatch.log) = none := by
  induction l with
  | nil => rfl
  | cons a r ih => simp [nextCursor, ih]

theorem nextCursor_fullRun : ∀ (ticks : List Tick), nextCursor (fullRun ticks).1 = none
  | [] => rfl
  | t :: rest => by
    have ih := nextCursor_fullRun rest
    unfold fullRun
    rcases hr : runActs [] (Coll.new true) t with ⟨c, e⟩
    cases e with
    | some err => simp [nextCursor]
    | none =>
      simp only []
      split
      · simp [nextCursor]
      · split
        · simp [nextCursor_flushProducer]
        · rw [nextCursor_append, nextCursor_flushProducer]
          exact ih

/-! ### What a conformant client's request resolves to -/

theorem keys_distinct : keyState ≠ keyCall ∧ keyState ≠ keyCancel ∧ keyCall ≠ keyCancel := by decide

/-- the client's own input metadata uses none of the transport's keys (over a pipe nothing strips
them, so parity is only claimed for metadata that is the application's) -/
def NoFw (md : List (Bytes × Bytes)) : Prop := ∀ kv ∈ md, isFramework kv.1 = false

theorem isFw_keys : isFramework keyState = true ∧ isFramework keyCall = true ∧ isFramework keyCancel = true :=
  ⟨(isFramework_iff _).mpr (Or.inl rfl), (isFramework_iff _).mpr (Or.inr (Or.inl rfl)),
    (isFramework_iff _).mpr (Or.inr (Or.inr rfl))⟩

theorem getFirst_litMeta_fw (k : Bytes) (hk : isFramework k = true) :
    ∀ (md : List (Bytes × Bytes)), NoFw md → getFirst k (litMeta md) = none
  | [], _ => rfl
  | kv :: r, h => by
    have hne : ¬ kv.1 = k := by
      intro he
      have := h kv (by simp)
      rw [he, hk] at this; cases this
    simp only [litMeta, List.map_cons, getFirst, hne, if_false]
    exact getFirst_litMeta_fw k hk r (fun x hx => h x (by simp [hx]))

theorem contMeta_state (tok call : Val) (c : Bool) (x : Meta) :
    getFirst keyState (continuationMeta tok call c ++ x) = some tok := by
  simp [continuationMeta, getFirst]

theorem contMeta_call (tok call : Val) (c : Bool) (x : Meta) :
    getFirst keyCall (continuationMeta tok call c ++ x) = some call := by
  have := keys_distinct.1
  simp [continuationMeta, getFirst, this]

theorem contMeta_cancel (tok call : Val) (c : Bool) (md : List (Bytes × Bytes)) (h : NoFw md) :
    (getFirst keyCancel (continuationMeta tok call c ++ litMeta md)).isSome = c := by
  have h1 : ¬ keyState = keyCancel := keys_distinct.2.1
  have h2 : ¬ keyCall = keyCancel := keys_distinct.2.2
  have h3 := getFirst_litMeta_fw keyCancel isFw_keys.2.2 md h
  cases c <;> simp [continuationMeta, getFirst, h1, h2, h3]

theorem tokenLater_litMeta (k : Bytes) : ∀ (md : List (Bytes × Bytes)), tokenLater k (litMeta md) = false
  | [] => rfl
  | kv :: r => by
    have ih := tokenLater_litMeta k r
    unfold tokenLater at ih ⊢
    simp only [litMeta, List.map_cons, List.any_cons, Bool.and_false, Bool.false_or]
    exact ih

theorem litEntries_litMeta : ∀ (md : List (Bytes × Bytes)), litEntries (litMeta md) = md
  | [] => rfl
  | kv :: r => by
    have ht := tokenLater_litMeta kv.1 r
    have ih := litEntries_litMeta r
    show litEntries ((kv.1, Val.lit kv.2) :: litMeta r) = kv :: r
    simp only [litEntries, ht, ih]
    rfl

theorem strip_litMeta : ∀ (md : List (Bytes × Bytes)), NoFw md → stripFramework (litMeta md) = litMeta md
  | [], _ => rfl
  | kv :: r, h => by
    have hk := h kv (by simp)
    have ih := strip_litMeta r (fun x hx => h x (by simp [hx]))
    unfold stripFramework at ih ⊢
    simp only [litMeta, List.map_cons, List.filter_cons, hk, Bool.not_false, if_true]
    simp only [litMeta] at ih
    rw [ih]

/-- what the handler of a conformant client's exchange request sees: the client's own metadata -/
theorem seen_of_contMeta (tok call : Val) (c : Bool) (md : List (Bytes × Bytes)) (h : NoFw md) :
    litEntries (stripFramework (continuationMeta tok call c ++ litMeta md)) = md := by
  obtain ⟨hs, hc, hx⟩ := isFw_keys
  have : stripFramework (continuationMeta tok call c ++ litMeta md) = litMeta md := by
    have hsl := strip_litMeta md h
    unfold stripFramework at hsl ⊢
    rw [List.filter_append, hsl]
    cases c <;> simp [continuationMeta, hs, hc, hx]
  rw [this, litEntries_litMeta]

theorem resolveCall_ok (cfg : Cfg) (w : World) (inst : Nat) (cur : Cursor) :
    ∃ w1, resolveCall cfg w inst cur (some (.call cur.call)) = .ok w1 ∧ w1.minted = w.minted ∧ w1.calls = w.calls := by
  unfold resolveCall
  split
  · exact ⟨w, rfl, rfl, rfl⟩
  · simp only [if_true]
    split <;> exact ⟨_, rfl, rfl, rfl⟩

/-- a producer continuation request of a conformant client reaches `producerContinuation` -/
theorem handleExchange_producer (cfg : Cfg) (w : World) (req : Req) (tok : Val) (cur : Cursor)
    (hmd : req.md = continuationMeta tok (.call cur.call) false) (hopen : openCursor w tok = some cur)
    (hp : cur.st.producer = true) (hr : req.routeProducer = true) (hd : req.dynamic = cur.dyn) :
    ∃ w1, w1.minted = w.minted ∧ handleExchange cfg w req = producerContinuation cfg w1 cur req := by
  obtain ⟨w1, hres, hm, _⟩ := resolveCall_ok cfg w req.inst cur
  refine ⟨w1, hm, ?_⟩
  have hmd' : req.md = continuationMeta tok (.call cur.call) false ++ litMeta [] := by rw [hmd]; simp [litMeta]
  have hc := contMeta_cancel tok (.call cur.call) false [] (by intro kv h; cases h)
  unfold handleExchange
  simp only [hmd', contMeta_state, contMeta_call, hc, hopen, hr, hd, hp, hres]
  simp

theorem firstExc_mem : ∀ {l : List RBatch} {e : Err}, firstExc l = some e → RBatch.exc e ∈ l
  | [], _, h => by simp [firstExc] at h
  | x :: r, e, h => by
    cases x with
    | exc e2 => simp [firstExc] at h; subst h; simp
    | log m => simp [firstExc] at h; simp [firstExc_mem h]
    | data vs md => simp [firstExc] at h; simp [firstExc_mem h]
    | token md => simp [firstExc] at h; simp [firstExc_mem h]

theorem openCursor_new (w : World) (c : Cursor) :
    openCursor { w with minted := w.minted ++ [c] } (.cursor w.minted.length) = some c := by
  simp [openCursor]

theorem termOf_congr {a b : List RBatch × Bool × Option Err} (h : a.2 = b.2) : termOf a = termOf b := by
  unfold termOf; rw [h]

/-- following the continuation tokens of a producer stream over HTTP (enough fuel) gives exactly
what the pipe loop delivers from the same state -/
theorem httpProduce_spec (cfg : Cfg) (hE : cfg.maxExt = 0) (route : Nat → Nat) (dyn : Bool) :
    ∀ (fuel n : Nat) (w : World) (tok : Val) (cur : Cursor),
      openCursor w tok = some cur → cur.st.producer = true → cur.dyn = dyn →
      (cur.st.prog.drop cur.st.pos).length + 1 ≤ fuel →
      httpProduce cfg route dyn fuel n w tok (.call cur.call) = pipeProduce (cur.st.prog.drop cur.st.pos) := by
  intro fuel
  induction fuel with
  | zero => intro n w tok cur _ _ _ h; omega
  | succ fuel ih =>
    intro n w tok cur hopen hp hd hfuel
    rw [pipeProduce_eq]
    unfold httpProduce
    simp only []
    obtain ⟨w1, hm, hx⟩ := handleExchange_producer cfg w (produceReq (route n) dyn tok (.call cur.call))
      tok cur rfl hopen hp rfl (by simp [produceReq, hd])
    rw [hx]
    unfold producerContinuation
    simp only []
    have hspec := produceLoop_spec cfg (cur.st.prog.drop cur.st.pos) cur.st.pos
      (some (stripFramework (continuationMeta tok (.call cur.call) false))) 0 0 [] 0 []
    rcases produceLoop_prefix cfg hE (cur.st.prog.drop cur.st.pos) cur.st.pos
      (some (stripFramework (continuationMeta tok (.call cur.call) false))) 0 0 [] 0 [] with
      ⟨hterm, ho, hf, he⟩ | ⟨hf, he, k, hk, hpos, hout, hrest⟩
    · have hcond : ((produceLoop cfg (cur.st.prog.drop cur.st.pos) cur.st.pos
          (some (stripFramework (continuationMeta tok (.call cur.call) false))) 0 0 [] 0 []).err.isNone &&
          !(produceLoop cfg (cur.st.prog.drop cur.st.pos) cur.st.pos
          (some (stripFramework (continuationMeta tok (.call cur.call) false))) 0 0 [] 0 []).finished) = false := by
        rcases hterm with h | h
        · simp [h]
        · cases hz : (produceLoop cfg (cur.st.prog.drop cur.st.pos) cur.st.pos
            (some (stripFramework (continuationMeta tok (.call cur.call) false))) 0 0 [] 0 []).err with
          | none => rw [hz] at h; cases h
          | some e => simp
      simp only [produceReq, hcond, Bool.false_eq_true, if_false]
      rw [ho, firstExc_fullRun]
      cases hz : (fullRun (cur.st.prog.drop cur.st.pos)).2.2 with
      | some e => simp [termOf, hz]
      | none => simp [termOf, hz, nextCursor_fullRun]
    · have hcond : ((produceLoop cfg (cur.st.prog.drop cur.st.pos) cur.st.pos
          (some (stripFramework (continuationMeta tok (.call cur.call) false))) 0 0 [] 0 []).err.isNone &&
          !(produceLoop cfg (cur.st.prog.drop cur.st.pos) cur.st.pos
          (some (stripFramework (continuationMeta tok (.call cur.call) false))) 0 0 [] 0 []).finished) = true := by
        simp [hf, he]
      simp only [produceReq, hcond, if_true]
      -- no exception and no cursor among the cycles of this turn
      have hne : firstExc (produceLoop cfg (cur.st.prog.drop cur.st.pos) cur.st.pos
          (some (stripFramework (continuationMeta tok (.call cur.call) false))) 0 0 [] 0 []).out = none := by
        cases hz : firstExc (produceLoop cfg (cur.st.prog.drop cur.st.pos) cur.st.pos
          (some (stripFramework (continuationMeta tok (.call cur.call) false))) 0 0 [] 0 []).out with
        | none => rfl
        | some e =>
          have := hspec.2.1 ⟨e, firstExc_mem hz⟩
          rw [he] at this; cases this
      have hnc : nextCursor (produceLoop cfg (cur.st.prog.drop cur.st.pos) cur.st.pos
          (some (stripFramework (continuationMeta tok (.call cur.call) false))) 0 0 [] 0 []).out = none := by
        have h0 := nextCursor_fullRun (cur.st.prog.drop cur.st.pos)
        rw [hout, nextCursor_append] at h0
        cases hz : nextCursor (produceLoop cfg (cur.st.prog.drop cur.st.pos) cur.st.pos
          (some (stripFramework (continuationMeta tok (.call cur.call) false))) 0 0 [] 0 []).out with
        | none => rfl
        | some v => rw [hz] at h0; cases h0
      rw [firstExc_append, hne, nextCursor_append, hnc]
      simp only [firstExc, nextCursor, getFirst, if_true]
      -- the recursive call runs on the state the turn left behind
      have hrem : cur.st.prog.drop cur.st.pos ≠ [] := by
        intro hnil
        rw [hnil] at hf
        simp [produceLoop] at hf
      have hlen : ((cur.st.prog.drop cur.st.pos).drop k).length + 1 ≤ fuel := by
        have : 0 < (cur.st.prog.drop cur.st.pos).length := by
          cases hz : cur.st.prog.drop cur.st.pos with
          | nil => exact absurd hz hrem
          | cons a r => simp
        rw [List.length_drop]; omega
      have hih := ih (n + 1)
        { w1 with minted := w1.minted ++ [advance cur (produceLoop cfg (cur.st.prog.drop cur.st.pos) cur.st.pos
          (some (stripFramework (continuationMeta tok (.call cur.call) false))) 0 0 [] 0 []).pos] }
        (.cursor w1.minted.length)
        (advance cur (produceLoop cfg (cur.st.prog.drop cur.st.pos) cur.st.pos
          (some (stripFramework (continuationMeta tok (.call cur.call) false))) 0 0 [] 0 []).pos)
        (openCursor_new w1 _) (by simpa [advance] using hp) (by simpa [advance] using hd)
        (by simp only [advance]; rw [hpos, ← List.drop_drop]; exact hlen)
      simp only [advance] at hih
      rw [hpos, ← List.drop_drop] at hih
      simp only [advance, hpos] at hih ⊢
      rw [hih, pipeProduce_eq]
      simp only [viewItems_append, viewItems, List.append_nil]
      rw [hout, viewItems_append]
      exact Prod.ext rfl (termOf_congr hrest.symm)

/-! ### The exchange turn as the client sees it -/

theorem viewItems_map_toR : ∀ (l : List OBatch), viewItems (l.map toR) = collItems l
  | [] => rfl
  | .log m :: r => by simp [toR, viewItems, collItems, viewItems_map_toR r]
  | .data vs md :: r => by simp [toR, viewItems, collItems, viewItems_map_toR r, userMetaVal_litMeta]

theorem firstExc_map_toR : ∀ (l : List OBatch), firstExc (l.map toR) = none
  | [] => rfl
  | .log m :: r => by simp [toR, firstExc, firstExc_map_toR r]
  | .data vs md :: r => by simp [toR, firstExc, firstExc_map_toR r]

theorem nextCursor_logs_toR : ∀ (l : List OBatch), AllLog l → nextCursor (l.map toR) = none
  | [], _ => rfl
  | .log m :: r, h => by
    simp [toR, nextCursor, nextCursor_logs_toR r (fun x hx => h x (by simp [hx]))]
  | .data vs md :: r, h => by
    have := h (.data vs md) (by simp)
    simp [isLogO] at this

theorem userMetaVal_append_token (a : Meta) (k : Bytes) (i : Nat) :
    userMetaVal (a ++ [(k, Val.cursor i)]) = userMetaVal a := by
  induction a with
  | nil => simp [userMetaVal]
  | cons x r ih =>
    obtain ⟨kk, v⟩ := x
    cases v with
    | lit b => by_cases h : userKey kk = true <;> simp [userMetaVal, h, ih]
    | cursor j => simp [userMetaVal, ih]
    | call j => simp [userMetaVal, ih]

theorem userMetaVal_mergeToken (i : Nat) (md : List (Bytes × Bytes)) :
    userMetaVal (mergeToken (.cursor i) md) = userMetaLit md := by
  unfold mergeToken
  rw [userMetaVal_append_token, userMetaVal_litMeta, userMetaLit_emit]

/-- the flushed answer of a successful exchange turn: no exception, the fresh cursor is what the
client finds, and what it sees is the collector's batches -/
theorem flushExchange_view (i di : Nat) (c : Coll) (hinv : CollInv c) (hd : c.dataIdx = some di) :
    firstExc (flushExchange (.cursor i) di 0 c.batches) = none ∧
    nextCursor (flushExchange (.cursor i) di 0 c.batches) = some (.cursor i) ∧
    viewItems (flushExchange (.cursor i) di 0 c.batches) = collItems c.batches := by
  simp only [CollInv, hd] at hinv
  obtain ⟨pre, vs, md, post, h1, h2, h3, h4⟩ := hinv
  have hs := flush_split (.cursor i) vs md post pre 0
  simp only [Nat.zero_add] at hs
  rw [h1, ← h2, hs]
  refine ⟨?_, ?_, ?_⟩
  · rw [firstExc_append, firstExc_map_toR]
    simp [firstExc, firstExc_map_toR]
  · rw [nextCursor_append, nextCursor_logs_toR pre h3]
    simp [nextCursor, getFirst_mergeToken]
  · rw [viewItems_append, viewItems_map_toR]
    simp only [viewItems, viewItems_map_toR, userMetaVal_mergeToken]
    have : ∀ (a b : List OBatch), collItems (a ++ b) = collItems a ++ collItems b := by
      intro a b
      induction a with
      | nil => rfl
      | cons x r ih => cases x <;> simp [collItems, ih]
    rw [this]
    simp [collItems]

theorem enforceBudgets_off {cfg : Cfg} (hW : cfg.maxResp = 0) (hE : cfg.maxExt = 0) (a b : Nat) :
    enforceBudgets cfg a b = none := by
  simp [enforceBudgets, hW, hE]

/-- an exchange request of a conformant client: the cast gates, then `exchangeCall` -/
theorem handleExchange_exchange (cfg : Cfg) (w : World) (req : Req) (tok : Val) (cur : Cursor)
    (umd : List (Bytes × Bytes)) (hnf : NoFw umd)
    (hmd : req.md = continuationMeta tok (.call cur.call) false ++ litMeta umd) (hopen : openCursor w tok = some cur)
    (hp : cur.st.producer = false) (hr : req.routeProducer = false) (hd : req.dynamic = cur.dyn) :
    ∃ w1, w1.minted = w.minted ∧
      handleExchange cfg w req =
        (if !req.dynamic && !req.schemaOk then (errResp 400 false .cast, w, [])
         else if req.dynamic && cur.declared && !req.exact && !req.schemaOk then (errResp 400 false .cast, w1, [])
         else exchangeCall cfg w1 cur req) := by
  obtain ⟨w1, hres, hm, _⟩ := resolveCall_ok cfg w req.inst cur
  refine ⟨w1, hm, ?_⟩
  have hc := contMeta_cancel tok (.call cur.call) false umd hnf
  unfold handleExchange
  simp only [hmd, contMeta_state, contMeta_call, hc, hopen, hr, hd, hp, hres]
  cases cur.dyn <;> cases req.schemaOk <;> simp

/-- `handleExchangeCall` with both response caps off -/
theorem exchangeCall_uncapped (cfg : Cfg) (hW : cfg.maxResp = 0) (hE : cfg.maxExt = 0) (w : World) (cur : Cursor)
    (req : Req) :
    exchangeCall cfg w cur req =
      match runActs req.vals (Coll.new false) (turnTick cur req) with
      | (_, some e) => (errResp 200 true e, w, [Event.exchange cur.st.pos (stripFramework req.md) req.vals])
      | (c, none) =>
        match c.dataIdx with
        | none => (errResp 200 true .noData, w, [Event.exchange cur.st.pos (stripFramework req.md) req.vals])
        | some di =>
          ({ status := 200, rpcErr := false, batches := flushExchange (.cursor w.minted.length) di 0 c.batches },
           { w with minted := w.minted ++ [advance cur (cur.st.pos + 1)] },
           [Event.exchange cur.st.pos (stripFramework req.md) req.vals]) := by
  unfold exchangeCall
  simp only []
  rcases runActs req.vals (Coll.new false) (turnTick cur req) with ⟨c, e⟩
  cases e with
  | some err => rfl
  | none =>
    simp only []
    cases c.dataIdx with
    | none => rfl
    | some di =>
      simp only [extPreflight_off hE, enforceBudgets_off hW hE, Bool.false_eq_true, if_false]

/-- lockstep exchange over HTTP gives exactly what the pipe loop delivers from the same state -/
theorem httpExchange_spec (cfg : Cfg) (hW : cfg.maxResp = 0) (hE : cfg.maxExt = 0) (route : Nat → Nat) (dyn : Bool) :
    ∀ (inputs : List InBatch) (n : Nat) (w : World) (tok : Val) (cur : Cursor),
      openCursor w tok = some cur → cur.st.producer = false → cur.dyn = dyn →
      (dyn = false → cur.declared = true) → (∀ b ∈ inputs, NoFw b.md) →
      httpExchange cfg route dyn inputs n w tok (.call cur.call) = pipeExchange cur.declared cur.st inputs := by
  intro inputs
  induction inputs with
  | nil => intro n w tok cur _ _ _ _ _; rfl
  | cons b rest ih =>
    intro n w tok cur hopen hp hd hstat hnfall
    have hnf : NoFw b.md := hnfall b (by simp)
    have hnfrest : ∀ x ∈ rest, NoFw x.md := fun x hx => hnfall x (by simp [hx])
    unfold httpExchange pipeExchange
    simp only []
    by_cases hc : b.cancel = true
    · simp [hc]
    · have hc' : b.cancel = false := by simpa using hc
      simp only [hc', Bool.false_eq_true, if_false]
      -- the request, by its projections only
      generalize hreq : exchangeReq (route n) dyn tok (Val.call cur.call) b = req
      have r_md : req.md = continuationMeta tok (.call cur.call) false ++ litMeta b.md := by
        rw [← hreq]; simp [exchangeReq, hc']
      have r_vals : req.vals = b.vals := by rw [← hreq]; rfl
      have r_ok : req.schemaOk = (b.kind != .bad) := by rw [← hreq]; rfl
      have r_ex : req.exact = decide (b.kind = .same) := by rw [← hreq]; rfl
      have r_dyn : req.dynamic = dyn := by rw [← hreq]; rfl
      have r_rp : req.routeProducer = false := by rw [← hreq]; rfl
      clear hreq
      obtain ⟨w1, hm, hx⟩ := handleExchange_exchange cfg w req tok cur b.md hnf r_md hopen hp r_rp (by rw [r_dyn, hd])
      rw [hx]
      have htick : turnTick cur req =
          (if (decide (b.kind = InKind.same) || cur.declared) = true then
             instTick b.md ((tickAt cur.st).getD defaultExchangeTick)
           else untypedTick) := by
        have hseen : seenLit req = b.md := by
          unfold seenLit; rw [r_md]; exact seen_of_contMeta tok (.call cur.call) false b.md hnf
        simp [turnTick, inputTyped, r_ex, hseen]
      by_cases hbad : b.kind = .bad
      · -- incompatible input
        have hsok : req.schemaOk = false := by rw [r_ok]; simp [hbad]
        have hex : req.exact = false := by rw [r_ex]; simp [hbad]
        cases hdyn : dyn with
        | false =>
          have hdecl := hstat hdyn
          simp [r_dyn, hdyn, hsok, hbad, hdecl, errResp, firstExc]
        | true =>
          cases hdecl : cur.declared with
          | true => simp [r_dyn, hdyn, hsok, hex, hbad, hdecl, errResp, firstExc]
          | false =>
            simp only [r_dyn, hdyn, hsok, hex, hdecl, hbad, Bool.not_true, Bool.not_false, Bool.and_true, Bool.and_false,
              Bool.false_and, Bool.true_and, Bool.false_eq_true, if_false, decide_true, Bool.or_false]
            rw [exchangeCall_uncapped cfg hW hE, htick]
            simp [hbad, hdecl, untypedTick, runActs, errResp, firstExc]
      · have hsok : req.schemaOk = true := by rw [r_ok]; simpa using hbad
        simp only [hsok, Bool.not_true, Bool.and_false, Bool.false_eq_true, if_false, hbad, decide_false]
        rw [exchangeCall_uncapped cfg hW hE, htick, r_vals]
        have hinv := runActs_inv b.vals
          (if (decide (b.kind = InKind.same) || cur.declared) = true then
             instTick b.md ((tickAt cur.st).getD defaultExchangeTick)
           else untypedTick) (Coll.new false) (collInv_new false)
        rcases hr : runActs b.vals (Coll.new false)
          (if (decide (b.kind = InKind.same) || cur.declared) = true then
             instTick b.md ((tickAt cur.st).getD defaultExchangeTick)
           else untypedTick) with ⟨c, e⟩
        rw [hr] at hinv
        cases e with
        | some err => simp [errResp, firstExc]
        | none =>
          simp only []
          cases hdi : c.dataIdx with
          | none => simp [errResp, firstExc]
          | some di =>
            obtain ⟨v1, v2, v3⟩ := flushExchange_view w1.minted.length di c hinv hdi
            simp only [v1, v2, v3, Option.isNone_some, Bool.false_eq_true, if_false]
            have hih := ih (n + 1) { w1 with minted := w1.minted ++ [advance cur (cur.st.pos + 1)] }
              (.cursor w1.minted.length) (advance cur (cur.st.pos + 1)) (openCursor_new w1 _)
              (by simpa [advance] using hp) (by simpa [advance] using hd) (by simpa [advance] using hstat) hnfrest
            have hih' : httpExchange cfg route dyn rest (n + 1)
                { w1 with minted := w1.minted ++ [advance cur (cur.st.pos + 1)] }
                (.cursor w1.minted.length) (.call cur.call) =
                pipeExchange cur.declared { cur.st with pos := cur.st.pos + 1 } rest := hih
            rw [hih']

/-! ### The whole session -/

theorem cachePut_minted (cfg : Cfg) (w : World) (i c : Nat) : (cachePut cfg w i c).minted = w.minted := by
  unfold cachePut; split <;> rfl

theorem logItems_logs (l : List Nat) : logItems (l.map RBatch.log) = l.map VItem.log := by
  induction l with
  | nil => rfl
  | cons a r ih => simp [logItems, ih]

theorem viewItems_logs (l : List Nat) : viewItems (l.map RBatch.log) = l.map VItem.log := by
  induction l with
  | nil => rfl
  | cons a r ih => simp [viewItems, ih]

theorem logItems_append : ∀ (a b : List RBatch), logItems (a ++ b) = logItems a ++ logItems b
  | [], _ => rfl
  | x :: r, b => by cases x <;> simp [logItems, logItems_append r b]

theorem headerValue_logs_then (l : List Nat) (rest : List RBatch) :
    headerValue (l.map RBatch.log ++ rest) = headerValue rest := by
  induction l with
  | nil => rfl
  | cons a r ih => simp [headerValue, ih]

theorem init_header_view (rq : InitReq) :
    headerValue (headerStream rq) = headerOf rq ∧
    logItems (headerStream rq) ++ viewItems (initLogs rq) = rq.logs.map VItem.log ∧
    firstExc (initLogs rq) = none ∧ nextCursor (initLogs rq) = none := by
  unfold headerStream initLogs headerOf
  cases rq.hasHeader with
  | false => simp [headerValue, logItems, viewItems_logs, firstExc_logs, nextCursor_logs]
  | true =>
    cases rq.header with
    | none => simp [headerValue, logItems, viewItems_logs, firstExc_logs, nextCursor_logs]
    | some h =>
      simp [headerValue_logs_then, headerValue, logItems_append, logItems_logs, logItems, viewItems, firstExc, nextCursor]

/-- the cycles of a producer turn that stopped early carry neither an exception nor a cursor -/
theorem continuing_out (cfg : Cfg) (hE : cfg.maxExt = 0) (ticks : List Tick) (pos : Nat) (first : Option Meta)
    (nData ext : Nat) (envs : List TickEnv) (body : Nat) (sizes : List Nat)
    (he : (produceLoop cfg ticks pos first nData ext envs body sizes).err = none) :
    firstExc (produceLoop cfg ticks pos first nData ext envs body sizes).out = none ∧
    nextCursor (produceLoop cfg ticks pos first nData ext envs body sizes).out = none := by
  have hspec := produceLoop_spec cfg ticks pos first nData ext envs body sizes
  constructor
  · cases hz : firstExc (produceLoop cfg ticks pos first nData ext envs body sizes).out with
    | none => rfl
    | some e =>
      have := hspec.2.1 ⟨e, firstExc_mem hz⟩
      rw [he] at this; cases this
  · have h0 := nextCursor_fullRun ticks
    rcases produceLoop_prefix cfg hE ticks pos first nData ext envs body sizes with ⟨_, ho, _, _⟩ | ⟨_, _, k, _, _, hout, _⟩
    · rw [ho]; exact h0
    · rw [hout, nextCursor_append] at h0
      cases hz : nextCursor (produceLoop cfg ticks pos first nData ext envs body sizes).out with
      | none => rfl
      | some v => rw [hz] at h0; cases h0

/-- the init answer and everything after it, for a request already routed to its instance -/
theorem httpRun_core (cfg : Cfg) (hW : cfg.maxResp = 0) (hE : cfg.maxExt = 0) (route : Nat → Nat) (fuel : Nat)
    (w : World) (rq : InitReq) (inputs : List InBatch)
    (hfuel : rq.st.prog.length + 1 ≤ fuel) (hstat : rq.dynamic = false → rq.declared = true)
    (hnf : ∀ b ∈ inputs, NoFw b.md) :
    (let r := handleInit cfg w rq
     let hdr := headerValue r.1.header
     let pre := logItems r.1.header ++ viewItems r.1.batches
     match firstExc r.1.batches with
     | some e => ({ header := hdr, items := pre, term := .error e } : View)
     | none =>
       match nextCursor r.1.batches, getFirst keyCall (match r.1.batches.getLast? with
           | some (.token md) => md
           | _ => []) with
       | some tok, some call =>
         let t := if rq.st.producer then httpProduce cfg route rq.dynamic fuel 1 r.2.1 tok call
                  else httpExchange cfg route rq.dynamic inputs 1 r.2.1 tok call
         { header := hdr, items := pre ++ t.1, term := t.2 }
       | _, _ => { header := hdr, items := pre, term := .finished }) = pipeRun rq inputs := by
  obtain ⟨hv1, hv2, hv3, hv4⟩ := init_header_view rq
  unfold pipeRun handleInit
  simp only []
  cases hout : rq.outcome with
  | fail k => simp [errResp, headerValue, logItems, viewItems, firstExc]
  | panic k => simp [errResp, headerValue, logItems, viewItems, firstExc]
  | ok =>
    simp only []
    cases hprod : rq.st.producer with
    | false =>
      -- exchange: the init answer is the logs and the token sentinel
      simp only [Bool.false_eq_true, if_false]
      have hcur : openCursor (cachePut cfg (World.mk (w.minted ++ [Cursor.mk w.calls rq.st rq.dynamic rq.declared])
            (w.calls + 1) w.cache) rq.inst w.calls) (.cursor w.minted.length)
          = some (Cursor.mk w.calls rq.st rq.dynamic rq.declared) := by
        simp [openCursor, cachePut_minted]
      have hx := httpExchange_spec cfg hW hE route rq.dynamic inputs 1 _ (.cursor w.minted.length)
        (Cursor.mk w.calls rq.st rq.dynamic rq.declared) hcur hprod rfl hstat hnf
      have hlast : ∀ (l : List RBatch) (x : RBatch), (l ++ [x]).getLast? = some x := by
        intro l x; simp
      rw [firstExc_append, hv3, nextCursor_append, hv4, hlast]
      simp only [firstExc, nextCursor, getFirst, if_true, keys_distinct.1, if_false]
      rw [hx, viewItems_append, ← List.append_assoc, hv2, hv1]
      simp [viewItems]
    | true =>
      simp only [if_true]
      have hlast : ∀ (l : List RBatch) (x : RBatch), (l ++ [x]).getLast? = some x := by
        intro l x; simp
      rcases produceLoop_prefix cfg hE (rq.st.prog.drop rq.st.pos) rq.st.pos (some rq.md) 0 0 rq.env.ticks
        rq.env.body0 rq.env.sizes with ⟨hterm, ho, hf, he⟩ | ⟨hf, he, k, hk, hpos, hout, hrest⟩
      · have hcond : ((produceLoop cfg (rq.st.prog.drop rq.st.pos) rq.st.pos (some rq.md) 0 0 rq.env.ticks
            rq.env.body0 rq.env.sizes).err.isNone &&
            !(produceLoop cfg (rq.st.prog.drop rq.st.pos) rq.st.pos (some rq.md) 0 0 rq.env.ticks
            rq.env.body0 rq.env.sizes).finished) = false := by
          rcases hterm with h | h
          · simp [h]
          · cases hz : (produceLoop cfg (rq.st.prog.drop rq.st.pos) rq.st.pos (some rq.md) 0 0 rq.env.ticks
              rq.env.body0 rq.env.sizes).err with
            | none => rw [hz] at h; cases h
            | some e => simp
        simp only [hcond, Bool.false_eq_true, if_false]
        rw [firstExc_append, hv3, ho, firstExc_fullRun, pipeProduce_eq]
        cases hz : (fullRun (rq.st.prog.drop rq.st.pos)).2.2 with
        | some e =>
          simp only [termOf, hz]
          rw [viewItems_append, ← List.append_assoc, hv2, hv1]
        | none =>
          simp only [termOf, hz]
          rw [nextCursor_append, hv4, nextCursor_fullRun, viewItems_append, ← List.append_assoc, hv2, hv1]
      · have hcond : ((produceLoop cfg (rq.st.prog.drop rq.st.pos) rq.st.pos (some rq.md) 0 0 rq.env.ticks
            rq.env.body0 rq.env.sizes).err.isNone &&
            !(produceLoop cfg (rq.st.prog.drop rq.st.pos) rq.st.pos (some rq.md) 0 0 rq.env.ticks
            rq.env.body0 rq.env.sizes).finished) = true := by
          simp [hf, he]
        simp only [hcond, if_true]
        obtain ⟨hne, hnc⟩ := continuing_out cfg hE (rq.st.prog.drop rq.st.pos) rq.st.pos (some rq.md) 0 0
          rq.env.ticks rq.env.body0 rq.env.sizes he
        rw [firstExc_append, firstExc_append, hv3, hne, nextCursor_append, nextCursor_append, hv4, hnc, hlast]
        simp only [firstExc, nextCursor, getFirst, if_true, keys_distinct.1, if_false]
        have hrem : rq.st.prog.drop rq.st.pos ≠ [] := by
          intro hnil
          rw [hnil] at hf
          simp [produceLoop] at hf
        have hlen : ((rq.st.prog.drop rq.st.pos).drop k).length + 1 ≤ fuel := by
          have : 0 < (rq.st.prog.drop rq.st.pos).length := by
            cases hz : rq.st.prog.drop rq.st.pos with
            | nil => exact absurd hz hrem
            | cons a r => simp
          have h2 : (rq.st.prog.drop rq.st.pos).length ≤ rq.st.prog.length := by
            rw [List.length_drop]; omega
          rw [List.length_drop]; omega
        have hsp := httpProduce_spec cfg hE route rq.dynamic fuel 1
          (cachePut cfg (World.mk (w.minted ++ [advance (Cursor.mk w.calls rq.st rq.dynamic rq.declared)
            (produceLoop cfg (rq.st.prog.drop rq.st.pos) rq.st.pos (some rq.md) 0 0 rq.env.ticks
              rq.env.body0 rq.env.sizes).pos]) (w.calls + 1) w.cache) rq.inst w.calls)
          (.cursor w.minted.length)
          (advance (Cursor.mk w.calls rq.st rq.dynamic rq.declared)
            (produceLoop cfg (rq.st.prog.drop rq.st.pos) rq.st.pos (some rq.md) 0 0 rq.env.ticks
              rq.env.body0 rq.env.sizes).pos)
          (by simp [openCursor, cachePut_minted]) (by simpa [advance] using hprod) (by simp [advance])
          (by simp only [advance]; rw [hpos, ← List.drop_drop]; exact hlen)
        simp only [advance] at hsp
        rw [hpos, ← List.drop_drop] at hsp
        simp only [advance, hpos] at hsp ⊢
        rw [hsp, pipeProduce_eq, pipeProduce_eq]
        simp only [viewItems_append, viewItems, List.append_nil]
        rw [hout, viewItems_append, ← List.append_assoc, ← List.append_assoc, hv2, hv1, List.append_assoc]
        exact View.mk.injEq .. ▸ ⟨rfl, rfl, termOf_congr hrest.symm⟩

/-- **http_refines_pipe** (see `Vgi.Props.C11`). -/
theorem httpRun_eq_pipeRun (cfg : Cfg) (hW : cfg.maxResp = 0) (hE : cfg.maxExt = 0) (route : Nat → Nat) (fuel : Nat)
    (w : World) (rq : InitReq) (inputs : List InBatch)
    (hfuel : rq.st.prog.length + 1 ≤ fuel) (hstat : rq.dynamic = false → rq.declared = true)
    (hnf : ∀ b ∈ inputs, NoFw b.md) :
    httpRun cfg route fuel w rq inputs = pipeRun rq inputs := by
  have h := httpRun_core cfg hW hE route fuel w { rq with inst := route 0 } inputs hfuel hstat hnf
  have hp : pipeRun { rq with inst := route 0 } inputs = pipeRun rq inputs := rfl
  rw [← hp, ← h]
  rfl

end Vgi.StreamParity
