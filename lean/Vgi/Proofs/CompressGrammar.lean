import Vgi.Model.Compress
/-!
Lemmas about `normTok` / `splitOn` on headers that follow the RFC 9110 list grammar
(`OWS token OWS [ ";" params ]` elements separated by commas). Used by `Vgi.Props.C17`.
-/
namespace Vgi.Proofs.CompressGrammar
open Vgi Vgi.Compress

/-- optional white space of the HTTP grammar: SP / HTAB -/
def IsOWS (b : UInt8) : Prop := b = 0x20 ∨ b = 0x09
/-- a visible ASCII byte other than `,` and `;` -/
def IsVis (b : UInt8) : Prop := 0x21 ≤ b.toNat ∧ b.toNat ≤ 0x7E ∧ b ≠ cSemi ∧ b ≠ cComma
/-- any ASCII byte other than `,` -/
def IsParam (b : UInt8) : Prop := b.toNat < 0x80 ∧ b ≠ cComma

theorem decodeRune_ascii (b : UInt8) (rest : Bytes) (h : b.toNat < 0x80) :
    decodeRune (b :: rest) = (b.toNat, 1) := by
  simp [decodeRune, h]

theorem decodeLastRuneRev_ascii (b : UInt8) (rest : Bytes) (h : b.toNat < 0x80) :
    decodeLastRuneRev (b :: rest) = (b.toNat, 1) := by
  simp [decodeLastRuneRev, h]

theorem ows_space {b : UInt8} (h : IsOWS b) : b.toNat < 0x80 ∧ isSpaceRune b.toNat = true := by
  rcases h with rfl | rfl <;> decide

theorem vis_not_space {b : UInt8} (h : IsVis b) : b.toNat < 0x80 ∧ isSpaceRune b.toNat = false := by
  obtain ⟨h1, h2, _, _⟩ := h
  refine ⟨by omega, ?_⟩
  simp only [isSpaceRune, Bool.or_eq_false_iff, beq_eq_false_iff_ne, ne_eq, Bool.and_eq_false_iff,
    decide_eq_false_iff_not]
  omega

theorem semi_not_space : isSpaceRune cSemi.toNat = false := by decide

/-- Leading OWS is stripped up to the first visible byte. -/
theorem trimLeftAux_ows (ws : Bytes) (b : UInt8) (rest : Bytes) (hws : ∀ x ∈ ws, IsOWS x)
    (hb : b.toNat < 0x80 ∧ isSpaceRune b.toNat = false) :
    ∀ fuel, ws.length ≤ fuel → trimLeftAux fuel (ws ++ b :: rest) = b :: rest := by
  induction ws with
  | nil =>
    intro fuel _
    cases fuel with
    | zero => rfl
    | succ f => simp [trimLeftAux, decodeRune_ascii b rest hb.1, hb.2]
  | cons w ws ih =>
    intro fuel hf
    cases fuel with
    | zero => simp at hf
    | succ f =>
      have hw := ows_space (hws w List.mem_cons_self)
      simp only [List.cons_append, trimLeftAux, decodeRune_ascii w _ hw.1, hw.2, if_true,
        List.drop_succ_cons, List.drop_zero]
      exact ih (fun x hx => hws x (List.mem_cons_of_mem _ hx)) f (by simpa using hf)

theorem trimLeft_ows (ws : Bytes) (b : UInt8) (rest : Bytes) (hws : ∀ x ∈ ws, IsOWS x)
    (hb : b.toNat < 0x80 ∧ isSpaceRune b.toNat = false) :
    trimLeft (ws ++ b :: rest) = b :: rest := by
  unfold trimLeft
  exact trimLeftAux_ows ws b rest hws hb _ (by simp)

/-- Trailing OWS (head of the reversed string) is stripped down to the last visible byte. -/
theorem trimRightRevAux_ows (ws : Bytes) (b : UInt8) (rest : Bytes) (hws : ∀ x ∈ ws, IsOWS x)
    (hb : b.toNat < 0x80 ∧ isSpaceRune b.toNat = false) :
    ∀ fuel, ws.length ≤ fuel → trimRightRevAux fuel (ws ++ b :: rest) = b :: rest := by
  induction ws with
  | nil =>
    intro fuel _
    cases fuel with
    | zero => rfl
    | succ f => simp [trimRightRevAux, decodeLastRuneRev_ascii b rest hb.1, hb.2]
  | cons w ws ih =>
    intro fuel hf
    cases fuel with
    | zero => simp at hf
    | succ f =>
      have hw := ows_space (hws w List.mem_cons_self)
      simp only [List.cons_append, trimRightRevAux, decodeLastRuneRev_ascii w _ hw.1, hw.2, if_true,
        List.drop_succ_cons, List.drop_zero]
      exact ih (fun x hx => hws x (List.mem_cons_of_mem _ hx)) f (by simpa using hf)

/-- `init ++ [b] ++ ws` with `ws` OWS and `b` visible: trailing OWS removed. -/
theorem trimRight_ows (init : Bytes) (b : UInt8) (ws : Bytes) (hws : ∀ x ∈ ws, IsOWS x)
    (hb : b.toNat < 0x80 ∧ isSpaceRune b.toNat = false) :
    trimRight (init ++ b :: ws) = init ++ [b] := by
  unfold trimRight
  have : (init ++ b :: ws).reverse = ws.reverse ++ b :: init.reverse := by simp
  rw [this, trimRightRevAux_ows ws.reverse b init.reverse (by simpa using hws) hb _ (by simp; omega)]
  simp

/-- Trailing ASCII parameters after a `;`: trimming never passes the `;`. -/
theorem trimRightRevAux_param (R : Bytes) : ∀ (fuel : Nat) (qr : Bytes), (∀ x ∈ qr, x.toNat < 0x80) →
    ∃ z, trimRightRevAux fuel (qr ++ cSemi :: R) = z ++ cSemi :: R := by
  intro fuel
  induction fuel with
  | zero => intro qr _; exact ⟨qr, rfl⟩
  | succ f ih =>
    intro qr hq
    cases qr with
    | nil =>
      refine ⟨[], ?_⟩
      simp [trimRightRevAux, decodeLastRuneRev_ascii cSemi R (by decide), semi_not_space]
    | cons l qr' =>
      have hl : l.toNat < 0x80 := hq l List.mem_cons_self
      simp only [List.cons_append, trimRightRevAux, decodeLastRuneRev_ascii l _ hl]
      by_cases hs : isSpaceRune l.toNat = true
      · simp only [hs, if_true, List.drop_succ_cons, List.drop_zero]
        exact ih qr' (fun x hx => hq x (List.mem_cons_of_mem _ hx))
      · simp only [hs]
        exact ⟨l :: qr', rfl⟩

theorem trimRight_param (X q : Bytes) (hq : ∀ x ∈ q, x.toNat < 0x80) :
    ∃ z, trimRight (X ++ cSemi :: q) = X ++ cSemi :: z := by
  unfold trimRight
  have : (X ++ cSemi :: q).reverse = q.reverse ++ cSemi :: X.reverse := by simp
  rw [this]
  obtain ⟨z, hz⟩ := trimRightRevAux_param X.reverse (X ++ cSemi :: q).length q.reverse
    (by simpa using hq)
  exact ⟨z.reverse, by rw [hz]; simp⟩

theorem cutSemi_none (t : Bytes) (h : ∀ x ∈ t, x ≠ cSemi) : cutSemi t = none := by
  induction t with
  | nil => rfl
  | cons b t ih =>
    have hb : b ≠ cSemi := h b List.mem_cons_self
    simp [cutSemi, hb, ih (fun x hx => h x (List.mem_cons_of_mem _ hx))]

theorem cutSemi_some (t z : Bytes) (h : ∀ x ∈ t, x ≠ cSemi) : cutSemi (t ++ cSemi :: z) = some t := by
  induction t with
  | nil => simp [cutSemi]
  | cons b t ih =>
    have hb : b ≠ cSemi := h b List.mem_cons_self
    simp [cutSemi, hb, ih (fun x hx => h x (List.mem_cons_of_mem _ hx))]

theorem lowerAux_ascii (t : Bytes) (h : ∀ x ∈ t, x.toNat < 0x80) :
    ∀ fuel, t.length ≤ fuel → lowerAux fuel t = t.map asciiLower := by
  induction t with
  | nil => intro fuel _; cases fuel <;> rfl
  | cons b t ih =>
    intro fuel hf
    cases fuel with
    | zero => simp at hf
    | succ f =>
      have hb : b.toNat < 0x80 := h b List.mem_cons_self
      simp only [lowerAux, hb, if_true, List.map_cons]
      rw [ih (fun x hx => h x (List.mem_cons_of_mem _ hx)) f (by simpa using hf)]

theorem lowerTok_ascii (t : Bytes) (h : ∀ x ∈ t, x.toNat < 0x80) : lowerTok t = t.map asciiLower :=
  lowerAux_ascii t h _ (Nat.le_refl _)

/-- `trimSpace (OWS token OWS) = token`. -/
theorem trimSpace_token (o1 t o2 : Bytes) (ho1 : ∀ x ∈ o1, IsOWS x) (ho2 : ∀ x ∈ o2, IsOWS x)
    (ht : ∀ x ∈ t, IsVis x) (hne : t ≠ []) : trimSpace (o1 ++ t ++ o2) = t := by
  obtain ⟨b, t', rfl⟩ := List.exists_cons_of_ne_nil hne
  unfold trimSpace
  have hb := vis_not_space (ht b List.mem_cons_self)
  rw [show o1 ++ b :: t' ++ o2 = o1 ++ b :: (t' ++ o2) by simp, trimLeft_ows o1 b _ ho1 hb]
  -- split off the last visible byte
  obtain ⟨init, l, hl⟩ : ∃ init l, b :: t' = init ++ [l] :=
    ⟨(b :: t').dropLast, (b :: t').getLast (by simp), (List.dropLast_concat_getLast (by simp)).symm⟩
  have hlv : IsVis l := ht l (by rw [hl]; simp)
  rw [show b :: (t' ++ o2) = init ++ l :: o2 by
    rw [← List.cons_append, hl]; simp]
  rw [trimRight_ows init l o2 ho2 (vis_not_space hlv), hl]

/-- `[ ";" params ]` -/
def paramTail : Option Bytes → Bytes
  | some p => cSemi :: p
  | none => []

/-- **One list element**: `OWS token OWS` optionally followed by `;params` normalises to the
lower-cased token, whatever the parameters (q-values) are. -/
theorem normTok_element (o1 t o2 : Bytes) (q : Option Bytes)
    (ho1 : ∀ x ∈ o1, IsOWS x) (ho2 : ∀ x ∈ o2, IsOWS x) (ht : ∀ x ∈ t, IsVis x) (hne : t ≠ [])
    (hq : ∀ p, q = some p → ∀ x ∈ p, IsParam x) :
    normTok (o1 ++ t ++ o2 ++ paramTail q) = t.map asciiLower := by
  have htsemi : ∀ x ∈ t, x ≠ cSemi := fun x hx => (ht x hx).2.2.1
  have htasc : ∀ x ∈ t, x.toNat < 0x80 := fun x hx => by have := (ht x hx).2.1; omega
  cases q with
  | none =>
    simp only [paramTail, List.append_nil]
    unfold normTok
    simp only [trimSpace_token o1 t o2 ho1 ho2 ht hne, cutSemi_none t htsemi]
    exact lowerTok_ascii t htasc
  | some p =>
    simp only [paramTail]
    have hp : ∀ x ∈ p, x.toNat < 0x80 := fun x hx => (hq p rfl x hx).1
    obtain ⟨b, t', rfl⟩ := List.exists_cons_of_ne_nil hne
    have hb := vis_not_space (ht b List.mem_cons_self)
    -- trimSpace keeps `token OWS ; z`
    have h1 : ∃ z, trimSpace (o1 ++ b :: t' ++ o2 ++ cSemi :: p) = b :: t' ++ o2 ++ cSemi :: z := by
      unfold trimSpace
      rw [show o1 ++ b :: t' ++ o2 ++ cSemi :: p = o1 ++ b :: (t' ++ o2 ++ cSemi :: p) by simp,
        trimLeft_ows o1 b _ ho1 hb]
      obtain ⟨z, hz⟩ := trimRight_param (b :: t' ++ o2) p hp
      exact ⟨z, by rw [show b :: (t' ++ o2 ++ cSemi :: p) = (b :: t' ++ o2) ++ cSemi :: p by simp, hz]⟩
    obtain ⟨z, hz⟩ := h1
    unfold normTok
    simp only [hz]
    have ho2semi : ∀ x ∈ o2, x ≠ cSemi := by
      intro x hx; rcases ho2 x hx with rfl | rfl <;> decide
    rw [cutSemi_some (b :: t' ++ o2) z (by
      intro x hx
      rcases List.mem_append.mp hx with h | h
      · exact htsemi x h
      · exact ho2semi x h)]
    simp only
    have := trimSpace_token [] (b :: t') o2 (by simp) ho2 ht (by simp)
    simp only [List.nil_append] at this
    rw [this]
    exact lowerTok_ascii _ htasc

/-- An element made of OWS only (RFC 9110 allows empty list elements) normalises to nothing. -/
theorem trimLeftAux_all_ows (ws : Bytes) (hws : ∀ x ∈ ws, IsOWS x) :
    ∀ fuel, ws.length ≤ fuel → trimLeftAux fuel ws = [] := by
  induction ws with
  | nil => intro fuel _; cases fuel <;> rfl
  | cons w ws ih =>
    intro fuel hf
    cases fuel with
    | zero => simp at hf
    | succ f =>
      have hw := ows_space (hws w List.mem_cons_self)
      simp only [trimLeftAux, decodeRune_ascii w _ hw.1, hw.2, if_true, List.drop_succ_cons,
        List.drop_zero]
      exact ih (fun x hx => hws x (List.mem_cons_of_mem _ hx)) f (by simpa using hf)

theorem normTok_blank (ws : Bytes) (hws : ∀ x ∈ ws, IsOWS x) : normTok ws = [] := by
  have h1 : trimSpace ws = [] := by
    unfold trimSpace trimLeft
    rw [trimLeftAux_all_ows ws hws _ (Nat.le_refl _)]
    rfl
  unfold normTok
  rw [h1]
  rfl

/-! ## strings.Split ∘ strings.Join -/

/-- `strings.Join(xs, ",")` -/
def joinComma : List Bytes → Bytes
  | [] => []
  | [x] => x
  | x :: y :: rest => x ++ cComma :: joinComma (y :: rest)

theorem splitOn_ne_nil (sep : UInt8) (p : Bytes) : splitOn sep p ≠ [] := by
  cases p with
  | nil => simp [splitOn]
  | cons b rest =>
    simp only [splitOn]
    split
    · simp
    · split <;> simp

theorem splitOn_no_sep (sep : UInt8) (x : Bytes) (h : ∀ b ∈ x, b ≠ sep) : splitOn sep x = [x] := by
  induction x with
  | nil => rfl
  | cons b x ih =>
    have hb : b ≠ sep := h b List.mem_cons_self
    simp [splitOn, hb, ih (fun c hc => h c (List.mem_cons_of_mem _ hc))]

theorem splitOn_append (sep : UInt8) (x rest : Bytes) (h : ∀ b ∈ x, b ≠ sep) :
    splitOn sep (x ++ sep :: rest) = x :: splitOn sep rest := by
  induction x with
  | nil => simp [splitOn]
  | cons b x ih =>
    have hb : b ≠ sep := h b List.mem_cons_self
    simp [splitOn, hb, ih (fun c hc => h c (List.mem_cons_of_mem _ hc))]

theorem splitOn_joinComma (xs : List Bytes) (hne : xs ≠ []) (h : ∀ x ∈ xs, ∀ b ∈ x, b ≠ cComma) :
    splitOn cComma (joinComma xs) = xs := by
  induction xs with
  | nil => exact absurd rfl hne
  | cons x rest ih =>
    cases rest with
    | nil => simp only [joinComma]; exact splitOn_no_sep _ x (h x List.mem_cons_self)
    | cons y rest' =>
      simp only [joinComma]
      rw [splitOn_append _ x _ (h x List.mem_cons_self),
        ih (by simp) (fun z hz => h z (List.mem_cons_of_mem _ hz))]

end Vgi.Proofs.CompressGrammar
