import Vgi.Model.ShmSession
import Vgi.Props.C34
/-!
Lemmas behind the C36 theorems: per-segment invariant of the shared-memory session model, then
world-level specifications of every client and server step.
-/
namespace Vgi.Proofs.ShmSession
open Vgi Vgi.Shm Vgi.ShmSession Vgi.Props.C34

/-- table entry of a live slot -/
def slotOf (e : Nat × B) : Nat × Nat := (e.1, e.2.len)

/-- Per-segment invariant: the allocator table is well-formed (C34) and its entries are exactly the
live slots. -/
def SegInv (s : SegSt) : Prop := WF s.seg ∧ s.seg.table.Perm (s.cont.map slotOf)

theorem lookup_some_mem {off : Nat} {b : B} : ∀ {c : List (Nat × B)}, lookup off c = some b → (off, b) ∈ c
  | [], h => by simp [lookup] at h
  | e :: r, h => by
    simp only [lookup] at h
    split at h
    · rename_i he; cases h; simp [← he]
    · exact List.mem_cons_of_mem _ (lookup_some_mem h)

theorem lookup_none_iff {off : Nat} : ∀ {c : List (Nat × B)}, lookup off c = none ↔ ∀ e ∈ c, e.1 ≠ off
  | [] => by simp [lookup]
  | e :: r => by
    simp only [lookup]
    by_cases h : e.1 = off
    · simp [h]
    · simp [h, lookup_none_iff (c := r)]

theorem lookup_filter_ne {off o : Nat} (h : o ≠ off) : ∀ (c : List (Nat × B)),
    lookup o (c.filter fun e => e.1 != off) = lookup o c
  | [] => rfl
  | e :: r => by
    by_cases he : e.1 = off
    · rw [List.filter_cons_of_neg (by simp [he])]
      simp only [lookup]
      rw [if_neg (by omega)]
      exact lookup_filter_ne h r
    · rw [List.filter_cons_of_pos (by simp [he])]
      simp only [lookup, lookup_filter_ne h r]

/-- offsets of a well-formed table are pairwise distinct and every length is positive -/
theorem wf_split {dataEnd : Nat} : ∀ (pre : Table) {p : Nat} {x : Nat × Nat} {post : Table},
    WFfrom dataEnd p (pre ++ x :: post) →
      (∀ e ∈ pre, e.1 + e.2 ≤ x.1 ∧ 0 < e.2) ∧ (∀ e ∈ post, x.1 + x.2 ≤ e.1) ∧ 0 < x.2
  | [], p, x, post, h => by
    obtain ⟨_, h2, h3⟩ := h
    exact ⟨by simp, fun e he => (wf_in_bounds h3 e he).1, h2⟩
  | y :: pre, p, x, post, h => by
    obtain ⟨_, h2, h3⟩ := h
    have ih := wf_split pre h3
    have hx := (wf_in_bounds h3 x (by simp)).1
    refine ⟨?_, ih.2⟩
    intro e he
    simp at he
    rcases he with he | he
    · subst he; exact ⟨hx, h2⟩
    · exact ih.1 e he

/-- **segWrite_spec**: a successful write keeps the invariant, the new slot reads back the batch,
its offset was not in use, and every other slot reads as before. -/
theorem segWrite_spec {s s' : SegSt} {b : B} {off : Nat} (hi : SegInv s) (hw : segWrite s b = some (off, s')) :
    SegInv s' ∧ s'.cont = (off, b) :: s.cont ∧ lookup off s.cont = none ∧ s'.seg.size = s.seg.size := by
  unfold segWrite at hw
  split at hw
  · split at hw
    · rename_i o seg' ha
      cases hw
      obtain ⟨hwf', hsz, pre, post, ht, ht'⟩ := alloc_preserves_wf s.seg _ off seg' hi.1 ha
      have hn : (Int.ofNat b.len).toNat = b.len := by simp
      rw [hn] at ht'
      have hsp := wf_split (dataEnd := seg'.size) pre (p := headerSize) (x := (off, b.len)) (post := post)
        (by rw [← ht']; exact hwf'.1)
      refine ⟨⟨hwf', ?_⟩, rfl, ?_, hsz⟩
      · simp only [List.map_cons, slotOf]
        rw [ht']
        refine (List.perm_middle).trans ?_
        apply List.Perm.cons
        rw [← ht]; exact hi.2
      · rw [lookup_none_iff]
        intro e he heq
        have hm : slotOf e ∈ s.seg.table := hi.2.symm.subset (List.mem_map_of_mem he)
        rw [ht] at hm
        simp only [List.mem_append] at hm
        rcases hm with hm | hm
        · have := hsp.1 _ hm; simp [slotOf] at this; omega
        · have := hsp.2.1 _ hm; have := hsp.2.2; simp [slotOf] at *; omega
    · cases hw
  · cases hw

theorem filter_map_slot (off : Nat) (c : List (Nat × B)) :
    (c.map slotOf).filter (fun e => e.1 != off) = (c.filter fun e => e.1 != off).map slotOf := by
  induction c with
  | nil => rfl
  | cons e r ih =>
    by_cases he : e.1 = off
    · simp [slotOf, he, ← ih]
    · simp [slotOf, he]
      simpa [slotOf] using ih

/-- **segFree_spec**: freeing keeps the invariant and removes exactly the slots at that offset. -/
theorem segFree_spec {s : SegSt} (off : Nat) (hi : SegInv s) :
    SegInv (segFree s off) ∧ (segFree s off).cont = s.cont.filter (fun e => e.1 != off) ∧
      (segFree s off).seg.size = s.seg.size := by
  unfold segFree
  cases hf : free s.seg off with
  | none =>
    simp only []
    refine ⟨hi, ?_, trivial⟩
    -- nothing at that offset in the table, hence nothing in cont
    unfold free at hf
    have hspec := freeScan_spec off s.seg.table
    cases hs : freeScan off s.seg.table with
    | some t => simp [hs] at hf
    | none =>
      simp only [hs] at hspec
      symm
      rw [List.filter_eq_self]
      intro e he
      have hm : slotOf e ∈ s.seg.table := hi.2.symm.subset (List.mem_map_of_mem he)
      have := hspec _ hm
      simpa [slotOf] using this
  | some seg' =>
    simp only []
    have hwf := free_preserves_wf s.seg off seg' hi.1 hf
    refine ⟨⟨hwf.1, ?_⟩, trivial, hwf.2⟩
    unfold free at hf
    have hspec := freeScan_spec off s.seg.table
    cases hs : freeScan off s.seg.table with
    | none => simp [hs] at hf
    | some t2 =>
      simp only [hs, Option.map, Option.some.injEq] at hf
      subst hf
      simp only [hs] at hspec
      obtain ⟨pre, x, post, ht, hx, hpre, ht2⟩ := hspec
      show t2.Perm _
      rw [← filter_map_slot]
      have hsp := wf_split (dataEnd := s.seg.size) pre (p := headerSize) (x := x) (post := post)
        (by rw [← ht]; exact hi.1.1)
      have hfil : s.seg.table.filter (fun e => e.1 != off) = t2 := by
        rw [ht, ht2, List.filter_append, List.filter_cons]
        have h1 : pre.filter (fun e => e.1 != off) = pre := by
          rw [List.filter_eq_self]; intro e he; simpa using hpre e he
        have h2 : post.filter (fun e => e.1 != off) = post := by
          rw [List.filter_eq_self]; intro e he
          have := hsp.2.1 e he; have := hsp.2.2
          simp; omega
        rw [h1, h2]; simp [hx]
      rw [← hfil]
      exact hi.2.filter _

end Vgi.Proofs.ShmSession
