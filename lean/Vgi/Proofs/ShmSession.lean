import Vgi.Model.ShmSession
import Vgi.Props.C34
/-!
Lemmas behind the C36 theorems: per-segment invariant of the shared-memory session model, then
world-level specifications of every client and server step.
-/
namespace Vgi.Proofs.ShmSession
open Vgi Vgi.Shm Vgi.ShmSession Vgi.Props.C34

/-- table entry of a live slot -/
def slotOf (e : Nat × B) : Nat × Nat := (e.1, e.2.len)

/-- Per-segment invariant: the allocator table is well-formed (C34) and its entries are exactly the
live slots. -/
def SegInv (s : SegSt) : Prop := WF s.seg ∧ s.seg.table.Perm (s.cont.map slotOf)

theorem lookup_some_mem {off : Nat} {b : B} : ∀ {c : List (Nat × B)}, lookup off c = some b → (off, b) ∈ c
  | [], h => by simp [lookup] at h
  | e :: r, h => by
    simp only [lookup] at h
    split at h
    · rename_i he; cases h; simp [← he]
    · exact List.mem_cons_of_mem _ (lookup_some_mem h)

theorem lookup_none_iff {off : Nat} : ∀ {c : List (Nat × B)}, lookup off c = none ↔ ∀ e ∈ c, e.1 ≠ off
  | [] => by simp [lookup]
  | e :: r => by
    simp only [lookup]
    by_cases h : e.1 = off
    · simp [h]
    · simp [h, lookup_none_iff (c := r)]

theorem lookup_filter_ne {off o : Nat} (h : o ≠ off) : ∀ (c : List (Nat × B)),
    lookup o (c.filter fun e => e.1 != off) = lookup o c
  | [] => rfl
  | e :: r => by
    by_cases he : e.1 = off
    · rw [List.filter_cons_of_neg (by simp [he])]
      simp only [lookup]
      rw [if_neg (by omega)]
      exact lookup_filter_ne h r
    · rw [List.filter_cons_of_pos (by simp [he])]
      simp only [lookup, lookup_filter_ne h r]

/-- offsets of a well-formed table are pairwise distinct and every length is positive -/
theorem wf_split {dataEnd : Nat} : ∀ (pre : Table) {p : Nat} {x : Nat × Nat} {post : Table},
    WFfrom dataEnd p (pre ++ x :: post) →
      (∀ e ∈ pre, e.1 + e.2 ≤ x.1 ∧ 0 < e.2) ∧ (∀ e ∈ post, x.1 + x.2 ≤ e.1) ∧ 0 < x.2
  | [], p, x, post, h => by
    obtain ⟨_, h2, h3⟩ := h
    exact ⟨by simp, fun e he => (wf_in_bounds h3 e he).1, h2⟩
  | y :: pre, p, x, post, h => by
    obtain ⟨_, h2, h3⟩ := h
    have ih := wf_split pre h3
    have hx := (wf_in_bounds h3 x (by simp)).1
    refine ⟨?_, ih.2⟩
    intro e he
    simp at he
    rcases he with he | he
    · subst he; exact ⟨hx, h2⟩
    · exact ih.1 e he

/-- **segWrite_spec**: a successful write keeps the invariant, the new slot reads back the batch,
its offset was not in use, and every other slot reads as before. -/
theorem segWrite_spec {s s' : SegSt} {b : B} {off : Nat} (hi : SegInv s) (hw : segWrite s b = some (off, s')) :
    SegInv s' ∧ s'.cont = (off, b) :: s.cont ∧ lookup off s.cont = none ∧ s'.seg.size = s.seg.size := by
  unfold segWrite at hw
  split at hw
  · split at hw
    · rename_i o seg' ha
      cases hw
      obtain ⟨hwf', hsz, pre, post, ht, ht'⟩ := alloc_preserves_wf s.seg _ off seg' hi.1 ha
      have hn : (Int.ofNat b.len).toNat = b.len := by simp
      rw [hn] at ht'
      have hsp := wf_split (dataEnd := seg'.size) pre (p := headerSize) (x := (off, b.len)) (post := post)
        (by rw [← ht']; exact hwf'.1)
      refine ⟨⟨hwf', ?_⟩, rfl, ?_, hsz⟩
      · simp only [List.map_cons, slotOf]
        rw [ht']
        refine (List.perm_middle).trans ?_
        apply List.Perm.cons
        rw [← ht]; exact hi.2
      · rw [lookup_none_iff]
        intro e he heq
        have hm : slotOf e ∈ s.seg.table := hi.2.symm.subset (List.mem_map_of_mem he)
        rw [ht] at hm
        simp only [List.mem_append] at hm
        rcases hm with hm | hm
        · have := hsp.1 _ hm; simp [slotOf] at this; omega
        · have := hsp.2.1 _ hm; have := hsp.2.2; simp [slotOf] at *; omega
    · cases hw
  · cases hw

theorem filter_map_slot (off : Nat) (c : List (Nat × B)) :
    (c.map slotOf).filter (fun e => e.1 != off) = (c.filter fun e => e.1 != off).map slotOf := by
  induction c with
  | nil => rfl
  | cons e r ih =>
    by_cases he : e.1 = off
    · simp [slotOf, he, ← ih]
    · simp [slotOf, he]
      simpa [slotOf] using ih

/-- **segFree_spec**: freeing keeps the invariant and removes exactly the slots at that offset. -/
theorem segFree_spec {s : SegSt} (off : Nat) (hi : SegInv s) :
    SegInv (segFree s off) ∧ (segFree s off).cont = s.cont.filter (fun e => e.1 != off) ∧
      (segFree s off).seg.size = s.seg.size := by
  unfold segFree
  cases hf : free s.seg off with
  | none =>
    simp only []
    refine ⟨hi, ?_, trivial⟩
    -- nothing at that offset in the table, hence nothing in cont
    unfold free at hf
    have hspec := freeScan_spec off s.seg.table
    cases hs : freeScan off s.seg.table with
    | some t => simp [hs] at hf
    | none =>
      simp only [hs] at hspec
      symm
      rw [List.filter_eq_self]
      intro e he
      have hm : slotOf e ∈ s.seg.table := hi.2.symm.subset (List.mem_map_of_mem he)
      have := hspec _ hm
      simpa [slotOf] using this
  | some seg' =>
    simp only []
    have hwf := free_preserves_wf s.seg off seg' hi.1 hf
    refine ⟨⟨hwf.1, ?_⟩, trivial, hwf.2⟩
    unfold free at hf
    have hspec := freeScan_spec off s.seg.table
    cases hs : freeScan off s.seg.table with
    | none => simp [hs] at hf
    | some t2 =>
      simp only [hs, Option.map, Option.some.injEq] at hf
      subst hf
      simp only [hs] at hspec
      obtain ⟨pre, x, post, ht, hx, hpre, ht2⟩ := hspec
      show t2.Perm _
      rw [← filter_map_slot]
      have hsp := wf_split (dataEnd := s.seg.size) pre (p := headerSize) (x := x) (post := post)
        (by rw [← ht]; exact hi.1.1)
      have hfil : s.seg.table.filter (fun e => e.1 != off) = t2 := by
        rw [ht, ht2, List.filter_append, List.filter_cons]
        have h1 : pre.filter (fun e => e.1 != off) = pre := by
          rw [List.filter_eq_self]; intro e he; simpa using hpre e he
        have h2 : post.filter (fun e => e.1 != off) = post := by
          rw [List.filter_eq_self]; intro e he
          have := hsp.2.1 e he; have := hsp.2.2
          simp; omega
        rw [h1, h2]; simp [hx]
      rw [← hfil]
      exact hi.2.filter _

/-! ### World level -/

def SInv (segs : Segs) : Prop := ∀ k, k < segs.n → SegInv (segs.get k)

/-- pointer `(k, off)` addresses a live slot holding `b` -/
def Live (segs : Segs) (k off : Nat) (b : B) : Prop :=
  k < segs.n ∧ lookup off (segs.get k).cont = some b

/-- every live slot of every segment is accounted for by a pointer in `owned` -/
def Acc (segs : Segs) (owned : List (Nat × Nat)) : Prop :=
  ∀ k, k < segs.n → ∀ e ∈ (segs.get k).cont, (k, e.1) ∈ owned

def wirePtr : Wire → List (Nat × Nat)
  | .ptr k off _ => [(k, off)]
  | _ => []

/-- the wire is what a well-behaved client produced for batch `b` when the server resolves
pointers through `att` -/
def WireOK (segs : Segs) (att : Option Nat) (b : B) : Wire → Prop
  | .inline b' => b' = b
  | .ptr k off len => att = some k ∧ len = b.len ∧ Live segs k off b
  | .bad => False

theorem acc_mono {segs : Segs} {o1 o2 : List (Nat × Nat)} (h : Acc segs o1) (hsub : ∀ q ∈ o1, q ∈ o2) :
    Acc segs o2 := fun k hk e he => hsub _ (h k hk e he)

@[simp] theorem updateAt_n (segs : Segs) (k : Nat) (f : SegSt → SegSt) : (updateAt segs k f).n = segs.n := rfl
theorem updateAt_get_self (segs : Segs) (k : Nat) (f : SegSt → SegSt) :
    (updateAt segs k f).get k = f (segs.get k) := by simp [updateAt]
theorem updateAt_get_ne (segs : Segs) {k j : Nat} (f : SegSt → SegSt) (h : j ≠ k) :
    (updateAt segs k f).get j = segs.get j := by simp [updateAt, h]

theorem at?_some {segs : Segs} {k : Nat} {s : SegSt} (h : segs.at? k = some s) : k < segs.n ∧ s = segs.get k := by
  unfold Segs.at? at h
  split at h
  · cases h; exact ⟨‹_›, rfl⟩
  · cases h

/-- **writeTo_spec**: writing a batch into a segment either falls back to the batch itself and
changes nothing, or yields a pointer to a fresh live slot holding the batch; all other live slots
stay as they are. -/
theorem writeTo_spec (segs : Segs) (k : Nat) (b : B) (owned : List (Nat × Nat))
    (hI : SInv segs) (hA : Acc segs owned) :
    (writeTo segs k b = (segs, .inline b)) ∨
    (∃ off segs', writeTo segs k b = (segs', .ptr k off b.len) ∧ segs'.n = segs.n ∧ SInv segs' ∧
      Live segs' k off b ∧ (∀ b', ¬ Live segs k off b') ∧
      (∀ k' o b', Live segs k' o b' → Live segs' k' o b') ∧ Acc segs' ((k, off) :: owned)) := by
  unfold writeTo
  cases hat : segs.at? k with
  | none => exact Or.inl rfl
  | some s =>
    obtain ⟨hk, hs⟩ := at?_some hat
    subst hs
    cases hw : segWrite (segs.get k) b with
    | none => exact Or.inl (by simp only [hw])
    | some r =>
      obtain ⟨off, s'⟩ := r
      obtain ⟨hi', hc, hfresh, _⟩ := segWrite_spec (hI k hk) hw
      refine Or.inr ⟨off, updateAt segs k (fun _ => s'), by simp only [hw], rfl, ?_, ?_, ?_, ?_, ?_⟩
      · intro j hj
        by_cases hjk : j = k
        · subst hjk; rw [updateAt_get_self]; exact hi'
        · rw [updateAt_get_ne _ _ hjk]; exact hI j hj
      · refine ⟨hk, ?_⟩
        rw [updateAt_get_self, hc]; simp [lookup]
      · intro b' hl
        rw [hl.2] at hfresh; cases hfresh
      · intro k' o b' hl
        refine ⟨hl.1, ?_⟩
        by_cases hjk : k' = k
        · subst hjk
          rw [updateAt_get_self, hc]
          simp only [lookup]
          rw [if_neg]
          · exact hl.2
          · intro h; subst h; rw [hl.2] at hfresh; cases hfresh
        · rw [updateAt_get_ne _ _ hjk]; exact hl.2
      · intro j hj e he
        by_cases hjk : j = k
        · subst hjk
          rw [updateAt_get_self, hc] at he
          simp only [List.mem_cons] at he ⊢
          rcases he with he | he
          · subst he; exact Or.inl rfl
          · exact Or.inr (hA j hk e he)
        · rw [updateAt_get_ne _ _ hjk] at he
          exact List.mem_cons_of_mem _ (hA j hj e he)

/-- **freeAt_spec**: freeing a pointer keeps the invariants, leaves every other pointer live, and
the accounting may drop that pointer. -/
theorem freeAt_spec (segs : Segs) (k off : Nat) (hI : SInv segs) :
    SInv (updateAt segs k (segFree · off)) ∧
    (∀ k' o b', Live segs k' o b' → (k', o) ≠ (k, off) → Live (updateAt segs k (segFree · off)) k' o b') ∧
    (∀ owned owned', Acc segs owned → (∀ q ∈ owned, q ≠ (k, off) → q ∈ owned') →
      Acc (updateAt segs k (segFree · off)) owned') := by
  refine ⟨?_, ?_, ?_⟩
  · intro j hj
    by_cases hjk : j = k
    · subst hjk; rw [updateAt_get_self]; exact (segFree_spec off (hI j hj)).1
    · rw [updateAt_get_ne _ _ hjk]; exact hI j hj
  · intro k' o b' hl hne
    refine ⟨hl.1, ?_⟩
    by_cases hjk : k' = k
    · subst hjk
      rw [updateAt_get_self, (segFree_spec off (hI k' hl.1)).2.1, lookup_filter_ne]
      · exact hl.2
      · intro h; subst h; exact hne rfl
    · rw [updateAt_get_ne _ _ hjk]; exact hl.2
  · intro owned owned' hA hsub j hj e he
    by_cases hjk : j = k
    · subst hjk
      rw [updateAt_get_self, (segFree_spec off (hI j hj)).2.1] at he
      simp only [List.mem_filter, bne_iff_ne, ne_eq] at he
      apply hsub _ (hA j hj e he.1)
      intro h; cases h; exact he.2 rfl
    · rw [updateAt_get_ne _ _ hjk] at he
      apply hsub _ (hA j hj e he)
      intro h; cases h; exact hjk rfl


/-- **clientSend_spec**: what a well-behaved client puts on the wire. -/
theorem clientSend_spec (segs : Segs) (att : Option Nat) (b : B) (via : Via) (owned : List (Nat × Nat))
    (hv : via.wellBehaved = true) (hI : SInv segs) (hA : Acc segs owned) :
    ∃ segs' wire, clientSend segs att b via = (segs', wire) ∧ segs'.n = segs.n ∧ SInv segs' ∧
      WireOK segs' att b wire ∧ (∀ q ∈ wirePtr wire, ∀ b', ¬ Live segs q.1 q.2 b') ∧
      (∀ k' o b', Live segs k' o b' → Live segs' k' o b') ∧ Acc segs' (wirePtr wire ++ owned) := by
  have inl : ∃ segs' wire, (segs, Wire.inline b) = (segs', wire) ∧ segs'.n = segs.n ∧ SInv segs' ∧
      WireOK segs' att b wire ∧ (∀ q ∈ wirePtr wire, ∀ b', ¬ Live segs q.1 q.2 b') ∧
      (∀ k' o b', Live segs k' o b' → Live segs' k' o b') ∧ Acc segs' (wirePtr wire ++ owned) :=
    ⟨segs, .inline b, rfl, rfl, hI, rfl, by simp [wirePtr], fun _ _ _ h => h, by simpa [wirePtr] using hA⟩
  cases via with
  | inline => exact inl
  | raw => simp [Via.wellBehaved] at hv
  | force k => simp [Via.wellBehaved] at hv
  | shm k =>
    simp only [clientSend]
    by_cases hatt : att = some k
    · rw [if_pos hatt]
      rcases writeTo_spec segs k b owned hI hA with h | ⟨off, segs', h, hn, hI', hl, hf, hp, hA'⟩
      · rw [h]; exact inl
      · rw [h]
        refine ⟨segs', _, rfl, hn, hI', ⟨hatt, rfl, hl⟩, ?_, hp, by simpa [wirePtr] using hA'⟩
        intro q hq b'
        simp [wirePtr] at hq; subst hq; exact hf b'
    · rw [if_neg hatt]; exact inl

/-- **serverTake_ok**: the server resolves everything a well-behaved client sends, gets the
client's batch back, and the consumed slot is free again. -/
theorem serverTake_ok (segs : Segs) (att : Option Nat) (b : B) (wire : Wire) (owned : List (Nat × Nat))
    (hW : WireOK segs att b wire) (hI : SInv segs) (hA : Acc segs (wirePtr wire ++ owned)) :
    ∃ segs', serverTake segs att wire = (segs', some b) ∧ segs'.n = segs.n ∧ SInv segs' ∧ Acc segs' owned ∧
      (∀ k' o b', Live segs k' o b' → (k', o) ∉ wirePtr wire → Live segs' k' o b') := by
  cases wire with
  | inline b' =>
    simp only [WireOK] at hW; subst hW
    exact ⟨segs, rfl, rfl, hI, by simpa [wirePtr] using hA, fun _ _ _ h _ => h⟩
  | bad => exact hW.elim
  | ptr k off len =>
    obtain ⟨hatt, hlen, hl⟩ := hW
    subst hatt; subst hlen
    have hres : resolveWire segs k (.ptr k off b.len) = some (b, off) := by
      simp only [resolveWire, if_true]
      have : segs.at? k = some (segs.get k) := by simp [Segs.at?, hl.1]
      rw [this]
      simp [segRead, hl.2]
    simp only [serverTake, hres]
    obtain ⟨f1, f2, f3⟩ := freeAt_spec segs k off hI
    refine ⟨_, rfl, rfl, f1, ?_, ?_⟩
    · apply f3 _ _ hA
      intro q hq hne
      simp [wirePtr] at hq
      rcases hq with hq | hq
      · exact absurd hq hne
      · exact hq
    · intro k' o b' h hn
      apply f2 k' o b' h
      intro heq; apply hn; simp [wirePtr, heq]

/-- **maybeWrite_spec**: a result is either sent as it is or as a pointer to a fresh live slot
holding it. -/
theorem maybeWrite_spec (segs : Segs) (shm : Option Nat) (b : B) (owned : List (Nat × Nat))
    (hI : SInv segs) (hA : Acc segs owned) :
    ∃ segs' wire, maybeWrite segs shm b = (segs', wire) ∧ segs'.n = segs.n ∧ SInv segs' ∧
      WireOK segs' shm b wire ∧ (∀ k' o b', Live segs k' o b' → Live segs' k' o b') ∧
      Acc segs' (wirePtr wire ++ owned) := by
  have inl : ∃ segs' wire, (segs, Wire.inline b) = (segs', wire) ∧ segs'.n = segs.n ∧ SInv segs' ∧
      WireOK segs' shm b wire ∧ (∀ k' o b', Live segs k' o b' → Live segs' k' o b') ∧
      Acc segs' (wirePtr wire ++ owned) :=
    ⟨segs, .inline b, rfl, rfl, hI, rfl, fun _ _ _ h => h, by simpa [wirePtr] using hA⟩
  unfold maybeWrite
  cases shm with
  | none => exact inl
  | some k =>
    simp only []
    split
    · exact inl
    · rcases writeTo_spec segs k b owned hI hA with h | ⟨off, segs', h, hn, hI', hl, _, hp, hA'⟩
      · rw [h]; exact inl
      · rw [h]
        exact ⟨segs', _, rfl, hn, hI', ⟨rfl, rfl, hl⟩, hp, by simpa [wirePtr] using hA'⟩

/-- **clientRecv_ok**: the client decodes exactly the batch the server produced, and the slot is
either released or accounted for as held. -/
theorem clientRecv_ok (segs : Segs) (held : Held) (hold : Bool) (shm : Option Nat) (b : B) (wire : Wire)
    (owned : List (Nat × Nat)) (hW : WireOK segs shm b wire) (hI : SInv segs)
    (hA : Acc segs (wirePtr wire ++ (held ++ owned))) :
    ∃ segs' held' viaShm, clientRecv segs held hold wire = (segs', held', .ok b.id viaShm) ∧
      segs'.n = segs.n ∧ SInv segs' ∧ Acc segs' (held' ++ owned) ∧
      (∀ k' o b', Live segs k' o b' → (k', o) ∉ wirePtr wire → Live segs' k' o b') := by
  cases wire with
  | inline b' =>
    simp only [WireOK] at hW; subst hW
    exact ⟨segs, held, false, rfl, rfl, hI, by simpa [wirePtr] using hA, fun _ _ _ h _ => h⟩
  | bad => exact hW.elim
  | ptr k off len =>
    obtain ⟨_, hlen, hl⟩ := hW
    subst hlen
    have hat : segs.at? k = some (segs.get k) := by simp [Segs.at?, hl.1]
    have hrd : segRead (segs.get k) off b.len = some b := by simp [segRead, hl.2]
    simp only [clientRecv, hat, hrd]
    cases hold with
    | true =>
      simp only [if_true]
      refine ⟨segs, (k, off) :: held, true, rfl, rfl, hI, ?_, fun _ _ _ h _ => h⟩
      apply acc_mono hA
      intro q hq; simpa [wirePtr] using hq
    | false =>
      simp only [Bool.false_eq_true, if_false]
      obtain ⟨f1, f2, f3⟩ := freeAt_spec segs k off hI
      refine ⟨_, held, true, rfl, rfl, f1, ?_, ?_⟩
      · apply f3 _ _ hA
        intro q hq hne
        simp [wirePtr] at hq
        rcases hq with hq | hq
        · exact absurd hq hne
        · simpa using hq
      · intro k' o b' h hn
        apply f2 k' o b' h
        intro heq; apply hn; simp [wirePtr, heq]


/-! ### Whole calls -/

/-- What the scripted handlers answer, turn by turn, when nothing but the pipe is involved. -/
def plainTurns : List Turn → List Item
  | [] => []
  | t :: rest =>
    match t.outcome with
    | .error k => [.err k]
    | .finish => [.done]
    | .result out => .ok out.id false :: plainTurns rest

def plainItems : Call → List Item
  | .unary _ _ _ outcome _ =>
    match outcome with
    | .error k => [.err k]
    | .finish => [.done]
    | .result out => [.ok out.id false]
  | .stream _ _ _ initErr turns _ =>
    match initErr with
    | some k => [.err k]
    | none => plainTurns turns
  | .release => []
  | .releaseOne _ => []

def optPtr : Option Wire → List (Nat × Nat)
  | some w => wirePtr w
  | none => []

theorem wireOK_mono {segs segs' : Segs} {att : Option Nat} {b : B} {wire : Wire}
    (h : WireOK segs att b wire) (hp : ∀ q ∈ wirePtr wire, ∀ b', Live segs q.1 q.2 b' → Live segs' q.1 q.2 b') :
    WireOK segs' att b wire := by
  cases wire with
  | inline _ => exact h
  | bad => exact h
  | ptr k off len => exact ⟨h.1, h.2.1, hp (k, off) (by simp [wirePtr]) b h.2.2⟩

/-- the head turn's input is on the wire, well-formed; no wire when there is no turn -/
def HeadOK (segs : Segs) (shm : Option Nat) : List Turn → Option Wire → Prop
  | t :: _, some w => WireOK segs shm t.input w
  | [], none => True
  | _, _ => False

theorem sendNext_spec (shm : Option Nat) (segs : Segs) (turns : List Turn) (owned : List (Nat × Nat))
    (hv : ∀ t ∈ turns, t.via.wellBehaved = true) (hI : SInv segs) (hA : Acc segs owned) :
    ∃ segs' next, sendNext shm segs turns = (segs', next) ∧ segs'.n = segs.n ∧ SInv segs' ∧
      HeadOK segs' shm turns next ∧ (∀ q ∈ optPtr next, ∀ b', ¬ Live segs q.1 q.2 b') ∧
      (∀ k' o b', Live segs k' o b' → Live segs' k' o b') ∧ Acc segs' (optPtr next ++ owned) := by
  cases turns with
  | nil => exact ⟨segs, none, rfl, rfl, hI, trivial, by simp [optPtr], fun _ _ _ h => h, by simpa [optPtr] using hA⟩
  | cons t rest =>
    obtain ⟨segs', wire, h, hn, hI', hW, hf, hp, hA'⟩ :=
      clientSend_spec segs shm t.input t.via owned (hv t (by simp)) hI hA
    exact ⟨segs', some wire, by simp [sendNext, h], hn, hI', hW, hf, hp, hA'⟩

/-- **runTurns_spec**: a lockstep stream with a well-behaved client answers exactly what the
handlers answer, keeps the invariants, and leaves no slot behind except pointers the client holds. -/
theorem runTurns_spec (shm : Option Nat) (hold : Bool) : ∀ (turns : List Turn) (segs : Segs) (held : Held)
    (wire : Option Wire), (∀ t ∈ turns, t.via.wellBehaved = true) → SInv segs →
    Acc segs (optPtr wire ++ held) → HeadOK segs shm turns wire →
    ∃ segs' held' items, runTurns shm hold segs held turns wire = (segs', held', items) ∧
      segs'.n = segs.n ∧ SInv segs' ∧ Acc segs' held' ∧ items.map Item.view = plainTurns turns
  | [], segs, held, wire, _, hI, hA, hH => by
    cases wire with
    | some w => exact hH.elim
    | none => exact ⟨segs, held, [], by simp [runTurns], rfl, hI, by simpa [optPtr] using hA, rfl⟩
  | t :: rest, segs, held, wire, hv, hI, hA, hH => by
    cases wire with
    | none => exact hH.elim
    | some w =>
      obtain ⟨segs2, hst, hn2, hI2, hA2, _⟩ := serverTake_ok segs shm t.input w held hH hI hA
      simp only [runTurns, hst]
      cases ho : t.outcome with
      | error k =>
        exact ⟨segs2, held, _, rfl, hn2, hI2, hA2, by simp [plainTurns, ho, Item.view]⟩
      | finish =>
        exact ⟨segs2, held, _, rfl, hn2, hI2, hA2, by simp [plainTurns, ho, Item.view]⟩
      | result out =>
        simp only []
        obtain ⟨segs3, rw, hmw, hn3, hI3, hW3, _, hA3⟩ := maybeWrite_spec segs2 shm out held hI2 hA2
        obtain ⟨segs4, held', vs, hcr, hn4, hI4, hA4, _⟩ :=
          clientRecv_ok segs3 held hold shm out rw [] hW3 hI3 (by simpa using hA3)
        obtain ⟨segs5, next, hsn, hn5, hI5, hH5, _, _, hA5⟩ :=
          sendNext_spec shm segs4 rest held' (fun t ht => hv t (by simp [ht])) hI4 (by simpa using hA4)
        obtain ⟨segs6, held'', items, hrt, hn6, hI6, hA6, hv6⟩ :=
          runTurns_spec shm hold rest segs5 held' next (fun t ht => hv t (by simp [ht])) hI5 hA5 hH5
        simp only [hmw, hcr, hsn, hrt]
        refine ⟨segs6, held'', _, rfl, by omega, hI6, hA6, ?_⟩
        simp [plainTurns, ho, Item.view, hv6]

/-- the wire of the head turn of a plain client -/
def headWire : List Turn → Option Wire
  | [] => none
  | t :: _ => some (.inline t.input)

theorem sendNext_plain (segs : Segs) (l : List Turn) :
    sendNext none segs (l.map Turn.plain) = (segs, headWire l) := by
  cases l <;> simp [sendNext, Turn.plain, clientSend, headWire]

/-- the same turns issued by a client without shared memory, on any state of the world -/
theorem runTurns_plain (hold : Bool) (segs : Segs) (held : Held) : ∀ (turns : List Turn),
    runTurns none hold segs held (turns.map Turn.plain) (headWire turns) = (segs, held, plainTurns turns)
  | [] => by simp [runTurns, headWire, plainTurns]
  | t :: rest => by
    have ih := runTurns_plain hold segs held rest
    simp only [List.map_cons, headWire, runTurns, serverTake, plainTurns]
    have hpo : (Turn.plain t).outcome = t.outcome := rfl
    rw [hpo]
    cases ho : t.outcome with
    | error k => rfl
    | finish => rfl
    | result out =>
      simp only [maybeWrite, clientRecv, sendNext_plain, ih]

theorem releaseAll_spec : ∀ (held : Held) (segs : Segs) (owned : List (Nat × Nat)), SInv segs →
    Acc segs (held ++ owned) →
    (releaseAll segs held).n = segs.n ∧ SInv (releaseAll segs held) ∧ Acc (releaseAll segs held) owned
  | [], segs, owned, hI, hA => ⟨rfl, hI, by simpa [releaseAll] using hA⟩
  | (k, off) :: r, segs, owned, hI, hA => by
    obtain ⟨f1, _, f3⟩ := freeAt_spec segs k off hI
    have hA' : Acc (updateAt segs k (segFree · off)) (r ++ owned) := by
      apply f3 _ _ hA
      intro q hq hne
      simp at hq
      rcases hq with hq | hq | hq
      · exact absurd hq hne
      · simp [hq]
      · simp [hq]
    have := releaseAll_spec r _ owned f1 hA'
    simpa [releaseAll] using this


theorem serveShm_ok (segs : Segs) (cached : Option Nat) (adv : Adv) (b : B) (wire : Wire) (owned : List (Nat × Nat))
    (hW : WireOK segs (ensure cached adv).1 b wire) (hI : SInv segs) (hA : Acc segs (wirePtr wire ++ owned)) :
    ∃ segs', serveShm segs cached adv wire = (segs', (ensure cached adv).2, some (b, engaged cached adv wire)) ∧
      segs'.n = segs.n ∧ SInv segs' ∧ Acc segs' owned ∧
      (∀ k' o b', Live segs k' o b' → (k', o) ∉ wirePtr wire → Live segs' k' o b') := by
  obtain ⟨segs', h, hn, hI', hA', hp⟩ := serverTake_ok segs _ b wire owned hW hI hA
  refine ⟨segs', ?_, hn, hI', hA', hp⟩
  unfold serveShm
  cases he : ensure cached adv with
  | mk seg c' =>
    rw [he] at h
    simp only [] at h ⊢
    rw [h]

/-- **runCall_spec**: one call of a well-behaved client answers exactly what the handlers answer
and keeps the invariants; no slot is left that the client does not hold a pointer to. -/
theorem runCall_spec (w : World) (c : Call) (hwb : c.wellBehaved = true) (hI : SInv w.segs)
    (hA : Acc w.segs w.held) :
    (runCall w c).1.segs.n = w.segs.n ∧ SInv (runCall w c).1.segs ∧
    Acc (runCall w c).1.segs (runCall w c).1.held ∧ (runCall w c).2.map Item.view = plainItems c := by
  cases c with
  | release =>
    obtain ⟨h1, h2, h3⟩ := releaseAll_spec w.held w.segs [] hI (by simpa using hA)
    exact ⟨h1, h2, h3, rfl⟩
  | releaseOne i =>
    simp only [runCall]
    cases hp : w.held[i]? with
    | none => exact ⟨rfl, hI, hA, rfl⟩
    | some p =>
      obtain ⟨f1, _, f3⟩ := freeAt_spec w.segs p.1 p.2 hI
      refine ⟨rfl, f1, ?_, rfl⟩
      apply f3 _ _ hA
      intro q hq hne
      simp only [List.mem_filter, bne_iff_ne, ne_eq]
      exact ⟨hq, fun h => hne (by rw [h])⟩
  | unary adv param via outcome hold =>
    simp only [Call.wellBehaved] at hwb
    obtain ⟨segs1, wire, hcs, hn1, hI1, hW1, _, _, hA1⟩ :=
      clientSend_spec w.segs (ensure w.cached adv).1 param via w.held hwb hI hA
    obtain ⟨segs2, hss, hn2, hI2, hA2, _⟩ := serveShm_ok segs1 w.cached adv param wire w.held hW1 hI1 hA1
    simp only [runCall, hcs, hss]
    cases outcome with
    | error k => exact ⟨by first | omega | (simp only []; omega) | (simp; omega), hI2, hA2, by simp [plainItems, Item.view]⟩
    | finish => exact ⟨by first | omega | (simp only []; omega) | (simp; omega), hI2, hA2, by simp [plainItems, Item.view]⟩
    | result out =>
      simp only []
      obtain ⟨segs3, rw, hmw, hn3, hI3, hW3, _, hA3⟩ :=
        maybeWrite_spec segs2 (engaged w.cached adv wire) out w.held hI2 hA2
      obtain ⟨segs4, held', vs, hcr, hn4, hI4, hA4, _⟩ :=
        clientRecv_ok segs3 w.held hold _ out rw [] hW3 hI3 (by simpa using hA3)
      simp only [hmw, hcr]
      exact ⟨by first | omega | (simp only []; omega) | (simp; omega), hI4, by simpa using hA4, by simp [plainItems, Item.view]⟩
  | stream adv param via initErr turns hold =>
    simp only [Call.wellBehaved, Bool.and_eq_true, List.all_eq_true] at hwb
    obtain ⟨segs1, wire, hcs, hn1, hI1, hW1, _, _, hA1⟩ :=
      clientSend_spec w.segs (ensure w.cached adv).1 param via w.held hwb.1 hI hA
    obtain ⟨segs1', first, hsn, hn1', hI1', hH1, hfresh, hpres, hA1'⟩ :=
      sendNext_spec (engaged w.cached adv wire) segs1 turns (wirePtr wire ++ w.held) hwb.2 hI1 hA1
    have hW1' : WireOK segs1' (ensure w.cached adv).1 param wire :=
      wireOK_mono hW1 (fun q _ b' h => hpres _ _ _ h)
    have hA1'' : Acc segs1' (wirePtr wire ++ (optPtr first ++ w.held)) := by
      apply acc_mono hA1'
      intro q hq; simp at hq ⊢; rcases hq with h | h | h <;> simp [h]
    obtain ⟨segs2, hss, hn2, hI2, hA2, hp2⟩ :=
      serveShm_ok segs1' w.cached adv param wire (optPtr first ++ w.held) hW1' hI1' hA1''
    -- the first input, sent before the server read the request, is still intact
    have hH2 : HeadOK segs2 (engaged w.cached adv wire) turns first := by
      cases turns with
      | nil => cases first <;> exact hH1
      | cons t rest =>
        cases first with
        | none => exact hH1
        | some fw =>
          apply wireOK_mono hH1
          intro q hq b' hl
          apply hp2 _ _ _ hl
          intro hmem
          -- q is the pointer of the request wire, which was live when `fw` was allocated fresh
          cases wire with
          | inline _ => simp [wirePtr] at hmem
          | bad => simp [wirePtr] at hmem
          | ptr k off len =>
            simp [wirePtr] at hmem
            have hlive : Live segs1 k off param := hW1.2.2
            have := hfresh q (by simpa [optPtr] using hq) param
            apply this
            rw [show q = (k, off) from Prod.ext hmem.1 hmem.2]
            exact hlive
    simp only [runCall, hcs, hsn, hss]
    cases initErr with
    | some kind =>
      simp only []
      -- the client takes back the input it had already sent
      have : SInv (reclaimOpt segs2 first) ∧ Acc (reclaimOpt segs2 first) w.held ∧
          (reclaimOpt segs2 first).n = segs2.n := by
        cases first with
        | none => exact ⟨hI2, by simpa [optPtr, reclaimOpt] using hA2, rfl⟩
        | some fw =>
          cases fw with
          | inline _ => exact ⟨hI2, by simpa [optPtr, wirePtr, reclaimOpt, clientReclaim] using hA2, rfl⟩
          | bad => exact ⟨hI2, by simpa [optPtr, wirePtr, reclaimOpt, clientReclaim] using hA2, rfl⟩
          | ptr k off len =>
            obtain ⟨f1, _, f3⟩ := freeAt_spec segs2 k off hI2
            refine ⟨f1, ?_, rfl⟩
            apply f3 _ _ hA2
            intro q hq hne
            simp [optPtr, wirePtr] at hq
            rcases hq with hq | hq
            · exact absurd hq hne
            · exact hq
      exact ⟨by first | omega | (simp only []; omega) | (simp; omega), this.1, this.2.1, by simp [plainItems, Item.view]⟩
    | none =>
      simp only []
      obtain ⟨segs3, held', items, hrt, hn3, hI3, hA3, hv3⟩ :=
        runTurns_spec (engaged w.cached adv wire) hold turns segs2 w.held first hwb.2 hI2 hA2 hH2
      simp only [hrt]
      exact ⟨by first | omega | (simp only []; omega) | (simp; omega), hI3, hA3, by simpa [plainItems] using hv3⟩

theorem engaged_plain (c : Option Nat) (b : B) : engaged c .none (.inline b) = none := by
  cases c <;> simp [engaged, ensure, Adv.hasName, Wire.isPtr]

theorem serveShm_plain (segs : Segs) (c : Option Nat) (b : B) :
    serveShm segs c .none (.inline b) = (segs, c, some (b, none)) := by
  simp [serveShm, ensure, serverTake, engaged_plain]

/-- the same call issued by a client without shared memory: same answers, world untouched -/
theorem runCall_plain (w : World) (c : Call) :
    runCall w c.plain = (match c with
      | .release => { w with segs := releaseAll w.segs w.held, held := [] }
      | .releaseOne i => (runCall w (.releaseOne i)).1
      | _ => w,
      plainItems c) := by
  cases c with
  | release => rfl
  | releaseOne i =>
    simp only [Call.plain, plainItems, runCall]
    cases w.held[i]? <;> rfl
  | unary adv param via outcome hold =>
    simp only [Call.plain, runCall, clientSend, serveShm_plain]
    cases outcome with
    | error k => rfl
    | finish => rfl
    | result out => simp [maybeWrite, clientRecv, plainItems]
  | stream adv param via initErr turns hold =>
    simp only [Call.plain, runCall, clientSend, engaged_plain, sendNext_plain, serveShm_plain]
    cases initErr with
    | some kind =>
      simp only [plainItems]
      cases turns <;> simp [headWire, reclaimOpt, clientReclaim]
    | none =>
      simp only [plainItems, runTurns_plain]


end Vgi.Proofs.ShmSession
