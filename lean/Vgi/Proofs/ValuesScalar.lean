import Vgi.Model.Values
import Vgi.Proofs.Values
/-!
Proofs of the scalar conversion theorems of C08 (restated in `Vgi.Props.C08`): timestamps, dates,
times of day, durations, integer widths and decimal(20,4), each over its whole wire range.
-/
namespace Vgi.Values

/-! ## 1. Scalar conversions over the whole wire range -/

/-- Timestamps, wire → Go → wire: every int64 microsecond count decodes to a valid instant
(`0 ≤ nsec < 10⁹`) that encodes back to the same count. (F08a: the pre-fix decode wrapped for
|µs| > 2⁶³/1000.) -/
theorem ts_wire_roundtrip (us : Int) (h1 : -9223372036854775808 ≤ us) (h2 : us < 9223372036854775808) :
    unixMicro (timestampToTime us) = us ∧
      0 ≤ (timestampToTime us).nsec ∧ (timestampToTime us).nsec < 1000000000 := by
  unfold unixMicro timestampToTime goUnix trem tquot wrapS64
  by_cases h : 0 ≤ us
  · simp only [h, if_true]
    split
    · split <;> (try split) <;> (try dsimp only) <;> omega
    · dsimp only; omega
  · simp only [h, if_false]
    split
    · split <;> (try split) <;> (try dsimp only) <;> omega
    · dsimp only; omega

/-- Timestamps, Go → wire → Go: every instant whose microsecond count fits the wire type comes
back as the same instant truncated (floored) to the microsecond. -/
theorem ts_value_roundtrip (t : GoTime) (hn : 0 ≤ t.nsec ∧ t.nsec < 1000000000)
    (h1 : -9223372036854775808 ≤ t.sec * 1000000 + t.nsec / 1000)
    (h2 : t.sec * 1000000 + t.nsec / 1000 < 9223372036854775808) :
    timestampToTime (unixMicro t) = ⟨t.sec, t.nsec / 1000 * 1000⟩ := by
  obtain ⟨s, n⟩ := t
  simp only at hn h1 h2
  have hw : unixMicro ⟨s, n⟩ = s * 1000000 + n / 1000 := by
    unfold unixMicro wrapS64; dsimp only; omega
  rw [hw]
  unfold timestampToTime goUnix trem tquot
  by_cases h : 0 ≤ s * 1000000 + n / 1000
  · simp only [h, if_true]
    split
    · split <;> (try split) <;> (try dsimp only) <;> (try simp only [GoTime.mk.injEq]) <;> omega
    · simp only [GoTime.mk.injEq]; omega
  · simp only [h, if_false]
    split
    · split <;> (try split) <;> (try dsimp only) <;> (try simp only [GoTime.mk.injEq]) <;> omega
    · simp only [GoTime.mk.injEq]; omega

example : timestampToTime (unixMicro ⟨16725225600, 123456789⟩) = ⟨16725225600, 123456000⟩ := by decide
example : unixMicro (timestampToTime (-9223372036854775808)) = -9223372036854775808 := by decide

/-- Dates, the whole int32 day range: any instant inside UTC day `d` (any second of the day, any
nanosecond) encodes as `d`. (F08b: the pre-fix code saturated beyond ±106751 days; F08c: it
truncated toward zero, so instants before 1970 landed on the following day.) -/
theorem date_day_class (d s ns : Int) (hd : -2147483648 ≤ d ∧ d < 2147483648)
    (hs : 0 ≤ s ∧ s < 86400) : daysSinceEpoch ⟨d * 86400 + s, ns⟩ = d := by
  unfold daysSinceEpoch trem tquot wrapS32
  dsimp only
  by_cases h : 0 ≤ d * 86400 + s
  · simp only [h, if_true]; split <;> omega
  · simp only [h, if_false]; split <;> omega

/-- Dates, wire → Go → wire. -/
theorem date_wire_roundtrip (d : Int) (hd : -2147483648 ≤ d ∧ d < 2147483648) :
    daysSinceEpoch (date32ToTime d) = d := by
  have := date_day_class d 0 0 hd (by omega)
  simpa [date32ToTime] using this

/-- Dates, Go → wire → Go: midnight UTC of the instant's own UTC calendar day. -/
theorem date_value_roundtrip (t : GoTime) (hd : -2147483648 ≤ t.sec / 86400 ∧ t.sec / 86400 < 2147483648) :
    date32ToTime (daysSinceEpoch t) = ⟨t.sec / 86400 * 86400, 0⟩ := by
  obtain ⟨s, n⟩ := t
  have := date_day_class (s / 86400) (s % 86400) n hd (by omega)
  have e : s / 86400 * 86400 + s % 86400 = s := by omega
  rw [e] at this
  simp only [date32ToTime, this]

example : daysSinceEpoch ⟨-43200, 0⟩ = -1 := by decide          -- 1969-12-31T12:00Z (F08c witness)
example : daysSinceEpoch ⟨16725225600, 0⟩ = 193579 := by decide   -- 2500-01-01 (F08b witness)
example : daysSinceEpoch (date32ToTime (-2147483648)) = -2147483648 := by decide

/-- Times of day, wire → Go → wire over the valid time64[us] range. -/
theorem time_wire_roundtrip (us : Int) (h : 0 ≤ us ∧ us < 86400000000) :
    microsSinceMidnight (time64ToTime us) = us := by
  unfold microsSinceMidnight time64ToTime
  rw [wrapS64_id (us * 1000) (by omega) (by omega)]
  unfold goAdd trem tquot
  dsimp only
  have h0 : (0 : Int) ≤ us * 1000 := by omega
  simp only [h0, if_true]
  split <;> (try split) <;> (try dsimp only) <;> omega

/-- Times of day, Go → wire → Go: the time of day of the instant (UTC), to the microsecond, on
the fixed epoch day. -/
theorem time_value_roundtrip (t : GoTime) (hn : 0 ≤ t.nsec ∧ t.nsec < 1000000000) :
    time64ToTime (microsSinceMidnight t) = ⟨t.sec % 86400, t.nsec / 1000 * 1000⟩ := by
  obtain ⟨s, n⟩ := t
  simp only at hn
  unfold microsSinceMidnight time64ToTime
  dsimp only
  have hm : (s % 86400 / 3600 * 3600000000 + s % 86400 % 3600 / 60 * 60000000 + s % 86400 % 60 * 1000000 + n / 1000)
      = (s % 86400) * 1000000 + n / 1000 := by omega
  rw [hm, wrapS64_id _ (by omega) (by omega)]
  unfold goAdd trem tquot
  dsimp only
  have h0 : (0 : Int) ≤ ((s % 86400) * 1000000 + n / 1000) * 1000 := by omega
  simp only [h0, if_true]
  split <;> (try split) <;> (try dsimp only) <;> simp only [GoTime.mk.injEq] <;> omega

example : time64ToTime (microsSinceMidnight ⟨-1, 999999999⟩) = ⟨86399, 999999000⟩ := by decide

/-- Durations, Go → wire → Go: every int64 nanosecond count comes back truncated toward zero to
whole microseconds. -/
theorem dur_value_roundtrip (ns : Int) (h : -9223372036854775808 ≤ ns ∧ ns < 9223372036854775808) :
    durDecode (durEncode ns) = ns - trem ns 1000 ∧
      (0 ≤ ns → 0 ≤ trem ns 1000 ∧ trem ns 1000 < 1000) ∧ (ns < 0 → -1000 < trem ns 1000 ∧ trem ns 1000 ≤ 0) := by
  unfold durDecode durEncode trem tquot
  by_cases h0 : 0 ≤ ns
  · simp only [h0, if_true]
    rw [wrapS64_id _ (by omega) (by omega)]; omega
  · simp only [h0, if_false]
    have hb : (-ns) / 1000 ≤ 9223372036854775 := by
      have := Int.ediv_le_ediv (a := -ns) (b := 9223372036854775808) (c := 1000) (by omega) (by omega)
      omega
    have g1 : -9223372036854775808 ≤ -(-ns / 1000) * 1000 := by omega
    have g2 : -(-ns / 1000) * 1000 < 9223372036854775808 := by omega
    rw [wrapS64_id _ g1 g2]
    refine ⟨by omega, fun hx => by first | exact hx.elim | exact absurd hx h0, fun _ => by omega⟩

/-- Durations, wire → Go → wire for every microsecond count a Go `time.Duration` can hold. -/
theorem dur_wire_roundtrip (us : Int) (h : -9223372036854775 ≤ us ∧ us ≤ 9223372036854775) :
    durEncode (durDecode us) = us := by
  unfold durDecode durEncode tquot
  rw [wrapS64_id _ (by omega) (by omega)]
  split <;> omega

example : durDecode (durEncode (-1500)) = -1000 := by decide

/-- Integer widths, Go → wire → Go: for every Go integer kind and every wire integer type (any
signedness, widths up to 64), a value inside both ranges survives. -/
theorem int_value_roundtrip (go wire : ITy) (v : Int)
    (hg : 0 < go.bits ∧ go.bits ≤ 64) (hw : 0 < wire.bits ∧ wire.bits ≤ 64)
    (h1 : go.InRange v) (h2 : wire.InRange v) :
    decodeInt go wire (encodeInt wire v) = v := by
  have e1 := wrap_i64_of_inRange wire v hw h2
  have e2 := wrap_of_inRange wire v hw.1 h2
  have e3 := wrap_of_inRange go v hg.1 h1
  have e4 := wrap_i64_of_inRange go v hg h1
  unfold encodeInt decodeInt
  cases hs : wire.signed <;> cases hgs : go.signed <;>
    simp only [if_true, if_false, Bool.false_eq_true] <;> simp_all

/-- Integer widths, wire → Go → wire. -/
theorem int_wire_roundtrip (go wire : ITy) (w : Int)
    (hg : 0 < go.bits ∧ go.bits ≤ 64) (hw : 0 < wire.bits ∧ wire.bits ≤ 64)
    (h1 : go.InRange w) (h2 : wire.InRange w) :
    encodeInt wire (decodeInt go wire w) = w := by
  have e1 := wrap_i64_of_inRange wire w hw h2
  have e2 := wrap_of_inRange wire w hw.1 h2
  have e3 := wrap_of_inRange go w hg.1 h1
  have e4 := wrap_i64_of_inRange go w hg h1
  unfold encodeInt decodeInt
  cases hs : wire.signed <;> cases hgs : go.signed <;>
    simp only [if_true, if_false, Bool.false_eq_true] <;> simp_all

example : decodeInt ⟨false, 64⟩ ⟨false, 64⟩ (encodeInt ⟨false, 64⟩ 18446744073709551615) = 18446744073709551615 := by decide
example : decodeInt ⟨true, 64⟩ ⟨true, 8⟩ (encodeInt ⟨true, 8⟩ (-128)) = -128 := by decide

/-- Decimals, wire → Go → wire: every decimal128(20,4) value (|n| < 10²⁰) is rendered with four
decimal places and parses back to the same scaled integer. -/
theorem decimal_wire_roundtrip (n : Int) (h : -decLimit < n ∧ n < decLimit) :
    decParse (decToString n) = .ok n :=
  decParse_decToString n h

example : decToString (-15000) = ['-', '1', '.', '5', '0', '0', '0'] := by decide
example : decParse ['1', '.', '2', '3', '4', '5', '6'] = .ok 12346 := by
  simp [decParse, decParseBody, decScale, parseDigits, parseDigitsAcc, digitVal, decLimit]

end Vgi.Values
