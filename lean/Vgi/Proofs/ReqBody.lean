import Vgi.Model.ReqBody
import Vgi.Proofs.CompressGrammar
/-!
Specification vocabulary and helper lemmas for `Vgi.Props.C18` (request-body decoding and caps).
-/
namespace Vgi.Proofs.ReqBody
open Vgi Vgi.Compress Vgi.ReqBody

/-! ## Specification vocabulary -/

/-- Total number of bytes a frame list decodes to. -/
def total : List Frame → Nat
  | [] => 0
  | f :: rest => f.len + total rest

/-- The advertised request cap governs this request: it is set, the path is not exempt, and no
tighter body cap shadows it. -/
def Applied (cfg : Cfg) (exempt : Bool) : Prop :=
  cfg.maxReq > 0 ∧ exempt = false ∧ (cfg.maxBody ≤ 0 ∨ cfg.maxReq ≤ cfg.maxBody)

instance (cfg : Cfg) (exempt : Bool) : Decidable (Applied cfg exempt) := by
  unfold Applied; exact inferInstance

/-- `n` wire bytes are within every configured raw-size cap (as documented on
`SetMaxBodySize` / `SetMaxRequestBytes`; health routes are exempt from the latter). -/
def RawWithin (cfg : Cfg) (exempt : Bool) (n : Nat) : Prop :=
  (cfg.maxBody > 0 → (n : Int) ≤ cfg.maxBody) ∧
  (cfg.maxReq > 0 → exempt = false → (n : Int) ≤ cfg.maxReq)

/-- `n` decoded bytes are within every configured decoded-size cap: the advertised request cap
when it governs; the explicit decompressed cap when positive; sixteen times the body cap when the
decompressed cap is unset (0) and the request cap does not govern; nothing when it is negative. -/
def DecWithin (cfg : Cfg) (exempt : Bool) (n : Nat) : Prop :=
  (Applied cfg exempt → (n : Int) ≤ cfg.maxReq) ∧
  (cfg.maxDec > 0 → (n : Int) ≤ cfg.maxDec) ∧
  (cfg.maxDec = 0 → ¬ Applied cfg exempt → cfg.maxBody > 0 → (n : Int) ≤ 16 * cfg.maxBody)

/-- A stream the library decodes completely: constructor succeeds, no terminal error. -/
def Clean (f : Facts) : Prop := f.initErr = false ∧ f.tailErr = false

/-- Every zstd window fits the decoder's memory bound for limit `m` (and the library default). -/
def WindowsFit (c : Codec) (f : Facts) (m : Int) : Prop :=
  c = .zstd → ∀ fr ∈ f.frames, fr.window ≤ windowLimit m

/-- The declared content size (if any) is not above the limit. -/
def DeclaredFits (f : Facts) (m : Int) : Prop := ∀ n, f.fcs = some n → (n : Int) ≤ m

/-! ## rawLimit / decCap against the documented caps -/

theorem rawLimit_applied (cfg : Cfg) (exempt : Bool) :
    ((rawLimit cfg exempt).2 = true ↔ Applied cfg exempt) ∧
    (Applied cfg exempt → (rawLimit cfg exempt).1 = cfg.maxReq) ∧
    (¬ Applied cfg exempt → (rawLimit cfg exempt).1 = cfg.maxBody) := by
  unfold rawLimit Applied
  by_cases h : cfg.maxReq > 0 ∧ exempt = false ∧ (cfg.maxBody ≤ 0 ∨ cfg.maxReq ≤ cfg.maxBody)
  · simp [h]
  · simp [h]

theorem rawWithin_iff (cfg : Cfg) (exempt : Bool) (n : Nat) :
    RawWithin cfg exempt n ↔ ((rawLimit cfg exempt).1 > 0 → (n : Int) ≤ (rawLimit cfg exempt).1) := by
  obtain ⟨_, h2, h3⟩ := rawLimit_applied cfg exempt
  unfold RawWithin
  by_cases ha : Applied cfg exempt
  · rw [h2 ha]
    obtain ⟨a1, a2, a3⟩ := ha
    constructor
    · intro ⟨_, hr⟩ _; exact hr a1 a2
    · intro h
      have := h a1
      refine ⟨fun hb => ?_, fun _ _ => this⟩
      omega
  · rw [h3 ha]
    unfold Applied at ha
    constructor
    · intro ⟨hb, _⟩ hp; exact hb hp
    · intro h
      refine ⟨h, fun hr he => ?_⟩
      have hb : cfg.maxBody > 0 ∧ cfg.maxBody < cfg.maxReq := by
        by_cases hb : cfg.maxBody ≤ 0
        · exact absurd ⟨hr, he, Or.inl hb⟩ ha
        · by_cases hc : cfg.maxReq ≤ cfg.maxBody
          · exact absurd ⟨hr, he, Or.inr hc⟩ ha
          · omega
      have := h hb.1
      omega

theorem decWithin_iff (cfg : Cfg) (exempt : Bool) (n : Nat) :
    DecWithin cfg exempt n ↔ (decCap cfg exempt > 0 → (n : Int) ≤ decCap cfg exempt) := by
  obtain ⟨h1, h2, h3⟩ := rawLimit_applied cfg exempt
  unfold DecWithin decCap
  by_cases ha : Applied cfg exempt
  · have e1 : (rawLimit cfg exempt) = (cfg.maxReq, true) := by
      apply Prod.ext
      · exact h2 ha
      · exact h1.mpr ha
    have hpos : cfg.maxReq > 0 := ha.1
    rw [e1]
    simp only [true_and]
    by_cases hd : cfg.maxDec ≤ 0 ∨ cfg.maxReq < cfg.maxDec
    · simp only [hd, if_true]
      constructor
      · intro ⟨a, _, _⟩ _; exact a ha
      · intro h
        have := h hpos
        refine ⟨fun _ => this, fun hp => ?_, fun _ hn => absurd ha hn⟩
        rcases hd with hd | hd <;> omega
    · simp only [hd, if_false]
      have hd' : cfg.maxDec > 0 ∧ cfg.maxDec ≤ cfg.maxReq := by omega
      have hz : ¬ (cfg.maxDec = 0 ∧ cfg.maxReq > 0) := by omega
      simp only [hz, if_false]
      constructor
      · intro ⟨_, b, _⟩ hp; exact b hp
      · intro h
        have := h hd'.1
        refine ⟨fun _ => by omega, fun _ => this, fun _ hn => absurd ha hn⟩
  · have e1 : (rawLimit cfg exempt) = (cfg.maxBody, false) := by
      apply Prod.ext
      · exact h3 ha
      · cases hb : (rawLimit cfg exempt).2 with
        | false => rfl
        | true => exact absurd (h1.mp hb) ha
    rw [e1]
    simp only [Bool.false_eq_true, false_and, if_false]
    by_cases hz : cfg.maxDec = 0 ∧ cfg.maxBody > 0
    · rw [if_pos hz]
      constructor
      · intro ⟨_, _, c⟩ _
        have := c hz.1 ha hz.2
        omega
      · intro h
        have : (n : Int) ≤ cfg.maxBody * 16 := h (by omega)
        refine ⟨fun hh => absurd hh ha, fun hp => by omega, fun _ _ _ => by omega⟩
    · rw [if_neg hz]
      constructor
      · intro ⟨_, b, _⟩ hp; exact b hp
      · intro h
        refine ⟨fun hh => absurd hh ha, h, fun h0 _ hb => absurd ⟨h0, hb⟩ hz⟩

/-! ## streams -/

theorem streamAvail_le_total (wlim : Nat) (t : Bool) (fs : List Frame) :
    (streamAvail wlim t fs).1 ≤ total fs := by
  induction fs with
  | nil => simp [streamAvail, total]
  | cons f rest ih =>
    simp only [streamAvail, total]
    split
    · simp
    · simp only; omega

theorem streamAvail_clean_iff (wlim : Nat) (t : Bool) (fs : List Frame) :
    (streamAvail wlim t fs).2 = .clean ↔ (t = false ∧ ∀ f ∈ fs, f.window ≤ wlim) := by
  induction fs with
  | nil => cases t <;> simp [streamAvail]
  | cons f rest ih =>
    simp only [streamAvail, List.mem_cons, forall_eq_or_imp]
    by_cases hw : f.window > wlim
    · simp only [hw, if_true, reduceCtorEq, false_iff, not_and]
      intro _ h; omega
    · simp only [hw, if_false, ih]
      constructor
      · intro ⟨a, b⟩; exact ⟨a, by omega, b⟩
      · intro ⟨a, _, b⟩; exact ⟨a, b⟩

theorem streamAvail_clean_total (wlim : Nat) (t : Bool) (fs : List Frame)
    (h : (streamAvail wlim t fs).2 = .clean) : (streamAvail wlim t fs).1 = total fs := by
  induction fs with
  | nil => simp [streamAvail, total]
  | cons f rest ih =>
    simp only [streamAvail] at h ⊢
    by_cases hw : f.window > wlim
    · simp [hw] at h
    · simp only [hw, if_false] at h ⊢
      simp only [total, ih h]

/-- gzip members carry no window: they always fit. -/
theorem zeroed_windows_fit (fs : List Frame) (wlim : Nat) :
    ∀ f ∈ fs.map (fun f => { f with window := 0 }), f.window ≤ wlim := by
  intro f hf
  obtain ⟨g, _, rfl⟩ := List.mem_map.mp hf
  simp

theorem total_zeroed (fs : List Frame) :
    total (fs.map (fun f => { f with window := 0 })) = total fs := by
  induction fs with
  | nil => rfl
  | cons f rest ih => simp [total, ih]

/-- The frame list and window limit `decompressBounded` works with. -/
def effFrames (c : Codec) (facts : Facts) : List Frame :=
  if c = .zstd then facts.frames else facts.frames.map (fun f => { f with window := 0 })

def effLimit (c : Codec) (m : Int) : Nat := if c = .zstd then windowLimit m else zstdDefaultMaxWindow

theorem total_effFrames (c : Codec) (facts : Facts) : total (effFrames c facts) = total facts.frames := by
  unfold effFrames; split
  · rfl
  · exact total_zeroed _

/-! ## decompressBounded -/

/-- Unfolded form of `decompressBounded` for a known codec. -/
theorem decompressBounded_eq (c : Codec) (facts : Facts) (m : Int) :
    decompressBounded (some c) facts m =
      if c = .zstd ∧ m > 0 ∧ fcsOver facts.fcs m = true then (.tooLarge m, 0)
      else if facts.initErr then (.decodeErr, 0)
      else
        let r := streamAvail (effLimit c m) facts.tailErr (effFrames c facts)
        if m > 0 then
          if r.1 ≥ m.toNat + 2 then (.tooLarge m, min r.1 (m.toNat + 1))
          else if r.1 = m.toNat + 1 then
            (if r.2 = .tail ∧ facts.errWithData then .decodeErr else .tooLarge m, min r.1 (m.toNat + 1))
          else if r.2 ≠ .clean then (.decodeErr, min r.1 (m.toNat + 1))
          else (.ok r.1, min r.1 (m.toNat + 1))
        else if r.2 ≠ .clean then (.decodeErr, r.1) else (.ok r.1, r.1) := by
  unfold decompressBounded effLimit effFrames
  rfl

/-- Whatever `decompressBounded` returns successfully is the whole, cleanly ended stream, within
the limit. -/
theorem decompressBounded_ok (c : Codec) (facts : Facts) (m : Int) (n : Nat)
    (h : (decompressBounded (some c) facts m).1 = .ok n) :
    n = total facts.frames ∧ facts.initErr = false ∧ facts.tailErr = false ∧ (m > 0 → (n : Int) ≤ m) ∧
    (c = .zstd → ∀ f ∈ facts.frames, f.window ≤ windowLimit m) := by
  rw [decompressBounded_eq] at h
  split at h
  · simp at h
  · split at h
    · simp at h
    · rename_i h1 h2
      simp only at h
      have hi : facts.initErr = false := by simpa using h2
      by_cases hm : m > 0
      · simp only [hm, if_true] at h
        split at h
        · simp at h
        · split at h
          · split at h <;> simp at h
          · split at h
            · simp at h
            · rename_i h3 h4 h5
              simp only [DOut.ok.injEq] at h
              have hc : (streamAvail (effLimit c m) facts.tailErr (effFrames c facts)).2 = .clean := by
                simpa using h5
              have ht := streamAvail_clean_total _ _ _ hc
              have hcl := (streamAvail_clean_iff _ _ _).mp hc
              rw [total_effFrames] at ht
              refine ⟨by omega, hi, hcl.1, fun _ => by omega, ?_⟩
              intro hz f hf
              have := hcl.2 f (by unfold effFrames; simpa [hz] using hf)
              simpa [effLimit, hz] using this
      · simp only [hm, if_false] at h
        split at h
        · simp at h
        · rename_i h5
          simp only [DOut.ok.injEq] at h
          have hc : (streamAvail (effLimit c m) facts.tailErr (effFrames c facts)).2 = .clean := by
            simpa using h5
          have ht := streamAvail_clean_total _ _ _ hc
          have hcl := (streamAvail_clean_iff _ _ _).mp hc
          rw [total_effFrames] at ht
          refine ⟨by omega, hi, hcl.1, fun hp => absurd hp hm, ?_⟩
          intro hz f hf
          have := hcl.2 f (by unfold effFrames; simpa [hz] using hf)
          simpa [effLimit, hz] using this

/-- A clean stream within the limit is decoded completely. -/
theorem decompressBounded_clean (c : Codec) (facts : Facts) (m : Int)
    (hcl : Clean facts) (hw : WindowsFit c facts m) (hd : m > 0 → DeclaredFits facts m)
    (ht : m > 0 → (total facts.frames : Int) ≤ m) :
    (decompressBounded (some c) facts m).1 = .ok (total facts.frames) := by
  rw [decompressBounded_eq]
  have hfo : ¬ (c = .zstd ∧ m > 0 ∧ fcsOver facts.fcs m = true) := by
    rintro ⟨_, hm, ho⟩
    unfold fcsOver at ho
    cases hf : facts.fcs with
    | none => simp [hf] at ho
    | some k =>
      simp only [hf, decide_eq_true_eq] at ho
      have := hd hm k hf
      omega
  simp only [hfo, if_false, hcl.1, Bool.false_eq_true]
  have hc : (streamAvail (effLimit c m) facts.tailErr (effFrames c facts)).2 = .clean := by
    rw [streamAvail_clean_iff]
    refine ⟨hcl.2, ?_⟩
    unfold effFrames effLimit
    by_cases hz : c = .zstd
    · simp only [hz, if_true]; exact hw hz
    · simp only [hz, if_false]; exact zeroed_windows_fit _ _
  have hta := streamAvail_clean_total _ _ _ hc
  rw [total_effFrames] at hta
  simp only [hc, ne_eq, not_true_eq_false, if_false, hta]
  by_cases hm : m > 0
  · have := ht hm
    have h1 : ¬ (total facts.frames ≥ m.toNat + 2) := by omega
    have h2 : ¬ (total facts.frames = m.toNat + 1) := by omega
    simp [hm, h1, h2]
  · simp [hm]

/-- `decompressBounded` never pulls more than `limit + 1` decoded bytes. -/
theorem decompressBounded_pulled (c : Option Codec) (facts : Facts) (m : Int) (hm : m > 0) :
    (decompressBounded c facts m).2 ≤ m.toNat + 1 := by
  cases c with
  | none => simp [decompressBounded]
  | some c =>
    rw [decompressBounded_eq]
    split
    · simp
    · split
      · simp
      · simp only [hm, if_true]
        split
        · exact Nat.min_le_right _ _
        · split
          · exact Nat.min_le_right _ _
          · split <;> exact Nat.min_le_right _ _

/-- With a limit in force, a too-large answer means more than `limit` bytes were declared or
available. -/
theorem decompressBounded_tooLarge (c : Codec) (facts : Facts) (m l : Int)
    (h : (decompressBounded (some c) facts m).1 = .tooLarge l) :
    l = m ∧ m > 0 ∧ ((∃ k, facts.fcs = some k ∧ (k : Int) > m) ∨ (total facts.frames : Int) > m) := by
  rw [decompressBounded_eq] at h
  split at h
  · rename_i h1
    simp only [DOut.tooLarge.injEq] at h
    refine ⟨h.symm, h1.2.1, Or.inl ?_⟩
    have ho := h1.2.2
    unfold fcsOver at ho
    cases hf : facts.fcs with
    | none => simp [hf] at ho
    | some k => exact ⟨k, rfl, by simpa [hf] using ho⟩
  · split at h
    · simp at h
    · simp only at h
      have hle := streamAvail_le_total (effLimit c m) facts.tailErr (effFrames c facts)
      rw [total_effFrames] at hle
      by_cases hm : m > 0
      · simp only [hm, if_true] at h
        split at h
        · simp only [DOut.tooLarge.injEq] at h
          exact ⟨h.symm, hm, Or.inr (by omega)⟩
        · split at h
          · split at h
            · simp at h
            · simp only [DOut.tooLarge.injEq] at h
              exact ⟨h.symm, hm, Or.inr (by omega)⟩
          · split at h <;> simp at h
      · simp only [hm, if_false] at h
        split at h <;> simp at h

end Vgi.Proofs.ReqBody
