import Vgi.Model.Compress
/-!
Specification vocabulary and helper lemmas for `Vgi.Props.C17` (response-compression negotiation).
The headline theorems are in `Vgi/Props/C17.lean`.
-/
namespace Vgi.Proofs.Compress
open Vgi Vgi.Compress

/-! ## Specification vocabulary -/

/-- The client's stated token list of one accept header: every comma element, normalised
(trimmed, `;params` cut, lower-cased), empty elements dropped, **duplicates kept**. -/
def rawTokens (h : Bytes) : List Bytes :=
  if h = [] then [] else ((splitOn cComma h).map normTok).filter (fun t => t ≠ [])

/-- What a token list decides: the first token that is `identity` (⇒ send as is) or a codec the
server can produce (⇒ that codec); nothing if no token is decisive. -/
inductive Decision
  | codec (w : Bytes)
  | identity
  | undecided
  deriving DecidableEq, Repr

def decide1 (P : List Bytes) : List Bytes → Decision
  | [] => .undecided
  | t :: rest => if t = tIdentity then .identity else if t ∈ P then .codec t else decide1 P rest

def Decision.orElse : Decision → Decision → Decision
  | .undecided, d => d
  | d, _ => d

/-- The codec a decision yields (`[]` = uncompressed). -/
def Decision.enc : Decision → Bytes
  | .codec w => w
  | _ => []

/-- The property's specification of the choice: the custom header decides; only if it is silent
does the standard header decide. No merging, no de-duplication. -/
def specDecision (c s : Bytes) (P : List Bytes) : Decision :=
  (decide1 P (rawTokens c)).orElse (decide1 P (rawTokens s))

/-- The client's whole preference order: custom header first, then the standard header. -/
def clientOrder (c s : Bytes) : List Bytes := rawTokens c ++ rawTokens s

/-! ## Helper lemmas -/

theorem contains_iff {l : List Bytes} {a : Bytes} : l.contains a = true ↔ a ∈ l := by
  simp

theorem decide1_append (P a b) : decide1 P (a ++ b) = (decide1 P a).orElse (decide1 P b) := by
  induction a with
  | nil => simp [decide1, Decision.orElse]
  | cons t rest ih =>
    simp only [List.cons_append, decide1]
    by_cases h1 : t = tIdentity
    · simp [h1, Decision.orElse]
    · by_cases h2 : t ∈ P
      · simp [h1, h2, Decision.orElse]
      · simp [h1, h2, ih]

/-- A token is decisive when it is `identity` or producible. -/
def Decisive (P : List Bytes) (t : Bytes) : Prop := t = tIdentity ∨ t ∈ P

theorem decide1_undecided_iff (P l) : decide1 P l = .undecided ↔ ∀ t ∈ l, ¬ Decisive P t := by
  induction l with
  | nil => simp [decide1]
  | cons t rest ih =>
    simp only [decide1, Decisive, List.mem_cons, forall_eq_or_imp]
    by_cases h1 : t = tIdentity
    · simp [h1]
    · by_cases h2 : t ∈ P
      · simp [h1, h2]
      · simp only [h1, h2, if_false, or_self, not_false_eq_true, true_and]
        exact ih

/-- Removing non-decisive tokens does not change the decision. -/
theorem decide1_filter (P : List Bytes) (keep : Bytes → Bool) (l : List Bytes)
    (h : ∀ t ∈ l, keep t = false → ¬ Decisive P t) :
    decide1 P (l.filter keep) = decide1 P l := by
  induction l with
  | nil => rfl
  | cons t rest ih =>
    have ih' := ih (fun u hu => h u (List.mem_cons_of_mem _ hu))
    by_cases hk : keep t = true
    · simp only [List.filter_cons, hk, if_true, decide1, ih']
    · have hk' : keep t = false := by simpa using hk
      have hnd := h t (List.mem_cons_self) hk'
      simp only [Decisive, not_or] at hnd
      simp only [List.filter_cons, hk', decide1, hnd.1, hnd.2, if_false]
      simpa using ih'

/-- The `seen`-map loop keeps exactly the raw tokens not yet seen. -/
theorem mem_parseLoop (t : Bytes) : ∀ (xs : List Bytes) (seen : List Bytes),
    t ∈ parseLoop seen xs ↔ (t ∈ (xs.map normTok).filter (fun t => t ≠ []) ∧ t ∉ seen) := by
  intro xs
  induction xs with
  | nil => intro seen; simp [parseLoop]
  | cons raw rest ih =>
    intro seen
    simp only [parseLoop, List.map_cons, List.filter_cons]
    by_cases h0 : normTok raw = []
    · simp only [h0, if_true, ih seen]
      simp
    · by_cases hs : seen.contains (normTok raw) = true
      · have hs' : normTok raw ∈ seen := contains_iff.mp hs
        simp only [h0, hs, if_true, if_false, ih seen, ne_eq, not_false_eq_true, decide_true,
          List.mem_cons]
        constructor
        · rintro ⟨h1, h2⟩; exact ⟨Or.inr h1, h2⟩
        · rintro ⟨h1 | h1, h2⟩
          · exact absurd (h1 ▸ hs') h2
          · exact ⟨h1, h2⟩
      · have hs' : normTok raw ∉ seen := fun h => hs (contains_iff.mpr h)
        have hsf : seen.contains (normTok raw) = false := by simpa using hs
        simp only [h0, hsf, if_false, Bool.false_eq_true, ne_eq, not_false_eq_true, decide_true,
          if_true, List.mem_cons, ih (normTok raw :: seen), not_or]
        constructor
        · rintro (h1 | ⟨h1, h2, h3⟩)
          · exact ⟨Or.inl h1, h1 ▸ hs'⟩
          · exact ⟨Or.inr h1, h3⟩
        · rintro ⟨h1 | h1, h2⟩
          · exact Or.inl h1
          · by_cases he : t = normTok raw
            · exact Or.inl he
            · exact Or.inr ⟨h1, he, h2⟩

/-- De-duplication never changes the decision (only non-decisive tokens may already be seen). -/
theorem decide1_parseLoop (P : List Bytes) : ∀ (xs seen : List Bytes),
    (∀ u ∈ seen, ¬ Decisive P u) →
    decide1 P (parseLoop seen xs) = decide1 P ((xs.map normTok).filter (fun t => t ≠ [])) := by
  intro xs
  induction xs with
  | nil => intro seen _; rfl
  | cons raw rest ih =>
    intro seen hseen
    simp only [parseLoop, List.map_cons, List.filter_cons]
    by_cases h0 : normTok raw = []
    · simp only [h0, if_true, ih seen hseen]; simp
    · by_cases hs : seen.contains (normTok raw) = true
      · have hnd := hseen _ (contains_iff.mp hs)
        simp only [Decisive, not_or] at hnd
        simp only [h0, hs, if_true, if_false, ih seen hseen, ne_eq, not_false_eq_true, decide_true,
          decide1, hnd.1, hnd.2]
      · have hsf : seen.contains (normTok raw) = false := by simpa using hs
        simp only [h0, hsf, if_false, Bool.false_eq_true, ne_eq, not_false_eq_true, decide_true,
          if_true, decide1]
        by_cases h1 : normTok raw = tIdentity
        · simp [h1]
        · by_cases h2 : normTok raw ∈ P
          · simp [h1, h2]
          · simp only [h1, h2, if_false]
            apply ih
            intro u hu
            rcases List.mem_cons.mp hu with rfl | hu
            · simp [Decisive, h1, h2]
            · exact hseen u hu

theorem mem_parseAccept (h t : Bytes) : t ∈ parseAccept h ↔ t ∈ rawTokens h := by
  unfold parseAccept rawTokens
  by_cases h0 : h = []
  · simp [h0]
  · simp only [h0, if_false, mem_parseLoop, List.not_mem_nil, not_false_eq_true, and_true]

theorem decide1_parseAccept (P : List Bytes) (h : Bytes) :
    decide1 P (parseAccept h) = decide1 P (rawTokens h) := by
  unfold parseAccept rawTokens
  by_cases h0 : h = []
  · simp [h0]
  · simp only [h0, if_false]
    exact decide1_parseLoop P _ [] (by simp)

theorem walk_fst (ic is P : List Bytes) (l : List Bytes) :
    (walk ic is P l).1 = (decide1 P l).enc := by
  induction l with
  | nil => rfl
  | cons t rest ih =>
    simp only [walk, decide1]
    by_cases h1 : t = tIdentity
    · simp [h1, Decision.enc]
    · by_cases h2 : t ∈ P
      · simp [h1, h2, Decision.enc]
      · simp [h1, h2, ih]

theorem walk_snd (ic is P : List Bytes) (l : List Bytes) :
    (walk ic is P l).2 = (decide ((walk ic is P l).1 ≠ []) && (ic.contains (walk ic is P l).1 &&
      !is.contains (walk ic is P l).1)) ∨ ([] : Bytes) ∈ l := by
  induction l with
  | nil => left; simp [walk]
  | cons t rest ih =>
    by_cases h0 : t = []
    · right; simp [h0]
    · simp only [walk]
      by_cases h1 : t = tIdentity
      · left; simp [h1]
      · by_cases h2 : t ∈ P
        · left; simp [h1, h2, h0]
        · rcases ih with ih | ih
          · left; simpa [h1, h2] using ih
          · right; exact List.mem_cons_of_mem _ ih

theorem nil_not_mem_rawTokens (h : Bytes) : ([] : Bytes) ∉ rawTokens h := by
  unfold rawTokens
  by_cases h0 : h = []
  · simp [h0]
  · simp [h0]

theorem nil_not_mem_parseAccept (h : Bytes) : ([] : Bytes) ∉ parseAccept h := by
  rw [mem_parseAccept]; exact nil_not_mem_rawTokens h

/-- The merged list decides like "custom, else standard". -/
theorem decide1_merge (P : List Bytes) (c s : Bytes) :
    decide1 P (mergeTokens (parseAccept c) (parseAccept s)) = specDecision c s P := by
  unfold mergeTokens specDecision
  rw [decide1_append, decide1_parseAccept]
  cases hc : decide1 P (rawTokens c) with
  | codec w => rfl
  | identity => rfl
  | undecided =>
    simp only [Decision.orElse]
    rw [← decide1_parseAccept P s]
    apply decide1_filter
    intro t _ hk
    have hmem : t ∈ parseAccept c := by simpa using hk
    rw [mem_parseAccept] at hmem
    exact (decide1_undecided_iff P _).mp hc t hmem


theorem decide1_codec_split {P l w} (h : decide1 P l = .codec w) :
    w ∈ P ∧ w ≠ tIdentity ∧ ∃ pre post, l = pre ++ w :: post ∧ ∀ t ∈ pre, ¬ Decisive P t := by
  induction l with
  | nil => simp [decide1] at h
  | cons t rest ih =>
    simp only [decide1] at h
    by_cases h1 : t = tIdentity
    · simp [h1] at h
    · by_cases h2 : t ∈ P
      · simp only [h1, h2, if_false, if_true, Decision.codec.injEq] at h
        subst h
        exact ⟨h2, h1, [], rest, rfl, by simp⟩
      · simp only [h1, h2, if_false] at h
        obtain ⟨a, b, pre, post, e, hp⟩ := ih h
        refine ⟨a, b, t :: pre, post, by simp [e], ?_⟩
        intro u hu
        rcases List.mem_cons.mp hu with rfl | hu
        · simp [Decisive, h1, h2]
        · exact hp u hu

theorem decide1_first {P pre post w} (hw : w ∈ P) (hi : w ≠ tIdentity)
    (hp : ∀ t ∈ pre, ¬ Decisive P t) : decide1 P (pre ++ w :: post) = .codec w := by
  rw [decide1_append, (decide1_undecided_iff P pre).mpr hp]
  simp [Decision.orElse, decide1, hi, hw]

theorem decide1_identity_first {P pre post} (hp : ∀ t ∈ pre, t ∉ P) :
    (decide1 P (pre ++ tIdentity :: post)).enc = [] := by
  induction pre with
  | nil => simp [decide1, Decision.enc]
  | cons t rest ih =>
    simp only [List.cons_append, decide1]
    by_cases h1 : t = tIdentity
    · simp [h1, Decision.enc]
    · have h2 : t ∉ P := hp t List.mem_cons_self
      simp only [h1, h2, if_false]
      exact ih (fun u hu => hp u (List.mem_cons_of_mem _ hu))

theorem parseLoop_sublist : ∀ (xs seen : List Bytes),
    (parseLoop seen xs).Sublist ((xs.map normTok).filter (fun t => t ≠ [])) ∧
    (parseLoop seen xs).Nodup := by
  intro xs
  induction xs with
  | nil => intro seen; simp [parseLoop]
  | cons raw rest ih =>
    intro seen
    simp only [parseLoop, List.map_cons, List.filter_cons]
    by_cases h0 : normTok raw = []
    · simp only [h0, if_true]
      simpa using ih seen
    · by_cases hs : seen.contains (normTok raw) = true
      · simp only [h0, hs, if_true, if_false, ne_eq, not_false_eq_true, decide_true]
        exact ⟨((ih seen).1).cons _, (ih seen).2⟩
      · have hsf : seen.contains (normTok raw) = false := by simpa using hs
        simp only [h0, hsf, if_false, Bool.false_eq_true, ne_eq, not_false_eq_true, decide_true,
          if_true]
        refine ⟨((ih _).1).cons₂ _, List.nodup_cons.mpr ⟨?_, (ih _).2⟩⟩
        intro hm
        have := (mem_parseLoop _ _ _).mp hm
        exact this.2 List.mem_cons_self

end Vgi.Proofs.Compress
