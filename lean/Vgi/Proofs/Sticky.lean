import Vgi.Model.Sticky
/-!
Inductive invariants of the sticky-session transition system (`Vgi.Sticky.step`), proved for
every action; `Vgi.Props.C29` lifts them to all reachable states (all interleavings).
-/
namespace Vgi.Sticky
open Vgi

/-! ### Reading a state after `setThr` -/

@[simp] theorem setThr_thr (s : State) (t : Nat) (th : Thread) (i : Nat) :
    (setThr s t th).thr i = if i = t then th else s.thr i := rfl
@[simp] theorem setThr_lock (s : State) (t : Nat) (th : Thread) : (setThr s t th).lock = s.lock := rfl
@[simp] theorem setThr_entries (s : State) (t : Nat) (th : Thread) : (setThr s t th).entries = s.entries := rfl
@[simp] theorem setThr_closeCount (s : State) (t : Nat) (th : Thread) : (setThr s t th).closeCount = s.closeCount := rfl
@[simp] theorem setThr_nextUid (s : State) (t : Nat) (th : Thread) : (setThr s t th).nextUid = s.nextUid := rfl
@[simp] theorem setThr_published (s : State) (t : Nat) (th : Thread) : (setThr s t th).published = s.published := rfl
@[simp] theorem setThr_births (s : State) (t : Nat) (th : Thread) : (setThr s t th).births = s.births := rfl
@[simp] theorem setThr_draining (s : State) (t : Nat) (th : Thread) : (setThr s t th).draining = s.draining := rfl

/-! ### Lock invariant -/

/-- Program counters at which a request may hold an entry lock. -/
def holdsPc : PC → Bool
  | .handler | .rollback | .respond | .unlock | .delLocked => true
  | _ => false

structure LockInv (s : State) : Prop where
  a : ∀ u t, s.lock u = some t → (s.thr t).held = some u
  b : ∀ t u, (s.thr t).held = some u → s.lock u = some t
  c : ∀ t u, (s.thr t).held = some u → holdsPc (s.thr t).pc = true
  d : ∀ t u, (s.thr t).want = some u → holdsPc (s.thr t).pc = true → (s.thr t).held = some u
  e : ∀ t, ((s.thr t).pc = .idle ∨ (s.thr t).pc = .start ∨ (s.thr t).pc = .sys) → (s.thr t).want = none

theorem lockInv_init : LockInv init := by
  constructor <;> simp [init]

/-- A step that leaves the lock table alone and rewrites one thread keeps the invariant when the
thread keeps what it holds and stays consistent. -/
theorem LockInv.frame' {s s' : State} (h : LockInv s) (t : Nat) (th : Thread)
    (hl : s'.lock = s.lock) (ht : ∀ i, s'.thr i = if i = t then th else s.thr i)
    (h1 : th.held = (s.thr t).held)
    (h2 : ∀ u, th.held = some u → holdsPc th.pc = true)
    (h3 : ∀ u, th.want = some u → holdsPc th.pc = true → th.held = some u)
    (h4 : (th.pc = .idle ∨ th.pc = .start ∨ th.pc = .sys) → th.want = none) : LockInv s' := by
  constructor
  · intro u t0 hu
    rw [hl] at hu
    have := h.a u t0 hu
    rw [ht]
    by_cases e : t0 = t
    · subst e; simp only [if_true]; rw [h1]; exact this
    · simp only [e, if_false]; exact this
  · intro t0 u hu
    rw [hl]
    rw [ht] at hu
    by_cases e : t0 = t
    · subst e; simp only [if_true] at hu; rw [h1] at hu; exact h.b _ _ hu
    · simp only [e, if_false] at hu; exact h.b _ _ hu
  · intro t0 u hu
    rw [ht] at hu ⊢
    by_cases e : t0 = t
    · subst e; simp only [if_true] at hu ⊢; exact h2 u hu
    · simp only [e, if_false] at hu ⊢; exact h.c _ _ hu
  · intro t0 u hw hp
    rw [ht] at hw hp ⊢
    by_cases e : t0 = t
    · subst e; simp only [if_true] at hw hp ⊢; exact h3 u hw hp
    · simp only [e, if_false] at hw hp ⊢; exact h.d _ _ hw hp
  · intro t0 hp
    rw [ht] at hp ⊢
    by_cases e : t0 = t
    · subst e; simp only [if_true] at hp ⊢; exact h4 hp
    · simp only [e, if_false] at hp ⊢; exact h.e _ hp

theorem LockInv.frame {s : State} (h : LockInv s) (s0 : State) (t : Nat) (th : Thread)
    (hl : s0.lock = s.lock) (ht : s0.thr = s.thr)
    (h1 : th.held = (s.thr t).held)
    (h2 : ∀ u, th.held = some u → holdsPc th.pc = true)
    (h3 : ∀ u, th.want = some u → holdsPc th.pc = true → th.held = some u)
    (h4 : (th.pc = .idle ∨ th.pc = .start ∨ th.pc = .sys) → th.want = none) :
    LockInv (setThr s0 t th) :=
  h.frame' t th hl (fun i => by simp only [setThr_thr, ht]) h1 h2 h3 h4

theorem LockInv.held_none {s : State} (h : LockInv s) (t : Nat) (hp : holdsPc (s.thr t).pc = false) :
    (s.thr t).held = none := by
  cases hh : (s.thr t).held with
  | none => rfl
  | some u => have := h.c t u hh; rw [hp] at this; cases this

macro "lock_frame" h:ident t:ident : tactic =>
  `(tactic| (refine LockInv.frame $h _ $t _ ?_ ?_ ?_ ?_ ?_ ?_ <;> first | rfl | (simp_all [holdsPc, lostPc]; done) | (simp only [holdsPc] at *; grind)))

macro "lock_simple" h:ident t:ident hs:ident : tactic =>
  `(tactic| (
    simp only [step, closeKey] at $hs:ident
    have hd := LockInv.d $h $t
    have hc := LockInv.c $h $t
    have he := LockInv.e $h $t
    have hn := LockInv.held_none $h $t
    repeat' split at $hs:ident
    all_goals first | cases $hs:ident | skip
    all_goals lock_frame $h $t))

theorem lockInv_step (C : Cfg) (s s' : State) (a : Act) (h : LockInv s) (hs : step C s a = some s') :
    LockInv s' := by
  cases a with
  | spawn t isDel w id tok accept => lock_simple h t hs
  | resolve t now => lock_simple h t hs
  | hOpen t sid ttl now created expUnix => lock_simple h t hs
  | hRollback t => lock_simple h t hs
  | hClose t => lock_simple h t hs
  | runClose t => lock_simple h t hs
  | hEnd t p => lock_simple h t hs
  | respond t => lock_simple h t hs
  | delClose t => lock_simple h t hs
  | reap t w now => lock_simple h t hs
  | shutdown t w => lock_simple h t hs
  | setDraining w v =>
    simp only [step] at hs
    cases hs
    exact ⟨h.a, h.b, h.c, h.d, h.e⟩
  | lock t =>
    simp only [step] at hs
    have hn := h.held_none t
    have ha := h.a; have hb := h.b; have hc := h.c; have hd := h.d; have he := h.e
    repeat' split at hs
    all_goals first | cases hs | skip
    all_goals (constructor <;> simp only [setThr_thr, setThr_lock, holdsPc] at * <;> grind)
  | unlock t =>
    simp only [step] at hs
    have ha := h.a; have hb := h.b; have hc := h.c; have hd := h.d; have he := h.e
    repeat' split at hs
    all_goals first | cases hs | skip
    all_goals (constructor <;> simp only [setThr_thr, setThr_lock, holdsPc] at * <;> grind)

/-! ### Close accounting invariant -/

theorem inj_of_nodup_map {α β : Type} (f : α → β) : ∀ (l : List α), (l.map f).Nodup →
    ∀ a ∈ l, ∀ b ∈ l, f a = f b → a = b
  | [], _, a, ha, _, _, _ => by cases ha
  | x :: l, hn, a, ha, b, hb, hab => by
    simp only [List.map_cons, List.nodup_cons, List.mem_map, not_exists, not_and] at hn
    simp only [List.mem_cons] at ha hb
    rcases ha with ha | ha <;> rcases hb with hb | hb
    · rw [ha, hb]
    · subst ha; exact absurd hab.symm (hn.1 b hb)
    · subst hb; exact absurd hab (hn.1 a ha)
    · exact inj_of_nodup_map f l hn.2 a ha b hb hab

structure CloseInv (s : State) : Prop where
  bound : ∀ e ∈ s.entries, e.uid < s.nextUid
  nodup : (s.entries.map (·.uid)).Nodup
  key : ∀ e1 ∈ s.entries, ∀ e2 ∈ s.entries, e1.worker = e2.worker → e1.sid = e2.sid → e1 = e2
  born : ∀ e ∈ s.entries, ∃ b ∈ s.births, b.entry = e
  live : ∀ e ∈ s.entries, s.closeCount e.uid = 0 ∧ ∀ t, e.uid ∉ (s.thr t).owed
  owed0 : ∀ t u, u ∈ (s.thr t).owed → s.closeCount u = 0 ∧ u < s.nextUid
  owedUniq : ∀ t t' u, u ∈ (s.thr t).owed → u ∈ (s.thr t').owed → t = t'
  owedNodup : ∀ t, ((s.thr t).owed).Nodup
  le1 : ∀ u, s.closeCount u ≤ 1
  cnt : ∀ u, s.closeCount u ≠ 0 → u < s.nextUid
  acct : ∀ u, u < s.nextUid →
    (∃ e ∈ s.entries, e.uid = u) ∨ s.closeCount u = 1 ∨ ∃ t, u ∈ (s.thr t).owed

theorem closeInv_init : CloseInv init := by
  constructor <;> simp [init]

theorem CloseInv.frame {s s' : State} (h : CloseInv s)
    (he : s'.entries = s.entries) (hc : s'.closeCount = s.closeCount) (hn : s'.nextUid = s.nextUid)
    (hb : s'.births = s.births) (ho : ∀ i, (s'.thr i).owed = (s.thr i).owed) : CloseInv s' := by
  constructor
  · rw [he, hn]; exact h.bound
  · rw [he]; exact h.nodup
  · rw [he]; exact h.key
  · rw [he, hb]; exact h.born
  · rw [he, hc]; intro e hm; refine ⟨(h.live e hm).1, fun t => ?_⟩; rw [ho]; exact (h.live e hm).2 t
  · intro t u hu; rw [ho] at hu; rw [hc, hn]; exact h.owed0 t u hu
  · intro t t' u h1 h2; rw [ho] at h1 h2; exact h.owedUniq t t' u h1 h2
  · intro t; rw [ho]; exact h.owedNodup t
  · rw [hc]; exact h.le1
  · rw [hc, hn]; exact h.cnt
  · intro u hu; rw [hn] at hu; rw [he, hc]
    rcases h.acct u hu with h1 | h1 | ⟨t, h1⟩
    · exact Or.inl h1
    · exact Or.inr (Or.inl h1)
    · exact Or.inr (Or.inr ⟨t, by rw [ho]; exact h1⟩)

theorem CloseInv.remove {s s' : State} (h : CloseInv s) (t : Nat) (P : Entry → Bool) (L : List Nat)
    (he : s'.entries = s.entries.filter (fun e => !P e)) (hc : s'.closeCount = s.closeCount)
    (hn : s'.nextUid = s.nextUid) (hb : s'.births = s.births)
    (h0 : (s.thr t).owed = [])
    (ho : ∀ i, (s'.thr i).owed = if i = t then L else (s.thr i).owed)
    (hL : L.Nodup) (hLm : ∀ u, u ∈ L ↔ ∃ e ∈ s.entries, P e = true ∧ e.uid = u) : CloseInv s' := by
  have hsub : ∀ e, e ∈ s'.entries → e ∈ s.entries ∧ P e = false := by
    intro e hm; rw [he] at hm; simpa using hm
  have inj := inj_of_nodup_map (·.uid) s.entries h.nodup
  constructor
  · intro e hm; rw [hn]; exact h.bound e (hsub e hm).1
  · rw [he]; exact List.Nodup.sublist (List.Sublist.map _ List.filter_sublist) h.nodup
  · intro e1 h1 e2 h2; exact h.key e1 (hsub e1 h1).1 e2 (hsub e2 h2).1
  · intro e hm; rw [hb]; exact h.born e (hsub e hm).1
  · intro e hm
    obtain ⟨hm1, hp⟩ := hsub e hm
    rw [hc]
    refine ⟨(h.live e hm1).1, fun i => ?_⟩
    rw [ho]
    by_cases ei : i = t
    · simp only [ei, if_true]
      intro hin
      obtain ⟨e', hm', hp', hu'⟩ := (hLm _).1 hin
      have := inj e' hm' e hm1 hu'
      subst this
      rw [hp] at hp'; cases hp'
    · simp only [ei, if_false]; exact (h.live e hm1).2 i
  · intro i u hu
    rw [ho] at hu; rw [hc, hn]
    by_cases ei : i = t
    · simp only [ei, if_true] at hu
      obtain ⟨e', hm', _, hu'⟩ := (hLm _).1 hu
      subst hu'
      exact ⟨(h.live e' hm').1, h.bound e' hm'⟩
    · simp only [ei, if_false] at hu; exact h.owed0 i u hu
  · intro i j u h1 h2
    rw [ho] at h1 h2
    by_cases ei : i = t <;> by_cases ej : j = t
    · rw [ei, ej]
    · simp only [ei, if_true] at h1; simp only [ej, if_false] at h2
      obtain ⟨e', hm', _, hu'⟩ := (hLm _).1 h1
      subst hu'
      exact absurd h2 ((h.live e' hm').2 j)
    · simp only [ej, if_true] at h2; simp only [ei, if_false] at h1
      obtain ⟨e', hm', _, hu'⟩ := (hLm _).1 h2
      subst hu'
      exact absurd h1 ((h.live e' hm').2 i)
    · simp only [ei, if_false] at h1; simp only [ej, if_false] at h2
      exact h.owedUniq i j u h1 h2
  · intro i; rw [ho]
    by_cases ei : i = t
    · simp only [ei, if_true]; exact hL
    · simp only [ei, if_false]; exact h.owedNodup i
  · rw [hc]; exact h.le1
  · rw [hc, hn]; exact h.cnt
  · intro u hu; rw [hn] at hu; rw [hc]
    rcases h.acct u hu with ⟨e, hm, hu'⟩ | h1 | ⟨i, h1⟩
    · by_cases hp : P e = true
      · refine Or.inr (Or.inr ⟨t, ?_⟩)
        rw [ho]; simp only [if_true]
        exact (hLm u).2 ⟨e, hm, hp, hu'⟩
      · refine Or.inl ⟨e, ?_, hu'⟩
        rw [he]; simp [hm, hp]
    · exact Or.inr (Or.inl h1)
    · refine Or.inr (Or.inr ⟨i, ?_⟩)
      rw [ho]
      by_cases ei : i = t
      · subst ei; rw [h0] at h1; cases h1
      · simp only [ei, if_false]; exact h1


theorem CloseInv.insert {s s' : State} (h : CloseInv s) (e : Entry) (b : Birth)
    (hbe : b.entry = e) (huid : e.uid = s.nextUid)
    (hfresh : ∀ x ∈ s.births, ¬ (x.entry.worker = e.worker ∧ x.entry.sid = e.sid))
    (he : s'.entries = insertEntry s.entries e) (hc : s'.closeCount = s.closeCount)
    (hn : s'.nextUid = s.nextUid + 1) (hb : s'.births = s.births ++ [b])
    (ho : ∀ i, (s'.thr i).owed = (s.thr i).owed) : CloseInv s' := by
  have hins : s'.entries = s.entries ++ [e] := by
    rw [he, insertEntry, removeKey]
    congr 1
    rw [List.filter_eq_self]
    intro x hx
    obtain ⟨b', hb', hbx⟩ := h.born x hx
    have := hfresh b' hb'
    rw [hbx] at this
    simp only [decide_not, Bool.not_eq_eq_eq_not, Bool.not_true, decide_eq_false_iff_not]
    exact this
  have hmem : ∀ x, x ∈ s'.entries ↔ x ∈ s.entries ∨ x = e := by
    intro x; rw [hins]; simp
  have hcc : s.closeCount s.nextUid = 0 := by
    cases hcn : s.closeCount s.nextUid with
    | zero => rfl
    | succ k => have := h.cnt s.nextUid (by rw [hcn]; exact Nat.succ_ne_zero k); omega
  have hno : ∀ t, s.nextUid ∉ (s.thr t).owed := by
    intro t hin; have := (h.owed0 t _ hin).2; omega
  constructor
  · intro x hx; rw [hn]
    rcases (hmem x).1 hx with hx | hx
    · have := h.bound x hx; omega
    · subst hx; omega
  · rw [hins, List.map_append, List.nodup_append]
    refine ⟨h.nodup, by simp, ?_⟩
    intro a ha c hc'
    simp only [List.map_cons, List.map_nil, List.mem_singleton] at hc'
    obtain ⟨x, hx, hxa⟩ := List.mem_map.1 ha
    have := h.bound x hx
    subst hc'; subst hxa
    omega
  · intro e1 h1 e2 h2 hw hs
    rcases (hmem e1).1 h1 with h1 | h1 <;> rcases (hmem e2).1 h2 with h2 | h2
    · exact h.key e1 h1 e2 h2 hw hs
    · subst h2
      obtain ⟨b', hb', hbx⟩ := h.born e1 h1
      have := hfresh b' hb'
      rw [hbx] at this
      exact absurd ⟨hw, hs⟩ this
    · subst h1
      obtain ⟨b', hb', hbx⟩ := h.born e2 h2
      have := hfresh b' hb'
      rw [hbx] at this
      exact absurd ⟨hw.symm, hs.symm⟩ this
    · rw [h1, h2]
  · intro x hx; rw [hb]
    rcases (hmem x).1 hx with hx | hx
    · obtain ⟨b', hb', hbx⟩ := h.born x hx
      exact ⟨b', by simp [hb'], hbx⟩
    · exact ⟨b, by simp, by rw [hbe, hx]⟩
  · intro x hx; rw [hc]
    rcases (hmem x).1 hx with hx | hx
    · refine ⟨(h.live x hx).1, fun t => ?_⟩; rw [ho]; exact (h.live x hx).2 t
    · subst hx; rw [huid]
      refine ⟨hcc, fun t => ?_⟩; rw [ho]; exact hno t
  · intro t u hu; rw [ho] at hu; rw [hc, hn]
    have := h.owed0 t u hu
    exact ⟨this.1, by omega⟩
  · intro t t' u h1 h2; rw [ho] at h1 h2; exact h.owedUniq t t' u h1 h2
  · intro t; rw [ho]; exact h.owedNodup t
  · rw [hc]; exact h.le1
  · rw [hc, hn]; intro u hu; have := h.cnt u hu; omega
  · intro u hu; rw [hn] at hu; rw [hc]
    by_cases hlt : u < s.nextUid
    · rcases h.acct u hlt with ⟨x, hx, hxu⟩ | h1 | ⟨i, h1⟩
      · exact Or.inl ⟨x, (hmem x).2 (Or.inl hx), hxu⟩
      · exact Or.inr (Or.inl h1)
      · exact Or.inr (Or.inr ⟨i, by rw [ho]; exact h1⟩)
    · have : u = s.nextUid := by omega
      exact Or.inl ⟨e, (hmem e).2 (Or.inr rfl), by rw [huid, this]⟩

theorem CloseInv.runClose {s s' : State} (h : CloseInv s) (t u : Nat) (rest : List Nat)
    (h0 : (s.thr t).owed = u :: rest)
    (he : s'.entries = s.entries)
    (hc : s'.closeCount = fun i => if i = u then s.closeCount i + 1 else s.closeCount i)
    (hn : s'.nextUid = s.nextUid) (hb : s'.births = s.births)
    (ho : ∀ i, (s'.thr i).owed = if i = t then rest else (s.thr i).owed) : CloseInv s' := by
  have hu := h.owed0 t u (by rw [h0]; simp)
  have hnd := h.owedNodup t
  rw [h0, List.nodup_cons] at hnd
  have hsub : ∀ i x, x ∈ (s'.thr i).owed → x ∈ (s.thr i).owed ∧ x ≠ u := by
    intro i x hx
    rw [ho] at hx
    by_cases ei : i = t
    · simp only [ei, if_true] at hx
      refine ⟨by rw [ei, h0]; simp [hx], ?_⟩
      intro hxu; subst hxu; exact hnd.1 hx
    · simp only [ei, if_false] at hx
      refine ⟨hx, ?_⟩
      intro hxu; subst hxu
      exact ei (h.owedUniq i t x hx (by rw [h0]; simp))
  constructor
  · rw [he, hn]; exact h.bound
  · rw [he]; exact h.nodup
  · rw [he]; exact h.key
  · rw [he, hb]; exact h.born
  · rw [he, hc]; intro e hm
    have hl := h.live e hm
    have hne : e.uid ≠ u := by
      intro heq; exact (hl.2 t) (by rw [h0, heq]; simp)
    refine ⟨by simp only [hne, if_false]; exact hl.1, fun i hin => hl.2 i (hsub i _ hin).1⟩
  · intro i x hx
    obtain ⟨h1, h2⟩ := hsub i x hx
    rw [hc, hn]
    simp only [h2, if_false]
    exact h.owed0 i x h1
  · intro i j x h1 h2
    exact h.owedUniq i j x (hsub i x h1).1 (hsub j x h2).1
  · intro i; rw [ho]
    by_cases ei : i = t
    · simp only [ei, if_true]; exact hnd.2
    · simp only [ei, if_false]; exact h.owedNodup i
  · intro x; rw [hc]
    by_cases ex : x = u
    · subst ex; simp only [if_true]; rw [hu.1]; omega
    · simp only [ex, if_false]; exact h.le1 x
  · intro x; rw [hc, hn]
    by_cases ex : x = u
    · subst ex; intro _; exact hu.2
    · simp only [ex, if_false]; exact h.cnt x
  · intro x hx; rw [hn] at hx; rw [he, hc]
    by_cases ex : x = u
    · subst ex; refine Or.inr (Or.inl ?_); simp only [if_true]; rw [hu.1]
    · simp only [ex, if_false]
      rcases h.acct x hx with h1 | h1 | ⟨i, h1⟩
      · exact Or.inl h1
      · exact Or.inr (Or.inl h1)
      · refine Or.inr (Or.inr ⟨i, ?_⟩)
        rw [ho]
        by_cases ei : i = t
        · subst ei; simp only [if_true]; rw [h0] at h1
          simp only [List.mem_cons] at h1
          rcases h1 with h1 | h1
          · exact absurd h1 ex
          · exact h1
        · simp only [ei, if_false]; exact h1


theorem findEntry_spec {es : List Entry} {w : Nat} {sid : Sid} {e : Entry}
    (hf : findEntry es w sid = some e) : e ∈ es ∧ e.worker = w ∧ e.sid = sid := by
  unfold findEntry at hf
  have h1 := List.mem_of_find?_eq_some hf
  have h2 := List.find?_some hf
  simp only [decide_eq_true_eq] at h2
  exact ⟨h1, h2.1, h2.2⟩

theorem CloseInv.removeKey {s s' : State} (h : CloseInv s) (t w : Nat) (sid : Sid) (e : Entry)
    (hf : findEntry s.entries w sid = some e) (h0 : (s.thr t).owed = [])
    (he : s'.entries = removeKey s.entries w sid) (hc : s'.closeCount = s.closeCount)
    (hn : s'.nextUid = s.nextUid) (hb : s'.births = s.births)
    (ho : ∀ i, (s'.thr i).owed = if i = t then [e.uid] else (s.thr i).owed) : CloseInv s' := by
  obtain ⟨hm, hw, hs⟩ := findEntry_spec hf
  refine h.remove t (fun x => decide (x.worker = w ∧ x.sid = sid)) [e.uid] ?_ hc hn hb h0 ho (by simp) ?_
  · rw [he, Sticky.removeKey]; simp only [decide_not]
  · intro u
    simp only [List.mem_singleton, decide_eq_true_eq]
    constructor
    · intro hu; exact ⟨e, hm, ⟨hw, hs⟩, hu.symm⟩
    · rintro ⟨x, hx, ⟨hxw, hxs⟩, hxu⟩
      have := h.key x hx e hm (by rw [hxw, hw]) (by rw [hxs, hs])
      rw [← hxu, this]

theorem CloseInv.sweep {s s' : State} (h : CloseInv s) (t : Nat) (P : Entry → Bool)
    (h0 : (s.thr t).owed = [])
    (he : s'.entries = s.entries.filter (fun e => !P e)) (hc : s'.closeCount = s.closeCount)
    (hn : s'.nextUid = s.nextUid) (hb : s'.births = s.births)
    (ho : ∀ i, (s'.thr i).owed = if i = t then (s.entries.filter P).map (·.uid) else (s.thr i).owed) :
    CloseInv s' := by
  refine h.remove t P _ he hc hn hb h0 ho ?_ ?_
  · exact List.Nodup.sublist (List.Sublist.map _ List.filter_sublist) h.nodup
  · intro u
    simp only [List.mem_map, List.mem_filter]
    constructor
    · rintro ⟨x, ⟨hx, hp⟩, hu⟩; exact ⟨x, hx, hp, hu⟩
    · rintro ⟨x, hx, hp, hu⟩; exact ⟨x, ⟨hx, hp⟩, hu⟩

macro "close_frame" h:ident : tactic =>
  `(tactic| (refine CloseInv.frame $h rfl rfl rfl rfl ?_ ; intro i; simp only [setThr_thr]; split <;> simp_all))

macro "close_rm" h:ident t:ident : tactic =>
  `(tactic| (refine CloseInv.removeKey $h $t _ _ _ (by assumption) (by simp_all) rfl rfl rfl rfl ?_ ;
             intro i; simp only [setThr_thr]; split <;> simp_all))

macro "close_simple" h:ident t:ident hs:ident : tactic =>
  `(tactic| (
    simp only [step, closeKey] at $hs:ident
    repeat' split at $hs:ident
    all_goals first | cases $hs:ident | skip
    all_goals first | close_frame $h | close_rm $h $t))

theorem closeInv_step (C : Cfg) (s s' : State) (a : Act) (h : CloseInv s) (hs : step C s a = some s') :
    CloseInv s' := by
  cases a with
  | spawn t isDel w id tok accept =>
    simp only [step] at hs
    split at hs
    · cases hs; close_frame h
    · cases hs
  | resolve t now => close_simple h t hs
  | lock t => close_simple h t hs
  | hRollback t => close_simple h t hs
  | hClose t => close_simple h t hs
  | hEnd t p => close_simple h t hs
  | respond t => close_simple h t hs
  | unlock t => close_simple h t hs
  | delClose t => close_simple h t hs
  | setDraining w v =>
    simp only [step] at hs
    cases hs
    exact h.frame rfl rfl rfl rfl (fun _ => rfl)
  | runClose t =>
    simp only [step] at hs
    split at hs
    · cases hs
    · rename_i u rest h0
      cases hs
      refine h.runClose t u rest h0 rfl rfl rfl rfl ?_
      intro i; simp only [setThr_thr]; split <;> simp_all
  | reap t w now =>
    simp only [step] at hs
    split at hs
    · rename_i hg
      cases hs
      refine h.sweep t (fun e => decide (e.worker = w ∧ e.expires < now)) hg.2.1 ?_ rfl rfl rfl ?_
      · simp only [setThr_entries, decide_not]
      · intro i; simp only [setThr_thr]; split <;> simp_all
    · cases hs
  | shutdown t w =>
    simp only [step] at hs
    split at hs
    · rename_i hg
      cases hs
      refine h.sweep t (fun e => decide (e.worker = w)) hg.2.1 ?_ rfl rfl rfl ?_
      · simp only [setThr_entries, decide_not]
      · intro i; simp only [setThr_thr]; split <;> simp_all
    · cases hs
  | hOpen t sid ttl now created expUnix =>
    simp only [step] at hs
    split at hs
    · split at hs
      · cases hs; close_frame h
      · split at hs
        · cases hs; close_frame h
        · split at hs
          · cases hs; close_frame h
          · split at hs
            · rename_i hfresh
              simp only [List.all_eq_true, decide_eq_true_eq] at hfresh
              split at hs
              · cases hs
                refine h.insert _ _ rfl rfl hfresh rfl rfl rfl rfl ?_
                intro i; simp only [setThr_thr]; split <;> simp_all
              · cases hs
                refine h.insert _ _ rfl rfl hfresh rfl rfl rfl rfl ?_
                intro i; simp only [setThr_thr]; split <;> simp_all
            · cases hs
    · cases hs

/-! ### Token layout and AAD -/

theorem leBytes_length : ∀ k n, (leBytes k n).length = k
  | 0, _ => rfl
  | k + 1, n => by simp [leBytes, leBytes_length k]

/-- The server reads back exactly the server id and session id that were sealed. -/
theorem decode_encodePlain (created : Nat) (srv : Bytes) (sid : Sid) (exp : Nat) (p : Bytes)
    (hs : sid.length = sessionIDLen) (he : encodePlain created srv sid exp = some p) :
    ∃ x, decodePlain p = some (srv, sid, x) := by
  unfold encodePlain at he
  split at he
  · cases he
  · rename_i hlen
    cases he
    have l8 : ∀ n, (leBytes 8 n).length = 8 := fun n => leBytes_length 8 n
    have hb : (UInt8.ofNat srv.length).toNat = srv.length := by
      simp [UInt8.toNat_ofNat']; omega
    have d8 : (leBytes 8 created ++ UInt8.ofNat srv.length :: (srv ++ (sid ++ leBytes 8 exp))).drop 8
        = UInt8.ofNat srv.length :: (srv ++ (sid ++ leBytes 8 exp)) := by
      rw [List.drop_append_of_le_length (by rw [l8]; omega), List.drop_of_length_le (by rw [l8]; omega)]
      rfl
    have d9 : (leBytes 8 created ++ UInt8.ofNat srv.length :: (srv ++ (sid ++ leBytes 8 exp))).drop 9
        = srv ++ (sid ++ leBytes 8 exp) := by
      have : (9 : Nat) = 8 + 1 := rfl
      rw [this, ← List.drop_drop, d8]; rfl
    have dh : (leBytes 8 created ++ UInt8.ofNat srv.length :: (srv ++ (sid ++ leBytes 8 exp))).drop (9 + srv.length)
        = sid ++ leBytes 8 exp := by
      rw [← List.drop_drop, d9]; simp
    refine ⟨ofLE (leBytes 8 exp), ?_⟩
    unfold decodePlain
    simp only [d8, d9, dh, List.headD_cons, hb]
    have hl : (leBytes 8 created ++ UInt8.ofNat srv.length :: (srv ++ (sid ++ leBytes 8 exp))).length
        = 9 + srv.length + sessionIDLen + 8 := by
      simp [l8, hs]; omega
    rw [hl]
    simp only [show ¬ (9 + srv.length + sessionIDLen + 8 < 8 + 1) by omega, if_false, ne_eq, not_true, if_false]
    have : (leBytes 8 created ++ UInt8.ofNat srv.length :: (srv ++ (sid ++ leBytes 8 exp))).drop (9 + srv.length + sessionIDLen)
        = leBytes 8 exp := by
      rw [← List.drop_drop, dh, ← hs]; simp
    rw [this]
    have t1 : (srv ++ (sid ++ leBytes 8 exp)).take srv.length = srv := by simp
    have t2 : (sid ++ leBytes 8 exp).take sessionIDLen = sid := by rw [← hs]; simp
    rw [t1, t2]

/-! AAD injectivity -/

theorem split_at_first_zero : ∀ (d1 d2 p1 p2 : Bytes), (0 : UInt8) ∉ d1 → (0 : UInt8) ∉ d2 →
    d1 ++ 0 :: p1 = d2 ++ 0 :: p2 → d1 = d2 ∧ p1 = p2
  | [], [], _, _, _, _, h => by simp at h; exact ⟨rfl, h⟩
  | [], b :: d2, _, _, _, h2, h => by
    simp at h; simp at h2; exact absurd h.1 h2.1
  | a :: d1, [], _, _, h1, _, h => by
    simp at h; simp at h1; exact absurd h.1.symm h1.1
  | a :: d1, b :: d2, p1, p2, h1, h2, h => by
    simp at h h1 h2
    obtain ⟨r1, r2⟩ := split_at_first_zero d1 d2 p1 p2 h1.2 h2.2 h.2
    exact ⟨by rw [h.1, r1], r2⟩

/-- Two callers are the same caller class when both are unauthenticated or both carry the same
domain and principal. -/
def SameCaller (i j : Ident) : Prop :=
  (i.authenticated = false ∧ j.authenticated = false) ∨
  (i.authenticated = true ∧ j.authenticated = true ∧ i.domain = j.domain ∧ i.principal = j.principal)

theorem aadOf_injective (i j : Ident) (hi : (0 : UInt8) ∉ i.domain) (hj : (0 : UInt8) ∉ j.domain)
    (h : aadOf i = aadOf j) : SameCaller i j := by
  unfold aadOf at h
  have h := List.append_cancel_left h
  unfold aadTail at h
  cases hia : i.authenticated <;> cases hja : j.authenticated <;> simp only [hia, hja] at h
  · exact Or.inl ⟨hia, hja⟩
  · simp [anonTail] at h
  · simp [anonTail] at h
  · simp only [if_true, List.cons.injEq, true_and] at h
    obtain ⟨r1, r2⟩ := split_at_first_zero _ _ _ _ hi hj h
    exact Or.inr ⟨hia, hja, r1, r2⟩


/-! ### Isolation invariant (guarded system) -/

/-- What a birth record says about the token sealed for it. -/
def TokOk (C : Cfg) (b : Birth) (r : Sealed) : Prop :=
  r.key = (C.worker b.entry.worker).key ∧ r.aad = aadOf b.opener ∧
  ∃ x, decodePlain r.plain = some ((C.worker b.entry.worker).serverId, b.entry.sid, x)

structure IsoInv (C : Cfg) (s : State) : Prop where
  birth : ∀ b ∈ s.births, b.entry.pkey = pkeyOf b.opener ∧ b.entry.worker < C.n ∧
            ∀ r, b.tok = some r → TokOk C b r
  fresh : ∀ b1 ∈ s.births, ∀ b2 ∈ s.births, b1.entry.worker = b2.entry.worker →
            b1.entry.sid = b2.entry.sid → b1 = b2
  pub : ∀ r ∈ s.published, ∃ b ∈ s.births, b.tok = some r
  minted : ∀ t r, (s.thr t).minted = some r → ∃ b ∈ s.births, b.tok = some r
  tok : ∀ t v r, (s.thr t).tok = some (.envelope v r) → ∃ b ∈ s.births, b.tok = some r
  wk : ∀ t, (s.thr t).pc ≠ .idle → (s.thr t).worker < C.n

theorem isoInv_init (C : Cfg) : IsoInv C init := by
  constructor <;> simp [init]

/-- Steps that leave births and published alone and keep the thread's token fields. -/
theorem IsoInv.frame {C : Cfg} {s s' : State} (h : IsoInv C s)
    (hb : s'.births = s.births) (hp : s'.published = s.published)
    (hm : ∀ i r, (s'.thr i).minted = some r → (s.thr i).minted = some r)
    (ht : ∀ i, (s'.thr i).tok = (s.thr i).tok)
    (hw : ∀ i, (s'.thr i).pc ≠ .idle → (s'.thr i).worker < C.n) : IsoInv C s' := by
  constructor
  · rw [hb]; exact h.birth
  · rw [hb]; exact h.fresh
  · rw [hb, hp]; exact h.pub
  · intro t r hr; rw [hb]; exact h.minted t r (hm t r hr)
  · intro t v r hr; rw [hb]; rw [ht] at hr; exact h.tok t v r hr
  · exact hw

macro "iso_frame" h:ident : tactic =>
  `(tactic| (
    have hwk := IsoInv.wk $h
    refine IsoInv.frame $h rfl rfl ?_ ?_ ?_
    · intro i r; simp only [setThr_thr]; split <;> simp_all
    · intro i; simp only [setThr_thr]; split <;> simp_all
    · intro i; simp only [setThr_thr]; split <;> simp_all [lostPc]))

theorem IsoInv.insert {C : Cfg} {s s' : State} (h : IsoInv C s) (b : Birth)
    (hb : s'.births = s.births ++ [b]) (hp : s'.published = s.published)
    (hbirth : b.entry.pkey = pkeyOf b.opener ∧ b.entry.worker < C.n ∧ ∀ r, b.tok = some r → TokOk C b r)
    (hfresh : ∀ x ∈ s.births, ¬ (x.entry.worker = b.entry.worker ∧ x.entry.sid = b.entry.sid))
    (hm : ∀ i r, (s'.thr i).minted = some r → (s.thr i).minted = some r ∨ b.tok = some r)
    (ht : ∀ i, (s'.thr i).tok = (s.thr i).tok)
    (hw : ∀ i, (s'.thr i).pc ≠ .idle → (s'.thr i).worker < C.n) : IsoInv C s' := by
  have hmem : ∀ x, x ∈ s'.births ↔ x ∈ s.births ∨ x = b := by intro x; rw [hb]; simp
  constructor
  · intro x hx
    rcases (hmem x).1 hx with hx | hx
    · exact h.birth x hx
    · subst hx; exact hbirth
  · intro b1 h1 b2 h2 hw' hs'
    rcases (hmem b1).1 h1 with h1 | h1 <;> rcases (hmem b2).1 h2 with h2 | h2
    · exact h.fresh b1 h1 b2 h2 hw' hs'
    · subst h2; exact absurd ⟨hw', hs'⟩ (hfresh b1 h1)
    · subst h1; exact absurd ⟨hw'.symm, hs'.symm⟩ (hfresh b2 h2)
    · rw [h1, h2]
  · intro r hr; rw [hp] at hr
    obtain ⟨x, hx, hxr⟩ := h.pub r hr
    exact ⟨x, (hmem x).2 (Or.inl hx), hxr⟩
  · intro i r hr
    rcases hm i r hr with hr | hr
    · obtain ⟨x, hx, hxr⟩ := h.minted i r hr
      exact ⟨x, (hmem x).2 (Or.inl hx), hxr⟩
    · exact ⟨b, (hmem b).2 (Or.inr rfl), hr⟩
  · intro i v r hr; rw [ht] at hr
    obtain ⟨x, hx, hxr⟩ := h.tok i v r hr
    exact ⟨x, (hmem x).2 (Or.inl hx), hxr⟩
  · exact hw

macro "iso_simple" h:ident hs:ident : tactic =>
  `(tactic| (
    simp only [step, closeKey] at $hs:ident
    repeat' split at $hs:ident
    all_goals first | cases $hs:ident | skip
    all_goals iso_frame $h))

theorem isoInv_step (C : Cfg) (s s' : State) (a : Act) (h : IsoInv C s)
    (hs : (gsys C).step s a = some s') : IsoInv C s' := by
  simp only [gsys] at hs
  split at hs
  case isFalse => cases hs
  rename_i hg
  cases a with
  | resolve t now => iso_simple h hs
  | lock t => iso_simple h hs
  | hRollback t => iso_simple h hs
  | hClose t => iso_simple h hs
  | runClose t => iso_simple h hs
  | hEnd t p => iso_simple h hs
  | unlock t => iso_simple h hs
  | delClose t => iso_simple h hs
  | reap t w now => iso_simple h hs
  | shutdown t w => iso_simple h hs
  | setDraining w v =>
    simp only [step] at hs
    cases hs
    exact ⟨h.birth, h.fresh, h.pub, h.minted, h.tok, h.wk⟩
  | respond t =>
    simp only [step] at hs
    split at hs
    · cases hs
      have hwk := h.wk
      constructor
      · exact h.birth
      · exact h.fresh
      · intro r hr
        simp only [setThr_published, List.mem_append, Option.mem_toList] at hr
        rcases hr with hr | hr
        · exact h.pub r hr
        · exact h.minted t r hr
      · intro i r; simp only [setThr_thr, setThr_births]; split
        · rename_i e; subst e; exact h.minted i r
        · exact h.minted i r
      · intro i v r; simp only [setThr_thr, setThr_births]; split
        · rename_i e; subst e; exact h.tok i v r
        · exact h.tok i v r
      · intro i; simp only [setThr_thr]; split <;> simp_all
    · cases hs
  | spawn t isDel w id tok accept =>
    simp only [step] at hs
    split at hs
    · rename_i hc
      cases hs
      have hwk := h.wk
      constructor
      · exact h.birth
      · exact h.fresh
      · exact h.pub
      · intro i r; simp only [setThr_thr, setThr_births]; split
        · intro hr; cases hr
        · exact h.minted i r
      · intro i v r; simp only [setThr_thr, setThr_births]; split
        · intro hr
          simp only [Option.some.injEq] at hr
          subst hr
          simp only [guard, List.contains_eq_mem, decide_eq_true_eq] at hg
          exact h.pub r hg
        · exact h.tok i v r
      · intro i; simp only [setThr_thr]; split <;> simp_all
    · cases hs
  | hOpen t sid ttl now created expUnix =>
    simp only [step] at hs
    split at hs
    · rename_i hpc
      have hwt : (s.thr t).worker < C.n := h.wk t (by rw [hpc.1]; simp)
      split at hs
      · cases hs; iso_frame h
      · split at hs
        · cases hs; iso_frame h
        · split at hs
          · cases hs; iso_frame h
          · split at hs
            · rename_i hfresh
              simp only [List.all_eq_true, decide_eq_true_eq] at hfresh
              have hwk := h.wk
              split at hs
              · rename_i htok
                cases hs
                refine h.insert _ rfl rfl ⟨rfl, hwt, ?_⟩ hfresh ?_ ?_ ?_
                · intro r hr; simp only [htok] at hr; cases hr
                · intro i r; simp only [setThr_thr]; split <;> simp_all
                · intro i; simp only [setThr_thr]; split <;> simp_all
                · intro i; simp only [setThr_thr]; split <;> simp_all
              · rename_i r htok
                cases hs
                refine h.insert _ rfl rfl ⟨rfl, hwt, ?_⟩ hfresh ?_ ?_ ?_
                · intro r' hr'
                  simp only [htok, Option.some.injEq] at hr'
                  subst hr'
                  simp only [Option.map_eq_some_iff] at htok
                  obtain ⟨p, hp, hr⟩ := htok
                  subst hr
                  exact ⟨rfl, rfl, decode_encodePlain _ _ _ _ _ hpc.2.2 hp⟩
                · intro i r'; simp only [setThr_thr]; split
                  · intro hr'; simp only [Option.some.injEq] at hr'; subst hr'; exact Or.inr htok
                  · intro hr'; exact Or.inl hr'
                · intro i; simp only [setThr_thr]; split <;> simp_all
                · intro i; simp only [setThr_thr]; split <;> simp_all
            · cases hs
    · cases hs

/-! ### A finished request owes no Close call -/

theorem doneInv_step (C : Cfg) (s s' : State) (a : Act)
    (h : ∀ t, (s.thr t).pc = .done → (s.thr t).owed = []) (hs : step C s a = some s') :
    ∀ t, (s'.thr t).pc = .done → (s'.thr t).owed = [] := by
  by_cases hrc : ∃ t, a = .runClose t
  · obtain ⟨t, rfl⟩ := hrc
    simp only [step] at hs
    split at hs
    · cases hs
    · rename_i u rest h0
      cases hs
      intro i; simp only [setThr_thr]; split
      · rename_i e; subst e
        intro hp; have := h i hp; rw [h0] at this; cases this
      · exact h i
  · cases a <;> simp only [step, closeKey] at hs <;> repeat' split at hs
    all_goals first | cases hs | skip
    all_goals first | (exfalso; exact hrc ⟨_, rfl⟩) | skip
    all_goals (intro i; first | exact h i |
      (simp only [setThr_thr]; split <;> simp_all [lostPc] <;> (try split) <;> (try simp_all)))

/-! ### Draining refuses new sessions -/

theorem mem_removeKey {es : List Entry} {w : Nat} {sid : Sid} {e : Entry} (h : e ∈ removeKey es w sid) :
    e ∈ es := by
  unfold removeKey at h; exact (List.mem_filter.1 h).1

theorem drain_step (C : Cfg) (s s' : State) (a : Act) (hs : step C s a = some s') (w : Nat)
    (hd : s.draining w = true) : ∀ e ∈ s'.entries, e.worker = w → e ∈ s.entries := by
  cases a <;> simp only [step, closeKey] at hs <;> repeat' split at hs
  all_goals first | cases hs | skip
  all_goals (intro e he hw)
  all_goals first
    | exact he
    | exact mem_removeKey he
    | exact (List.mem_filter.1 he).1
    | skip
  all_goals (
    simp only [setThr_entries, insertEntry, List.mem_append, List.mem_singleton] at he
    rcases he with he | he
    · exact mem_removeKey he
    · subst he; simp_all)

end Vgi.Sticky
