import Vgi.Model.OAuthFlow
/-!
Lemmas about the URL parser model (`Vgi.OAuth.parseURL`) used by `Vgi.Props.C27`: what the
string helpers return, and which bytes a successfully parsed host can consist of.
-/
namespace Vgi.OAuth
open Vgi

theorem cut_eq (c : UInt8) : ∀ (s a : Bytes) (b : Option Bytes), cut c s = (a, b) →
    s = a ++ optTail c b
  | [], a, b, h => by
    simp only [cut, Prod.mk.injEq] at h
    obtain ⟨h1, h2⟩ := h
    subst h1; subst h2; rfl
  | x :: r, a, b, h => by
    unfold cut at h
    by_cases hx : x = c
    · simp only [hx, if_true, Prod.mk.injEq] at h
      obtain ⟨h1, h2⟩ := h
      subst h1; subst h2; simp [optTail, hx]
    · simp only [hx, if_false] at h
      cases hr : cut c r with
      | mk a' b' =>
        rw [hr] at h
        simp only [Prod.mk.injEq] at h
        obtain ⟨h1, h2⟩ := h
        subst h1; subst h2
        have := cut_eq c r a' b' hr
        simp [this]

theorem cutLast_eq (c : UInt8) : ∀ (s a b : Bytes), cutLast c s = some (a, b) → s = a ++ c :: b
  | [], a, b, h => by simp [cutLast] at h
  | x :: r, a, b, h => by
    unfold cutLast at h
    cases hr : cutLast c r with
    | some p =>
      obtain ⟨a', b'⟩ := p
      rw [hr] at h
      simp only [Option.some.injEq, Prod.mk.injEq] at h
      obtain ⟨h1, h2⟩ := h
      subst h1; subst h2
      have := cutLast_eq c r a' b' hr
      simp [this]
    | none =>
      rw [hr] at h
      by_cases hx : x = c
      · simp only [hx, if_true, Option.some.injEq, Prod.mk.injEq] at h
        obtain ⟨h1, h2⟩ := h
        subst h1; subst h2; simp [hx]
      · simp [hx] at h

theorem startsWith_two (a b : UInt8) (s : Bytes) (h : startsWith [a, b] s = true) :
    ∃ t, s = a :: b :: t := by
  match s with
  | [] => simp [startsWith, List.isPrefixOf] at h
  | [x] => simp [startsWith, List.isPrefixOf] at h
  | x :: y :: t =>
    simp [startsWith, List.isPrefixOf] at h
    exact ⟨t, by rw [h.1, h.2]⟩

theorem startsWith_isPrefix (p s : Bytes) (h : startsWith p s = true) : ∃ t, s = p ++ t := by
  have := List.isPrefixOf_iff_prefix.mp h
  obtain ⟨t, ht⟩ := this
  exact ⟨t, ht.symm⟩

/-! ### `getScheme` -/

theorem getSchemeGo_spec (full : Bytes) : ∀ (rem pre : Bytes), full = pre ++ rem →
    ∀ sch rest, getSchemeGo full pre.length rem = some (sch, rest) →
      (sch = [] ∧ rest = full) ∨ (sch ≠ [] ∧ full = sch ++ cColon :: rest)
  | [], pre, _, sch, rest, h => by
    simp only [getSchemeGo, Option.some.injEq, Prod.mk.injEq] at h
    exact Or.inl ⟨h.1.symm, h.2.symm⟩
  | c :: r, pre, hfull, sch, rest, h => by
    have hstep : full = (pre ++ [c]) ++ r := by simp [hfull]
    have hlen : (pre ++ [c]).length = pre.length + 1 := by simp
    unfold getSchemeGo at h
    cases h1 : isAlpha c with
    | true =>
      simp only [h1, ↓reduceIte] at h
      rw [← hlen] at h
      exact getSchemeGo_spec full r (pre ++ [c]) hstep sch rest h
    | false =>
      simp only [h1, Bool.false_eq_true, ↓reduceIte] at h
      cases h2 : (isDigit c || c == 43 || c == 45 || c == 46) with
      | true =>
        simp only [h2, ↓reduceIte] at h
        by_cases h0 : pre.length = 0
        · simp only [h0, ↓reduceIte, Option.some.injEq, Prod.mk.injEq] at h
          exact Or.inl ⟨h.1.symm, h.2.symm⟩
        · simp only [h0, ↓reduceIte] at h
          rw [← hlen] at h
          exact getSchemeGo_spec full r (pre ++ [c]) hstep sch rest h
      | false =>
        simp only [h2, Bool.false_eq_true, ↓reduceIte] at h
        by_cases h3 : c = cColon
        · simp only [h3, ↓reduceIte] at h
          by_cases h0 : pre.length = 0
          · simp [h0] at h
          · simp only [h0, ↓reduceIte, Option.some.injEq, Prod.mk.injEq] at h
            obtain ⟨hs, hr⟩ := h
            have htake : full.take pre.length = pre := by simp [hfull]
            rw [htake] at hs
            subst hs; subst hr
            refine Or.inr ⟨?_, ?_⟩
            · intro he; apply h0; simp [he]
            · rw [hfull, h3]
        · simp only [h3, ↓reduceIte, Option.some.injEq, Prod.mk.injEq] at h
          exact Or.inl ⟨h.1.symm, h.2.symm⟩

theorem getScheme_spec (s sch rest : Bytes) (h : getScheme s = some (sch, rest)) :
    (sch = [] ∧ rest = s) ∨ (sch ≠ [] ∧ s = sch ++ cColon :: rest) :=
  getSchemeGo_spec s s [] (by simp) sch rest (by simpa [getScheme] using h)

/-! ### bytes of a parsed host -/

/-- A byte that may occur in the authority's host text of a URL that `parseHost` accepts:
`%`, a non-ASCII byte, or one of the host-safe ASCII bytes. In particular none of
`/ ? # @ \` and no space or control byte. -/
def hostByte (c : UInt8) : Prop := c = cPct ∨ ¬ c < 128 ∨ hostOK c = true

theorem isHex_hostOK (c : UInt8) (h : isHex c = true) : hostOK c = true := by
  simp only [isHex, isDigit, Bool.or_eq_true, Bool.and_eq_true, decide_eq_true_eq] at h
  simp only [hostOK, isAlpha, isUpper, isLower, isDigit, Bool.or_eq_true, Bool.and_eq_true,
    decide_eq_true_eq]
  have hc := c.toNat_lt
  rcases h with (h | h) | h
  · exact Or.inl (Or.inl (Or.inl (Or.inl (Or.inl (Or.inl (Or.inl (Or.inl (Or.inl (Or.inl (Or.inl (Or.inl (Or.inl (Or.inl (Or.inl (Or.inl (Or.inl (Or.inl (Or.inl (Or.inl (Or.inl (Or.inr h)))))))))))))))))))))
  · refine Or.inl (Or.inl (Or.inl (Or.inl (Or.inl (Or.inl (Or.inl (Or.inl (Or.inl (Or.inl (Or.inl (Or.inl (Or.inl (Or.inl (Or.inl (Or.inl (Or.inl (Or.inl (Or.inl (Or.inl (Or.inl (Or.inl (Or.inl ⟨h.1, ?_⟩))))))))))))))))))))))
    exact UInt8.le_trans h.2 (by decide)
  · refine Or.inl (Or.inl (Or.inl (Or.inl (Or.inl (Or.inl (Or.inl (Or.inl (Or.inl (Or.inl (Or.inl (Or.inl (Or.inl (Or.inl (Or.inl (Or.inl (Or.inl (Or.inl (Or.inl (Or.inl (Or.inl (Or.inl (Or.inr ⟨h.1, ?_⟩))))))))))))))))))))))
    exact UInt8.le_trans h.2 (by decide)

theorem hostByte_pct : hostByte cPct := Or.inl rfl
theorem hostByte_hex (c : UInt8) (h : isHex c = true) : hostByte c := Or.inr (Or.inr (isHex_hostOK c h))

theorem unescape_hostBytes (mode : Mode) (hm : mode ≠ .plain) (s : Bytes) :
    ∀ r, unescape mode s = some r → ∀ c ∈ s, hostByte c := by
  fun_induction unescape mode s with
  | case1 => intro r _ c hc; cases hc
  | case2 => intro r h; cases h
  | case3 => intro r h; cases h
  | case4 => intro r h; cases h
  | case5 h1 h2 rest' hx v r' hr _ _ ih =>
    intro r _ c hc
    have hx' : isHex h1 = true ∧ isHex h2 = true := by simpa using hx
    simp only [List.mem_cons] at hc
    rcases hc with hc | hc | hc | hc
    · subst hc; exact hostByte_pct
    · subst hc; exact hostByte_hex _ hx'.1
    · subst hc; exact hostByte_hex _ hx'.2
    · exact ih r' hr c hc
  | case6 => intro r h; cases h
  | case7 => intro r h; cases h
  | case8 => intro r h; cases h
  | case9 x rest hx hok r' hr ih =>
    intro r _ c hc
    simp only [List.mem_cons] at hc
    rcases hc with hc | hc
    · subst hc
      by_cases h128 : c < 128
      · by_cases hh : hostOK c = true
        · exact Or.inr (Or.inr hh)
        · exact absurd ⟨hm, h128, hh⟩ hok
      · exact Or.inr (Or.inl h128)
    · exact ih r' hr c hc
  | case10 => intro r h; cases h

theorem isDigit_hostOK (c : UInt8) (h : isDigit c = true) : hostOK c = true := by
  simp [hostOK, h]

theorem validOptionalPort_hostBytes (p : Bytes) (h : validOptionalPort p = true) :
    ∀ c ∈ p, hostByte c := by
  cases p with
  | nil => intro c hc; cases hc
  | cons x r =>
    simp only [validOptionalPort, Bool.and_eq_true, beq_iff_eq, List.all_eq_true] at h
    intro c hc
    simp only [List.mem_cons] at hc
    rcases hc with hc | hc
    · subst hc; rw [h.1]; exact Or.inr (Or.inr (by decide))
    · exact Or.inr (Or.inr (isDigit_hostOK c (h.2 c hc)))

theorem unescLiteral_hostBytes (hostname r : Bytes) (h : unescLiteral hostname = some r) :
    ∀ c ∈ hostname, hostByte c := by
  unfold unescLiteral at h
  split at h
  · rename_i z _
    split at h
    · rename_i a b ha' hb'
      intro c hc
      have : hostname = hostname.take z ++ hostname.drop z := (List.take_append_drop z hostname).symm
      rw [this] at hc
      simp only [List.mem_append] at hc
      rcases hc with hc | hc
      · exact unescape_hostBytes .host (by decide) _ a ha' c hc
      · exact unescape_hostBytes .zone (by decide) _ b hb' c hc
    · cases h
  · exact unescape_hostBytes .host (by decide) _ _ h

theorem parseHost_hostBytes (scheme h host : Bytes) (hp : parseHost scheme h = some host) :
    ∀ c ∈ h, hostByte c := by
  unfold parseHost at hp
  split at hp
  · cases hp
  · rename_i afterBr hcl
    have hh := cutLast_eq cLBr h [] afterBr hcl
    split at hp
    · cases hp
    · rename_i hostname colonPort hcr
      have ha := cutLast_eq cRBr afterBr hostname colonPort hcr
      split at hp
      · cases hp
      · rename_i hvp
        have hvp' : validOptionalPort colonPort = true := by simpa using hvp
        split at hp
        · cases hp
        · rename_i hl hun
          have hname := unescLiteral_hostBytes hostname hl hun
          intro c hc
          rw [hh, ha] at hc
          simp only [List.nil_append, List.mem_cons, List.mem_append] at hc
          rcases hc with hc | hc | hc | hc
          · subst hc; exact Or.inr (Or.inr (by decide))
          · exact hname c hc
          · subst hc; exact Or.inr (Or.inr (by decide))
          · exact validOptionalPort_hostBytes colonPort hvp' c hc
  · split at hp
    · exact unescape_hostBytes .host (by decide) _ _ hp
    · cases hp

/-! ### shape of an accepted absolute URL -/

/-- Userinfo part of an authority: absent, or `userinfo@` made of userinfo-safe bytes only. -/
def UserPart (p : Bytes) : Prop :=
  p = [] ∨ ∃ ui, p = ui ++ [cAt] ∧ ∀ c ∈ ui, userinfoOK c = true

theorem parseAuthority_shape (scheme authority host : Bytes)
    (h : parseAuthority scheme authority = some host) :
    ∃ userPart hostRaw, authority = userPart ++ hostRaw ∧ UserPart userPart ∧
      parseHost scheme hostRaw = some host := by
  unfold parseAuthority at h
  split at h
  · exact ⟨[], authority, rfl, Or.inl rfl, h⟩
  · rename_i userinfo hostPart hcl
    have he := cutLast_eq cAt authority userinfo hostPart hcl
    split at h
    · cases h
    · rename_i host' hph
      split at h
      · cases h
      · rename_i hall
        have hall' : userinfo.all userinfoOK = true := by simpa using hall
        split at h
        · split at h
          · cases h
            refine ⟨userinfo ++ [cAt], hostPart, by simp [he], Or.inr ⟨userinfo, rfl, ?_⟩, hph⟩
            intro c hc
            exact List.all_eq_true.mp hall' c hc
          · cases h

theorem parseWithAuthority_shape (scheme rest2 : Bytes) (p : Parsed)
    (h : parseWithAuthority scheme rest2 = some p) :
    p.scheme = scheme ∧ ∃ userPart hostRaw pathTail,
      rest2 = userPart ++ hostRaw ++ optTail cSlash pathTail ∧ UserPart userPart ∧
      parseHost scheme hostRaw = some p.host := by
  unfold parseWithAuthority at h
  split at h
  · cases h
  · rename_i host hpa
    split at h
    · cases h
      obtain ⟨userPart, hostRaw, hauthEq, hup, hph⟩ := parseAuthority_shape _ _ _ hpa
      refine ⟨rfl, userPart, hostRaw, (cut cSlash rest2).2, ?_, hup, hph⟩
      have := cut_eq cSlash rest2 (cut cSlash rest2).1 (cut cSlash rest2).2 rfl
      rw [← hauthEq]
      exact this
    · cases h

theorem parseAfterScheme_shape (scheme rest : Bytes) (p : Parsed)
    (h : parseAfterScheme scheme rest = some p) (hh : p.host ≠ []) :
    p.scheme = scheme ∧ ∃ userPart hostRaw pathTail,
      rest = [cSlash, cSlash] ++ userPart ++ hostRaw ++ optTail cSlash pathTail ∧ UserPart userPart ∧
      parseHost scheme hostRaw = some p.host := by
  unfold parseAfterScheme at h
  split at h
  · cases h; exact absurd rfl hh
  · split at h
    · cases h
    · split at h
      · rename_i hauth
        obtain ⟨t2, ht2⟩ := startsWith_two cSlash cSlash rest hauth.2
        obtain ⟨hs, userPart, hostRaw, pathTail, heq, hup, hph⟩ := parseWithAuthority_shape _ _ _ h
        refine ⟨hs, userPart, hostRaw, pathTail, ?_, hup, hph⟩
        have : rest.drop 2 = t2 := by rw [ht2]; rfl
        rw [this] at heq
        rw [ht2, heq]
        simp
      · split at h
        · cases h; exact absurd rfl hh
        · cases h


/-- `[]`, or something that starts with one of the three bytes that end an authority. -/
def AuthorityEnd (t : Bytes) : Prop :=
  t = [] ∨ ∃ c r, t = c :: r ∧ (c = cSlash ∨ c = cQuest ∨ c = cHash)

theorem authorityEnd_optTail (c : UInt8) (hc : c = cSlash ∨ c = cQuest ∨ c = cHash) (o : Option Bytes)
    (rest : Bytes) (hr : AuthorityEnd rest) : AuthorityEnd (optTail c o ++ rest) := by
  cases o with
  | none => simpa [optTail] using hr
  | some t => exact Or.inr ⟨c, t ++ rest, by simp [optTail], hc⟩

theorem lower_nil_iff (s : Bytes) : lower s = [] ↔ s = [] := by
  simp [lower]

theorem parseNoFrag_shape (u0 : Bytes) (p : Parsed) (h : parseNoFrag u0 = some p)
    (hs : p.scheme ≠ []) (hh : p.host ≠ []) :
    ∃ schemeRaw userPart hostRaw tail,
      u0 = schemeRaw ++ [cColon, cSlash, cSlash] ++ userPart ++ hostRaw ++ tail ∧
      p.scheme = lower schemeRaw ∧ UserPart userPart ∧ AuthorityEnd tail ∧
      parseHost p.scheme hostRaw = some p.host := by
  unfold parseNoFrag at h
  split at h
  · cases h
  · split at h
    · cases h; exact absurd rfl hs
    · split at h
      · cases h
      · rename_i schemeRaw rest0 hgs
        obtain ⟨hsch, userPart, hostRaw, pathTail, hrest, hup, hph⟩ := parseAfterScheme_shape _ _ _ h hh
        have hrest0 := cut_eq cQuest rest0 (cut cQuest rest0).1 (cut cQuest rest0).2 rfl
        have hne : schemeRaw ≠ [] := by
          intro he; apply hs; rw [hsch, he]; rfl
        rcases getScheme_spec u0 schemeRaw rest0 hgs with ⟨he, _⟩ | ⟨_, hu0⟩
        · exact absurd he hne
        · generalize (cut cQuest rest0).1 = A at hrest hrest0
          generalize (cut cQuest rest0).2 = B at hrest0
          refine ⟨schemeRaw, userPart, hostRaw, optTail cSlash pathTail ++ (optTail cQuest B ++ []), ?_, hsch, hup, ?_, ?_⟩
          · rw [hu0, hrest0, hrest]; simp
          · exact authorityEnd_optTail cSlash (Or.inl rfl) _ _
              (authorityEnd_optTail cQuest (Or.inr (Or.inl rfl)) _ _ (Or.inl rfl))
          · rw [hsch]; exact hph

theorem parseURL_shape (u : Bytes) (p : Parsed) (h : parseURL u = some p)
    (hs : p.scheme ≠ []) (hh : p.host ≠ []) :
    ∃ schemeRaw userPart hostRaw tail,
      u = schemeRaw ++ [cColon, cSlash, cSlash] ++ userPart ++ hostRaw ++ tail ∧
      p.scheme = lower schemeRaw ∧ UserPart userPart ∧ AuthorityEnd tail ∧
      parseHost p.scheme hostRaw = some p.host := by
  unfold parseURL at h
  have hu := cut_eq cHash u (cut cHash u).1 (cut cHash u).2 rfl
  split at h
  · cases h
  · rename_i p0 hp0
    have hp : p0 = p := by
      split at h
      · exact Option.some.inj h
      · split at h
        · exact Option.some.inj h
        · split at h
          · exact Option.some.inj h
          · cases h
    subst hp
    obtain ⟨schemeRaw, userPart, hostRaw, tail, he, hsc, hup, hend, hph⟩ := parseNoFrag_shape _ _ hp0 hs hh
    clear h hp0
    generalize (cut cHash u).1 = A at he hu
    generalize (cut cHash u).2 = B at hu
    refine ⟨schemeRaw, userPart, hostRaw, tail ++ optTail cHash B, ?_, hsc, hup, ?_, hph⟩
    · rw [hu, he]; simp
    · rcases hend with ht | ⟨c, r, ht, hc⟩
      · rw [ht]
        have := authorityEnd_optTail cHash (Or.inr (Or.inr rfl)) B [] (Or.inl rfl)
        simpa using this
      · exact Or.inr ⟨c, r ++ optTail cHash B, by simp [ht], hc⟩


/-! ### the property's predicates on URL text -/

/-- The return-URL clause, stated on the text of `u` alone. -/
def AllowedReturn (allow : List Bytes) (u : Bytes) : Prop :=
  ∃ schemeRaw userPart hostRaw tail host,
    u = schemeRaw ++ [cColon, cSlash, cSlash] ++ userPart ++ hostRaw ++ tail ∧
    (lower schemeRaw = sHttp ∨ lower schemeRaw = sHttps) ∧
    UserPart userPart ∧ (∀ c ∈ hostRaw, hostByte c) ∧ AuthorityEnd tail ∧
    parseHost (lower schemeRaw) hostRaw = some host ∧ host ≠ [] ∧
    ((lower schemeRaw = sHttp ∧ isLocalhost (hostname host) = true) ∨
      (lower schemeRaw ++ sSep ++ hostname host) ∈ allow ∨
      (port host ≠ [] ∧ (lower schemeRaw ++ sSep ++ hostname host ++ [cColon] ++ port host) ∈ allow))

theorem originAllowed_spec (allow : List Bytes) (scheme host : Bytes)
    (h : originAllowed allow scheme host = true) :
    (scheme = sHttp ∧ isLocalhost (hostname host) = true) ∨
      (scheme ++ sSep ++ hostname host) ∈ allow ∨
      (port host ≠ [] ∧ (scheme ++ sSep ++ hostname host ++ [cColon] ++ port host) ∈ allow) := by
  unfold originAllowed at h
  simp only [Bool.or_eq_true, Bool.and_eq_true, decide_eq_true_eq, List.contains_iff_mem,
    ne_eq] at h
  rcases h with (h | h) | h
  · exact Or.inl ⟨h.2, h.1⟩
  · exact Or.inr (Or.inl h)
  · exact Or.inr (Or.inr h)


/-- An origin-relative reference that no browser resolves to another origin. -/
def SafeLocal : Bytes → Prop
  | [c] => c = cSlash
  | c :: d :: _ => c = cSlash ∧ d ≠ cSlash ∧ d ≠ cBackslash
  | [] => False

/-- A sane mount point: none, or itself an origin-relative path. -/
def GoodPrefix (pfx : Bytes) : Prop := pfx = [] ∨ SafeLocal pfx

theorem singleSlash_safeLocal (u : Bytes) (h : singleSlash u = true) : SafeLocal u := by
  match u, h with
  | [c], h => simpa [singleSlash, SafeLocal] using h
  | c :: d :: r, h =>
    simp only [singleSlash, Bool.and_eq_true, beq_iff_eq, bne_iff_ne, ne_eq] at h
    exact ⟨h.1.1, h.1.2, h.2⟩

theorem safeLocal_of_prefix (p s : Bytes) (hp : SafeLocal p) (h2 : 2 ≤ p.length)
    (hs : startsWith p s = true) : SafeLocal s := by
  obtain ⟨t, ht⟩ := startsWith_isPrefix p s hs
  subst ht
  match p, hp, h2 with
  | c :: d :: r, hp, _ => exact hp

theorem safeLocal_take (s : Bytes) (n : Nat) (hn : 2 ≤ n) (hs : SafeLocal s) : SafeLocal (s.take n) := by
  match s, hs, n, hn with
  | [c], hs, n + 2, _ => exact hs
  | c :: d :: r, hs, n + 2, _ => exact hs


theorem fallback_safe (pfx : Bytes) (hg : GoodPrefix pfx) :
    SafeLocal (fallback pfx) ∧ startsWith pfx (fallback pfx) = true := by
  unfold fallback
  rcases hg with h | h
  · subst h; simp [SafeLocal, startsWith]
  · have : pfx ≠ [] := by intro e; rw [e] at h; exact h
    simp only [this, ne_eq, not_false_eq_true, if_true]
    exact ⟨h, by simp [startsWith]⟩

end Vgi.OAuth
