import Vgi.Model.ScriptHooks
namespace Vgi.Props.C37
open Vgi Vgi.Script

/-- With no hook installed nothing is recorded. -/
theorem no_hook_no_events (tok : Nat) (o : CallOutcome) : dispatch none tok o = [] := rfl

end Vgi.Props.C37
