import Vgi.Model.ScriptHooks
import Vgi.Props.C04
import Vgi.Props.C06
/-!
# C37 — Dispatch hooks see exactly one start and one end per dispatched call

Theorems about `dispatchCall` / `hookStart` / `hookEnd` / `historyEvents` (the hook section of
`Server.serveOne` and `HttpServer.startDispatchHook`) and about the outcome functions of every
call kind of the scripted family on both transports (`pipeUnaryOutcome`, `pipeStreamOutcome`,
`httpUnaryOutcome`, `httpInit`, `httpExchange`, …) — the definitions `Vgi.Drive.C37` executes.
Quantifiers: every hook behaviour (normal, nil context, panic in start, panic in end), every
token, every call outcome, every call history; for the error clause every method, script,
level, request id, input stream, batch limit and cursor.
-/
namespace Vgi.Props.C37
open Vgi Vgi.Script

/-! ### One start, one end, same token -/

/-- **one_start_one_end.** For a dispatched call and a hook whose start returns normally
(whatever it does in end, and even if it returns a nil context) the hook's log for the call is
exactly: start minting `tok`, then ONE end carrying that same token and `handlerErr != nil`. -/
theorem one_start_one_end (mode : HookMode) (tok : Nat) (o : CallOutcome)
    (hd : o.dispatched = true) (hm : mode ≠ .panicStart) :
    dispatch (some mode) tok o = [.start tok false, .finish (some tok) o.handlerErr (mode == .panicEnd)] := by
  cases mode <;> simp_all [dispatch, dispatchCall, hookStart, hookEnd, hookOnStart, hookOnEnd]

/-- **start panic ⇒ inactive ⇒ no end.** -/
theorem panicking_start_no_end (tok : Nat) (o : CallOutcome) (hd : o.dispatched = true) :
    dispatch (some .panicStart) tok o = [.start tok true] := by
  simp [dispatch, dispatchCall, hookStart, hookEnd, hookOnStart, hd]

/-- A call that is answered before the dispatch point (unknown method, refused input) and a
server without a hook record nothing. -/
theorem not_dispatched_no_events (hook : Option HookMode) (tok : Nat) (o : CallOutcome)
    (h : hook = none ∨ o.dispatched = false) : dispatch hook tok o = [] := by
  rcases h with h | h
  · simp [dispatch, dispatchCall, h]
  · cases hook <;> simp [dispatch, dispatchCall, h]

def isEndFor (tok : Nat) : HookEvent → Bool
  | .finish (some t) _ _ => t == tok
  | _ => false

def isStart : HookEvent → Bool
  | .start .. => true
  | _ => false

/-- **exactly once.** In the log of a dispatched call there is exactly one start; if it returned
normally there is exactly one end with its token and that end comes after the start; if it
panicked there is no end at all. No end ever carries another (or a nil) token. -/
theorem end_exactly_once (mode : HookMode) (tok : Nat) (o : CallOutcome) (hd : o.dispatched = true) :
    ((dispatch (some mode) tok o).filter isStart).length = 1 ∧
    ((dispatch (some mode) tok o).filter (isEndFor tok)).length = (if mode = .panicStart then 0 else 1) ∧
    ((dispatch (some mode) tok o).filter (fun e => !isStart e && !isEndFor tok e)) = [] ∧
    (dispatch (some mode) tok o).head?.map isStart = some true := by
  by_cases hm : mode = .panicStart
  · subst hm; rw [panicking_start_no_end tok o hd]; simp [List.filter_cons, isStart, isEndFor]
  · rw [one_start_one_end mode tok o hd hm]; simp [List.filter_cons, isStart, isEndFor, hm]

/-- **hook panics are contained.** Whatever the hook does, the dispatch returns normally with the
body's own outcome: the same outcome a server without a hook produces. -/
theorem hook_panic_contained (hook : Option HookMode) (tok : Nat) (o : CallOutcome) :
    (dispatchCall hook tok o).1 = .ret o ∧ (dispatchCall hook tok o).1 = (dispatchCall none tok o).1 := by
  cases hook with
  | none => simp [dispatchCall]
  | some m => by_cases hd : o.dispatched = true <;> simp [dispatchCall, hd]

/-! ### Histories: tokens are fresh, later calls are unaffected -/

def dispatchedBefore : List (HookMode × CallOutcome) → Nat
  | [] => 0
  | (_, o) :: r => (if o.dispatched then 1 else 0) + dispatchedBefore r

/-- **later calls unaffected.** In a history the log of call `i` is what that call alone would
record with the next free token: it depends on the earlier calls only through HOW MANY of them
were dispatched — not on what their hooks did (returned, panicked in start, panicked in end). -/
theorem history_local : ∀ (cs : List (HookMode × CallOutcome)) (tok i : Nat) (h : i < cs.length),
    (historyEvents tok cs)[i]? =
      some (dispatch (some cs[i].1) (tok + dispatchedBefore (cs.take i)) cs[i].2) := by
  intro cs
  induction cs with
  | nil => intro tok i h; simp at h
  | cons c rest ih =>
    intro tok i h
    obtain ⟨m, o⟩ := c
    cases i with
    | zero => simp [historyEvents, dispatchedBefore]
    | succ j =>
      have hj : j < rest.length := by simpa using h
      have heq : nextToken tok o + dispatchedBefore (rest.take j) =
          tok + dispatchedBefore (((m, o) :: rest).take (j + 1)) := by
        unfold nextToken
        simp only [List.take_succ_cons, dispatchedBefore]
        by_cases hd : o.dispatched = true <;> simp [hd] <;> omega
      simp only [historyEvents, List.getElem?_cons_succ, List.getElem_cons_succ]
      rw [ih (nextToken tok o) j hj, heq]

theorem dispatchedBefore_congr : ∀ (cs cs' : List (HookMode × CallOutcome)) (i : Nat),
    cs.map (·.2) = cs'.map (·.2) → dispatchedBefore (cs.take i) = dispatchedBefore (cs'.take i) := by
  intro cs
  induction cs with
  | nil => intro cs' i h; cases cs' with
    | nil => rfl
    | cons c r => simp at h
  | cons c r ih =>
    intro cs' i h
    cases cs' with
    | nil => simp at h
    | cons c' r' =>
      simp only [List.map_cons, List.cons.injEq] at h
      cases i with
      | zero => rfl
      | succ j =>
        obtain ⟨m, o⟩ := c
        obtain ⟨m', o'⟩ := c'
        simp only at h
        simp only [List.take_succ_cons, dispatchedBefore, h.1, ih r' j h.2]

/-- Changing what the hook does on OTHER calls (return, nil context, panic in start, panic in
end) changes nothing for call `i`: two histories with the same calls and the same hook behaviour
on call `i` record the same events for it. -/
theorem history_modes_independent (cs cs' : List (HookMode × CallOutcome)) (tok i : Nat)
    (h : i < cs.length) (h' : i < cs'.length) (hsame : cs.map (·.2) = cs'.map (·.2))
    (hmode : cs[i].1 = cs'[i].1) :
    (historyEvents tok cs)[i]? = (historyEvents tok cs')[i]? := by
  rw [history_local cs tok i h, history_local cs' tok i h', dispatchedBefore_congr cs cs' i hsame, hmode]
  have : cs[i].2 = cs'[i].2 := by
    have h1 : (cs.map (·.2))[i]'(by simpa using h) = (cs'.map (·.2))[i]'(by simpa using h') := by
      simp only [hsame]
    simpa using h1
  rw [this]

/-- Tokens are fresh: the token of call `i` is the initial token plus the number of dispatched
calls before it, so two dispatched calls never share a token. -/
theorem history_tokens_fresh (cs : List (HookMode × CallOutcome)) (tok i j : Nat)
    (hi : i < j) (hj : j < cs.length) (hdi : (cs[i]'(by omega)).2.dispatched = true) :
    tok + dispatchedBefore (cs.take i) < tok + dispatchedBefore (cs.take j) := by
  have key : ∀ (l : List (HookMode × CallOutcome)) (a b : Nat) (hab : a < b) (hb : b ≤ l.length)
      (hd : (l[a]'(by omega)).2.dispatched = true),
      dispatchedBefore (l.take a) < dispatchedBefore (l.take b) := by
    intro l
    induction l with
    | nil => intro a b hab hb; simp at hb; omega
    | cons c r ih =>
      intro a b hab hb hd
      obtain ⟨m, o⟩ := c
      cases b with
      | zero => omega
      | succ b' =>
        cases a with
        | zero =>
          simp only [List.getElem_cons_zero] at hd
          simp [dispatchedBefore, hd]
          omega
        | succ a' =>
          simp only [List.take_succ_cons, dispatchedBefore]
          have := ih a' b' (by omega) (by simpa using hb) (by simpa using hd)
          omega
  have := key cs i j hi (by omega) hdi
  omega

/-! ### End gets an error exactly when the response reports one -/

theorem hasExc_iff (bs : List Batch) : hasExc bs = true ↔ 0 < C06.excCount bs := by
  unfold hasExc C06.excCount
  rw [List.any_eq_true, List.length_pos_iff_exists_mem]
  constructor
  · rintro ⟨b, hb, he⟩; exact ⟨b, List.mem_filter.2 ⟨hb, he⟩⟩
  · rintro ⟨b, hb⟩; have := List.mem_filter.1 hb; exact ⟨b, this.1, this.2⟩

/-- **end_err_iff_response_error (pipe unary).** -/
theorem pipe_unary_err_iff (m : UMethod) (lvl rid : Bytes) (s : UnaryScript) :
    (pipeUnaryOutcome m lvl rid s).dispatched = true ∧
    (pipeUnaryOutcome m lvl rid s).handlerErr = (pipeUnaryOutcome m lvl rid s).respError := by
  refine ⟨rfl, ?_⟩
  unfold pipeUnaryOutcome
  simp only
  have hshape := C04.unary_shape_pipe m lvl rid s
  have herr : (serveUnary m lvl rid s).2 = (C04.failure s.outcome).map SrvErr.mk := by
    unfold serveUnary
    have := C04.handler_err lvl s
    cases hs : (runHandler lvl s).callErr with
    | some e => simp [hs] at this ⊢; exact this
    | none =>
      simp only [hs] at this ⊢
      by_cases hv : m.isVoid = true <;> simp [hv, this]
  rw [herr, hshape]
  unfold hasExc
  rw [List.any_append]
  have hlogs : ((s.logs.filter (C04.keepLog lvl)).map (C04.logBatch rid)).any Batch.isExc = false := by
    rw [List.any_eq_false]
    intro b hb
    obtain ⟨lc, _, rfl⟩ := List.mem_map.1 hb
    simp [C04.logBatch, Batch.isExc]
  rw [hlogs]
  unfold C04.terminal C04.failure
  cases s.outcome with
  | ret v => by_cases hv : m.isVoid = true <;> simp [hv, Batch.isExc]
  | fail e => simp [Batch.isExc]
  | panic p => simp [Batch.isExc]

/-- **end_err_iff_response_error (HTTP unary)**, under every cap configuration: the handler's
own failure, a cap refusal of a successful valued result, or a clean answer. -/
theorem http_unary_err_iff (cfg : HttpCfg) (m : UMethod) (lvl rid : Bytes) (s : UnaryScript) :
    (httpUnaryOutcome cfg m lvl rid s).dispatched = true ∧
    (httpUnaryOutcome cfg m lvl rid s).handlerErr = (httpUnaryOutcome cfg m lvl rid s).respError := by
  have hp := (pipe_unary_err_iff m lvl rid s).2
  have ha := C04.pipe_http_agree m lvl rid s
  unfold pipeUnaryOutcome at hp
  simp only at hp
  -- the body holds an exception batch exactly when the handler failed
  have hbody : hasExc (handleUnary m lvl rid s).1.body.batches = (handleUnary m lvl rid s).2.isSome := by
    rw [ha.1, ha.2.1, hp]
  have hhdr : (handleUnary m lvl rid s).2.isSome = false → (handleUnary m lvl rid s).1.errorHeader = false := by
    intro hnone
    have hf : (C04.failure s.outcome).isSome = false := by
      cases hfo : C04.failure s.outcome with
      | none => rfl
      | some msg =>
        exfalso
        have := (C04.no_result_on_failure .pipe m lvl rid s msg hfo).2.1
        have hmem : Batch.exc msg (ridOpt rid) ∈ (serveUnary m lvl rid s).1.batches := by
          have h2 : Batch.exc msg (ridOpt rid) ∈ (unaryResponse .pipe m lvl rid s).batches.filter Batch.isExc := by
            rw [this]; simp
          exact (List.mem_filter.1 h2).1
        have hx : hasExc (serveUnary m lvl rid s).1.batches = true := by
          unfold hasExc; rw [List.any_eq_true]; exact ⟨_, hmem, rfl⟩
        rw [← hp, ← ha.2.1, hnone] at hx; cases hx
    cases hh : (handleUnary m lvl rid s).1.errorHeader with
    | false => rfl
    | true => have := ha.2.2.2.1 hh; rw [hf] at this; cases this
  unfold httpUnaryOutcome
  simp only
  cases hs : (handleUnary m lvl rid s).2.isSome with
  | true => simp [hbody, hs]
  | false =>
    simp only [Bool.false_eq_true, if_false]
    cases cfg with
    | plain => simp [hbody, hs, hhdr hs]
    | wireCap => by_cases hv : m.isVoid = true <;> simp [hv, capFail]
    | extCap => by_cases hv : m.isVoid = true <;> simp [hv, capFail]

/-- **end_err_iff_response_error (pipe stream).** -/
theorem pipe_stream_err_iff (m : SMethod) (lvl rid : Bytes) (s : StreamScript) (input : InputStream) :
    (pipeStreamOutcome m lvl rid s input).dispatched = true ∧
    (pipeStreamOutcome m lvl rid s input).handlerErr = (pipeStreamOutcome m lvl rid s input).respError := by
  refine ⟨rfl, ?_⟩
  unfold pipeStreamOutcome
  simp only
  have h := C06.serve_exception_iff_error m lvl rid s input
  have hany : ∀ (l : List IpcStream),
      l.any (fun st => hasExc st.batches) = decide (0 < (l.map (fun st => C06.excCount st.batches)).sum) := by
    intro l
    induction l with
    | nil => rfl
    | cons a r ih =>
      simp only [List.any_cons, List.map_cons, List.sum_cons, ih]
      cases hx : hasExc a.batches with
      | true => have := (hasExc_iff a.batches).1 hx; simp; omega
      | false =>
        have : C06.excCount a.batches = 0 := by
          cases hc : C06.excCount a.batches with
          | zero => rfl
          | succ n => have := (hasExc_iff a.batches).2 (by omega); rw [hx] at this; cases this
        simp [this]
  rw [hany, h]
  cases (serveStream m lvl rid s input).handlerErr <;> simp

/-- **serve-context cancellation between turns** keeps the iff: the stream ends with a plain
end-of-stream and the hook's end gets nil — the response reports an error exactly when the hook
does, whatever turn the cancellation falls into (seeded change C37-h hands `ctx.Err()` to the hook
while the client still sees a clean end). -/
theorem pipe_stream_cancelled_err_iff (m : SMethod) (lvl rid : Bytes) (s : StreamScript) (input : InputStream)
    (k : Nat) :
    (pipeStreamCancelledOutcome m lvl rid s input k).dispatched = true ∧
    (pipeStreamCancelledOutcome m lvl rid s input k).handlerErr =
      (pipeStreamCancelledOutcome m lvl rid s input k).respError :=
  pipe_stream_err_iff m lvl rid s _

/-- A cancellation that falls into a turn the stream completes leaves no exception behind by
itself: if the first `k+1` input batches are served without error, the cancelled call is clean on
both sides however much input follows. -/
theorem cancelled_clean_stream (m : SMethod) (lvl rid : Bytes) (s : StreamScript) (input : InputStream) (k : Nat)
    (h : (serveStream m lvl rid s { input with batches := input.batches.take (k + 1) }).handlerErr = none) :
    (pipeStreamCancelledOutcome m lvl rid s input k).handlerErr = false ∧
    (pipeStreamCancelledOutcome m lvl rid s input k).respError = false := by
  have hi := (pipe_stream_cancelled_err_iff m lvl rid s input k).2
  have : (pipeStreamCancelledOutcome m lvl rid s input k).handlerErr = false := by
    unfold pipeStreamCancelledOutcome pipeStreamOutcome cancelServeAt
    simp only [h, Option.isSome_none]
  exact ⟨this, by rw [← hi]; exact this⟩

theorem producerResponse_err_iff (cfg : HttpCfg) (s : StreamScript) (limit k : Nat) (enc : Bool) :
    (producerResponse cfg s limit k enc).outcome.dispatched = true ∧
    (producerResponse cfg s limit k enc).outcome.handlerErr = (producerResponse cfg s limit k enc).outcome.respError := by
  unfold producerResponse
  simp only
  cases (produceLoop s (cfg == .extCap) limit k).err with
  | some e => exact ⟨rfl, rfl⟩
  | none =>
    by_cases hf : (produceLoop s (cfg == .extCap) limit k).finished = true
    · simp [hf, httpOk]
    · by_cases he : enc = true <;> simp [hf, he, httpFail, httpOk]

/-- **end_err_iff_response_error (HTTP stream init)**, under every cap configuration, including
the producer whose continuation token cannot be minted, the exchange init whose state cannot be
sealed and the header that cannot be serialized (F37, fixed). -/
theorem http_init_err_iff (cfg : HttpCfg) (m : SMethod) (limit : Nat) (s : StreamScript) (enc : Bool) :
    (httpInit cfg m limit s enc).outcome.dispatched = true ∧
    (httpInit cfg m limit s enc).outcome.handlerErr = (httpInit cfg m limit s enc).outcome.respError := by
  unfold httpInit
  cases s.init with
  | fail e => exact ⟨rfl, rfl⟩
  | panic p => exact ⟨rfl, rfl⟩
  | nilResult => exact ⟨rfl, rfl⟩
  | ok st hook hdr ri =>
    simp only
    cases decideMode m.typ st with
    | none => exact ⟨rfl, rfl⟩
    | some isP =>
      simp only
      by_cases hb : (m.hasHeader && hdr == some badHeader) = true
      · simp [hb, httpFail]
      · simp only [hb, Bool.false_eq_true, if_false]
        cases isP with
        | true => exact producerResponse_err_iff cfg s limit 0 enc
        | false => by_cases he : enc = true <;> simp [he, httpFail, httpOk]

/-- **end_err_iff_response_error (HTTP exchange / continuation / cancel)**: for every request
that reaches the dispatch point — a failing turn, a turn without data, an input that does not
cast to the schema a dynamic stream declared, a cap refusal, or a clean turn. -/
theorem http_exchange_err_iff (cfg : HttpCfg) (m : SMethod) (limit : Nat) (s : StreamScript) (isP : Bool)
    (declared : Option Schema) (k : Nat) (src : Schema) (inp : HttpInput)
    (hd : (httpExchange cfg m limit s isP declared k src inp).outcome.dispatched = true) :
    (httpExchange cfg m limit s isP declared k src inp).outcome.handlerErr =
      (httpExchange cfg m limit s isP declared k src inp).outcome.respError := by
  unfold httpExchange at hd ⊢
  cases inp with
  | cancel => rfl
  | data v lib =>
    simp only at hd ⊢
    cases hc : httpCasted m src v lib with
    | error e => rw [hc] at hd; simp at hd
    | ok v1 =>
      simp only
      by_cases hp : isP = true
      · simp only [hp, if_true]; exact (producerResponse_err_iff cfg s limit k true).2
      · simp only [hp, Bool.false_eq_true, if_false]
        cases httpDeclaredCast m declared src v1 lib with
        | error e => rfl
        | ok inVal =>
          simp only
          rcases ht : runTurn false inVal (s.turnAt k) with ⟨c, e⟩
          cases e with
          | some e => rfl
          | none =>
            simp only
            by_cases h1 : (!c.hasData) = true
            · simp [h1, httpFail]
            · simp only [h1, Bool.false_eq_true, if_false]
              by_cases h2 : (cfg == HttpCfg.extCap && c.dataNonEmpty) = true
              · simp [h2, httpFail]
              · simp only [h2, Bool.false_eq_true, if_false]
                by_cases h3 : (cfg == HttpCfg.wireCap) = true <;> simp [h3, httpFail, httpOk]

/-- A dynamic exchange stream refuses, AFTER the hook started, an input that does not cast to the
schema it declared — and the hook is told (the seeded change C37-a removed exactly that). -/
theorem dynamic_declared_cast_failure_reported (cfg : HttpCfg) (m : SMethod) (limit : Nat) (s : StreamScript)
    (declared : Schema) (k : Nat) (src : Schema) (v : String) (lib : Option String)
    (hdyn : m.typ = .dynamic) (hreg : m.inputSchema = none)
    (hfail : castInput src declared v lib = .error fwCast) :
    httpExchange cfg m limit s false (some declared) k src (.data v lib) = httpFail := by
  unfold httpExchange
  simp [httpCasted, hreg, httpDeclaredCast, hdyn, hfail]

/-- Undeserializable parameters are dispatched and reported on both sides; an unknown method is
not dispatched at all. -/
theorem fixed_outcomes :
    badParamsOutcome.dispatched = true ∧ badParamsOutcome.handlerErr = badParamsOutcome.respError ∧
    refusedAfterStartOutcome.dispatched = true ∧
    refusedAfterStartOutcome.handlerErr = refusedAfterStartOutcome.respError ∧
    serializationErrorOutcome.dispatched = true ∧
    serializationErrorOutcome.handlerErr = serializationErrorOutcome.respError ∧
    unknownMethodOutcome.dispatched = false ∧ pipeVersionRefusedOutcome.dispatched = false :=
  ⟨rfl, rfl, rfl, rfl, rfl, rfl, rfl, rfl⟩

/-- **end_err_iff_response_error**, assembled: for any dispatched call whose outcome satisfies
`handlerErr = respError` (all call kinds above) and a hook whose start returns, the single end
event carries `err != nil` exactly when the response reports an error. -/
theorem end_err_iff_response_error (mode : HookMode) (tok : Nat) (o : CallOutcome)
    (hd : o.dispatched = true) (hm : mode ≠ .panicStart) (ho : o.handlerErr = o.respError) :
    ∃ p, dispatch (some mode) tok o = [.start tok false, .finish (some tok) o.respError p] := by
  rw [one_start_one_end mode tok o hd hm, ho]; exact ⟨_, rfl⟩

/-! ### The HTTP produce loop stops at the batch limit -/

/-- `produceLoop` runs at most `fuel` further turns… and at least reports where it stopped:
the cursor only moves forward, by at most `fuel` turns when the limit stops it. -/
theorem produceLoop_cursor (s : StreamScript) (x : Bool) : ∀ (fuel k : Nat),
    k ≤ (produceLoop s x fuel k).cursor ∧ (produceLoop s x fuel k).cursor ≤ k + fuel ∧
    ((produceLoop s x fuel k).finished = true → (produceLoop s x fuel k).err = none) := by
  intro fuel
  induction fuel with
  | zero => intro k; simp [produceLoop]
  | succ f ih =>
    intro k
    simp only [produceLoop]
    rcases runTurn true (natToken k) (s.turnAt k) with ⟨c, e⟩
    cases e with
    | some e => simp
    | none =>
      simp only
      by_cases h1 : (!c.finished && !c.hasData) = true
      · simp [h1]
      · simp only [h1, Bool.false_eq_true, if_false]
        by_cases hx : (x && c.dataNonEmpty) = true
        · simp [hx]
        · simp only [hx, Bool.false_eq_true, if_false]
          by_cases h2 : c.finished = true
          · simp [h2]
          · simp only [h2, Bool.false_eq_true, if_false]
            have := ih (k + 1)
            exact ⟨by omega, by omega, this.2.2⟩

/-! ### Non-vacuity -/

example : dispatch (some .panicEnd) 3 ⟨true, true, true⟩ = [.start 3 false, .finish (some 3) true true] := by decide
example : dispatch (some .panicStart) 3 ⟨true, false, false⟩ = [.start 3 true] := by decide
example : historyEvents 1 [(.panicStart, ⟨true, false, false⟩), (.normal, unknownMethodOutcome),
      (.panicEnd, badParamsOutcome), (.nilCtx, ⟨true, false, false⟩)]
    = [[.start 1 true], [], [.start 2 false, .finish (some 2) true true],
       [.start 3 false, .finish (some 3) false false]] := by decide
-- a producer over HTTP with batch limit 2 whose state type cannot be sealed: error on both sides
example : (httpInit .plain ⟨.producer, "{x:int64}", true, none, false, "{}"⟩ 2
      ⟨[], .ok .prod .absent none none, [], ⟨[.echo true], .ok⟩⟩ false).outcome = ⟨true, true, true⟩ := by decide
example : (httpInit .plain ⟨.producer, "{x:int64}", true, none, false, "{}"⟩ 2
      ⟨[], .ok .prod .absent none none, [], ⟨[.echo true], .ok⟩⟩ true) = ⟨⟨true, false, false⟩, some 2⟩ := by decide
-- a dynamic exchange stream that declared {x:int64}: a renamed input column is refused after the
-- hook started (error on both sides), an int64 input is exchanged
example : httpExchange .plain ⟨.dynamic, "{x:int64}", false, none, true, "{}"⟩ 2
      ⟨[], .ok .exch .absent none (some [⟨"x", "int64", false⟩]), [], ⟨[.echo true], .ok⟩⟩ false
      (some [⟨"x", "int64", false⟩]) 0 [⟨"y", "int64", false⟩] (.data "i:1" none) = httpFail := by decide
example : httpExchange .plain ⟨.dynamic, "{x:int64}", false, none, true, "{}"⟩ 2
      ⟨[], .ok .exch .absent none (some [⟨"x", "int64", false⟩]), [], ⟨[.echo true], .ok⟩⟩ false
      (some [⟨"x", "int64", false⟩]) 0 [⟨"x", "int64", false⟩] (.data "i:1" none) = httpOk (some 1) := by decide

end Vgi.Props.C37
