import Vgi.Model.WwwAuth
/-!
# C28 — Client-side parsing recovers exactly what the WWW-Authenticate header advertises

Theorems about `Vgi.WwwAuth` (model of `buildWWWAuthenticate`, `Validate`, `parseQuotedParam`
and the six `Parse…` accessors). Everything is for ALL byte strings: every metadata URL without a
double quote, every metadata value that passes `validate`, every subset of optional fields.
-/
namespace Vgi.Props.C28
open Vgi Vgi.WwwAuth

/-- A parameter name / auth scheme token: no double quote, no separator. -/
def NameTok (n : Bytes) : Prop := ∀ c ∈ n, c ≠ dq ∧ isSep c = false
/-- A value that can be written between double quotes as is. -/
def NoQuote (v : Bytes) : Prop := ∀ c ∈ v, c ≠ dq
/-- A non-empty run of separators (spaces / commas). -/
def SepRun (s : Bytes) : Prop := s ≠ [] ∧ ∀ c ∈ s, isSep c = true

/-! ### The scanner, piece by piece -/

theorem scan_name (key : Bytes) : ∀ (n tok rest : Bytes), NameTok n →
    scan key (.name tok) (n ++ rest) = scan key (.name (tok ++ n)) rest
  | [], tok, rest, _ => by simp
  | c :: n, tok, rest, h => by
    have hc := h c (by simp)
    have ih := scan_name key n (tok ++ [c]) rest (fun x hx => h x (by simp [hx]))
    simp only [List.cons_append, scan, hc.1, hc.2, if_false, Bool.false_eq_true]
    rw [ih, List.append_assoc]
    rfl

theorem sep_ne_dq {c : UInt8} (h : isSep c = true) : c ≠ dq := by
  intro hc
  subst hc
  revert h
  decide

theorem scan_seps0 (key : Bytes) : ∀ (s rest : Bytes), (∀ c ∈ s, isSep c = true) →
    scan key (.name []) (s ++ rest) = scan key (.name []) rest
  | [], _, _ => by simp
  | c :: s, rest, h => by
    have hc := h c (by simp)
    have ih := scan_seps0 key s rest (fun x hx => h x (by simp [hx]))
    simp only [List.cons_append, scan, sep_ne_dq hc, hc, if_false, if_true]
    exact ih

theorem scan_seps (key : Bytes) (s tok rest : Bytes) (h : SepRun s) :
    scan key (.name tok) (s ++ rest) = scan key (.name []) rest := by
  obtain ⟨hne, hall⟩ := h
  cases s with
  | nil => exact absurd rfl hne
  | cons c s =>
    have hc := hall c (by simp)
    simp only [List.cons_append, scan, sep_ne_dq hc, hc, if_false, if_true]
    exact scan_seps0 key s rest (fun x hx => hall x (by simp [hx]))

theorem scan_quoted (key : Bytes) (w : Bool) : ∀ (v acc rest : Bytes), NoQuote v →
    scan key (.quoted w acc) (v ++ dq :: rest)
      = if w then acc ++ v else scan key (.name []) rest
  | [], acc, rest, _ => by simp [scan]
  | c :: v, acc, rest, h => by
    have hc := h c (by simp)
    have ih := scan_quoted key w v (acc ++ [c]) rest (fun x hx => h x (by simp [hx]))
    simp only [List.cons_append, scan, hc, if_false]
    rw [ih, List.append_assoc]
    rfl

theorem eq_nameTok : NameTok [eq] := by
  intro c hc
  simp at hc
  subst hc
  decide

/-- One `name="value"` parameter, read from the start of a name. -/
theorem scan_param (key n v tok rest : Bytes) (hn : NameTok n) (hv : NoQuote v) :
    scan key (.name tok) (param n v ++ rest)
      = if tok ++ n ++ [eq] = key then v else scan key (.name []) rest := by
  have e : param n v ++ rest = n ++ ([eq] ++ (dq :: (v ++ dq :: rest))) := by
    simp [param, List.append_assoc]
  rw [e, scan_name key n tok _ hn, scan_name key [eq] (tok ++ n) _ eq_nameTok]
  simp only [scan, if_true]
  rw [scan_quoted key _ v [] rest hv]
  by_cases hk : tok ++ n ++ [eq] = key <;> simp

/-- **parse_challenge** — the scanner's specification on every well-formed challenge: for any
scheme token and any list of parameters, each preceded by a non-empty run of spaces/commas, with
names free of quotes/separators and values free of quotes, `parseQuotedParam` returns the value
of the FIRST parameter whose whole name equals the one asked for, and "" if there is none. -/
theorem scan_renderG (name : Bytes) : ∀ (ps : List (Bytes × Bytes × Bytes)) (tok : Bytes),
    (∀ p ∈ ps, SepRun p.1 ∧ NameTok p.2.1 ∧ NoQuote p.2.2) →
    scan (name ++ [eq]) (.name tok) (renderG ps) = lookup name (ps.map (·.2))
  | [], tok, _ => by simp [renderG, scan, lookup]
  | (s, n, v) :: ps, tok, h => by
    have hp := h (s, n, v) (by simp)
    have ih := scan_renderG name ps [] (fun p hp => h p (by simp [hp]))
    simp only [renderG, List.append_assoc, List.map_cons, lookup]
    rw [scan_seps _ s tok _ hp.1, scan_param _ n v [] _ hp.2.1 hp.2.2, ih]
    simp only [List.nil_append, List.append_cancel_right_eq]

theorem parse_challenge (scheme name : Bytes) (ps : List (Bytes × Bytes × Bytes))
    (hs : NameTok scheme) (hps : ∀ p ∈ ps, SepRun p.1 ∧ NameTok p.2.1 ∧ NoQuote p.2.2) :
    parseQuoted (scheme ++ renderG ps) name = lookup name (ps.map (·.2)) := by
  unfold parseQuoted
  rw [scan_name _ scheme [] _ hs]
  exact scan_renderG name ps _ hps

/-! ### The header `build` emits is such a challenge -/

/-- `params` with the separators `build` writes in front of each parameter. -/
def sepParams (url : Bytes) (m : Meta) : List (Bytes × Bytes × Bytes) :=
  [([sp], nResourceMetadata, url)]
    ++ (if m.clientId.isEmpty then [] else [([comma, sp], nClientId, m.clientId)])
    ++ (if m.useIdToken then [([comma, sp], nUseIdToken, litTrue)] else [])
    ++ (if m.clientSecret.isEmpty then [] else [([comma, sp], nClientSecret, m.clientSecret)])
    ++ (if m.dcClientId.isEmpty then [] else [([comma, sp], nDcClientId, m.dcClientId)])
    ++ (if m.dcClientSecret.isEmpty then [] else [([comma, sp], nDcClientSecret, m.dcClientSecret)])

theorem renderG_append : ∀ (a b : List (Bytes × Bytes × Bytes)),
    renderG (a ++ b) = renderG a ++ renderG b
  | [], b => by simp [renderG]
  | (s, n, v) :: a, b => by simp [renderG, renderG_append a b, List.append_assoc]

theorem build_eq_render (url : Bytes) (m : Meta) :
    build url m = bearer ++ renderG (sepParams url m) := by
  unfold build sepParams opt
  simp only [renderG_append, List.append_assoc]
  congr 1
  by_cases h1 : m.clientId.isEmpty <;> by_cases h2 : m.useIdToken <;>
    by_cases h3 : m.clientSecret.isEmpty <;> by_cases h4 : m.dcClientId.isEmpty <;>
    by_cases h5 : m.dcClientSecret.isEmpty <;>
    simp [h1, h2, h3, h4, h5, renderG]

theorem sepParams_map (url : Bytes) (m : Meta) : (sepParams url m).map (·.2) = params url m := by
  unfold sepParams params
  by_cases h1 : m.clientId.isEmpty <;> by_cases h2 : m.useIdToken <;>
    by_cases h3 : m.clientSecret.isEmpty <;> by_cases h4 : m.dcClientId.isEmpty <;>
    by_cases h5 : m.dcClientSecret.isEmpty <;>
    simp [h1, h2, h3, h4, h5]

/-! ### `lookup` does not depend on the order of distinctly named parameters -/

theorem lookup_of_not_mem (n : Bytes) : ∀ (l : List (Bytes × Bytes)),
    n ∉ l.map Prod.fst → lookup n l = []
  | [], _ => rfl
  | p :: l, h => by
    simp only [List.map_cons, List.mem_cons, not_or] at h
    simp only [lookup, if_neg (Ne.symm h.1)]
    exact lookup_of_not_mem n l h.2

theorem lookup_of_mem (n v : Bytes) : ∀ (l : List (Bytes × Bytes)),
    (l.map Prod.fst).Nodup → (n, v) ∈ l → lookup n l = v
  | [], _, h => by cases h
  | p :: l, hnd, h => by
    simp only [List.map_cons, List.nodup_cons] at hnd
    simp only [List.mem_cons] at h
    simp only [lookup]
    rcases h with h | h
    · subst h; simp
    · have : p.1 ≠ n := by
        intro hp
        apply hnd.1
        rw [hp]
        exact List.mem_map.mpr ⟨(n, v), h, rfl⟩
      rw [if_neg this]
      exact lookup_of_mem n v l hnd.2 h

theorem lookup_perm (n : Bytes) (l₁ l₂ : List (Bytes × Bytes)) (hp : l₁.Perm l₂)
    (hnd : (l₂.map Prod.fst).Nodup) : lookup n l₁ = lookup n l₂ := by
  have hnd₁ : (l₁.map Prod.fst).Nodup := (hp.map Prod.fst).nodup_iff.mpr hnd
  by_cases hm : n ∈ l₂.map Prod.fst
  · obtain ⟨q, hq, hqn⟩ := List.mem_map.mp hm
    obtain ⟨a, v⟩ := q
    simp only at hqn
    subst hqn
    rw [lookup_of_mem a v l₂ hnd hq, lookup_of_mem a v l₁ hnd₁ (hp.mem_iff.mpr hq)]
  · have hm₁ : n ∉ l₁.map Prod.fst := fun h => hm ((hp.map Prod.fst).mem_iff.mp h)
    rw [lookup_of_not_mem n l₂ hm, lookup_of_not_mem n l₁ hm₁]

/-! ### Validated metadata yields well-formed parameters -/

theorem idChar_ne_dq {c : UInt8} (h : idChar c = true) : c ≠ dq := by
  intro hc; subst hc; revert h; decide

theorem field_ok {f : Bytes} (h : (!f.isEmpty && !matchId f) = false) : NoQuote f := by
  intro c hc
  cases f with
  | nil => cases hc
  | cons a t =>
    simp only [matchId, List.isEmpty_cons, Bool.not_false, Bool.true_and,
      Bool.not_eq_eq_eq_not] at h
    exact idChar_ne_dq (List.all_eq_true.mp h c hc)

theorem valid_fields {m : Meta} (h : validate m = none) :
    NoQuote m.clientId ∧ NoQuote m.clientSecret ∧ NoQuote m.dcClientId ∧ NoQuote m.dcClientSecret := by
  unfold validate at h
  split at h; · cases h
  split at h; · cases h
  split at h; · cases h
  split at h; · cases h
  split at h; · cases h
  split at h; · cases h
  rename_i _ _ h1 h2 h3 h4
  exact ⟨field_ok (by simpa using h1), field_ok (by simpa using h2), field_ok (by simpa using h3),
    field_ok (by simpa using h4)⟩

theorem names_nodup (url : Bytes) (m : Meta) : ((params url m).map Prod.fst).Nodup := by
  unfold params
  by_cases h1 : m.clientId.isEmpty <;> by_cases h2 : m.useIdToken <;>
    by_cases h3 : m.clientSecret.isEmpty <;> by_cases h4 : m.dcClientId.isEmpty <;>
    by_cases h5 : m.dcClientSecret.isEmpty <;>
    simp only [h1, h2, h3, h4, h5, if_true, if_false, Bool.false_eq_true, List.append_nil,
      List.cons_append, List.nil_append, List.map_cons, List.map_nil] <;> decide

theorem mem_params_wf {url : Bytes} {m : Meta} (hu : NoQuote url) (hv : validate m = none) :
    ∀ p ∈ params url m, NameTok p.1 ∧ NoQuote p.2 := by
  obtain ⟨v1, v2, v3, v4⟩ := valid_fields hv
  have t1 : NameTok nResourceMetadata := by unfold NameTok; decide
  have t2 : NameTok nClientId := by unfold NameTok; decide
  have t3 : NameTok nUseIdToken := by unfold NameTok; decide
  have t4 : NameTok nClientSecret := by unfold NameTok; decide
  have t5 : NameTok nDcClientId := by unfold NameTok; decide
  have t6 : NameTok nDcClientSecret := by unfold NameTok; decide
  have t7 : NoQuote litTrue := by unfold NoQuote; decide
  intro p hp
  unfold params at hp
  simp only [List.mem_append, List.mem_singleton] at hp
  rcases hp with ((((hp | hp) | hp) | hp) | hp) | hp
  · subst hp; exact ⟨t1, hu⟩
  · split at hp
    · cases hp
    · simp only [List.mem_singleton] at hp; subst hp; exact ⟨t2, v1⟩
  · split at hp
    · simp only [List.mem_singleton] at hp; subst hp; exact ⟨t3, t7⟩
    · cases hp
  · split at hp
    · cases hp
    · simp only [List.mem_singleton] at hp; subst hp; exact ⟨t4, v2⟩
  · split at hp
    · cases hp
    · simp only [List.mem_singleton] at hp; subst hp; exact ⟨t5, v3⟩
  · split at hp
    · cases hp
    · simp only [List.mem_singleton] at hp; subst hp; exact ⟨t6, v4⟩

/-- What the six accessors read from the parameter list `build` emits. -/
theorem lookup_params (url : Bytes) (m : Meta) :
    lookup nResourceMetadata (params url m) = url ∧
    lookup nClientId (params url m) = m.clientId ∧
    (lookup nUseIdToken (params url m) == litTrue) = m.useIdToken ∧
    lookup nClientSecret (params url m) = m.clientSecret ∧
    lookup nDcClientId (params url m) = m.dcClientId ∧
    lookup nDcClientSecret (params url m) = m.dcClientSecret := by
  unfold params
  by_cases h1 : m.clientId = [] <;> by_cases h2 : m.useIdToken <;>
    by_cases h3 : m.clientSecret = [] <;> by_cases h4 : m.dcClientId = [] <;>
    by_cases h5 : m.dcClientSecret = [] <;>
    simp [List.isEmpty_iff, h1, h2, h3, h4, h5, lookup,
      nResourceMetadata, nClientId, nUseIdToken, nClientSecret, nDcClientId, nDcClientSecret, litTrue]

theorem sepParams_seps (url : Bytes) (m : Meta) : ∀ p ∈ sepParams url m, SepRun p.1 := by
  have s1 : SepRun [sp] := by unfold SepRun; decide
  have s2 : SepRun [comma, sp] := by unfold SepRun; decide
  intro p hp
  unfold sepParams at hp
  simp only [List.mem_append, List.mem_singleton] at hp
  rcases hp with ((((hp | hp) | hp) | hp) | hp) | hp
  · subst hp; exact s1
  all_goals
    split at hp
    all_goals first | cases hp; done | (simp only [List.mem_singleton] at hp; subst hp; exact s2)

/-! ### The property -/

/-- A client reading header `h` recovers exactly the advertised resource-metadata URL, client id,
id-token flag, client secret, device-code client id and device-code client secret (an absent
parameter reads as the empty string / `false`). -/
def Recovers (h url : Bytes) (m : Meta) : Prop :=
  parseResourceMetadataURL h = url ∧
  parseClientID h = m.clientId ∧
  parseUseIDTokenAsBearer h = m.useIdToken ∧
  parseClientSecret h = m.clientSecret ∧
  parseDeviceCodeClientID h = m.dcClientId ∧
  parseDeviceCodeClientSecret h = m.dcClientSecret

/-- **parse_any_order** — for every metadata value that passes `validate` (any subset of the
optional fields empty) and every metadata URL without a double quote: ANY challenge that carries
exactly the advertised parameters — in any order, after any scheme token, separated by any
non-empty runs of spaces/commas — is read back exactly. -/
theorem parse_any_order (scheme url : Bytes) (m : Meta) (ps : List (Bytes × Bytes × Bytes))
    (hs : NameTok scheme) (hseps : ∀ p ∈ ps, SepRun p.1)
    (hperm : (ps.map (·.2)).Perm (params url m))
    (hu : NoQuote url) (hv : validate m = none) :
    Recovers (scheme ++ renderG ps) url m := by
  have hps : ∀ p ∈ ps, SepRun p.1 ∧ NameTok p.2.1 ∧ NoQuote p.2.2 := by
    intro p hp
    have hm : p.2 ∈ params url m := hperm.mem_iff.mp (List.mem_map.mpr ⟨p, hp, rfl⟩)
    exact ⟨hseps p hp, mem_params_wf hu hv p.2 hm⟩
  have key : ∀ n, parseQuoted (scheme ++ renderG ps) n = lookup n (params url m) := by
    intro n
    rw [parse_challenge scheme n ps hs hps, lookup_perm n _ _ hperm (names_nodup url m)]
  obtain ⟨l1, l2, l3, l4, l5, l6⟩ := lookup_params url m
  unfold Recovers parseResourceMetadataURL parseClientID parseUseIDTokenAsBearer parseClientSecret
    parseDeviceCodeClientID parseDeviceCodeClientSecret
  simp only [key]
  exact ⟨l1, l2, l3, l4, l5, l6⟩

/-- **parse_build** — the headline: parsing the header the server builds recovers exactly what
was advertised, for every valid metadata value and every quote-free metadata URL. -/
theorem parse_build (url : Bytes) (m : Meta) (hu : NoQuote url) (hv : validate m = none) :
    Recovers (build url m) url m := by
  rw [build_eq_render]
  refine parse_any_order bearer url m (sepParams url m) (by unfold NameTok; decide)
    (sepParams_seps url m) ?_ hu hv
  rw [sepParams_map]

/-! ### Configuration histories -/

/-- The configuration a single call installs, if it is accepted. -/
def accepted (c : Option Bytes × Meta) : Option Config :=
  match validate c.2, c.1 with
  | none, some u => some { url := u, md := c.2 }
  | _, _ => none

/-- The last accepted call of a history. -/
def lastAccepted : List (Option Bytes × Meta) → Option Config
  | [] => none
  | c :: r =>
    match lastAccepted r with
    | some x => some x
    | none => accepted c

theorem foldl_setMeta : ∀ (calls : List (Option Bytes × Meta)) (st : Option Config),
    calls.foldl (fun st c => setMeta st c.1 c.2) st =
      match lastAccepted calls with
      | some x => some x
      | none => st
  | [], st => rfl
  | c :: r, st => by
    simp only [List.foldl_cons, lastAccepted]
    rw [foldl_setMeta r]
    cases lastAccepted r with
    | some x => rfl
    | none =>
      simp only [setMeta, accepted]
      cases validate c.2 with
      | some e => rfl
      | none => cases c.1 <;> rfl

/-- **config_last** — after any history of `SetOAuthResourceMetadata` calls the server holds
exactly what the LAST accepted call configured (refused calls change nothing). -/
theorem config_last (calls : List (Option Bytes × Meta)) : configure calls = lastAccepted calls := by
  unfold configure
  rw [foldl_setMeta]
  cases lastAccepted calls <;> rfl

theorem lastAccepted_valid : ∀ (calls : List (Option Bytes × Meta)) (c : Config),
    lastAccepted calls = some c → validate c.md = none
  | [], c, h => by simp [lastAccepted] at h
  | x :: r, c, h => by
    simp only [lastAccepted] at h
    cases hr : lastAccepted r with
    | some y =>
      rw [hr] at h
      simp only [Option.some.injEq] at h
      subst h
      exact lastAccepted_valid r y hr
    | none =>
      rw [hr] at h
      simp only [accepted] at h
      cases hv : validate x.2 with
      | some e => simp [hv] at h
      | none =>
        cases hu : x.1 with
        | none => simp [hv, hu] at h
        | some u =>
          simp only [hv, hu, Option.some.injEq] at h
          subst h
          exact hv

/-- **history_recovers** — whatever sequence of configurations the server went through (rotated
or dropped credentials under the same resource, another resource, refused values in between), a
client parsing the challenge of a 401 recovers exactly the LAST accepted metadata. -/
theorem history_recovers (calls : List (Option Bytes × Meta)) (c : Config)
    (hl : lastAccepted calls = some c) (hu : NoQuote c.url) :
    ∃ h, challenge (configure calls) = some h ∧ Recovers h c.url c.md := by
  refine ⟨build c.url c.md, ?_, parse_build c.url c.md hu (lastAccepted_valid calls c hl)⟩
  rw [config_last, hl]
  rfl

/-- A history without an accepted call sets no challenge. -/
theorem history_none (calls : List (Option Bytes × Meta)) (hl : lastAccepted calls = none) :
    challenge (configure calls) = none := by
  rw [config_last, hl]; rfl

/-- The metadata calls among a sequence of setters. -/
def metaCalls : List Setter → List (Option Bytes × Meta)
  | [] => []
  | .metadata u m :: r => (u, m) :: metaCalls r
  | .other :: r => metaCalls r

theorem foldl_applySetter : ∀ (ss : List Setter) (st : Option Config),
    ss.foldl applySetter st = (metaCalls ss).foldl (fun st c => setMeta st c.1 c.2) st
  | [], _ => rfl
  | .metadata u m :: r, st => by
    simp only [List.foldl_cons, metaCalls, applySetter]
    exact foldl_applySetter r _
  | .other :: r, st => by
    simp only [List.foldl_cons, metaCalls, applySetter]
    exact foldl_applySetter r _

/-- **other_setters_inert** — interleaving `SetOAuthPkce`, `SetPrefix` or `SetAuthenticate` calls
anywhere in the history changes nothing: the challenge is still built from the last accepted
`SetOAuthResourceMetadata` call and its resource-derived URL, and is read back exactly. -/
theorem other_setters_inert (ss : List Setter) (c : Config)
    (hl : lastAccepted (metaCalls ss) = some c) (hu : NoQuote c.url) :
    ∃ h, challenge (ss.foldl applySetter none) = some h ∧ Recovers h c.url c.md := by
  rw [foldl_applySetter]
  exact history_recovers (metaCalls ss) c hl hu

/-! ### Non-vacuity -/

/-- "https://h/a" -/
def exUrl : Bytes := [104, 116, 116, 112, 115, 58, 47, 47, 104, 47, 97]
/-- F28's input class: client id absent, device-code client id present. -/
def exMeta : Meta :=
  { resource := [104, 116, 116, 112, 115, 58, 47, 47, 104, 47, 97], nAuthServers := 1, clientId := [], useIdToken := false, clientSecret := [],
    dcClientId := [100, 101, 118, 45, 49], dcClientSecret := [115, 51, 99, 114, 51, 116] }

example : NoQuote exUrl ∧ validate exMeta = none := by unfold NoQuote; decide
example : parseClientID (build exUrl exMeta) = [] ∧
    parseDeviceCodeClientID (build exUrl exMeta) = [100, 101, 118, 45, 49] ∧
    parseClientSecret (build exUrl exMeta) = [] := by decide

/-- A legal URL ending in `,client_id=` (the closing quote of resource_metadata must not complete
a `client_id="` match). -/
def exUrl2 : Bytes := [104, 116, 116, 112, 115, 58, 47, 47, 104, 47, 97, 44, 99, 108, 105, 101, 110, 116, 95, 105, 100, 61]
def exMeta2 : Meta := { exMeta with clientId := [114, 101, 97, 108, 46, 105, 100], useIdToken := true }
example : NoQuote exUrl2 ∧ validate exMeta2 = none := by unfold NoQuote; decide
example : parseClientID (build exUrl2 exMeta2) = [114, 101, 97, 108, 46, 105, 100] ∧
    parseResourceMetadataURL (build exUrl2 exMeta2) = exUrl2 ∧
    parseUseIDTokenAsBearer (build exUrl2 exMeta2) = true := by decide

/-- A reordered challenge with other separators satisfies the hypotheses of `parse_any_order`. -/
example : ([([sp, sp], nDcClientId, [100, 101, 118, 45, 49]), ([comma], nResourceMetadata, exUrl),
      ([comma, sp], nDcClientSecret, [115, 51, 99, 114, 51, 116])].map (·.2)).Perm (params exUrl exMeta) := by decide

/-- The `NoQuote url` hypothesis is needed: a raw double quote in the URL truncates it. -/
example : parseResourceMetadataURL (build [104, dq, 105] exMeta) = [104] := by decide

/-- `validate` rejects a quote in a field (so the hypothesis is not vacuous either way). -/
example : validate { exMeta with clientId := [97, dq] } = some .clientId := by decide

/-- rotation under the same resource, then a refused call: the challenge advertises the rotated
values (seeded change C28-e). -/
example : configure [(some exUrl, exMeta2), (some exUrl, exMeta), (some exUrl, { exMeta with clientId := [97, dq] })]
    = some { url := exUrl, md := exMeta } ∧
    configure [(none, exMeta), (some exUrl, { exMeta with resource := [] })] = none := by decide

end Vgi.Props.C28
