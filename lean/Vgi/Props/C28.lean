import Vgi.Model.WwwAuth
/-!
# C28 — Client-side parsing recovers exactly what the WWW-Authenticate header advertises

Theorems about `Vgi.WwwAuth` (model of `buildWWWAuthenticate`, `Validate`, `parseQuotedParam`
and the six `Parse…` accessors). Everything is for ALL byte strings: every metadata URL without a
double quote, every metadata value that passes `validate`, every subset of optional fields.
-/
namespace Vgi.Props.C28
open Vgi Vgi.WwwAuth

/-- A parameter name / auth scheme token: no double quote, no separator. -/
def NameTok (n : Bytes) : Prop := ∀ c ∈ n, c ≠ dq ∧ isSep c = false
/-- A value that can be written between double quotes as is. -/
def NoQuote (v : Bytes) : Prop := ∀ c ∈ v, c ≠ dq
/-- A non-empty run of separators (spaces / commas). -/
def SepRun (s : Bytes) : Prop := s ≠ [] ∧ ∀ c ∈ s, isSep c = true

/-! ### The scanner, piece by piece -/

theorem scan_name (key : Bytes) : ∀ (n tok rest : Bytes), NameTok n →
    scan key (.name tok) (n ++ rest) = scan key (.name (tok ++ n)) rest
  | [], tok, rest, _ => by simp
  | c :: n, tok, rest, h => by
    have hc := h c (by simp)
    have ih := scan_name key n (tok ++ [c]) rest (fun x hx => h x (by simp [hx]))
    simp only [List.cons_append, scan, hc.1, hc.2, if_false, Bool.false_eq_true]
    rw [ih, List.append_assoc]
    rfl

theorem sep_ne_dq {c : UInt8} (h : isSep c = true) : c ≠ dq := by
  intro hc
  subst hc
  revert h
  decide

theorem scan_seps0 (key : Bytes) : ∀ (s rest : Bytes), (∀ c ∈ s, isSep c = true) →
    scan key (.name []) (s ++ rest) = scan key (.name []) rest
  | [], _, _ => by simp
  | c :: s, rest, h => by
    have hc := h c (by simp)
    have ih := scan_seps0 key s rest (fun x hx => h x (by simp [hx]))
    simp only [List.cons_append, scan, sep_ne_dq hc, hc, if_false, if_true]
    exact ih

theorem scan_seps (key : Bytes) (s tok rest : Bytes) (h : SepRun s) :
    scan key (.name tok) (s ++ rest) = scan key (.name []) rest := by
  obtain ⟨hne, hall⟩ := h
  cases s with
  | nil => exact absurd rfl hne
  | cons c s =>
    have hc := hall c (by simp)
    simp only [List.cons_append, scan, sep_ne_dq hc, hc, if_false, if_true]
    exact scan_seps0 key s rest (fun x hx => hall x (by simp [hx]))

theorem scan_quoted (key : Bytes) (w : Bool) : ∀ (v acc rest : Bytes), NoQuote v →
    scan key (.quoted w acc) (v ++ dq :: rest)
      = if w then acc ++ v else scan key (.name []) rest
  | [], acc, rest, _ => by simp [scan]
  | c :: v, acc, rest, h => by
    have hc := h c (by simp)
    have ih := scan_quoted key w v (acc ++ [c]) rest (fun x hx => h x (by simp [hx]))
    simp only [List.cons_append, scan, hc, if_false]
    rw [ih, List.append_assoc]
    rfl

theorem eq_nameTok : NameTok [eq] := by
  intro c hc
  simp at hc
  subst hc
  decide

/-- One `name="value"` parameter, read from the start of a name. -/
theorem scan_param (key n v tok rest : Bytes) (hn : NameTok n) (hv : NoQuote v) :
    scan key (.name tok) (param n v ++ rest)
      = if tok ++ n ++ [eq] = key then v else scan key (.name []) rest := by
  have e : param n v ++ rest = n ++ ([eq] ++ (dq :: (v ++ dq :: rest))) := by
    simp [param, List.append_assoc]
  rw [e, scan_name key n tok _ hn, scan_name key [eq] (tok ++ n) _ eq_nameTok]
  simp only [scan, if_true]
  rw [scan_quoted key _ v [] rest hv]
  by_cases hk : tok ++ n ++ [eq] = key <;> simp

/-- **parse_challenge** — the scanner's specification on every well-formed challenge: for any
scheme token and any list of parameters, each preceded by a non-empty run of spaces/commas, with
names free of quotes/separators and values free of quotes, `parseQuotedParam` returns the value
of the FIRST parameter whose whole name equals the one asked for, and "" if there is none. -/
theorem scan_renderG (name : Bytes) : ∀ (ps : List (Bytes × Bytes × Bytes)) (tok : Bytes),
    (∀ p ∈ ps, SepRun p.1 ∧ NameTok p.2.1 ∧ NoQuote p.2.2) →
    scan (name ++ [eq]) (.name tok) (renderG ps) = lookup name (ps.map (·.2))
  | [], tok, _ => by simp [renderG, scan, lookup]
  | (s, n, v) :: ps, tok, h => by
    have hp := h (s, n, v) (by simp)
    have ih := scan_renderG name ps [] (fun p hp => h p (by simp [hp]))
    simp only [renderG, List.append_assoc, List.map_cons, lookup]
    rw [scan_seps _ s tok _ hp.1, scan_param _ n v [] _ hp.2.1 hp.2.2, ih]
    simp only [List.nil_append, List.append_cancel_right_eq]

theorem parse_challenge (scheme name : Bytes) (ps : List (Bytes × Bytes × Bytes))
    (hs : NameTok scheme) (hps : ∀ p ∈ ps, SepRun p.1 ∧ NameTok p.2.1 ∧ NoQuote p.2.2) :
    parseQuoted (scheme ++ renderG ps) name = lookup name (ps.map (·.2)) := by
  unfold parseQuoted
  rw [scan_name _ scheme [] _ hs]
  exact scan_renderG name ps _ hps

/-! ### The header `build` emits is such a challenge -/

/-- `params` with the separators `build` writes in front of each parameter. -/
def sepParams (url : Bytes) (m : Meta) : List (Bytes × Bytes × Bytes) :=
  [([sp], nResourceMetadata, url)]
    ++ (if m.clientId.isEmpty then [] else [([comma, sp], nClientId, m.clientId)])
    ++ (if m.useIdToken then [([comma, sp], nUseIdToken, litTrue)] else [])
    ++ (if m.clientSecret.isEmpty then [] else [([comma, sp], nClientSecret, m.clientSecret)])
    ++ (if m.dcClientId.isEmpty then [] else [([comma, sp], nDcClientId, m.dcClientId)])
    ++ (if m.dcClientSecret.isEmpty then [] else [([comma, sp], nDcClientSecret, m.dcClientSecret)])

theorem renderG_append : ∀ (a b : List (Bytes × Bytes × Bytes)),
    renderG (a ++ b) = renderG a ++ renderG b
  | [], b => by simp [renderG]
  | (s, n, v) :: a, b => by simp [renderG, renderG_append a b, List.append_assoc]

theorem build_eq_render (url : Bytes) (m : Meta) :
    build url m = bearer ++ renderG (sepParams url m) := by
  unfold build sepParams opt
  simp only [renderG_append, List.append_assoc]
  congr 1
  by_cases h1 : m.clientId.isEmpty <;> by_cases h2 : m.useIdToken <;>
    by_cases h3 : m.clientSecret.isEmpty <;> by_cases h4 : m.dcClientId.isEmpty <;>
    by_cases h5 : m.dcClientSecret.isEmpty <;>
    simp [h1, h2, h3, h4, h5, renderG, List.append_assoc]

theorem sepParams_map (url : Bytes) (m : Meta) : (sepParams url m).map (·.2) = params url m := by
  unfold sepParams params
  by_cases h1 : m.clientId.isEmpty <;> by_cases h2 : m.useIdToken <;>
    by_cases h3 : m.clientSecret.isEmpty <;> by_cases h4 : m.dcClientId.isEmpty <;>
    by_cases h5 : m.dcClientSecret.isEmpty <;>
    simp [h1, h2, h3, h4, h5]

end Vgi.Props.C28
