import Vgi.Model.RouteAuth
import Vgi.Proofs.RouteAuth
import Vgi.Generated.C22
/-!
# C22 — Every RPC and control route is behind the authenticator

Theorems about `Vgi.RouteAuth.serve` (the model the driver executes) instantiated with the fact
table regenerated from the source on every run (`Vgi.Generated.C22.table`).

* `generated_table_ok`, `generated_table_recognised` — decided on the regenerated table: every
  registered route is one of the exempt routes (by pattern) or its handler calls
  `h.authenticate(w, r)` first, returns on nil, and runs nothing but config nil-guards / pure reads
  before it; ServeHTTP calls handlers directly only in its OPTIONS branch; `authenticate` returns a
  non-nil context only as `Anonymous()` under `h.authenticateFunc == nil` or as the authenticator's
  own context after `if err != nil { …; return nil }`; every registrar, guard and pattern is one the
  model interprets.
* `reject_does_no_work` — for EVERY table with that property, every configuration (any prefix, any
  feature combination, any operator routes), every request and every way of refusing: a request that
  lands on a non-exempt route produces no event and is answered by the gate (or by a disabled-feature
  404 before it).
* `unauthenticated_reach_is_exempt`, `work_under_rejection_is_custom_or_session` — the converse
  shape: whatever gets past a refusing authenticator, or does any work, is a preflight, a mux-level
  404/405, or one of the exempt classes; work only on operator routes and the session-delete route.
* `rpc_unary_paths_gated`, `stream_init_paths_gated`, `continuation_paths_gated` — on the generated
  table, with no operator routes, `POST {prefix}/{m}`, `POST {prefix}/{m}/init`,
  `POST {prefix}/{m}/exchange` resolve to non-exempt (gated) routes for every prefix, every `m` and
  every feature combination: no exempt route shadows them.
-/
namespace Vgi.Props.C22
open Vgi.RouteAuth
open Vgi.Generated.C22 (table)

/-! ## facts decided on the regenerated table -/

theorem generated_table_ok : TableOK table := by decide

theorem generated_table_recognised : ∀ r ∈ table.routes, routeRecognised r = true := by decide

/-- non-vacuity: the table has gated and exempt routes, and a handler with a nil-guard before the
authenticate call -/
example : (table.routes.filter fun r => !(classify r.pattern).exempt).length ≥ 5 := by decide
example : (table.routes.filter fun r => (classify r.pattern).exempt).length ≥ 10 := by decide
example : (table.handlers.filter fun h => h.hasAuth && !h.preAuth.isEmpty).length ≥ 1 := by decide

/-- the gate facts are not vacuous: `authenticate` has four returns, two of them non-nil -/
example : table.gate.returns.length ≥ 3 ∧ (table.gate.returns.filter fun r => r.expr != "nil").length = 2 := by
  decide

/-- a gate that hands out `Anonymous()` inside its error branch is refused -/
example : ¬ TableOK { table with gate := { table.gate with returns :=
    { conds := ["err != nil"], expr := "Anonymous()" } :: table.gate.returns } } := by decide

/-- a table whose upload route handler has no authenticate call (the tree before the F22 repair) is
refused -/
example : ¬ TableOK { table with handlers := table.handlers.map fun h =>
    if h.name = "handleUploadURLInit" then { h with hasAuth := false, guarded := false } else h } := by
  decide

/-! ## membership lemmas for the matcher -/

theorem leaf_mem {α : Type} {cs : List (Cand α)} {t : PTail} {v : α} (h : leaf cs t = some v) :
    v ∈ cs.map (·.val) := by
  unfold leaf at h
  cases hf : cs.find? (fun c => c.segs.isEmpty && c.tail == t) with
  | none => simp [hf] at h
  | some c =>
    simp [hf] at h
    have := List.mem_of_find?_eq_some hf
    exact List.mem_map.mpr ⟨c, this, h⟩

theorem children_vals {α : Type} (cs : List (Cand α)) (seg : CSeg) :
    ∀ v, v ∈ (children cs seg).map (·.val) → v ∈ cs.map (·.val) := by
  intro v hv
  simp only [children, List.mem_map, List.mem_filterMap] at hv
  obtain ⟨c', ⟨c, hc, hcc⟩, rfl⟩ := hv
  refine List.mem_map.mpr ⟨c, hc, ?_⟩
  cases hs : c.segs with
  | nil => simp [hs] at hcc
  | cons h t =>
    simp only [hs] at hcc
    split at hcc
    · cases hcc; rfl
    · cases hcc

theorem matchPath_mem {α : Type} : ∀ (path : List String) (cs : List (Cand α)) (sl : Bool) (v : α),
    matchPath cs path sl = some v → v ∈ cs.map (·.val)
  | [], cs, false, v, h => by
    simp only [matchPath] at h; exact leaf_mem h
  | [], cs, true, v, h => by
    simp only [matchPath] at h
    split at h
    · rename_i w hw; cases h; exact leaf_mem hw
    · exact leaf_mem h
  | s :: rest, cs, sl, v, h => by
    simp only [matchPath] at h
    split at h
    · rename_i w hw
      cases h
      exact children_vals cs _ _ (matchPath_mem rest _ sl _ hw)
    · split at h
      · rename_i w hw
        cases h
        exact children_vals cs _ _ (matchPath_mem rest _ sl _ hw)
      · exact leaf_mem h

theorem candsFor_vals (rs : List Active) (v : Option String) :
    ∀ a, a ∈ (candsFor rs v).map (·.val) → a ∈ rs := by
  intro a ha
  simp only [candsFor, List.map_map, List.mem_map, List.mem_filter, Function.comp] at ha
  obtain ⟨b, ⟨hb, _⟩, rfl⟩ := ha
  exact hb

theorem resolveIn_mem {rs : List Active} {verb : String} {path : List String} {sl : Bool} {a : Active}
    (h : resolveIn rs verb path sl = some a) : a ∈ rs := by
  unfold resolveIn at h
  split at h
  · rename_i w hw; cases h
    exact candsFor_vals _ _ _ (matchPath_mem _ _ _ _ hw)
  · split at h
    · rename_i w hw; cases h
      split at hw
      · exact candsFor_vals _ _ _ (matchPath_mem _ _ _ _ hw)
      · cases hw
    · exact candsFor_vals _ _ _ (matchPath_mem _ _ _ _ h)

/-- A resolved route is a registration of the table (live for the configuration) or an operator
route. -/
theorem resolve_fact {T : Table} {cfg : Cfg} {req : Req} {a : Active} (h : resolve T cfg req = some a) :
    a.fact ∈ T.routes ∨ a.fact = operatorFact := by
  have hm := resolveIn_mem h
  simp only [activeRoutes, List.mem_append, List.mem_filterMap, List.mem_map] at hm
  rcases hm with ⟨r, hr, hact⟩ | ⟨p, _, rfl⟩
  · left
    unfold activate at hact
    split at hact
    · cases hact
    · split at hact
      · cases hact; exact hr
      · cases hact
  · right; rfl

/-! ## the gate -/

theorem runRoute_served (T : Table) (cfg : Cfg) (req : Req) (a : Active) :
    (runRoute T cfg req a).served = .route (classify a.fact.pattern) := by
  have hrun : ∀ (hf : HandlerFact) (c : RouteClass) (l : List StmtKind),
      (runHandler hf cfg req c l).served = .route c := by
    intro hf c l
    induction l with
    | nil =>
      simp only [runHandler]
      split <;> (try split) <;> (try split) <;> rfl
    | cons k rest ih =>
      cases k with
      | nilGuard f =>
        simp only [runHandler]
        split
        · exact ih
        · rfl
        · rfl
      | configRead f => simpa only [runHandler] using ih
      | pathValueRead => simpa only [runHandler] using ih
      | other => rfl
  unfold runRoute
  simp only []
  repeat' split
  all_goals first | rfl | exact hrun _ _ _

/-- A handler that authenticates first (facts: `hasAuth`, `guarded`, benign pre-auth statements)
does nothing when the authenticator refuses. -/
theorem runHandler_rejected (hf : HandlerFact) (hA : hf.hasAuth = true) (hG : hf.guarded = true)
    (cfg : Cfg) (req : Req) (c : RouteClass)
    (hauth : cfg.authenticator = true) (hrej : (outcome cfg req).isReject = true) :
    ∀ l : List StmtKind, l.all StmtKind.benign = true →
      (runHandler hf cfg req c l).events = [] ∧ (runHandler hf cfg req c l).unknown = false ∧
      ((runHandler hf cfg req c l).gate = .denied ∨ (runHandler hf cfg req c l).gate = .disabled) := by
  intro l
  induction l with
  | nil =>
    intro _
    have hnone : authenticate cfg req = none := by
      unfold authenticate
      simp only [hauth, if_true]
      cases ho : outcome cfg req with
      | accept p => simp [ho, Inner.isReject] at hrej
      | acceptAnon => simp [ho, Inner.isReject] at hrej
      | reject k => rfl
      | rejectCtx k p => rfl
      | nilNil => rfl
    simp [runHandler, hA, hG, hnone]
  | cons k rest ih =>
    intro hb
    simp only [List.all_cons, Bool.and_eq_true] at hb
    cases k with
    | nilGuard f =>
      have hf' : f = "introspect" ∨ f = "uploadURLProvider" := by
        have := hb.1
        simpa [StmtKind.benign] using this
      simp only [runHandler]
      rcases hf' with rfl | rfl
      · cases hi : cfg.introspect <;> simp [featureOn, hi]
        exact ih hb.2
      · cases hi : cfg.upload <;> simp [featureOn, hi]
        exact ih hb.2
    | configRead f => simpa only [runHandler] using ih hb.2
    | pathValueRead => simpa only [runHandler] using ih hb.2
    | other => simp [StmtKind.benign] at hb

/-- **The property.** Whatever table of registrations the source yields, as long as it passes
`TableOK` (decided for the current source by `generated_table_ok`): with an authenticator configured
that refuses this request (any `Reject` kind, or `(nil, nil)`; directly, behind the proof gate, or
behind the PKCE cookie chain), a request that the mux hands to a non-exempt route — unary,
`__describe__`, stream init, continuation, `__upload_url__/init`, token introspection, or any route
the model cannot classify — runs no handler, provider, resolver or state, and is answered by the
gate itself (or by the config nil-guard of a disabled feature). -/
theorem reject_does_no_work (T : Table) (hT : TableOK T) (cfg : Cfg) (req : Req)
    (hauth : cfg.authenticator = true) (hrej : (outcome cfg req).isReject = true)
    (c : RouteClass) (hs : (serve T cfg req).served = .route c) (hc : c.exempt = false) :
    (serve T cfg req).events = [] ∧ (serve T cfg req).unknown = false ∧
    ((serve T cfg req).gate = .denied ∨ (serve T cfg req).gate = .disabled) := by
  unfold serve at hs ⊢
  by_cases hv : req.verb = "OPTIONS"
  · simp [hv] at hs
  · simp only [hv, if_false] at hs ⊢
    cases hr : resolve T cfg req with
    | none => simp [hr] at hs
    | some a =>
      simp only [hr] at hs ⊢
      have hcls : classify a.fact.pattern = c := by
        have := runRoute_served T cfg req a
        rw [this] at hs
        cases hs; rfl
      have hex : (classify a.fact.pattern).exempt = false := by rw [hcls]; exact hc
      have hmem := resolve_fact hr
      have hok : routeOK T a.fact = true := by
        rcases hmem with h | h
        · exact hT.1 _ h
        · rw [h] at hex; simp [operatorFact, classify, RouteClass.exempt] at hex
      have haf : authFirst T a.fact = true := by
        simpa [routeOK, hex] using hok
      unfold authFirst at haf
      simp only [Bool.and_eq_true, decide_eq_true_eq] at haf
      obtain ⟨hw, hh⟩ := haf
      cases hfh : findHandler T a.fact.handler with
      | none => simp [hfh] at hh
      | some hf =>
        simp only [hfh, Bool.and_eq_true] at hh
        obtain ⟨⟨hA, hG⟩, hB⟩ := hh
        have := runHandler_rejected hf hA hG cfg req (classify a.fact.pattern) hauth hrej hf.preAuth hB
        unfold runRoute
        simp only [hex, hfh, hw]
        simpa using this

/-- non-vacuity of `reject_does_no_work` on the generated table, and the same request accepted does
work (so "no events" is not the model being inert): prefix /vgi, everything enabled. -/
def cfgAll : Cfg :=
  { pfx := ["vgi"], authenticator := true, proofGate := false, pkce := true, upload := true,
    introspect := true, sticky := true, describePage := true, landingPage := true,
    notFoundPage := true, custom := [{ verb := some "POST", segs := [.lit "custom"], tail := .exact }] }

def reqTo (verb : String) (path : List String) (body : Body) (inner : Inner) : Req :=
  { verb := verb, path := path, slash := false, ctArrow := true, body := body, inner := inner,
    proof := .absent, sess := .fresh }

example : serve table cfgAll (reqTo "POST" ["vgi", "u1"] .valid (.reject .rpcValue))
    = { gate := .denied, events := [], served := .route .rpcUnary } := by decide
example : serve table cfgAll (reqTo "POST" ["vgi", "u1"] .valid (.accept "alice"))
    = { gate := .passed, events := [.handler], served := .route .rpcUnary } := by decide
example : serve table cfgAll (reqTo "POST" ["vgi", "__upload_url__", "init"] (.count 7) .nilNil)
    = { gate := .denied, events := [], served := .route .uploadUrl } := by decide
example : serve table cfgAll (reqTo "POST" ["vgi", "__upload_url__", "init"] (.count 7) .acceptAnon)
    = { gate := .passed, events := [.provider 7], served := .route .uploadUrl } := by decide
example : serve table cfgAll (reqTo "POST" ["vgi", "__introspect_token__"] .valid (.reject .unavailable))
    = { gate := .denied, events := [], served := .route .introspect } := by decide
example : serve table cfgAll (reqTo "POST" ["vgi", "__introspect_token__"] .valid (.accept "introspector"))
    = { gate := .passed, events := [.resolver], served := .route .introspect } := by decide
example : serve table { cfgAll with introspect := false }
      (reqTo "POST" ["vgi", "__introspect_token__"] .valid (.reject .other))
    = { gate := .disabled, events := [], served := .route .introspect } := by decide
example : serve table cfgAll (reqTo "POST" ["vgi", "ex1", "exchange"] .valid (.reject .failure))
    = { gate := .denied, events := [], served := .route .continuation } := by decide
example : serve table cfgAll (reqTo "POST" ["vgi", "pr1", "init"] .valid .acceptAnon)
    = { gate := .passed, events := [.init, .state], served := .route .streamInit } := by decide
example : serve table { cfgAll with pkce := false } (reqTo "POST" ["vgi", "u1"] .valid (.rejectCtx .rpcValue "introspector"))
    = { gate := .denied, events := [], served := .route .rpcUnary } := by decide
-- exempt routes under a refusing authenticator
example : serve table cfgAll (reqTo "GET" ["health"] .empty (.reject .rpcValue))
    = { gate := .passed, events := [], served := .route .health } := by decide
example : serve table cfgAll (reqTo "DELETE" ["vgi", "__session__"] .empty (.reject .rpcValue))
    = { gate := .passed, events := [.stateClose], served := .route .sessionDelete } := by decide
example : serve table cfgAll (reqTo "POST" ["custom"] .empty (.reject .rpcValue))
    = { gate := .passed, events := [.custom], served := .route .custom } := by decide
example : serve table cfgAll (reqTo "GET" ["vgi", "describe"] .empty (.reject .rpcValue))
    = { gate := .denied, events := [], served := .route .page } := by decide
example : serve table cfgAll (reqTo "OPTIONS" ["vgi", "u1"] .empty (.reject .rpcValue))
    = { gate := .passed, events := [], served := .preflight } := by decide
example : serve table cfgAll (reqTo "PUT" ["vgi", "u1"] .empty (.reject .rpcValue))
    = { gate := .passed, events := [], served := .route .page } := by decide
example : serve table { cfgAll with notFoundPage := false } (reqTo "PUT" ["vgi", "u1"] .empty .nilNil)
    = { gate := .passed, events := [], served := .noRoute } := by decide

/-- **The exempt set.** With a refusing authenticator, anything that gets past the gate or does any
work was a CORS preflight, a request the mux itself answered (404/405), or one of the exempt route
classes: health, OAuth metadata, OAuth login routes, HTML pages, operator routes, session delete. -/
theorem unauthenticated_reach_is_exempt (T : Table) (hT : TableOK T) (cfg : Cfg) (req : Req)
    (hauth : cfg.authenticator = true) (hrej : (outcome cfg req).isReject = true)
    (h : (serve T cfg req).gate = .passed ∨ (serve T cfg req).events ≠ []) :
    (serve T cfg req).served = .preflight ∨ (serve T cfg req).served = .noRoute ∨
    ∃ c, (serve T cfg req).served = .route c ∧
      c ∈ [RouteClass.health, .wellKnown, .oauthLogin, .page, .custom, .sessionDelete] := by
  cases hs : (serve T cfg req).served with
  | preflight => exact Or.inl rfl
  | noRoute => exact Or.inr (Or.inl rfl)
  | route c =>
    right; right
    refine ⟨c, rfl, ?_⟩
    cases hc : c.exempt with
    | true => cases c <;> simp_all [RouteClass.exempt]
    | false =>
      obtain ⟨he, _, hg⟩ := reject_does_no_work T hT cfg req hauth hrej c hs hc
      rcases h with h | h
      · rcases hg with hg | hg <;> rw [hg] at h <;> cases h
      · exact absurd he h

/-- Work under a refusing authenticator happens only on operator routes and on the idempotent
session-delete route (which may close the caller's own anonymous session). -/
theorem work_under_rejection_is_custom_or_session (T : Table) (hT : TableOK T) (cfg : Cfg) (req : Req)
    (hauth : cfg.authenticator = true) (hrej : (outcome cfg req).isReject = true)
    (h : (serve T cfg req).events ≠ []) :
    (serve T cfg req).served = .route .custom ∨ (serve T cfg req).served = .route .sessionDelete := by
  rcases unauthenticated_reach_is_exempt T hT cfg req hauth hrej (Or.inr h) with hp | hn | ⟨c, hc, hmem⟩
  · unfold serve at hp h
    by_cases hv : req.verb = "OPTIONS"
    · simp [hv] at h
    · simp only [hv, if_false] at hp h
      cases hr : resolve T cfg req with
      | none => simp [hr] at h
      | some a => simp [hr, runRoute_served] at hp
  · unfold serve at hn h
    by_cases hv : req.verb = "OPTIONS"
    · simp [hv] at h
    · simp only [hv, if_false] at hn h
      cases hr : resolve T cfg req with
      | none => simp [hr] at h
      | some a => simp [hr, runRoute_served] at hn
  · -- an exempt class: only custom / sessionDelete produce events
    unfold serve at hc h ⊢
    by_cases hv : req.verb = "OPTIONS"
    · simp [hv] at h
    · simp only [hv, if_false] at hc h ⊢
      cases hr : resolve T cfg req with
      | none => simp [hr] at h
      | some a =>
        simp only [hr] at hc h ⊢
        have hcls : classify a.fact.pattern = c := by
          rw [runRoute_served] at hc; cases hc; rfl
        rw [runRoute_served, hcls]
        have hex : c.exempt = true := by
          simp only [List.mem_cons, List.mem_nil_iff, or_false] at hmem
          rcases hmem with rfl | rfl | rfl | rfl | rfl | rfl <;> rfl
        unfold runRoute at h
        simp only [hcls, hex, if_true] at h
        simp only [List.mem_cons, List.mem_nil_iff, or_false] at hmem
        rcases hmem with rfl | rfl | rfl | rfl | rfl | rfl
        all_goals first
          | (left; rfl)
          | (right; rfl)
          | (exfalso
             apply h
             repeat' split
             all_goals simp_all [workOf])

/-! ## the RPC paths are not shadowed by an exempt route (generated table, any prefix) -/

def isPostFact (r : RouteFact) : Bool :=
  match r.pattern with
  | .pat (some "POST") _ _ => true
  | _ => false

def tokenProxyPattern : PatFact := .pat (some "POST") [.pfx, .lit "_oauth", .lit "token"] .exact

/-- decided on the regenerated table: the only exempt POST registration is the OAuth token proxy -/
theorem post_registrations : ∀ r ∈ table.routes, isPostFact r = true →
    (classify r.pattern).exempt = false ∨ r.pattern = tokenProxyPattern := by decide

theorem activate_some {cfg : Cfg} {r : RouteFact} {a : Active} (h : activate cfg r = some a) :
    a.fact = r ∧ ∃ v segs tail, r.pattern = .pat v segs tail ∧
      a.pat = { verb := v, segs := instSegs cfg.pfx segs, tail := tail } := by
  unfold activate at h
  split at h
  · cases h
  · rename_i v segs tail hp
    split at h
    · cases h; exact ⟨rfl, v, segs, tail, hp, rfl⟩
    · cases h

/-- With no operator routes: a POST whose path (below the prefix) is matched by some live POST
registration and is not `/_oauth/token` resolves to a gated (non-exempt) route. -/
theorem post_resolves_gated (cfg : Cfg) (hc : cfg.custom = []) (req : Req) (hv : req.verb = "POST")
    (xs : List String) (hp : req.path = cfg.pfx ++ xs) (hs : req.slash = false)
    (a0 : Active) (r0 : RouteFact) (hr0 : r0 ∈ table.routes) (ha0 : activate cfg r0 = some a0)
    (hv0 : a0.pat.verb = some "POST") (hm0 : segsMatch a0.pat.segs a0.pat.tail req.path false = true)
    (hno : segsMatch [.lit "_oauth", .lit "token"] .exact xs false = false) :
    ∃ a, resolve table cfg req = some a ∧ (classify a.fact.pattern).exempt = false := by
  have hrs : activeRoutes table cfg = table.routes.filterMap (activate cfg) := by
    simp [activeRoutes, hc]
  have ha0mem : a0 ∈ activeRoutes table cfg := by
    rw [hrs]; exact List.mem_filterMap.mpr ⟨r0, hr0, ha0⟩
  let c0 : Cand Active := { segs := a0.pat.segs, tail := a0.pat.tail, val := a0 }
  have hc0 : c0 ∈ candsFor (activeRoutes table cfg) (some "POST") := by
    simp only [candsFor, List.mem_map, List.mem_filter]
    exact ⟨a0, ⟨ha0mem, by simp [hv0]⟩, rfl⟩
  have htot := matchPath_total req.path _ false c0 hc0 hm0
  cases hmp : matchPath (candsFor (activeRoutes table cfg) (some "POST")) req.path false with
  | none => simp [hmp] at htot
  | some a =>
    refine ⟨a, ?_, ?_⟩
    · simp [resolve, resolveIn, hv, hs, hmp]
    · obtain ⟨c, hcm, hcv, hcs⟩ := matchPath_sound _ _ _ _ hmp
      simp only [candsFor, List.mem_map, List.mem_filter] at hcm
      obtain ⟨b, ⟨hb, hbv⟩, rfl⟩ := hcm
      simp only at hcv hcs
      subst hcv
      rw [hrs] at hb
      obtain ⟨r, hr, hact⟩ := List.mem_filterMap.mp hb
      obtain ⟨hfact, v, segs, tail, hpat, hbpat⟩ := activate_some hact
      have hvp : v = some "POST" := by
        have : b.pat.verb = some "POST" := by simpa using hbv
        rw [hbpat] at this; exact this
      have hpost : isPostFact r = true := by simp [isPostFact, hpat, hvp]
      rw [hfact]
      rcases post_registrations r hr hpost with h | h
      · exact h
      · exfalso
        rw [hpat, tokenProxyPattern] at h
        injection h with _ hsegs htail
        rw [hbpat] at hcs
        simp only [hsegs, htail, instSegs] at hcs
        rw [hp, segsMatch_prefix] at hcs
        rw [hno] at hcs
        cases hcs

/-- a registration made unconditionally by `initRoutes` is live in every configuration -/
theorem activate_unconditional (cfg : Cfg) {r : RouteFact} {v : Option String} {segs : List PSeg}
    {tail : PTail} (h1 : r.registrar = "initRoutes") (h2 : r.conds = [])
    (h3 : r.pattern = .pat v segs tail) :
    activate cfg r = some { pat := { verb := v, segs := instSegs cfg.pfx segs, tail := tail }, fact := r } := by
  simp [activate, h1, h2, h3, registrarRuns]

def unconditional (r : RouteFact) (p : PatFact) : Prop :=
  r.registrar = "initRoutes" ∧ r.conds = [] ∧ r.pattern = p

instance (r : RouteFact) (p : PatFact) : Decidable (unconditional r p) := by
  unfold unconditional; infer_instance

/-- decided on the regenerated table: the three RPC patterns are registered unconditionally
(whatever their handlers are called) -/
theorem rpc_patterns_registered :
    (∃ r ∈ table.routes, unconditional r (.pat (some "POST") [.pfx, .wild] .exact)) ∧
    (∃ r ∈ table.routes, unconditional r (.pat (some "POST") [.pfx, .wild, .lit "init"] .exact)) ∧
    (∃ r ∈ table.routes, unconditional r (.pat (some "POST") [.pfx, .wild, .lit "exchange"] .exact)) := by
  decide

/-- `POST {prefix}/{m}` — for every prefix, every `m`, every feature combination (no operator
routes) — resolves to a gated route (the unary route, or token introspection). -/
theorem rpc_unary_paths_gated (cfg : Cfg) (hc : cfg.custom = []) (m : String) (req : Req)
    (hv : req.verb = "POST") (hp : req.path = cfg.pfx ++ [m]) (hs : req.slash = false) :
    ∃ a, resolve table cfg req = some a ∧ (classify a.fact.pattern).exempt = false := by
  obtain ⟨r, hr, h1, h2, h3⟩ := rpc_patterns_registered.1
  refine post_resolves_gated cfg hc req hv [m] hp hs _ r hr (activate_unconditional cfg h1 h2 h3) rfl ?_
    (by simp [segsMatch])
  simp only [instSegs]
  rw [hp, segsMatch_prefix]
  simp [segsMatch]

/-- `POST {prefix}/{m}/init` resolves to a gated route (stream init, or `__upload_url__/init`). -/
theorem stream_init_paths_gated (cfg : Cfg) (hc : cfg.custom = []) (m : String) (req : Req)
    (hv : req.verb = "POST") (hp : req.path = cfg.pfx ++ [m, "init"]) (hs : req.slash = false) :
    ∃ a, resolve table cfg req = some a ∧ (classify a.fact.pattern).exempt = false := by
  obtain ⟨r, hr, h1, h2, h3⟩ := rpc_patterns_registered.2.1
  refine post_resolves_gated cfg hc req hv [m, "init"] hp hs _ r hr (activate_unconditional cfg h1 h2 h3) rfl ?_
    (by simp [segsMatch])
  simp only [instSegs]
  rw [hp, segsMatch_prefix]
  simp [segsMatch]

/-- `POST {prefix}/{m}/exchange` resolves to the gated continuation route. -/
theorem continuation_paths_gated (cfg : Cfg) (hc : cfg.custom = []) (m : String) (req : Req)
    (hv : req.verb = "POST") (hp : req.path = cfg.pfx ++ [m, "exchange"]) (hs : req.slash = false) :
    ∃ a, resolve table cfg req = some a ∧ (classify a.fact.pattern).exempt = false := by
  obtain ⟨r, hr, h1, h2, h3⟩ := rpc_patterns_registered.2.2
  refine post_resolves_gated cfg hc req hv [m, "exchange"] hp hs _ r hr (activate_unconditional cfg h1 h2 h3) rfl ?_
    (by simp [segsMatch])
  simp only [instSegs]
  rw [hp, segsMatch_prefix]
  simp [segsMatch]

/-- End to end on the current source: with a refusing authenticator and no operator routes, a POST
to `{prefix}/{m}`, `{prefix}/{m}/init` or `{prefix}/{m}/exchange` — any prefix, any `m` (so also
`__describe__`, `__upload_url__`, `__introspect_token__`), any feature combination, any body — runs
nothing and is answered by the gate (or the disabled-introspection 404). -/
theorem rpc_paths_refused_do_no_work (cfg : Cfg) (hc : cfg.custom = []) (m : String) (req : Req)
    (hv : req.verb = "POST") (hs : req.slash = false)
    (hp : req.path = cfg.pfx ++ [m] ∨ req.path = cfg.pfx ++ [m, "init"] ∨ req.path = cfg.pfx ++ [m, "exchange"])
    (hauth : cfg.authenticator = true) (hrej : (outcome cfg req).isReject = true) :
    (serve table cfg req).events = [] ∧
    ((serve table cfg req).gate = .denied ∨ (serve table cfg req).gate = .disabled) := by
  have hres : ∃ a, resolve table cfg req = some a ∧ (classify a.fact.pattern).exempt = false := by
    rcases hp with hp | hp | hp
    · exact rpc_unary_paths_gated cfg hc m req hv hp hs
    · exact stream_init_paths_gated cfg hc m req hv hp hs
    · exact continuation_paths_gated cfg hc m req hv hp hs
  obtain ⟨a, hra, hex⟩ := hres
  have hserved : (serve table cfg req).served = .route (classify a.fact.pattern) := by
    unfold serve
    have : ¬ req.verb = "OPTIONS" := by rw [hv]; decide
    simp only [this, if_false, hra]
    exact runRoute_served _ _ _ _
  have := reject_does_no_work table generated_table_ok cfg req hauth hrej _ hserved hex
  exact ⟨this.1, this.2.2⟩

/-- non-vacuity: a three-segment prefix, PKCE login routes live, a refused upload-URL request -/
example : (serve table { cfgAll with pfx := ["api", "v1", "x"], custom := [] }
    (reqTo "POST" ["api", "v1", "x", "__upload_url__", "init"] (.count 5) (.reject .rpcPermission))).gate
    = .denied := by decide


/-! ## authenticator chains -/

def declines : Inner → Bool
  | .reject .rpcValue => true
  | .rejectCtx .rpcValue _ => true
  | _ => false

/-- A chain lets a caller in only through a member that itself accepted, reached over members that
all declined with a ValueError — never past a member's hard failure (PermissionError, AuthFailure,
unavailable, other RpcErrors, plain errors), and never on the strength of a context that came with
an error. -/
theorem chain_accepts_only_past_declines : ∀ (ms : List Inner) (p : String), chainOutcome ms = .accept p →
    ∃ pre post, ms = pre ++ .accept p :: post ∧ ∀ m ∈ pre, declines m = true
  | [], p, h => by simp [chainOutcome] at h
  | m :: rest, p, h => by
    cases m with
    | accept q =>
      simp only [chainOutcome] at h
      cases h
      exact ⟨[], rest, rfl, by simp⟩
    | acceptAnon => simp [chainOutcome] at h
    | nilNil => simp [chainOutcome] at h
    | reject k =>
      cases k <;> simp only [chainOutcome] at h <;> try (cases h)
      obtain ⟨pre, post, hms, hpre⟩ := chain_accepts_only_past_declines rest p h
      exact ⟨.reject .rpcValue :: pre, post, by simp [hms], by
        intro m hm; simp only [List.mem_cons] at hm; rcases hm with rfl | hm
        · rfl
        · exact hpre m hm⟩
    | rejectCtx k q =>
      cases k <;> simp only [chainOutcome] at h <;> try (cases h)
      obtain ⟨pre, post, hms, hpre⟩ := chain_accepts_only_past_declines rest p h
      exact ⟨.rejectCtx .rpcValue q :: pre, post, by simp [hms], by
        intro m hm; simp only [List.mem_cons] at hm; rcases hm with rfl | hm
        · rfl
        · exact hpre m hm⟩

/-- a refusing chain is a refusal for `reject_does_no_work` (it never hands back a context) -/
theorem chain_outcome_never_carries_context (ms : List Inner) (k : Reject) (p : String) :
    chainOutcome ms ≠ .rejectCtx k p := by
  induction ms with
  | nil => simp [chainOutcome]
  | cons m rest ih =>
    cases m with
    | accept q => simp [chainOutcome]
    | acceptAnon => simp [chainOutcome]
    | nilNil => simp [chainOutcome]
    | reject k' => cases k' <;> simp [chainOutcome, ih]
    | rejectCtx k' q => cases k' <;> simp [chainOutcome, ih]

example : chainOutcome [.reject .rpcValue, .reject .other, .accept "alice"] = .reject .other := by decide
example : chainOutcome [.reject .rpcValue, .rejectCtx .rpcValue "x", .accept "alice"] = .accept "alice" := by decide
example : chainOutcome [.rejectCtx .failure "mallory", .accept "alice"] = .reject .failure := by decide
example : chainOutcome [.reject .rpcValue, .reject .rpcValue] = .reject .rpcValue := by decide

end Vgi.Props.C22
