import Vgi.Model.Ledger
/-!
# C41 — Every dispatch path releases all Arrow memory it allocates

Theorems about the ownership ledger `Vgi.Ledger` (a hand abstraction of where the dispatch paths
build and release tracked record batches): for EVERY script — any method kind, any number of turns,
any per-turn outcome (emit, no emit, any number of refused extra emits, error or panic before or
after emitting, finish, cancel), any cast outcome, any batch sizes — the run never releases
something it does not hold and ends with nothing outstanding, and nothing accumulates from one
stream turn to the next.
-/
namespace Vgi.Props.C41
open Vgi Vgi.Ledger

theorem run_append : ∀ (a b : List Ev) (l : Ledger),
    run l (a ++ b) = match run l a with
      | some (l', s) => (match run l' b with | some (l'', s') => some (l'', s ++ s') | none => none)
      | none => none
  | [], b, l => by
    simp only [List.nil_append, run]
    cases run l b with
    | none => rfl
    | some p => rfl
  | ev :: a, b, l => by
    cases ev with
    | acq r n => simp only [List.cons_append, run]; exact run_append a b _
    | rel r =>
      simp only [List.cons_append, run]
      cases release r l with
      | none => rfl
      | some l' => exact run_append a b l'
    | sample =>
      simp only [List.cons_append, run]
      rw [run_append a b l]
      cases run l a with
      | none => rfl
      | some p =>
        obtain ⟨l', s⟩ := p
        simp only []
        cases run l' b with
        | none => rfl
        | some q => rfl

theorem release_head (r : Res) (b : Nat) (l : Ledger) : release r ((r, b) :: l) = some l := by
  simp [release]

/-- acquire-then-release of the same resource is a no-op on the ledger, with no sample -/
theorem run_acq_rel (r : Res) (b : Nat) (l : Ledger) (rest : List Ev) :
    run l (.acq r b :: .rel r :: rest) = run l rest := by
  simp [run, release_head]

/-- the refused extra emits leave the ledger exactly as it was -/
theorem run_refused (i e : Nat) : ∀ (n j : Nat) (l : Ledger) (rest : List Ev),
    run l (refused i e j n ++ rest) = run l rest
  | 0, _, _, _ => rfl
  | n + 1, j, l, rest => by
    simp only [refused, List.cons_append]
    rw [run_acq_rel]
    exact run_refused i e n (j + 1) l rest

/-- after the handler's emits, releasing the collector's batch restores the ledger -/
theorem run_emits_held (i e n : Nat) (l : Ledger) (rest : List Ev) :
    run l (emitEvents i e n ++ (if n ≥ 1 then [Ev.rel (.emit i 0)] else []) ++ rest) = run l rest := by
  cases n with
  | zero => simp [emitEvents]
  | succ n =>
    simp only [emitEvents, List.cons_append, List.append_assoc]
    have h1 : n + 1 ≥ 1 := by omega
    simp only [h1, if_true, run]
    rw [run_refused]
    simp [run, release_head]

/-- no-emit turn (`emits = 0`): nothing to restore -/
theorem emitEvents_zero (i e : Nat) : emitEvents i e 0 = [] := rfl

def ownedBytes (c : CastOutcome) (ei : ExtIn) (both : Bool) (sz : Sizes) : Nat :=
  if c = .ok then sz.c + (if both && ei = .ok then sz.x else 0) else if ei = .ok then sz.x else 0

theorem outstanding_owned (c : CastOutcome) (ei : ExtIn) (both : Bool) (sz : Sizes) (i : Nat) (l : Ledger) :
    outstanding (ownedInput c ei both sz i ++ l) = outstanding l + ownedBytes c ei both sz := by
  cases c <;> cases ei <;> cases both <;> simp [ownedInput, ownedBytes, outstanding] <;> omega

/-- resolving and casting the input leaves exactly the owned replacement on top of the ledger -/
theorem run_pre (c : CastOutcome) (ei : ExtIn) (both : Bool) (sz : Sizes) (i : Nat) (l : Ledger) (rest : List Ev) :
    run l (preEvents c ei both sz i ++ rest) = run (ownedInput c ei both sz i ++ l) rest := by
  cases c <;> cases ei <;> cases both <;> simp [preEvents, ownedInput, run, release]

theorem run_post (c : CastOutcome) (ei : ExtIn) (both : Bool) (sz : Sizes) (i : Nat) (l : Ledger) (rest : List Ev) :
    run (ownedInput c ei both sz i ++ l) (postEvents c ei both i ++ rest) = run l rest := by
  cases c <;> cases ei <;> cases both <;> simp [postEvents, ownedInput, run, release]

/-- the turn never reaches its handler: cancel, external resolve error, cast error -/
def noHandler (k : Kind) (w : Wire) (t : Turn) : Prop :=
  t.end = .cancel ∨ t.extIn = .err ∨ castOf k w t.bad = .fail

instance (k : Kind) (w : Wire) (t : Turn) : Decidable (noHandler k w t) := by unfold noHandler; infer_instance

/-- **turn_balanced**: whatever a turn does — external input resolved or refused, cast or not, any
number of emits, error, panic, finish, cancel, cap refusal, unserializable state, broken pipe — its
events leave the ledger exactly as they found it, take at most one sample, and that sample sees only
this turn's own replacement input (cast batch, else resolved batch) on top of what was there. -/
theorem turn_balanced (k : Kind) (w : Wire) (sz : Sizes) (i : Nat) (t : Turn) (l : Ledger) (rest : List Ev) :
    run l ((turnEvents k w sz i t).1 ++ rest) =
      match run l rest with
      | some (l', s) =>
        if noHandler k w t then some (l', s)
        else some (l', (outstanding l + ownedBytes (castOf k w t.bad) t.extIn t.both sz) :: s)
      | none => none := by
  have passthrough : ∀ (v : Nat), noHandler k w t → (match run l rest with
      | some (l', s) => if noHandler k w t then some (l', s) else some (l', v :: s)
      | none => none) = run l rest := by
    intro v h
    cases run l rest with
    | none => rfl
    | some p => simp [h]
  unfold turnEvents
  by_cases hc : t.end = .cancel
  · simp only [hc, if_true, List.nil_append]
    exact (passthrough _ (Or.inl hc)).symm
  · simp only [hc, if_false]
    by_cases he : t.extIn = .err
    · simp only [he, if_true, List.nil_append]
      exact (passthrough _ (Or.inr (Or.inl he))).symm
    · simp only [he, if_false]
      cases hco : castOf k w t.bad with
      | fail =>
        simp only []
        have hnh : noHandler k w t := Or.inr (Or.inr hco)
        rw [passthrough _ hnh]
        by_cases hok : t.extIn = .ok
        · simp [hok, run, release]
        · simp [hok]
      | none =>
        have hn : ¬ noHandler k w t := by
          unfold noHandler; rw [hco]; simp [hc, he]
        -- every branch is  pre ++ sample :: emits ++ tail ++ post  with tail = held or []
        have key : ∀ tail : List Ev, (tail = (if t.emits ≥ 1 then [Ev.rel (.emit i 0)] else []) ∨ (tail = [] ∧ t.emits = 0)) →
            run l ((preEvents .none t.extIn t.both sz i ++ (Ev.sample :: emitEvents i sz.e t.emits) ++ tail ++
              postEvents .none t.extIn t.both i) ++ rest) =
              match run l rest with
              | some (l', s) => some (l', (outstanding l + ownedBytes .none t.extIn t.both sz) :: s)
              | none => none := by
          intro tail ht
          simp only [List.append_assoc]
          rw [run_pre]
          simp only [List.cons_append, run]
          have : run (ownedInput .none t.extIn t.both sz i ++ l) (emitEvents i sz.e t.emits ++ (tail ++ (postEvents .none t.extIn t.both i ++ rest))) =
              run l rest := by
            rcases ht with ht | ⟨ht, h0⟩
            · rw [ht, ← List.append_assoc, run_emits_held, run_post]
            · rw [ht, h0]; simp only [emitEvents, List.nil_append]; rw [run_post]
          rw [this, outstanding_owned]
          cases run l rest with
          | none => rfl
          | some p => rfl
        simp only [hn, if_false]
        split
        · simpa using key _ (Or.inl rfl)
        · split
          · simpa using key _ (Or.inl rfl)
          · split
            · simpa using key _ (Or.inl rfl)
            · split
              · rename_i h0
                have := key [] (Or.inr ⟨rfl, h0⟩)
                simpa using this
              · simpa using key _ (Or.inl rfl)
      | ok =>
        have hn : ¬ noHandler k w t := by
          unfold noHandler; rw [hco]; simp [hc, he]
        have key : ∀ tail : List Ev, (tail = (if t.emits ≥ 1 then [Ev.rel (.emit i 0)] else []) ∨ (tail = [] ∧ t.emits = 0)) →
            run l ((preEvents .ok t.extIn t.both sz i ++ (Ev.sample :: emitEvents i sz.e t.emits) ++ tail ++
              postEvents .ok t.extIn t.both i) ++ rest) =
              match run l rest with
              | some (l', s) => some (l', (outstanding l + ownedBytes .ok t.extIn t.both sz) :: s)
              | none => none := by
          intro tail ht
          simp only [List.append_assoc]
          rw [run_pre]
          simp only [List.cons_append, run]
          have : run (ownedInput .ok t.extIn t.both sz i ++ l) (emitEvents i sz.e t.emits ++ (tail ++ (postEvents .ok t.extIn t.both i ++ rest))) =
              run l rest := by
            rcases ht with ht | ⟨ht, h0⟩
            · rw [ht, ← List.append_assoc, run_emits_held, run_post]
            · rw [ht, h0]; simp only [emitEvents, List.nil_append]; rw [run_post]
          rw [this, outstanding_owned]
          cases run l rest with
          | none => rfl
          | some p => rfl
        simp only [hn, if_false]
        split
        · simpa using key _ (Or.inl rfl)
        · split
          · simpa using key _ (Or.inl rfl)
          · split
            · simpa using key _ (Or.inl rfl)
            · split
              · rename_i h0
                have := key [] (Or.inr ⟨rfl, h0⟩)
                simpa using this
              · simpa using key _ (Or.inl rfl)

/-- **stream_balanced**: a whole stream leaves the ledger as it found it, and every sample any of
its handlers takes is the starting level plus at most that turn's own replacement input (its cast
batch, or its externally resolved batch) — nothing accumulates across turns. -/
theorem stream_balanced (k : Kind) (w : Wire) (sz : Sizes) : ∀ (turns : List Turn) (i : Nat) (l : Ledger),
    ∃ s, run l (streamEvents k w sz i turns) = some (l, s) ∧
      ∀ x ∈ s, x = outstanding l ∨ x = outstanding l + sz.c ∨ x = outstanding l + sz.x ∨
        x = outstanding l + (sz.c + sz.x)
  | [], i, l => ⟨[], rfl, by simp⟩
  | t :: rest, i, l => by
    obtain ⟨s, hs, hb⟩ := stream_balanced k w sz rest (i + 1) l
    have hob : ∀ c ei b, outstanding l + ownedBytes c ei b sz = outstanding l ∨
        outstanding l + ownedBytes c ei b sz = outstanding l + sz.c ∨
        outstanding l + ownedBytes c ei b sz = outstanding l + sz.x ∨
        outstanding l + ownedBytes c ei b sz = outstanding l + (sz.c + sz.x) := by
      intro c ei b
      cases c <;> cases ei <;> cases b <;> simp [ownedBytes]
    simp only [streamEvents]
    cases hgo : (turnEvents k w sz i t).2 with
    | true =>
      simp only [if_true]
      rw [turn_balanced, hs]
      simp only []
      split
      · exact ⟨s, rfl, hb⟩
      · refine ⟨_, rfl, ?_⟩
        intro x hx
        simp only [List.mem_cons] at hx
        rcases hx with hx | hx
        · subst hx; exact hob _ _ _
        · exact hb x hx
    | false =>
      simp only [Bool.false_eq_true, if_false]
      have := turn_balanced k w sz i t l []
      simp only [List.append_nil, run] at this
      rw [this]
      split
      · exact ⟨[], rfl, by simp⟩
      · refine ⟨_, rfl, ?_⟩
        intro x hx
        simp only [List.mem_cons, List.not_mem_nil, or_false] at hx
        subst hx; exact hob _ _ _

/-- **balanced**: for every call script, the dispatch path never releases a batch it does not hold
and ends with no framework allocation outstanding; during a stream no handler ever sees more than
its own turn's cast batch outstanding. -/
theorem balanced (c : Call) :
    ∃ s, run [] (callEvents c) = some ([], s) ∧
      match c with
      | .unary _ _ => ∀ x ∈ s, x = 0
      | .unaryExt _ _ => ∀ x ∈ s, x = 0
      | .unaryIn _ sz => ∀ x ∈ s, x = sz.x
      | .stream _ _ sz _ => ∀ x ∈ s, x = 0 ∨ x = sz.c ∨ x = sz.x ∨ x = sz.c + sz.x
      | .castInput _ _ sz => ∀ x ∈ s, x = sz.e ∨ x = sz.c + sz.e := by
  cases c with
  | unary m sz =>
    cases m <;> simp [callEvents, run, release, outstanding]
  | unaryExt mode sz =>
    cases mode <;> simp [callEvents, run, release, outstanding]
  | unaryIn ok sz =>
    cases ok <;> simp [callEvents, run, release, outstanding]
  | stream k w sz turns =>
    obtain ⟨s, hs, hb⟩ := stream_balanced k w sz turns 0 []
    exact ⟨s, hs, by simpa [outstanding] using hb⟩
  | castInput w bad sz =>
    simp only [callEvents]
    cases castOf .xch w bad <;> simp [run, release, outstanding]

/-! ### Non-vacuity -/

def sz0 : Sizes := { r := 256, e := 128, c := 64 }

/-- an exchange with casts: emit, refused double emit, error after emit, and a turn that is never
reached -/
example : run [] (callEvents (.stream .xch .i32 sz0
    [⟨1, .ok, false, false, false, false, .none, false⟩, ⟨3, .ok, false, false, false, false, .none, false⟩, ⟨1, .err, false, false, false, false, .none, false⟩])) = some ([], [64, 64]) := by decide

example : run [] (callEvents (.stream .prod .i64 sz0
    [⟨1, .ok, false, false, false, false, .none, false⟩, ⟨0, .ok, false, false, false, false, .none, false⟩])) = some ([], [0, 0]) := by decide

/-- the ledger does notice a missing release: drop the collector's release and bytes stay -/
example : run [] [.sample, .acq (.emit 0 0) 128] = some ([(.emit 0 0, 128)], [0]) := by decide
example : run [] [.rel (.cast 0)] = none := by decide

/-- the pipe breaks while turn 1's output is written: the turn still releases everything, turn 2
never runs -/
example : run [] (callEvents (.stream .xch .i32 sz0
    [⟨1, .ok, false, false, false, false, .none, false⟩, ⟨1, .ok, false, true, false, false, .none, false⟩, ⟨1, .ok, false, false, false, false, .none, false⟩])) =
    some ([], [64, 64]) := by decide

/-- external cap: refused before the upload, and uploaded-then-refused -/
example : run [] (callEvents (.unaryExt .refusedPre sz0)) = some ([], [0]) := by decide
example : run [] (callEvents (.unaryExt .refusedPost sz0)) = some ([], [0]) := by decide

/-- external inputs on a pipe exchange: resolved and cast (the handler sees only the cast batch),
resolved without a cast (it sees the resolved batch), refused -/
example : run [] (callEvents (.stream .xch .i32 { sz0 with x := 192 }
    [⟨1, .ok, false, false, false, false, .ok, false⟩, ⟨1, .ok, false, false, false, false, .err, false⟩])) = some ([], [64]) := by decide
example : run [] (callEvents (.stream .xch .i64 { sz0 with x := 192 }
    [⟨1, .ok, false, false, false, false, .ok, false⟩, ⟨1, .err, false, false, false, false, .ok, false⟩])) = some ([], [192, 192]) := by decide
example : run [] (callEvents (.unaryIn true { sz0 with x := 192 })) = some ([], [192]) := by decide
/-- HTTP exchange: an input that is resolved AND cast keeps both replacements until the turn returns -/
example : run [] (callEvents (.stream .xch .i32 { sz0 with x := 192 }
    [⟨1, .ok, false, false, false, false, .ok, true⟩])) = some ([], [256]) := by decide
/-- the state stops being serializable after turn 1 (HTTP exchange): the emitted batch is released -/
example : run [] (callEvents (.stream .xch .i64 sz0
    [⟨1, .ok, false, false, false, false, .none, false⟩, ⟨1, .ok, false, false, false, true, .none, false⟩])) = some ([], [0, 0]) := by decide

/-- a two-column input whose second column fails the cast: nothing stays behind -/
example : run [] (callEvents (.castInput .two true sz0)) = some ([], [128]) := by decide
example : run [] (callEvents (.castInput .two false sz0)) = some ([], [192]) := by decide

end Vgi.Props.C41
