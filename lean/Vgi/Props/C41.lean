import Vgi.Model.Ledger
/-!
# C41 — Every dispatch path releases all Arrow memory it allocates

Theorems about the ownership ledger `Vgi.Ledger` (a hand abstraction of where the dispatch paths
build and release tracked record batches): for EVERY script — any method kind, any number of turns,
any per-turn outcome (emit, no emit, any number of refused extra emits, error or panic before or
after emitting, finish, cancel), any cast outcome, any batch sizes — the run never releases
something it does not hold and ends with nothing outstanding, and nothing accumulates from one
stream turn to the next.
-/
namespace Vgi.Props.C41
open Vgi Vgi.Ledger

theorem run_append : ∀ (a b : List Ev) (l : Ledger),
    run l (a ++ b) = match run l a with
      | some (l', s) => (match run l' b with | some (l'', s') => some (l'', s ++ s') | none => none)
      | none => none
  | [], b, l => by
    simp only [List.nil_append, run]
    cases run l b with
    | none => rfl
    | some p => rfl
  | ev :: a, b, l => by
    cases ev with
    | acq r n => simp only [List.cons_append, run]; exact run_append a b _
    | rel r =>
      simp only [List.cons_append, run]
      cases release r l with
      | none => rfl
      | some l' => exact run_append a b l'
    | sample =>
      simp only [List.cons_append, run]
      rw [run_append a b l]
      cases run l a with
      | none => rfl
      | some p =>
        obtain ⟨l', s⟩ := p
        simp only []
        cases run l' b with
        | none => rfl
        | some q => rfl

theorem release_head (r : Res) (b : Nat) (l : Ledger) : release r ((r, b) :: l) = some l := by
  simp [release]

/-- acquire-then-release of the same resource is a no-op on the ledger, with no sample -/
theorem run_acq_rel (r : Res) (b : Nat) (l : Ledger) (rest : List Ev) :
    run l (.acq r b :: .rel r :: rest) = run l rest := by
  simp [run, release_head]

/-- the refused extra emits leave the ledger exactly as it was -/
theorem run_refused (i e : Nat) : ∀ (n j : Nat) (l : Ledger) (rest : List Ev),
    run l (refused i e j n ++ rest) = run l rest
  | 0, _, _, _ => rfl
  | n + 1, j, l, rest => by
    simp only [refused, List.cons_append]
    rw [run_acq_rel]
    exact run_refused i e n (j + 1) l rest

/-- after the handler's emits, releasing the collector's batch restores the ledger -/
theorem run_emits_held (i e n : Nat) (l : Ledger) (rest : List Ev) :
    run l (emitEvents i e n ++ (if n ≥ 1 then [Ev.rel (.emit i 0)] else []) ++ rest) = run l rest := by
  cases n with
  | zero => simp [emitEvents]
  | succ n =>
    simp only [emitEvents, List.cons_append, List.append_assoc]
    have h1 : n + 1 ≥ 1 := by omega
    simp only [h1, if_true, run]
    rw [run_refused]
    simp [run, release_head]

/-- no-emit turn (`emits = 0`): nothing to restore -/
theorem emitEvents_zero (i e : Nat) : emitEvents i e 0 = [] := rfl

/-- **turn_balanced**: whatever a turn does — cast or not, any number of emits, error, panic,
finish, cancel — its events leave the ledger exactly as they found it, take at most one sample,
and that sample sees only this turn's cast batch on top of what was there before. -/
theorem turn_balanced (k : Kind) (w : Wire) (sz : Sizes) (i : Nat) (t : Turn) (l : Ledger) (rest : List Ev) :
    run l ((turnEvents k w sz i t).1 ++ rest) =
      match run l rest with
      | some (l', s) =>
        if t.end = .cancel ∨ castOf k w t.bad = .fail then some (l', s)
        else some (l', (outstanding l + (if castOf k w t.bad = .ok then sz.c else 0)) :: s)
      | none => none := by
  unfold turnEvents
  by_cases hc : t.end = .cancel
  · simp only [hc, if_true, List.nil_append, true_or]
    cases run l rest with
    | none => rfl
    | some p => rfl
  · simp only [hc, if_false, false_or]
    cases hco : castOf k w t.bad with
    | fail =>
      simp only [List.nil_append, if_true]
      cases run l rest with
      | none => rfl
      | some p => rfl
    | none =>
      simp only [reduceCtorEq, if_false, List.nil_append, List.append_nil]
      -- all four branches have the shape  sample :: emits ++ held? ++ rest
      have key : ∀ tail : List Ev, (tail = (if t.emits ≥ 1 then [Ev.rel (.emit i 0)] else []) ∨ (tail = [] ∧ t.emits = 0)) →
          run l ((Ev.sample :: emitEvents i sz.e t.emits ++ tail) ++ rest) =
            match run l rest with
            | some (l', s) => some (l', (outstanding l + 0) :: s)
            | none => none := by
        intro tail ht
        simp only [List.cons_append, run]
        have : run l (emitEvents i sz.e t.emits ++ tail ++ rest) = run l rest := by
          rcases ht with ht | ⟨ht, h0⟩
          · rw [ht]; exact run_emits_held i sz.e t.emits l rest
          · rw [ht, h0]; simp [emitEvents]
        rw [this]
        cases run l rest with
        | none => rfl
        | some p => simp
      split
      · exact key _ (Or.inl rfl)
      · split
        · exact key _ (Or.inl rfl)
        · split
          · exact key _ (Or.inl rfl)
          · split
            · rename_i h0
              have := key [] (Or.inr ⟨rfl, h0⟩)
              simpa using this
            · exact key _ (Or.inl rfl)
    | ok =>
      simp only [if_true]
      have key : ∀ tail : List Ev, (tail = (if t.emits ≥ 1 then [Ev.rel (.emit i 0)] else []) ∨ (tail = [] ∧ t.emits = 0)) →
          run l (([Ev.acq (.cast i) sz.c] ++ (Ev.sample :: emitEvents i sz.e t.emits) ++ tail ++ [Ev.rel (.cast i)]) ++ rest) =
            match run l rest with
            | some (l', s) => some (l', (outstanding l + sz.c) :: s)
            | none => none := by
        intro tail ht
        simp only [List.cons_append, List.nil_append, List.append_assoc, run]
        have : run ((Res.cast i, sz.c) :: l) (emitEvents i sz.e t.emits ++ (tail ++ (Ev.rel (.cast i) :: rest))) =
            run l rest := by
          rcases ht with ht | ⟨ht, h0⟩
          · rw [ht, ← List.append_assoc, run_emits_held]
            simp [run, release_head]
          · rw [ht, h0]; simp [emitEvents, run, release_head]
        rw [this]
        cases run l rest with
        | none => rfl
        | some p => simp [outstanding]; omega
      split
      · exact key _ (Or.inl rfl)
      · split
        · exact key _ (Or.inl rfl)
        · split
          · exact key _ (Or.inl rfl)
          · split
            · rename_i h0
              have := key [] (Or.inr ⟨rfl, h0⟩)
              simpa using this
            · exact key _ (Or.inl rfl)

/-- **stream_balanced**: a whole stream leaves the ledger as it found it, and every sample any of
its handlers takes is the starting level plus at most that turn's own cast batch — nothing
accumulates across turns. -/
theorem stream_balanced (k : Kind) (w : Wire) (sz : Sizes) : ∀ (turns : List Turn) (i : Nat) (l : Ledger),
    ∃ s, run l (streamEvents k w sz i turns) = some (l, s) ∧
      ∀ x ∈ s, x = outstanding l ∨ x = outstanding l + sz.c
  | [], i, l => ⟨[], rfl, by simp⟩
  | t :: rest, i, l => by
    obtain ⟨s, hs, hb⟩ := stream_balanced k w sz rest (i + 1) l
    simp only [streamEvents]
    cases hgo : (turnEvents k w sz i t).2 with
    | true =>
      simp only [if_true]
      rw [turn_balanced, hs]
      simp only []
      split
      · exact ⟨s, rfl, hb⟩
      · refine ⟨_, rfl, ?_⟩
        intro x hx
        simp at hx
        rcases hx with hx | hx
        · subst hx; split <;> simp
        · exact hb x hx
    | false =>
      simp only [Bool.false_eq_true, if_false]
      have := turn_balanced k w sz i t l []
      simp only [List.append_nil, run] at this
      rw [this]
      split
      · exact ⟨[], rfl, by simp⟩
      · refine ⟨_, rfl, ?_⟩
        intro x hx
        simp at hx
        subst hx; split <;> simp

/-- **balanced**: for every call script, the dispatch path never releases a batch it does not hold
and ends with no framework allocation outstanding; during a stream no handler ever sees more than
its own turn's cast batch outstanding. -/
theorem balanced (c : Call) :
    ∃ s, run [] (callEvents c) = some ([], s) ∧
      match c with
      | .unary _ _ => ∀ x ∈ s, x = 0
      | .unaryExt _ _ => ∀ x ∈ s, x = 0
      | .stream _ _ sz _ => ∀ x ∈ s, x = 0 ∨ x = sz.c
      | .castInput _ _ sz => ∀ x ∈ s, x = sz.e ∨ x = sz.c + sz.e := by
  cases c with
  | unary m sz =>
    cases m <;> simp [callEvents, run, release, outstanding]
  | unaryExt mode sz =>
    cases mode <;> simp [callEvents, run, release, outstanding]
  | stream k w sz turns =>
    obtain ⟨s, hs, hb⟩ := stream_balanced k w sz turns 0 []
    exact ⟨s, hs, by simpa [outstanding] using hb⟩
  | castInput w bad sz =>
    simp only [callEvents]
    cases castOf .xch w bad <;> simp [run, release, outstanding]

/-! ### Non-vacuity -/

def sz0 : Sizes := { r := 256, e := 128, c := 64 }

/-- an exchange with casts: emit, refused double emit, error after emit, and a turn that is never
reached -/
example : run [] (callEvents (.stream .xch .i32 sz0
    [⟨1, .ok, false, false, false⟩, ⟨3, .ok, false, false, false⟩, ⟨1, .err, false, false, false⟩])) = some ([], [64, 64]) := by decide

example : run [] (callEvents (.stream .prod .i64 sz0
    [⟨1, .ok, false, false, false⟩, ⟨0, .ok, false, false, false⟩])) = some ([], [0, 0]) := by decide

/-- the ledger does notice a missing release: drop the collector's release and bytes stay -/
example : run [] [.sample, .acq (.emit 0 0) 128] = some ([(.emit 0 0, 128)], [0]) := by decide
example : run [] [.rel (.cast 0)] = none := by decide

/-- the pipe breaks while turn 1's output is written: the turn still releases everything, turn 2
never runs -/
example : run [] (callEvents (.stream .xch .i32 sz0
    [⟨1, .ok, false, false, false⟩, ⟨1, .ok, false, true, false⟩, ⟨1, .ok, false, false, false⟩])) =
    some ([], [64, 64]) := by decide

/-- external cap: refused before the upload, and uploaded-then-refused -/
example : run [] (callEvents (.unaryExt .refusedPre sz0)) = some ([], [0]) := by decide
example : run [] (callEvents (.unaryExt .refusedPost sz0)) = some ([], [0]) := by decide

/-- a two-column input whose second column fails the cast: nothing stays behind -/
example : run [] (callEvents (.castInput .two true sz0)) = some ([], [128]) := by decide
example : run [] (callEvents (.castInput .two false sz0)) = some ([], [192]) := by decide

end Vgi.Props.C41
