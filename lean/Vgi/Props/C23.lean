import Vgi.Model.Auth
/-!
# C23 — authenticator failures map to the right status and chains stop correctly

Theorems about `Vgi.Auth` (the model `Vgi.Drive.C23` executes: `HttpServer.authenticate`,
`classifyAuthError`/`asAuthFailure`/`writeUnauthorized`, `ChainAuthenticate`).

The specification side is stated with inductive predicates that do not mention the search code:
`HasU`/`FirstU` (an AuthUnavailableError anywhere in the error tree / the depth-first-first one),
`InUnwrapChain` (an AuthFailure on the single-`Unwrap` chain), `Rejection`, `Declines`.

* `status_503`, `status_503_iff`, `retry_after_positive` — unavailability anywhere ⇒ 503 with its Retry-After;
* `status_401`, `status_401_iff`, `reason_of_failure`, `reason_of_rpc`, `reason_closed_set` — otherwise a
  rejection ⇒ 401, reason from the closed set, `no-store`, the configured WWW-Authenticate;
* `status_500`, `status_500_iff` — anything else ⇒ 500;
* `chain_first_success`, `chain_stops`, `error_wins`, `chain_exhausted`, `chain_cases`, `chain_unavailable_503`,
  `chain_exhausted_401`, `chain_success_passes` — the chain clause, for chains of any length.
-/
namespace Vgi.Props.C23
open Vgi Vgi.Auth

/-! ## Specification side: what "in the error chain" means, independently of the search code -/

mutual
/-- an `AuthUnavailableError` with this RetryAfter occurs somewhere in the error tree
(what `errors.As` can reach: through `Unwrap() error` and `Unwrap() []error`) -/
inductive HasU : AErr → Int → Prop
  | here (n : Int) : HasU (.unavailable n) n
  | wrap {e : AErr} {n : Int} : HasU e n → HasU (.wrap e) n
  | join {es : List AErr} {n : Int} : HasUL es n → HasU (.join es) n
inductive HasUL : List AErr → Int → Prop
  | head {e : AErr} {es : List AErr} {n : Int} : HasU e n → HasUL (e :: es) n
  | tail {e : AErr} {es : List AErr} {n : Int} : HasUL es n → HasUL (e :: es) n
end

mutual
/-- … and it is the first one in depth-first, left-to-right order -/
inductive FirstU : AErr → Int → Prop
  | here (n : Int) : FirstU (.unavailable n) n
  | wrap {e : AErr} {n : Int} : FirstU e n → FirstU (.wrap e) n
  | join {es : List AErr} {n : Int} : FirstUL es n → FirstU (.join es) n
inductive FirstUL : List AErr → Int → Prop
  | head {e : AErr} {es : List AErr} {n : Int} : FirstU e n → FirstUL (e :: es) n
  | tail {e : AErr} {es : List AErr} {n : Int} : (∀ m, ¬ HasU e m) → FirstUL es n → FirstUL (e :: es) n
end

/-- an `AuthFailure` in the (single) `Unwrap` chain of the error -/
inductive InUnwrapChain : AErr → Bytes → Bytes → Prop
  | here (r d : Bytes) : InUnwrapChain (.authFailure r d) r d
  | wrap {e : AErr} {r d : Bytes} : InUnwrapChain e r d → InUnwrapChain (.wrap e) r d

/-- a rejection: an AuthFailure in the Unwrap chain, or an RpcError of type ValueError or
PermissionError returned directly -/
def Rejection (e : AErr) : Prop :=
  (∃ r d, InUnwrapChain e r d) ∨ (∃ m, e = .rpc tyValueError m) ∨ (∃ m, e = .rpc tyPermissionError m)

/-! ## The searches compute exactly these -/

mutual
theorem firstUnavailable_sound : ∀ (e : AErr) (n : Int), firstUnavailable e = some n → FirstU e n
  | .unavailable m, n, h => by simp [firstUnavailable] at h; subst h; exact .here _
  | .wrap e, n, h => by simp [firstUnavailable] at h; exact .wrap (firstUnavailable_sound e n h)
  | .join es, n, h => by simp [firstUnavailable] at h; exact .join (firstUnavailableL_sound es n h)
  | .authFailure _ _, n, h => by simp [firstUnavailable] at h
  | .rpc _ _, n, h => by simp [firstUnavailable] at h
  | .other, n, h => by simp [firstUnavailable] at h
theorem firstUnavailableL_sound : ∀ (es : List AErr) (n : Int), firstUnavailableL es = some n → FirstUL es n
  | [], n, h => by simp [firstUnavailableL] at h
  | e :: es, n, h => by
    simp only [firstUnavailableL] at h
    split at h
    · rename_i m hm; cases h; exact .head (firstUnavailable_sound e _ hm)
    · rename_i hnone
      exact .tail (fun m hm => by
        have := firstUnavailable_complete e m hm
        rw [hnone] at this; simp at this) (firstUnavailableL_sound es n h)
theorem firstUnavailable_complete : ∀ (e : AErr) (n : Int), HasU e n → (firstUnavailable e).isSome = true
  | .unavailable m, n, _ => by simp [firstUnavailable]
  | .wrap e, n, h => by
    cases h with | wrap h' => simp only [firstUnavailable]; exact firstUnavailable_complete e n h'
  | .join es, n, h => by
    cases h with | join h' => simp only [firstUnavailable]; exact firstUnavailableL_complete es n h'
  | .authFailure _ _, n, h => by cases h
  | .rpc _ _, n, h => by cases h
  | .other, n, h => by cases h
theorem firstUnavailableL_complete : ∀ (es : List AErr) (n : Int), HasUL es n → (firstUnavailableL es).isSome = true
  | [], n, h => by cases h
  | e :: es, n, h => by
    simp only [firstUnavailableL]
    cases h with
    | head h' =>
      have := firstUnavailable_complete e n h'
      cases hf : firstUnavailable e with
      | none => rw [hf] at this; simp at this
      | some m => simp
    | tail h' =>
      cases hf : firstUnavailable e with
      | none => simp only; exact firstUnavailableL_complete es n h'
      | some m => simp
end

mutual
theorem FirstU.hasU : ∀ {e : AErr} {n : Int}, FirstU e n → HasU e n
  | _, _, .here n => .here n
  | _, _, .wrap h => .wrap h.hasU
  | _, _, .join h => .join h.hasUL
theorem FirstUL.hasUL : ∀ {es : List AErr} {n : Int}, FirstUL es n → HasUL es n
  | _, _, .head h => .head h.hasU
  | _, _, .tail _ h => .tail h.hasUL
end


mutual
theorem firstUnavailable_of_first : ∀ (e : AErr) (n : Int), FirstU e n → firstUnavailable e = some n
  | .unavailable m, n, h => by cases h; simp [firstUnavailable]
  | .wrap e, n, h => by
    cases h with | wrap h' => simp only [firstUnavailable]; exact firstUnavailable_of_first e n h'
  | .join es, n, h => by
    cases h with | join h' => simp only [firstUnavailable]; exact firstUnavailableL_of_first es n h'
  | .authFailure _ _, n, h => by cases h
  | .rpc _ _, n, h => by cases h
  | .other, n, h => by cases h
theorem firstUnavailableL_of_first : ∀ (es : List AErr) (n : Int), FirstUL es n → firstUnavailableL es = some n
  | [], n, h => by cases h
  | e :: es, n, h => by
    simp only [firstUnavailableL]
    cases h with
    | head h' => rw [firstUnavailable_of_first e n h']
    | tail hno h' =>
      cases hf : firstUnavailable e with
      | none => simp only; exact firstUnavailableL_of_first es n h'
      | some m => exact absurd (firstUnavailable_sound e m hf).hasU (hno m)
end

/-- `errors.As` finds exactly the depth-first-first `AuthUnavailableError` of the tree. -/
theorem firstUnavailable_iff (e : AErr) (n : Int) : firstUnavailable e = some n ↔ FirstU e n :=
  ⟨firstUnavailable_sound e n, firstUnavailable_of_first e n⟩

theorem firstUnavailable_none_iff (e : AErr) : firstUnavailable e = none ↔ ¬ ∃ n, HasU e n := by
  constructor
  · rintro h ⟨n, hn⟩
    have := firstUnavailable_complete e n hn
    rw [h] at this; simp at this
  · intro h
    cases hf : firstUnavailable e with
    | none => rfl
    | some m => exact absurd ⟨m, (firstUnavailable_sound e m hf).hasU⟩ h

theorem asAuthFailure_iff : ∀ (e : AErr) (r d : Bytes), asAuthFailure e = some (r, d) ↔ InUnwrapChain e r d
  | .authFailure r' d', r, d => by
    simp only [asAuthFailure, Option.some.injEq, Prod.mk.injEq]
    constructor
    · rintro ⟨rfl, rfl⟩; exact .here _ _
    · intro h; cases h; exact ⟨rfl, rfl⟩
  | .wrap e, r, d => by
    have ih := asAuthFailure_iff e r d
    simp only [asAuthFailure]
    constructor
    · intro h; exact .wrap (ih.1 h)
    · intro h; cases h with | wrap h' => exact ih.2 h'
  | .unavailable n, r, d => by simp only [asAuthFailure]; constructor <;> intro h <;> cases h
  | .rpc t m, r, d => by simp only [asAuthFailure]; constructor <;> intro h <;> cases h
  | .other, r, d => by simp only [asAuthFailure]; constructor <;> intro h <;> cases h
  | .join es, r, d => by simp only [asAuthFailure]; constructor <;> intro h <;> cases h

theorem rejection_iff (e : AErr) : ((asAuthFailure e).isSome || directRejection e) = true ↔ Rejection e := by
  unfold Rejection
  constructor
  · intro h
    simp only [Bool.or_eq_true] at h
    rcases h with h | h
    · cases hf : asAuthFailure e with
      | none => rw [hf] at h; simp at h
      | some p => exact .inl ⟨p.1, p.2, (asAuthFailure_iff e p.1 p.2).1 hf⟩
    · cases e with
      | rpc ty m =>
        simp only [directRejection, Bool.or_eq_true, beq_iff_eq] at h
        rcases h with h | h
        · exact .inr (.inl ⟨m, by rw [h]⟩)
        · exact .inr (.inr ⟨m, by rw [h]⟩)
      | _ => simp [directRejection] at h
  · rintro (⟨r, d, h⟩ | ⟨m, rfl⟩ | ⟨m, rfl⟩)
    · rw [(asAuthFailure_iff e r d).2 h]; rfl
    · simp [directRejection]
    · simp [directRejection]

/-! ## C23, first sentence: the status mapping of `HttpServer.authenticate` -/

/-- **status_503**: an `AuthUnavailableError` anywhere in the error tree ⇒ 503 carrying the
Retry-After of the first one found (`RetryAfter` if positive, else the default 5), and nothing of
the 401 shape. Conversely 503 is answered only then. -/
theorem status_503 (www : Bytes) (e : AErr) (n : Int) (h : FirstU e n) :
    respond www e = { status := 503, retryAfter := some (if n > 0 then n else 5) } := by
  unfold respond
  rw [(firstUnavailable_iff e n).2 h]
  rfl

theorem status_503_iff (www : Bytes) (e : AErr) : (respond www e).status = 503 ↔ ∃ n, HasU e n := by
  unfold respond
  cases hf : firstUnavailable e with
  | some m => simp only [true_iff]; exact ⟨m, (firstUnavailable_sound e m hf).hasU⟩
  | none =>
    have := (firstUnavailable_none_iff e).1 hf
    simp only
    split <;> simp [this]

/-- **status_401**: no unavailability and a rejection ⇒ 401 with the reason of `classify`,
`Cache-Control: no-store`, and the configured WWW-Authenticate (absent iff none is configured). -/
theorem status_401 (www : Bytes) (e : AErr) (hno : ¬ ∃ n, HasU e n) (hrej : Rejection e) :
    respond www e = { status := 401, reason := some (classify e), cacheControl := some noStore,
                      wwwAuth := if www = [] then none else some www } := by
  unfold respond
  rw [(firstUnavailable_none_iff e).2 hno]
  simp only [(rejection_iff e).2 hrej, if_true]

/-- **status_500**: anything else ⇒ a bare 500. -/
theorem status_500 (www : Bytes) (e : AErr) (hno : ¬ ∃ n, HasU e n) (hrej : ¬ Rejection e) :
    respond www e = { status := 500 } := by
  unfold respond
  rw [(firstUnavailable_none_iff e).2 hno]
  have : ¬ ((asAuthFailure e).isSome || directRejection e) = true := fun h => hrej ((rejection_iff e).1 h)
  simp only [this]
  rfl

/-- the three cases are exhaustive and exclusive: the status alone tells which one applied -/
theorem status_401_iff (www : Bytes) (e : AErr) :
    (respond www e).status = 401 ↔ (¬ ∃ n, HasU e n) ∧ Rejection e := by
  constructor
  · intro h
    by_cases hu : ∃ n, HasU e n
    · rw [(status_503_iff www e).2 hu] at h; cases h
    · by_cases hr : Rejection e
      · exact ⟨hu, hr⟩
      · rw [status_500 www e hu hr] at h; cases h
  · rintro ⟨hu, hr⟩; rw [status_401 www e hu hr]

theorem status_500_iff (www : Bytes) (e : AErr) :
    (respond www e).status = 500 ↔ (¬ ∃ n, HasU e n) ∧ ¬ Rejection e := by
  constructor
  · intro h
    by_cases hu : ∃ n, HasU e n
    · rw [(status_503_iff www e).2 hu] at h; cases h
    · by_cases hr : Rejection e
      · rw [status_401 www e hu hr] at h; cases h
      · exact ⟨hu, hr⟩
  · rintro ⟨hu, hr⟩; rw [status_500 www e hu hr]

/-- Retry-After is always a positive number of seconds. -/
theorem retry_after_positive (www : Bytes) (e : AErr) (k : Int) (h : (respond www e).retryAfter = some k) : k > 0 := by
  unfold respond at h
  cases hf : firstUnavailable e with
  | some m =>
    rw [hf] at h
    simp only [retryAfterSeconds, defaultRetryAfter, Option.some.injEq] at h
    split at h <;> omega
  | none =>
    rw [hf] at h
    simp only at h
    split at h <;> cases h

/-! ### The reason code -/

/-- reason of an AuthFailure in the Unwrap chain: its own, `unauthorized` when empty -/
theorem reason_of_failure (e : AErr) (r d : Bytes) (h : InUnwrapChain e r d) :
    classify e = if r = [] then reasonUnauthorized else r := by
  unfold classify
  rw [(asAuthFailure_iff e r d).2 h]

/-- a directly returned PermissionError maps to `insufficient_scope`, a ValueError to `unauthorized` -/
theorem reason_of_rpc (m : Bytes) :
    classify (.rpc tyPermissionError m) = reasonInsufficientScope ∧
    classify (.rpc tyValueError m) = reasonUnauthorized := by
  constructor
  · simp [classify, asAuthFailure]
  · have : tyValueError ≠ tyPermissionError := by decide
    simp [classify, asAuthFailure, this]

/-- **reason_closed_set**: whenever the authenticator's AuthFailure (if any) uses one of the six
`AuthReason` constants or leaves the reason empty, the code on the wire is one of the six. -/
theorem reason_closed_set (www : Bytes) (e : AErr) (h401 : (respond www e).status = 401)
    (hconst : ∀ r d, InUnwrapChain e r d → r = [] ∨ r ∈ closedReasons) :
    ∃ r ∈ closedReasons, (respond www e).reason = some r := by
  obtain ⟨hu, hr⟩ := (status_401_iff www e).1 h401
  rw [status_401 www e hu hr]
  refine ⟨classify e, ?_, rfl⟩
  rcases hr with ⟨r, d, hin⟩ | ⟨m, rfl⟩ | ⟨m, rfl⟩
  · rw [reason_of_failure e r d hin]
    rcases hconst r d hin with h | h
    · simp [h, closedReasons]
    · have : r ≠ [] := by
        intro h0; rw [h0] at h; revert h; decide
      simp [this, h]
  · rw [(reason_of_rpc m).2]; simp [closedReasons]
  · rw [(reason_of_rpc m).1]; simp [closedReasons]


/-! ## C23, second sentence: `ChainAuthenticate` -/

/-- the outcome the chain skips: the error component is a directly returned `*RpcError` of type
ValueError (whether or not a context came with it) -/
def Declines (o : Outcome) : Prop := ∃ m, o.errOf = some (.rpc tyValueError m)

theorem declines_step (i : Nat) (o : Outcome) (rest : List Outcome) (h : Declines o) :
    chainFrom i (o :: rest) = ((chainFrom (i + 1) rest).1, (chainFrom (i + 1) rest).2 + 1) := by
  obtain ⟨m, hm⟩ := h
  simp [chainFrom, hm, firstUnavailable, isDirectValueError]

theorem not_declines_stops (i : Nat) (o : Outcome) (e : AErr) (rest : List Outcome)
    (ho : o.errOf = some e) (h : ¬ Declines o) :
    chainFrom i (o :: rest) = (.errAt i e, 1) := by
  unfold chainFrom
  simp only [ho]
  split
  · rfl
  · split
    · rename_i hve
      exfalso
      apply h
      cases e with
      | rpc ty m =>
        simp only [isDirectValueError, beq_iff_eq] at hve
        exact ⟨m, by rw [ho, hve]⟩
      | _ => simp [isDirectValueError] at hve
    · rfl

theorem chainFrom_prefix (pre : List Outcome) : ∀ (i : Nat) (rest : List Outcome), (∀ o ∈ pre, Declines o) →
    chainFrom i (pre ++ rest) = ((chainFrom (i + pre.length) rest).1, (chainFrom (i + pre.length) rest).2 + pre.length) := by
  induction pre with
  | nil => intro i rest _; simp
  | cons o pre ih =>
    intro i rest h
    have ho := h o (by simp)
    have hp : ∀ o' ∈ pre, Declines o' := fun o' ho' => h o' (by simp [ho'])
    rw [List.cons_append, declines_step i o _ ho, ih (i + 1) rest hp]
    simp only [List.length_cons]
    have : i + 1 + pre.length = i + (pre.length + 1) := by omega
    rw [this]
    simp only [Prod.mk.injEq, true_and]
    omega

/-- **chain_first_success**: the chain returns the first success, having called exactly the
authenticators up to and including it, provided every earlier one declined with a direct ValueError. -/
theorem chain_first_success (pre post : List Outcome) (h : ∀ o ∈ pre, Declines o) :
    chain (pre ++ .ok :: post) = (.okAt pre.length, pre.length + 1) := by
  unfold chain
  rw [chainFrom_prefix pre 0 _ h]
  simp [chainFrom, Outcome.errOf]
  omega

/-- **chain_stops**: it stops at the first error that is not a directly returned ValueError —
an `AuthUnavailableError` (wrapped to any depth), a PermissionError, a *wrapped* ValueError, an
AuthFailure, anything — returns that very error, and calls nobody after it. -/
theorem chain_stops (pre post : List Outcome) (o : Outcome) (e : AErr) (h : ∀ o ∈ pre, Declines o)
    (ho : o.errOf = some e) (he : ¬ Declines o) :
    chain (pre ++ o :: post) = (.errAt pre.length e, pre.length + 1) := by
  unfold chain
  rw [chainFrom_prefix pre 0 _ h, not_declines_stops _ o e post ho he]
  simp
  omega

/-- **error_wins**: a link that hands back a context TOGETHER with an error is treated exactly
like one that returns the error alone — the context can never turn an error into a success. -/
theorem error_wins (pre post : List Outcome) (e : AErr) :
    chain (pre ++ .ctxErr e :: post) = chain (pre ++ .err e :: post) := by
  unfold chain
  generalize 0 = i
  induction pre generalizing i with
  | nil => simp [chainFrom, Outcome.errOf]
  | cons o pre ih =>
    simp only [List.cons_append, chainFrom]
    cases o.errOf with
    | none => rfl
    | some e' => simp only [ih (i + 1)]

/-- **chain_exhausted**: only when every authenticator declined does it give its own ValueError,
after calling all of them. -/
theorem chain_exhausted (os : List Outcome) (h : ∀ o ∈ os, Declines o) :
    chain os = (.exhausted, os.length) := by
  unfold chain
  have := chainFrom_prefix os 0 [] h
  rw [List.append_nil] at this
  rw [this]
  simp [chainFrom]

/-- the three shapes cover every list of outcomes -/
theorem chain_cases (os : List Outcome) :
    (∀ o ∈ os, Declines o) ∨
    (∃ pre post, os = pre ++ .ok :: post ∧ ∀ o ∈ pre, Declines o) ∨
    (∃ pre o e post, os = pre ++ o :: post ∧ (∀ o ∈ pre, Declines o) ∧ o.errOf = some e ∧ ¬ Declines o) := by
  induction os with
  | nil => exact .inl (by simp)
  | cons o os ih =>
    by_cases hd : Declines o
    · rcases ih with h | ⟨pre, post, rfl, h⟩ | ⟨pre, o', e', post, rfl, h, ho, he⟩
      · exact .inl (by intro x hx; simp at hx; rcases hx with rfl | hx; exact hd; exact h x hx)
      · exact .inr (.inl ⟨o :: pre, post, rfl, by
          intro x hx; simp at hx; rcases hx with rfl | hx; exact hd; exact h x hx⟩)
      · exact .inr (.inr ⟨o :: pre, o', e', post, rfl, by
          intro x hx; simp at hx; rcases hx with rfl | hx; exact hd; exact h x hx, ho, he⟩)
    · cases o with
      | ok => exact .inr (.inl ⟨[], os, rfl, by simp⟩)
      | err e => exact .inr (.inr ⟨[], .err e, e, os, rfl, by simp, rfl, hd⟩)
      | ctxErr e => exact .inr (.inr ⟨[], .ctxErr e, e, os, rfl, by simp, rfl, hd⟩)

/-- an unavailable authenticator is never read as "declined": anything with an
`AuthUnavailableError` in its tree stops the chain -/
theorem unavailable_not_declines (o : Outcome) (e : AErr) (n : Int) (ho : o.errOf = some e) (h : HasU e n) :
    ¬ Declines o := by
  rintro ⟨m, hm⟩
  rw [ho] at hm
  injection hm with hm
  subst hm
  cases h

/-- **chain_unavailable_503**: unavailability anywhere inside the first non-declining outcome
surfaces as a 503 with its Retry-After, never as the 401 from the end of the chain. -/
theorem chain_unavailable_503 (www : Bytes) (pre post : List Outcome) (o : Outcome) (e : AErr) (n : Int)
    (h : ∀ o ∈ pre, Declines o) (ho : o.errOf = some e) (hu : FirstU e n) :
    serveChain www (pre ++ o :: post) =
      some { status := 503, retryAfter := some (if n > 0 then n else 5) } := by
  unfold serveChain
  rw [chain_stops pre post o e h ho (unavailable_not_declines o e n ho hu.hasU)]
  simp only [chainError, Option.map_some]
  rw [status_503 www e n hu]

/-- when every authenticator declined the caller gets the standard 401 `unauthorized` -/
theorem chain_exhausted_401 (www : Bytes) (os : List Outcome) (h : ∀ o ∈ os, Declines o) :
    serveChain www os = some { status := 401, reason := some reasonUnauthorized, cacheControl := some noStore,
                               wwwAuth := if www = [] then none else some www } := by
  unfold serveChain
  rw [chain_exhausted os h]
  simp only [chainError, Option.map_some]
  rw [status_401 www _ (by rintro ⟨n, hn⟩; cases hn) (.inr (.inl ⟨_, rfl⟩)), (reason_of_rpc _).2]

/-- a success lets the request through (no authentication response at all) -/
theorem chain_success_passes (www : Bytes) (pre post : List Outcome) (h : ∀ o ∈ pre, Declines o) :
    serveChain www (pre ++ .ok :: post) = none := by
  unfold serveChain
  rw [chain_first_success pre post h]
  rfl

/-! ## Non-vacuity -/

def exVE : AErr := .rpc tyValueError [109]
def exDeep : AErr := .wrap (.join [.other, .wrap (.join [.authFailure reasonExpiredCredential [], .unavailable 0]), .unavailable 30])
def exWWW : Bytes := [66, 101, 97, 114, 101, 114]

/-- unavailability buried under a wrap, two joins and next to an AuthFailure: 503, default Retry-After
(the first one found has RetryAfter 0), although an AuthFailure and a later RetryAfter 30 are present -/
example : FirstU exDeep 0 :=
  .wrap (.join (.tail (fun m h => by cases h) (.head (.wrap (.join (.tail (fun m h => by cases h) (.head (.here 0))))))))
example : respond exWWW exDeep = { status := 503, retryAfter := some 5 } := by decide
/-- an AuthFailure below a *join* is not in the Unwrap chain: 500, while below wraps it is a 401 -/
example : respond exWWW (.join [.authFailure reasonExpiredCredential []]) = { status := 500 } := by decide
example : respond exWWW (.wrap (.wrap (.authFailure reasonExpiredCredential []))) =
    { status := 401, reason := some reasonExpiredCredential, cacheControl := some noStore, wwwAuth := some exWWW } := by decide
example : respond [] (.authFailure [] []) =
    { status := 401, reason := some reasonUnauthorized, cacheControl := some noStore, wwwAuth := none } := by decide
/-- a *wrapped* ValueError is neither a rejection (500) nor skipped by the chain -/
example : respond exWWW (.wrap exVE) = { status := 500 } := by decide
example : Rejection (.wrap (.wrap (.authFailure reasonProxyRequired [1]))) := .inl ⟨_, _, .wrap (.wrap (.here _ _))⟩
example : ¬ Declines (.err (.wrap exVE)) := by rintro ⟨m, h⟩; cases h
/-- a context handed back together with a wrapped unavailability / a PermissionError does not make
the link a success; together with a direct ValueError the chain still moves on -/
example : serveChain exWWW [.err exVE, .ctxErr (.wrap (.unavailable 7)), .ok] = some { status := 503, retryAfter := some 7 } := by decide
example : serveChain exWWW [.ctxErr (.rpc tyPermissionError []), .ok] =
    some { status := 401, reason := some reasonInsufficientScope, cacheControl := some noStore, wwwAuth := some exWWW } := by decide
example : (chain [.ctxErr exVE, .ok]).2 = 2 ∧ serveChain exWWW [.ctxErr exVE, .ok] = none := by decide
/-- depth is unbounded: an AuthFailure under 100 wraps is still a rejection -/
def wraps : Nat → AErr → AErr
  | 0, e => e
  | n + 1, e => .wrap (wraps n e)
theorem wraps_inChain (n : Nat) (r d : Bytes) : InUnwrapChain (wraps n (.authFailure r d)) r d := by
  induction n with
  | zero => exact .here _ _
  | succ n ih => exact .wrap ih
theorem wraps_hasU (n : Nat) (k : Int) : FirstU (wraps n (.unavailable k)) k := by
  induction n with
  | zero => exact .here _
  | succ n ih => exact .wrap ih
example : (respond exWWW (wraps 100 (.authFailure reasonExpiredCredential []))).status = 401 := by
  rw [status_401_iff]
  refine ⟨?_, .inl ⟨_, _, wraps_inChain 100 _ _⟩⟩
  rw [← firstUnavailable_none_iff]
  decide
example : Declines (.err exVE) := ⟨_, rfl⟩
example : (chain [.err exVE, .err exVE, .ok, .err .other]).2 = 3 := by decide
example : (chain [.err exVE, .err (.wrap (.unavailable 9)), .ok]).2 = 2 := by decide
example : serveChain exWWW [.err exVE, .err (.wrap (.unavailable 9)), .ok] = some { status := 503, retryAfter := some 9 } := by decide
example : serveChain exWWW [.err exVE, .err (.rpc tyPermissionError []), .ok] =
    some { status := 401, reason := some reasonInsufficientScope, cacheControl := some noStore, wwwAuth := some exWWW } := by decide
example : serveChain [] [.err exVE, .err exVE] =
    some { status := 401, reason := some reasonUnauthorized, cacheControl := some noStore, wwwAuth := none } := by decide

end Vgi.Props.C23
