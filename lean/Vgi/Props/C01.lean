import Vgi.Model.Wire
import Vgi.Generated.C01
/-!
# C01 — Wire helpers are mutually inverse for every request and result

Theorems about `Vgi.Wire` (model of `ReadRequest`, `WriteRequest`, `FindStreamTokens`,
`FindProtocolVersion`, `ReadUnaryResult`, `WriteUnaryResult`, `writeStateTokenBatch`).
Quantifiers are unbounded: every method name (any bytes), every parameter batch (any schema, row
count, cell content), every protocol-version string, every concatenation of streams, every body.
-/
namespace Vgi.Props.C01
open Vgi Vgi.Wire

/-! ## The key constants are the ones in the source (`metadata.go`, regenerated on every run) -/

theorem keys_match_source :
    kMethod = Generated.C01.metaMethod ∧ kRequestVersion = Generated.C01.metaRequestVersion ∧
    kRequestId = Generated.C01.metaRequestID ∧ kLogLevel = Generated.C01.metaLogLevel ∧
    kStreamState = Generated.C01.metaStreamState ∧ kCallState = Generated.C01.metaCallState ∧
    kCancel = Generated.C01.metaCancel ∧ kShmOffset = Generated.C01.metaShmOffset ∧
    kLocation = Generated.C01.metaLocation ∧ kProtocolVersion = Generated.C01.metaProtocolVersion ∧
    protocolVersion = Generated.C01.protocolVersion ∧ levelException = Generated.C01.logException := by
  decide

/-! ## Request framing: `ReadRequest ∘ WriteRequest` -/

theorem get_requestMeta_method (m pv : Bytes) : (requestMeta m pv).get kMethod = some m := by
  simp [requestMeta, Meta.get]

theorem get_requestMeta_version (m pv : Bytes) :
    (requestMeta m pv).get kRequestVersion = some protocolVersion := by
  have h : kMethod ≠ kRequestVersion := by decide
  simp [requestMeta, Meta.get, h]

theorem get_requestMeta_absent (m pv k : Bytes) (h1 : k ≠ kMethod) (h2 : k ≠ kRequestVersion)
    (h3 : k ≠ kProtocolVersion) : (requestMeta m pv).get k = none := by
  unfold requestMeta
  by_cases hp : pv ≠ []
  · simp [Meta.get, hp, Ne.symm h1, Ne.symm h2, Ne.symm h3]
  · simp [Meta.get, hp, Ne.symm h1, Ne.symm h2]

/-- What was stamped is what the request's metadata map holds under the protocol-version key
(absent when `WriteRequest` was given ""). -/
theorem getLast_requestMeta_pv (m pv : Bytes) :
    (requestMeta m pv).getLast kProtocolVersion = if pv = [] then none else some pv := by
  have h1 : kMethod ≠ kProtocolVersion := by decide
  have h2 : kRequestVersion ≠ kProtocolVersion := by decide
  unfold requestMeta Meta.getLast
  by_cases hp : pv = []
  · simp [Meta.get, hp, h1, h2]
  · simp [Meta.get, hp, h1, h2]

/-- **read_write_request.** Framing any method name (valid UTF-8, possibly empty or multi-byte),
any parameter batch (one row, or any row count under the empty schema) and any protocol version
and reading it back yields the same method, request version "1", the same schema and the same
cell values, no request id / log level, and the stamped protocol version in the metadata map. -/
theorem read_write_request (m pv : Bytes) (p : Params)
    (hm : validUtf8 m = true) (hr : p.rows = 1 ∨ p.schema = []) :
    ∃ req, readRequestStream (writeRequest m p pv) = .ok req ∧
      req.method = m ∧ req.version = protocolVersion ∧ req.schema = p.schema ∧
      req.batch.rows = p.rows ∧ req.batch.cells = p.cells ∧
      req.requestId = [] ∧ req.logLevel = [] ∧
      req.metaMap kProtocolVersion = (if pv = [] then none else some pv) := by
  have hloc : (requestMeta m pv).get kLocation = none :=
    get_requestMeta_absent m pv _ (by decide) (by decide) (by decide)
  have hid : (requestMeta m pv).get kRequestId = none :=
    get_requestMeta_absent m pv _ (by decide) (by decide) (by decide)
  have hll : (requestMeta m pv).get kLogLevel = none :=
    get_requestMeta_absent m pv _ (by decide) (by decide) (by decide)
  refine ⟨{ method := m, version := protocolVersion, requestId := [], logLevel := [],
            schema := p.schema,
            batch := { rows := p.rows, md := requestMeta m pv, cells := p.cells } }, ?_, rfl, rfl,
          rfl, rfl, rfl, rfl, rfl, ?_⟩
  · simp only [readRequestStream, writeRequest, get_requestMeta_method, get_requestMeta_version,
      hm, hloc, hid, hll, Bool.not_true, Bool.false_eq_true, if_false, ne_eq, not_true_eq_false,
      Option.isSome_none, Option.getD_none, Bool.not_false, Bool.and_true]
    rcases hr with h | h <;> simp [h]
  · simp only [Request.metaMap]
    exact getLast_requestMeta_pv m pv

/-- The body-level statement: whatever follows the request stream in the body is not looked at. -/
theorem read_write_request_body (m pv : Bytes) (p : Params) (rest : List Stream) (junk : Bool) :
    readRequest ⟨writeRequest m p pv :: rest, junk⟩ = readRequestStream (writeRequest m p pv) := rfl

/-- A method name that is not valid UTF-8 is rejected with the typed ProtocolError. -/
theorem read_write_request_bad_utf8 (m pv : Bytes) (p : Params) (hm : validUtf8 m = false) :
    readRequestStream (writeRequest m p pv) = .error (.rpc .protocolError) := by
  simp [readRequestStream, writeRequest, get_requestMeta_method, hm]

/-- A parameter batch with columns and a row count other than 1 is rejected with the typed
ProtocolError (`WriteRequest` adds neither pointer key, so no exemption applies). -/
theorem read_write_request_bad_rows (m pv : Bytes) (p : Params) (hm : validUtf8 m = true)
    (hs : p.schema ≠ []) (hr : p.rows ≠ 1) :
    readRequestStream (writeRequest m p pv) = .error (.rpc .protocolError) := by
  have hloc : (requestMeta m pv).get kLocation = none :=
    get_requestMeta_absent m pv _ (by decide) (by decide) (by decide)
  have hshm : (requestMeta m pv).get kShmOffset = none :=
    get_requestMeta_absent m pv _ (by decide) (by decide) (by decide)
  have hlen : p.schema.length > 0 := List.length_pos_iff.mpr hs
  simp [readRequestStream, writeRequest, get_requestMeta_method, get_requestMeta_version, hm,
    hloc, hshm, isShmPointer, hlen, hr]

/-- **findPv_write.** The protocol-version finder recovers exactly what `WriteRequest` stamped
("" when nothing was stamped), whatever follows in the body. -/
theorem findPv_write (m pv : Bytes) (p : Params) (rest : List Stream) (junk : Bool) :
    findProtocolVersion ⟨writeRequest m p pv :: rest, junk⟩ = pv := by
  have h1 : kMethod ≠ kProtocolVersion := by decide
  have h2 : kRequestVersion ≠ kProtocolVersion := by decide
  by_cases hp : pv = []
  · simp [findProtocolVersion, writeRequest, findPvBatches, requestMeta, Meta.get, nonEmpty?, hp, h1, h2]
  · simp [findProtocolVersion, writeRequest, findPvBatches, requestMeta, Meta.get, nonEmpty?, hp, h1, h2]

/-- A framed request carries no stream tokens. -/
theorem findTokens_write (m pv : Bytes) (p : Params) :
    findStreamTokens ⟨[writeRequest m p pv], false⟩ = (none, none) := by
  have h1 : (requestMeta m pv).get kStreamState = none :=
    get_requestMeta_absent m pv _ (by decide) (by decide) (by decide)
  have h2 : (requestMeta m pv).get kCallState = none :=
    get_requestMeta_absent m pv _ (by decide) (by decide) (by decide)
  simp [findStreamTokens, findTokensFrom, scanStream, scanBatches, writeRequest, h1, h2, nonEmpty?]

/-! ## `ReadRequest` rejects malformed input with a typed error, in a fixed order -/

/-- Every outcome of `ReadRequest` is one of: a request, `io.EOF`, a wrapped transport error, a
typed `ProtocolError`, a typed `VersionError`. (The model has no other outcome by construction;
absence of Go panics is observed by the harness, not proved.) -/
theorem readRequest_typed (b : Body) :
    (∃ req, readRequest b = .ok req) ∨ readRequest b = .error .eof ∨
    readRequest b = .error .transport ∨ readRequest b = .error (.rpc .protocolError) ∨
    readRequest b = .error (.rpc .versionError) := by
  cases h : readRequest b with
  | ok req => exact .inl ⟨req, rfl⟩
  | error e =>
    cases e with
    | eof => exact .inr (.inl rfl)
    | transport => exact .inr (.inr (.inl rfl))
    | rpc ty => cases ty <;> simp

/-- Empty or unopenable input is a transport error (never a bare EOF, never a request). -/
theorem readRequest_no_stream (junk : Bool) : readRequest ⟨[], junk⟩ = .error .transport := rfl

/-- A stream without any batch: clean ⇒ `io.EOF`, broken ⇒ transport error. -/
theorem readRequest_no_batch (sch : Schema) (broken : Bool) (rest : List Stream) (junk : Bool) :
    readRequest ⟨⟨sch, [], broken⟩ :: rest, junk⟩ = .error (if broken then .transport else .eof) := by
  cases broken <;> rfl

/-- Missing method key ⇒ ProtocolError, whatever else the batch carries. -/
theorem readRequest_missing_method (sch : Schema) (b : Batch) (bs : List Batch) (br : Bool)
    (h : b.md.get kMethod = none) :
    readRequestStream ⟨sch, b :: bs, br⟩ = .error (.rpc .protocolError) := by
  simp [readRequestStream, h]

/-- Method present and valid but request version missing or different from "1" ⇒ VersionError
(checked before the row count). -/
theorem readRequest_bad_version (sch : Schema) (b : Batch) (bs : List Batch) (br : Bool) (m : Bytes)
    (hm : b.md.get kMethod = some m) (hu : validUtf8 m = true)
    (hv : b.md.get kRequestVersion ≠ some protocolVersion) :
    readRequestStream ⟨sch, b :: bs, br⟩ = .error (.rpc .versionError) := by
  cases hver : b.md.get kRequestVersion with
  | none => simp [readRequestStream, hm, hu, hver]
  | some v =>
    have hne : v ≠ protocolVersion := by
      intro h; apply hv; rw [hver, h]
    simp [readRequestStream, hm, hu, hver, hne]

/-- The request is decided by the FIRST batch; later batches of the stream are drained and
ignored, and a stream that breaks after its first batch still yields the request. -/
theorem readRequest_first_batch_decides (sch : Schema) (b : Batch) (bs bs' : List Batch) (br br' : Bool) :
    readRequestStream ⟨sch, b :: bs, br⟩ = readRequestStream ⟨sch, b :: bs', br'⟩ := rfl

/-! ## Stream tokens -/

/-- No batch of these streams carries a non-empty cursor. -/
def noCursor (bs : List Batch) : Prop := ∀ b ∈ bs, nonEmpty? (b.md.get kStreamState) = none

/-- First non-empty call token among these batches, unless one was already found. -/
def firstCall : List Batch → Option Bytes → Option Bytes
  | [], c => c
  | b :: r, none => firstCall r (nonEmpty? (b.md.get kCallState))
  | _ :: _, some c => some c

theorem firstCall_some (bs : List Batch) (c : Bytes) : firstCall bs (some c) = some c := by
  cases bs <;> rfl

theorem scanBatches_noCursor (bs : List Batch) (call : Option Bytes) (h : noCursor bs) :
    scanBatches bs call = (none, firstCall bs call) := by
  induction bs generalizing call with
  | nil => rfl
  | cons b r ih =>
    have hb : nonEmpty? (b.md.get kStreamState) = none := h b List.mem_cons_self
    have hr : noCursor r := fun x hx => h x (List.mem_cons_of_mem _ hx)
    cases call with
    | none => simp [scanBatches, hb, ih _ hr, firstCall]
    | some c => simp [scanBatches, hb, ih _ hr, firstCall, firstCall_some]

theorem scanBatches_hit (pre : List Batch) (b : Batch) (post : List Batch) (call : Option Bytes)
    (t : Bytes) (h : noCursor pre) (hb : nonEmpty? (b.md.get kStreamState) = some t) :
    scanBatches (pre ++ b :: post) call = (some t, firstCall (pre ++ [b]) call) := by
  induction pre generalizing call with
  | nil =>
    cases call with
    | none => simp [scanBatches, hb, firstCall]
    | some c => simp [scanBatches, hb, firstCall]
  | cons x r ih =>
    have hx : nonEmpty? (x.md.get kStreamState) = none := h x List.mem_cons_self
    have hr : noCursor r := fun y hy => h y (List.mem_cons_of_mem _ hy)
    cases call with
    | none => simp [scanBatches, hx, ih _ hr, firstCall]
    | some c => simp [scanBatches, hx, ih _ hr, firstCall, firstCall_some]

/-- All batches of a list of streams, in wire order. -/
def allBatches (ss : List Stream) : List Batch := ss.flatMap (·.batches)

theorem firstCall_append (a b : List Batch) (c : Option Bytes) :
    firstCall (a ++ b) c = firstCall b (firstCall a c) := by
  induction a generalizing c with
  | nil => rfl
  | cons x r ih =>
    cases c with
    | none => simp [firstCall, ih]
    | some v => simp [firstCall, firstCall_some]

theorem findTokensFrom_skip (pre : List Stream) (rest : List Stream) (call : Option Bytes)
    (hc : noCursor (allBatches pre)) (hb : ∀ s ∈ pre, s.broken = false) :
    findTokensFrom (pre ++ rest) call = findTokensFrom rest (firstCall (allBatches pre) call) := by
  induction pre generalizing call with
  | nil => rfl
  | cons s r ih =>
    have hs : noCursor s.batches := fun x hx => hc x (by simp [allBatches]; exact .inl hx)
    have hr : noCursor (allBatches r) := fun x hx => hc x (by
      simp only [allBatches, List.flatMap_cons, List.mem_append]; exact .inr hx)
    have hbr : ∀ x ∈ r, x.broken = false := fun x hx => hb x (List.mem_cons_of_mem _ hx)
    have hsb : s.broken = false := hb s List.mem_cons_self
    have hscan : scanStream s = (none, firstCall s.batches none, false) := by
      simp [scanStream, scanBatches_noCursor _ _ hs, hsb]
    simp only [List.cons_append, findTokensFrom, hscan, Bool.false_eq_true, if_false]
    cases call with
    | none =>
      simp only []
      rw [ih _ hr hbr]
      simp [allBatches, firstCall_append]
    | some c =>
      simp only []
      rw [ih _ hr hbr]
      simp [allBatches, firstCall_append, firstCall_some]

/-- **findTokens_first.** In any concatenation of streams, if no batch before batch `b` of stream
`s` carries a non-empty cursor (and the earlier streams end cleanly), and `b` carries the
non-empty cursor `t`, then `FindStreamTokens` returns `t` together with the first non-empty call
token seen no later than `b` — whatever follows `b` in its stream, whatever streams or junk
follow. -/
theorem findTokens_first (pre : List Stream) (sch : Schema) (bs1 : List Batch) (b : Batch)
    (bs2 : List Batch) (br : Bool) (post : List Stream) (junk : Bool) (t : Bytes)
    (hpre : noCursor (allBatches pre)) (hclean : ∀ s ∈ pre, s.broken = false)
    (hbs1 : noCursor bs1) (hb : b.md.get kStreamState = some t) (ht : t ≠ []) :
    findStreamTokens ⟨pre ++ ⟨sch, bs1 ++ b :: bs2, br⟩ :: post, junk⟩ =
      (some t, firstCall (allBatches pre ++ bs1 ++ [b]) none) := by
  have hb' : nonEmpty? (b.md.get kStreamState) = some t := by simp [nonEmpty?, hb, ht]
  unfold findStreamTokens
  rw [findTokensFrom_skip pre _ none hpre hclean]
  simp only [findTokensFrom, scanStream, scanBatches_hit bs1 b bs2 none t hbs1 hb']
  cases hfc : firstCall (allBatches pre) none with
  | none => simp [firstCall_append, hfc]
  | some c => simp [firstCall_append, hfc, firstCall_some]

/-- **findTokens_recovers_stamp.** What `writeStateTokenBatch` stamped is recovered exactly: after
any number of clean streams and batches that carry no token at all (header stream, log batches,
data batches), the cursor `t` and the call token `c` (absent when empty) come back. -/
theorem findTokens_recovers_stamp (pre : List Stream) (sch : Schema) (bs1 bs2 : List Batch)
    (br : Bool) (post : List Stream) (junk : Bool) (t c : Bytes) (ht : t ≠ [])
    (hpre : ∀ x ∈ allBatches pre ++ bs1, x.md.get kStreamState = none ∧ x.md.get kCallState = none)
    (hclean : ∀ s ∈ pre, s.broken = false) :
    findStreamTokens ⟨pre ++ ⟨sch, bs1 ++ stateTokenBatch t c :: bs2, br⟩ :: post, junk⟩ =
      (some t, if c = [] then none else some c) := by
  have hk : kStreamState ≠ kCallState := by decide
  have h1 : noCursor (allBatches pre) := fun x hx => by
    simp [nonEmpty?, (hpre x (List.mem_append_left _ hx)).1]
  have h2 : noCursor bs1 := fun x hx => by
    simp [nonEmpty?, (hpre x (List.mem_append_right _ hx)).1]
  have hget : (stateTokenBatch t c).md.get kStreamState = some t := by
    simp [stateTokenBatch, Meta.get]
  rw [findTokens_first pre sch bs1 (stateTokenBatch t c) bs2 br post junk t h1 hclean h2 hget ht]
  have hnone : ∀ l : List Batch, (∀ x ∈ l, x.md.get kStreamState = none ∧ x.md.get kCallState = none) →
      firstCall l none = none := by
    intro l hl
    induction l with
    | nil => rfl
    | cons x r ih =>
      have hx := (hl x List.mem_cons_self).2
      simp [firstCall, hx, nonEmpty?]
      exact ih (fun y hy => hl y (List.mem_cons_of_mem _ hy))
  rw [firstCall_append, hnone _ hpre]
  by_cases hc : c = []
  · simp [firstCall, stateTokenBatch, Meta.get, nonEmpty?, hc, hk]
  · simp [firstCall, stateTokenBatch, Meta.get, nonEmpty?, hc, hk]

/-! ## Unary result envelope -/

/-- **unary_result_roundtrip.** Wrapping result bytes under a single-binary-field envelope named
`result` and unwrapping returns the same schema and the same bytes (whatever follows). -/
theorem unary_result_roundtrip (f : Field) (bs : Bytes) (rest : List Stream) (junk : Bool)
    (hn : f.name = nameResult) (ht : f.ty = tyBinary) :
    ∃ s, writeUnaryResult [f] bs = some s ∧ readUnaryResult ⟨s :: rest, junk⟩ = some ([f], bs) := by
  refine ⟨{ schema := [f], batches := [{ rows := 1, md := [], cells := [bs] }], broken := false },
    by simp [writeUnaryResult, singleBinaryField, ht], ?_⟩
  simp [readUnaryResult, readUnaryBatches, fieldIndex, hn, ht]

/-- `WriteUnaryResult` refuses every envelope that is not a single binary field. -/
theorem write_unary_refuses (sch : Schema) (bs : Bytes) (h : singleBinaryField sch = false) :
    writeUnaryResult sch bs = none := by
  simp [writeUnaryResult, h]

/-- An error stream (its first batch is a zero-row EXCEPTION batch, after any number of zero-row
log batches) is reported as not-a-result. -/
theorem unary_result_rejects_error (sch : Schema) (logs : List Batch) (e : Batch) (bs : List Batch)
    (br : Bool) (rest : List Stream) (junk : Bool)
    (hlogs : ∀ l ∈ logs, l.rows = 0 ∧ ∃ lvl, l.md.get kLogLevel = some lvl ∧ lvl ≠ levelException)
    (he : e.rows = 0) (hlvl : e.md.get kLogLevel = some levelException) :
    readUnaryResult ⟨⟨sch, logs ++ e :: bs, br⟩ :: rest, junk⟩ = none := by
  simp only [readUnaryResult]
  induction logs with
  | nil => simp [readUnaryBatches, he, hlvl]
  | cons l r ih =>
    obtain ⟨hl0, lvl, hl1, hl2⟩ := hlogs l List.mem_cons_self
    simp only [List.cons_append, readUnaryBatches, hl0, hl1]
    simp only [Nat.lt_irrefl, gt_iff_lt, if_false, ne_eq, hl2, not_false_eq_true, if_true]
    exact ih (fun x hx => hlogs x (List.mem_cons_of_mem _ hx))

/-- A log-only stream (nothing but zero-row log batches) is not-a-result. -/
theorem unary_result_rejects_log_only (sch : Schema) (logs : List Batch) (br : Bool)
    (rest : List Stream) (junk : Bool) (hlogs : ∀ l ∈ logs, l.rows = 0) :
    readUnaryResult ⟨⟨sch, logs, br⟩ :: rest, junk⟩ = none := by
  simp only [readUnaryResult]
  induction logs with
  | nil => rfl
  | cons l r ih =>
    have hl0 := hlogs l List.mem_cons_self
    simp only [readUnaryBatches, hl0, Nat.lt_irrefl, gt_iff_lt, if_false]
    split
    · split
      · exact ih (fun x hx => hlogs x (List.mem_cons_of_mem _ hx))
      · rfl
    · rfl

/-- A response whose first batch with rows has no `result` column, or a `result` column that is
not of arrow type `binary`, is not-a-result (after any zero-row log batches). -/
theorem unary_result_rejects_non_binary (sch : Schema) (logs : List Batch) (d : Batch)
    (bs : List Batch) (br : Bool) (rest : List Stream) (junk : Bool)
    (hlogs : ∀ l ∈ logs, l.rows = 0) (hd : d.rows > 0)
    (hbad : fieldIndex nameResult sch 0 = none ∨
            ∃ i f, fieldIndex nameResult sch 0 = some i ∧ sch[i]? = some f ∧ f.ty ≠ tyBinary) :
    readUnaryResult ⟨⟨sch, logs ++ d :: bs, br⟩ :: rest, junk⟩ = none := by
  simp only [readUnaryResult]
  induction logs with
  | nil =>
    simp only [List.nil_append, readUnaryBatches, hd, if_true]
    rcases hbad with h | ⟨i, f, h1, h2, h3⟩
    · simp [h]
    · simp only [h1, h2]
      cases d.cells[i]? with
      | none => rfl
      | some c => simp [h3]
  | cons l r ih =>
    have hl0 := hlogs l List.mem_cons_self
    simp only [List.cons_append, readUnaryBatches, hl0, Nat.lt_irrefl, gt_iff_lt, if_false]
    split
    · split
      · exact ih (fun x hx => hlogs x (List.mem_cons_of_mem _ hx))
      · rfl
    · rfl

/-- No stream at all (empty or junk input) is not-a-result. -/
theorem unary_result_rejects_unparseable (junk : Bool) : readUnaryResult ⟨[], junk⟩ = none := rfl

/-! ## Non-vacuity -/

namespace Ex
def pInt : Field := ⟨[0x78], [0x69, 0x6e, 0x74, 0x36, 0x34], false⟩           -- x : int64
def resultField : Field := ⟨nameResult, tyBinary, false⟩
/-- "é/ü" as UTF-8 (multi-byte method name) -/
def mName : Bytes := [0xc3, 0xa9, 0x2f, 0xc3, 0xbc]
def pv : Bytes := [0x31, 0x2e, 0x32, 0x2e, 0x33]
def params : Params := ⟨[pInt], 1, [[0x34, 0x32]]⟩
/-- a producer init response: header stream, then a data stream with a log batch, a data batch and
the stamped token batch -/
def headerStream : Stream := ⟨[⟨[0x68], [0x69], false⟩], [⟨1, [], [[0x31]]⟩], false⟩
def logBatch : Batch := ⟨0, [(kLogLevel, [0x49, 0x4e, 0x46, 0x4f])], []⟩
def excBatch : Batch := ⟨0, [(kLogLevel, levelException)], []⟩
end Ex

example : validUtf8 Ex.mName = true ∧ validUtf8 [] = true ∧ validUtf8 [0xc3] = false ∧
    validUtf8 [0xed, 0xa0, 0x80] = false ∧ validUtf8 [0xf4, 0x90, 0x80, 0x80] = false ∧
    validUtf8 [0xc0, 0xaf] = false ∧ validUtf8 [0xf0, 0x9f, 0x98, 0x80] = true := by decide

example : (readRequestStream (writeRequest Ex.mName Ex.params Ex.pv)).toOption.map (·.method) = some Ex.mName := by
  decide

example : readRequestStream (writeRequest [0xff] Ex.params Ex.pv) = .error (.rpc .protocolError) :=
  read_write_request_bad_utf8 _ _ _ (by decide)

example : findStreamTokens ⟨[Ex.headerStream,
      ⟨[Ex.pInt], [Ex.logBatch, ⟨1, [], [[0x37]]⟩, stateTokenBatch [0x41, 0x42] [0x43], ⟨1, [], [[0x38]]⟩], false⟩],
      true⟩ = (some [0x41, 0x42], some [0x43]) := by decide

/-- a call token AFTER the cursor's batch is not picked up; a cursor in a later stream loses -/
example : findStreamTokens ⟨[⟨[], [stateTokenBatch [0x41] [], ⟨0, [(kCallState, [0x5a])], []⟩], false⟩,
      ⟨[], [stateTokenBatch [0x42] [0x43]], false⟩], false⟩ = (some [0x41], none) := by decide

example : (writeUnaryResult [Ex.resultField] [1, 2, 3]).bind (fun s => readUnaryResult ⟨[s], false⟩) =
    some ([Ex.resultField], [1, 2, 3]) := by decide

example : readUnaryResult ⟨[⟨[Ex.resultField], [Ex.logBatch, Ex.excBatch], false⟩], false⟩ = none := by decide
example : readUnaryResult ⟨[⟨[⟨nameResult, [0x69], false⟩], [⟨1, [], [[0x31]]⟩], false⟩], false⟩ = none := by decide
/-- logs are skipped in front of a real result -/
example : readUnaryResult ⟨[⟨[Ex.resultField], [Ex.logBatch, ⟨1, [], [[9]]⟩], false⟩], false⟩ =
    some ([Ex.resultField], [9]) := by decide

end Vgi.Props.C01
