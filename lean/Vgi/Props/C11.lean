import Vgi.Proofs.StreamParity
/-!
# C11 — A stream behaves the same over HTTP as over a pipe

`pipeRun` models `Server.serveStream` (`vgirpc/server_stream.go`); `httpRun` is a conformant HTTP
client (echoes cursor and call token, one input per exchange request, follows producer continuation
tokens, sends request `n` to instance `route n`) driving the model of `handleStreamInit` /
`handleStreamExchange` (`vgirpc/http_stream.go`, `http_state.go`). Both return the client's `View`:
header, log messages and data batches (values + user metadata) in order, and how the stream ended.

The statements hold for every scripted stream state (arbitrary per-cycle programs), every method
shape (static / dynamic, with / without header, with / without a declared input schema), every init
behaviour (logs, failure, panic), every input sequence (schemas equal to, castable to or
incompatible with the input schema; cancel at any turn), every producer batch limit, the call
cache on or off, every per-request routing function and every starting world.
-/
namespace Vgi.Props.C11
open Vgi Vgi.HttpStream Vgi.StreamParity Vgi.Generated.C16

/-- **http_refines_pipe**: with no response-size cap configured, the client's view of a whole stream
session over HTTP equals its view over a pipe — for every batch limit, cache setting, routing
function and prior history (`w`), given enough continuation requests (`fuel`). `hstat`: a static
exchange method always registers its input schema (`vgirpc.Exchange` refuses `nil`). `hnf`: the
client's own input metadata uses none of the transport's keys (a pipe strips nothing). The view
includes what the handler observed: an echoing emit (`Act.emitEcho`) carries the handler's
`InputMetadata` into the emitted batch's metadata, so the two transports must hand the handler the
same metadata — also for inputs that were cast. -/
theorem http_refines_pipe (cfg : Cfg) (hW : cfg.maxResp = 0) (hE : cfg.maxExt = 0) (route : Nat → Nat)
    (fuel : Nat) (w : World) (rq : InitReq) (inputs : List InBatch)
    (hfuel : rq.st.prog.length + 1 ≤ fuel) (hstat : rq.dynamic = false → rq.declared = true)
    (hnf : ∀ b ∈ inputs, NoFw b.md) :
    httpRun cfg route fuel w rq inputs = pipeRun rq inputs :=
  httpRun_eq_pipeRun cfg hW hE route fuel w rq inputs hfuel hstat hnf

/-- **http_configuration_irrelevant**: two HTTP deployments that differ in batch limit, call cache,
storage settings, routing and history give the client the same view. -/
theorem http_configuration_irrelevant (cfg1 cfg2 : Cfg) (h1W : cfg1.maxResp = 0) (h1E : cfg1.maxExt = 0)
    (h2W : cfg2.maxResp = 0) (h2E : cfg2.maxExt = 0) (route1 route2 : Nat → Nat) (fuel1 fuel2 : Nat)
    (w1 w2 : World) (rq : InitReq) (inputs : List InBatch)
    (hf1 : rq.st.prog.length + 1 ≤ fuel1) (hf2 : rq.st.prog.length + 1 ≤ fuel2)
    (hstat : rq.dynamic = false → rq.declared = true) (hnf : ∀ b ∈ inputs, NoFw b.md) :
    httpRun cfg1 route1 fuel1 w1 rq inputs = httpRun cfg2 route2 fuel2 w2 rq inputs := by
  rw [http_refines_pipe cfg1 h1W h1E route1 fuel1 w1 rq inputs hf1 hstat hnf,
      http_refines_pipe cfg2 h2W h2E route2 fuel2 w2 rq inputs hf2 hstat hnf]

/-- **producer_turns_equal_pipe**: following the continuation tokens of a producer stream (any wire
cap, any batch limit) from a cursor delivers exactly what the pipe loop delivers from that state. -/
theorem producer_turns_equal_pipe (cfg : Cfg) (hE : cfg.maxExt = 0) (route : Nat → Nat) (dyn : Bool)
    (fuel n : Nat) (w : World) (tok : Val) (cur : Cursor)
    (hopen : openCursor w tok = some cur) (hp : cur.st.producer = true) (hd : cur.dyn = dyn)
    (hfuel : (cur.st.prog.drop cur.st.pos).length + 1 ≤ fuel) :
    httpProduce cfg route dyn fuel n w tok (.call cur.call) = pipeProduce (cur.st.prog.drop cur.st.pos) :=
  httpProduce_spec cfg hE route dyn fuel n w tok cur hopen hp hd hfuel

/-- **exchange_turns_equal_pipe**: lockstep exchange over HTTP from a cursor delivers exactly what
the pipe loop delivers from that state, input by input (casts, cast refusals, untyped inputs of
streams without a declared schema, failures, cancel). -/
theorem exchange_turns_equal_pipe (cfg : Cfg) (hW : cfg.maxResp = 0) (hE : cfg.maxExt = 0) (route : Nat → Nat)
    (dyn : Bool) (inputs : List InBatch) (n : Nat) (w : World) (tok : Val) (cur : Cursor)
    (hopen : openCursor w tok = some cur) (hp : cur.st.producer = false) (hd : cur.dyn = dyn)
    (hstat : dyn = false → cur.declared = true) (hnf : ∀ b ∈ inputs, NoFw b.md) :
    httpExchange cfg route dyn inputs n w tok (.call cur.call) = pipeExchange cur.declared cur.st inputs :=
  httpExchange_spec cfg hW hE route dyn inputs n w tok cur hopen hp hd hstat hnf

/-- the pipe's producer loop is the unlimited run `fullRun` (the right-hand side of C19's
`producer_complete`) seen through the client's eyes -/
theorem pipe_producer_is_full_run (ticks : List Tick) :
    pipeProduce ticks = (viewItems (fullRun ticks).1, termOf (fullRun ticks)) :=
  pipeProduce_eq ticks

/-! ## Non-vacuity -/

section Examples

def kA : Bytes := [97]

/-- a dynamic exchange stream that declared its input schema; header 7; two init logs; the second
cycle emits metadata including a token key -/
def dynEx : InitReq :=
  { st := { prog := [[.log 1, .emit (.input 1) [] true], [.emit (.input 0) [(kA, [49]), (keyState, [120])] true, .log 2],
                     [.fail 3]],
            pos := 0, producer := false, cancel := .absent },
    logs := [0, 1], hasHeader := true, header := some 7, dynamic := true, declared := true }

def castIns : List InBatch := [{ kind := .castable, vals := [5] }, { kind := .castable, vals := [6, 7] },
  { kind := .castable, vals := [] }, { kind := .castable, vals := [9] }]

def cfgA : Cfg := { cacheOn := false, maxResp := 0, maxExt := 0, extOn := false, batchLimit := 1 }

example : pipeRun dynEx castIns =
    { header := some 7, items := [.log 0, .log 1, .log 1, .data [6] [], .data [6, 7] [(kA, [49])], .log 2],
      term := .error (.handler 3) } := by decide

example : httpRun cfgA (fun n => n % 3) 5 World.empty dynEx castIns = pipeRun dynEx castIns := by decide

-- without a declared schema neither transport casts: the handler refuses the int32 input on both
example : pipeRun { dynEx with declared := false } castIns =
    { header := some 7, items := [.log 0, .log 1], term := .error (.handler 77) } ∧
    httpRun cfgA (fun n => n % 3) 5 World.empty { dynEx with declared := false } castIns =
      pipeRun { dynEx with declared := false } castIns := by decide

/-- an exchange stream whose handler echoes its InputMetadata; castable inputs carrying user metadata -/
def echoEx : InitReq :=
  { st := { prog := [[.emitEcho (.input 0) true], [.log 1, .emitEcho (.const [9]) true], [.emitEcho (.input 1) true]],
            pos := 0, producer := false, cancel := .absent } }

def echoIns : List InBatch :=
  [{ kind := .castable, vals := [5], md := [(kA, [49])] }, { kind := .same, vals := [6], md := [] },
   { kind := .castable, vals := [7], md := [(kA, [50]), ([98], [51])] }]

example : pipeRun echoEx echoIns =
    { header := none, items := [.data [5] [(kA, [49])], .log 1, .data [9] [], .data [8] [(kA, [50]), ([98], [51])]],
      term := .idle } ∧
    httpRun cfgA (fun n => n % 2) 5 World.empty echoEx echoIns = pipeRun echoEx echoIns := by decide

example : NoFw [(kA, [50]), (([98] : Bytes), [51])] := by
  intro kv h
  simp at h
  rcases h with rfl | rfl <;> decide

/-- a producer of four cycles, the third with a log after its data batch -/
def prodRq : InitReq :=
  { st := { prog := [[.emit (.const [1]) [] true], [.log 4, .emit (.const [2]) [(kA, [50])] true],
                     [.emit (.const [3]) [] true, .log 5], [.emit (.const [4]) [] true, .finish true]],
            pos := 0, producer := true, cancel := .absent },
    logs := [9], hasHeader := false, header := some 3 }

example : pipeRun prodRq [] =
    { header := none, items := [.log 9, .data [1] [], .log 4, .data [2] [(kA, [50])], .data [3] [], .log 5, .data [4] []],
      term := .finished } := by decide

-- batch limit 1 (four HTTP turns), limit 3, no limit; cache on/off; one or three instances
example : httpRun cfgA (fun n => n % 3) 6 World.empty prodRq [] = pipeRun prodRq [] := by decide
example : httpRun { cfgA with batchLimit := 3, cacheOn := true } (fun _ => 0) 6 World.empty prodRq [] = pipeRun prodRq [] := by
  decide
example : httpRun { cfgA with batchLimit := 0, maxResp := 0 } (fun n => n) 6 World.empty prodRq [] = pipeRun prodRq [] := by
  decide

end Examples

end Vgi.Props.C11
