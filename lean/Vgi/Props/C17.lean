import Vgi.Proofs.Compress
import Vgi.Proofs.CompressGrammar
/-!
# C17 — Response compression is negotiated in client order and is lossless

Theorems about `Vgi.Compress` (the model of `parseAcceptEncoding`, `chooseResponseEncoding`,
`applyCompressionLevel`/`SetCompressionLevel`/`producibleResponseEncodings`, the negotiation block
of `ServeHTTP` and `compressResponseWriter.finish`). All statements quantify over **all** byte
strings for both accept headers, all producible lists, all levels, all content types and body
lengths.  Losslessness of zstd/gzip themselves is not a theorem (codec = trusted library); the
harness oracle decodes every compressed response with the standard decoders.
-/
namespace Vgi.Props.C17
open Vgi Vgi.Compress Vgi.Proofs.Compress Vgi.Proofs.CompressGrammar

/-! ## The negotiation theorems -/

/-- **choose_spec** — for all header byte strings and every producible list, the codec chosen by
`chooseResponseEncoding` is the one the specification names: the first decisive token of the custom
header, else the first decisive token of the standard header; `identity` and "nothing producible"
give the uncompressed answer. -/
theorem choose_spec (c s : Bytes) (P : List Bytes) :
    (choose c s P).1 = (specDecision c s P).enc := by
  unfold choose
  by_cases he : (parseAccept c).isEmpty = true ∧ (parseAccept s).isEmpty = true
  · simp only [he, and_self, if_true]
    have hc : parseAccept c = [] := by simpa using he.1
    have hs : parseAccept s = [] := by simpa using he.2
    have := decide1_merge P c s
    rw [hc, hs] at this
    rw [← this]; rfl
  · simp only [he, if_false]
    rw [walk_fst, decide1_merge]

/-- **used_custom_iff** — the second result ("stamp the custom header") is true exactly when a
codec won and it was offered on the custom header and not on the standard one. -/
theorem used_custom_iff (c s : Bytes) (P : List Bytes) :
    (choose c s P).2 = true ↔
      ((choose c s P).1 ≠ [] ∧ (choose c s P).1 ∈ rawTokens c ∧ (choose c s P).1 ∉ rawTokens s) := by
  unfold choose
  by_cases he : (parseAccept c).isEmpty = true ∧ (parseAccept s).isEmpty = true
  · simp [he]
  · simp only [he, if_false]
    rcases walk_snd (parseAccept c) (parseAccept s) P (mergeTokens (parseAccept c) (parseAccept s)) with h | h
    · rw [h]
      simp only [Bool.and_eq_true, decide_eq_true_eq, contains_iff, Bool.not_eq_true',
        mem_parseAccept]
      constructor
      · rintro ⟨h1, h2, h3⟩
        refine ⟨h1, h2, ?_⟩
        intro hm
        have : (parseAccept s).contains (walk (parseAccept c) (parseAccept s) P (mergeTokens (parseAccept c) (parseAccept s))).1 = true :=
          contains_iff.mpr ((mem_parseAccept _ _).mpr hm)
        rw [this] at h3; cases h3
      · rintro ⟨h1, h2, h3⟩
        refine ⟨h1, h2, ?_⟩
        cases hcs : (parseAccept s).contains (walk (parseAccept c) (parseAccept s) P (mergeTokens (parseAccept c) (parseAccept s))).1 with
        | false => rfl
        | true => exact absurd ((mem_parseAccept _ _).mp (contains_iff.mp hcs)) h3
    · exfalso
      unfold mergeTokens at h
      rcases List.mem_append.mp h with h | h
      · exact nil_not_mem_parseAccept c h
      · exact nil_not_mem_parseAccept s (List.mem_filter.mp h).1

/-! ## Consequences, in the words of the property -/




theorem specDecision_eq_clientOrder (c s : Bytes) (P : List Bytes) :
    specDecision c s P = decide1 P (clientOrder c s) := by
  unfold specDecision clientOrder; rw [decide1_append]

/-- **winner_first_in_client_order** — whenever a codec is chosen, the server can produce it, it
is not `identity`, it occurs in the client's order (custom header, then standard header), and
every token the client listed before it is neither producible nor `identity`. -/
theorem winner_first_in_client_order (c s : Bytes) (P : List Bytes) (hw : (choose c s P).1 ≠ []) :
    (choose c s P).1 ∈ P ∧ (choose c s P).1 ≠ tIdentity ∧
    ∃ pre post, clientOrder c s = pre ++ (choose c s P).1 :: post ∧
      ∀ t ∈ pre, t ∉ P ∧ t ≠ tIdentity := by
  rw [choose_spec, specDecision_eq_clientOrder] at hw ⊢
  cases hd : decide1 P (clientOrder c s) with
  | codec w =>
    obtain ⟨a, b, pre, post, e, hp⟩ := decide1_codec_split hd
    refine ⟨a, b, pre, post, e, ?_⟩
    intro t ht
    have := hp t ht
    simp only [Decisive, not_or] at this
    exact ⟨this.2, this.1⟩
  | identity => rw [hd] at hw; exact absurd rfl hw
  | undecided => rw [hd] at hw; exact absurd rfl hw

/-- **first_producible_wins** — conversely: the first token of the client's order that the server
can produce is chosen, provided no `identity` was listed before it. -/
theorem first_producible_wins (c s : Bytes) (P : List Bytes) (pre post : List Bytes) (w : Bytes)
    (ho : clientOrder c s = pre ++ w :: post) (hw : w ∈ P) (hi : w ≠ tIdentity)
    (hp : ∀ t ∈ pre, t ∉ P ∧ t ≠ tIdentity) : (choose c s P).1 = w := by
  rw [choose_spec, specDecision_eq_clientOrder, ho, decide1_first hw hi]
  · rfl
  · intro t ht; have := hp t ht; simp [Decisive, this.1, this.2]

/-- **identity_earlier_disables** — an `identity` listed before any producible codec (anywhere in
the client's order) turns compression off. -/
theorem identity_earlier_disables (c s : Bytes) (P : List Bytes) (pre post : List Bytes)
    (ho : clientOrder c s = pre ++ tIdentity :: post) (hp : ∀ t ∈ pre, t ∉ P) :
    (choose c s P).1 = [] := by
  rw [choose_spec, specDecision_eq_clientOrder, ho]
  exact decide1_identity_first hp

/-- **nothing_offered_uncompressed** — no producible token anywhere ⇒ uncompressed. -/
theorem nothing_offered_uncompressed (c s : Bytes) (P : List Bytes)
    (h : ∀ t ∈ clientOrder c s, t ∉ P) : (choose c s P).1 = [] := by
  rw [choose_spec, specDecision_eq_clientOrder]
  generalize clientOrder c s = l at h
  induction l with
  | nil => rfl
  | cons t rest ih =>
    simp only [decide1]
    by_cases h1 : t = tIdentity
    · simp [h1, Decision.enc]
    · simp only [h1, h t List.mem_cons_self, if_false]
      exact ih (fun u hu => h u (List.mem_cons_of_mem _ hu))

/-- **custom_header_leads** — once the custom header names a producible codec or `identity`, the
standard header has no influence on the chosen codec. -/
theorem custom_header_leads (c : Bytes) (P : List Bytes)
    (hd : decide1 P (rawTokens c) ≠ .undecided) (s s' : Bytes) :
    (choose c s P).1 = (choose c s' P).1 := by
  rw [choose_spec, choose_spec]
  unfold specDecision
  cases h : decide1 P (rawTokens c) with
  | codec w => rfl
  | identity => rfl
  | undecided => exact absurd h hd

/-- **standard_header_adds** — a silent custom header leaves the decision to the standard one. -/
theorem standard_header_adds (c s : Bytes) (P : List Bytes)
    (hd : decide1 P (rawTokens c) = .undecided) :
    (choose c s P).1 = (decide1 P (rawTokens s)).enc := by
  rw [choose_spec]; unfold specDecision; rw [hd]; rfl

/-- **dedup_irrelevant** — `parseAcceptEncoding`'s first-wins de-duplication keeps exactly the
client's tokens (same membership, no repetition, relative order kept) and never changes what a
header decides. -/
theorem dedup_irrelevant (h : Bytes) (P : List Bytes) :
    (∀ t, t ∈ parseAccept h ↔ t ∈ rawTokens h) ∧
    decide1 P (parseAccept h) = decide1 P (rawTokens h) :=
  ⟨mem_parseAccept h, decide1_parseAccept P h⟩


/-- **parse_order_kept** — the parsed token list is a duplicate-free subsequence of the client's
list (relative order preserved). -/
theorem parse_order_kept (h : Bytes) :
    (parseAccept h).Sublist (rawTokens h) ∧ (parseAccept h).Nodup := by
  unfold parseAccept rawTokens
  by_cases h0 : h = []
  · simp [h0]
  · simp only [h0, if_false]; exact parseLoop_sublist _ _

/-! ## Well-formed headers: tokens, case, white space, q-values -/

/-- One element of an RFC 9110 `#( codings [ weight ] )` list: `OWS token OWS [ ";" params ]`;
`tok = []` is an empty list element (OWS only). -/
structure Elem where
  o1 : Bytes
  tok : Bytes
  o2 : Bytes
  params : Option Bytes

def Elem.WF (e : Elem) : Prop :=
  (∀ x ∈ e.o1, IsOWS x) ∧ (∀ x ∈ e.o2, IsOWS x) ∧ (∀ x ∈ e.tok, IsVis x) ∧
  (∀ p, e.params = some p → ∀ x ∈ p, IsParam x) ∧ (e.tok = [] → e.o2 = [] ∧ e.params = none)

def Elem.render (e : Elem) : Bytes :=
  e.o1 ++ e.tok ++ e.o2 ++ paramTail e.params

/-- What the element means: its codec name, lower-cased; nothing for an empty element. The
parameters (q-values) play no role. -/
def Elem.value (e : Elem) : Option Bytes := if e.tok = [] then none else some (e.tok.map asciiLower)

/-- The header text of a list of elements. -/
def header (es : List Elem) : Bytes := joinComma (es.map Elem.render)

theorem rawTokens_unguarded (h : Bytes) :
    rawTokens h = ((splitOn cComma h).map normTok).filter (fun t => t ≠ []) := by
  unfold rawTokens
  by_cases h0 : h = []
  · subst h0; decide
  · simp [h0]

theorem render_no_comma (e : Elem) (h : e.WF) : ∀ b ∈ e.render, b ≠ cComma := by
  obtain ⟨h1, h2, h3, h4, _⟩ := h
  intro b hb
  unfold Elem.render at hb
  have ows_ne : ∀ x, IsOWS x → x ≠ cComma := by
    intro x hx; rcases hx with rfl | rfl <;> decide
  simp only [List.mem_append] at hb
  rcases hb with ((hb | hb) | hb) | hb
  · exact ows_ne b (h1 b hb)
  · exact (h3 b hb).2.2.2
  · exact ows_ne b (h2 b hb)
  · cases hp : e.params with
    | none => simp [hp, paramTail] at hb
    | some p =>
      simp only [hp, paramTail, List.mem_cons] at hb
      rcases hb with rfl | hb
      · decide
      · exact (h4 p hp b hb).2

theorem normTok_render (e : Elem) (h : e.WF) : normTok e.render = (e.value).getD [] := by
  obtain ⟨h1, h2, h3, h4, h5⟩ := h
  unfold Elem.render Elem.value
  by_cases ht : e.tok = []
  · obtain ⟨ho2, hp⟩ := h5 ht
    simp only [ht, ho2, hp, paramTail, List.append_nil, if_true, Option.getD_none]
    exact normTok_blank e.o1 h1
  · simp only [ht, if_false, Option.getD_some]
    exact normTok_element e.o1 e.tok e.o2 e.params h1 h2 h3 ht h4

/-- **rawTokens_wellformed** — for every header that follows the HTTP list grammar (any OWS, any
letter case, any `;params`/q-values, empty elements, duplicates), the client's token list is the
list of lower-cased codec names in the order written. -/
theorem rawTokens_wellformed (es : List Elem) (h : ∀ e ∈ es, e.WF) :
    rawTokens (header es) = es.filterMap Elem.value := by
  rw [rawTokens_unguarded]
  unfold header
  cases hes : es with
  | nil => decide
  | cons e0 rest =>
    rw [← hes, splitOn_joinComma (es.map Elem.render) (by simp [hes])
      (by
        intro x hx
        obtain ⟨e, he, rfl⟩ := List.mem_map.mp hx
        exact render_no_comma e (h e he))]
    clear hes
    induction es with
    | nil => rfl
    | cons e es ih =>
      have hwf := h e List.mem_cons_self
      have ih' := ih (fun x hx => h x (List.mem_cons_of_mem _ hx))
      simp only [List.map_cons, List.filter_cons, List.filterMap_cons, normTok_render e hwf]
      by_cases ht : e.tok = []
      · have hv : e.value = none := by simp [Elem.value, ht]
        simp only [hv, Option.getD_none]
        simpa using ih'
      · have hv : e.value = some (e.tok.map asciiLower) := by simp [Elem.value, ht]
        have : List.map asciiLower e.tok ≠ [] := by simpa using ht
        simp only [hv, Option.getD_some, ne_eq, this, not_false_eq_true, decide_true, if_true]
        simpa using ih'

/-- **choose_wellformed** (tokens / case / white space / q-values) — on grammatical headers the
chosen codec depends only on the lower-cased codec names in written order: first decisive name of
the custom list, else of the standard list. q-values, letter case, OWS, empty elements and
duplicates have no influence. -/
theorem choose_wellformed (ces ses : List Elem) (P : List Bytes)
    (hc : ∀ e ∈ ces, e.WF) (hs : ∀ e ∈ ses, e.WF) :
    (choose (header ces) (header ses) P).1 =
      ((decide1 P (ces.filterMap Elem.value)).orElse (decide1 P (ses.filterMap Elem.value))).enc := by
  rw [choose_spec]
  unfold specDecision
  rw [rawTokens_wellformed ces hc, rawTokens_wellformed ses hs]

/-- **qvalues_ignored** — replacing every element's parameters by anything else (e.g. dropping
all q-values, or setting `q=0`) never changes the outcome. -/
theorem qvalues_ignored (ces ces' ses ses' : List Elem) (P : List Bytes)
    (hc : ∀ e ∈ ces, e.WF) (hc' : ∀ e ∈ ces', e.WF) (hs : ∀ e ∈ ses, e.WF) (hs' : ∀ e ∈ ses', e.WF)
    (hct : ces.map Elem.tok = ces'.map Elem.tok) (hst : ses.map Elem.tok = ses'.map Elem.tok) :
    choose (header ces) (header ses) P = choose (header ces') (header ses') P := by
  have key : ∀ (a b : List Elem), a.map Elem.tok = b.map Elem.tok →
      a.filterMap Elem.value = b.filterMap Elem.value := by
    intro a
    induction a with
    | nil => intro b hb; cases b with
      | nil => rfl
      | cons _ _ => simp at hb
    | cons x a ih => intro b hb; cases b with
      | nil => simp at hb
      | cons y b =>
        simp only [List.map_cons, List.cons.injEq] at hb
        simp only [List.filterMap_cons, Elem.value, hb.1, ih b hb.2]
  have e1 : (choose (header ces) (header ses) P).1 = (choose (header ces') (header ses') P).1 := by
    rw [choose_wellformed ces ses P hc hs, choose_wellformed ces' ses' P hc' hs', key _ _ hct,
      key _ _ hst]
  have e2 : (choose (header ces) (header ses) P).2 = (choose (header ces') (header ses') P).2 := by
    have iff1 := used_custom_iff (header ces) (header ses) P
    have iff2 := used_custom_iff (header ces') (header ses') P
    rw [rawTokens_wellformed ces hc, rawTokens_wellformed ses hs, e1, key _ _ hct, key _ _ hst] at iff1
    rw [rawTokens_wellformed ces' hc', rawTokens_wellformed ses' hs'] at iff2
    exact Bool.eq_iff_iff.mpr (iff1.trans iff2.symm)
  exact Prod.ext e1 e2

/-! ## The response: which header is stamped, what is never compressed -/

theorem producible_cases (s : Srv) : producible s = [] ∨ producible s = supported := by
  unfold producible; split <;> simp

/-- **respond_spec** — a whole response, for every server state, header pair, content type and body
length: it is compressed iff the handler produced a non-empty body with exactly the Arrow content
type and the client's order names a producible codec first; the codec is the specified one; the
custom header carries it iff it was offered on the custom header only. -/
theorem negotiate_eq (s : Srv) (c st : Bytes) :
    negotiate s c st = if (choose c st (producible s)).1 ≠ [] then some (choose c st (producible s))
      else none := by
  unfold negotiate
  rcases producible_cases s with hp | hp
  · have : (choose c st []).1 = [] := nothing_offered_uncompressed c st [] (by simp)
    simp [hp, this]
  · simp [hp, supported]

theorem respond_spec (s : Srv) (c st ct : Bytes) (n : Nat) :
    respond s c st ct n =
      let enc := (specDecision c st (producible s)).enc
      if ct = arrowCT ∧ 0 < n ∧ enc ≠ [] then
        (enc, if enc ∈ rawTokens c ∧ enc ∉ rawTokens st then Hdr.customContentEncoding
              else Hdr.contentEncoding)
      else ([], Hdr.none) := by
  have hspec := choose_spec c st (producible s)
  have hcus := used_custom_iff c st (producible s)
  unfold respond
  rw [negotiate_eq]
  rcases hch : choose c st (producible s) with ⟨e, u⟩
  rw [hch] at hspec hcus
  simp only at hspec hcus
  rw [← hspec]
  by_cases he : e = []
  · simp [he]
  · by_cases h1 : ct = arrowCT
    · by_cases h2 : 0 < n
      · cases u with
        | true =>
          have := hcus.mp rfl
          simp [finish, he, h1, h2, this.2.1, this.2.2]
        | false =>
          have : ¬ (e ∈ rawTokens c ∧ e ∉ rawTokens st) := fun hh => by
            have := hcus.mpr ⟨he, hh⟩; cases this
          simp [finish, he, h1, h2, this]
      · simp [finish, he, h1, h2]
    · simp [finish, he, h1]

/-- **non_arrow_never_compressed** — any content type other than exactly
`application/vnd.apache.arrow.stream` is sent as is, with no encoding header, whatever was
negotiated. -/
theorem non_arrow_never_compressed (s : Srv) (c st ct : Bytes) (n : Nat) (h : ct ≠ arrowCT) :
    respond s c st ct n = ([], Hdr.none) := by
  rw [respond_spec]; simp [h]

/-- **empty_body_never_compressed** -/
theorem empty_body_never_compressed (s : Srv) (c st ct : Bytes) :
    respond s c st ct 0 = ([], Hdr.none) := by
  rw [respond_spec]; simp

/-- **stamp_iff** — a header is stamped iff the body is compressed; the standard
`Content-Encoding` is used unless the codec was offered only on the custom header. -/
theorem stamp_iff (s : Srv) (c st ct : Bytes) (n : Nat) :
    ((respond s c st ct n).2 = Hdr.none ↔ (respond s c st ct n).1 = []) ∧
    ((respond s c st ct n).2 = Hdr.customContentEncoding ↔
      ((respond s c st ct n).1 ≠ [] ∧ (respond s c st ct n).1 ∈ rawTokens c ∧
        (respond s c st ct n).1 ∉ rawTokens st)) := by
  rw [respond_spec]
  by_cases h : ct = arrowCT ∧ 0 < n ∧ (specDecision c st (producible s)).enc ≠ []
  · have hne := h.2.2
    by_cases h2 : (specDecision c st (producible s)).enc ∈ rawTokens c ∧
        (specDecision c st (producible s)).enc ∉ rawTokens st
    · simp [h, h2, hne]
    · simp only [h, ne_eq, not_false_eq_true, and_self, if_true, h2, if_false]
      refine ⟨by simp [hne], ?_⟩
      constructor
      · intro hh; cases hh
      · intro hh; exact hh.2.elim
  · simp [h]

/-- **respond_codec_producible** — a compressed response always uses a codec the server can
produce at its current level, offered by the client, first in the client's order. -/
theorem respond_codec_first (s : Srv) (c st ct : Bytes) (n : Nat) (h : (respond s c st ct n).1 ≠ []) :
    (respond s c st ct n).1 ∈ producible s ∧
    ∃ pre post, clientOrder c st = pre ++ (respond s c st ct n).1 :: post ∧
      ∀ t ∈ pre, t ∉ producible s ∧ t ≠ tIdentity := by
  rw [respond_spec] at h ⊢
  by_cases hc : ct = arrowCT ∧ 0 < n ∧ (specDecision c st (producible s)).enc ≠ []
  · simp only [hc, ne_eq, not_false_eq_true, and_self, if_true] at h ⊢
    have hw : (choose c st (producible s)).1 ≠ [] := by rw [choose_spec]; exact hc.2.2
    have := winner_first_in_client_order c st (producible s) hw
    rw [choose_spec] at this
    exact ⟨this.1, this.2.2⟩
  · simp [hc] at h

/-! ## The advertised capability header -/

/-- Server states reachable from either constructor (`NewHttpServer`, `NewHttpServerWithKey`) by
any sequence of `SetCompressionLevel` calls (none, repeated same level, accepted or refused). -/
inductive Reach : Srv → Prop
  | init : Reach initSrv
  | initKeyed : Reach initSrvWithKey
  | set (s : Srv) (n : Int) : Reach s → Reach (setLevel s n).1

theorem applyLevel_inv (s : Srv) (l : Int) :
    (applyLevel s l).advert = joinCommaSpace (producible (applyLevel s l)) := rfl

/-- **advert_eq_producible** — in every reachable state, for every level ever requested, the
rendered `VGI-Supported-Encodings` value is exactly the producible list joined by `", "`. -/
theorem advert_eq_producible (s : Srv) (h : Reach s) :
    s.advert = joinCommaSpace (producible s) := by
  induction h with
  | init => exact applyLevel_inv _ _
  | initKeyed => exact applyLevel_inv _ _
  | set s n _ ih =>
    unfold setLevel
    split
    · exact applyLevel_inv _ _
    · split
      · exact applyLevel_inv _ _
      · exact ih

theorem rawTokens_advert_supported : rawTokens (joinCommaSpace supported) = supported := by decide

/-- **advert_iff_produced** — a codec is listed in the advertised header iff there is a request
for which the server really compresses with it (so the header never over- or under-claims). -/
theorem advert_iff_produced (s : Srv) (h : Reach s) (w : Bytes) :
    w ∈ rawTokens s.advert ↔ ∃ c st n, (respond s c st arrowCT n).1 = w ∧ w ≠ [] := by
  rw [advert_eq_producible s h]
  rcases producible_cases s with hp | hp
  · rw [hp]
    constructor
    · intro hm
      have : rawTokens (joinCommaSpace []) = [] := by decide
      rw [this] at hm; cases hm
    · rintro ⟨c, st, n, hr, hw⟩
      have := (respond_codec_first s c st arrowCT n (by rw [hr]; exact hw)).1
      rw [hp] at this; simp at this
  · rw [hp, rawTokens_advert_supported]
    constructor
    · intro hm
      refine ⟨w, [], 1, ?_, ?_⟩
      · rw [respond_spec, hp]
        simp only [supported, List.mem_cons, List.not_mem_nil, or_false] at hm
        rcases hm with rfl | rfl <;> decide
      · simp only [supported, List.mem_cons, List.not_mem_nil, or_false] at hm
        rcases hm with rfl | rfl <;> decide
    · rintro ⟨c, st, n, hr, hw⟩
      have := (respond_codec_first s c st arrowCT n (by rw [hr]; exact hw)).1
      rw [hp, hr] at this; exact this

/-! ## Non-vacuity: concrete headers exercising every hypothesis -/

/-- bytes of an ASCII character list -/
def ofChars (cs : List Char) : Bytes := cs.map fun c => UInt8.ofNat c.toNat

/-- `X-VGI-Accept-Encoding: br, GZIP;q=0.1 , zstd` / `Accept-Encoding: zstd, gzip`:
gzip wins although the server prefers zstd and the q-value is low; it is on both headers, so the
standard header is stamped. -/
example : choose (ofChars "br, GZIP;q=0.1 , zstd".toList) (ofChars "zstd, gzip".toList) supported
    = (tGzip, false) := by decide

/-- custom-only offer ⇒ custom header -/
example : choose (ofChars "zstd".toList) (ofChars "deflate, gzip".toList) supported = (tZstd, true) := by
  decide

/-- identity before any producible codec disables compression; after one it does not. -/
example : choose (ofChars "br, identity, zstd".toList) (ofChars "gzip".toList) supported = ([], false) := by
  decide
example : choose (ofChars "zstd, identity".toList) [] supported = (tZstd, true) := by decide

/-- U+0130 lower-cases to `i`; U+00A0 and U+3000 are trimmed as white space (bytes given raw). -/
example : choose [0xC2,0xA0,0x67,0x7A,0xC4,0xB0,0x70,0xE3,0x80,0x80] [] supported = (tGzip, true) := by
  decide

/-- a grammatical header and its meaning -/
example : rawTokens (header [⟨ofChars [' '], ofChars "ZsTd".toList, [], some (ofChars "q=0".toList)⟩,
    ⟨[], [], [], none⟩, ⟨[], ofChars "gzip".toList, ofChars ['\t'], none⟩]) = [tZstd, tGzip] := by
  decide

/-- whole responses at the default level, and with compression switched off -/
example : respond initSrv (ofChars "zstd".toList) [] arrowCT 10 = (tZstd, Hdr.customContentEncoding) := by
  decide
example : respond initSrv [] (ofChars "gzip, zstd".toList) arrowCT 10 = (tGzip, Hdr.contentEncoding) := by
  decide
example : respond initSrv (ofChars "zstd".toList) [] (ofChars "text/html".toList) 10 = ([], Hdr.none) := by
  decide
example : respond (setLevel initSrv 0).1 (ofChars "zstd".toList) [] arrowCT 10 = ([], Hdr.none) := by
  decide
example : (setLevel initSrv 0).1.advert = [] ∧ (setLevel (setLevel initSrv 0).1 3).1.advert =
    ofChars "zstd, gzip".toList ∧ (setLevel initSrv 9) = (initSrv, false) := by decide
example : Reach (setLevel (setLevel initSrv (-2)).1 4).1 := Reach.set _ _ (Reach.set _ _ Reach.init)
/-- the keyed constructor, left alone or set to the level it already has (twice) -/
example : initSrvWithKey.advert = ofChars "zstd, gzip".toList ∧
    (setLevel (setLevel initSrvWithKey 1).1 1).1.advert = ofChars "zstd, gzip".toList ∧
    Reach (setLevel (setLevel initSrvWithKey 1).1 1).1 :=
  ⟨by decide, by decide, Reach.set _ _ (Reach.set _ _ Reach.initKeyed)⟩

end Vgi.Props.C17
