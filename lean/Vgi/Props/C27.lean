import Vgi.Proofs.OAuthCookie
import Vgi.Proofs.OAuthUrl
import Vgi.Model.OAuthSha256
/-!
# C27 — Browser OAuth login keeps its state, cookie and redirects safe

Property theorems about `Vgi.OAuth` (models of `vgirpc/oauth_pkce_cookie.go`,
`oauth_pkce_oidc.go`, `oauth_pkce_handlers.go`). Every statement quantifies over all byte
strings, keys, clocks and handler inputs. The MAC is an arbitrary keyed function
`mac : Bytes → Bytes → Bytes`; where a theorem needs a fact about it, the fact is an explicit
hypothesis (tags are 32 bytes; or: two tags differ). `hmac_instance` discharges the length fact
for the HMAC-SHA256 the driver executes. Unforgeability itself is an assumption: the tamper /
foreign-key clause is *reduced* to it (`accept_implies_mac`).

Predicates used below (defined in `Vgi.Proofs.OAuthUrl`): `AllowedReturn allow u` — `u` is
literally `scheme "://" [userinfo "@"] host tail` with scheme http/https (any case), userinfo of
userinfo-safe bytes, host of host-safe bytes (none of `/ ? # @ \`, space, controls), `tail` empty
or starting with `/`, `?` or `#`, and the checked origin is computed from exactly that host
text; `SafeLocal s` — `s` starts with `/` and its second byte is neither `/` nor `\`.
-/
namespace Vgi.Props.C27
open Vgi Vgi.OAuth

/-! ## 1. The session cookie -/

/-- `unpack (pack …)` computed exactly: expired or the packed fields, nothing else. -/
theorem unpack_pack (mac : Bytes → Bytes → Bytes) (hmac : ∀ k p, (mac k p).length = 32)
    (v s u r key : Bytes) (t maxAge now : Int)
    (hv : v.length < 65536) (hs : s.length < 65536) (hu : u.length < 65536) (hr : r.length < 65536)
    (h0 : 0 ≤ t) (h1 : t < two63) :
    unpack mac (pack mac v s u r key t) key maxAge now =
      if maxAge > 0 ∧ (ageOf (toU64 t) now < 0 ∨ ageOf (toU64 t) now > maxAge) then .error .expired
      else .ok ⟨v, s, u, r⟩ := by
  unfold unpack pack
  simp only [decodeCookie_encode]
  exact unpackRaw_honest mac hmac v s u r key t maxAge now hv hs hu hr h0 h1

/-- **cookie_roundtrip**: whatever four fields (each shorter than 65536 bytes — the uint16
length prefix) the server packs at time `t`, the same key unpacks exactly those fields at any
time `now` with `0 ≤ now − t ≤ maxAge` (or when no age limit is set). -/
theorem cookie_roundtrip (mac : Bytes → Bytes → Bytes) (hmac : ∀ k p, (mac k p).length = 32)
    (v s u r key : Bytes) (t maxAge now : Int)
    (hv : v.length < 65536) (hs : s.length < 65536) (hu : u.length < 65536) (hr : r.length < 65536)
    (h0 : 0 ≤ t) (h1 : t < two63) (n0 : 0 ≤ now) (n1 : now < two63)
    (hage : maxAge ≤ 0 ∨ (0 ≤ now - t ∧ now - t ≤ maxAge)) :
    unpack mac (pack mac v s u r key t) key maxAge now = .ok ⟨v, s, u, r⟩ := by
  rw [unpack_pack mac hmac v s u r key t maxAge now hv hs hu hr h0 h1,
    ageOf_honest t now h0 h1 n0 n1]
  have : ¬ (maxAge > 0 ∧ (now - t < 0 ∨ now - t > maxAge)) := by omega
  rw [if_neg this]

/-- **expired_refused**: an honest cookie is refused once it is older than `maxAge`, and also
when it is dated in the future. -/
theorem expired_refused (mac : Bytes → Bytes → Bytes) (hmac : ∀ k p, (mac k p).length = 32)
    (v s u r key : Bytes) (t maxAge now : Int)
    (hv : v.length < 65536) (hs : s.length < 65536) (hu : u.length < 65536) (hr : r.length < 65536)
    (h0 : 0 ≤ t) (h1 : t < two63) (n0 : 0 ≤ now) (n1 : now < two63)
    (hmax : 0 < maxAge) (hage : now - t < 0 ∨ maxAge < now - t) :
    unpack mac (pack mac v s u r key t) key maxAge now = .error .expired := by
  rw [unpack_pack mac hmac v s u r key t maxAge now hv hs hu hr h0 h1,
    ageOf_honest t now h0 h1 n0 n1]
  have : (maxAge > 0 ∧ (now - t < 0 ∨ now - t > maxAge)) := by omega
  rw [if_pos this]

/-- **accept_implies_mac**: ANY cookie value the server accepts decodes to `p ++ mac key p` for
some payload `p` — its last 32 bytes are the MAC, under the server's key, of everything before
them —, `p` has version 4, the returned fields are the field walk of `p`, and (when an age limit
is set) the timestamp inside `p` lies in the window. Accepting an altered, truncated or
foreign-key cookie therefore requires a valid MAC on the altered bytes. -/
theorem accept_implies_mac (mac : Bytes → Bytes → Bytes) (c key : Bytes) (maxAge now : Int) (f : Fields)
    (h : unpack mac c key maxAge now = .ok f) :
    ∃ p, decodeCookie c = some (p ++ mac key p) ∧ 17 ≤ p.length ∧
      p.head? = some cookieVersion ∧ parseFields (p.drop 9) = some f ∧
      (0 < maxAge → 0 ≤ ageOf (ofLE ((p.drop 1).take 8)) now ∧
        ageOf (ofLE ((p.drop 1).take 8)) now ≤ maxAge) := by
  unfold unpack at h
  split at h
  · cases h
  · rename_i raw hdec
    unfold unpackRaw at h
    split at h
    · cases h
    · rename_i hlen
      simp only at h
      split at h
      · cases h
      · rename_i htag
        split at h
        · cases h
        · rename_i hver
          split at h
          · cases h
          · rename_i hage
            split at h
            · rename_i f' hpf
              cases h
              refine ⟨raw.take (raw.length - macLen), ?_, ?_, ?_, hpf, ?_⟩
              · have ht : raw.drop (raw.length - macLen) = mac key (raw.take (raw.length - macLen)) := by
                  simpa using htag
                rw [← ht, List.take_append_drop]
                exact hdec
              · simp [minLen, macLen] at hlen ⊢; omega
              · simpa using hver
              · intro hm
                unfold ageOf
                omega
            · cases h

/-- **altered_refused**: a cookie whose decoded bytes are not `p ++ mac key p` for any `p` is
refused (contrapositive of `accept_implies_mac`). -/
theorem altered_refused (mac : Bytes → Bytes → Bytes) (c key raw : Bytes) (maxAge now : Int)
    (hdec : decodeCookie c = some raw) (hforged : ¬ ∃ p, raw = p ++ mac key p) :
    ∃ e, unpack mac c key maxAge now = .error e := by
  cases h : unpack mac c key maxAge now with
  | error e => exact ⟨e, rfl⟩
  | ok f =>
    obtain ⟨p, hp, _⟩ := accept_implies_mac mac c key maxAge now f h
    rw [hdec] at hp
    exact absurd ⟨p, Option.some.inj hp⟩ hforged

/-- **foreign_key_refused**: a cookie signed under another key is refused unless the two keys
produce the same tag on that payload. -/
theorem foreign_key_refused (mac : Bytes → Bytes → Bytes) (hmac : ∀ k p, (mac k p).length = 32)
    (p key key' : Bytes) (maxAge now : Int) (hne : mac key' p ≠ mac key p) :
    ∃ e, unpack mac (b64encode (p ++ mac key' p)) key maxAge now = .error e := by
  apply altered_refused mac _ key (p ++ mac key' p) maxAge now (decodeCookie_encode _)
  rintro ⟨q, hq⟩
  have hl : p.length = q.length := by
    have := congrArg List.length hq
    simp [hmac] at this
    exact this
  have := List.append_inj hq hl
  rw [← this.1] at this
  exact hne this.2

/-- The MAC the driver runs (HMAC-SHA256 written in Lean) satisfies the one structural fact the
theorems above assume. -/
theorem hmac_instance : ∀ k p, (Sha256.hmac k p).length = 32 := Sha256.hmac_length

-- non-vacuity: with a toy keyed function, a concrete cookie round-trips inside its window, expires
-- one second later, and is refused under another key
def toyMac (k p : Bytes) : Bytes := (k ++ p ++ List.replicate 32 0).take 32

example : (unpack toyMac (pack toyMac [1, 2] [3] [47, 97] [] [9, 9] 1000) [9, 9] 600 1600).toOption
    = some ⟨[1, 2], [3], [47, 97], []⟩ := by decide
example : (match unpack toyMac (pack toyMac [1, 2] [3] [47, 97] [] [9, 9] 1000) [9, 9] 600 1601 with
    | .error e => some e | .ok _ => none) = some .expired := by decide
example : (match unpack toyMac (pack toyMac [1, 2] [3] [47, 97] [] [9, 9] 1000) [9, 8] 600 1600 with
    | .error e => some e | .ok _ => none) = some .sig := by decide

/-! ## 2. The redirect validators -/

/-- **return_to_sound**: `validateReturnTo` answers `""` or the input itself, and the latter only
for a non-empty input of at most 2048 bytes that satisfies `AllowedReturn`. -/
theorem return_to_sound (allow : List Bytes) (u : Bytes) :
    validateReturnTo u allow = [] ∨
      (validateReturnTo u allow = u ∧ u ≠ [] ∧ u.length ≤ maxReturnToLen ∧ AllowedReturn allow u) := by
  unfold validateReturnTo
  split
  · exact Or.inl rfl
  · rename_i hlen
    split
    · exact Or.inl rfl
    · rename_i p hp
      split
      · exact Or.inl rfl
      · rename_i hsch
        split
        · exact Or.inl rfl
        · rename_i hhost
          split
          · rename_i hok
            refine Or.inr ⟨rfl, ?_, ?_, ?_⟩
            · intro he; exact hlen (Or.inl he)
            · have : ¬ u.length > maxReturnToLen := fun h => hlen (Or.inr h)
              omega
            · have hs : p.scheme ≠ [] := by
                intro he
                apply hsch
                rw [he]
                exact ⟨by decide, by decide⟩
              obtain ⟨schemeRaw, userPart, hostRaw, tail, he, hsc, hup, hend, hph⟩ :=
                parseURL_shape u p hp hs hhost
              have hsch' : p.scheme = sHttp ∨ p.scheme = sHttps := by
                by_cases h1 : p.scheme = sHttp
                · exact Or.inl h1
                · by_cases h2 : p.scheme = sHttps
                  · exact Or.inr h2
                  · exact absurd ⟨h1, h2⟩ hsch
              rw [hsc] at hsch' hph hok
              exact ⟨schemeRaw, userPart, hostRaw, tail, p.host, he, hsch', hup,
                parseHost_hostBytes _ _ _ hph, hend, hph, hhost, originAllowed_spec allow _ _ hok⟩
          · exact Or.inl rfl

/-- What `validateOriginalURL` can return: the fallback (`prefix`, or `/`), or the input
(cut to 2048 bytes) which then starts with the prefix and parses as a reference with neither
scheme nor host. -/
theorem original_url_cases (u pfx : Bytes) :
    validateOriginalURL u pfx = fallback pfx ∨
    ((validateOriginalURL u pfx = u ∨ validateOriginalURL u pfx = u.take maxOriginalURLLen) ∧
      (pfx ≠ [] → startsWith pfx (validateOriginalURL u pfx) = true) ∧
      parseURL (validateOriginalURL u pfx) = some ⟨[], []⟩ ∧
      (validateOriginalURL u pfx).length ≤ maxOriginalURLLen ∧
      SafeLocal (validateOriginalURL u pfx)) := by
  unfold validateOriginalURL
  generalize hu' : (if u.length > maxOriginalURLLen then u.take maxOriginalURLLen else u) = u'
  have hcases : (u' = u ∨ u' = u.take maxOriginalURLLen) ∧ u'.length ≤ maxOriginalURLLen := by
    by_cases h : u.length > maxOriginalURLLen
    · rw [if_pos h] at hu'; subst hu'
      exact ⟨Or.inr rfl, by simp; omega⟩
    · rw [if_neg h] at hu'; subst hu'
      exact ⟨Or.inl rfl, by omega⟩
  simp only
  split
  · exact Or.inl rfl
  · rename_i p hp
    split
    · exact Or.inl rfl
    · rename_i hsh
      split
      · exact Or.inl rfl
      · rename_i hpre
        split
        · exact Or.inl rfl
        rename_i hss
        have hss' : singleSlash u' = true := by simpa using hss
        refine Or.inr ⟨hcases.1, ?_, ?_, hcases.2, singleSlash_safeLocal u' hss'⟩
        · intro hne
          by_cases hsw : startsWith pfx u' = true
          · exact hsw
          · exact absurd ⟨hne, hsw⟩ hpre
        · have h1 : p.scheme = [] := by
            by_cases h : p.scheme = []
            · exact h
            · exact absurd (Or.inl h) hsh
          have h2 : p.host = [] := by
            by_cases h : p.host = []
            · exact h
            · exact absurd (Or.inr h) hsh
          rw [hp]
          cases p
          simp only at h1 h2
          rw [h1, h2]

/-- **original_url_safe** (full strength since the F27 fix): for EVERY input and every sane prefix
(empty, or itself `/` or `/x…` with `x` not `/` or `\`), the result is an origin-relative path
under the prefix: it starts with the prefix, with exactly one `/`, and its second byte is neither
`/` nor `\`. Before the fix this needed the hypothesis that the input itself had that shape
(`///evil`, `/\evil`, `\\evil` were kept under an empty prefix). -/
theorem original_url_safe (u pfx : Bytes) (hg : GoodPrefix pfx) :
    SafeLocal (validateOriginalURL u pfx) ∧ startsWith pfx (validateOriginalURL u pfx) = true := by
  rcases original_url_cases u pfx with h | ⟨_, hpre, _, _, hsafe⟩
  · rw [h]; exact fallback_safe pfx hg
  · refine ⟨hsafe, ?_⟩
    by_cases hp : pfx = []
    · subst hp; simp [startsWith]
    · exact hpre hp

-- non-vacuity (byte lists are the UTF-8 of the quoted text): an allowlisted URL with userinfo and
-- port is accepted, look-alikes are not; prefix check and host check of the original URL both bite
/-- "HTTPS://u:p@allowed.example:8443/app?x#y" with allow ["https://allowed.example"] is kept -/
example : validateReturnTo ([72, 84, 84, 80, 83, 58, 47, 47, 117, 58, 112, 64, 97, 108, 108, 111, 119, 101, 100, 46, 101, 120, 97, 109, 112, 108, 101, 58, 56, 52, 52, 51, 47, 97, 112, 112, 63, 120, 35, 121] : Bytes)
    [([104, 116, 116, 112, 115, 58, 47, 47, 97, 108, 108, 111, 119, 101, 100, 46, 101, 120, 97, 109, 112, 108, 101] : Bytes)] = ([72, 84, 84, 80, 83, 58, 47, 47, 117, 58, 112, 64, 97, 108, 108, 111, 119, 101, 100, 46, 101, 120, 97, 109, 112, 108, 101, 58, 56, 52, 52, 51, 47, 97, 112, 112, 63, 120, 35, 121] : Bytes) := by
  decide
/-- "https://allowed.example@evil.example/" is refused -/
example : validateReturnTo ([104, 116, 116, 112, 115, 58, 47, 47, 97, 108, 108, 111, 119, 101, 100, 46, 101, 120, 97, 109, 112, 108, 101, 64, 101, 118, 105, 108, 46, 101, 120, 97, 109, 112, 108, 101, 47] : Bytes)
    [([104, 116, 116, 112, 115, 58, 47, 47, 97, 108, 108, 111, 119, 101, 100, 46, 101, 120, 97, 109, 112, 108, 101] : Bytes)] = [] := by decide
/-- "https://allowed.example.evil.example/" is refused -/
example : validateReturnTo ([104, 116, 116, 112, 115, 58, 47, 47, 97, 108, 108, 111, 119, 101, 100, 46, 101, 120, 97, 109, 112, 108, 101, 46, 101, 118, 105, 108, 46, 101, 120, 97, 109, 112, 108, 101, 47] : Bytes)
    [([104, 116, 116, 112, 115, 58, 47, 47, 97, 108, 108, 111, 119, 101, 100, 46, 101, 120, 97, 109, 112, 108, 101] : Bytes)] = [] := by decide
/-- "http://localhost:5173/cb" needs no list entry -/
example : validateReturnTo ([104, 116, 116, 112, 58, 47, 47, 108, 111, 99, 97, 108, 104, 111, 115, 116, 58, 53, 49, 55, 51, 47, 99, 98] : Bytes) [] = ([104, 116, 116, 112, 58, 47, 47, 108, 111, 99, 97, 108, 104, 111, 115, 116, 58, 53, 49, 55, 51, 47, 99, 98] : Bytes) := by
  decide
/-- "/vgi/describe?a=b" under "/vgi" is kept -/
example : validateOriginalURL ([47, 118, 103, 105, 47, 100, 101, 115, 99, 114, 105, 98, 101, 63, 97, 61, 98] : Bytes) ([47, 118, 103, 105] : Bytes)
    = ([47, 118, 103, 105, 47, 100, 101, 115, 99, 114, 105, 98, 101, 63, 97, 61, 98] : Bytes) := by decide
/-- "//evil.example/vgi" under "/vgi" falls back to "/vgi" -/
example : validateOriginalURL ([47, 47, 101, 118, 105, 108, 46, 101, 120, 97, 109, 112, 108, 101, 47, 118, 103, 105] : Bytes) ([47, 118, 103, 105] : Bytes)
    = ([47, 118, 103, 105] : Bytes) := by decide
/-- "//evil.example" under "" falls back to "/" -/
example : validateOriginalURL ([47, 47, 101, 118, 105, 108, 46, 101, 120, 97, 109, 112, 108, 101] : Bytes) [] = ([47] : Bytes) := by decide

/-! ## 3. The handlers -/

/-- Complete case analysis of `handleOAuthCallback`: either it refuses without ever calling the
token endpoint, or the query carried no `error`, a non-empty `code` and `state`, the session
cookie unpacked under the server key at this clock, the returned state EQUALS the packed state,
discovery worked — and then exactly one exchange `(code, packed verifier)` happens, followed by
a 502, a redirect to the packed return URL with the token in the fragment, or a redirect to the
re-validated original URL with the token in the auth cookie only. -/
theorem callback_cases (mac : Bytes → Bytes → Bytes) (cfg : Cfg) (errParam code state : Bytes)
    (cookie : Option Bytes) (now : Int) (disc : Bool) (idp : Option Bytes) :
    ((callback mac cfg errParam code state cookie now disc idp).exchanged = none ∧
      ∃ n, (callback mac cfg errParam code state cookie now disc idp).out = .refused n) ∨
    (∃ ck f, cookie = some ck ∧ errParam = [] ∧ code ≠ [] ∧ state ≠ [] ∧
      unpack mac ck cfg.sessionKey sessionMaxAge now = .ok f ∧ state = f.state ∧ disc = true ∧
      (callback mac cfg errParam code state cookie now disc idp).exchanged = some (code, f.verifier) ∧
      ((idp = none ∧ (callback mac cfg errParam code state cookie now disc idp).out = .refused 502) ∨
       (∃ tok, idp = some tok ∧ f.returnTo ≠ [] ∧
          (callback mac cfg errParam code state cookie now disc idp).out = .external (withToken f.returnTo tok)) ∨
       (∃ tok, idp = some tok ∧ f.returnTo = [] ∧
          (callback mac cfg errParam code state cookie now disc idp).out =
            .sameOrigin (validateOriginalURL f.originalURL cfg.pfx) tok))) := by
  unfold callback
  split
  · exact Or.inl ⟨rfl, _, rfl⟩
  · rename_i herr
    split
    · exact Or.inl ⟨rfl, _, rfl⟩
    · rename_i hcs
      split
      · exact Or.inl ⟨rfl, _, rfl⟩
      · rename_i ck
        split
        · exact Or.inl ⟨rfl, _, rfl⟩
        · split
          · exact Or.inl ⟨rfl, _, rfl⟩
          · rename_i f hun
            split
            · exact Or.inl ⟨rfl, _, rfl⟩
            · rename_i hst
              split
              · exact Or.inl ⟨rfl, _, rfl⟩
              · rename_i hdisc
                have h1 : errParam = [] := by simpa using herr
                have h2 : code ≠ [] ∧ state ≠ [] := by
                  constructor
                  · intro h; exact hcs (Or.inl h)
                  · intro h; exact hcs (Or.inr h)
                have h3 : state = f.state := by simpa using hst
                have h4 : disc = true := by simpa using hdisc
                refine Or.inr ⟨ck, f, rfl, h1, h2.1, h2.2, hun, h3, h4, ?_⟩
                split
                · exact ⟨rfl, Or.inl ⟨rfl, rfl⟩⟩
                · rename_i tok
                  split
                  · rename_i hrt
                    exact ⟨rfl, Or.inr (Or.inl ⟨tok, rfl, hrt, rfl⟩)⟩
                  · rename_i hrt
                    exact ⟨rfl, Or.inr (Or.inr ⟨tok, rfl, by simpa using hrt, rfl⟩)⟩

/-- **exchange_only_on_state_match**: if the callback posts `(c, v)` to the token endpoint then
the session cookie was present and valid under the server key at this clock, the returned state
equals the state packed in it, `c` is the returned code and `v` the packed verifier. -/
theorem exchange_only_on_state_match (mac : Bytes → Bytes → Bytes) (cfg : Cfg)
    (errParam code state : Bytes) (cookie : Option Bytes) (now : Int) (disc : Bool)
    (idp : Option Bytes) (c v : Bytes)
    (h : (callback mac cfg errParam code state cookie now disc idp).exchanged = some (c, v)) :
    ∃ ck f, cookie = some ck ∧ unpack mac ck cfg.sessionKey sessionMaxAge now = .ok f ∧
      f.state = state ∧ state ≠ [] ∧ c = code ∧ code ≠ [] ∧ v = f.verifier ∧ errParam = [] := by
  rcases callback_cases mac cfg errParam code state cookie now disc idp with ⟨hn, _⟩ | ⟨ck, f, hck, he, hc, hs, hun, hst, _, hex, _⟩
  · rw [hn] at h; cases h
  · rw [hex] at h
    cases h
    exact ⟨ck, f, hck, hun, hst.symm, hs, rfl, hc, rfl, he⟩

/-- **redirect_only_after_exchange**: every 302 of the callback follows an exchange that met the
conditions above; its target is built from the fields of the accepted cookie only. -/
theorem callback_redirect_targets (mac : Bytes → Bytes → Bytes) (cfg : Cfg)
    (errParam code state : Bytes) (cookie : Option Bytes) (now : Int) (disc : Bool)
    (idp : Option Bytes) :
    match (callback mac cfg errParam code state cookie now disc idp).out with
    | .refused _ => True
    | .external loc => ∃ ck f tok, cookie = some ck ∧
        unpack mac ck cfg.sessionKey sessionMaxAge now = .ok f ∧ f.state = state ∧ idp = some tok ∧
        f.returnTo ≠ [] ∧ loc = withToken f.returnTo tok
    | .sameOrigin loc a => ∃ ck f, cookie = some ck ∧
        unpack mac ck cfg.sessionKey sessionMaxAge now = .ok f ∧ f.state = state ∧ idp = some a ∧
        f.returnTo = [] ∧ loc = validateOriginalURL f.originalURL cfg.pfx := by
  rcases callback_cases mac cfg errParam code state cookie now disc idp with ⟨_, n, hn⟩ | ⟨ck, f, hck, _, _, _, hun, hst, _, _, hout⟩
  · rw [hn]; trivial
  · rcases hout with ⟨_, ho⟩ | ⟨tok, hi, hrt, ho⟩ | ⟨tok, hi, hrt, ho⟩
    · rw [ho]; trivial
    · rw [ho]; exact ⟨ck, f, tok, hck, hun, hst.symm, hi, hrt, rfl⟩
    · rw [ho]; exact ⟨ck, f, hck, hun, hst.symm, hi, hrt, rfl⟩

/-- **token_not_in_same_origin_location**: the Location of a same-origin redirect is a function
of the cookie and the prefix alone — run the same callback with any other token and a same-origin
redirect goes to the identical target; so the target cannot carry the token. -/
theorem token_not_in_same_origin_location (mac : Bytes → Bytes → Bytes) (cfg : Cfg)
    (errParam code state : Bytes) (cookie : Option Bytes) (now : Int) (disc : Bool)
    (tok tok' loc loc' a a' : Bytes)
    (h : (callback mac cfg errParam code state cookie now disc (some tok)).out = .sameOrigin loc a)
    (h' : (callback mac cfg errParam code state cookie now disc (some tok')).out = .sameOrigin loc' a') :
    loc = loc' ∧ a = tok ∧ a' = tok' := by
  have t1 := callback_redirect_targets mac cfg errParam code state cookie now disc (some tok)
  have t2 := callback_redirect_targets mac cfg errParam code state cookie now disc (some tok')
  rw [h] at t1
  rw [h'] at t2
  obtain ⟨ck, f, hck, hun, _, hi, _, hl⟩ := t1
  obtain ⟨ck', f', hck', hun', _, hi', _, hl'⟩ := t2
  rw [hck] at hck'
  cases hck'
  rw [hun] at hun'
  cases hun'
  cases hi
  cases hi'
  exact ⟨by rw [hl, hl'], rfl, rfl⟩

/-- `AllowedReturn` of whatever `validateReturnTo` lets through. -/
theorem return_to_allowed (allow : List Bytes) (u : Bytes) (h : validateReturnTo u allow ≠ []) :
    AllowedReturn allow (validateReturnTo u allow) ∧ (validateReturnTo u allow).length ≤ maxReturnToLen := by
  rcases return_to_sound allow u with h0 | ⟨he, _, hl, ha⟩
  · exact absurd h0 h
  · rw [he]; exact ⟨ha, hl⟩

theorem return_to_length (allow : List Bytes) (u : Bytes) :
    (validateReturnTo u allow).length ≤ maxReturnToLen := by
  rcases return_to_sound allow u with h0 | ⟨he, _, hl, _⟩
  · rw [h0]; simp
  · rw [he]; exact hl

theorem original_url_length (u pfx : Bytes) :
    (validateOriginalURL u pfx).length ≤ max maxOriginalURLLen (max pfx.length 1) := by
  rcases original_url_cases u pfx with h | ⟨_, _, _, hl⟩
  · rw [h]; unfold fallback
    by_cases hp : pfx = []
    · simp [hp]; omega
    · simp [hp]; omega
  · omega

/-- The original URL the login handler builds from a page route. -/
def loginOriginal (path rawQuery : Bytes) : Bytes :=
  if rawQuery ≠ [] then path ++ cQuest :: rawQuery else path

theorem loginOriginal_safe (rawQuery : Bytes) : SafeLocal (loginOriginal [cSlash] rawQuery) := by
  unfold loginOriginal
  by_cases h : rawQuery = []
  · simp [h, SafeLocal]
  · simp only [ne_eq, h, not_false_eq_true, if_true]
    exact ⟨rfl, by decide, by decide⟩

/-- **login_packs_validated**: the session cookie `pkceRedirectToOAuth` sets carries, besides the
fresh verifier and state, a return URL that is empty or `AllowedReturn`, and an original URL that
is an origin-relative path under the prefix; all four fields fit the uint16 length prefix. -/
theorem login_packs_validated (cfg : Cfg) (hg : GoodPrefix cfg.pfx) (hpl : cfg.pfx.length < 65536)
    (path rawQuery rtParam verifier st : Bytes)
    (hv : verifier.length < 65536) (hs : st.length < 65536) :
    let f := loginFields cfg path rawQuery rtParam verifier st
    f.verifier = verifier ∧ f.state = st ∧
    (f.returnTo = [] ∨ AllowedReturn cfg.allow f.returnTo) ∧
    SafeLocal f.originalURL ∧ startsWith cfg.pfx f.originalURL = true ∧
    f.verifier.length < 65536 ∧ f.state.length < 65536 ∧ f.originalURL.length < 65536 ∧
    f.returnTo.length < 65536 := by
  intro f
  have hf : f = ⟨verifier, st, validateOriginalURL (loginOriginal path rawQuery) cfg.pfx,
      validateReturnTo rtParam cfg.allow⟩ := rfl
  have hsafe := original_url_safe (loginOriginal path rawQuery) cfg.pfx hg
  have hlen := original_url_length (loginOriginal path rawQuery) cfg.pfx
  have hrl := return_to_length cfg.allow rtParam
  rw [hf]
  refine ⟨rfl, rfl, ?_, hsafe.1, hsafe.2, hv, hs, ?_, ?_⟩
  · by_cases h : validateReturnTo rtParam cfg.allow = []
    · exact Or.inl h
    · exact Or.inr (return_to_allowed cfg.allow rtParam h).1
  · simp only [maxOriginalURLLen] at hlen ⊢; omega
  · simp only [maxReturnToLen] at hrl ⊢; omega

/-- **flow_redirect_safe** (end to end, for a cookie the server itself issued): take ANY page
request the login handler may see and the cookie it sets at time `t`; present that cookie to the
callback with ANY query, clock, discovery and token-endpoint outcome. Then a redirect carrying
the token in its fragment goes to `validateReturnTo` of the login request's `_vgi_return_to`,
which is `AllowedReturn`; a same-origin redirect goes to an origin-relative path under the
prefix and the token is only in the auth cookie; and either redirect implies the returned state
is the state packed at login. -/
theorem flow_redirect_safe (mac : Bytes → Bytes → Bytes) (hmac : ∀ k p, (mac k p).length = 32)
    (cfg : Cfg) (hg : GoodPrefix cfg.pfx) (hpl : cfg.pfx.length < 65536)
    (path rawQuery rtParam verifier st : Bytes) (t : Int)
    (hv : verifier.length < 65536) (hs : st.length < 65536) (h0 : 0 ≤ t) (h1 : t < two63)
    (errParam code state : Bytes) (now : Int) (disc : Bool) (idp : Option Bytes) :
    match (callback mac cfg errParam code state
        (some (loginCookie mac cfg path rawQuery rtParam verifier st t)) now disc idp).out with
    | .refused _ => True
    | .external loc => ∃ tok, idp = some tok ∧ state = st ∧
        AllowedReturn cfg.allow (validateReturnTo rtParam cfg.allow) ∧
        loc = withToken (validateReturnTo rtParam cfg.allow) tok
    | .sameOrigin loc a => idp = some a ∧ state = st ∧ SafeLocal loc ∧ startsWith cfg.pfx loc = true := by
  have hl := login_packs_validated cfg hg hpl path rawQuery rtParam verifier st hv hs
  simp only at hl
  obtain ⟨_, _, hrt, hso, hsp, _, _, hol, hrl⟩ := hl
  have hf : loginFields cfg path rawQuery rtParam verifier st =
      ⟨verifier, st, validateOriginalURL (loginOriginal path rawQuery) cfg.pfx,
        validateReturnTo rtParam cfg.allow⟩ := rfl
  rw [hf] at hrt hso hsp hol hrl
  simp only at hrt hso hsp hol hrl
  have hun := unpack_pack mac hmac verifier st
    (validateOriginalURL (loginOriginal path rawQuery) cfg.pfx) (validateReturnTo rtParam cfg.allow)
    cfg.sessionKey t sessionMaxAge now hv hs hol hrl h0 h1
  have hck : loginCookie mac cfg path rawQuery rtParam verifier st t =
      pack mac verifier st (validateOriginalURL (loginOriginal path rawQuery) cfg.pfx)
        (validateReturnTo rtParam cfg.allow) cfg.sessionKey t := rfl
  have key : ∀ f, unpack mac (loginCookie mac cfg path rawQuery rtParam verifier st t) cfg.sessionKey
      sessionMaxAge now = .ok f →
      f = ⟨verifier, st, validateOriginalURL (loginOriginal path rawQuery) cfg.pfx,
        validateReturnTo rtParam cfg.allow⟩ := by
    intro f hf'
    rw [hck, hun] at hf'
    split at hf'
    · cases hf'
    · cases hf'; rfl
  have tg := callback_redirect_targets mac cfg errParam code state
    (some (loginCookie mac cfg path rawQuery rtParam verifier st t)) now disc idp
  cases hout : (callback mac cfg errParam code state
      (some (loginCookie mac cfg path rawQuery rtParam verifier st t)) now disc idp).out with
  | refused n => trivial
  | external loc =>
    rw [hout] at tg
    obtain ⟨ck, f, tok, hck', hun', hst, hi, hne, hloc⟩ := tg
    cases hck'
    have := key f hun'
    subst this
    simp only at hst hne hloc
    refine ⟨tok, hi, hst.symm, ?_, hloc⟩
    rcases hrt with h | h
    · exact absurd h hne
    · exact h
  | sameOrigin loc a =>
    rw [hout] at tg
    obtain ⟨ck, f, hck', hun', hst, hi, _, hloc⟩ := tg
    cases hck'
    have := key f hun'
    subst this
    simp only at hst hloc
    have := original_url_safe (validateOriginalURL (loginOriginal path rawQuery) cfg.pfx) cfg.pfx hg
    rw [hloc]
    exact ⟨hi, hst.symm, this.1, this.2⟩

/-- **early_return_safe**: the already-authenticated shortcut puts the caller's token only into a
redirect to an `AllowedReturn` URL (the validated `_vgi_return_to` of that very request). -/
theorem early_return_safe (cfg : Cfg) (rtParam : Bytes) (authCookie : Option Bytes) (expired : Bool)
    (loc : Bytes) (h : earlyReturn cfg rtParam authCookie expired = some loc) :
    ∃ tok, authCookie = some tok ∧ tok ≠ [] ∧ expired = false ∧
      AllowedReturn cfg.allow (validateReturnTo rtParam cfg.allow) ∧
      loc = withToken (validateReturnTo rtParam cfg.allow) tok := by
  unfold earlyReturn at h
  simp only at h
  split at h
  · cases h
  · rename_i hrt
    split at h
    · cases h
    · rename_i tok
      split at h
      · cases h
      · rename_i htok
        split at h
        · cases h
        · rename_i hexp
          cases h
          exact ⟨tok, rfl, htok, by simpa using hexp, (return_to_allowed cfg.allow rtParam hrt).1, rfl⟩

/-- The fragment separator never rewrites the return URL: the Location starts with it. -/
theorem withToken_prefix (rt tok : Bytes) : ∃ sep, (sep = [38] ∨ sep = [cHash]) ∧
    withToken rt tok = rt ++ sep ++ sTokenEq ++ tok := by
  unfold withToken
  by_cases h : rt.contains cHash = true
  · exact ⟨[38], Or.inl rfl, by rw [if_pos h]⟩
  · exact ⟨[cHash], Or.inr rfl, by rw [if_neg h]⟩

-- non-vacuity of the end-to-end statement: with the toy MAC, a login on "/vgi/describe" with
-- `_vgi_return_to=http://localhost/` followed by a matching callback yields an external redirect
/-- allow [] , prefix "/vgi", state [7], verifier [8] -/
example : (callback toyMac ⟨[47, 118, 103, 105], [], [1]⟩ [] [99] [7]
    (some (loginCookie toyMac ⟨[47, 118, 103, 105], [], [1]⟩ [47, 118, 103, 105] [] 
      [104, 116, 116, 112, 58, 47, 47, 108, 111, 99, 97, 108, 104, 111, 115, 116, 47] [8] [7] 1000))
    1001 true (some [84])).out
    = .external ([104, 116, 116, 112, 58, 47, 47, 108, 111, 99, 97, 108, 104, 111, 115, 116, 47] ++ [35] ++ sTokenEq ++ [84]) := by
  decide
/-- same login without a return URL: same-origin redirect to "/vgi", and a wrong state is refused -/
example : (callback toyMac ⟨[47, 118, 103, 105], [], [1]⟩ [] [99] [7]
    (some (loginCookie toyMac ⟨[47, 118, 103, 105], [], [1]⟩ [47, 118, 103, 105] [] [] [8] [7] 1000))
    1001 true (some [84])) = ⟨.sameOrigin [47, 118, 103, 105] [84], some ([99], [8])⟩ := by decide
example : (callback toyMac ⟨[47, 118, 103, 105], [], [1]⟩ [] [99] [6]
    (some (loginCookie toyMac ⟨[47, 118, 103, 105], [], [1]⟩ [47, 118, 103, 105] [] [] [8] [7] 1000))
    1001 true (some [84])) = ⟨.refused 400, none⟩ := by decide

end Vgi.Props.C27
