import Vgi.Model.PipeSession
/-!
# C02 — A pipe/socket session stays in frame after every request, good or bad

Theorems about `Vgi.Pipe.serve` / `serveOne` (model of `ServeWithContext`, `serveOne`,
`serveUnary`, `serveStream`). They hold for EVERY configuration — every method table, every
protocol-version gate and every handler behaviour (`Cfg.unary`, `Cfg.stream` are arbitrary
functions: value, error, panic, nil result, wrong state type, any per-tick outcome including
contract violations) — and for every finite history of well-shaped client calls, with arbitrary
request metadata, parameter schemas, input batches and cancel points.
-/
namespace Vgi.Props.C02
open Vgi Vgi.Wire Vgi.Pipe

/-! ## Each request consumes exactly its own frames -/

/-- "exactly one complete response": one data stream, preceded by at most one header stream. -/
def Shape (rs : List RespStream) : Prop :=
  (∃ d, rs = [d] ∧ d.header = false) ∨
  (∃ hd d, rs = [hd, d] ∧ hd.header = true ∧ d.header = false)

theorem readRequestStream_nonempty {s : Stream} (h : s.batches ≠ []) :
    readRequestStream s ≠ .error .eof ∧ readRequestStream s ≠ .error .transport := by
  unfold readRequestStream
  cases hb : s.batches with
  | nil => exact absurd hb h
  | cons b r =>
    simp only
    repeat' split
    all_goals simp

theorem serveUnary_header (cfg : Cfg) (info : MethodInfo) (req : Request) :
    (serveUnary cfg info req).header = false := by
  unfold serveUnary
  repeat' split
  all_goals rfl

/-- `serveStream` consumes the stream after the request on EVERY path (parameter mismatch, init
error / panic / nil result / wrong state type, lockstep loop), and when the client wrote an input
stream the answer is one data stream preceded by at most one header stream. -/
theorem serveStream_spec (cfg : Cfg) (info : MethodInfo) (req : Request) (next : Option Stream) :
    ∃ rs, serveStream cfg info req next = .resp rs true ∧ (next.isSome = true → Shape rs) := by
  unfold serveStream
  by_cases hp : bindOk cfg info req = true
  · simp only [hp, Bool.not_true, Bool.false_eq_true, if_false]
    cases cfg.stream req.method req.batch.cells with
    | error ty => exact ⟨_, rfl, fun _ => .inl ⟨_, rfl, rfl⟩⟩
    | panic => exact ⟨_, rfl, fun _ => .inl ⟨_, rfl, rfl⟩⟩
    | nilResult => exact ⟨_, rfl, fun _ => .inl ⟨_, rfl, rfl⟩⟩
    | ok logs hdr stInput st =>
      simp only
      split
      · exact ⟨_, rfl, fun _ => .inl ⟨_, rfl, rfl⟩⟩
      · cases next with
        | none => exact ⟨_, rfl, fun h => by simp at h⟩
        | some inp =>
          simp only
          refine ⟨_, rfl, fun _ => ?_⟩
          by_cases hh : (info.hasHeader && hdr) = true
          · simp only [hh, if_true]
            exact .inr ⟨_, _, rfl, rfl, rfl⟩
          · simp only [hh, if_false]
            exact .inl ⟨_, rfl, rfl⟩
  · simp only [hp, Bool.not_false, if_true]
    exact ⟨_, rfl, fun _ => .inl ⟨_, rfl, rfl⟩⟩

theorem dispatch_unary (cfg : Cfg) (info : MethodInfo) (req : Request) (hk : info.kind = .unary) :
    ∃ d, d.header = false ∧ ∀ next, dispatch cfg info req next = .resp [d] false := by
  unfold dispatch
  by_cases hr : refused cfg req = true
  · simp only [hr, if_true, hk, isStreamKind]
    exact ⟨_, rfl, fun _ => rfl⟩
  · simp only [hr, if_false, hk]
    exact ⟨_, serveUnary_header cfg info req, fun _ => rfl⟩

theorem dispatch_stream (cfg : Cfg) (info : MethodInfo) (req : Request) (hk : info.kind ≠ .unary)
    (next : Option Stream) :
    ∃ rs, dispatch cfg info req next = .resp rs true ∧ (next.isSome = true → Shape rs) := by
  unfold dispatch
  by_cases hr : refused cfg req = true
  · have hs : isStreamKind info.kind = true := by
      cases hkk : info.kind <;> simp_all [isStreamKind]
    simp only [hr, if_true, hs]
    exact ⟨_, rfl, fun _ => .inl ⟨_, rfl, rfl⟩⟩
  · simp only [hr, if_false]
    cases hkk : info.kind with
    | unary => exact absurd hkk hk
    | producer | exchange | dynamic => exact serveStream_spec cfg info req next

/-- A call that is not a stream call is answered by exactly one stream, without looking at, or
consuming, whatever follows it on the connection. -/
theorem unary_shaped_independent (cfg : Cfg) (op : ClientOp)
    (hb : op.request.batches ≠ []) (hs : isStreamCall cfg op = false) :
    ∃ d, d.header = false ∧ ∀ next, serveOne cfg op.request next = .resp [d] false := by
  have hne := readRequestStream_nonempty hb
  unfold isStreamCall at hs
  unfold serveOne
  cases hr : readRequestStream op.request with
  | error e =>
    cases e with
    | eof => exact absurd hr hne.1
    | transport => exact absurd hr hne.2
    | rpc ty => exact ⟨_, rfl, fun _ => rfl⟩
  | ok req =>
    simp only [hr] at hs
    simp only
    by_cases h1 : isShmPointer req.batch = true
    · simp only [h1, if_true] at hs ⊢
      rw [hs]; exact ⟨_, rfl, fun _ => rfl⟩
    · simp only [h1, if_false]
      by_cases h2 : req.method = mDescribe
      · simp only [h2, if_true]; exact ⟨_, rfl, fun _ => rfl⟩
      · simp only [h2, if_false]
        by_cases h3 : req.method = mTransportOptions
        · simp only [h3, if_true]; exact ⟨_, rfl, fun _ => rfl⟩
        · simp only [h3, if_false]
          cases hl : lookup cfg req.method with
          | none => exact ⟨_, rfl, fun _ => rfl⟩
          | some info =>
            have hu : info.kind = .unary := by
              cases hkk : info.kind <;> simp_all [isStreamKind, isStreamMethod]
            exact dispatch_unary cfg info req hu

/-- A stream call consumes the stream that follows its request on EVERY path: refusal by the
protocol-version gate, parameter mismatch, init error / panic / nil result / wrong state type,
and the lockstep loop (which closes its output and drains the input on every exit). -/
theorem stream_shaped_consumes (cfg : Cfg) (op : ClientOp) (hs : isStreamCall cfg op = true)
    (next : Option Stream) :
    ∃ rs, serveOne cfg op.request next = .resp rs true ∧ (next.isSome = true → Shape rs) := by
  unfold isStreamCall at hs
  unfold serveOne
  cases hr : readRequestStream op.request with
  | error e => simp [hr] at hs
  | ok req =>
    simp only [hr] at hs
    simp only
    by_cases h1 : isShmPointer req.batch = true
    · simp only [h1, if_true] at hs ⊢
      rw [hs]
      exact ⟨_, rfl, fun _ => .inl ⟨_, rfl, rfl⟩⟩
    · have hs' : (req.method != mDescribe && req.method != mTransportOptions &&
          isStreamMethod cfg req.method) = true := by simpa [h1] using hs
      simp only [Bool.and_eq_true, bne_iff_ne, ne_eq] at hs'
      obtain ⟨⟨h2, h3⟩, hk⟩ := hs'
      simp only [h1, h2, h3, if_false, Bool.false_eq_true]
      unfold isStreamMethod at hk
      cases hl : lookup cfg req.method with
      | none => simp [hl] at hk
      | some info =>
        simp only [hl] at hk
        simp only
        have hnu : info.kind ≠ .unary := by
          intro hu; simp [isStreamKind, hu] at hk
        exact dispatch_stream cfg info req hnu next

/-- `serveOne_consumes_exactly`: on a well-shaped call followed by anything, `serveOne` writes
the answer the call gets on a fresh connection and consumes exactly the call's own frames. -/
theorem serveOne_consumes_exactly (cfg : Cfg) (op : ClientOp) (h : WellShaped cfg op) :
    (op.input = none → ∀ next, serveOne cfg op.request next = .resp (expected cfg op) false) ∧
    (∀ i, op.input = some i → serveOne cfg op.request (some i) = .resp (expected cfg op) true) := by
  obtain ⟨hb, hi⟩ := h
  constructor
  · intro hin next
    have hs : isStreamCall cfg op = false := by rw [← hi, hin]; rfl
    obtain ⟨d, _, hrs⟩ := unary_shaped_independent cfg op hb hs
    unfold expected
    rw [hrs next, hrs op.input]
  · intro i hin
    have hs : isStreamCall cfg op = true := by rw [← hi, hin]; rfl
    obtain ⟨rs, hrs, _⟩ := stream_shaped_consumes cfg op hs (some i)
    unfold expected
    rw [hin, hrs]

/-- Serving a well-shaped call followed by any further client bytes = its own answer, then
serving those further bytes from a clean frame boundary. -/
theorem serve_frames_append (cfg : Cfg) (op : ClientOp) (rest : List Stream)
    (h : WellShaped cfg op) :
    serve cfg (frames op ++ rest) = (expected cfg op ++ (serve cfg rest).1, (serve cfg rest).2) := by
  obtain ⟨h1, h2⟩ := serveOne_consumes_exactly cfg op h
  cases hin : op.input with
  | none =>
    have hf : frames op = [op.request] := by simp [frames, hin]
    rw [hf]
    cases rest with
    | nil => simp [serve, h1 hin none]
    | cons n t => simp [serve, h1 hin (some n)]
  | some i =>
    have hf : frames op = [op.request, i] := by simp [frames, hin]
    rw [hf]
    simp [serve, h2 i hin]

/-! ## The property -/

/-- **frame_sync.** For every configuration and every finite history of well-shaped calls, the
server's output is exactly the concatenation, in request order, of the answers each call gets
alone on a fresh connection, and the loop ends at the end of input with nothing left unread. -/
theorem frame_sync (cfg : Cfg) (ops : List ClientOp) (h : ∀ op ∈ ops, WellShaped cfg op) :
    serve cfg (ops.flatMap frames) = (ops.flatMap (expected cfg), 0) := by
  induction ops with
  | nil => simp [serve]
  | cons op t ih =>
    have ht : ∀ o ∈ t, WellShaped cfg o := fun o ho => h o (List.mem_cons_of_mem _ ho)
    have hop : WellShaped cfg op := h op List.mem_cons_self
    rw [List.flatMap_cons, serve_frames_append cfg op _ hop, ih ht]
    simp

/-- **one_response_per_request.** A well-shaped call is answered by exactly one data stream,
preceded by at most one header stream — whatever the request looks like and whatever the handler
does. -/
theorem one_response_per_request (cfg : Cfg) (op : ClientOp) (h : WellShaped cfg op) :
    Shape (expected cfg op) := by
  obtain ⟨hb, hi⟩ := h
  cases hs : isStreamCall cfg op with
  | false =>
    obtain ⟨d, hd, hrs⟩ := unary_shaped_independent cfg op hb hs
    unfold expected
    rw [hrs op.input]
    exact .inl ⟨d, rfl, hd⟩
  | true =>
    rw [hs] at hi
    obtain ⟨rs, hrs, hshape⟩ := stream_shaped_consumes cfg op hs op.input
    unfold expected
    rw [hrs]
    exact hshape hi

/-- **in_order.** The answer to each call sits in the output exactly after the answers to the
calls before it and before the answers to the calls after it. -/
theorem in_order (cfg : Cfg) (pre post : List ClientOp) (op : ClientOp)
    (h : ∀ o ∈ pre ++ op :: post, WellShaped cfg o) :
    (serve cfg ((pre ++ op :: post).flatMap frames)).1 =
      pre.flatMap (expected cfg) ++ expected cfg op ++ post.flatMap (expected cfg) := by
  rw [frame_sync cfg _ h]
  simp

/-- **suffix_independent.** Nothing a (failed or successful) history leaves behind is read as
part of what follows: the answers to `ops₁ ++ ops₂` are the answers to `ops₁` followed by the
answers to `ops₂` on a fresh connection. -/
theorem suffix_independent (cfg : Cfg) (ops₁ ops₂ : List ClientOp)
    (h₁ : ∀ o ∈ ops₁, WellShaped cfg o) (h₂ : ∀ o ∈ ops₂, WellShaped cfg o) :
    (serve cfg ((ops₁ ++ ops₂).flatMap frames)).1 =
      (serve cfg (ops₁.flatMap frames)).1 ++ (serve cfg (ops₂.flatMap frames)).1 := by
  have h : ∀ o ∈ ops₁ ++ ops₂, WellShaped cfg o := by
    intro o ho
    rcases List.mem_append.mp ho with ho | ho
    · exact h₁ o ho
    · exact h₂ o ho
  rw [frame_sync cfg _ h, frame_sync cfg _ h₁, frame_sync cfg _ h₂]
  simp

/-- **next_request_served_correctly.** After any history — including calls answered with an
error (missing routing metadata, wrong request version or row count, unknown method, parameter
mismatch, protocol-version refusal, handler error or panic, stream-init failure, mid-stream
error, contract violation) and cancelled streams — the next call gets exactly the answer it
gets on a fresh connection. -/
theorem next_request_served_correctly (cfg : Cfg) (ops : List ClientOp) (op : ClientOp)
    (h : ∀ o ∈ ops, WellShaped cfg o) (hop : WellShaped cfg op) :
    serve cfg ((ops ++ [op]).flatMap frames) =
      ((serve cfg (ops.flatMap frames)).1 ++ expected cfg op, 0) := by
  have hall : ∀ o ∈ ops ++ [op], WellShaped cfg o := by
    intro o ho
    rcases List.mem_append.mp ho with ho | ho
    · exact h o ho
    · rw [List.mem_singleton.mp ho]; exact hop
  rw [frame_sync cfg _ hall, frame_sync cfg _ h]
  simp

/-- **refused_stream_call_drained** (the repaired defect F02). A stream call refused because
its parameters cannot be bound (schema mismatch, no row 0, bad embedded payload), or by the protocol-version gate, is answered
with one error stream AND its input stream is consumed. -/
theorem refused_stream_call_drained (cfg : Cfg) (s : Stream) (next : Option Stream)
    (req : Request) (info : MethodInfo)
    (hr : readRequestStream s = .ok req) (hp : isShmPointer req.batch = false)
    (hd : req.method ≠ mDescribe) (ht : req.method ≠ mTransportOptions)
    (hl : lookup cfg req.method = some info) (hk : info.kind ≠ .unary)
    (hbad : bindOk cfg info req = false ∨ refused cfg req = true) :
    ∃ ty, serveOne cfg s next = .resp [errStream ty req.requestId] true := by
  have hsk : isStreamKind info.kind = true := by
    cases hkk : info.kind <;> simp_all [isStreamKind]
  unfold serveOne
  simp only [hr, hp, hd, ht, hl, if_false, Bool.false_eq_true]
  unfold dispatch
  by_cases hg : refused cfg req = true
  · exact ⟨"ProtocolVersionError", by simp [hg, hsk]⟩
  · have hpm : bindOk cfg info req = false := by
      rcases hbad with h | h
      · exact h
      · exact absurd h hg
    refine ⟨"TypeError", ?_⟩
    simp only [hg, if_false, Bool.false_eq_true]
    cases hkk : info.kind with
    | unary => exact absurd hkk hk
    | producer | exchange | dynamic => simp [serveStream, hpm]

/-! ## Non-vacuity: a concrete server and a history mixing every failure class -/

namespace Ex

def sInt (n : UInt8) : Field := ⟨[n], [0x69], false⟩      -- type "i"
def sStr (n : UInt8) : Field := ⟨[n], [0x73], false⟩      -- type "s"

def nm (c : UInt8) : Bytes := [c]

/-- methods: `u` unary (a), `p` producer with header (a), `x` exchange (a) with input (v) -/
def methods : List MethodInfo :=
  [ ⟨nm 0x75, .unary, [sInt 0x61], true, false, none⟩,
    ⟨nm 0x70, .producer, [sInt 0x61], false, true, none⟩,
    ⟨nm 0x78, .exchange, [sInt 0x61], false, false, some [sInt 0x76]⟩ ]

/-- handlers keyed on the first parameter cell: 0 value, 1 error, 2 panic -/
def unaryH (_ : Bytes) (cells : List Bytes) : UnaryOutcome :=
  match cells with
  | [[0]] => .value 1 [[7]]
  | [[1]] => .error 2 "ValueError"
  | _ => .panic 0

/-- producer: emits one row per tick and finishes at the third; errors at tick 2 when `a = 5`;
exchange (when `a = 9`): never emits (contract violation) -/
def streamH (m : Bytes) (cells : List Bytes) : InitOutcome :=
  match cells with
  | [[1]] => .error "ValueError"
  | [[2]] => .panic
  | [[3]] => .nilResult
  | [[4]] => .ok 0 true none ⟨none, none⟩                              -- wrong state type
  | [[9]] => .ok 0 false none ⟨none, some (fun _ => .out [.log] false)⟩
  | [[a]] => .ok 1 (m = nm 0x70) none
      ⟨some (fun k =>
        if k ≥ 2 then .out [] true
        else if a = 5 ∧ k = 1 then .error "ValueError"
        else .out [.log, .data 1 [[UInt8.ofNat (k + 1)]]] false),
       some (fun seen => .out [.data 1 (seen.map (fun b => [UInt8.ofNat b.rows]))] false)⟩
  | _ => .panic

def cfg : Cfg :=
  { methods := methods, pvGate := some (fun v => v = some [0x31]), unary := unaryH,
    stream := streamH, bindFails := fun _ _ => false, canCast := fun _ _ _ => false }

def rq (m : Bytes) (id : UInt8) (sch : Schema) (cell : UInt8) (extra : Meta := []) : Stream :=
  ⟨sch, [⟨1, [(kMethod, m), (kRequestVersion, protocolVersion), (kRequestId, [id]),
               (kProtocolVersion, [0x31])] ++ extra, [[cell]]⟩], false⟩

def tick : Batch := ⟨0, [], []⟩
def cancel : Batch := ⟨0, [(kCancel, [])], []⟩
def inp (bs : List Batch) : Option Stream := some ⟨[], bs, false⟩

def history : List ClientOp :=
  [ ⟨rq (nm 0x75) 1 [sInt 0x61] 0, none⟩,                                  -- good unary
    ⟨⟨[], [⟨0, [], []⟩], false⟩, none⟩,                                   -- no routing metadata
    ⟨⟨[], [⟨0, [(kMethod, nm 0x75), (kRequestVersion, [0x32])], []⟩], false⟩, none⟩,  -- wrong version
    ⟨⟨[sInt 0x61], [⟨2, [(kMethod, nm 0x75), (kRequestVersion, protocolVersion)], [[0]]⟩], false⟩, none⟩, -- 2 rows
    ⟨rq (nm 0x7a) 2 [] 0, none⟩,                                          -- unknown method
    ⟨rq (nm 0x75) 3 [sStr 0x61] 0, none⟩,                                  -- unary param mismatch
    ⟨rq (nm 0x70) 4 [sStr 0x61] 0, inp [tick]⟩,                            -- stream param mismatch (F02)
    ⟨rq (nm 0x70) 5 [sInt 0x61] 0 [(kProtocolVersion, [0x32])], inp [tick, tick]⟩, -- version refusal (F02)
    ⟨rq (nm 0x75) 6 [sInt 0x61] 1, none⟩,                                  -- handler error
    ⟨rq (nm 0x75) 7 [sInt 0x61] 2, none⟩,                                  -- handler panic
    ⟨rq (nm 0x70) 8 [sInt 0x61] 1, inp [tick]⟩,                            -- init error
    ⟨rq (nm 0x70) 9 [sInt 0x61] 3, inp []⟩,                                -- nil result, empty input
    ⟨rq (nm 0x70) 10 [sInt 0x61] 4, inp [tick]⟩,                           -- wrong state type
    ⟨rq (nm 0x70) 11 [sInt 0x61] 5, inp [tick, tick, tick, tick]⟩,         -- mid-stream error
    ⟨rq (nm 0x78) 12 [sInt 0x61] 9, some ⟨[sInt 0x76], [⟨1, [], [[1]]⟩, ⟨1, [], [[2]]⟩], false⟩⟩, -- contract violation
    ⟨rq (nm 0x70) 13 [sInt 0x61] 0, inp [tick, cancel, tick]⟩,             -- client cancel
    ⟨rq (nm 0x70) 14 [sInt 0x61] 0, inp [tick, tick, tick, tick, tick]⟩,   -- full run, extra ticks drained
    ⟨rq (nm 0x78) 15 [sInt 0x61] 0, some ⟨[sStr 0x76], [⟨1, [], [[1]]⟩], false⟩⟩,  -- input cast failure
    ⟨rq mDescribe 16 [] 0, none⟩,
    ⟨rq (nm 0x75) 17 [sInt 0x61] 0, none⟩ ]                                -- and a good call at the end

end Ex

/-- every call of the example history is well-shaped (the hypothesis of the theorems is met by
a history containing each failure class) … -/
example : ∀ op ∈ Ex.history, WellShaped Ex.cfg op := by decide

/-- … it really exercises the failure paths: 20 calls, 23 response streams (three of them header streams) … -/
example : (serve Ex.cfg (Ex.history.flatMap frames)).1.length = 23 ∧
    (serve Ex.cfg (Ex.history.flatMap frames)).2 = 0 := by decide

/-- … the refused stream call (parameter mismatch) is answered by one TypeError stream and its
tick stream is consumed … -/
example : serveOne Ex.cfg (Ex.rq (Ex.nm 0x70) 4 [Ex.sStr 0x61] 0) (Ex.inp [Ex.tick]) =
    .resp [errStream "TypeError" [4]] true := by decide

/-- … and the last call is answered as on a fresh connection. -/
example : (serve Ex.cfg (Ex.history.flatMap frames)).1.getLast? =
    some ⟨false, [.log [17], .data 1 [[7]]]⟩ := by decide

/-- The hypothesis matters: when the client of a stream call writes no input stream (ill-shaped),
the following request is consumed as the input stream and never answered. -/
example : serve Ex.cfg [Ex.rq (Ex.nm 0x70) 4 [Ex.sStr 0x61] 0, Ex.rq (Ex.nm 0x75) 1 [Ex.sInt 0x61] 0] =
    ([errStream "TypeError" [4]], 0) := by decide

end Vgi.Props.C02
