import Vgi.Model.TokenScript
import Vgi.Props.C13
/-!
# C14 — A continuation token only resumes the stream method that minted it

Model: `Vgi.Token.exchange` after fix 5eb3c9e — the cursor payload carries the minting method
(`CursorData.method`, Go `cursorTokenData.Method`); `handleStreamExchange` refuses, right after the
cursor is opened and before the call is resolved, a cursor whose method differs from the route or
whose state does not implement the interface the route dispatches on (`fits`, Go
`streamStateFits`).
-/
namespace Vgi.Props.C14
open Vgi Vgi.Token Vgi.Props.C12 Vgi.Props.C13

/-- **cross_method_refused**: a cursor minted by method `a`, presented at the continuation route
of any other method `b` (registered or not, of any type, on any instance, with any call token,
cache content, cancel flag, session header and clock): the answer is a bare 400 (404 when `b` is
not registered), no rehydrate callback, dispatch hook or state method runs, nothing is minted and
the instance (its cache included) is unchanged. -/
theorem cross_method_refused (tbl : List SealRec) (hu : NoncesUnique tbl) (inst : Inst) (req : Req)
    (r : SealRec) (hr : r ∈ tbl) (hk : r.key = normKey inst.key) (hn : r.nonce.length = nonceLen)
    (d : CursorData) (hp : r.pt = .cursor d) (tok : Bytes) (v : UInt8)
    (htok : b64Std tok = some (v :: (r.nonce ++ r.ct))) (hc : req.cursor = some tok)
    (hdiff : d.method ≠ req.method) :
    ∃ e, exchange tbl inst req = (inst, refuse (if e = .notFound then 404 else 400) e) := by
  rcases exchange_cases tbl inst req with ⟨_, hx⟩ | ⟨mi, _, hrest⟩
  · exact ⟨.notFound, by rw [hx]; simp⟩
  · rcases hrest with ⟨hnone, _⟩ | ⟨tok', hc', hrest⟩
    · rw [hc] at hnone; cases hnone
    · rw [hc] at hc'; cases hc'
      rcases hrest with ⟨e', ho, hx⟩ | ⟨cur, ho, hrest⟩
      · refine ⟨e', ?_⟩
        rw [hx]
        have : e' ≠ .notFound := by
          intro h; subst h; exact openCursor_err ho
        simp [this]
      · -- the cursor that opened is the one that was minted: its method is `a`
        obtain ⟨_, hpt, _⟩ := minted_is_that_record hu hr hk hn htok (openCursor_ok ho).1
        rw [hp] at hpt
        cases hpt
        rcases hrest with ⟨_, hx⟩ | ⟨hm, _, _⟩
        · exact ⟨.wrongMethod, by rw [hx]; simp⟩
        · exact absurd hm hdiff

/-- **externalized_cursor_is_checked**: for an externalized continuation the cursor that decides is
the uploaded batch's when it carries one, else the pointer batch's (`effectiveTokens`); whichever it
is goes through the same `exchange`, so `cross_method_refused` applies to it: a foreign-method
cursor riding the uploaded batch is refused exactly like one on the request itself, whatever the
pointer batch carries. -/
theorem externalized_cursor_is_checked (tbl : List SealRec) (hu : NoncesUnique tbl) (inst : Inst) (req : Req)
    (cur call xcall : Option Bytes) (xtok : Bytes)
    (r : SealRec) (hr : r ∈ tbl) (hk : r.key = normKey inst.key) (hn : r.nonce.length = nonceLen)
    (d : CursorData) (hp : r.pt = .cursor d) (v : UInt8)
    (htok : b64Std xtok = some (v :: (r.nonce ++ r.ct))) (hdiff : d.method ≠ req.method)
    (hcancel : req.cancel = false)
    (heff : req.cursor = (effectiveTokens true req.cancel cur call (some xtok) xcall).1) :
    ∃ e, exchange tbl inst req = (inst, refuse (if e = .notFound then 404 else 400) e) := by
  have hc : req.cursor = some xtok := by
    rw [heff, hcancel]; rfl
  exact cross_method_refused tbl hu inst req r hr hk hn d hp xtok v htok hc hdiff

/-- `k` implements the producer interface / the exchange interface -/
def implProducer (k : SKind) : Prop := k = .producer ∨ k = .both
def implExchange (k : SKind) : Prop := k = .exchange ∨ k = .both

/-- **no_unchecked_downcast**: whenever `exchange` hands a state to dispatch (the request is
accepted, or any callback runs, or anything is minted), the method bound in the cursor is the
route's method, and the state implements exactly the interface the selected mode will call: the
type assertions at the end of `handleStreamExchange` cannot fail. -/
theorem no_unchecked_downcast (tbl : List SealRec) (inst : Inst) (req : Req)
    (h : (exchange tbl inst req).2.events ≠ [] ∨ (exchange tbl inst req).2.err = none ∨
         (exchange tbl inst req).2.next ≠ none) :
    ∃ mi tok cur, inst.method? req.method = some mi ∧ req.cursor = some tok ∧
      openCursor tbl inst.key inst.ttl req.now tok req.who = .ok cur ∧ cur.method = req.method ∧
      mi.type ≠ .unary ∧
      (producerMode mi.type cur.kind = true → implProducer cur.kind) ∧
      (producerMode mi.type cur.kind = false → implExchange cur.kind) := by
  have refused : ∀ x st e, exchange tbl inst req = (x, refuse st e) → False := by
    intro x st e hx
    rw [hx] at h
    simp [refuse] at h
  rcases exchange_cases tbl inst req with ⟨_, hx⟩ | ⟨mi, hm, hrest⟩
  · exact (refused _ _ _ hx).elim
  · rcases hrest with ⟨_, hx⟩ | ⟨tok, hc, hrest⟩
    · exact (refused _ _ _ hx).elim
    · rcases hrest with ⟨e', _, hx⟩ | ⟨cur, ho, hrest⟩
      · exact (refused _ _ _ hx).elim
      · rcases hrest with ⟨_, hx⟩ | ⟨hmeth, hfits, _⟩
        · exact (refused _ _ _ hx).elim
        · refine ⟨mi, tok, cur, hm, hc, ho, hmeth, ?_, ?_, ?_⟩
          · intro hu; rw [hu] at hfits; simp [fits] at hfits
          · intro hp
            cases ht : mi.type <;> cases hk : cur.kind <;> simp [ht, hk, fits, producerMode, implProducer] at hfits hp ⊢
          · intro hp
            cases ht : mi.type <;> cases hk : cur.kind <;> simp [ht, hk, fits, producerMode, implExchange] at hfits hp ⊢

/-- **cont_keeps_binding**: the cursor a continuation mints for the next turn is bound to the same
method (the route's) and names the same call as the cursor that was presented. -/
theorem cont_keeps_binding (tbl : List SealRec) (inst : Inst) (req : Req) (nd : CursorData)
    (h : (exchange tbl inst req).2.next = some nd) :
    nd.method = req.method ∧
    ∃ tok cur, req.cursor = some tok ∧ openCursor tbl inst.key inst.ttl req.now tok req.who = .ok cur ∧
      nd.callId = cur.callId ∧ nd.kind = cur.kind := by
  have refused : ∀ x st e, exchange tbl inst req = (x, refuse st e) → False := by
    intro x st e hx
    rw [hx] at h
    simp [refuse] at h
  rcases exchange_cases tbl inst req with ⟨_, hx⟩ | ⟨mi, hm, hrest⟩
  · exact (refused _ _ _ hx).elim
  · rcases hrest with ⟨_, hx⟩ | ⟨tok, hc, hrest⟩
    · exact (refused _ _ _ hx).elim
    · rcases hrest with ⟨e', _, hx⟩ | ⟨cur, ho, hrest⟩
      · exact (refused _ _ _ hx).elim
      · rcases hrest with ⟨_, hx⟩ | ⟨hmeth, _, hrest⟩
        · exact (refused _ _ _ hx).elim
        · rcases hrest with ⟨c, e', _, hx⟩ | ⟨c, rc, _, hx⟩
          · exact (refused _ _ _ hx).elim
          · rw [hx] at h
            simp only at h
            unfold dispatch at h
            have : nd.method = cur.method ∧ nd.callId = cur.callId ∧ nd.kind = cur.kind := by
              repeat' split at h
              all_goals first
                | (simp at h; done)
                | (simp at h; subst h; exact ⟨rfl, rfl, rfl⟩)
            exact ⟨by rw [this.1, hmeth], tok, cur, hc, ho, this.2.1, this.2.2⟩

/-- **init_binds_method**: what `/init` of method `m` mints is bound to `m`, names one call in both
tokens, and carries a state that implements the interface `m` dispatches on. -/
theorem init_binds_method (tbl : List SealRec) (inst : Inst) (who : Ident) (m : Bytes) (limit : Nat)
    (sess : Option Bytes) (callId streamId schema : Bytes) (created kcreated : Int) (cd : CursorData) (kd : CallData)
    (h : (initStream tbl inst who m limit sess callId streamId schema created kcreated).mint = some (cd, kd)) :
    cd.method = m ∧ cd.callId = kd.callId ∧
    ∃ mi, inst.method? m = some mi ∧ fits mi.type cd.kind = true := by
  unfold initStream at h
  split at h
  · simp at h
  · rename_i mi hmi
    split at h
    · simp at h
    · split at h
      · simp at h
      · split at h
        · simp at h
        · rename_i hfit
          simp only at h
          repeat' split at h
          all_goals first
            | (simp at h; done)
            | (simp at h
               obtain ⟨a, b⟩ := h
               subst a; subst b
               refine ⟨rfl, rfl, mi, hmi, ?_⟩
               cases hf : fits mi.type mi.mints with
               | true => rfl
               | false => exact absurd hf hfit)

/-! ### Non-vacuity -/

-- a second exchange method "n" on the example instance; the cursor minted by "m" is refused there
-- with nothing run, and accepted (with its callbacks) at "m"
def exInst2 : Inst := { exInst with methods := [⟨[109], .exchange, .exchange, []⟩, ⟨[110], .exchange, .exchange, []⟩, ⟨[112], .producer, .producer, []⟩] }

example : exchange C12.exTbl exInst2 { exReq with method := [110] } = (exInst2, refuse 400 .wrongMethod) ∧
    exchange C12.exTbl exInst2 { exReq with method := [112] } = (exInst2, refuse 400 .wrongMethod) ∧
    (exchange C12.exTbl exInst2 { exReq with method := [120] }).2 = refuse 404 .notFound ∧
    (exchange C12.exTbl exInst2 exReq).2.err = none := by decide

-- a cursor naming the producer method but carrying an exchange-only state: refused by `fits`
/-- base64 text of `06 ‖ 03×24 ‖ 09×16` -/
def C15_exLateTok : Bytes := [66, 103, 77, 68, 65, 119, 77, 68, 65, 119, 77, 68, 65, 119, 77, 68, 65, 119, 77, 68, 65, 119, 77, 68, 65, 119, 77, 68, 65, 119, 77, 68, 65, 119, 107, 74, 67, 81, 107, 74, 67, 81, 107, 74, 67, 81, 107, 74, 67, 81, 107, 74, 67, 81, 107, 61]
def exMisfit : SealRec := ⟨exKey, List.replicate 24 3, cursorAad anon, exCt, .cursor { exCursor with method := [112] }⟩
example : (exchange (exMisfit :: C12.exTbl) exInst2
    ⟨anon, [112], some C15_exLateTok, some exCallTok, false, none, 130000, []⟩).2 = refuse 400 .wrongMethod := by decide

end Vgi.Props.C14
