import Vgi.Proofs.HttpClient
/-!
# C21 — The native HTTP client returns the server's stream and never replays a cursor

Property theorems about `Vgi.HttpClient` (model of `vgirpc/http_client.go`, executed by the
driver `Vgi.Drive.C21`). Every statement quantifies over all responses (including every
malformed shape the abstraction can express), all stream states and all histories of caller
operations against arbitrary response sequences — no bound anywhere.

Vocabulary (defined in `Vgi.Proofs.HttpClient`): `dataMsgs tid ms` are the server's data batches
of a stream in order (everything that is neither a log/exception envelope nor, unless the call
treats the cursor batch as data, a zero-row cursor-only batch); `strip m` is a data batch with the
stream-state / call-state tokens removed from its metadata; `refuses m` marks an EXCEPTION
envelope or an external-location pointer; `tokensOf r` are all cursors a response hands out;
`scan` is the wire-trace check "no continuation request carries a burnt cursor".
-/
namespace Vgi.Props.C21
open Vgi Vgi.HttpClient

/-! ## 1. The caller gets exactly the server's data batches, tokens removed -/

/-- Whatever `post`+`parseMain` accept is a 2xx response within both size caps, with a supported
encoding, no RPC-error flag, exactly one IPC stream and no trailing bytes; the stream has the
declared schema, was read to its end without error, contains no exception / external pointer, and
the returned batches are exactly the server's data batches in order with the tokens stripped;
cursor and call token are the last ones the stream carries. -/
theorem returns_servers_batches {cfg : Cfg} {exp : Option String} {tid : Bool} {r : Resp} {p : Parsed}
    (h : fetch cfg exp tid r = .ok p) :
    ∃ status clen elen ce xce dec s,
      r = .http status clen false elen ce xce dec false [s] 0 ∧
      200 ≤ status ∧ status < 300 ∧
      clen ≤ (cfg.maxEnc : Int) ∧ elen ≤ cfg.maxEnc ∧
      validEnc (encOf ce xce) = true ∧
      (∃ n, decodedLen elen (encOf ce xce) dec = some n ∧ n ≤ cfg.maxDec) ∧
      (∃ sid, s.schema = some sid ∧ (exp = none ∨ exp = some sid)) ∧
      s.readErr = false ∧
      (∀ m ∈ s.msgs, refuses m = false) ∧
      p.batches = (dataMsgs tid s.msgs).map strip ∧
      p.token = lastNonEmpty "" (cursorSeq s.msgs) ∧
      p.callToken = lastNonEmpty "" (callSeq s.msgs) :=
  (fetch_ok h).shape

/-- Metadata of a returned batch, key by key: a stream-state / call-state entry that carries a
token is gone, every other entry is exactly the server's. -/
theorem returned_metadata (m : Msg) (k : String) :
    mdFind (strip m).md k =
      if (k = kState ∨ k = kCall) ∧ mdGet (mapOf m) k ≠ "" then none else mdFind (mapOf m) k :=
  stripTokens_find (mapOf m) k

/-- No returned batch carries a framework token. -/
theorem no_token_in_returned_metadata {cfg : Cfg} {exp : Option String} {tid : Bool} {r : Resp}
    {p : Parsed} (h : fetch cfg exp tid r = .ok p) :
    ∀ b ∈ p.batches, mdGet b.md kState = "" ∧ mdGet b.md kCall = "" := by
  obtain ⟨_, _, _, _, _, _, s, _, _, _, _, _, _, _, _, _, _, hb, _, _⟩ := returns_servers_batches h
  intro b hbm
  rw [hb] at hbm
  obtain ⟨m, _, rfl⟩ := List.mem_map.mp hbm
  simp [strip, stripTokens_get]

-- non-vacuity: a stream with a log, a data batch carrying a cursor + user metadata, and a
-- cursor-only batch is accepted, and exactly the one data batch comes back without the cursor.
def exMsgs : List Msg :=
  [⟨0, "p0", "", [("L", "INFO"), ("M", "hello")]⟩,
   ⟨2, "p1", "", [("u", "1"), ("S", "t1"), ("u", "2")]⟩,
   ⟨0, "p2", "", [("S", "t2"), ("C", "c1")]⟩]
def exResp : Resp := .http 200 (-1) false 900 "" "" none false [⟨some "sch", exMsgs, false⟩] 0
example : fetch ⟨4096, 8192⟩ (some "sch") false exResp
    = .ok ⟨[⟨"p1", 2, [("u", "2")]⟩], "t2", "c1"⟩ := by decide
example : (dataMsgs false exMsgs).map strip = [⟨"p1", 2, [("u", "2")]⟩] := by decide

/-! ## 2. Server exceptions are typed errors -/

/-- The error built from an EXCEPTION envelope: its `exception_type` (default "Exception") and
its log message. -/
def excErr (e : Msg) : Err := excOf (mapOf e) e.xt

/-- If the first refusing batch of a readable stream is an EXCEPTION envelope, `parseIPCStream`
returns exactly the typed error built from that envelope — whatever the declared schema
(so also when the server wrote the envelope under the empty schema), whatever follows it. -/
theorem exceptions_typed (exp : Option String) (tid : Bool) (sid : String) (pre : List Msg) (e : Msg)
    (post : List Msg) (rd : Bool)
    (hpre : ∀ m ∈ pre, refuses m = false) (he : isExc e = true) :
    parseStream exp tid ⟨some sid, pre ++ e :: post, rd⟩ = .error (excErr e) := by
  have hexc_pre : ∀ m ∈ pre, isExc m = false := by
    intro m hm
    have := hpre m hm
    simp only [refuses, Bool.or_eq_false_iff] at this
    exact this.1
  have hfirst : ∀ (l : List Msg), (∀ m ∈ l, isExc m = false) →
      firstExc (l ++ e :: post) = some (excErr e) := by
    intro l
    induction l with
    | nil =>
      intro _
      have he' : e.rows = 0 ∧ mdGet (toMap e.md) kLevel = lvlException := by
        have := he; unfold isExc mapOf at this; exact of_decide_eq_true this
      simp only [List.nil_append, firstExc, if_pos he', excErr, mapOf]
    | cons m rest ih =>
      intro hl
      have hm : ¬ (m.rows = 0 ∧ mdGet (toMap m.md) kLevel = lvlException) := by
        have := hl m (List.mem_cons_self ..); unfold isExc mapOf at this; exact of_decide_eq_false this
      simp only [List.cons_append, firstExc, if_neg hm]
      exact ih (fun x hx => hl x (List.mem_cons_of_mem _ hx))
  unfold parseStream
  simp only
  split
  · rw [hfirst pre hexc_pre]
  · have hr : refuses e = true := by simp [refuses, he]
    rw [parseMsgs_refused tid pre e post emptyParsed hpre hr]
    simp [he, excErr]

/-- Through `post`/`parseMain`: a 2xx response whose single stream has an EXCEPTION envelope as
its first refusing batch makes every call that consumes it fail with that typed error. -/
theorem exceptions_typed_fetch (cfg : Cfg) (exp : Option String) (tid : Bool) (r : Resp) (h : HttpOk)
    (sid : String) (pre : List Msg) (e : Msg) (post' : List Msg) (rd : Bool) (more : List Ipc)
    (hpost : post cfg r = .ok h) (hs : h.streams = ⟨some sid, pre ++ e :: post', rd⟩ :: more)
    (hpre : ∀ m ∈ pre, refuses m = false) (he : isExc e = true) :
    fetch cfg exp tid r = .error (excErr e) := by
  unfold fetch
  rw [hpost]
  simp only [parseMain, hs, exceptions_typed exp tid sid pre e post' rd hpre he]

example : fetch ⟨4096, 8192⟩ (some "declared") true
    (.http 200 300 false 300 "" "" none true
      [⟨some "empty-schema", [⟨0, "p", "x56616c75654572726f72", [("L", "EXC"), ("M", "boom")]⟩], false⟩] 0)
    = .error (.exc "x56616c75654572726f72" "boom") := by decide

/-! ## 3. Drift, wrong encoding, trailing bytes, oversize, error status are rejected -/

/-- Schema drift: a stream whose schema differs from the declared one is never accepted. -/
theorem drift_rejected_schema (cfg : Cfg) (decl sid : String) (tid : Bool) (status : Nat) (clen : Int)
    (rdErr : Bool) (elen : Nat) (ce xce : String) (dec : Option Nat) (rpc : Bool) (s : Ipc)
    (more : List Ipc) (trail : Nat) (hs : s.schema = some sid) (hne : decl ≠ sid) :
    ∀ p, fetch cfg (some decl) tid (.http status clen rdErr elen ce xce dec rpc (s :: more) trail) ≠ .ok p := by
  intro p h
  obtain ⟨_, _, _, _, _, _, s', hr, _, _, _, _, _, _, ⟨sid', hsid, hexp⟩, _⟩ := returns_servers_batches h
  cases hr
  rw [hs] at hsid
  cases hsid
  rcases hexp with h1 | h1
  · cases h1
  · exact hne (Option.some.inj h1)

/-- Encoding drift: an unsupported / malformed Content-Encoding, or a body the decompressor
rejects, is never accepted. -/
theorem drift_rejected_encoding (cfg : Cfg) (exp : Option String) (tid : Bool) (status : Nat) (clen : Int)
    (rdErr : Bool) (elen : Nat) (ce xce : String) (dec : Option Nat) (rpc : Bool) (ss : List Ipc)
    (trail : Nat)
    (hbad : validEnc (encOf ce xce) = false ∨ decodedLen elen (encOf ce xce) dec = none) :
    ∀ p, fetch cfg exp tid (.http status clen rdErr elen ce xce dec rpc ss trail) ≠ .ok p := by
  intro p h
  obtain ⟨_, _, _, _, _, _, _, hr, _, _, _, _, hv, ⟨n, hn, _⟩, _⟩ := returns_servers_batches h
  cases hr
  rcases hbad with hb | hb
  · rw [hb] at hv; cases hv
  · rw [hb] at hn; cases hn

/-- Trailing bytes (or a further IPC stream) after the declared stream are never accepted. -/
theorem drift_rejected_trailing (cfg : Cfg) (exp : Option String) (tid : Bool) (status : Nat) (clen : Int)
    (rdErr : Bool) (elen : Nat) (ce xce : String) (dec : Option Nat) (rpc : Bool) (ss : List Ipc)
    (trail : Nat) (hbad : trail > 0 ∨ ss.length ≠ 1) :
    ∀ p, fetch cfg exp tid (.http status clen rdErr elen ce xce dec rpc ss trail) ≠ .ok p := by
  intro p h
  obtain ⟨_, _, _, _, _, _, _, hr, _⟩ := returns_servers_batches h
  cases hr
  rcases hbad with hb | hb
  · omega
  · exact hb rfl

/-- Over-limit, error status, read error, RPC-error flag, unreadable / truncated stream. -/
theorem malformed_rejected (cfg : Cfg) (exp : Option String) (tid : Bool) (status : Nat) (clen : Int)
    (rdErr : Bool) (elen : Nat) (ce xce : String) (dec : Option Nat) (rpc : Bool) (ss : List Ipc)
    (trail : Nat)
    (hbad : clen > (cfg.maxEnc : Int) ∨ elen > cfg.maxEnc ∨
            (∃ n, decodedLen elen (encOf ce xce) dec = some n ∧ n > cfg.maxDec) ∨
            status < 200 ∨ status ≥ 300 ∨ rdErr = true ∨ rpc = true ∨
            (∃ s ∈ ss, s.schema = none ∨ s.readErr = true)) :
    ∀ p, fetch cfg exp tid (.http status clen rdErr elen ce xce dec rpc ss trail) ≠ .ok p := by
  intro p h
  obtain ⟨_, _, _, _, _, _, s, hr, h1, h2, h3, h4, _, ⟨n, hn, hn'⟩, ⟨sid, hsid, _⟩, hrd, _⟩ :=
    returns_servers_batches h
  cases hr
  rcases hbad with hb | hb | ⟨n', hb, hb'⟩ | hb | hb | hb | hb | ⟨s', hs', hb⟩
  · omega
  · omega
  · rw [hb] at hn; cases hn; omega
  · omega
  · omega
  · cases hb
  · cases hb
  · have : s' = s := by simpa using hs'
    subst this
    rcases hb with hb | hb
    · rw [hb] at hsid; cases hsid
    · rw [hb] at hrd; cases hrd

theorem transport_error_rejected (cfg : Cfg) (exp : Option String) (tid : Bool) :
    fetch cfg exp tid .terr = .error .transport := rfl

example : validEnc (encOf "br" "") = false := by decide
example : validEnc (encOf "gzip," "") = false := by decide
example : validEnc (encOf " GZip , identity" "") = true := by decide
example : fetch ⟨4096, 8192⟩ (some "sch") false
    (.http 200 900 false 900 "" "" none false [⟨some "other", exMsgs, false⟩] 0) = .error .typeErr := by decide
example : fetch ⟨4096, 8192⟩ (some "sch") false
    (.http 200 900 false 900 "" "" none false [⟨some "sch", exMsgs, false⟩] 3) = .error .protocol := by decide

/-! ## 4. `Exchange`: one server batch per turn, or the stream is poisoned -/

/-- Complete description of an exchange turn. (a) When a local check fails nothing is sent and
the stream is untouched. (b) Otherwise the cursor is given up *before* anything is sent. (c) Only
a response that is accepted in full, carries exactly one data batch and a new cursor re-arms the
stream and returns that batch; (d) every other outcome — transport error, timeout, error status,
over-limit / undecodable / malformed body, drift, exception, wrong batch count, missing cursor —
is an error and leaves the stream without a cursor. -/
theorem exchange_outcome (cfg : Cfg) (cc : Bool) (s : Stream) (inp : Input) (rs : List Resp) :
    (¬ exGuard s inp → ∃ e, exchangeOp cfg cc s inp rs = (s, .err e, [])) ∧
    (exGuard s inp → cc = true → exchangeOp cfg cc s inp rs = (poisoned s, .err .other, [])) ∧
    (exGuard s inp → cc = false →
      ∃ s' res, exchangeOp cfg cc s inp rs =
          (s', res, [Event.sent .exchange ⟨s.token, s.callToken, false⟩, Event.recv .exchange (headResp rs)]) ∧
        ((s' = poisoned s ∧ ∃ e, res = .err e) ∨
          ∃ p b, fetch cfg (some s.outSchema) true (headResp rs) = .ok p ∧ p.batches = [b] ∧
            p.token ≠ "" ∧ res = .batch b ∧ s'.token = p.token ∧ s'.finished = false)) := by
  refine ⟨fun h => exchangeOp_refused h, ?_, ?_⟩
  · intro hg hcc
    rw [exchangeOp_guarded hg, hcc]; rfl
  · intro hg hcc
    subst hcc
    obtain ⟨s', res, h1, _, _, h4⟩ := exchangeOp_sent (cfg := cfg) (rs := rs) hg
    refine ⟨s', res, h1, ?_⟩
    rcases h4 with h4 | ⟨p, b, a1, a2, a3, a4, a5, a6, _⟩
    · exact Or.inl h4
    · exact Or.inr ⟨p, b, a1, a2, a3, a4, a5, a6⟩

/-- A batch returned by `Exchange` is the server's: the response was accepted in full
(`returns_servers_batches` applies to it) and its only data batch is the one returned. -/
theorem exchange_returns_servers_batch {cfg : Cfg} {cc : Bool} {s s' : Stream} {inp : Input}
    {rs : List Resp} {b : Batch} {ev : List Event}
    (h : exchangeOp cfg cc s inp rs = (s', .batch b, ev)) :
    ∃ p sIpc status clen elen ce xce dec,
      headResp rs = .http status clen false elen ce xce dec false [sIpc] 0 ∧
      fetch cfg (some s.outSchema) true (headResp rs) = .ok p ∧
      (dataMsgs true sIpc.msgs).map strip = [b] ∧
      s'.token = lastNonEmpty "" (cursorSeq sIpc.msgs) ∧ s'.token ≠ "" ∧
      ev = [Event.sent .exchange ⟨s.token, s.callToken, false⟩, Event.recv .exchange (headResp rs)] := by
  obtain ⟨h1, h2, h3⟩ := exchange_outcome cfg cc s inp rs
  by_cases hg : exGuard s inp
  · cases cc with
    | true => rw [h2 hg rfl] at h; cases h
    | false =>
      obtain ⟨s'', res, he, hout⟩ := h3 hg rfl
      rw [he] at h
      cases h
      rcases hout with ⟨_, e, he'⟩ | ⟨p, b', hf, hb, ht, hr, hs't, _⟩
      · cases he'
      · cases hr
        obtain ⟨status, clen, elen, ce, xce, dec, sIpc, hshape, _, _, _, _, _, _, _, _, _, hbat, htok, _⟩ :=
          returns_servers_batches hf
        refine ⟨p, sIpc, status, clen, elen, ce, xce, dec, hshape, hf, ?_, ?_, ?_, rfl⟩
        · rw [← hbat, hb]
        · rw [hs't, htok]
        · rw [hs't]; exact ht
  · obtain ⟨e, he⟩ := h1 hg
    rw [he] at h; cases h

/-- Poison: an `Exchange` that fails after a request may have left (or after the client was
found closed at send time) leaves the stream with no cursor and finished. -/
theorem exchange_poisons {cfg : Cfg} {cc : Bool} {s s' : Stream} {inp : Input} {rs : List Resp}
    {e : Err} {ev : List Event}
    (h : exchangeOp cfg cc s inp rs = (s', .err e, ev)) (hsent : ev ≠ []) :
    s'.token = "" ∧ s'.finished = true := by
  obtain ⟨h1, h2, h3⟩ := exchange_outcome cfg cc s inp rs
  by_cases hg : exGuard s inp
  · cases cc with
    | true => rw [h2 hg rfl] at h; cases h; exact absurd rfl hsent
    | false =>
      obtain ⟨s'', res, he, hout⟩ := h3 hg rfl
      rw [he] at h
      cases h
      rcases hout with ⟨hp, _⟩ | ⟨p, b', _, _, _, hr, _⟩
      · rw [hp]; exact ⟨rfl, rfl⟩
      · cases hr
  · obtain ⟨e', he⟩ := h1 hg
    rw [he] at h; cases h; exact absurd rfl hsent

-- non-vacuity: a live exchange stream, (i) a clean turn, (ii) a response without cursor
def exStream : Stream := ⟨true, "sch", "in", none, [], "t0", "c0", false, false⟩
def turnMsgs : List Msg := [⟨1, "p9", "", [("S", "t1"), ("k", "v")]⟩]
def okTurn : Resp := .http 200 700 false 700 "" "" none false [⟨some "sch", turnMsgs, false⟩] 0
def noCursorTurn : Resp :=
  .http 200 700 false 700 "" "" none false [⟨some "sch", [⟨1, "p9", "", [("k", "v")]⟩], false⟩] 0
example : exGuard exStream ⟨"in", false⟩ := by decide
example : exchangeOp ⟨4096, 8192⟩ false exStream ⟨"in", false⟩ [okTurn] =
    ({ exStream with token := "t1" }, .batch ⟨"p9", 1, [("k", "v")]⟩,
     [.sent .exchange ⟨"t0", "c0", false⟩, .recv .exchange okTurn]) := by decide
example : exchangeOp ⟨4096, 8192⟩ false exStream ⟨"in", false⟩ [noCursorTurn] =
    (poisoned exStream, .err .protocol,
     [.sent .exchange ⟨"t0", "c0", false⟩, .recv .exchange noCursorTurn]) := by decide
example : exchangeOp ⟨4096, 8192⟩ false exStream ⟨"in", false⟩ [] =
    (poisoned exStream, .err .transport,
     [.sent .exchange ⟨"t0", "c0", false⟩, .recv .exchange .terr]) := by decide

/-- `CallUnary` returns a batch only for a response accepted in full whose single data batch it is. -/
theorem unary_returns_servers_batch {cfg : Cfg} {cc : Bool} {exp : Option String} {rs : List Resp}
    {b : Batch} {ev : List Event} (h : unaryOp cfg cc exp rs = (.batch b, ev)) :
    ∃ p, fetch cfg exp true (headResp rs) = .ok p ∧ p.batches = [b] ∧
      ev = [Event.sent .unary noReq, Event.recv .unary (headResp rs)] := by
  unfold unaryOp at h
  by_cases hcc : cc = true
  · simp [hcc] at h
  · simp only [hcc, if_false, Bool.false_eq_true] at h
    cases hf : fetch cfg exp true (headResp rs) with
    | error e => simp [hf] at h
    | ok p =>
      simp only [hf] at h
      cases hb : p.batches with
      | nil => simp [hb] at h
      | cons b1 tl =>
        cases tl with
        | cons b2 tl2 => simp [hb] at h
        | nil =>
          simp only [hb, Prod.mk.injEq, Res.batch.injEq] at h
          exact ⟨p, rfl, by rw [hb, h.1], h.2.symm⟩

/-- An exchange stream only comes into being with a cursor and a call token and without data:
`OpenExchange` refuses every init response that lacks either or carries a data batch. -/
theorem open_exchange_requires_tokens {cfg : Cfg} {cc : Bool} {o : OpenSpec} {rs : List Resp}
    {s : Stream} {res : Res} {ev : List Event}
    (h : openOp cfg cc o rs = (some s, res, ev)) (hx : o.exchange = true) :
    s.token ≠ "" ∧ s.callToken ≠ "" ∧ s.pending = [] ∧ s.finished = false ∧ s.closed = false := by
  unfold openOp at h
  by_cases hcc : cc = true
  · simp [hcc] at h
  · simp only [hcc, if_false, Bool.false_eq_true] at h
    cases hpost : post cfg (headResp rs) with
    | error e => simp [hpost] at h
    | ok ho =>
      simp only [hpost] at h
      cases hop : openParse o ho with
      | error e => simp [hop] at h
      | ok s0 =>
        simp only [hop, Prod.mk.injEq, Option.some.injEq] at h
        obtain ⟨hs, _, _⟩ := h
        subst hs
        unfold openParse at hop
        simp only at hop
        split at hop
        · cases hop
        · rename_i hdr rest hres
          cases rest with
          | nil => simp at hop
          | cons st more =>
            simp only at hop
            cases hps : parseStream (some o.outSchema) false st with
            | error e => simp [hps] at hop
            | ok p =>
              simp only [hps] at hop
              split at hop
              · cases hop
              · split at hop
                · cases hop
                · rename_i hdata
                  split at hop
                  · cases hop
                  · rename_i htok
                    split at hop
                    · cases hop
                    · cases hop
                      have hb : p.batches = [] := by
                        by_cases hb : p.batches = []
                        · exact hb
                        · exact absurd ⟨hx, hb⟩ hdata
                      have ht : ¬ (p.token = "" ∨ p.callToken = "") := fun hh => htok ⟨hx, hh⟩
                      simp only [not_or] at ht
                      refine ⟨ht.1, ht.2, hb, ?_, rfl⟩
                      simp [ht.1]

/-! ## 5. After an ambiguous turn no request is ever sent again -/

/-- Histories that keep working on the same stream object (no new `Open…` call). -/
def noOpen (h : History) : Prop := ∀ x ∈ h, ∀ o, x.1 ≠ .open o

/-- A stream without a cursor is silent for ever: over every further history of caller actions on
it (against arbitrary responses, client closed or not) no continuation request goes on the wire,
and every `Exchange` fails locally. -/
theorem dead_stream_sends_nothing : ∀ (h : History) (w : World) (s : Stream),
    w.st = some s → s.token = "" → noOpen h →
      contCursors (run w h).2.2 = [] ∧
      (∀ x ∈ h.zip (run w h).2.1, ∀ inp, x.1.1 = .exchange inp → ∃ e, x.2 = .err e)
  | [], _, _, _, _, _ => by simp [run, contCursors]
  | (op, rs) :: h, w, s, hst, ht, hno => by
    obtain ⟨⟨s1, hs1, ht1⟩, hev, hex⟩ :=
      step_dead w op rs s hst ht (hno (op, rs) (List.mem_cons_self ..))
    obtain ⟨ih1, ih2⟩ := dead_stream_sends_nothing h (stepOp w op rs).1 s1 hs1 ht1
      (fun x hx => hno x (List.mem_cons_of_mem _ hx))
    simp only [run]
    refine ⟨?_, ?_⟩
    · rw [contCursors_append, ih1]
      rcases hev with hev | ⟨r, hev⟩
      · rw [hev]; rfl
      · rw [hev]; simp [contCursors, isCont]
    · intro x hx inp hxi
      simp only [List.zip_cons_cons] at hx
      rcases List.mem_cons.mp hx with rfl | hx
      · exact hex inp hxi
      · exact ih2 x hx inp hxi

/-- Poison after ambiguity, over histories: if an `Exchange` on any stream state fails after its
request may have left, then whatever the caller does with that stream afterwards and whatever
the network answers, no continuation request is sent again and every later `Exchange` fails. -/
theorem poison_after_ambiguity (w : World) (s : Stream) (inp : Input) (rs : List Resp) (h : History)
    (hst : w.st = some s) (hno : noOpen h)
    (hfail : ∃ e, (stepOp w (.exchange inp) rs).2.1 = .err e)
    (hsent : (stepOp w (.exchange inp) rs).2.2 ≠ []) :
    contCursors (run (stepOp w (.exchange inp) rs).1 h).2.2 = [] ∧
    (∀ x ∈ h.zip (run (stepOp w (.exchange inp) rs).1 h).2.1, ∀ inp', x.1.1 = .exchange inp' →
      ∃ e, x.2 = .err e) := by
  obtain ⟨e, he⟩ := hfail
  simp only [stepOp, hst] at he hsent ⊢
  have hp := exchange_poisons (cfg := w.cfg) (cc := w.cc) (s := s) (inp := inp) (rs := rs)
    (s' := (exchangeOp w.cfg w.cc s inp rs).1) (e := e) (ev := (exchangeOp w.cfg w.cc s inp rs).2.2)
    (by rw [← he]) hsent
  exact dead_stream_sends_nothing h _ _ rfl hp.1 hno

example : contCursors (run ⟨⟨4096, 8192⟩, false, some exStream⟩
    [(.exchange ⟨"in", false⟩, [noCursorTurn]), (.exchange ⟨"in", false⟩, [okTurn]), (.cancel, [okTurn]),
     (.next, [okTurn])]).2.2 = ["t0"] := by decide

/-! ## 6. Never replays a cursor (invariant over arbitrary op / fault histories) -/

/-- Worlds and histories that only ever hold exchange streams (the clause is about exchange
turns: a producer continuation is an idempotent read and `Next` may retry it). -/
def exchWorld (w : World) : Prop := ∀ s, w.st = some s → s.exchange = true
def exchOnly (h : History) : Prop := ∀ x ∈ h, ∀ o, x.1 = .open o → o.exchange = true

/-- The wire trace of every history passes the ledger scan: each continuation request (exchange
or cancel) carries a non-empty cursor that the server handed out in an earlier response and that
has not been sent since it was (last) handed out. No hypothesis on the responses. -/
theorem never_replays_scan (w : World) (h : History) (hw : w.st = none) (hh : exchOnly h) :
    (scan ⟨[], []⟩ (run w h).2.2).isSome = true := by
  have hi : LedgerInv w ⟨[], []⟩ := by intro s hs; rw [hw] at hs; cases hs
  obtain ⟨l', hs, _⟩ := run_ledger h w ⟨[], []⟩ hi (fun x hx o ho => hh x hx o ho)
  rw [hs]; rfl

/-- Same, started from any exchange stream whose cursor is known to the ledger. -/
theorem never_replays_scan_from (w : World) (h : History) (l : Ledger) (hi : LedgerInv w l)
    (hh : exchOnly h) : ∃ l', scan l (run w h).2.2 = some l' ∧ LedgerInv (run w h).1 l' :=
  run_ledger h w l hi (fun x hx o ho => hh x hx o ho)

/-- `never_replays` in the form of the design: if the server never hands out the same cursor
twice (`freshTokens`), the cursors of all continuation requests the client ever sends are pairwise
distinct — over every history of opens, exchanges, cancels, closes and arbitrary faults. -/
theorem never_replays (w : World) (h : History) (hw : w.st = none) (hh : exchOnly h)
    (hfresh : freshTokens [] (run w h).2.2) : (contCursors (run w h).2.2).Nodup := by
  have hi : LedgerInv w ⟨[], []⟩ := by intro s hs; rw [hw] at hs; cases hs
  obtain ⟨l', hs, _⟩ := run_ledger h w ⟨[], []⟩ hi (fun x hx o ho => hh x hx o ho)
  exact (scan_nodup _ ⟨[], []⟩ l' hs hfresh (by intro c hc; cases hc)).1

-- non-vacuity: open, two clean turns, a turn whose answer is lost, further attempts, a cancel
def initResp : Resp :=
  .http 200 500 false 500 "" "" none false [⟨some "sch", [⟨0, "p", "", [("S", "t0"), ("C", "c0")]⟩], false⟩] 0
def turn2 : Resp :=
  .http 200 700 false 700 "" "" none false [⟨some "sch", [⟨1, "q", "", [("S", "t2")]⟩], false⟩] 0
def exHistory : History :=
  [(.open ⟨true, none, "sch", "in"⟩, [initResp]), (.exchange ⟨"in", false⟩, [okTurn]),
   (.exchange ⟨"in", false⟩, [turn2]), (.exchange ⟨"in", false⟩, [.terr]),
   (.exchange ⟨"in", false⟩, [okTurn]), (.cancel, [okTurn])]
example : exchOnly exHistory := by
  intro x hx o ho
  simp only [exHistory, List.mem_cons, List.not_mem_nil, or_false] at hx
  rcases hx with rfl | rfl | rfl | rfl | rfl | rfl <;> cases ho <;> rfl
example : contCursors (run ⟨⟨4096, 8192⟩, false, none⟩ exHistory).2.2 = ["t0", "t1", "t2"] := by decide
example : freshTokens [] (run ⟨⟨4096, 8192⟩, false, none⟩ exHistory).2.2 := by decide

/-! ## 7. Producer streams: `Next` hands out the server's batches in order -/

/-- Caller actions on a producer stream that neither replace it nor drop its unread batches. -/
def prodOp (op : Op) : Prop := (∀ o, op ≠ .open o) ∧ op ≠ .close ∧ (∀ e, op ≠ .unary e)

theorem step_delivery (w : World) (op : Op) (rs : List Resp) (s : Stream)
    (hst : w.st = some s) (hex : s.exchange = false) (hop : prodOp op) :
    ∃ s', (stepOp w op rs).1.st = some s' ∧ s'.exchange = false ∧ s'.outSchema = s.outSchema ∧
      delivered (stepOp w op rs).2.1 ++ s'.pending
        = s.pending ++ acceptedNext w.cfg s.outSchema (stepOp w op rs).2.2 := by
  obtain ⟨ho, hc, hu⟩ := hop
  cases op with
  | «open» o => exact absurd rfl (ho o)
  | close => exact absurd rfl hc
  | unary e => exact absurd rfl (hu e)
  | clientClose => exact ⟨s, hst, hex, rfl, by simp [stepOp, delivered, acceptedNext]⟩
  | stat => exact ⟨s, hst, hex, rfl, by simp [stepOp, delivered, acceptedNext]⟩
  | exchange inp =>
    have hg : ¬ exGuard s inp := fun hg => by rw [hg.2.1] at hex; cases hex
    obtain ⟨e, he⟩ := exchangeOp_refused (cfg := w.cfg) (cc := w.cc) (rs := rs) hg
    simp only [stepOp, hst, he]
    exact ⟨s, rfl, hex, rfl, by simp [delivered, acceptedNext]⟩
  | cancel =>
    simp only [stepOp, hst]
    by_cases hidle : cancelIdle s
    · rw [cancelOp_idle hidle]
      exact ⟨_, rfl, hex, rfl, by simp [delivered, acceptedNext]⟩
    · obtain ⟨res, hres⟩ := cancelOp_live (cfg := w.cfg) (cc := w.cc) (rs := rs) hidle
      rw [hres]
      refine ⟨_, rfl, hex, rfl, ?_⟩
      have hres' : delivered res = [] := by
        -- Cancel never returns a batch
        have := hres
        unfold cancelOp at this
        unfold cancelIdle at hidle
        simp only [hidle, if_false] at this
        split at this
        · cases this; rfl
        · split at this
          · cases this; rfl
          · split at this <;> (cases this; rfl)
      rw [hres']
      cases w.cc <;> simp [poisoned, acceptedNext]
  | next =>
    simp only [stepOp, hst]
    unfold nextOp
    by_cases hcl : s.closed = true
    · simp only [hcl, if_true]
      exact ⟨s, rfl, hex, rfl, by simp [delivered, acceptedNext]⟩
    · simp only [hcl, hex, if_false, Bool.false_eq_true]
      obtain ⟨evNew, h1, h2, h3, h4, _⟩ := nextLoop_delivery w.cfg w.cc rs s []
      refine ⟨_, rfl, by rw [h4]; exact hex, h3, ?_⟩
      rw [h2, h1]; rfl

/-- Over every history of `Next` / `Cancel` / misdirected `Exchange` calls on a producer stream,
against arbitrary responses: what `Next` handed out so far followed by what is still buffered is
exactly what the stream was opened with followed by the data batches of every continuation
response that was accepted — in order, nothing lost, nothing duplicated, nothing invented. -/
theorem producer_delivers_servers_batches : ∀ (h : History) (w : World) (s : Stream),
    w.st = some s → s.exchange = false → (∀ x ∈ h, prodOp x.1) →
      ∃ s', (run w h).1.st = some s' ∧
        (run w h).2.1.flatMap delivered ++ s'.pending
          = s.pending ++ acceptedNext w.cfg s.outSchema (run w h).2.2
  | [], w, s, hst, _, _ => ⟨s, hst, by simp [run, acceptedNext]⟩
  | (op, rs) :: h, w, s, hst, hex, hop => by
    obtain ⟨s1, hs1, hex1, hout1, hd1⟩ :=
      step_delivery w op rs s hst hex (hop (op, rs) (List.mem_cons_self ..))
    obtain ⟨s2, hs2, hd2⟩ := producer_delivers_servers_batches h (stepOp w op rs).1 s1 hs1 hex1
      (fun x hx => hop x (List.mem_cons_of_mem _ hx))
    refine ⟨s2, by simpa [run] using hs2, ?_⟩
    simp only [run, List.flatMap_cons, acceptedNext_append]
    rw [stepOp_cfg, hout1] at hd2
    rw [List.append_assoc, hd2, ← List.append_assoc, hd1, List.append_assoc]

def prodStream : Stream := ⟨false, "sch", "", none, [⟨"b0", 1, []⟩], "t0", "c0", false, false⟩
def prodCont : Resp :=
  .http 200 700 false 700 "" "" none false
    [⟨some "sch", [⟨1, "b1", "", [("u", "1")]⟩, ⟨1, "b2", "", []⟩, ⟨0, "z", "", [("S", "t1")]⟩], false⟩] 0
example : ((run ⟨⟨4096, 8192⟩, false, some prodStream⟩
    [(.next, []), (.next, [prodCont]), (.next, [])]).2.1).flatMap delivered
    = [⟨"b0", 1, []⟩, ⟨"b1", 1, [("u", "1")]⟩, ⟨"b2", 1, []⟩] := by decide

end Vgi.Props.C21
