import Vgi.Model.HttpClient
namespace Vgi.Props.C21
open Vgi Vgi.HttpClient

theorem closeOp_closed (s : Stream) : (closeOp s).closed = true := by
  unfold closeOp; split <;> simp_all

end Vgi.Props.C21
