import Vgi.Model.External
/-!
# C30 — Externalized batches resolve to exactly the uploaded data

Theorems about `Vgi.External` (model of `vgirpc/external.go`'s write path and of
`ResolveExternalLocation` after the fetch). Every statement is for all batches, all metadata,
all fetched streams (any arrangement of data / log / pointer batches, any length) and every
`World` (Arrow IPC, SHA-256 and zstd as uninterpreted functions); the round-trip theorem
assumes only that decoding inverts encoding on the bytes at hand.
-/
namespace Vgi.Props.C30
open Vgi Vgi.External

/-! ### The selection walk over the fetched stream -/

/-- A batch the walk may return: neither a log batch nor a nested pointer. -/
def isData (b : Batch) : Bool := !isLogBatch b && !isNestedPointer b

/-- A pointer as the walk sees it (the log test comes first). -/
def isPtr (b : Batch) : Bool := !isLogBatch b && isNestedPointer b

theorem walk_ok_aux : ∀ (bs : List Batch) (acc : Option Batch) (d : Batch),
    walk bs acc = .ok d →
      ((d ∈ bs ∧ isData d = true) ∨ acc = some d) ∧ (∀ b ∈ bs, isPtr b = false)
  | [], none, d, h => by simp [walk] at h
  | [], some a, d, h => by
    simp only [walk] at h
    cases h
    exact ⟨Or.inr rfl, by simp⟩
  | b :: rest, acc, d, h => by
    simp only [walk] at h
    by_cases hl : isLogBatch b = true
    · simp only [hl, if_true] at h
      have ih := walk_ok_aux rest acc d h
      refine ⟨?_, ?_⟩
      · rcases ih.1 with ⟨hm, hd⟩ | hacc
        · exact Or.inl ⟨by simp [hm], hd⟩
        · exact Or.inr hacc
      · intro x hx
        simp at hx
        rcases hx with hx | hx
        · subst hx; simp [isPtr, hl]
        · exact ih.2 x hx
    · simp only [hl] at h
      by_cases hp : isNestedPointer b = true
      · simp [hp] at h
      · simp only [hp] at h
        have ih := walk_ok_aux rest (some b) d h
        have hl' : isLogBatch b = false := by simpa using hl
        have hp' : isNestedPointer b = false := by simpa using hp
        refine ⟨?_, ?_⟩
        · rcases ih.1 with ⟨hm, hd⟩ | hacc
          · exact Or.inl ⟨by simp [hm], hd⟩
          · cases hacc
            exact Or.inl ⟨by simp, by simp [isData, hl', hp']⟩
        · intro x hx
          simp at hx
          rcases hx with hx | hx
          · subst hx; simp [isPtr, hp']
          · exact ih.2 x hx

/-- **selection**: whatever the fetched stream looks like, a batch returned by the walk is a
member of that stream, is not a log batch, is not a pointer, and the stream contains no pointer
at all. -/
theorem selection (bs : List Batch) (d : Batch) (h : walk bs none = .ok d) :
    d ∈ bs ∧ isLogBatch d = false ∧ isNestedPointer d = false ∧ ∀ b ∈ bs, isPtr b = false := by
  have := walk_ok_aux bs none d h
  rcases this.1 with ⟨hm, hd⟩ | hacc
  · simp [isData] at hd
    exact ⟨hm, hd.1, hd.2, this.2⟩
  · cases hacc

/-- **logs_never_returned**: a log batch of the fetched stream is never the result. -/
theorem logs_never_returned (bs : List Batch) (d : Batch) (hlog : isLogBatch d = true) :
    walk bs none ≠ .ok d := by
  intro h
  have := (selection bs d h).2.1
  simp [hlog] at this

/-- **nested_pointer_is_error**: a stream that contains a pointer anywhere (before or after the
data, between logs) is refused with the loop error, from any walk state. -/
theorem nested_pointer_is_error : ∀ (bs : List Batch) (acc : Option Batch),
    (∃ b ∈ bs, isPtr b = true) → walk bs acc = .error .loop
  | [], _, h => by simp at h
  | b :: rest, acc, h => by
    simp only [walk]
    by_cases hl : isLogBatch b = true
    · simp only [hl, if_true]
      apply nested_pointer_is_error rest acc
      obtain ⟨x, hx, hp⟩ := h
      simp at hx
      rcases hx with hx | hx
      · subst hx; simp [isPtr, hl] at hp
      · exact ⟨x, hx, hp⟩
    · simp only [hl]
      by_cases hp : isNestedPointer b = true
      · simp [hp]
      · simp only [hp]
        apply nested_pointer_is_error rest (some b)
        obtain ⟨x, hx, hpx⟩ := h
        simp at hx
        rcases hx with hx | hx
        · subst hx; simp [isPtr, hp] at hpx
        · exact ⟨x, hx, hpx⟩

/-- **no_data_is_error**: a stream made only of log batches (or an empty stream) is refused. -/
theorem no_data_is_error : ∀ (bs : List Batch), (∀ b ∈ bs, isLogBatch b = true) →
    walk bs none = .error .noData
  | [], _ => by simp [walk]
  | b :: rest, h => by
    have hb := h b (by simp)
    simp only [walk, hb, if_true]
    exact no_data_is_error rest (fun x hx => h x (by simp [hx]))

/-- The data batches of a stream, in order. -/
def dataOf (bs : List Batch) : List Batch := bs.filter fun b => !isLogBatch b

theorem walk_no_ptr : ∀ (bs : List Batch) (acc : Option Batch), (∀ b ∈ bs, isPtr b = false) →
    walk bs acc = match (dataOf bs).getLast? with
      | some d => .ok d
      | none => match acc with
        | some a => .ok a
        | none => .error .noData
  | [], none, _ => by simp [walk, dataOf]
  | [], some a, _ => by simp [walk, dataOf]
  | b :: rest, acc, h => by
    have hrest : ∀ x ∈ rest, isPtr x = false := fun x hx => h x (by simp [hx])
    simp only [walk]
    by_cases hl : isLogBatch b = true
    · simp only [hl, if_true]
      rw [walk_no_ptr rest acc hrest]
      simp [dataOf, hl]
    · have hl' : isLogBatch b = false := by simpa using hl
      have hp : isNestedPointer b = false := by
        have := h b (by simp)
        simpa [isPtr, hl'] using this
      simp only [hl', hp]
      rw [walk_no_ptr rest (some b) hrest]
      simp only [dataOf, List.filter_cons, hl', Bool.not_false, if_true]
      cases hf : (List.filter (fun b => !isLogBatch b) rest).getLast? with
      | none =>
        have : List.filter (fun b => !isLogBatch b) rest = [] := by
          simpa [List.getLast?_eq_none_iff] using hf
        simp [this]
      | some d =>
        have hne : List.filter (fun b => !isLogBatch b) rest ≠ [] := by
          intro h0; simp [h0] at hf
        rw [List.getLast?_cons_of_ne_nil hne] at *
        simp [hf]

/-- **walk_exact**: complete description of the walk for every stream — the loop error iff a
pointer is present, otherwise the last non-log batch, otherwise "no data". In particular a
stream with exactly one data batch and any number of logs before/after resolves to that batch. -/
theorem walk_exact (bs : List Batch) :
    walk bs none =
      if bs.any isPtr then .error .loop
      else match (dataOf bs).getLast? with
        | some d => .ok d
        | none => .error .noData := by
  by_cases h : bs.any isPtr = true
  · simp only [h, if_true]
    apply nested_pointer_is_error
    simpa using h
  · simp only [h]
    have : ∀ b ∈ bs, isPtr b = false := by
      intro b hb
      cases hp : isPtr b with
      | false => rfl
      | true => exact absurd (List.any_eq_true.mpr ⟨b, hb, hp⟩) h
    rw [walk_no_ptr bs none this]
    simp

/-! ### Resolution -/

/-- **resolve_returns_only_fetched_data**: if resolution yields a batch, the pointer was a real
pointer with a URL the validator accepted, the fetch succeeded, a checksum in the pointer equals
the digest of the fetched bytes, and the batch is a non-log, non-pointer member of the parsed
fetched stream, which contains no pointer. -/
theorem resolve_returns_only_fetched_data (cfg : Option ResCfg) (rows : Nat) (m : Meta)
    (fetch : Bytes → Except Unit Fetched) (d : Batch)
    (h : resolveCore cfg rows m fetch = .ok d) :
    ∃ c url f bs, cfg = some c ∧ isExternalLocation rows m = true ∧
      metaGet m keyLocation = some url ∧ url ≠ [] ∧
      (∀ v, c.validator = some v → v url = true) ∧
      fetch url = .ok f ∧
      (∀ e, metaGet m keyLocationSha = some e → e = f.digest) ∧
      f.parsed = some bs ∧ d ∈ bs ∧ isLogBatch d = false ∧ isNestedPointer d = false ∧
      (∀ b ∈ bs, isPtr b = false) := by
  unfold resolveCore at h
  cases cfg with
  | none => simp at h
  | some c =>
    simp only at h
    by_cases hptr : isExternalLocation rows m = true
    · simp only [hptr, Bool.not_true, Bool.false_eq_true, if_false] at h
      cases hu : metaGet m keyLocation with
      | none => simp [hu] at h
      | some url =>
        simp only [hu, Option.getD_some] at h
        by_cases hne : url = []
        · simp [hne] at h
        · simp only [hne, if_false] at h
          cases hrej : rejected c url with
          | true => simp [hrej] at h
          | false =>
            simp only [hrej, Bool.false_eq_true, if_false] at h
            cases hf : fetch url with
            | error e => simp [hf] at h
            | ok f =>
              simp only [hf] at h
              cases hmis : shaMismatch m f.digest with
              | true => simp [hmis] at h
              | false =>
                simp only [hmis, Bool.false_eq_true, if_false] at h
                cases hp : f.parsed with
                | none => simp [hp] at h
                | some bs =>
                  simp only [hp] at h
                  cases hw : walk bs none with
                  | error e => simp [hw] at h
                  | ok d' =>
                    simp only [hw] at h
                    cases h
                    have sel := selection bs d hw
                    refine ⟨c, url, f, bs, rfl, hptr, rfl, hne, ?_, hf, ?_, hp, sel.1, sel.2.1,
                      sel.2.2.1, sel.2.2.2⟩
                    · intro v hv
                      simpa [rejected, hv] using hrej
                    · intro e he
                      simpa [shaMismatch, he] using hmis
    · simp [hptr] at h

/-- **checksum_mismatch_refused**: a pointer that carries a checksum different from the digest
of what was downloaded is refused — whatever the downloaded bytes parse to. -/
theorem checksum_mismatch_refused (c : ResCfg) (m : Meta) (fetch : Bytes → Except Unit Fetched)
    (url e : Bytes) (f : Fetched)
    (hptr : isExternalLocation 0 m = true) (hurl : metaGet m keyLocation = some url)
    (hne : url ≠ []) (hval : ∀ v, c.validator = some v → v url = true)
    (hf : fetch url = .ok f) (hsha : metaGet m keyLocationSha = some e) (hmis : e ≠ f.digest) :
    resolveCore (some c) 0 m fetch = .err .checksum := by
  unfold resolveCore
  have hrej : rejected c url = false := by
    unfold rejected
    cases hv : c.validator with
    | none => rfl
    | some v => simp [hval v hv]
  have hm : shaMismatch m f.digest = true := by
    simp [shaMismatch, hsha, hmis]
  simp [hptr, hurl, hne, hrej, hf, hm]

/-! ### Write path -/

/-- **externalize_decision**: a batch leaves the process iff storage is configured, it has rows
and its buffer size is at or above the (defaulted) threshold; everything else travels inline. -/
theorem externalize_inline_iff (w : World) (c : ExtCfg) (b : Batch) (bufSize : Nat)
    (store : Upload → Option Bytes) :
    externalize w (some c) b bufSize store = .inline ↔
      (c.storage = false ∨ b.rows = 0 ∨ (bufSize : Int) < threshold c) := by
  unfold externalize
  by_cases h1 : c.storage = true
  · by_cases h2 : b.rows = 0
    · simp [h1, h2]
    · by_cases h3 : (bufSize : Int) < threshold c
      · simp [h1, h3]
      · simp only [h1, h2, h3, Bool.not_true, Bool.false_eq_true, if_false, false_or]
        constructor
        · intro h
          cases hz : (zstdOn c && levelBad c) with
          | true => simp [hz] at h
          | false =>
            simp only [hz, Bool.false_eq_true, if_false] at h
            cases hs : store (mkUpload w c (w.ser b)) <;> simp [hs] at h
        · intro h; simp at h
  · simp [h1]

/-- **externalize_pointer_shape**: a pointer produced by externalization has the batch's schema,
carries the location returned by storage and the checksum of the RAW (pre-compression) IPC
bytes, is charged the raw size, and the object handed to storage is the raw bytes or their zstd
encoding (tagged as such). -/
theorem externalize_pointer_shape (w : World) (cfg : Option ExtCfg) (b : Batch) (bufSize : Nat)
    (store : Upload → Option Bytes) (sch : Nat) (m : Meta) (charged : Nat) (up : Upload)
    (h : externalize w cfg b bufSize store = .pointer sch m charged up) :
    sch = b.schema ∧ charged = (w.ser b).length ∧
    (∃ url, store up = some url ∧ m = pointerMeta url (w.sha (w.ser b))) ∧
    (up = ⟨w.ser b, []⟩ ∨ up = ⟨w.zenc (w.ser b), encZstd⟩) ∧
    0 < b.rows ∧ ∃ c, cfg = some c ∧ threshold c ≤ (bufSize : Int) := by
  unfold externalize at h
  cases cfg with
  | none => simp at h
  | some c =>
    simp only at h
    by_cases h1 : c.storage = true
    · by_cases h2 : b.rows = 0
      · simp [h1, h2] at h
      · by_cases h3 : (bufSize : Int) < threshold c
        · simp [h1, h3] at h
        · simp only [h1, h2, h3, Bool.not_true, Bool.false_eq_true, if_false] at h
          cases hz : (zstdOn c && levelBad c) with
          | true => simp [hz] at h
          | false =>
            simp only [hz, Bool.false_eq_true, if_false] at h
            cases hs : store (mkUpload w c (w.ser b)) with
            | none => simp [hs] at h
            | some url =>
              simp only [hs, ExtResult.pointer.injEq] at h
              obtain ⟨e1, e2, e3, e4⟩ := h
              subst e4
              refine ⟨e1.symm, e3.symm, ⟨url, hs, e2.symm⟩, ?_, by omega, c, rfl, by omega⟩
              unfold mkUpload
              cases zstdOn c
              · left; rfl
              · right; rfl
    · simp [h1] at h

theorem metaGet_pointerMeta_location (url sha : Bytes) :
    metaGet (pointerMeta url sha) keyLocation = some url := by
  unfold pointerMeta
  split <;> simp [metaGet]

theorem metaGet_pointerMeta_loglevel (url sha : Bytes) :
    metaGet (pointerMeta url sha) keyLogLevel = none := by
  unfold pointerMeta
  have h1 : keyLocation ≠ keyLogLevel := by decide
  have h2 : keyLocationSha ≠ keyLogLevel := by decide
  split <;> simp [metaGet, h1, h2]

theorem metaGet_pointerMeta_sha (url sha : Bytes) :
    metaGet (pointerMeta url sha) keyLocationSha = if sha ≠ [] then some sha else none := by
  unfold pointerMeta
  have h1 : keyLocation ≠ keyLocationSha := by decide
  split <;> simp [metaGet, h1]

/-- **externalize_resolve**: the round trip. For every batch that externalization turns into a
pointer (so: rows > 0, buffer size ≥ threshold), with or without compression, resolving that
pointer against a location that serves the stored object yields exactly the original batch —
schema, rows, values and custom metadata — provided decoding inverts encoding (IPC, zstd), the
storage returned a non-empty URL and the validator accepts it. The batch's own custom metadata
is arbitrary (it may even contain the log-level or location keys). -/
theorem externalize_resolve (w : World) (cfg : Option ExtCfg) (rc : ResCfg) (b : Batch)
    (bufSize : Nat) (store : Upload → Option Bytes) (fetch : Bytes → Except Unit Bytes)
    (sch : Nat) (m : Meta) (charged : Nat) (up : Upload)
    (hext : externalize w cfg b bufSize store = .pointer sch m charged up)
    (hipc : w.parse (w.ser b) = some [b])
    (hz : w.zdec (w.zenc (w.ser b)) = some (w.ser b))
    (hurl : ∀ u, store up = some u → u ≠ [])
    (hval : ∀ v u, rc.validator = some v → store up = some u → v u = true)
    (hfetch : ∀ u, store up = some u → fetch u = serve w up) :
    sch = b.schema ∧ resolve w (some rc) 0 m fetch = .ok b := by
  obtain ⟨hs, _, ⟨url, hstore, hm⟩, hup, hrows, _⟩ :=
    externalize_pointer_shape w cfg b bufSize store sch m charged up hext
  refine ⟨hs, ?_⟩
  have hserve : serve w up = .ok (w.ser b) := by
    rcases hup with hup | hup
    · subst hup
      have : ([] : Bytes) ≠ encZstd := by decide
      simp [serve, this]
    · subst hup
      simp [serve, hz]
  have hne := hurl url hstore
  have hrej : rejected rc url = false := by
    unfold rejected
    cases hv : rc.validator with
    | none => rfl
    | some v => simp [hval v url hv hstore]
  have hloc := metaGet_pointerMeta_location url (w.sha (w.ser b))
  have hlog := metaGet_pointerMeta_loglevel url (w.sha (w.ser b))
  have hsha := metaGet_pointerMeta_sha url (w.sha (w.ser b))
  have hptr : isExternalLocation 0 m = true := by
    subst hm
    simp [isExternalLocation, hasKey, hloc, hlog]
  have hwalk : walk [b] none = .ok b := by
    have hnl : isLogBatch b = false := by
      simp [isLogBatch]; intro _; omega
    have hnp : isNestedPointer b = false := by
      simp [isNestedPointer]; intro _; omega
    simp [walk, hnl, hnp]
  unfold resolve resolveCore
  subst hm
  have hmis : shaMismatch (pointerMeta url (w.sha (w.ser b))) (w.sha (w.ser b)) = false := by
    unfold shaMismatch
    rw [hsha]
    by_cases he : w.sha (w.ser b) = [] <;> simp [he]
  simp [hptr, hloc, hne, hrej, hfetch url hstore, hserve, Except.map, hmis, hipc, hwalk]

/-- **tampered_download_refused**: after externalization, a download whose digest differs from
the digest of the raw IPC bytes that were checksummed is refused with the checksum error — the
resolver never returns a batch from it. -/
theorem tampered_download_refused (w : World) (cfg : Option ExtCfg) (rc : ResCfg) (b : Batch)
    (bufSize : Nat) (store : Upload → Option Bytes) (fetch : Bytes → Except Unit Bytes)
    (sch : Nat) (m : Meta) (charged : Nat) (up : Upload) (body : Bytes)
    (hext : externalize w cfg b bufSize store = .pointer sch m charged up)
    (hshane : w.sha (w.ser b) ≠ [])
    (hurl : ∀ u, store up = some u → u ≠ [])
    (hval : ∀ v u, rc.validator = some v → store up = some u → v u = true)
    (hfetch : ∀ u, store up = some u → fetch u = .ok body)
    (hdiff : w.sha body ≠ w.sha (w.ser b)) :
    resolve w (some rc) 0 m fetch = .err .checksum := by
  obtain ⟨_, _, ⟨url, hstore, hm⟩, _, _, _⟩ :=
    externalize_pointer_shape w cfg b bufSize store sch m charged up hext
  have hloc := metaGet_pointerMeta_location url (w.sha (w.ser b))
  have hlog := metaGet_pointerMeta_loglevel url (w.sha (w.ser b))
  have hsha := metaGet_pointerMeta_sha url (w.sha (w.ser b))
  subst hm
  unfold resolve
  apply checksum_mismatch_refused (url := url) (e := w.sha (w.ser b))
    (f := ⟨w.sha body, w.parse body⟩)
  · simp [isExternalLocation, hasKey, hloc, hlog]
  · exact hloc
  · exact hurl url hstore
  · intro v hv; exact hval v url hv hstore
  · simp [hfetch url hstore, Except.map]
  · simp [hsha, hshane]
  · exact fun h => hdiff h.symm

/-! ### Non-vacuity -/

deriving instance DecidableEq for Except

def logB : Batch := ⟨1, 0, [], [(keyLogLevel, [73])]⟩
def dataB : Batch := ⟨1, 3, [7], [([1], [2])]⟩
def ptrB : Batch := ⟨1, 0, [], [(keyLocation, [104])]⟩
/-- rows > 0 with the log-level AND location keys in its own metadata: still data. -/
def oddB : Batch := ⟨1, 2, [9], [(keyLogLevel, [73]), (keyLocation, [104])]⟩

example : walk [logB, dataB, logB] none = .ok dataB := by decide
example : walk [dataB, logB, ptrB] none = .error .loop := by decide
example : walk [logB, logB] none = .error .noData := by decide
example : walk [oddB] none = .ok oddB := by decide
example : isLogBatch logB = true ∧ isPtr ptrB = true ∧ isData dataB = true := by decide

/-- A toy world (identity codecs, `sha` = the bytes themselves) in which the hypotheses of the
round-trip theorem hold and externalization really produces a pointer. -/
def toyWorld : World :=
  { ser := fun b => b.payload, parse := fun bs => if bs = [9] then some [oddB] else none,
    sha := fun bs => 1 :: bs, zenc := fun bs => 0 :: bs,
    zdec := fun bs => match bs with | _ :: r => some r | [] => none }

example : externalize toyWorld (some ⟨true, 16, some ⟨encZstd, 3⟩⟩) oddB 16 (fun _ => some [104])
    = .pointer 1 (pointerMeta [104] [1, 9]) 1 ⟨[0, 9], encZstd⟩ := by decide

example : resolve toyWorld (some ⟨none⟩) 0 (pointerMeta [104] [1, 9])
    (fun _ => serve toyWorld ⟨[0, 9], encZstd⟩) = .ok oddB := by decide

example : resolve toyWorld (some ⟨none⟩) 0 (pointerMeta [104] [1, 8])
    (fun _ => serve toyWorld ⟨[0, 9], encZstd⟩) = .err .checksum := by decide

end Vgi.Props.C30
