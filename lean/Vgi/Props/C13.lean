import Vgi.Model.TokenScript
import Vgi.Props.C12
/-!
# C13 — Tokens are bound to the identity and the kind they were minted for

* byte-level facts about the AAD builders (`tokenAad`, mirrored from `http_state.go`): injective
  on identities whose auth domain has no NUL, anonymous ≠ authenticated, cursor AAD ≠ call AAD for
  every pair of identities;
* from these and the ideal-AEAD table: a cursor / call / sticky-session token minted for one
  identity is refused from every different identity, on every instance, whatever the caches and
  registries contain; a token of one kind is refused where another kind is expected;
* acceptance is independent of history: sealed records, cache entries and sessions belonging to
  other identities can be removed without changing the outcome of a request.

`NoncesUnique` (no (key, nonce) pair is used for two seal events) is the one property of the
random 192-bit nonces that is used; the world refuses to record a seal event that would break it,
and `reachable_unique` shows it holds in every reachable world.
-/
namespace Vgi.Props.C13
open Vgi Vgi.Token Vgi.Props.C12

/-! ### AAD bytes -/

def NoNul (b : Bytes) : Prop := (0 : UInt8) ∉ b

instance (b : Bytes) : Decidable (NoNul b) := by unfold NoNul; exact inferInstance

/-- Splitting at the first NUL is unambiguous when the left parts contain none. -/
theorem split_at_nul : ∀ (a c b d : Bytes), NoNul a → NoNul c → a ++ 0 :: b = c ++ 0 :: d → a = c ∧ b = d
  | [], [], b, d, _, _, h => by simp at h; exact ⟨rfl, h⟩
  | [], y :: c, b, d, _, hc, h => by
    simp at h
    exact absurd h.1.symm (by intro hy; exact hc (by simp [hy]))
  | x :: a, [], b, d, ha, _, h => by
    simp at h
    exact absurd h.1 (by intro hx; exact ha (by simp [hx]))
  | x :: a, y :: c, b, d, ha, hc, h => by
    simp at h
    have ha' : NoNul a := fun hm => ha (List.mem_cons_of_mem _ hm)
    have hc' : NoNul c := fun hm => hc (List.mem_cons_of_mem _ hm)
    obtain ⟨h1, h2⟩ := split_at_nul a c b d ha' hc' h.2
    exact ⟨by rw [h.1, h1], h2⟩

/-- **aad_injective**: two authenticated identities with NUL-free auth domains that get the same
AAD are the same (domain, principal) — principals may contain anything. -/
theorem aad_injective (pre : Bytes) (i j : Ident) (hi : i.authenticated = true) (hj : j.authenticated = true)
    (di : NoNul i.domain) (dj : NoNul j.domain) (h : tokenAad pre i = tokenAad pre j) :
    i.domain = j.domain ∧ i.principal = j.principal := by
  unfold tokenAad Ident.tail at h
  simp only [hi, hj, if_true] at h
  have h' := List.append_cancel_left h
  simp only [List.cons.injEq, true_and] at h'
  exact split_at_nul _ _ _ _ di dj h'

/-- **anon_ne_auth**: an anonymous AAD never equals an authenticated one. -/
theorem anon_ne_auth (pre : Bytes) (i j : Ident) (hi : i.authenticated = false) (hj : j.authenticated = true) :
    tokenAad pre i ≠ tokenAad pre j := by
  intro h
  unfold tokenAad Ident.tail at h
  simp only [hi, hj, if_true] at h
  have h' := List.append_cancel_left h
  simp [anonTail] at h'

/-- For identities whose (authenticated) domains are NUL-free: same AAD ⇔ same caller. -/
theorem aad_eq_iff_same (pre : Bytes) (i j : Ident)
    (di : i.authenticated = true → NoNul i.domain) (dj : j.authenticated = true → NoNul j.domain) :
    tokenAad pre i = tokenAad pre j ↔ i.same j := by
  constructor
  · intro h
    cases hi : i.authenticated <;> cases hj : j.authenticated
    · exact Or.inl ⟨hi, hj⟩
    · exact absurd h (anon_ne_auth pre i j hi hj)
    · exact absurd h.symm (anon_ne_auth pre j i hj hi)
    · obtain ⟨h1, h2⟩ := aad_injective pre i j hi hj (di hi) (dj hj) h
      exact Or.inr ⟨hi, hj, h1, h2⟩
  · intro h
    rcases h with ⟨hi, hj⟩ | ⟨hi, hj, hd, hp⟩
    · unfold tokenAad Ident.tail; simp [hi, hj]
    · unfold tokenAad Ident.tail; simp [hi, hj, hd, hp]

/-- **kind_separated**: a cursor AAD never equals a call AAD, for any two identities (the prefixes
differ at their ninth byte). -/
theorem kind_separated (i j : Ident) : cursorAad i ≠ callAad j := by
  intro h
  have h9 : (cursorAad i).take 9 = (callAad j).take 9 := by rw [h]
  unfold cursorAad callAad tokenAad at h9
  rw [List.take_append_of_le_length (by decide), List.take_append_of_le_length (by decide)] at h9
  revert h9
  decide

/-- `identKey` (cache key identity half, registry partition key) is injective on authenticated
identities with NUL-free domains … -/
theorem identKey_injective (i j : Ident) (hi : i.authenticated = true) (hj : j.authenticated = true)
    (di : NoNul i.domain) (dj : NoNul j.domain) (h : identKey i = identKey j) : i.same j := by
  unfold identKey at h
  simp only [hi, hj, if_true] at h
  obtain ⟨h1, h2⟩ := split_at_nul _ _ _ _ di dj h
  exact Or.inr ⟨hi, hj, h1, h2⟩

/-- … and an authenticated identity shares the anonymous key exactly when it is
(domain "", principal "anonymous") — the one collision of the string key. It is harmless for the
cache because a cursor naming another caller's call id is never minted (call ids are drawn fresh
per `/init`, and continuations re-mint for the caller that opened the cursor). -/
theorem identKey_anon_collision (i : Ident) (hi : i.authenticated = true) (di : NoNul i.domain) :
    identKey i = identKey anon ↔ (i.domain = [] ∧ i.principal = anonTail.drop 1) := by
  unfold identKey anon
  simp only [hi, if_true]
  constructor
  · intro h
    cases hd : i.domain with
    | nil => rw [hd] at h; simp [anonTail] at h ⊢; exact h
    | cons x xs =>
      rw [hd] at h
      simp [anonTail] at h
      exact absurd h.1 (by intro hx; exact di (by rw [hd, hx]; simp))
  · intro ⟨h1, h2⟩
    rw [h1, h2]; rfl

example : identKey ⟨true, [], [97, 110, 111, 110, 121, 109, 111, 117, 115]⟩ = identKey anon ∧
    ¬ Ident.same ⟨true, [], [97, 110, 111, 110, 121, 109, 111, 117, 115]⟩ anon ∧
    cursorAad ⟨true, [], [97, 110, 111, 110, 121, 109, 111, 117, 115]⟩ ≠ cursorAad anon := by decide

/-! ### Nonce uniqueness is an invariant of every reachable world -/

def NoncesUnique (tbl : List SealRec) : Prop :=
  ∀ r₁ ∈ tbl, ∀ r₂ ∈ tbl, r₁.key = r₂.key → r₁.nonce = r₂.nonce → r₁ = r₂

theorem nonceFresh_spec {tbl : List SealRec} {key nonce : Bytes} (h : nonceFresh tbl key nonce = true) :
    ∀ r ∈ tbl, ¬ (r.key = key ∧ r.nonce = nonce) := by
  intro r hr
  unfold nonceFresh at h
  rw [List.all_eq_true] at h
  have := h r hr
  intro ⟨h1, h2⟩
  simp [h1, h2] at this

theorem recordSeal_unique {tbl tbl' : List SealRec} {key aad tok : Bytes} {s : Bool} {pt : Plain}
    (hu : NoncesUnique tbl) (h : recordSeal tbl key aad s tok pt = some tbl') : NoncesUnique tbl' := by
  unfold recordSeal at h
  split at h
  · cases h
  · split at h
    · cases h
    · rename_i env _
      split at h
      · rename_i hf
        cases h
        rw [Bool.and_eq_true] at hf
        have hfresh := nonceFresh_spec hf.1
        intro r₁ h₁ r₂ h₂ hk hn
        simp only [List.mem_cons] at h₁ h₂
        rcases h₁ with h₁ | h₁ <;> rcases h₂ with h₂ | h₂
        · rw [h₁, h₂]
        · subst h₁
          exact absurd ⟨hk.symm, hn.symm⟩ (hfresh r₂ h₂)
        · subst h₂
          exact absurd ⟨hk, hn⟩ (hfresh r₁ h₁)
        · exact hu r₁ h₁ r₂ h₂ hk hn
      · cases h

theorem setInst_sealed (w : World) (n : String) (i : Inst) : (w.setInst n i).sealed = w.sealed := rfl

theorem applyInit_unique (w : World) (iname : String) (who : Ident) (method : Bytes) (limit : Nat)
    (sess : Option Bytes) (now : Int) (env : Option InitEnv) (hu : NoncesUnique w.sealed) :
    NoncesUnique (applyInit w iname who method limit sess now env).1.sealed := by
  unfold applyInit
  split
  · exact hu
  · simp only
    split
    · exact hu
    · split
      · exact hu
      · split
        · exact hu
        · split
          · exact hu
          · rename_i t1 h1
            split
            · exact hu
            · rename_i t2 h2
              simp only [setInst_sealed]
              exact recordSeal_unique (recordSeal_unique hu h1) h2

theorem applyCont_unique (w : World) (iname : String) (req : Req) (env : Option (Bytes × Int))
    (hu : NoncesUnique w.sealed) : NoncesUnique (applyCont w iname req env).1.sealed := by
  unfold applyCont
  split
  · exact hu
  · simp only
    split
    · split
      · rename_i t h1
        simp only
        exact recordSeal_unique hu h1
      · simp only [setInst_sealed]; exact hu
    · simp only [setInst_sealed]; exact hu

theorem applySeal_unique (w : World) (iname : String) (aad : Bytes) (session : Bool) (tok : Bytes)
    (pt : Plain) (hu : NoncesUnique w.sealed) : NoncesUnique (applySeal w iname aad session tok pt).1.sealed := by
  unfold applySeal
  split
  · exact hu
  · split
    · rename_i t h1; exact recordSeal_unique hu h1
    · exact hu

theorem applySticky_unique (w : World) (op : StickyOp) (iname : String) (who : Ident) (sess : Option Bytes)
    (accept : Bool) (env : Option (Bytes × Bytes)) (hu : NoncesUnique w.sealed) :
    NoncesUnique (applySticky w op iname who sess accept env).1.sealed := by
  unfold applySticky
  split
  · exact hu
  · split
    · exact hu
    · simp only [setInst_sealed]; exact hu
    · simp only [setInst_sealed]; exact hu
    · simp only
      split
      · split
        · rename_i t h1
          simp only [setInst_sealed]
          exact recordSeal_unique hu h1
        · exact hu
      · exact hu
      · simp only [setInst_sealed]; exact hu

theorem applyReconf_sealed (w : World) (n : String) (f : Inst → Inst) :
    (applyReconf w n f).1.sealed = w.sealed := by
  unfold applyReconf
  split <;> rfl

/-- **apply_preserves_unique**: whatever command is executed (init, continuation — honest or
forged —, seal event, sticky operation), the sealed table keeps its nonces unique. -/
theorem apply_preserves_unique (w : World) (c : Cmd) (hu : NoncesUnique w.sealed) :
    NoncesUnique (apply w c).1.sealed := by
  cases c with
  | inst name i => exact hu
  | query a => exact hu
  | setTtl name ttl => simp only [apply]; rw [applyReconf_sealed]; exact hu
  | setCache name max => simp only [apply]; rw [applyReconf_sealed]; exact hu
  | init iname who method limit sess now env => exact applyInit_unique w iname who method limit sess now env hu
  | cont iname req env => exact applyCont_unique w iname req env hu
  | «seal» iname aad session tok pt => exact applySeal_unique w iname aad session tok pt hu
  | sticky op iname who sess accept env => exact applySticky_unique w op iname who sess accept env hu

/-- **reachable_unique**: in every world reachable from the empty one by any history of
commands, nonces are unique. -/
theorem reachable_unique (cs : List Cmd) : NoncesUnique (run World.empty cs).sealed := by
  suffices ∀ w, NoncesUnique w.sealed → NoncesUnique (run w cs).sealed from
    this _ (by intro r hr; cases hr)
  unfold run
  induction cs with
  | nil => intro w h; exact h
  | cons c cs ih => intro w h; exact ih _ (apply_preserves_unique w c h)

/-! ### A token identifies its seal event -/

/-- With unique nonces, a text that decodes to the envelope of record `r` can only be `Minted`
through `r` itself. -/
theorem minted_is_that_record {tbl : List SealRec} (hu : NoncesUnique tbl) {r : SealRec} (hr : r ∈ tbl)
    {key : Bytes} (hk : r.key = normKey key) (hn : r.nonce.length = nonceLen)
    {v v' : UInt8} {tok aad : Bytes} {pt : Plain}
    (htok : b64Std tok = some (v :: (r.nonce ++ r.ct)))
    (hm : Minted tbl key v' aad tok pt) : r.aad = aad ∧ r.pt = pt ∧ v = v' := by
  obtain ⟨r', hr', hk', ha', hp', htok', hn', _⟩ := hm
  rw [htok] at htok'
  simp only [Option.some.injEq, List.cons.injEq] at htok'
  obtain ⟨hv, happ⟩ := htok'
  have hnn : r.nonce = r'.nonce := by
    have := congrArg (List.take nonceLen) happ
    rw [List.take_append_of_le_length (by omega), List.take_append_of_le_length (by omega),
        List.take_of_length_le (by omega), List.take_of_length_le (by omega)] at this
    exact this
  have : r = r' := hu r hr r' hr' (by rw [hk, hk']) hnn
  subst this
  exact ⟨ha', hp', hv⟩

/-- **cross_identity_cursor_refused**: a cursor minted for identity `i` (any instance holding the
key), presented by a different identity `j` on any instance, with any call token, any cache and
registry contents, at any time: refused, no user code runs, nothing is minted. -/
theorem cross_identity_cursor_refused (tbl : List SealRec) (hu : NoncesUnique tbl) (inst : Inst) (req : Req)
    (r : SealRec) (hr : r ∈ tbl) (hk : r.key = normKey inst.key) (hn : r.nonce.length = nonceLen)
    (i : Ident) (ha : r.aad = cursorAad i) (tok : Bytes) (v : UInt8)
    (htok : b64Std tok = some (v :: (r.nonce ++ r.ct))) (hc : req.cursor = some tok)
    (di : i.authenticated = true → NoNul i.domain) (dj : req.who.authenticated = true → NoNul req.who.domain)
    (hdiff : ¬ i.same req.who) :
    (exchange tbl inst req).2.err ≠ none ∧ (exchange tbl inst req).2.events = [] ∧
    (exchange tbl inst req).2.next = none ∧ (exchange tbl inst req).1 = inst := by
  have := forged_cursor_never_reaches_state tbl inst req (by
    intro tok' d hc' hm
    rw [hc] at hc'; cases hc'
    obtain ⟨haad, _, _⟩ := minted_is_that_record hu hr hk hn htok hm
    rw [ha] at haad
    exact hdiff ((aad_eq_iff_same cursorPrefix i req.who di dj).mp haad))
  exact ⟨this.2.2.2.1, this.2.1, this.2.2.1, this.2.2.2.2⟩

/-- **cross_identity_call_refused**: a call token minted for `i`, presented by a different `j`
whenever the server has to consult it (cache cannot answer): refused, no user code runs. -/
theorem cross_identity_call_refused (tbl : List SealRec) (hu : NoncesUnique tbl) (inst : Inst) (req : Req)
    (r : SealRec) (hr : r ∈ tbl) (hk : r.key = normKey inst.key) (hn : r.nonce.length = nonceLen)
    (i : Ident) (ha : r.aad = callAad i) (tok : Bytes) (v : UInt8)
    (htok : b64Std tok = some (v :: (r.nonce ++ r.ct))) (hc : req.call = some tok)
    (di : i.authenticated = true → NoNul i.domain) (dj : req.who.authenticated = true → NoNul req.who.domain)
    (hdiff : ¬ i.same req.who)
    (hmiss : ∀ callId, (cacheGet inst.cacheMax inst.cache req.now (cacheKey callId req.who)).1 = none) :
    (exchange tbl inst req).2.err ≠ none ∧ (exchange tbl inst req).2.events = [] ∧
    (exchange tbl inst req).2.next = none := by
  have := forged_call_token_never_reaches_state tbl inst req hmiss (by
    intro tok' d hc' hm
    rw [hc] at hc'; cases hc'
    obtain ⟨haad, _, _⟩ := minted_is_that_record hu hr hk hn htok hm
    rw [ha] at haad
    exact hdiff ((aad_eq_iff_same callPrefix i req.who di dj).mp haad))
  exact ⟨this.2.2.2, this.2.1, this.2.2.1⟩

/-- **cross_kind_as_cursor_refused**: the envelope of a call token or of a sticky-session token,
presented as a cursor (version byte rewritten or not, re-encoded or not) by anyone: refused. -/
theorem cross_kind_as_cursor_refused (tbl : List SealRec) (hu : NoncesUnique tbl) (inst : Inst) (req : Req)
    (r : SealRec) (hr : r ∈ tbl) (hk : r.key = normKey inst.key) (hn : r.nonce.length = nonceLen)
    (hkind : (∃ i, r.aad = callAad i) ∨ (∃ d, r.pt = .session d) ∨ (∃ d, r.pt = .call d))
    (tok : Bytes) (v : UInt8) (htok : b64Std tok = some (v :: (r.nonce ++ r.ct)))
    (hc : req.cursor = some tok) :
    (exchange tbl inst req).2.err ≠ none ∧ (exchange tbl inst req).2.events = [] ∧
    (exchange tbl inst req).2.next = none := by
  have := forged_cursor_never_reaches_state tbl inst req (by
    intro tok' d hc' hm
    rw [hc] at hc'; cases hc'
    obtain ⟨haad, hpt, _⟩ := minted_is_that_record hu hr hk hn htok hm
    rcases hkind with ⟨i, hi⟩ | ⟨d', hd⟩ | ⟨d', hd⟩
    · rw [hi] at haad; exact kind_separated req.who i haad.symm
    · rw [hd] at hpt; cases hpt
    · rw [hd] at hpt; cases hpt)
  exact ⟨this.2.2.2.1, this.2.1, this.2.2.1⟩

/-- **cross_kind_as_call_refused**: the envelope of a cursor or session token presented as the call
token, whenever the call token is consulted: refused. -/
theorem cross_kind_as_call_refused (tbl : List SealRec) (hu : NoncesUnique tbl) (inst : Inst) (req : Req)
    (r : SealRec) (hr : r ∈ tbl) (hk : r.key = normKey inst.key) (hn : r.nonce.length = nonceLen)
    (hkind : (∃ i, r.aad = cursorAad i) ∨ (∃ d, r.pt = .session d) ∨ (∃ d, r.pt = .cursor d))
    (tok : Bytes) (v : UInt8) (htok : b64Std tok = some (v :: (r.nonce ++ r.ct)))
    (hc : req.call = some tok)
    (hmiss : ∀ callId, (cacheGet inst.cacheMax inst.cache req.now (cacheKey callId req.who)).1 = none) :
    (exchange tbl inst req).2.err ≠ none ∧ (exchange tbl inst req).2.events = [] ∧
    (exchange tbl inst req).2.next = none := by
  have := forged_call_token_never_reaches_state tbl inst req hmiss (by
    intro tok' d hc' hm
    rw [hc] at hc'; cases hc'
    obtain ⟨haad, hpt, _⟩ := minted_is_that_record hu hr hk hn htok hm
    rcases hkind with ⟨i, hi⟩ | ⟨d', hd⟩ | ⟨d', hd⟩
    · rw [hi] at haad; exact kind_separated i req.who haad
    · rw [hd] at hpt; cases hpt
    · rw [hd] at hpt; cases hpt)
  exact ⟨this.2.2.2, this.2.1, this.2.2.1⟩

/-! ### Sticky-session tokens -/

/-- **session_resume_implies_minted**: a request resumes session `sid` only if its `VGI-Session`
value decodes to the envelope of a session token sealed under this server's key for THIS caller,
issued by this worker, and the registry entry is bound to this caller's principal key. -/
theorem session_resume_implies_minted (tbl : List SealRec) (inst : Inst) (who : Ident) (hdr : Option Bytes)
    (sid : Bytes) (h : stickyResolve tbl inst who hdr = .ok (some sid)) :
    ∃ h' r, hdr = some h' ∧ r ∈ tbl ∧ r.key = normKey inst.key ∧ r.aad = cursorAad who ∧
      r.pt = .session ⟨inst.serverId, sid⟩ ∧
      b64Session (trimSpace h') = some (sessionVersion :: (r.nonce ++ r.ct)) ∧
      r.nonce.length = nonceLen ∧ (sid, identKey who) ∈ inst.sessions := by
  unfold stickyResolve at h
  split at h
  · cases h
  · split at h
    · cases h
    · rename_i h'
      simp only at h
      split at h
      · cases h
      · split at h
        · cases h
        · rename_i d hopen
          split at h
          · cases h
          · rename_i hsrv
            split at h
            · cases h
            · rename_i s hfind
              split at h
              · cases h
              · rename_i hpk
                simp only [Except.ok.injEq, Option.some.injEq] at h
                -- unpack openSession
                unfold openSession at hopen
                split at hopen
                · cases hopen
                · rename_i raw hraw
                  split at hopen
                  · cases hopen
                  · rename_i env henv
                    split at hopen
                    · cases hopen
                    · rename_i hver
                      split at hopen
                      · rename_i d' hop
                        cases hopen
                        obtain ⟨r, hm, hk, hnn, ha, hc, hp⟩ := aeadOpen_some hop
                        obtain ⟨hre, hnl, _⟩ := envelope_reassembles henv
                        have hv : env.version = sessionVersion := by
                          by_cases hx : env.version = sessionVersion
                          · exact hx
                          · exact absurd hx hver
                        have hs1 := List.find?_some hfind
                        have hs2 := List.mem_of_find?_eq_some hfind
                        simp at hs1
                        have hsrv' : d.serverId = inst.serverId := by
                          by_cases hx : d.serverId = inst.serverId
                          · exact hx
                          · exact absurd hx hsrv
                        have hpk' : s.2 = identKey who := by
                          by_cases hx : s.2 = identKey who
                          · exact hx
                          · exact absurd hx hpk
                        refine ⟨h', r, rfl, hm, hk, ha, ?_, ?_, ?_, ?_⟩
                        · rw [hp]; cases d; simp at hsrv' h ⊢; exact ⟨hsrv', h⟩
                        · rw [hraw, hre, hv, hnn, hc]
                        · rw [hnn]; exact hnl
                        · have : s = (sid, identKey who) := by
                            cases s; simp at hs1 hpk' h ⊢; exact ⟨by rw [hs1, h], hpk'⟩
                          rw [← this]; exact hs2
                      · cases hopen

/-- **cross_identity_session_refused**: a sticky-session token minted for `i`, presented by a
different identity `j` (on any route that runs the sticky middleware), is `session_lost`. -/
theorem cross_identity_session_refused (tbl : List SealRec) (hu : NoncesUnique tbl) (inst : Inst)
    (r : SealRec) (hr : r ∈ tbl) (hk : r.key = normKey inst.key) (hn : r.nonce.length = nonceLen)
    (i j : Ident) (ha : r.aad = cursorAad i) (h' : Bytes) (v : UInt8)
    (htok : b64Session (trimSpace h') = some (v :: (r.nonce ++ r.ct)))
    (di : i.authenticated = true → NoNul i.domain) (dj : j.authenticated = true → NoNul j.domain)
    (hdiff : ¬ i.same j) (hs : inst.sticky = true) (hne : trimSpace h' ≠ []) :
    stickyResolve tbl inst j (some h') = .error () := by
  cases hres : stickyResolve tbl inst j (some h') with
  | error e => rfl
  | ok o =>
    cases o with
    | none =>
      -- only possible when sticky is off or the header is blank
      unfold stickyResolve at hres
      simp [hs, hne] at hres
      repeat' split at hres
      all_goals first | cases hres | skip
    | some sid =>
      obtain ⟨h'', r', hh, hr', hk', ha', _, htok', hn', _⟩ := session_resume_implies_minted tbl inst j _ sid hres
      cases hh
      rw [htok] at htok'
      simp only [Option.some.injEq, List.cons.injEq] at htok'
      have hnn : r.nonce = r'.nonce := by
        have := congrArg (List.take nonceLen) htok'.2
        rw [List.take_append_of_le_length (by omega), List.take_append_of_le_length (by omega),
            List.take_of_length_le (by omega), List.take_of_length_le (by omega)] at this
        exact this
      have : r = r' := hu r hr r' hr' (by rw [hk, hk']) hnn
      subst this
      rw [ha] at ha'
      exact absurd ((aad_eq_iff_same cursorPrefix i j di dj).mp ha') hdiff

/-! ### Acceptance does not depend on what other identities did -/

/-- a sealed record that can matter to `who`: it carries one of `who`'s two AADs -/
def mineRec (who : Ident) (r : SealRec) : Bool := decide (r.aad = cursorAad who ∨ r.aad = callAad who)
/-- a cache entry that can matter to `who`: its key ends with `who`'s identity half -/
def mineEntry (who : Ident) (e : CacheEntry) : Bool := decide ((0 :: identKey who) <:+ e.key)

/-- The instance with every cache entry of other identities dropped. -/
def restrict (who : Ident) (inst : Inst) : Inst := { inst with cache := inst.cache.filter (mineEntry who) }

theorem find_filter_of_imp {α : Type} (l : List α) (p q : α → Bool) (h : ∀ a, q a = true → p a = true) :
    (l.filter p).find? q = l.find? q := by
  rw [List.find?_filter]
  congr 1
  funext a
  cases hq : q a with
  | false => simp
  | true => simp [h a hq]

theorem aeadOpen_filter (tbl : List SealRec) (who : Ident) (key nonce aad ct : Bytes)
    (h : aad = cursorAad who ∨ aad = callAad who) :
    aeadOpen (tbl.filter (mineRec who)) key nonce aad ct = aeadOpen tbl key nonce aad ct := by
  unfold aeadOpen
  rw [find_filter_of_imp]
  intro r hr
  simp [SealRec.matches] at hr
  simp [mineRec]
  rcases h with h | h
  · left; rw [hr.2.2.1, h]
  · right; rw [hr.2.2.1, h]

theorem openToken_filter (tbl : List SealRec) (who : Ident) (key : Bytes) (v : UInt8) (tok aad : Bytes)
    (h : aad = cursorAad who ∨ aad = callAad who) :
    openToken (tbl.filter (mineRec who)) key v tok aad = openToken tbl key v tok aad := by
  unfold openToken
  simp only [aeadOpen_filter tbl who _ _ aad _ h]

theorem openCursor_filter (tbl : List SealRec) (who : Ident) (key : Bytes) (ttl now : Int) (tok : Bytes) :
    openCursor (tbl.filter (mineRec who)) key ttl now tok who = openCursor tbl key ttl now tok who := by
  unfold openCursor
  rw [openToken_filter tbl who key _ tok _ (Or.inl rfl)]

theorem cacheGet_filter (max : Int) (entries : List CacheEntry) (now : Int) (callId : Bytes) (who : Ident) :
    (cacheGet max (entries.filter (mineEntry who)) now (cacheKey callId who)).1 =
    (cacheGet max entries now (cacheKey callId who)).1 := by
  unfold cacheGet
  split
  · rfl
  · rw [find_filter_of_imp]
    · split
      · rfl
      · split <;> rfl
    · intro e he
      simp at he
      simp [mineEntry, he, cacheKey]

/-- `resolveCall`'s answer depends on the instance only through key, ttl and what the cache
lookup returns, and on the table only through `openToken` under the caller's call AAD. -/
theorem resolveCall_snd_congr (tbl₁ tbl₂ : List SealRec) (key : Bytes) (ttl : Int)
    (m₁ m₂ : Int) (c₁ c₂ : List CacheEntry) (s₁ s₂ : Bool) (sv₁ sv₂ : Bytes) (ss₁ ss₂ : List (Bytes × Bytes))
    (r₁ r₂ h₁ h₂ : Bool) (ms₁ ms₂ : List MethodInfo)
    (now : Int) (cur : CursorData) (callTok : Option Bytes) (who : Ident)
    (hg : (cacheGet m₁ c₁ now (cacheKey cur.callId who)).1 = (cacheGet m₂ c₂ now (cacheKey cur.callId who)).1)
    (ho : ∀ t, openToken tbl₁ key callVersion t (callAad who) = openToken tbl₂ key callVersion t (callAad who)) :
    (resolveCall tbl₁ ⟨key, ttl, m₁, c₁, s₁, sv₁, ss₁, r₁, h₁, ms₁⟩ now cur callTok who).2 =
    (resolveCall tbl₂ ⟨key, ttl, m₂, c₂, s₂, sv₂, ss₂, r₂, h₂, ms₂⟩ now cur callTok who).2 := by
  unfold resolveCall
  simp only
  cases h1 : cacheGet m₁ c₁ now (cacheKey cur.callId who) with
  | mk a1 d1 =>
    cases h2 : cacheGet m₂ c₂ now (cacheKey cur.callId who) with
    | mk a2 d2 =>
      rw [h1, h2] at hg
      simp only at hg
      subst hg
      cases a1 with
      | some r => rfl
      | none =>
        simp only
        cases callTok with
        | none => rfl
        | some t =>
          cases t with
          | nil => rfl
          | cons b bs =>
            simp only
            rw [ho]
            cases openToken tbl₂ key callVersion (b :: bs) (callAad who) with
            | error e => rfl
            | ok pt =>
              cases pt with
              | cursor d => rfl
              | session d => rfl
              | call d =>
                simp only
                by_cases hto : tooOld now ttl d.created = true
                · rw [if_pos hto, if_pos hto]
                · rw [if_neg hto, if_neg hto]
                  by_cases hid : d.callId ≠ cur.callId
                  · rw [if_pos hid, if_pos hid]
                  · rw [if_neg hid, if_neg hid]

theorem resolveCall_filter (tbl : List SealRec) (inst : Inst) (now : Int) (cur : CursorData)
    (callTok : Option Bytes) (who : Ident) :
    (resolveCall (tbl.filter (mineRec who)) (restrict who inst) now cur callTok who).2 =
    (resolveCall tbl inst now cur callTok who).2 := by
  cases inst with
  | mk key ttl m c s sv ss r h ms =>
    exact resolveCall_snd_congr _ _ key ttl m m _ c s s sv sv ss ss r r h h ms ms now cur callTok who
      (cacheGet_filter m c now cur.callId who)
      (fun t => openToken_filter tbl who key _ t _ (Or.inr rfl))

theorem openSession_filter (tbl : List SealRec) (who : Ident) (key tok : Bytes) :
    openSession (tbl.filter (mineRec who)) key tok (cursorAad who) = openSession tbl key tok (cursorAad who) := by
  unfold openSession
  simp only [aeadOpen_filter tbl who _ _ _ _ (Or.inl rfl)]

theorem stickyResolve_filter (tbl : List SealRec) (inst : Inst) (who : Ident) (c₁ c₂ : List CacheEntry)
    (hdr : Option Bytes) :
    stickyResolve (tbl.filter (mineRec who)) { inst with cache := c₁ } who hdr =
    stickyResolve tbl { inst with cache := c₂ } who hdr := by
  unfold stickyResolve
  simp only [openSession_filter]

theorem dispatch_filter (tbl : List SealRec) (inst : Inst) (req : Req) (c₁ c₂ : List CacheEntry)
    (mi : MethodInfo) (cur : CursorData) (rc : Resolved) :
    dispatch (tbl.filter (mineRec req.who)) { inst with cache := c₁ } req mi cur rc =
    dispatch tbl { inst with cache := c₂ } req mi cur rc := by
  unfold dispatch
  rw [stickyResolve_filter tbl inst req.who c₁ c₂]
  rfl

/-- **history_independent**: the outcome of a request by `who` — status, error, user code run,
cursor minted — is the same after deleting every sealed record that does not carry one of
`who`'s AADs and every cache entry whose key does not end with `who`'s identity: tokens and cache
entries created for / by other identities can never change whether `who`'s request is accepted.
(Cache keys are compared by their identity suffix; `identKey_anon_collision` characterises the
only two identities whose suffixes coincide.) -/
theorem history_independent (tbl : List SealRec) (inst : Inst) (req : Req) :
    (exchange (tbl.filter (mineRec req.who)) (restrict req.who inst) req).2 = (exchange tbl inst req).2 := by
  have hrc := fun cur => resolveCall_filter tbl inst req.now cur req.call req.who
  unfold exchange
  have hm : (restrict req.who inst).method? req.method = inst.method? req.method := rfl
  rw [hm]
  cases inst.method? req.method with
  | none => rfl
  | some mi =>
    simp only
    cases req.cursor with
    | none => rfl
    | some tok =>
      simp only
      have : (restrict req.who inst).key = inst.key ∧ (restrict req.who inst).ttl = inst.ttl := ⟨rfl, rfl⟩
      rw [this.1, this.2, openCursor_filter]
      cases openCursor tbl inst.key inst.ttl req.now tok req.who with
      | error e => rfl
      | ok cur =>
        simp only
        split
        · rfl
        · have h := hrc cur
          cases h1 : resolveCall (tbl.filter (mineRec req.who)) (restrict req.who inst) req.now cur req.call req.who with
          | mk c1 r1 =>
            cases h2 : resolveCall tbl inst req.now cur req.call req.who with
            | mk c2 r2 =>
              rw [h1, h2] at h
              simp only at h
              subst h
              cases r1 with
              | error e => rfl
              | ok rc =>
                simp only
                exact dispatch_filter tbl inst req c1 c2 mi cur rc

/-! ### Non-vacuity -/

def alice : Ident := ⟨true, [98], [97]⟩     -- domain "b", principal "a"
def mallory : Ident := ⟨true, [98], [109]⟩  -- domain "b", principal "m"
/-- one cursor and one call token minted for alice (envelopes as in the C12 examples) -/
def exTbl : List SealRec :=
  [⟨exKey, exNonce1, cursorAad alice, exCt, .cursor exCursor⟩, ⟨exKey, exNonce2, callAad alice, exCt, .call exCall⟩]

example : NoncesUnique exTbl := by
  intro r₁ h₁ r₂ h₂ hk hn
  simp [exTbl] at h₁ h₂
  rcases h₁ with h₁ | h₁ <;> rcases h₂ with h₂ | h₂ <;> subst h₁ <;> subst h₂ <;> first | rfl | (revert hn; decide)

-- alice is accepted, mallory presenting the very same bytes is refused with nothing run
example : (exchange exTbl exInst ⟨alice, [109], some exCursorTok, some exCallTok, false, none, 130000, []⟩).2.err = none ∧
    (exchange exTbl exInst ⟨mallory, [109], some exCursorTok, some exCallTok, false, none, 130000, []⟩).2 =
      refuse 400 .signature := by decide

-- the call token (version byte rewritten to 6) presented as the cursor: refused
example : NoNul alice.domain ∧ ¬ alice.same mallory ∧
    (exchange exTbl exInst ⟨alice, [109], some exCallAsCursorTok, some exCallTok, false, none, 130000, []⟩).2 =
      refuse 400 .signature := by decide

end Vgi.Props.C13

