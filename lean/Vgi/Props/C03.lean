import Vgi.Model.HttpDispatch
import Vgi.Props.C02
/-!
# C03 — No client-supplied bytes can crash the server or abort an HTTP exchange

Go panics are runtime behaviour that no model exhibits: the decisive observation for this
property is made by the harness on the real code (no panic escapes `Serve`, the serve loop
returns, every HTTP request gets a complete response). What IS proved here, about the models the
drivers execute (`Vgi.Pipe.serve/serveOne`, `Vgi.Http.handle`), for every configuration and every
handler behaviour, is the decision logic that is supposed to keep foreign shapes away from
reflection / Arrow accessors, and that every input has an answer of a fixed class:

* on a pipe every stream is either a request that is answered, or the clean end of the session;
* a request whose parameters cannot be bound never reaches the handler, on every transport;
* a handler error or panic is an in-band error answer, never "no answer";
* every HTTP request to the unary and init routes has a status from a fixed set.
-/
namespace Vgi.Props.C03
open Vgi Vgi.Wire Vgi.Pipe Vgi.Http

/-! ## Pipe: answer or clean close, for ANY client bytes (no well-shapedness assumed) -/

/-- Every stream that holds a request batch is answered (with at least one stream, unless it is
a stream call whose input stream never arrived) and serving goes on. Built from the per-branch
lemmas of C02 (`unary_shaped_independent`, `stream_shaped_consumes`), which need no
well-shapedness. -/
theorem serveOne_answers (cfg : Cfg) (s : Stream) (next : Option Stream) (hb : s.batches ≠ []) :
    ∃ rs c, serveOne cfg s next = .resp rs c ∧ (rs ≠ [] ∨ next = none) := by
  let op : ClientOp := ⟨s, next⟩
  cases hs : isStreamCall cfg op with
  | false =>
    obtain ⟨d, _, hd⟩ := C02.unary_shaped_independent cfg op hb hs
    exact ⟨[d], false, hd next, .inl (List.cons_ne_nil _ _)⟩
  | true =>
    obtain ⟨rs, hrs, hshape⟩ := C02.stream_shaped_consumes cfg op hs next
    refine ⟨rs, true, hrs, ?_⟩
    cases hn : next with
    | none => exact .inr rfl
    | some i =>
      left
      have hsh := hshape (by simp [hn])
      rcases hsh with ⟨d, h1, _⟩ | ⟨h, d, h1, _⟩ <;> simp [h1]

/-- The serve loop stops exactly when the stream holds no request batch (clean EOS ⇒ `io.EOF`,
broken ⇒ transport error): that is the "closes the connection cleanly" arm. -/
theorem serveOne_stop_iff (cfg : Cfg) (s : Stream) (next : Option Stream) :
    serveOne cfg s next = .stop ↔ s.batches = [] := by
  constructor
  · intro h
    by_cases hb : s.batches = []
    · exact hb
    · obtain ⟨rs, c, hrs, _⟩ := serveOne_answers cfg s next hb
      rw [hrs] at h
      cases h
  · intro hb
    unfold serveOne readRequestStream
    simp only [hb]
    cases s.broken <;> rfl

/-- **pipe_answers_or_closes.** Whatever streams the client sends — valid or not, well-shaped
or not — every `serveOne` step either ends the session (only for a stream without a request
batch) or writes its answer and goes on; the answer is non-empty unless the request was a
stream call whose input stream never arrived (end of input: the session then ends cleanly). -/
theorem pipe_answers_or_closes (cfg : Cfg) (s : Stream) (next : Option Stream) :
    (serveOne cfg s next = .stop ∧ s.batches = []) ∨
    (∃ rs c, serveOne cfg s next = .resp rs c ∧ (rs ≠ [] ∨ next = none)) := by
  by_cases hb : s.batches = []
  · exact .inl ⟨(serveOne_stop_iff cfg s next).mpr hb, hb⟩
  · exact .inr (serveOne_answers cfg s next hb)

/-! ## The binding gate: a foreign shape never reaches the handler -/

/-- **param_gate_unary.** When the parameters cannot be bound (schema differs from the declared
one, a batch with columns but no row 0 such as an unresolved pointer batch, or a bad embedded
payload) the unary answer is one TypeError stream — the same for EVERY handler: the handler
function is not consulted. -/
theorem param_gate_unary (cfg : Cfg) (info : MethodInfo) (req : Request)
    (h : bindOk cfg info req = false) :
    serveUnary cfg info req = errStream "TypeError" req.requestId := by
  simp [serveUnary, h]

theorem param_gate_unary_handler_independent (cfg : Cfg) (info : MethodInfo) (req : Request)
    (u' : Bytes → List Bytes → UnaryOutcome) (h : bindOk cfg info req = false) :
    serveUnary { cfg with unary := u' } info req = serveUnary cfg info req := by
  have h' : bindOk { cfg with unary := u' } info req = false := h
  rw [param_gate_unary _ _ _ h', param_gate_unary _ _ _ h]

/-- **param_gate_stream.** The same for stream methods, and the input stream is consumed. -/
theorem param_gate_stream (cfg : Cfg) (info : MethodInfo) (req : Request) (next : Option Stream)
    (h : bindOk cfg info req = false) :
    serveStream cfg info req next = .resp [errStream "TypeError" req.requestId] true := by
  simp [serveStream, h]

/-- **pointer_zero_row_exempt / refused.** A zero-row request that carries a location (or shm
offset) key passes `ReadRequest`'s row-count check by design, but with a parameter schema that
has columns it can never be bound: it is refused by the gate instead of reaching row 0. -/
theorem zero_row_never_bound (cfg : Cfg) (info : MethodInfo) (req : Request)
    (hrows : req.batch.rows = 0) (hp : info.params ≠ []) : bindOk cfg info req = false := by
  have : info.params.isEmpty = false := by
    cases hpp : info.params with
    | nil => exact absurd hpp hp
    | cons _ _ => rfl
  simp [bindOk, hrows, this]

theorem pointer_zero_row_exempt (sch : Schema) (b : Batch) (bs : List Batch) (br : Bool) (m loc : Bytes)
    (hm : b.md.get kMethod = some m) (hu : validUtf8 m = true)
    (hv : b.md.get kRequestVersion = some protocolVersion)
    (hl : b.md.get kLocation = some loc) :
    ∃ req, readRequestStream ⟨sch, b :: bs, br⟩ = .ok req ∧ req.batch = b ∧ req.method = m := by
  refine ⟨{ method := m, version := protocolVersion,
            requestId := (b.md.get kRequestId).getD [], logLevel := (b.md.get kLogLevel).getD [],
            schema := sch, batch := b }, ?_, rfl, rfl⟩
  simp [readRequestStream, hm, hu, hv, hl]

/-- **handler_failure_is_answered.** A unary handler that returns an error or panics produces
an answer stream ending in one EXCEPTION batch (after its logs); nothing escapes. -/
theorem handler_failure_is_answered (cfg : Cfg) (info : MethodInfo) (req : Request)
    (hb : bindOk cfg info req = true)
    (hf : (∃ l ty, cfg.unary req.method req.batch.cells = .error l ty) ∨
          (∃ l, cfg.unary req.method req.batch.cells = .panic l)) :
    ∃ l ty, serveUnary cfg info req = ⟨false, logsOf l req.requestId ++ [.exc ty req.requestId]⟩ := by
  rcases hf with ⟨l, ty, h⟩ | ⟨l, h⟩
  · exact ⟨recorded req l, ty, by simp [serveUnary, hb, h]⟩
  · exact ⟨recorded req l, "RuntimeError", by simp [serveUnary, hb, h]⟩

/-! ## HTTP: every request to the unary / init routes has a status from a fixed set -/

/-- **http_status_total.** -/
theorem http_status_total (cfg : Cfg) (r : HttpReq) :
    (handle cfg r).status = 200 ∨ (handle cfg r).status = 400 ∨ (handle cfg r).status = 404 ∨
    (handle cfg r).status = 415 := by
  cases h : handle cfg r <;> simp [Outcome.status]

/-- Content type is checked before anything else. -/
theorem http_bad_content_type (cfg : Cfg) (r : HttpReq) (h : r.contentTypeOk = false) :
    handle cfg r = .s415 := by
  unfold handle
  cases r.route <;> simp [handleUnary, handleInit, h]

/-- **http_param_gate.** On both routes a request that names a registered method of the right
kind but whose parameters cannot be bound is a 400, whatever the handler would do. -/
theorem http_param_gate (cfg : Cfg) (r : HttpReq) (info : MethodInfo) (req : Request)
    (hct : r.contentTypeOk = true) (hnd : r.pathMethod ≠ mDescribe)
    (hl : lookup cfg r.pathMethod = some info)
    (hk : (r.route = .unary ∧ info.kind = .unary) ∨ (r.route = .init ∧ info.kind ≠ .unary))
    (henc : r.encodingOk = true) (hr : readRequest r.body = .ok req)
    (hb : bindOk cfg info req = false) : handle cfg r = .s400 := by
  have hc : checkedRequest cfg info r = .error .s400 := by
    unfold checkedRequest
    simp only [henc, hr, Bool.not_true, Bool.false_eq_true, if_false]
    by_cases h1 : req.method ≠ r.pathMethod
    · simp [h1]
    · by_cases h2 : refused cfg req = true
      · simp [h1, h2]
      · simp [h1, h2, hb]
  unfold handle
  rcases hk with ⟨hrt, hkk⟩ | ⟨hrt, hkk⟩
  · simp [hrt, handleUnary, hct, hnd, hl, hkk, hc]
  · simp [hrt, handleInit, hct, hl, hkk, hc]

/-- **http_handler_failure.** A unary handler error or panic is a complete response: status 200
with the error header (the rewritten 500). -/
theorem http_handler_failure (cfg : Cfg) (r : HttpReq) (info : MethodInfo) (req : Request)
    (hrt : r.route = .unary) (hct : r.contentTypeOk = true) (hnd : r.pathMethod ≠ mDescribe)
    (hl : lookup cfg r.pathMethod = some info) (hk : info.kind = .unary)
    (hc : checkedRequest cfg info r = .ok req)
    (hf : ∀ l c, cfg.unary req.method req.batch.cells ≠ .value l c) :
    handle cfg r = .s200err := by
  unfold handle
  simp only [hrt, handleUnary, hct, hnd, hl, hk, hc, Bool.not_true, Bool.false_eq_true, if_false,
    ne_eq, not_true_eq_false]
  cases hu : cfg.unary req.method req.batch.cells with
  | value l c => exact absurd hu (hf l c)
  | error l ty => rfl
  | panic l => rfl

/-- A garbage body (empty, junk, a stream without a batch, missing method/version, wrong row
count) on a route that got as far as reading it is a 400. -/
theorem http_unreadable_body (cfg : Cfg) (r : HttpReq) (info : MethodInfo) (e : ReadErr)
    (henc : r.encodingOk = true) (hr : readRequest r.body = .error e) :
    checkedRequest cfg info r = .error .s400 := by
  simp [checkedRequest, henc, hr]

/-! ## Non-vacuity -/

namespace Ex
def fA : Field := ⟨[0x61], [0x69], false⟩
def uInfo : MethodInfo := ⟨[0x75], .unary, [fA], true, false, none⟩
def pInfo : MethodInfo := ⟨[0x70], .producer, [fA], false, false, none⟩
def cfg : Cfg :=
  { methods := [uInfo, pInfo], pvGate := none,
    unary := fun _ cells => if cells = [[1]] then .panic 0 else .value 0 cells,
    stream := fun _ _ => .panic, bindFails := fun _ cells => cells = [[9]],
    canCast := fun _ _ _ => false }
def rqMeta (m : Bytes) : Meta := [(kMethod, m), (kRequestVersion, protocolVersion)]
/-- a zero-row pointer batch for `u` (location key, matching schema) -/
def zeroRowPtr : Stream := ⟨[fA], [⟨0, rqMeta [0x75] ++ [(kLocation, [0x68])], []⟩], false⟩
def badPayload : Stream := ⟨[fA], [⟨1, rqMeta [0x75], [[9]]⟩], false⟩
def panicking : Stream := ⟨[fA], [⟨1, rqMeta [0x75], [[1]]⟩], false⟩
def http (rt : Route) (m : Bytes) (s : Stream) : HttpReq := ⟨rt, m, true, true, ⟨[s], false⟩⟩
end Ex

example : serve Ex.cfg [Ex.zeroRowPtr, Ex.badPayload, Ex.panicking, ⟨[], [], false⟩, Ex.panicking] =
    ([errStream "TypeError" [], errStream "TypeError" [], errStream "RuntimeError" []], 1) := by decide
example : handle Ex.cfg (Ex.http .unary [0x75] Ex.zeroRowPtr) = .s400 ∧
    handle Ex.cfg (Ex.http .unary [0x75] Ex.badPayload) = .s400 ∧
    handle Ex.cfg (Ex.http .unary [0x75] Ex.panicking) = .s200err ∧
    handle Ex.cfg (Ex.http .init [0x75] Ex.panicking) = .s400 ∧
    handle Ex.cfg (Ex.http .init [0x70] ⟨[Ex.fA], [⟨1, Ex.rqMeta [0x70], [[2]]⟩], false⟩) = .dispatched ∧
    handle Ex.cfg (Ex.http .unary [0x7a] Ex.panicking) = .s404 ∧
    handle Ex.cfg ⟨.unary, [0x75], true, true, ⟨[], true⟩⟩ = .s400 := by decide

end Vgi.Props.C03
