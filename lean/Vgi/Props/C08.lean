import Vgi.Model.Values
import Vgi.Proofs.ValuesSpec
import Vgi.Proofs.ValuesScalar
import Vgi.Proofs.ValuesTree
/-!
# C08 — Values survive Arrow serialization for every supported type

Property theorems about `Vgi.Values`, the model of `vgirpc/types_{serialize,deserialize,schema,
convert,cache}.go` as repaired by the `fix:` commits for F08a–e (the proofs are in
`Vgi.Proofs.ValuesScalar` / `Vgi.Proofs.ValuesTree`; this file only states them).

1. the conversion arithmetic over the WHOLE wire range of every scalar type, in both directions
   (Go value → wire → Go value, and wire → Go value → wire);
2. the structural round trip for arbitrary nesting — pointers, lists, maps, struct-tagged structs
   and the top-level parameter struct — with nil and empty collections identified and every leaf
   at its documented precision (`canon`);
3. the memoized schema derivation returns, on every call of every history, what the uncached walk
   computes.

No bound on sizes, depths or values appears in any statement.
-/
namespace Vgi.Props.C08
open Vgi Vgi.Values

/-! ## 1. Scalar conversions over the whole wire range -/

/-- Timestamps, wire → Go → wire: every int64 microsecond count decodes to a valid instant
(`0 ≤ nsec < 10⁹`) that encodes back to the same count. (F08a: the pre-fix decode wrapped for
|µs| > 2⁶³/1000.) -/
theorem ts_wire_roundtrip (us : Int) (h1 : -9223372036854775808 ≤ us) (h2 : us < 9223372036854775808) :
    unixMicro (timestampToTime us) = us ∧
      0 ≤ (timestampToTime us).nsec ∧ (timestampToTime us).nsec < 1000000000 :=
  Vgi.Values.ts_wire_roundtrip us h1 h2

/-- Timestamps, Go → wire → Go: every instant whose microsecond count fits the wire type comes
back as the same instant floored to the microsecond. -/
theorem ts_value_roundtrip (t : GoTime) (hn : 0 ≤ t.nsec ∧ t.nsec < 1000000000)
    (h1 : -9223372036854775808 ≤ t.sec * 1000000 + t.nsec / 1000)
    (h2 : t.sec * 1000000 + t.nsec / 1000 < 9223372036854775808) :
    timestampToTime (unixMicro t) = ⟨t.sec, t.nsec / 1000 * 1000⟩ :=
  Vgi.Values.ts_value_roundtrip t hn h1 h2

example : timestampToTime (unixMicro ⟨16725225600, 123456789⟩) = ⟨16725225600, 123456000⟩ := by decide  -- year 2500
example : unixMicro (timestampToTime (-9223372036854775808)) = -9223372036854775808 := by decide

/-- Dates, the whole int32 day range: any instant inside UTC day `d` (any second of the day, any
nanosecond) encodes as `d`. (F08b: the pre-fix code saturated beyond ±106751 days; F08c: it
truncated toward zero, so instants before 1970 landed on the following day.) -/
theorem date_day_class (d s ns : Int) (hd : -2147483648 ≤ d ∧ d < 2147483648)
    (hs : 0 ≤ s ∧ s < 86400) : daysSinceEpoch ⟨d * 86400 + s, ns⟩ = d :=
  Vgi.Values.date_day_class d s ns hd hs

/-- Dates, wire → Go → wire. -/
theorem date_wire_roundtrip (d : Int) (hd : -2147483648 ≤ d ∧ d < 2147483648) :
    daysSinceEpoch (date32ToTime d) = d :=
  Vgi.Values.date_wire_roundtrip d hd

/-- Dates, Go → wire → Go: midnight UTC of the instant's own UTC calendar day. -/
theorem date_value_roundtrip (t : GoTime) (hd : -2147483648 ≤ t.sec / 86400 ∧ t.sec / 86400 < 2147483648) :
    date32ToTime (daysSinceEpoch t) = ⟨t.sec / 86400 * 86400, 0⟩ :=
  Vgi.Values.date_value_roundtrip t hd

example : daysSinceEpoch ⟨-43200, 0⟩ = -1 := by decide            -- 1969-12-31T12:00Z (F08c witness)
example : daysSinceEpoch ⟨16725225600, 0⟩ = 193579 := by decide   -- 2500-01-01 (F08b witness)
example : daysSinceEpoch (date32ToTime (-2147483648)) = -2147483648 := by decide

/-- Times of day, wire → Go → wire over the valid time64[us] range. -/
theorem time_wire_roundtrip (us : Int) (h : 0 ≤ us ∧ us < 86400000000) :
    microsSinceMidnight (time64ToTime us) = us :=
  Vgi.Values.time_wire_roundtrip us h

/-- Times of day, Go → wire → Go: the time of day of the instant (UTC), to the microsecond, on
the fixed epoch day. -/
theorem time_value_roundtrip (t : GoTime) (hn : 0 ≤ t.nsec ∧ t.nsec < 1000000000) :
    time64ToTime (microsSinceMidnight t) = ⟨t.sec % 86400, t.nsec / 1000 * 1000⟩ :=
  Vgi.Values.time_value_roundtrip t hn

example : time64ToTime (microsSinceMidnight ⟨-1, 999999999⟩) = ⟨86399, 999999000⟩ := by decide

/-- Durations, Go → wire → Go: every int64 nanosecond count comes back truncated toward zero to
whole microseconds. -/
theorem dur_value_roundtrip (ns : Int) (h : -9223372036854775808 ≤ ns ∧ ns < 9223372036854775808) :
    durDecode (durEncode ns) = ns - trem ns 1000 ∧
      (0 ≤ ns → 0 ≤ trem ns 1000 ∧ trem ns 1000 < 1000) ∧ (ns < 0 → -1000 < trem ns 1000 ∧ trem ns 1000 ≤ 0) :=
  Vgi.Values.dur_value_roundtrip ns h

/-- Durations, wire → Go → wire for every microsecond count a Go `time.Duration` can hold. -/
theorem dur_wire_roundtrip (us : Int) (h : -9223372036854775 ≤ us ∧ us ≤ 9223372036854775) :
    durEncode (durDecode us) = us :=
  Vgi.Values.dur_wire_roundtrip us h

example : durDecode (durEncode (-1500)) = -1000 := by decide

/-- Integer widths, Go → wire → Go: for every Go integer kind and every wire integer type (any
signedness, widths up to 64), a value inside both ranges survives. -/
theorem int_value_roundtrip (go wire : ITy) (v : Int)
    (hg : 0 < go.bits ∧ go.bits ≤ 64) (hw : 0 < wire.bits ∧ wire.bits ≤ 64)
    (h1 : go.InRange v) (h2 : wire.InRange v) :
    decodeInt go wire (encodeInt wire v) = v :=
  Vgi.Values.int_value_roundtrip go wire v hg hw h1 h2

/-- Integer widths, wire → Go → wire. -/
theorem int_wire_roundtrip (go wire : ITy) (w : Int)
    (hg : 0 < go.bits ∧ go.bits ≤ 64) (hw : 0 < wire.bits ∧ wire.bits ≤ 64)
    (h1 : go.InRange w) (h2 : wire.InRange w) :
    encodeInt wire (decodeInt go wire w) = w :=
  Vgi.Values.int_wire_roundtrip go wire w hg hw h1 h2

example : decodeInt ⟨false, 64⟩ ⟨false, 64⟩ (encodeInt ⟨false, 64⟩ 18446744073709551615) = 18446744073709551615 := by decide
example : decodeInt ⟨true, 64⟩ ⟨true, 8⟩ (encodeInt ⟨true, 8⟩ (-128)) = -128 := by decide

/-- Decimals, wire → Go → wire: every decimal128(20,4) value (|n| < 10²⁰) is rendered with four
decimal places and parses back to the same scaled integer. -/
theorem decimal_wire_roundtrip (n : Int) (h : -decLimit < n ∧ n < decLimit) :
    decParse (decToString n) = .ok n :=
  Vgi.Values.decimal_wire_roundtrip n h

/-- Decimals, Go → wire → Go: a string the parser accepts comes back as the canonical four-place
rendering of the value it was read as, and that rendering is a fixed point. -/
theorem decimal_value_roundtrip (x : BStr) (n : Int) (h : decParse x = .ok n) :
    -decLimit < n ∧ n < decLimit ∧ decParse (decToString n) = .ok n := by
  have hb : -decLimit < n ∧ n < decLimit := by
    simp only [decParse] at h
    split at h
    · cases h
    · rename_i m _
      unfold decLimit at h ⊢
      split at h
      · cases h
        split <;> omega
      · cases h
  exact ⟨hb.1, hb.2, Vgi.Values.decimal_wire_roundtrip n hb⟩

example : decToString (-15000) = ['-', '1', '.', '5', '0', '0', '0'] := by decide
example : decParse ['1', '.', '2', '3', '4', '5', '6'] = .ok 12346 := by
  simp [decParse, decParseBody, decScale, parseDigits, parseDigitsAcc, digitVal, decLimit]

/-! ## 2. The structural round trip -/

/-- Every representable value of every supported type, nested to any depth: serializing `v`
succeeds, and decoding the cell into a field of type `t` yields `canon t a v` — `v` with nil
collections read as empty ones, map entries in wire key order, every leaf at its documented
precision, untagged struct fields at zero. -/
theorem roundtrip (t : GoTy) (a : ATy) (v : Val) (h : WT t a v) :
    ∃ c, encode a v = .ok c ∧ decode t c = .ok (canon t a v) :=
  rt_val v t a h

/-- The top-level parameter/result struct (`serializeVgirpcStruct` then `deserializeParams`):
tagged fields are carried positionally, any tag names, duplicates included. -/
theorem roundtrip_struct (gfs : GoFields) (afs : AFields) (sfs : SFields) (h : WTfields gfs afs sfs) :
    ∃ cfs, encodeTop afs sfs = .ok cfs ∧ decodeTop gfs cfs = .ok (canonFields gfs afs sfs) := by
  obtain ⟨cfs, h1, h2, _⟩ := rt_fields sfs gfs afs h
  exact ⟨cfs, h1, h2⟩

/-- What `canon` does to a leaf is exactly the documented precision, nothing else: integers,
floats (by bits), bools, strings, binaries and nil pointers come back unchanged. -/
theorem canon_exact_leaves (t : GoTy) (a : ATy) :
    (∀ x, canon t a (.f32 x) = .f32 x) ∧ (∀ x, canon t a (.f64 x) = .f64 x) ∧ (∀ x, canon t a (.bool x) = .bool x) ∧
    (∀ x, canon t a (.int x) = .int x) ∧ (∀ x, canon t a (.bytes x) = .bytes x) ∧ canon t a .nil = .nil ∧
    (∀ x, a ≠ .dec → canon t a (.str x) = .str x) := by
  refine ⟨?_, ?_, ?_, ?_, ?_, ?_, ?_⟩ <;> intros <;> (try cases a) <;> simp_all [canon, leafCanon]

/-- nil and empty collections are treated alike: both come back as the empty collection. -/
theorem canon_nil_empty (et kt vt : GoTy) (ea ka va : ATy) :
    canon (.slice et) (.list ea) (.slice true .nil) = canon (.slice et) (.list ea) (.slice false .nil) ∧
    canon (.map kt vt) (.map ka va) (.map true .nil) = canon (.map kt vt) (.map ka va) (.map false .nil) := by
  simp [canon, derefTy, canons, canonKVs, sortKVs]

/-! Non-vacuity: a struct with a nullable list of timestamps, a map with a nil pointer value and a
nested struct-tagged struct is well typed at the schema the derivation itself produces. -/

def exTy : GoFields :=
  .cons ['t', 's', ',', 'e', 'l', 'e', 'm', '=', 't', 'i', 'm', 'e', 's', 't', 'a', 'm', 'p'] [] (.ptr (.slice (.ptr (.prim .time))))
  (.cons ['m'] [] (.map (.prim .str) (.ptr (.prim (.int ⟨true, 64⟩))))
  (.cons ['-'] [] (.prim .bool)
  (.cons ['s', ',', 's', 't', 'r', 'u', 'c', 't'] []
      (.struct (.cons ['d', ',', 'd', 'a', 't', 'e'] [] (.prim .time) (.cons ['n', ',', 'i', 'n', 't', '8'] [] (.prim (.int ⟨true, 64⟩)) .nil)))
  .nil)))

def exSchema : AFields :=
  .cons ['t', 's'] (.list (.ts false)) true
  (.cons ['m'] (.map .utf8 (.int ⟨true, 64⟩)) false
  (.cons ['s'] (.struct (.cons ['d'] .date32 false (.cons ['n'] (.int ⟨true, 8⟩) false .nil))) false .nil))

def exVal : SFields :=
  .cons ['t', 's', ',', 'e', 'l', 'e', 'm', '=', 't', 'i', 'm', 'e', 's', 't', 'a', 'm', 'p'] []
      (.slice false (.cons (.time ⟨16725225600, 123456789⟩) (.cons .nil .nil)))
  (.cons ['m'] [] (.map false (.cons (.str ['b']) (.int 7) (.cons (.str ['a']) .nil .nil)))
  (.cons ['-'] [] (.bool true)
  (.cons ['s', ',', 's', 't', 'r', 'u', 'c', 't'] []
      (.struct (.cons ['d', ',', 'd', 'a', 't', 'e'] [] (.time ⟨-43200, 5⟩) (.cons ['n', ',', 'i', 'n', 't', '8'] [] (.int (-128)) .nil)))
  .nil)))

example : deriveFields exTy 0 = .ok exSchema := by rfl

example : WTfields exTy exSchema exVal := by
  simp [exTy, exSchema, exVal, WTfields, WT, WTs, WTkvs, LeafWT, KeyTy, tagged, tagName, derefTy, isPtr, bitsOK,
    ITy.InRange, ITy.lo, ITy.hi, NoArrowTags, NamesDistinct, Fresh, GoFields.tags]

/-- Histories: serialization has no state, so any number of values serialized one after the other
(any types, any order of later decoding) each come back as `canon` of themselves — the round trip
lifts pointwise to every list of calls. (The harness checks the implementation on such histories:
all values serialized first, all byte strings decoded afterwards.) -/
theorem roundtrip_history (calls : List (GoFields × AFields × SFields))
    (h : ∀ x ∈ calls, WTfields x.1 x.2.1 x.2.2) :
    ∀ x ∈ calls, ∃ cfs, encodeTop x.2.1 x.2.2 = .ok cfs ∧ decodeTop x.1 cfs = .ok (canonFields x.1 x.2.1 x.2.2) :=
  fun x hx => roundtrip_struct x.1 x.2.1 x.2.2 (h x hx)

/-- Dictionary-encoded strings (`enum`, `dict_string`), wire → Go: a slot decodes to the entry
its OWN index selects, whatever else the dictionary holds and wherever that entry sits. -/
theorem dict_selects_row_entry (t : GoTy) (es : List BStr) (i : Nat) (x : BStr)
    (ht : derefTy t = .prim .str) (hx : es[i]? = some x) : decode t (.dict es i) = .ok (.str x) := by
  simp [decode, ht, hx]

example : decode (.ptr (.prim .str)) (.dict [['r', 'e', 'd'], ['g', 'r', 'e', 'e', 'n'], ['b', 'l', 'u', 'e']] 2)
    = .ok (.str ['b', 'l', 'u', 'e']) := by
  simp [decode, derefTy]

/-! ## 3. The derived schema is the same on every call -/

/-- Every entry of the memo table is what the uncached walk computes for its key. -/
def CacheOK {κ δ : Type} (build : κ → δ) (cache : List (κ × δ)) : Prop := ∀ e ∈ cache, e.2 = build e.1

theorem describe_correct {κ δ : Type} [DecidableEq κ] (build : κ → δ) (cache : List (κ × δ)) (k : κ)
    (h : CacheOK build cache) :
    (describe build cache k).2 = build k ∧ CacheOK build (describe build cache k).1 := by
  unfold describe
  split
  · rename_i e he
    have hm := List.mem_of_find?_eq_some he
    have hk : e.1 = k := by simpa using List.find?_some he
    exact ⟨by rw [h e hm, hk], h⟩
  · refine ⟨rfl, ?_⟩
    intro e he
    simp only [List.mem_cons] at he
    rcases he with he | he
    · subst he; rfl
    · exact h e he

/-- For every history of `describeStruct` calls, starting from the empty table, every call returns
the description the uncached derivation computes for its type — whatever was described before,
however often: the schema a type gets never depends on hidden state. -/
theorem schema_same_on_every_call {κ δ : Type} [DecidableEq κ] (build : κ → δ) :
    ∀ (ks : List κ) (cache : List (κ × δ)), CacheOK build cache →
      describeAll build cache ks = ks.map build
  | [], _, _ => rfl
  | k :: ks, cache, h => by
    have hc := describe_correct build cache k h
    simp only [describeAll, List.map_cons, hc.1]
    rw [schema_same_on_every_call build ks _ hc.2]

example : describeAll (fun n : Nat => n * n) [] [3, 4, 3, 3, 4] = [9, 16, 9, 9, 16] := by decide

end Vgi.Props.C08
