import Vgi.Proofs.Sticky
/-!
# C29 — Sticky sessions are isolated per caller and serialized per session

Theorems about `Vgi.Sticky.step` (the transition system the driver executes). "Reachable" is
reachability by ANY action list = any interleaving of any number of requests, DELETEs, reaper
ticks, shutdowns and drain flips, with arbitrary handlers (a handler is the sub-sequence of its
thread's `hOpen` / `hClose` / `hEnd` actions, `hEnd` covering return and panic alike).

* `sys C`  : requests may present ANY token value (everything except isolation is proved here);
* `gsys C` : the same steps, restricted by the ideal-AEAD assumption that a request can carry a
  well-formed envelope only around a sealed record some response has published (`guard`).
-/
namespace Vgi.Props.C29
open Vgi Vgi.Sticky Vgi.TS

/-! ### Invariants lifted to all reachable states -/

theorem reachable_lockInv (C : Cfg) (s : State) (hr : Reachable (sys C) s) : LockInv s :=
  invariant_of_step (sys C) LockInv lockInv_init (fun s a s' hi hs => lockInv_step C s s' a hi hs) s hr

theorem reachable_closeInv (C : Cfg) (s : State) (hr : Reachable (sys C) s) : CloseInv s :=
  invariant_of_step (sys C) CloseInv closeInv_init (fun s a s' hi hs => closeInv_step C s s' a hi hs) s hr

theorem greachable_reachable (C : Cfg) (s : State) (hr : Reachable (gsys C) s) : Reachable (sys C) s := by
  refine reachable_mono (gsys C) (sys C) rfl ?_ s hr
  intro s a s' hs
  simp only [gsys] at hs
  split at hs
  · exact hs
  · cases hs

theorem greachable_isoInv (C : Cfg) (s : State) (hr : Reachable (gsys C) s) : IsoInv C s :=
  invariant_of_step (gsys C) (IsoInv C) (isoInv_init C)
    (fun s a s' hi hs => isoInv_step C s s' a hi hs) s hr

/-! ### Close runs exactly once -/

/-- **close_at_most_once**: in every reachable state, under every interleaving, the state object
of every session has had `Close` called at most once. -/
theorem close_at_most_once (C : Cfg) (s : State) (hr : Reachable (sys C) s) (u : Nat) :
    s.closeCount u ≤ 1 :=
  (reachable_closeInv C s hr).le1 u

/-- **close_exactly_once**: every session ever opened is in exactly one of three stages —
live in its registry (never closed, nobody owes it a Close); removed with its single Close
still owed by exactly one thread (the one that removed it: CloseSession, DELETE, in-line
expiry, reaper, shutdown or the seal-failure rollback); or closed exactly once. -/
theorem close_exactly_once (C : Cfg) (s : State) (hr : Reachable (sys C) s) (u : Nat)
    (hu : u < s.nextUid) :
    ((∃ e ∈ s.entries, e.uid = u) ∧ s.closeCount u = 0 ∧ ∀ t, u ∉ (s.thr t).owed) ∨
    ((¬ ∃ e ∈ s.entries, e.uid = u) ∧ s.closeCount u = 0 ∧
        ∃ t, u ∈ (s.thr t).owed ∧ ((s.thr t).owed.count u = 1) ∧ ∀ t', u ∈ (s.thr t').owed → t' = t) ∨
    ((¬ ∃ e ∈ s.entries, e.uid = u) ∧ s.closeCount u = 1 ∧ ∀ t, u ∉ (s.thr t).owed) := by
  have h := reachable_closeInv C s hr
  rcases h.acct u hu with ⟨e, he, heu⟩ | hc | ⟨t, ht⟩
  · subst heu
    exact Or.inl ⟨⟨e, he, rfl⟩, (h.live e he).1, (h.live e he).2⟩
  · refine Or.inr (Or.inr ⟨?_, hc, ?_⟩)
    · rintro ⟨e, he, heu⟩
      subst heu
      have := (h.live e he).1
      omega
    · intro t ht
      have := (h.owed0 t u ht).1
      omega
  · refine Or.inr (Or.inl ⟨?_, (h.owed0 t u ht).1, t, ht, ?_, fun t' ht' => h.owedUniq t' t u ht' ht⟩)
    · rintro ⟨e, he, heu⟩
      subst heu
      exact (h.live e he).2 t ht
    · rw [List.Nodup.count (h.owedNodup t)]; simp [ht]

/-- **closed_iff_removed**: once no Close call is pending anywhere, a session's state has been
closed (once) iff the session has left its registry, and is unclosed iff it is still live. -/
theorem closed_iff_removed (C : Cfg) (s : State) (hr : Reachable (sys C) s)
    (hq : ∀ t, (s.thr t).owed = []) (u : Nat) (hu : u < s.nextUid) :
    (s.closeCount u = 1 ↔ ¬ ∃ e ∈ s.entries, e.uid = u) ∧
    (s.closeCount u = 0 ↔ ∃ e ∈ s.entries, e.uid = u) := by
  rcases close_exactly_once C s hr u hu with ⟨h1, h2, _⟩ | ⟨_, _, t, ht, _⟩ | ⟨h1, h2, _⟩
  · exact ⟨⟨fun h => by omega, fun h => absurd h1 h⟩, ⟨fun _ => h1, fun _ => h2⟩⟩
  · rw [hq t] at ht; cases ht
  · exact ⟨⟨fun _ => h1, fun _ => h2⟩, ⟨fun h => by omega, fun h => absurd h h1⟩⟩

/-- A finished request has run every Close it owed (nothing is left for "later"). -/
theorem done_owes_nothing (C : Cfg) (s : State) (hr : Reachable (sys C) s) (t : Nat)
    (hd : (s.thr t).pc = .done) : (s.thr t).owed = [] := by
  have := invariant_of_step (sys C) (fun s => ∀ t, (s.thr t).pc = .done → (s.thr t).owed = [])
    (by intro t; simp [sys, init]) (fun s a s' hi hs => doneInv_step C s s' a hi hs) s hr
  exact this t hd

/-! ### Same-session calls never overlap; no lock is left held -/

/-- Thread `t` resumed session `u` and is between acquiring and releasing its lock: running the
handler, the seal rollback, writing the response, or (DELETE) closing the session. -/
def Running (s : State) (t u : Nat) : Prop :=
  (s.thr t).want = some u ∧ holdsPc (s.thr t).pc = true

instance (s : State) (t u : Nat) : Decidable (Running s t u) :=
  inferInstanceAs (Decidable ((s.thr t).want = some u ∧ holdsPc (s.thr t).pc = true))

/-- **mutual_exclusion**: two requests bearing the same session are never both past the lock. -/
theorem mutual_exclusion (C : Cfg) (s : State) (hr : Reachable (sys C) s) (t1 t2 u : Nat)
    (h1 : Running s t1 u) (h2 : Running s t2 u) : t1 = t2 := by
  have h := reachable_lockInv C s hr
  have l1 := h.b t1 u (h.d t1 u h1.1 h1.2)
  have l2 := h.b t2 u (h.d t2 u h2.1 h2.2)
  rw [l1] at l2
  exact Option.some.inj l2

/-- The handler of a resumed session runs only while its request holds the entry lock. -/
theorem running_holds_lock (C : Cfg) (s : State) (hr : Reachable (sys C) s) (t u : Nat)
    (h1 : Running s t u) : s.lock u = some t :=
  let h := reachable_lockInv C s hr
  h.b t u (h.d t u h1.1 h1.2)

/-- **lock_released**: a request that has completed (normally, with session_lost, or after a
handler panic — `hEnd` with any flag) holds no entry lock; neither does a reaper/shutdown thread
or an unused thread id. -/
theorem lock_released (C : Cfg) (s : State) (hr : Reachable (sys C) s) (t : Nat)
    (hd : (s.thr t).pc = .done ∨ (s.thr t).pc = .sys ∨ (s.thr t).pc = .idle) (u : Nat) :
    s.lock u ≠ some t := by
  have h := reachable_lockInv C s hr
  intro hl
  have := h.c t u (h.a u t hl)
  rcases hd with hd | hd | hd <;> rw [hd] at this <;> cases this

/-! ### Isolation -/

/-- Distinct workers differ in token key or in server id. -/
def DistinctWorkers (C : Cfg) : Prop :=
  ∀ w w', w < C.n → w' < C.n → (C.worker w).key = (C.worker w').key →
    (C.worker w).serverId = (C.worker w').serverId → w = w'

/-- **isolation**: whenever `resolve` (token open + server-id check + `registry.get`) lets a
request through to session `u`, then: `u` is live in the registry of the request's own worker
and not expired at that instant; the presented token is the very record sealed when `u` was
opened (version byte 1); and the opener's AAD and principal key equal the caller's. -/
theorem isolation (C : Cfg) (hC : DistinctWorkers C) (s s' : State) (hr : Reachable (gsys C) s)
    (t : Nat) (now : Int) (u : Nat)
    (hs : step C s (.resolve t now) = some s') (hhit : (s'.thr t).want = some u) :
    ∃ e ∈ s.entries, ∃ b ∈ s.births, ∃ r,
      e.uid = u ∧ b.entry = e ∧ e.worker = (s.thr t).worker ∧ ¬ e.expires < now ∧
      (s.thr t).tok = some (.envelope sessionTokenVersion r) ∧ b.tok = some r ∧
      aadOf b.opener = aadOf (s.thr t).ident ∧ pkeyOf b.opener = pkeyOf (s.thr t).ident := by
  have hI := greachable_isoInv C s hr
  have hK := reachable_closeInv C s (greachable_reachable C s hr)
  have hL := reachable_lockInv C s (greachable_reachable C s hr)
  simp only [step] at hs
  split at hs
  case isFalse => cases hs
  rename_i hpc
  have hwn : (s.thr t).want = none := hL.e t (Or.inr (Or.inl hpc.1))
  have hwk : (s.thr t).worker < C.n := hI.wk t (by rw [hpc.1]; simp)
  split at hs
  · cases hs; simp [hwn] at hhit
  · rename_i p htok
    split at hs
    · cases hs; simp [hwn] at hhit
    · rename_i srv sid hopen
      split at hs
      · cases hs; simp [hwn] at hhit
      · rename_i hsrv
        split at hs
        · cases hs; simp [hwn] at hhit
        · rename_i e hfind
          split at hs
          · cases hs; simp [hwn] at hhit
          · rename_i hexp
            split at hs
            · cases hs; simp [hwn] at hhit
            · rename_i hpk
              cases hs
              simp only [setThr_thr, if_true, Option.some.injEq] at hhit
              obtain ⟨hem, hew, hes⟩ := findEntry_spec hfind
              -- the presented token is a version-1 envelope opening under this worker's key and AAD
              cases p with
              | malformed => simp [openTok] at hopen
              | forged v => simp [openTok] at hopen
              | envelope v r =>
                simp only [openTok] at hopen
                split at hopen
                · cases hopen
                · rename_i hv
                  split at hopen
                  · rename_i hka
                    split at hopen
                    · rename_i srv' sid' x hdec
                      simp only [Option.some.injEq, Prod.mk.injEq] at hopen
                      obtain ⟨hs1, hs2⟩ := hopen
                      subst hs1; subst hs2
                      have hv1 : v = sessionTokenVersion := by
                        simpa using hv
                      subst hv1
                      obtain ⟨b, hb, hbt⟩ := hI.tok t _ r htok
                      obtain ⟨hbp, hbw, hbk⟩ := hI.birth b hb
                      obtain ⟨k1, k2, x', k3⟩ := hbk r hbt
                      rw [hdec] at k3
                      simp only [Option.some.injEq, Prod.mk.injEq] at k3
                      have hsrv' : srv' = (C.worker (s.thr t).worker).serverId := by
                        simpa using hsrv
                      -- same key, same server id ⇒ same worker
                      have hw : b.entry.worker = (s.thr t).worker :=
                        hC _ _ hbw hwk (by rw [← k1, hka.1]) (by rw [← k3.1, hsrv'])
                      -- same worker, same session id ⇒ the birth record of `e`
                      obtain ⟨b', hb', hbe⟩ := hK.born e hem
                      have : b' = b := hI.fresh b' hb' b hb (by rw [hbe, hew, hw]) (by rw [hbe, hes, k3.2.1])
                      subst this
                      refine ⟨e, hem, b', hb, r, hhit, hbe, hew, hexp, htok, hbt, ?_, ?_⟩
                      · rw [← k2, hka.2]
                      · have := hbp; rw [hbe] at this; rw [← this]
                        simpa using hpk
                    · cases hopen
                  · cases hopen

/-- **isolation_same_caller**: with NUL-free authentication domains the AAD identifies the
caller class, so the request that gets through is made by the caller that opened the session. -/
theorem isolation_same_caller (C : Cfg) (hC : DistinctWorkers C) (s s' : State)
    (hr : Reachable (gsys C) s) (t : Nat) (now : Int) (u : Nat)
    (hs : step C s (.resolve t now) = some s') (hhit : (s'.thr t).want = some u) :
    ∃ b ∈ s.births, b.entry.uid = u ∧ b.entry.worker = (s.thr t).worker ∧
      ((0 : UInt8) ∉ b.opener.domain → (0 : UInt8) ∉ (s.thr t).ident.domain →
        SameCaller b.opener (s.thr t).ident) := by
  obtain ⟨e, _, b, hb, r, h1, h2, h3, _, _, _, h7, _⟩ := isolation C hC s s' hr t now u hs hhit
  refine ⟨b, hb, by rw [h2, h1], by rw [h2, h3], fun hd1 hd2 => aadOf_injective _ _ hd1 hd2 h7⟩

/-- **other_presentations_lost**: `resolve` has exactly three outcomes; unless it is a hit (to
which `isolation` applies) the request is answered `session_lost` (or carried no token), asks
for no lock and gets no session installed. -/
theorem other_presentations_lost (C : Cfg) (s s' : State) (hr : Reachable (sys C) s) (t : Nat)
    (now : Int) (hs : step C s (.resolve t now) = some s') :
    ((s'.thr t).last = .hit ∧ (s'.thr t).pc = .lockWait ∧ (s'.thr t).want ≠ none) ∨
    (((s'.thr t).last = .lost ∨ (s'.thr t).last = .noToken) ∧ (s'.thr t).want = none ∧
      (s'.thr t).held = none ∧ (s'.thr t).pc ≠ .lockWait ∧ (s'.thr t).hasSession = (s.thr t).hasSession) := by
  have hL := reachable_lockInv C s hr
  simp only [step] at hs
  split at hs
  case isFalse => cases hs
  rename_i hpc
  have hwn : (s.thr t).want = none := hL.e t (Or.inr (Or.inl hpc.1))
  have hhn : (s.thr t).held = none := hL.held_none t (by rw [hpc.1]; rfl)
  repeat' split at hs
  all_goals first | cases hs | skip
  all_goals simp_all [lostPc]
  all_goals (split <;> simp)

/-- **aad_binds_caller**: the AAD (what the AEAD authenticates) determines the caller class. -/
theorem aad_binds_caller (i j : Ident) (hi : (0 : UInt8) ∉ i.domain) (hj : (0 : UInt8) ∉ j.domain)
    (h : aadOf i = aadOf j) : SameCaller i j := aadOf_injective i j hi hj h

/-- **token_roundtrip**: what `sealSessionToken` lays out is what `openSessionToken` parses back
(server id and session id), for every server id it accepts (≤ 255 bytes). -/
theorem token_roundtrip (created : Nat) (srv : Bytes) (sid : Sid) (exp : Nat) (p : Bytes)
    (hs : sid.length = sessionIDLen) (he : encodePlain created srv sid exp = some p) :
    ∃ x, decodePlain p = some (srv, sid, x) := decode_encodePlain created srv sid exp p hs he

/-! ### Draining -/

/-- **drain_refuses_open**: while a worker's drain flag is set, NO step of any thread adds a
session to its registry (the flag is read in the same critical section that inserts). -/
theorem drain_refuses_open (C : Cfg) (s s' : State) (a : Act) (hs : step C s a = some s') (w : Nat)
    (hd : s.draining w = true) : ∀ e ∈ s'.entries, e.worker = w → e ∈ s.entries :=
  drain_step C s s' a hs w hd

/-! ### Non-vacuity: concrete schedules meeting the hypotheses (evaluated by `decide`) -/

def exCfg : Cfg :=
  { n := 2, worker := fun i => if i = 0 then ⟨[7], [65], 300⟩ else ⟨[7], [66], 300⟩ }
def alice : Ident := ⟨true, [106], [97]⟩
def bob : Ident := ⟨true, [106], [98]⟩
def sidA : Sid := [1, 2, 3, 4, 5, 6, 7, 8, 9, 10, 11, 12]
def sidB : Sid := [2, 2, 3, 4, 5, 6, 7, 8, 9, 10, 11, 12]

/-- alice opens a session on worker 0 (thread 0) and the response publishes the token. -/
def schedOpen : List Act :=
  [.spawn 0 false 0 alice none true, .resolve 0 10, .hOpen 0 sidA 0 10 0 0, .hEnd 0 false,
   .respond 0, .unlock 0]

/-- Two requests of alice with her token (threads 1, 2): the second waits at the lock while the
first is in its handler; bob with the same token (thread 3) and alice on worker 1 (thread 4,
same key, other server id) are lost. -/
def schedUse (r : Sealed) : List Act :=
  [.spawn 1 false 0 alice (some (.envelope 1 r)) true, .resolve 1 20, .lock 1,
   .spawn 2 false 0 alice (some (.envelope 1 r)) false, .resolve 2 21,
   .spawn 3 false 0 bob (some (.envelope 1 r)) false, .resolve 3 22,
   .spawn 4 false 1 alice (some (.envelope 1 r)) false, .resolve 4 23]

/-- Thread 1 closes the session in its handler, opens another one, panics; thread 5 (reaper)
evicts it after expiry; thread 2 then finds the first session gone. -/
def schedEnd : List Act :=
  [.hClose 1, .runClose 1, .hOpen 1 sidB 5 30 0 0, .hEnd 1 true, .respond 1, .unlock 1,
   .lock 2, .hEnd 2 false, .respond 2, .unlock 2,
   .reap 5 0 1000]

def exMid : Option State := do
  let s1 ← run (gsys exCfg) init schedOpen
  let r ← s1.published.head?
  run (gsys exCfg) s1 (schedUse r)

def exEnd : Option State := exMid.bind fun s => run (gsys exCfg) s schedEnd

example : DistinctWorkers exCfg := by
  intro w w' hw hw' _ hs
  simp only [exCfg] at hw hw' hs
  have h1 : w = 0 ∨ w = 1 := by omega
  have h2 : w' = 0 ∨ w' = 1 := by omega
  rcases h1 with h | h <;> rcases h2 with h' | h' <;> subst h <;> subst h' <;> simp_all

-- mutual exclusion / isolation: thread 1 runs under the lock, thread 2 waits, strangers are lost
example : (exMid.map fun s => decide (Running s 1 0 ∧ (s.thr 2).pc = .lockWait ∧ (s.thr 2).want = some 0 ∧
    (s.thr 3).last = .lost ∧ (s.thr 4).last = .lost ∧ s.lock 0 = some 1 ∧ s.closeCount 0 = 0)) = some true := by
  decide

-- close accounting: a pending Close (stage 2), then both sessions closed exactly once, locks free
example : ((exMid.bind fun s => run (gsys exCfg) s [.hClose 1]).map fun s =>
    decide (s.entries = [] ∧ (s.thr 1).owed = [0] ∧ s.closeCount 0 = 0)) = some true := by decide

example : (exEnd.map fun s => decide (s.entries = [] ∧ s.nextUid = 2 ∧ s.closeCount 0 = 1 ∧ s.closeCount 1 = 0 ∧
    (s.thr 5).owed = [1] ∧ (s.thr 1).pc = .done ∧ (s.thr 2).pc = .done ∧ s.lock 0 = none ∧
    (s.thr 1).last = .responded ∧ s.published.length = 2)) = some true := by decide

example : ((exEnd.bind fun s => run (gsys exCfg) s [.runClose 5]).map fun s =>
    decide (s.closeCount 0 = 1 ∧ s.closeCount 1 = 1 ∧ (s.thr 5).owed = [])) = some true := by decide

-- draining: the open is refused, nothing is inserted; after clearing the flag it succeeds
example : ((run (sys exCfg) init [.setDraining 0 true, .spawn 0 false 0 alice none true, .resolve 0 1,
      .hOpen 0 sidA 0 1 0 0]).map fun s => decide (s.entries = [] ∧ (s.thr 0).last = .openDraining)) = some true := by
  decide

example : ((run (sys exCfg) init [.setDraining 0 true, .spawn 0 false 0 alice none true, .resolve 0 1,
      .setDraining 0 false, .hOpen 0 sidA 0 1 0 0]).map fun s => decide (s.entries.length = 1 ∧ (s.thr 0).last = .openOk)) =
    some true := by decide

-- token layout / AAD: distinct callers, distinct AADs; anonymous and authenticated never collide
example : (encodePlain 5 [65, 66] sidA 9).isSome ∧ aadOf alice ≠ aadOf bob ∧
    aadOf ⟨false, [], []⟩ ≠ aadOf ⟨true, [], [0x61, 0x6e, 0x6f, 0x6e, 0x79, 0x6d, 0x6f, 0x75, 0x73]⟩ ∧
    pkeyOf ⟨false, [], []⟩ = pkeyOf ⟨true, [], [0x61, 0x6e, 0x6f, 0x6e, 0x79, 0x6d, 0x6f, 0x75, 0x73]⟩ := by decide

/-- Boundary (not reachable with operator-chosen domains): a NUL inside the domain makes two
different (domain, principal) pairs share AAD and principal key, hence the hypothesis of
`aad_binds_caller`. -/
example : aadOf ⟨true, [97, 0, 98], [99]⟩ = aadOf ⟨true, [97], [98, 0, 99]⟩ := by decide

end Vgi.Props.C29
