import Vgi.Proofs.Describe
/-!
# C09 — Describe lists the registered surface and hashes it canonically

Theorems about `Vgi.Describe` (model of `vgirpc/describe.go`, the `methods` map and the
registration functions). All statements quantify over ALL registration sequences (any names as
byte strings, any APIs, any schema bytes, repeated names included), all server configurations
and all iteration orders of the map — no bound anywhere.
-/
namespace Vgi.Props.C09
open Vgi Vgi.Describe

/-- Strictly ascending in byte order. -/
def bytesLt (a b : Bytes) : Prop := bytesLe a b = true ∧ a ≠ b

/-! ## 1. Every registered method exactly once, in sorted order -/

/-- The listed names are strictly ascending (hence sorted and without repetition), for any map
with unique keys — in particular for whatever order Go iterates the map in. -/
theorem rows_sorted_nodup (m : Methods) (h : (keys m).Nodup) :
    ((rows m).map (·.name)).Pairwise bytesLt := by
  rw [rows_names]
  have hs := sortNames_sorted (keys m)
  have hn : (sortNames (keys m)).Pairwise (· ≠ ·) := sortNames_nodup h
  exact List.Pairwise.imp₂ (fun a b h1 h2 => ⟨h1, h2⟩) hs hn

/-- Same, for the map produced by any sequence of registrations. -/
theorem describe_sorted_nodup (c : Config) (regs : List Reg) :
    ((describe c (registerAll regs)).rows.map (·.name)).Pairwise bytesLt :=
  rows_sorted_nodup _ (registerAll_nodup regs)

/-- A name is listed iff some registration used it. -/
theorem rows_cover_exactly_registered (c : Config) (regs : List Reg) (n : Name) :
    n ∈ (describe c (registerAll regs)).rows.map (·.name) ↔ ∃ r ∈ regs, r.name = n := by
  show n ∈ (rows (registerAll regs)).map (·.name) ↔ _
  rw [rows_names, (sortNames_perm _).mem_iff, ← lookup_isSome_iff]
  constructor
  · intro h
    cases hl : lookup (registerAll regs) n with
    | none => simp [hl] at h
    | some i =>
      obtain ⟨r, hr, hn, _⟩ := lookup_registerAll_some hl
      exact ⟨r, hr, hn⟩
  · rintro ⟨r, hr, rfl⟩
    exact lookup_registerAll_isSome hr

/-- Each listed row is derived (`mkRow`) from what is stored under its name. -/
theorem row_is_stored_info (c : Config) (m : Methods) (row : Row)
    (h : row ∈ (describe c m).rows) :
    ∃ i, lookup m row.name = some i ∧ row = mkRow row.name i := mem_rows h

/-- Later registration wins: after `regs ++ [r]` the entry for `r.name` is `r`'s, every other
name is untouched. (By induction this determines the stored entry of every name.) -/
theorem last_registration_wins (regs : List Reg) (r : Reg) (n : Name) :
    lookup (registerAll (regs ++ [r])) n =
      if r.name = n then some r.info else lookup (registerAll regs) n := by
  rw [registerAll_snoc, lookup_set]

/-- With distinct names the row of a registration is exactly `mkRow` of what it registered. -/
theorem row_of_registration (c : Config) (regs : List Reg) (hnd : (regs.map (·.name)).Nodup)
    (r : Reg) (hr : r ∈ regs) : mkRow r.name r.info ∈ (describe c (registerAll regs)).rows := by
  show mkRow r.name r.info ∈ rows (registerAll regs)
  have hs := lookup_registerAll_isSome hr
  cases hl : lookup (registerAll regs) r.name with
  | none => simp [hl] at hs
  | some i =>
    obtain ⟨r', hr', hn, hi⟩ := lookup_registerAll_some hl
    have : r' = r := inj_of_nodup_map (·.name) hnd hr' hr hn
    subst this
    unfold rows
    simp only [List.mem_filterMap]
    refine ⟨r'.name, ?_, by simp [hl, hi]⟩
    rw [(sortNames_perm _).mem_iff, ← lookup_isSome_iff, hl]
    rfl

/-- What a row says, per registration function: method type, `has_return`, which schema is
listed as the result, `has_header`, and header bytes (null unless a header variant with a
non-nil header schema). `is_exchange` is always null. -/
theorem row_fields (r : Reg) :
    let row := mkRow r.name r.info
    row.name = r.name ∧ row.params = r.params ∧ row.isExchange = none ∧
    (row.methodType = "unary" ↔ (r.api = .unary ∨ r.api = .unaryVoid)) ∧
    (row.methodType = "stream" ↔ ¬ (r.api = .unary ∨ r.api = .unaryVoid)) ∧
    (row.hasReturn = true ↔ r.api = .unary) ∧
    (row.hasHeader = true ↔ (r.api = .producerH ∨ r.api = .exchangeH ∨ r.api = .dynamicH)) ∧
    row.header = (if row.hasHeader then r.header else none) ∧
    row.result = (match r.api with
      | .unary => r.result
      | .unaryVoid => r.empty
      | .dynamicH => r.empty
      | _ => match r.output with | some o => o | none => r.empty) := by
  cases h : r.api <;> simp [mkRow, Reg.info, h, methodTypeStr] <;> cases r.output <;> rfl

/-- Non-vacuity: four registrations (names "b", "a", "b" again, "B"), three rows, byte order
`B < a < b`, the later `b` wins. -/
example :
    rows (registerAll
      [⟨.producerH, [98], [1], [2], [0], some [3], some [4]⟩,
       ⟨.unary, [97], [5], [6], [0], none, none⟩,
       ⟨.unaryVoid, [98], [7], [8], [0], none, none⟩,
       ⟨.exchangeH, [66], [9], [9], [0], some [10], none⟩])
    = [⟨[66], "stream", false, [9], [10], true, none, none⟩,
       ⟨[97], "unary", true, [5], [6], false, none, none⟩,
       ⟨[98], "unary", false, [7], [0], false, none, none⟩] := by
  have hs : sortNames [[98], [97], [66]] = [[66], [97], [98]] := by
    rw [sortNames_eq_of_perm (l₂ := [[66], [97], [98]]) (by decide)]
    exact List.mergeSort_of_pairwise (by decide)
  unfold rows
  have hk : keys (registerAll
      [⟨.producerH, [98], [1], [2], [0], some [3], some [4]⟩,
       ⟨.unary, [97], [5], [6], [0], none, none⟩,
       ⟨.unaryVoid, [98], [7], [8], [0], none, none⟩,
       ⟨.exchangeH, [66], [9], [9], [0], some [10], none⟩]) = [[98], [97], [66]] := by decide
  rw [hk, hs]
  decide

/-! ## 2. Independence of registration order and of map iteration order -/

/-- The whole response depends only on the contents of the map, not on the order in which Go
happens to iterate it. -/
theorem describe_independent_of_iteration_order (c : Config) (m₁ m₂ : Methods)
    (h₁ : (keys m₁).Nodup) (h₂ : (keys m₂).Nodup) (h : ∀ n, lookup m₁ n = lookup m₂ n) :
    describe c m₁ = describe c m₂ := by
  simp only [describe, rows_eq_of_lookup_eq h₁ h₂ h]

/-- Registering the same methods (distinct names) in any other order yields the identical
response: same rows in the same order, same hash, same metadata. -/
theorem order_independent (c : Config) (regs₁ regs₂ : List Reg) (hp : regs₁.Perm regs₂)
    (hnd : (regs₁.map (·.name)).Nodup) :
    describe c (registerAll regs₁) = describe c (registerAll regs₂) := by
  have hnd₂ : (regs₂.map (·.name)).Nodup := (hp.map _).nodup_iff.mp hnd
  apply describe_independent_of_iteration_order c _ _ (registerAll_nodup _) (registerAll_nodup _)
  intro n
  -- both lookups are determined by the unique registration named `n`, if any
  have key : ∀ {ra rb : List Reg}, ra.Perm rb → (rb.map (·.name)).Nodup → ∀ i,
      lookup (registerAll ra) n = some i → lookup (registerAll rb) n = some i := by
    intro ra rb hperm hndb i hl
    obtain ⟨r, hr, hn, hi⟩ := lookup_registerAll_some hl
    have hrb : r ∈ rb := hperm.mem_iff.mp hr
    have hs := lookup_registerAll_isSome hrb
    rw [hn] at hs
    cases hl2 : lookup (registerAll rb) n with
    | none => simp [hl2] at hs
    | some i2 =>
      obtain ⟨r2, hr2, hn2, hi2⟩ := lookup_registerAll_some hl2
      have : r2 = r := inj_of_nodup_map (·.name) hndb hr2 hrb (hn2.trans hn.symm)
      subst this
      rw [← hi2, hi]
  cases h1 : lookup (registerAll regs₁) n with
  | some i => exact (key hp hnd₂ i h1).symm
  | none =>
    cases h2 : lookup (registerAll regs₂) n with
    | none => rfl
    | some i => rw [key hp.symm hnd i h2] at h1; cases h1

example :
    describe ⟨[], [1], false, []⟩ (registerAll
      [⟨.unary, [2], [5], [6], [0], none, none⟩, ⟨.producer, [1], [1], [2], [0], some [3], none⟩]) =
    describe ⟨[], [1], false, []⟩ (registerAll
      [⟨.producer, [1], [1], [2], [0], some [3], none⟩, ⟨.unary, [2], [5], [6], [0], none, none⟩]) :=
  order_independent _ _ _ (List.Perm.swap ..) (by decide)

/-! ## 3. The hash is a function of the surface -/

/-- The advertised hash is SHA-256 (hex) of the canonical framing of the advertised rows under
the advertised protocol name. -/
theorem hash_is_digest_of_payload (c : Config) (m : Methods) :
    let d := describe c m
    d.protocolHash = Sha256.hexDigest (hashPayload d.protocolName d.rows) := rfl

/-- Same rows and same protocol name ⇒ same hash, whatever else differs (server id, protocol
version, registration history, process). -/
theorem hash_function_of_surface (c₁ c₂ : Config) (m₁ m₂ : Methods)
    (hr : rows m₁ = rows m₂) (hn : c₁.protocolName = c₂.protocolName) :
    protocolHash c₁ m₁ = protocolHash c₂ m₂ := by
  simp only [protocolHash, describe, hr, hn]

theorem hash_ignores_server_id_and_pv (c : Config) (m : Methods) (sid pv : Bytes) (set : Bool) :
    protocolHash { c with serverID := sid, pvSet := set, pv := pv } m = protocolHash c m := rfl

/-- `Server.ProtocolHash()` is the hash `__describe__` advertises. -/
theorem protocolHash_matches_describe (c : Config) (m : Methods) :
    protocolHash c m = (describe c m).protocolHash := rfl

/-- Order-independence of the hash in particular. -/
theorem hash_order_independent (c : Config) (regs₁ regs₂ : List Reg) (hp : regs₁.Perm regs₂)
    (hnd : (regs₁.map (·.name)).Nodup) :
    protocolHash c (registerAll regs₁) = protocolHash c (registerAll regs₂) := by
  simp only [protocolHash, order_independent c regs₁ regs₂ hp hnd]

/-- The framing: fixed prefix, then per row `0x1f name 0x1e type 0x1e ret 0x1e hdr 0x1e exch
0x1e params 0x1e result 0x1e header`. -/
theorem payload_framing (pn : Bytes) (r : Row) (rs : List Row) :
    hashPayload pn [] = bytesOfString "vgi_rpc.describe.v4|1|" ++ pn ++ bytesOfString "|" ∧
    hashPayload pn (rs ++ [r]) = hashPayload pn rs ++ rowPayload r := by
  constructor
  · have h : bytesOfString "vgi_rpc.describe.v" ++ (bytesOfString "4" ++ (bytesOfString "|" ++
        (bytesOfString "1" ++ bytesOfString "|"))) = bytesOfString "vgi_rpc.describe.v4|1|" := by decide +kernel
    simp only [hashPayload, describeVersion, requestVersion, List.flatMap_nil, List.append_nil]
    rw [← h]
    simp only [List.append_assoc]
  · simp [hashPayload, List.flatMap_append]

/-- Metadata: protocol name (service name, or the default), versions, hash; server id only when
non-empty; protocol version only when set. -/
theorem describe_meta (c : Config) (m : Methods) :
    let d := describe c m
    d.protocolName = (if c.serviceName = [] then bytesOfString "GoRpcServer" else c.serviceName) ∧
    d.requestVersion = "1" ∧ d.describeVersion = "4" ∧
    (d.serverID = none ↔ c.serverID = []) ∧ (∀ s, d.serverID = some s → s = c.serverID) ∧
    (d.protocolVersion = none ↔ c.pvSet = false) ∧ (∀ v, d.protocolVersion = some v → v = c.pv) := by
  refine ⟨rfl, rfl, rfl, ?_, ?_, ?_, ?_⟩
  · simp only [describe]; by_cases h : c.serverID = [] <;> simp [h]
  · intro s; simp only [describe]; by_cases h : c.serverID = [] <;> simp [h]; intro h2; exact h2.symm
  · simp only [describe]; cases c.pvSet <;> simp
  · intro v; simp only [describe]; cases c.pvSet <;> simp; intro h2; exact h2.symm

/-! ## 4. SHA-256: the FIPS 180-4 test vectors, evaluated by the kernel -/

theorem digest_length (msg : Bytes) : (Sha256.digest msg).length = 32 := by
  have hb : ∀ n v, (Sha256.be n v).length = n := by
    intro n v; induction n with
    | zero => rfl
    | succ k ih => simp [Sha256.be, ih]
  simp [Sha256.digest, hb]

example : Sha256.hexDigest [] =
    "e3b0c44298fc1c149afbf4c8996fb92427ae41e4649b934ca495991b7852b855" := by decide +kernel
example : Sha256.hexDigest (bytesOfString "abc") =
    "ba7816bf8f01cfea414140de5dae2223b00361a396177a9cb410ff61f20015ad" := by decide +kernel
example : Sha256.hexDigest (bytesOfString "abcdbcdecdefdefgefghfghighijhijkijkljklmklmnlmnomnopnopq") =
    "248d6a61d20638b8e5c026930c3e6039a33ce45964ff2167f6ecedd419db06c1" := by decide +kernel
example : Sha256.hexDigest (bytesOfString
    "abcdefghbcdefghicdefghijdefghijkefghijklfghijklmghijklmnhijklmnoijklmnopjklmnopqklmnopqrlmnopqrsmnopqrstnopqrstu") =
    "cf5b16a778af8380036ce59e7b0492370b249b11e8f07a51afac45037afee9d1" := by decide +kernel
/-- The hash of the empty surface of an unnamed Go server. -/
example : protocolHash ⟨[], [], false, []⟩ [] =
    Sha256.hexDigest (bytesOfString "vgi_rpc.describe.v4|1|GoRpcServer|") := by decide +kernel

end Vgi.Props.C09
