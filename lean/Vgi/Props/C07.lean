import Vgi.Model.Params
import Vgi.Proofs.Params
import Vgi.Proofs.ValuesSpec
import Vgi.Proofs.ValuesTree
/-!
# C07 — Parameters bind only when the batch matches the declared schema

Property theorems about `Vgi.Params.bind`, the model of `deserializeParams` (as repaired for
F07a/F07b) as the dispatch path uses it: `typeError` is "answered with a TypeError, the handler
never runs", `handler vals` is "the handler is invoked with `vals`".

1. the gate: the handler runs only on a batch whose (innermost, after request unwrapping) schema
   is THE declared schema — same fields in the same order, names, types and nullability; every
   other shape, an undescribable type and an unreadable wrapper are TypeErrors;
2. the values: when it runs, the struct is exactly `Bound`: every tagged field holds the decoded
   cell, a null holds the declared default parsed by the field's kind, or zero without a default;
   with no defaults in play a value serialized by this library arrives as C08's `canon` of it;
3. a default that was applied is a value of the field's own kind (in range).

All statements are for every struct type, every batch, every row.
-/
namespace Vgi.Props.C07
open Vgi Vgi.Values Vgi.Params

/-! ## 1. The gate -/

/-- The model's schema comparison is equality of the two schemas: same number of fields, and in
order the same names, nullability and types (recursively: list elements, map keys and items,
struct children by name, nullability and type). -/
theorem schema_gate_is_equality (a b : AFields) : fieldsEq a b = true ↔ a = b :=
  ⟨fieldsEq_eq a b, fun h => h ▸ fieldsEq_refl a⟩

/-- The handler runs only if the batch schema equals the declared schema. -/
theorem handler_only_if_equal (env : FloatEnv) (fs : GoFields) (decl schema : AFields) (row : CFields)
    (vals : SFields) (h : bind env fs (.ok decl) (.plain schema row) = .handler vals) : schema = decl := by
  simp only [Params.bind] at h
  split at h
  · rename_i he; exact fieldsEq_eq _ _ he
  · cases h

/-- Any other shape is answered with a TypeError (the handler never runs). -/
theorem mismatch_is_type_error (env : FloatEnv) (fs : GoFields) (decl schema : AFields) (row : CFields)
    (h : schema ≠ decl) : bind env fs (.ok decl) (.plain schema row) = .typeError := by
  simp only [Params.bind]
  split
  · rename_i he; exact absurd (fieldsEq_eq _ _ he) h
  · rfl

/-- A parameter type that cannot be described never gets a handler call. -/
theorem undescribable_is_type_error (env : FloatEnv) (fs : GoFields) (e : Err) (schema : AFields) (row : CFields) :
    bind env fs (.error e) (.plain schema row) = .typeError := by
  simp [Params.bind]

/-- Request unwrapping: a wrapper is transparent (the decision is the one for the batch inside),
and an unreadable wrapper is a TypeError. -/
theorem wrapper_is_transparent (env : FloatEnv) (fs : GoFields) (d : Except Err AFields) (b : PBatch) :
    bind env fs d (.wrapped (some b)) = bind env fs d b ∧ bind env fs d (.wrapped none) = .typeError := by
  simp [Params.bind]

/-- A batch WITHOUT rows: the gate applies all the same (a widened, narrowed or otherwise different
schema is a TypeError), and beyond it only a parameter struct with no tagged field — nothing to
bind — reaches the handler. -/
theorem handler_only_if_equal_norows (env : FloatEnv) (fs : GoFields) (decl schema : AFields) (vals : SFields)
    (h : bind env fs (.ok decl) (.empty schema) = .handler vals) : schema = decl ∧ decl = .nil := by
  simp only [Params.bind] at h
  split at h
  · rename_i he
    have := fieldsEq_eq _ _ he
    cases decl with
    | nil => exact ⟨this, rfl⟩
    | cons _ _ _ _ => simp at h
  · cases h

/-- Through any number of wrappers: the handler runs only if the innermost batch exists and
carries exactly the declared schema. -/
theorem handler_only_if_core_equal (env : FloatEnv) (fs : GoFields) (decl : AFields) :
    ∀ (b : PBatch) (vals : SFields), bind env fs (.ok decl) b = .handler vals → ∃ row, core b = some (decl, row)
  | .plain schema row, vals, h => ⟨row, by rw [Params.core, handler_only_if_equal env fs decl schema row vals h]⟩
  | .wrapped none, vals, h => by simp [Params.bind] at h
  | .empty schema, vals, h => ⟨.nil, by rw [Params.core, (handler_only_if_equal_norows env fs decl schema vals h).1]⟩
  | .wrapped (some b), vals, h => by
    simp only [Params.bind] at h
    obtain ⟨row, hr⟩ := handler_only_if_core_equal env fs decl b vals h
    exact ⟨row, by simp [Params.core, hr]⟩

/-- With an equal schema, whether the handler runs is decided by the row alone: it runs exactly
when every cell binds (`bindFields`), and then with that struct. -/
theorem equal_schema_runs_iff_row_binds (env : FloatEnv) (fs : GoFields) (decl : AFields) (row : CFields)
    (vals : SFields) :
    bind env fs (.ok decl) (.plain decl row) = .handler vals ↔ bindFields env fs row = .ok vals := by
  simp only [Params.bind, fieldsEq_refl, if_true]
  constructor
  · intro h
    split at h <;> first | (cases h; assumption) | cases h
  · intro h
    simp [h]

/-! ## 2. The values -/

/-- When the handler runs it receives exactly the struct described by `Bound`: tagged fields
positionally — a non-null cell decoded into the field, a null replaced by the declared default
(parsed by the field's kind) or, without one, the zero value — and untagged fields zero. -/
theorem bound_values (env : FloatEnv) (fs : GoFields) (cfs : CFields) (vals : SFields) :
    bindFields env fs cfs = .ok vals ↔ Bound env fs cfs vals :=
  bindFields_bound env fs cfs vals

/-- A null sent for a field with a declared default yields that default (first field shown; the
others follow by `Bound`'s recursion). -/
theorem default_for_null (env : FloatEnv) (tag atag : BStr) (t : GoTy) (r : GoFields) (name : BStr)
    (cr : CFields) (d : BStr) (vals : SFields)
    (ht : tagged tag = true) (hd : (parseTag tag).dflt = some d)
    (h : bindFields env (.cons tag atag t r) (.cons name .null cr) = .ok vals) :
    ∃ v vr, vals = .cons tag atag v vr ∧ defaultVal env t d = .ok v := by
  have hb := (bindFields_bound env _ _ _).mp h
  simp only [Bound, ht, if_true] at hb
  cases vals with
  | nil => exact hb.elim
  | cons tag' atag' v vr =>
    obtain ⟨h1, h2, h3, _⟩ := hb
    have := h3.1 rfl
    simp only [hd] at this
    exact ⟨v, vr, by rw [h1, h2], this⟩

/-- A dictionary-encoded (`enum` / `dict_string`) parameter holds the entry ITS row index selects
— any dictionary, any position of the entry, unused entries before or after it. -/
theorem enum_param_holds_selected_entry (env : FloatEnv) (tag atag : BStr) (t : GoTy) (r : GoFields)
    (name : BStr) (es : List BStr) (i : Nat) (x : BStr) (cr : CFields) (vals : SFields)
    (ht : tagged tag = true) (hs : derefTy t = .prim .str) (hx : es[i]? = some x)
    (h : bindFields env (.cons tag atag t r) (.cons name (.dict es i) cr) = .ok vals) :
    ∃ vr, vals = .cons tag atag (.str x) vr := by
  have hb := (bindFields_bound env _ _ _).mp h
  simp only [Bound, ht, if_true] at hb
  cases vals with
  | nil => exact hb.elim
  | cons tag' atag' v vr =>
    obtain ⟨h1, h2, h3, _⟩ := hb
    have hv := h3.2 (by simp)
    simp only [decode, hs, hx, Except.ok.injEq] at hv
    exact ⟨vr, by rw [h1, h2, hv]⟩

/-- "Each field holds the value sent": when no field declares a default, a struct serialized by
this library (`encodeTop`, C08) and sent under the declared schema reaches the handler as C08's
`canon` of it — the value sent, up to the documented precision. -/
theorem sent_values_received (env : FloatEnv) (gfs : GoFields) (afs : AFields) (sfs : SFields)
    (hw : WTfields gfs afs sfs) (hn : NoDefaults gfs) :
    ∃ cfs, encodeTop afs sfs = .ok cfs ∧
      bind env gfs (.ok afs) (.plain afs cfs) = .handler (canonFields gfs afs sfs) := by
  obtain ⟨cfs, h1, h2, _⟩ := rt_fields sfs gfs afs hw
  refine ⟨cfs, h1, ?_⟩
  rw [equal_schema_runs_iff_row_binds, bindFields_noDefaults env gfs cfs hn]
  exact h2

/-! ## 3. Defaults are values of the field's kind -/

/-- An integer default that was accepted lies in the range of the field's own integer kind (so
storing it cannot truncate), for every width and signedness. -/
theorem int_default_in_range (env : FloatEnv) (it : ITy) (s : BStr) (v : Val)
    (h : defaultVal env (.prim (.int it)) s = .ok v) : ∃ n, v = .int n ∧ it.InRange n := by
  simp only [defaultVal, derefTy] at h
  split at h
  · rename_i n hn
    cases h
    exact ⟨n, rfl, parseIntDefault_inRange it s n hn⟩
  · cases h

/-- A pointer field takes the same default as its pointee type (F07a: the pre-fix code panicked
here; F07b: it refused every kind but string/int/int64/float64/bool). -/
theorem pointer_default_is_pointee_default (env : FloatEnv) (t : GoTy) (s : BStr) (h : isPtr t = false) :
    defaultVal env (.ptr t) s = defaultVal env t s := by
  cases t <;> simp_all [defaultVal, derefTy, isPtr]

/-! Non-vacuity: an `int32` field with `nullable,default=5`, a `*string` field with `default=bob`
and a plain `int64` field; a batch with nulls for the first two runs the handler with 5, "bob", 7;
the same cells under a schema whose first column is `int64` are a TypeError. -/

def noFloats : FloatEnv := { f64 := fun _ => none, f32 := fun _ => none }

def exTy : GoFields :=
  .cons ['n', ',', 'n', 'u', 'l', 'l', 'a', 'b', 'l', 'e', ',', 'd', 'e', 'f', 'a', 'u', 'l', 't', '=', '5'] [] (.prim (.int ⟨true, 32⟩))
  (.cons ['s', ',', 'd', 'e', 'f', 'a', 'u', 'l', 't', '=', 'b', 'o', 'b'] [] (.ptr (.prim .str))
  (.cons ['k'] [] (.prim (.int ⟨true, 64⟩)) .nil))

def exDecl : AFields :=
  .cons ['n'] (.int ⟨true, 32⟩) true (.cons ['s'] .utf8 true (.cons ['k'] (.int ⟨true, 64⟩) false .nil))

def exRow : CFields := .cons ['n'] .null (.cons ['s'] .null (.cons ['k'] (.int ⟨true, 64⟩ 7) .nil))

example : deriveFields exTy 0 = .ok exDecl := by rfl

example : bind noFloats exTy (.ok exDecl) (.wrapped (some (.plain exDecl exRow))) =
    .handler (.cons exTy.tags[0]!.1 [] (.int 5) (.cons exTy.tags[1]!.1 [] (.str ['b', 'o', 'b'])
      (.cons ['k'] [] (.int 7) .nil))) := by
  simp [Params.bind, exTy, exDecl, exRow, fieldsEq, typeEq, bindFields, tagged, parseTag, splitComma, applyTagPart, kwDefault,
    kwElem, kwNullable, defaultVal, derefTy, parseIntDefault, parseIntBody, parseDigits, parseDigitsAcc, digitVal,
    ITy.lo, ITy.hi, Cell.isNull, decode, decodeLeafInt, decodeInt, wrap, i64, u64, GoFields.tags]

example : bind noFloats exTy (.ok exDecl)
    (.plain (.cons ['n'] (.int ⟨true, 64⟩) true (.cons ['s'] .utf8 true (.cons ['k'] (.int ⟨true, 64⟩) false .nil))) exRow)
    = .typeError := by
  simp [Params.bind, exDecl, fieldsEq, typeEq]

end Vgi.Props.C07
