import Vgi.Model.Otel
/-!
# C43 — The OpenTelemetry hook ends every span it starts with the call's outcome

Theorems about `Vgi.Otel` (model of `vgirpc/otel/otel.go`). The history theorems quantify over
every configuration (tracing/metrics/record-exceptions/propagator toggles) and every call
history `List Ev` — arbitrary interleavings of dispatch starts and ends, any transport metadata,
any sampler decisions — in which the framework keeps the hook contract (each started dispatch
is ended at most once; that is C37).
-/
namespace Vgi.Props.C43
open Vgi Vgi.Otel

/-! ## One span -/

/-- What `OnDispatchEnd` does to a recording span it started: exactly one `End()`, nothing after
it, status `Error` iff the call failed (`Ok` otherwise), the exception recorded iff configured. -/
theorem finish_fresh_recording (cfg : Cfg) (p : Option Remote) (hasStats err : Bool) :
    finishSpan cfg (fresh p true) hasStats err =
      { parent := p, recording := true, ended := true, endCalls := 1, lateOps := 0,
        status := if err then .error else .ok,
        excEvents := if err && cfg.recordExc then 1 else 0 } := by
  cases hasStats <;> cases err <;> cases h : cfg.recordExc <;>
    simp [finishSpan, fresh, Span.live, Span.setAttrs, Span.setStatus, Span.recordError,
      Span.finish, Span.late, h]

/-- A span the sampler made non-recording is left alone (no `End()` is owed). -/
theorem finish_fresh_not_recording (cfg : Cfg) (p : Option Remote) (hasStats err : Bool) :
    finishSpan cfg (fresh p false) hasStats err = fresh p false := by
  simp [finishSpan, fresh, Span.live]

/-! ## Histories -/

/-- The span a dispatch must have, given how it was started and whether/how it has ended. -/
def expSpan (cfg : Cfg) (st : Info × Bool) (f : Option (Bool × Bool)) : Span :=
  match f with
  | none => fresh (parentOf cfg st.1) st.2
  | some (hs, err) => finishSpan cfg (fresh (parentOf cfg st.1) st.2) hs err

/-- The counter increments a dispatch must own. -/
def expCounts (cfg : Cfg) (k : Nat) (f : Option (Bool × Bool)) : List Count :=
  match f with
  | some (_, err) => if cfg.metrics then [{ owner := k, isError := err }] else []
  | none => []

structure Inv (cfg : Cfg) (s : Sys) : Prop where
  spansOn : cfg.tracing = true → ∀ k,
    s.w.spans[k]? = (s.starts[k]?).map (fun st => expSpan cfg st (finOf s.fin k))
  spansOff : cfg.tracing = false → s.w.spans = []
  toks : ∀ k, s.toks[k]? =
    (s.starts[k]?).map (fun _ => ({ span := if cfg.tracing then some k else none } : Token))
  counts : ∀ k, s.w.counts.filter (fun c => c.owner = k) = expCounts cfg k (finOf s.fin k)
  finLt : ∀ k, (finOf s.fin k).isSome = true → k < s.starts.length

theorem inv_init (cfg : Cfg) : Inv cfg initSys := by
  constructor <;> simp [initSys, finOf, expCounts]

theorem finOf_append (fin : List (Nat × Bool × Bool)) (k j : Nat) (v : Bool × Bool) :
    finOf (fin ++ [(k, v)]) j =
      if (finOf fin j).isSome then finOf fin j else if k = j then some v else none := by
  unfold finOf
  rw [List.find?_append]
  cases h : fin.find? (fun x => decide (x.1 = j)) with
  | some x => simp
  | none =>
    by_cases hk : k = j
    · simp [hk]
    · simp [hk]

/-- Two lists whose `getElem?` are `some` at the same indices have the same length. -/
theorem len_eq_of_getElem {α β : Type} (a : List α) (b : List β)
    (h : ∀ k : Nat, (a[k]?).isSome = (b[k]?).isSome) : a.length = b.length := by
  have h1 := h a.length
  have h2 := h b.length
  rcases Nat.lt_trichotomy a.length b.length with hlt | heq | hgt
  · rw [List.getElem?_eq_none (Nat.le_refl _), List.getElem?_eq_getElem hlt] at h1
    simp at h1
  · exact heq
  · rw [List.getElem?_eq_none (Nat.le_refl _), List.getElem?_eq_getElem hgt] at h2
    simp at h2

theorem toks_len {cfg : Cfg} {s : Sys} (h : Inv cfg s) : s.toks.length = s.starts.length :=
  len_eq_of_getElem _ _ (fun k => by rw [h.toks k]; cases s.starts[k]? <;> rfl)

theorem spans_len {cfg : Cfg} {s : Sys} (h : Inv cfg s) (ht : cfg.tracing = true) :
    s.w.spans.length = s.starts.length :=
  len_eq_of_getElem _ _ (fun k => by rw [h.spansOn ht k]; cases s.starts[k]? <;> rfl)

/-- `getElem?` of `l ++ [x]`. -/
theorem getElem_snoc_opt {α : Type} (l : List α) (x : α) (k : Nat) :
    (l ++ [x])[k]? = if k < l.length then l[k]? else if k = l.length then some x else none := by
  by_cases h1 : k < l.length
  · simp [h1, List.getElem?_append_left h1]
  · by_cases h2 : k = l.length
    · subst h2; simp
    · simp only [h1, h2, if_false]
      exact List.getElem?_eq_none (by simp; omega)

theorem inv_start (cfg : Cfg) (s : Sys) (info : Info) (rec : Bool) (h : Inv cfg s) :
    ∀ s', stepEv cfg s (.start info rec) = some s' → Inv cfg s' := by
  intro s' hs
  simp only [stepEv] at hs
  cases hs
  have hlen := toks_len h
  have hnone : finOf s.fin s.starts.length = none := by
    cases hf : finOf s.fin s.starts.length with
    | none => rfl
    | some v => have := h.finLt s.starts.length (by rw [hf]; rfl); omega
  constructor
  · intro ht k
    have hsl := spans_len h ht
    simp only [onStart, ht, Bool.not_true, Bool.false_eq_true, if_false]
    rw [getElem_snoc_opt, getElem_snoc_opt, hsl]
    by_cases h1 : k < s.starts.length
    · simp only [h1, if_true]; exact h.spansOn ht k
    · by_cases h2 : k = s.starts.length
      · subst h2; simp [expSpan, hnone]
      · simp [h1, h2]
  · intro ht
    simp only [onStart, ht, Bool.not_false, if_true]
    exact h.spansOff ht
  · intro k
    show (s.toks ++ [(onStart cfg s.w info rec).2])[k]? = _
    rw [getElem_snoc_opt, getElem_snoc_opt, hlen]
    by_cases h1 : k < s.starts.length
    · simp only [h1, if_true]; exact h.toks k
    · by_cases h2 : k = s.starts.length
      · subst h2
        by_cases ht : cfg.tracing = true
        · simp [onStart, ht, spans_len h ht]
        · have ht' : cfg.tracing = false := by simpa using ht
          simp [onStart, ht']
      · simp [h1, h2]
  · intro k
    have : (onStart cfg s.w info rec).1.counts = s.w.counts := by
      unfold onStart; split <;> rfl
    show List.filter _ (onStart cfg s.w info rec).1.counts = _
    rw [this]; exact h.counts k
  · intro k hk
    have := h.finLt k hk
    simp; omega

theorem inv_finish (cfg : Cfg) (s : Sys) (k : Nat) (hs err : Bool) (h : Inv cfg s) :
    ∀ s', stepEv cfg s (.finish k hs err) = some s' → Inv cfg s' := by
  intro s' hstep
  simp only [stepEv] at hstep
  cases htk : s.toks[k]? with
  | none => simp [htk] at hstep
  | some t =>
    simp only [htk] at hstep
    by_cases hfin : (finOf s.fin k).isSome = true
    · simp [hfin] at hstep
    · simp only [hfin, if_false] at hstep
      cases hstep
      have hfk : finOf s.fin k = none := by
        cases hf : finOf s.fin k with
        | none => rfl
        | some v => rw [hf] at hfin; simp at hfin
      -- the token is the one handed out for dispatch k
      have htok := h.toks k
      rw [htk] at htok
      cases hst : s.starts[k]? with
      | none => rw [hst] at htok; simp at htok
      | some st =>
        rw [hst] at htok
        simp only [Option.map_some, Option.some.injEq] at htok
        have hklt : k < s.starts.length := by
          have := List.getElem?_eq_some_iff.mp hst; exact this.1
        have hfo : ∀ j, finOf (s.fin ++ [(k, hs, err)]) j =
            if j = k then some (hs, err) else finOf s.fin j := by
          intro j
          rw [finOf_append]
          by_cases hjk : j = k
          · subst hjk; simp [hfk]
          · have : ¬ k = j := fun e => hjk e.symm
            simp only [this, hjk, if_false]
            cases finOf s.fin j <;> simp
        have hcounts : ∀ j,
            (onEnd cfg s.w (some t) k hs err).counts.filter (fun c => c.owner = j) =
              s.w.counts.filter (fun c => c.owner = j) ++
                (if cfg.metrics = true ∧ k = j then [{ owner := k, isError := err }] else []) := by
          intro j
          simp only [onEnd]
          by_cases hm : cfg.metrics = true
          · by_cases hkj : k = j
            · simp [hm, List.filter_append, hkj]
            · simp [hm, List.filter_append, hkj]
          · have hm' : cfg.metrics = false := by simpa using hm
            simp [hm']
        constructor
        · intro ht j
          have hsp := h.spansOn ht k
          rw [hst, hfk] at hsp
          simp only [Option.map_some] at hsp
          have hts : t.span = some k := by rw [htok]; simp [ht]
          have hspans : (onEnd cfg s.w (some t) k hs err).spans =
              s.w.spans.set k (finishSpan cfg (expSpan cfg st none) hs err) := by
            simp only [onEnd, endSpans, hts, hsp]
          show (onEnd cfg s.w (some t) k hs err).spans[j]? = _
          rw [hspans, hfo j, List.getElem?_set]
          by_cases hjk : j = k
          · subst hjk
            have hl : j < s.w.spans.length := by rw [spans_len h ht]; exact hklt
            simp [hl, hst, expSpan]
          · have : ¬ k = j := fun e => hjk e.symm
            simp only [this, hjk, if_false]
            exact h.spansOn ht j
        · intro ht
          have hts : t.span = none := by rw [htok]; simp [ht]
          show (onEnd cfg s.w (some t) k hs err).spans = []
          simp only [onEnd, endSpans, hts]
          exact h.spansOff ht
        · intro j; exact h.toks j
        · intro j
          show List.filter _ (onEnd cfg s.w (some t) k hs err).counts = _
          rw [hcounts, h.counts j, hfo j]
          by_cases hjk : j = k
          · subst hjk
            by_cases hm : cfg.metrics = true
            · simp [hfk, expCounts, hm]
            · simp [hfk, expCounts, hm]
          · have : ¬ k = j := fun e => hjk e.symm
            simp [this, hjk]
        · intro j hj
          rw [hfo j] at hj
          by_cases hjk : j = k
          · subst hjk; exact hklt
          · simp only [hjk, if_false] at hj
            exact h.finLt j hj

theorem inv_run (cfg : Cfg) : ∀ (es : List Ev) (s s' : Sys), Inv cfg s → runH cfg s es = some s' →
    Inv cfg s'
  | [], s, s', h, hr => by simp [runH] at hr; subst hr; exact h
  | e :: es, s, s', h, hr => by
    simp only [runH] at hr
    cases hs : stepEv cfg s e with
    | none => simp [hs] at hr
    | some s1 =>
      simp only [hs] at hr
      refine inv_run cfg es s1 s' ?_ hr
      cases e with
      | start info rec => exact inv_start cfg s info rec h s1 hs
      | finish k hst err => exact inv_finish cfg s k hst err h s1 hs

/-- **history_correct**: after ANY call history, every dispatch's span and counter share are
exactly what its own start and (if it happened) its own end prescribe — no dispatch disturbs
another's span, whatever the interleaving. -/
theorem history_correct (cfg : Cfg) (es : List Ev) (s : Sys) (hr : runH cfg initSys es = some s)
    (k : Nat) (st : Info × Bool) (hk : s.starts[k]? = some st) :
    (cfg.tracing = true → s.w.spans[k]? = some (expSpan cfg st (finOf s.fin k))) ∧
    (cfg.tracing = false → s.w.spans = []) ∧
    s.w.counts.filter (fun c => c.owner = k) = expCounts cfg k (finOf s.fin k) := by
  have h := inv_run cfg es initSys s (inv_init cfg) hr
  refine ⟨fun ht => ?_, h.spansOff, h.counts k⟩
  rw [h.spansOn ht k, hk]; rfl

/-- **span_ended_once**: in every history, a recording span the hook started for a dispatch that
has ended was `End()`ed exactly once, with no span call after it; the span of a dispatch still
in flight has not been ended; spans are never ended on behalf of another dispatch. -/
theorem span_ended_once (cfg : Cfg) (es : List Ev) (s : Sys) (hr : runH cfg initSys es = some s)
    (ht : cfg.tracing = true) (k : Nat) (info : Info) (hk : s.starts[k]? = some (info, true)) :
    ∃ sp, s.w.spans[k]? = some sp ∧ sp.recording = true ∧
      (match finOf s.fin k with
       | some _ => sp.endCalls = 1 ∧ sp.ended = true ∧ sp.lateOps = 0
       | none => sp.endCalls = 0 ∧ sp.ended = false ∧ sp.status = .unset) := by
  have h := (history_correct cfg es s hr k (info, true) hk).1 ht
  refine ⟨_, h, ?_, ?_⟩
  · cases hf : finOf s.fin k with
    | none => simp [expSpan, fresh]
    | some v => obtain ⟨a, b⟩ := v; simp [expSpan, finish_fresh_recording]
  · cases hf : finOf s.fin k with
    | none => simp [expSpan, fresh]
    | some v => obtain ⟨a, b⟩ := v; simp [expSpan, finish_fresh_recording]

/-- **error_iff_failed**: the span of an ended dispatch has status `Error` exactly when the call
failed, and `Ok` exactly when it did not. -/
theorem error_iff_failed (cfg : Cfg) (es : List Ev) (s : Sys) (hr : runH cfg initSys es = some s)
    (ht : cfg.tracing = true) (k : Nat) (info : Info) (hk : s.starts[k]? = some (info, true))
    (hasStats err : Bool) (hf : finOf s.fin k = some (hasStats, err)) :
    ∃ sp, s.w.spans[k]? = some sp ∧ (sp.status = .error ↔ err = true) ∧
      (sp.status = .ok ↔ err = false) := by
  have h := (history_correct cfg es s hr k (info, true) hk).1 ht
  refine ⟨_, h, ?_, ?_⟩ <;>
    · rw [hf]; simp only [expSpan, finish_fresh_recording]; cases err <;> simp

/-- **not_recording_untouched**: a span the sampler made non-recording is never ended or changed. -/
theorem not_recording_untouched (cfg : Cfg) (es : List Ev) (s : Sys)
    (hr : runH cfg initSys es = some s) (ht : cfg.tracing = true) (k : Nat) (info : Info)
    (hk : s.starts[k]? = some (info, false)) :
    s.w.spans[k]? = some (fresh (parentOf cfg info) false) := by
  have h := (history_correct cfg es s hr k (info, false) hk).1 ht
  rw [h]
  cases hf : finOf s.fin k with
  | none => rfl
  | some v => obtain ⟨a, b⟩ := v; simp [expSpan, finish_fresh_not_recording]

/-- **counted_once_with_status**: with metrics on, an ended dispatch owns exactly one increment
of the request counter, carrying its own outcome; a dispatch in flight owns none; with metrics
off nothing is counted. -/
theorem counted_once_with_status (cfg : Cfg) (es : List Ev) (s : Sys)
    (hr : runH cfg initSys es = some s) (k : Nat) :
    s.w.counts.filter (fun c => c.owner = k) =
      match finOf s.fin k with
      | some (_, err) => if cfg.metrics then [{ owner := k, isError := err }] else []
      | none => [] := by
  have h := inv_run cfg es initSys s (inv_init cfg) hr
  rw [h.counts k]; rfl

/-- Every increment belongs to some ended dispatch (nothing is counted at start). -/
theorem counts_total (cfg : Cfg) (es : List Ev) (s : Sys) (hr : runH cfg initSys es = some s) :
    s.w.counts.length = if cfg.metrics then s.fin.length else 0 := by
  suffices ∀ (es : List Ev) (s0 s : Sys), runH cfg s0 es = some s →
      s0.w.counts.length = (if cfg.metrics then s0.fin.length else 0) →
      s.w.counts.length = (if cfg.metrics then s.fin.length else 0) from
    this es initSys s hr (by simp [initSys])
  intro es
  induction es with
  | nil => intro s0 s h h0; simp [runH] at h; subst h; exact h0
  | cons e es ih =>
    intro s0 s h h0
    simp only [runH] at h
    cases hs : stepEv cfg s0 e with
    | none => simp [hs] at h
    | some s1 =>
      simp only [hs] at h
      refine ih s1 s h ?_
      cases e with
      | start info rec =>
        simp only [stepEv] at hs; cases hs
        have : (onStart cfg s0.w info rec).1.counts = s0.w.counts := by
          unfold onStart; split <;> rfl
        simp only [this]; exact h0
      | finish k hst err =>
        simp only [stepEv] at hs
        cases htk : s0.toks[k]? with
        | none => simp [htk] at hs
        | some t =>
          simp only [htk] at hs
          split at hs
          · cases hs
          · cases hs
            have : (onEnd cfg s0.w (some t) k hst err).counts.length =
                s0.w.counts.length + (if cfg.metrics then 1 else 0) := by
              simp only [onEnd]
              by_cases hm : cfg.metrics = true
              · simp [hm]
              · have hm' : cfg.metrics = false := by simpa using hm
                simp [hm']
            simp only [this, List.length_append, List.length_cons, List.length_nil]
            by_cases hm : cfg.metrics = true
            · simp [hm] at h0 ⊢; omega
            · have hm' : cfg.metrics = false := by simpa using hm
              simp [hm'] at h0 ⊢; exact h0

/-! ## traceparent -/

def renderTraceparent (tid sid : Bytes) (flags : UInt8) : Bytes :=
  encodeHex [0] ++ dash :: encodeHex tid ++ dash :: encodeHex sid ++ dash :: encodeHex [flags]

theorem hexVal_hexDigit (n : Nat) (h : n < 16) : hexValB (hexDigitB n) = some n := by
  have : ∀ m : Fin 16, hexValB (hexDigitB m.val) = some m.val := by decide
  exact this ⟨n, h⟩

theorem hexDigit_ne_dash (n : Nat) (h : n < 16) : hexDigitB n ≠ dash := by
  have : ∀ m : Fin 16, hexDigitB m.val ≠ dash := by decide
  exact this ⟨n, h⟩

theorem decode_encode : ∀ b : Bytes, decodeHex (encodeHex b) = some b
  | [] => rfl
  | x :: r => by
    have h1 : x.toNat / 16 < 16 := by have := x.toNat_lt; omega
    have h2 : x.toNat % 16 < 16 := by omega
    simp only [encodeHex, decodeHex, hexVal_hexDigit _ h1, hexVal_hexDigit _ h2, decode_encode r]
    congr 2
    have : x.toNat / 16 * 16 + x.toNat % 16 = x.toNat := by omega
    rw [this]; simp

theorem encode_length : ∀ b : Bytes, (encodeHex b).length = 2 * b.length
  | [] => rfl
  | x :: r => by simp [encodeHex, encode_length r]; omega

theorem cut_encode : ∀ (b rest : Bytes), cut (encodeHex b ++ dash :: rest) = (encodeHex b, rest)
  | [], rest => by simp [encodeHex, cut]
  | x :: r, rest => by
    have h1 : x.toNat / 16 < 16 := by have := x.toNat_lt; omega
    have h2 : x.toNat % 16 < 16 := by omega
    simp only [encodeHex, List.cons_append, cut, hexDigit_ne_dash _ h1, hexDigit_ne_dash _ h2,
      if_false, cut_encode r rest]

theorem cut_encode_end : ∀ (b : Bytes), cut (encodeHex b) = (encodeHex b, [])
  | [] => by simp [encodeHex, cut]
  | x :: r => by
    have h1 : x.toNat / 16 < 16 := by have := x.toNat_lt; omega
    have h2 : x.toNat % 16 < 16 := by omega
    simp only [encodeHex, cut, hexDigit_ne_dash _ h1, hexDigit_ne_dash _ h2,
      if_false, cut_encode_end r]

theorem extract_encode (b rest : Bytes) (n : Nat) (hn : n = 2 * b.length) :
    extractPart (encodeHex b ++ dash :: rest) n = some (b, rest) := by
  unfold extractPart
  rw [cut_encode, decode_encode]
  simp [encode_length, hn]

/-- **traceparent_roundtrip**: every well-formed version-00 `traceparent` (16-byte non-zero
trace id, 8-byte non-zero parent id, flags without reserved bits) is extracted as exactly that
remote parent. -/
theorem traceparent_roundtrip (tid sid : Bytes) (flags : UInt8) (ht : tid.length = 16)
    (hs : sid.length = 8) (hf : flags.toNat ≤ 3) (hzt : allZero tid = false)
    (hzs : allZero sid = false) :
    parseTraceparent (renderTraceparent tid sid flags) =
      some { traceId := tid, spanId := sid, flags := flags.toNat } := by
  have e0 : renderTraceparent tid sid flags =
      encodeHex [0] ++ dash :: (encodeHex tid ++ dash :: (encodeHex sid ++ dash :: encodeHex [flags])) := by
    simp [renderTraceparent]
  have hne : ¬ renderTraceparent tid sid flags = [] := by
    simp [renderTraceparent, encodeHex]
  have x0 := extract_encode [0] (encodeHex tid ++ dash :: (encodeHex sid ++ dash :: encodeHex [flags])) 2 (by simp)
  have x1 := extract_encode tid (encodeHex sid ++ dash :: encodeHex [flags]) 32 (by omega)
  have x2 := extract_encode sid (encodeHex [flags]) 16 (by omega)
  have x3 : extractPart (encodeHex [flags]) 2 = some ([flags], []) := by
    unfold extractPart
    rw [cut_encode_end, decode_encode]
    simp [encodeHex]
  have hm : flags.toNat % 4 = flags.toNat := by omega
  have hf' : ¬ flags.toNat > 3 := by omega
  unfold parseTraceparent
  rw [if_neg hne, e0]
  simp only [x0, x1, x2, x3, List.headD_cons]
  simp [hzt, hzs, hm, hf']

/-- **parented_on_traceparent**: in every history, with tracing on and a W3C propagator
configured, the span of a dispatch whose transport metadata carries a well-formed `traceparent`
is started as a child of exactly that remote parent — and keeps it. (Any `tracestate`, valid or
not, and any other metadata keys are irrelevant.) -/
theorem parented_on_traceparent (cfg : Cfg) (es : List Ev) (s : Sys)
    (hr : runH cfg initSys es = some s) (ht : cfg.tracing = true) (hp : cfg.propagate = true)
    (k : Nat) (m : List (Bytes × Bytes)) (rec : Bool)
    (hk : s.starts[k]? = some ({ md := some m }, rec))
    (tid sid : Bytes) (flags : UInt8) (htl : tid.length = 16) (hsl : sid.length = 8)
    (hf : flags.toNat ≤ 3) (hzt : allZero tid = false) (hzs : allZero sid = false)
    (hm : mapGet traceparentKey m = renderTraceparent tid sid flags) :
    ∃ sp, s.w.spans[k]? = some sp ∧
      sp.parent = some { traceId := tid, spanId := sid, flags := flags.toNat } := by
  have h := (history_correct cfg es s hr k _ hk).1 ht
  refine ⟨_, h, ?_⟩
  have hpar : parentOf cfg { md := some m } =
      some { traceId := tid, spanId := sid, flags := flags.toNat } := by
    simp only [parentOf, hp, if_true, hm]
    exact traceparent_roundtrip tid sid flags htl hsl hf hzt hzs
  cases hfin : finOf s.fin k with
  | none => simp [expSpan, fresh, hpar]
  | some v =>
    obtain ⟨a, b⟩ := v
    cases rec
    · simp only [expSpan, hpar, finish_fresh_not_recording]; simp [fresh]
    · simp only [expSpan, hpar, finish_fresh_recording]

/-- Without a (valid) traceparent, or without a propagator, the span is a root. -/
theorem root_without_traceparent (cfg : Cfg) (info : Info)
    (h : cfg.propagate = false ∨ info.md = none ∨
      ∃ m, info.md = some m ∧ mapGet traceparentKey m = []) :
    parentOf cfg info = none := by
  unfold parentOf
  rcases h with h | h | ⟨m, h1, h2⟩
  · simp [h]
  · simp [h]
  · simp [h1, h2, parseTraceparent]

/-! ## Non-vacuity -/

def tid1 : Bytes := [0x4b, 0xf9, 0x2f, 0x35, 0x77, 0xb3, 0x4d, 0xa6, 0xa3, 0xce, 0x92, 0x9d, 0x0e, 0x0e, 0x47, 0x36]
def sid1 : Bytes := [0x00, 0xf0, 0x67, 0xaa, 0x0b, 0xa9, 0x02, 0xb7]
def cfgAll : Cfg := { tracing := true, metrics := true, recordExc := true, propagate := true }
def infoTP : Info := { md := some [(traceparentKey, renderTraceparent tid1 sid1 1)] }
def infoNone : Info := { md := none }

/-- Interleaved history: A (with traceparent) and B start, B fails, C starts unsampled, A
succeeds, C ends. -/
def demo : List Ev :=
  [.start infoTP true, .start infoNone true, .finish 1 true true, .start infoNone false,
   .finish 0 false false, .finish 2 true true]

example : (runH cfgAll initSys demo).map (fun s =>
      (s.w.spans.map (fun sp => (sp.endCalls, sp.status, sp.parent.isSome, sp.excEvents)),
       s.w.counts)) =
    some ([(1, .ok, true, 0), (1, .error, false, 1), (0, .unset, false, 0)],
          [⟨1, true⟩, ⟨0, false⟩, ⟨2, true⟩]) := by decide

-- the framework contract is what `runH` checks: a second end is refused
example : runH cfgAll initSys [.start infoNone true, .finish 0 false false, .finish 0 false false] = none := by
  decide

-- the W3C example header "00-4bf92f3577b34da6a3ce929d0e0e4736-00f067aa0ba902b7-01"
example : (renderTraceparent tid1 sid1 1).take 6 = [48, 48, 45, 52, 98, 102] ∧
    (renderTraceparent tid1 sid1 1).length = 55 := by decide
-- reserved flag bits, an all-zero trace id and an upper-case digit are refused
example : parseTraceparent (renderTraceparent tid1 sid1 4) = none ∧
    parseTraceparent (renderTraceparent (List.replicate 16 0) sid1 1) = none ∧
    parseTraceparent ((renderTraceparent tid1 sid1 1).set 4 66) = none ∧
    (parseTraceparent (renderTraceparent tid1 sid1 1)).isSome = true := by
  decide

end Vgi.Props.C43
