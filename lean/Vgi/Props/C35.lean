import Vgi.Model.ShmBatch
import Vgi.Props.C34
/-!
# C35 — Batches written to shared memory read back identically and pointers are safe

Theorems about `Vgi.ShmBatch` (model of the batch I/O of `vgirpc/shm.go`) on top of the allocator
theorems of C34. Every statement quantifies over all byte strings / metadata lists / segment
sizes / operation histories; the only numeric hypotheses are the ranges of Go's `int`/`uint64`.
The Arrow IPC encoding itself is an input (`full`, `schemaOnly`), see the framing hypotheses.
-/
namespace Vgi.Props.C35
open Vgi Vgi.Shm Vgi.ShmBatch Vgi.Props.C34

/-! ### strconv -/

/-- The numeric value of a digit string, independent of the parser. -/
def decVal (s : Bytes) : Nat := s.foldl (fun a b => a * 10 + (b.toNat - 48)) 0

theorem digitsAcc_some_iff : ∀ (s : Bytes) (acc v : Nat),
    digitsAcc acc s = some v ↔ (∀ b ∈ s, isDigit b = true) ∧ s.foldl (fun a b => a * 10 + (b.toNat - 48)) acc = v
  | [], acc, v => by simp [digitsAcc]
  | b :: r, acc, v => by
    simp only [digitsAcc]
    by_cases hb : isDigit b = true
    · simp only [hb, if_true, List.mem_cons, forall_eq_or_imp, true_and, List.foldl_cons]
      exact digitsAcc_some_iff r _ v
    · simp only [hb]
      simp
      intro h; exact absurd h hb

/-- **digitsVal_some_iff**: exactly the non-empty all-digit strings have a value. -/
theorem digitsVal_some_iff (s : Bytes) (v : Nat) :
    digitsVal s = some v ↔ s ≠ [] ∧ (∀ b ∈ s, isDigit b = true) ∧ decVal s = v := by
  cases s with
  | nil => simp [digitsVal]
  | cons b r =>
    simp only [digitsVal, decVal]
    rw [digitsAcc_some_iff]
    simp

/-- **parseUint64_some_iff**: `ParseUint(s,10,64)` succeeds exactly on non-empty all-digit strings
whose value is below 2^64. Signs, spaces, `_`, hex prefixes, non-ASCII digits are all non-digits. -/
theorem parseUint64_some_iff (s : Bytes) (v : Nat) :
    parseUint64 s = some v ↔ s ≠ [] ∧ (∀ b ∈ s, isDigit b = true) ∧ decVal s = v ∧ v < two64 := by
  unfold parseUint64
  cases h : digitsVal s with
  | none =>
    simp only []
    constructor
    · intro h'; cases h'
    · intro ⟨h1, h2, h3, _⟩
      have := (digitsVal_some_iff s v).2 ⟨h1, h2, h3⟩
      rw [h] at this; cases this
  | some w =>
    have hw := (digitsVal_some_iff s w).1 h
    simp only []
    by_cases hlt : w < two64
    · simp only [hlt, if_true]
      constructor
      · intro h'; cases h'; exact ⟨hw.1, hw.2.1, hw.2.2, hlt⟩
      · intro ⟨_, _, h3, _⟩; rw [← h3, hw.2.2]
    · simp only [hlt, if_false]
      constructor
      · intro h'; cases h'
      · intro ⟨_, _, h3, h4⟩; rw [← h3, hw.2.2] at h4; exact absurd h4 hlt

theorem parseUint64_lt {s : Bytes} {v : Nat} (h : parseUint64 s = some v) : v < two64 :=
  ((parseUint64_some_iff s v).1 h).2.2.2

/-- Sign handling of `Atoi`: one optional leading `+` or `-`. -/
def signOf (s : Bytes) : Bool × Bytes :=
  match s with
  | 43 :: r => (false, r)
  | 45 :: r => (true, r)
  | _ => (false, s)

theorem atoi_eq (s : Bytes) : atoi s =
    match digitsVal (signOf s).2 with
    | some v => if (signOf s).1 = true then (if v ≤ two63 then some (- Int.ofNat v) else none)
                else (if v < two63 then some (Int.ofNat v) else none)
    | none => none := by
  unfold atoi signOf
  split
  · simp only []; cases digitsVal _ <;> simp
  · simp only []; cases digitsVal _ <;> simp
  · simp only []; cases digitsVal _ <;> simp

/-- **atoi_some_iff**: `Atoi` succeeds exactly on `[+-]?digits` within the int64 range. -/
theorem atoi_some_iff (s : Bytes) (i : Int) :
    atoi s = some i ↔ ∃ v, digitsVal (signOf s).2 = some v ∧
      (((signOf s).1 = false ∧ v < two63 ∧ i = Int.ofNat v) ∨
       ((signOf s).1 = true ∧ v ≤ two63 ∧ i = - Int.ofNat v)) := by
  rw [atoi_eq]
  cases h : digitsVal (signOf s).2 with
  | none => simp
  | some w =>
    simp only [Option.some.injEq, exists_eq_left']
    cases hs : (signOf s).1
    · simp only [Bool.false_eq_true, if_false, true_and, false_and, or_false]
      by_cases hlt : w < two63
      · simp only [hlt, if_true, Option.some.injEq, true_and]; exact eq_comm
      · simp only [hlt, if_false, false_and]; constructor <;> intro h' <;> cases h'
    · simp only [if_true, true_and, Bool.true_eq_false, false_and, false_or]
      by_cases hlt : w ≤ two63
      · simp only [hlt, if_true, Option.some.injEq, true_and]; exact eq_comm
      · simp only [hlt, if_false, false_and]; constructor <;> intro h' <;> cases h'

theorem atoi_range {s : Bytes} {i : Int} (h : atoi s = some i) :
    -(two63 : Int) ≤ i ∧ i < (two63 : Int) := by
  obtain ⟨v, _, h2⟩ := (atoi_some_iff s i).1 h
  rcases h2 with ⟨_, h3, h4⟩ | ⟨_, h3, h4⟩
  · subst h4; simp only [two63, Int.ofNat_eq_natCast] at *; omega
  · subst h4; simp only [two63, Int.ofNat_eq_natCast] at *; omega



theorem digitsAcc_append : ∀ (a b : Bytes) (acc : Nat),
    digitsAcc acc (a ++ b) = (digitsAcc acc a).bind (fun v => digitsAcc v b)
  | [], b, acc => by simp [digitsAcc]
  | x :: a, b, acc => by
    simp only [List.cons_append, digitsAcc]
    by_cases hx : isDigit x = true
    · simp only [hx, if_true]; exact digitsAcc_append a b _
    · simp [hx]

theorem digit_byte (d : Nat) (h : d < 10) :
    isDigit (UInt8.ofNat (48 + d)) = true ∧ (UInt8.ofNat (48 + d)).toNat - 48 = d := by
  have : (UInt8.ofNat (48 + d)).toNat = 48 + d := by
    simp [UInt8.toNat_ofNat']; omega
  simp only [isDigit, this]
  refine ⟨by simp; omega, by omega⟩

theorem fmtDec_ne_nil (n : Nat) : fmtDec n ≠ [] := by
  rw [fmtDec]; split <;> simp

theorem digitsAcc_fmtDec (n : Nat) : digitsAcc 0 (fmtDec n) = some n := by
  induction n using Nat.strongRecOn with
  | _ n ih =>
    rw [fmtDec]
    split
    · rename_i h
      have := digit_byte n h
      simp only [digitsAcc, this.1, this.2, if_true, Nat.zero_mul, Nat.zero_add]
    · rename_i h
      have hd := digit_byte (n % 10) (by omega)
      rw [digitsAcc_append, ih (n / 10) (by omega)]
      simp only [Option.bind, digitsAcc, hd.1, hd.2, if_true]
      congr 1; omega

theorem digitsVal_fmtDec (n : Nat) : digitsVal (fmtDec n) = some n := by
  have h := fmtDec_ne_nil n
  have := digitsAcc_fmtDec n
  cases hf : fmtDec n with
  | nil => exact absurd hf h
  | cons b r => rw [hf] at this; simpa [digitsVal] using this

/-- every byte `FormatUint` emits is an ASCII digit -/
theorem fmtDec_digits (n : Nat) : ∀ b ∈ fmtDec n, isDigit b = true := by
  induction n using Nat.strongRecOn with
  | _ n ih =>
    rw [fmtDec]
    split
    · rename_i h
      intro b hb
      simp only [List.mem_singleton] at hb; subst hb; exact (digit_byte n h).1
    · intro b hb
      simp only [List.mem_append, List.mem_singleton] at hb
      rcases hb with hb | hb
      · exact ih (n / 10) (by omega) b hb
      · subst hb; exact (digit_byte (n % 10) (by omega)).1

/-- **fmt_parse_offset**: what `FormatUint` writes, `ParseUint` reads back. -/
theorem fmt_parse_offset (n : Nat) (h : n < two64) : parseUint64 (fmtDec n) = some n := by
  simp [parseUint64, digitsVal_fmtDec, h]

theorem signOf_digits (s : Bytes) (h : ∀ b ∈ s, isDigit b = true) : signOf s = (false, s) := by
  unfold signOf
  split
  · have := h 43 (by simp); simp [isDigit] at this
  · have := h 45 (by simp); simp [isDigit] at this
  · rfl

/-- **fmt_parse_length**: what `Itoa` writes, `Atoi` reads back (whole `int` range). -/
theorem fmt_parse_length (i : Int) (h : -(two63 : Int) ≤ i ∧ i < (two63 : Int)) :
    atoi (fmtInt i) = some i := by
  rw [atoi_eq]
  unfold fmtInt
  by_cases hneg : i < 0
  · simp only [hneg, if_true]
    have : signOf (45 :: fmtDec i.natAbs) = (true, fmtDec i.natAbs) := rfl
    rw [this]
    simp only [digitsVal_fmtDec, if_true]
    have hle : i.natAbs ≤ two63 := by simp only [two63] at *; omega
    simp only [hle, if_true, Int.ofNat_eq_natCast]
    congr 1; omega
  · simp only [hneg, if_false]
    rw [signOf_digits _ (fmtDec_digits _)]
    simp only [digitsVal_fmtDec]
    have hlt : i.natAbs < two63 := by simp only [two63] at *; omega
    simp only [hlt, if_true, Int.ofNat_eq_natCast]
    simp; omega


theorem toU64_nonneg {l : Int} (h0 : 0 ≤ l) (h1 : l < (two63 : Int)) : toU64 l = l.toNat := by
  unfold toU64; simp only [two63, two64] at *; omega

theorem toU64_neg {l : Int} (h0 : l < 0) (h1 : -(two63 : Int) ≤ l) :
    (toU64 l : Int) = l + (two64 : Int) := by
  unfold toU64; simp only [two63, two64] at *; omega

/-- **read_in_segment**: whenever the bounds code of `ReadBatch` lets a slice be taken, the slice
is `[offset, offset+length)` in TRUE (unbounded) arithmetic — no wrap-around happened — the length
is not negative and the slice ends inside the segment. For every segment size a Go `int` can hold,
every `uint64` offset and every `int` length. -/
theorem read_in_segment (size offset : Nat) (length : Int) (lo hi : Nat)
    (hsize : size < two63) (hoff : offset < two64)
    (hlen : -(two63 : Int) ≤ length ∧ length < (two63 : Int))
    (h : readBounds size offset length = .ok lo hi) :
    lo = offset ∧ 0 ≤ length ∧ hi = offset + length.toNat ∧ lo ≤ hi ∧ hi ≤ size := by
  unfold readBounds at h
  simp only [] at h
  split at h
  · cases h
  · split at h
    · rename_i h1 h2
      cases h
      by_cases hneg : length < 0
      · have := toU64_neg hneg hlen.1
        simp only [two63, two64] at *
        generalize toU64 length = u at *
        exfalso
        omega
      · have := toU64_nonneg (by omega) hlen.2
        simp only [two63, two64] at *
        generalize toU64 length = u at *
        refine ⟨trivial, by omega, by omega, by omega, by omega⟩
    · cases h

/-- **readBounds_ok_iff**: the slice is taken exactly for non-negative lengths whose region ends
inside the segment. -/
theorem readBounds_ok_iff (size offset : Nat) (length : Int)
    (hsize : size < two63) (hoff : offset < two64)
    (hlen : -(two63 : Int) ≤ length ∧ length < (two63 : Int)) :
    (∃ lo hi, readBounds size offset length = .ok lo hi) ↔ (0 ≤ length ∧ offset + length.toNat ≤ size) := by
  constructor
  · rintro ⟨lo, hi, h⟩
    have := read_in_segment size offset length lo hi hsize hoff hlen h
    omega
  · rintro ⟨h0, h1⟩
    refine ⟨offset, offset + length.toNat, ?_⟩
    unfold readBounds
    have := toU64_nonneg h0 hlen.2
    simp only [two63, two64] at *
    have e : (offset + toU64 length) % 18446744073709551616 = offset + length.toNat := by
      generalize toU64 length = u at *
      omega
    simp only [e]
    rw [if_neg (by omega), if_pos (by omega)]

/-- Every bad (offset, length) pair ends in one of the two refusals: the explicit
"out of bounds" error or the slice panic that `ResolveShmBatch` recovers into an error. -/
theorem readBounds_bad (size offset : Nat) (length : Int)
    (hsize : size < two63) (hoff : offset < two64)
    (hlen : -(two63 : Int) ≤ length ∧ length < (two63 : Int))
    (hbad : length < 0 ∨ offset + length.toNat > size) :
    readBounds size offset length = .oob ∨ readBounds size offset length = .panic := by
  cases h : readBounds size offset length with
  | oob => exact Or.inl rfl
  | panic => exact Or.inr rfl
  | ok lo hi =>
    have := read_in_segment size offset length lo hi hsize hoff hlen h
    omega



/-- The offset / length strings `ResolveShmBatch` reads (missing key = empty string). -/
def offStr (md : Meta) : Bytes := (mget kShmOffset md).getD []
def lenStr (md : Meta) : Bytes := (mget kShmLength md).getD []

/-- **resolve_ok_iff** (the pointer-safety theorem): on a pointer batch, a region is read exactly
when the offset string is a plain decimal below 2^64, the length string is a decimal `int` that is
not negative, and `offset + length` — in unbounded arithmetic — does not pass the end of the
segment; the region read is then exactly `[offset, offset+length)`. For all byte strings, all
metadata lists, every segment size a Go `int` can hold. -/
theorem resolve_ok_iff (size rows : Nat) (md : Meta) (lo hi : Nat) (hsize : size < two63) :
    resolve size rows md = .ok lo hi ↔
      isPointer rows md = true ∧ ∃ (o : Nat) (l : Int), parseUint64 (offStr md) = some o ∧
        atoi (lenStr md) = some l ∧ 0 ≤ l ∧ o + l.toNat ≤ size ∧ lo = o ∧ hi = o + l.toNat := by
  unfold resolve offStr lenStr
  by_cases hp : isPointer rows md = true
  · simp only [hp, Bool.not_true, Bool.false_eq_true, if_false, true_and]
    cases ho : parseUint64 ((mget kShmOffset md).getD []) with
    | none => simp
    | some o =>
      cases hl : atoi ((mget kShmLength md).getD []) with
      | none => simp
      | some l =>
        have hor := parseUint64_lt ho
        have hlr := atoi_range hl
        have key : (∃ (o' : Nat) (l' : Int), some o = some o' ∧ some l = some l' ∧ 0 ≤ l' ∧
              o' + l'.toNat ≤ size ∧ lo = o' ∧ hi = o' + l'.toNat) ↔
            (0 ≤ l ∧ o + l.toNat ≤ size ∧ lo = o ∧ hi = o + l.toNat) := by
          constructor
          · rintro ⟨o', l', h1, h2, h3⟩
            cases h1; cases h2; exact h3
          · intro h; exact ⟨o, l, rfl, rfl, h⟩
        rw [key]
        cases hb : readBounds size o l with
        | oob =>
          simp only [hb]
          constructor
          · intro h; cases h
          · rintro ⟨h0, h1, _, _⟩
            have := (readBounds_ok_iff size o l hsize hor hlr).2 ⟨h0, h1⟩
            obtain ⟨a, b, hab⟩ := this
            rw [hb] at hab; cases hab
        | panic =>
          simp only [hb]
          constructor
          · intro h; cases h
          · rintro ⟨h0, h1, _, _⟩
            have := (readBounds_ok_iff size o l hsize hor hlr).2 ⟨h0, h1⟩
            obtain ⟨a, b, hab⟩ := this
            rw [hb] at hab; cases hab
        | ok a b =>
          have := read_in_segment size o l a b hsize hor hlr hb
          simp only [hb, Resolve.ok.injEq]
          constructor
          · rintro ⟨rfl, rfl⟩; omega
          · rintro ⟨_, _, rfl, rfl⟩; omega
  · simp only [hp, Bool.not_false, if_true]
    constructor
    · intro h; cases h
    · intro h; exact absurd h.1 (by simp)

/-! ### Metadata -/

theorem mget_none_iff (k : Bytes) : ∀ (m : Meta), mget k m = none ↔ ∀ e ∈ m, e.1 ≠ k
  | [] => by simp [mget]
  | e :: r => by
    simp only [mget]
    by_cases h : e.1 = k
    · simp [h]
    · simp [h, mget_none_iff k r]

theorem mget_append (k : Bytes) : ∀ (a b : Meta),
    mget k (a ++ b) = match mget k a with | some v => some v | none => mget k b
  | [], b => by simp [mget]
  | e :: r, b => by
    simp only [List.cons_append, mget]
    by_cases h : e.1 = k
    · simp [h]
    · simp [h, mget_append k r b]

theorem mget_filter_keep (k : Bytes) (p : Bytes → Bool) (hk : p k = true) : ∀ (m : Meta),
    mget k (m.filter fun e => p e.1) = mget k m
  | [] => rfl
  | e :: r => by
    by_cases h : e.1 = k
    · have : p e.1 = true := by rw [h]; exact hk
      rw [List.filter_cons_of_pos (by simpa using this)]
      simp [mget, h]
    · cases hp : p e.1
      · rw [List.filter_cons_of_neg (by simp [hp])]
        simp [mget, h, mget_filter_keep k p hk r]
      · rw [List.filter_cons_of_pos (by simpa using hp)]
        simp [mget, h, mget_filter_keep k p hk r]

theorem mget_filter_drop (k : Bytes) (p : Bytes → Bool) (hk : p k = false) (m : Meta) :
    mget k (m.filter fun e => p e.1) = none := by
  rw [mget_none_iff]
  intro e he
  simp only [List.mem_filter] at he
  intro h; rw [h, hk] at he; cases he.2

/-- **pointer_meta** (resolved side): the resolved batch carries neither pointer key, every other
key keeps its (first) value, the metadata ends with `shm_source = <segment>`, and that is the
value a lookup finds unless the pointer batch already carried a `shm_source` of its own. -/
theorem pointer_meta (md : Meta) (seg : Bytes) :
    mget kShmOffset (resolveMeta md seg) = none ∧
    mget kShmLength (resolveMeta md seg) = none ∧
    (∀ k, isPtrKey k = false → k ≠ kShmSource → mget k (resolveMeta md seg) = mget k md) ∧
    (resolveMeta md seg).getLast? = some (kShmSource, seg) ∧
    (mget kShmSource md = none → mget kShmSource (resolveMeta md seg) = some seg) ∧
    (resolveMeta md seg).dropLast = md.filter (fun e => !isPtrKey e.1) := by
  unfold resolveMeta
  have hf : ∀ k, isPtrKey k = false → mget k (md.filter fun e => !isPtrKey e.1) = mget k md :=
    fun k hk => mget_filter_keep k (fun x => !isPtrKey x) (by simp [hk]) md
  have hd : ∀ k, isPtrKey k = true → mget k (md.filter fun e => !isPtrKey e.1) = none :=
    fun k hk => mget_filter_drop k (fun x => !isPtrKey x) (by simp [hk]) md
  refine ⟨?_, ?_, ?_, by simp, ?_, by simp⟩
  · rw [mget_append, hd kShmOffset (by decide)]
    simp only [mget]; rw [if_neg (by decide)]
  · rw [mget_append, hd kShmLength (by decide)]
    simp only [mget]; rw [if_neg (by decide)]
  · intro k hk hs
    rw [mget_append, hf k hk]
    cases mget k md with
    | some v => rfl
    | none => simp only [mget]; rw [if_neg (fun h => hs h.symm)]
  · intro h
    rw [mget_append, hf kShmSource (by decide), h]
    simp [mget]

theorem mem_insertSorted (x e : Bytes × Bytes) : ∀ (m : Meta), x ∈ insertSorted e m ↔ x = e ∨ x ∈ m
  | [] => by simp [insertSorted]
  | y :: r => by
    simp only [insertSorted]
    split
    · simp
    · simp only [List.mem_cons, mem_insertSorted x e r]
      constructor
      · rintro (h | h | h) <;> simp [h]
      · rintro (h | h | h) <;> simp [h]

theorem mem_sortMeta (x : Bytes × Bytes) : ∀ (m : Meta), x ∈ sortMeta m ↔ x ∈ m
  | [] => by simp [sortMeta]
  | e :: r => by simp [sortMeta, mem_insertSorted, mem_sortMeta x r]

/-- `mapOf` keeps exactly the LAST entry of every key (what filling a Go map does). -/
theorem mem_mapOf (k v : Bytes) : ∀ (m : Meta),
    (k, v) ∈ mapOf m ↔ ∃ pre post, m = pre ++ (k, v) :: post ∧ ∀ e ∈ post, e.1 ≠ k
  | [] => by simp [mapOf]
  | e :: r => by
    simp only [mapOf]
    have ih := mem_mapOf k v r
    by_cases hs : (mget e.1 r).isSome = true
    · simp only [hs, if_true, ih]
      constructor
      · rintro ⟨pre, post, h1, h2⟩; exact ⟨e :: pre, post, by simp [h1], h2⟩
      · rintro ⟨pre, post, h1, h2⟩
        cases pre with
        | nil =>
          simp at h1
          obtain ⟨he, hr⟩ := h1
          exfalso
          have : mget e.1 r = none := by
            rw [mget_none_iff]; intro x hx; rw [hr] at hx; rw [he]; exact h2 x hx
          rw [this] at hs; cases hs
        | cons y pre => simp at h1; exact ⟨pre, post, h1.2, h2⟩
    · simp only [hs, Bool.false_eq_true, if_false, List.mem_cons, ih]
      have hn : mget e.1 r = none := by
        cases h : mget e.1 r with
        | none => rfl
        | some _ => simp [h] at hs
      constructor
      · rintro (h | ⟨pre, post, h1, h2⟩)
        · refine ⟨[], r, by simp [h], ?_⟩
          rw [mget_none_iff] at hn
          intro x hx; rw [← h] at hn; exact hn x hx
        · exact ⟨e :: pre, post, by simp [h1], h2⟩
      · rintro ⟨pre, post, h1, h2⟩
        cases pre with
        | nil => simp at h1; exact Or.inl h1.1.symm
        | cons y pre => simp at h1; exact Or.inr ⟨pre, post, h1.2, h2⟩

/-- **pointer_meta_written** (writer side): the pointer batch starts with the two pointer keys
holding the decimal offset and length, and otherwise carries exactly the batch's own metadata as a
map (last value of each key), pointer keys of the original excluded. -/
theorem pointer_meta_written (off : Nat) (len : Int) (ex : Meta) :
    mget kShmOffset (pointerMeta off len ex) = some (fmtDec off) ∧
    mget kShmLength (pointerMeta off len ex) = some (fmtInt len) ∧
    (∀ k v, isPtrKey k = false →
      ((k, v) ∈ pointerMeta off len ex ↔
        ∃ pre post, ex = pre ++ (k, v) :: post ∧ ∀ e ∈ post, e.1 ≠ k)) ∧
    (mget kLogLevel ex = none → mget kLogLevel (pointerMeta off len ex) = none) := by
  unfold pointerMeta
  refine ⟨by simp [mget], ?_, ?_, ?_⟩
  · simp only [mget]; rw [if_neg (by decide)]; simp
  · intro k v hk
    rw [← mem_mapOf]
    simp only [List.mem_cons, mem_sortMeta, List.mem_filter]
    constructor
    · rintro (h | h | h)
      · cases h; exact absurd hk (by decide)
      · cases h; exact absurd hk (by decide)
      · exact h.1
    · intro h; exact Or.inr (Or.inr ⟨h, by simp [hk]⟩)
  · intro h
    rw [mget_none_iff] at h ⊢
    intro e he
    simp only [List.mem_cons, mem_sortMeta, List.mem_filter] at he
    rcases he with he | he | he
    · subst he; show kShmOffset ≠ kLogLevel; decide
    · subst he; show kShmLength ≠ kLogLevel; decide
    · obtain ⟨pre, post, h1, _⟩ := (mem_mapOf e.1 e.2 ex).1 he.1
      exact h e (by rw [h1]; simp)


/-! ### Framing -/

theorem take_left_ (a b : Bytes) (n : Nat) (h : a.length = n) : (a ++ b).take n = a := by
  subst h; simp
theorem drop_left_ (a b : Bytes) (n : Nat) (h : a.length = n) : (a ++ b).drop n = b := by
  subst h; simp

theorem hasSuffix_append (a suf : Bytes) : hasSuffix (a ++ suf) suf = true := by
  unfold hasSuffix
  have : (a ++ suf).length - suf.length = a.length := by simp
  rw [this, drop_left_ a suf _ rfl]
  simp

/-- **reconstruct_strip**: if the complete stream of a batch is `schemaMsg ++ rest ++ EOS` and
`skipOneIPCMessage` finds the end of the schema message, then what `serializeForShm` stores is
exactly `rest`, and `ReadBatch`'s reconstruction from the schema-only stream (`schemaMsg ++ EOS`)
gives back the complete stream, byte for byte. -/
theorem reconstruct_strip (schemaMsg rest : Bytes)
    (hskip : skipOne (schemaMsg ++ rest ++ eos) = some (Int.ofNat schemaMsg.length)) :
    storedOf .top (schemaMsg ++ rest ++ eos) = some rest ∧
    loadOf .top (schemaMsg ++ eos) rest = some (schemaMsg ++ rest ++ eos) := by
  constructor
  · simp only [storedOf, strip, hskip]
    rw [hasSuffix_append]
    have hl : (schemaMsg ++ rest ++ eos).length = schemaMsg.length + rest.length + 8 := by
      simp [eos]; omega
    have ht : (Int.ofNat schemaMsg.length).toNat = schemaMsg.length := by simp
    simp only [Bool.not_true, Bool.false_eq_true, if_false, hl, ht]
    have h1 : (0 : Int) ≤ Int.ofNat schemaMsg.length ∧
        Int.ofNat schemaMsg.length ≤ Int.ofNat (schemaMsg.length + rest.length + 8 - 8) := by
      simp only [Int.ofNat_eq_natCast]; omega
    rw [if_pos h1]
    have h2 : schemaMsg.length + rest.length + 8 - 8 - schemaMsg.length = rest.length := by omega
    rw [h2, List.append_assoc, drop_left_ schemaMsg _ _ rfl, take_left_ rest eos _ rfl]
  · simp only [loadOf]
    have hl : (schemaMsg ++ eos).length = schemaMsg.length + 8 := by simp [eos]
    rw [hl, if_neg (by omega)]
    have : schemaMsg.length + 8 - 8 = schemaMsg.length := by omega
    rw [this, take_left_ schemaMsg eos _ rfl]

/-- **store_load**: for every layout, loading what was stored yields the complete stream. -/
theorem store_load (k : Kind) (schemaMsg rest stored : Bytes)
    (hskip : k = .top → skipOne (schemaMsg ++ rest ++ eos) = some (Int.ofNat schemaMsg.length))
    (hs : storedOf k (schemaMsg ++ rest ++ eos) = some stored) :
    loadOf k (schemaMsg ++ eos) stored = some (schemaMsg ++ rest ++ eos) := by
  cases k with
  | top =>
    have := reconstruct_strip schemaMsg rest (hskip rfl)
    rw [this.1] at hs; cases hs; exact this.2
  | plain => simp only [storedOf] at hs; cases hs; rfl
  | nested => simp only [storedOf] at hs; cases hs; rfl

/-- Non-vacuity: a minimal well-formed message (continuation marker, 16-byte flatbuffer whose
vtable has no bodyLength slot) followed by a payload and EOS. -/
def sampleSchemaMsg : Bytes :=
  [0xFF, 0xFF, 0xFF, 0xFF, 16, 0, 0, 0,   12, 0, 0, 0, 4, 0, 4, 0, 0, 0, 0, 0, 8, 0, 0, 0]

example : skipOne (sampleSchemaMsg ++ [1, 2, 3] ++ eos) = some (Int.ofNat sampleSchemaMsg.length) := by
  decide
example : storedOf .top (sampleSchemaMsg ++ [1, 2, 3] ++ eos) = some [1, 2, 3] := by decide

/-! ### Layout selection -/

/-- **kind_top_iff / kind_plain_iff**: the stripped layout is chosen exactly when some column's own
type is a dictionary; the fast path exactly when no dictionary occurs anywhere. -/
theorem kind_top_iff (cols : List ColTy) :
    kindOf cols = .top ↔ ∃ c ∈ cols, ∃ t r, c = t :: r ∧ isDictTok t = true := by
  unfold kindOf
  constructor
  · intro h
    split at h
    · rename_i h1
      rw [List.any_eq_true] at h1
      obtain ⟨c, hc, hd⟩ := h1
      cases c with
      | nil => simp [colIsDict] at hd
      | cons t r => exact ⟨t :: r, hc, t, r, rfl, by simpa [colIsDict] using hd⟩
    · split at h <;> cases h
  · rintro ⟨c, hc, t, r, rfl, hd⟩
    have : cols.any colIsDict = true := by
      rw [List.any_eq_true]; exact ⟨t :: r, hc, by simpa [colIsDict] using hd⟩
    rw [if_pos this]

theorem kind_plain_iff (cols : List ColTy) :
    kindOf cols = .plain ↔ ∀ c ∈ cols, ∀ t ∈ c, isDictTok t = false := by
  unfold kindOf
  constructor
  · intro h
    split at h
    · cases h
    · split at h
      · cases h
      · rename_i h2
        intro c hc t ht
        cases hd : isDictTok t with
        | false => rfl
        | true =>
          exfalso; apply h2
          rw [List.any_eq_true]
          exact ⟨c, hc, by unfold colHasDict; rw [List.any_eq_true]; exact ⟨t, ht, hd⟩⟩
  · intro h
    have h1 : ¬ cols.any colIsDict = true := by
      rw [List.any_eq_true]
      rintro ⟨c, hc, hd⟩
      cases c with
      | nil => simp [colIsDict] at hd
      | cons t r =>
        have := h _ hc t (by simp)
        simp [colIsDict, this] at hd
    have h2 : ¬ cols.any colHasDict = true := by
      rw [List.any_eq_true]
      rintro ⟨c, hc, hd⟩
      unfold colHasDict at hd
      rw [List.any_eq_true] at hd
      obtain ⟨t, ht, hd⟩ := hd
      rw [h c hc t ht] at hd; cases hd
    rw [if_neg h1, if_neg h2]


/-! ### Mapped data -/

/-- **read_write_same**: reading exactly the region just written returns the written bytes. -/
theorem read_write_same (m : Mem) (o : Nat) (bs : Bytes) :
    Mem.read ((o, bs) :: m) o (o + bs.length) = bs := by
  unfold Mem.read
  apply List.ext_getElem
  · simp
  · intro i h1 h2
    simp only [List.getElem_map, List.getElem_range', Mem.get]
    have hi : i < bs.length := h2
    rw [if_pos (by constructor <;> omega)]
    have : o + 1 * i - o = i := by omega
    rw [this]
    simp [List.getD_eq_getElem?_getD, hi]

/-- **read_write_disjoint**: a write does not change what any disjoint region reads. -/
theorem read_write_disjoint (m : Mem) (o : Nat) (bs : Bytes) (lo hi : Nat)
    (h : hi ≤ o ∨ o + bs.length ≤ lo) :
    Mem.read ((o, bs) :: m) lo hi = Mem.read m lo hi := by
  unfold Mem.read
  apply List.map_congr_left
  intro i hi'
  rw [List.mem_range'_1] at hi'
  simp only [Mem.get]
  rw [if_neg (by omega)]

theorem read_length (m : Mem) (lo hi : Nat) : (Mem.read m lo hi).length = hi - lo := by
  simp [Mem.read]

/-! ### Disjointness of a well-formed table -/

theorem wf_split {dataEnd : Nat} : ∀ (pre : Table) {p : Nat} {x : Nat × Nat} {post : Table},
    WFfrom dataEnd p (pre ++ x :: post) →
      (∀ e ∈ pre, e.1 + e.2 ≤ x.1) ∧ (∀ e ∈ post, x.1 + x.2 ≤ e.1)
  | [], p, x, post, h => by
    obtain ⟨_, _, h3⟩ := h
    refine ⟨by simp, fun e he => (wf_in_bounds h3 e he).1⟩
  | y :: pre, p, x, post, h => by
    obtain ⟨_, _, h3⟩ := h
    have ih := wf_split pre h3
    have hx := (wf_in_bounds h3 x (by simp)).1
    refine ⟨?_, ih.2⟩
    intro e he
    simp at he
    rcases he with he | he
    · subst he; exact hx
    · exact ih.1 e he



/-- State invariant: the allocator table is well-formed (C34), and every batch still allocated
occupies a table entry of exactly its size and reads back exactly as stored. -/
def Inv (st : St) : Prop :=
  WF st.seg ∧ ∀ e ∈ st.live, (e.1, e.2.length) ∈ st.seg.table ∧
    Mem.read st.mem e.1 (e.1 + e.2.length) = e.2

theorem inv_create (dataSize : Nat) : Inv (St.create dataSize) := by
  refine ⟨create_wf dataSize, ?_⟩
  intro e he; simp [St.create] at he

/-- A successful write: the slot is a fresh table entry of exactly the stored size, inside the
data area; its bytes read back; every other live batch is untouched. -/
theorem write_ok_spec (st : St) (k : Kind) (est : Int) (full : Bytes) (st' : St) (off len : Nat)
    (hinv : Inv st) (hw : write st k est full = (st', .ok off len)) :
    ∃ stored, storedOf k full = some stored ∧ len = stored.length ∧
      Inv st' ∧ st'.seg.size = st.seg.size ∧
      (off, len) ∈ st'.seg.table ∧ headerSize ≤ off ∧ off + len ≤ st'.seg.size ∧
      Mem.read st'.mem off (off + len) = stored ∧
      st'.live = (off, stored) :: st.live := by
  unfold write at hw
  split at hw
  · cases hw
  · split at hw
    · cases hw
    · rename_i stored hst
      split at hw
      · cases hw
      · rename_i o seg' ha
        cases hw
        obtain ⟨hwf', hsz, pre, post, ht, ht'⟩ := alloc_preserves_wf st.seg _ off seg' hinv.1 ha
        have hn : (Int.ofNat stored.length).toNat = stored.length := by simp
        rw [hn] at ht'
        have hmem : (off, stored.length) ∈ seg'.table := by rw [ht']; simp
        have hb := wf_in_bounds hwf'.1 (off, stored.length) hmem
        have hsp := wf_split (dataEnd := seg'.size) pre (p := headerSize) (x := (off, stored.length)) (post := post)
          (by rw [← ht']; exact hwf'.1)
        refine ⟨stored, hst, rfl, ⟨hwf', ?_⟩, hsz, hmem, hb.1, hb.2, read_write_same _ _ _, rfl⟩
        intro e he
        simp only [List.mem_cons] at he
        rcases he with he | he
        · subst he
          exact ⟨hmem, read_write_same _ _ _⟩
        · obtain ⟨h1, h2⟩ := hinv.2 e he
          rw [ht] at h1
          refine ⟨by rw [ht']; simp at h1 ⊢; rcases h1 with h1 | h1 <;> simp [h1], ?_⟩
          rw [read_write_disjoint, h2]
          simp only [List.mem_append] at h1
          rcases h1 with h1 | h1
          · have := hsp.1 _ h1; simp at this; omega
          · have := hsp.2 _ h1; simp at this; omega

theorem write_other (st : St) (k : Kind) (est : Int) (full : Bytes) (st' : St) (r : WriteRes)
    (hw : write st k est full = (st', r)) (hr : ∀ o l, r ≠ .ok o l) : st' = st := by
  unfold write at hw
  split at hw
  · cases hw; rfl
  · split at hw
    · cases hw; rfl
    · split at hw
      · cases hw; rfl
      · cases hw; exact absurd rfl (hr _ _)

theorem write_inv (st : St) (k : Kind) (est : Int) (full : Bytes) (hinv : Inv st) :
    Inv (write st k est full).1 := by
  cases hw : write st k est full with
  | mk st' r =>
    cases r with
    | ok o l =>
      obtain ⟨_, _, _, h, _⟩ := write_ok_spec st k est full st' o l hinv hw
      exact h
    | noFit => rw [write_other st k est full st' _ hw (by intro o l h; cases h)]; exact hinv
    | failed => rw [write_other st k est full st' _ hw (by intro o l h; cases h)]; exact hinv

theorem free_inv (st : St) (off : Nat) (st' : St) (hinv : Inv st) (hf : freeAt st off = some st') :
    Inv st' := by
  unfold freeAt at hf
  cases hfr : free st.seg off with
  | none => simp [hfr] at hf
  | some seg' =>
    simp only [hfr, Option.some.injEq] at hf
    subst hf
    have hwf := (free_preserves_wf st.seg off seg' hinv.1 hfr).1
    refine ⟨hwf, ?_⟩
    intro e he
    simp only [List.mem_filter, bne_iff_ne, ne_eq] at he
    obtain ⟨h1, h2⟩ := hinv.2 e he.1
    refine ⟨?_, h2⟩
    -- the entry survives: only the first entry at `off` is removed
    unfold free at hfr
    have hspec := freeScan_spec off st.seg.table
    cases hs : freeScan off st.seg.table with
    | none => simp [hs] at hfr
    | some t2 =>
      simp only [hs, Option.map, Option.some.injEq] at hfr
      subst hfr
      simp only [hs] at hspec
      obtain ⟨pre, x, post, ht, hx, _, ht2⟩ := hspec
      rw [ht] at h1
      show (e.1, e.2.length) ∈ t2
      rw [ht2]
      simp only [List.mem_append, List.mem_cons] at h1 ⊢
      rcases h1 with h1 | h1 | h1
      · exact Or.inl h1
      · exfalso; apply he.2; rw [← hx, ← h1]
      · exact Or.inr h1

theorem step_inv (st : St) (op : ShmBatch.Op) (hinv : Inv st) : Inv (stepOp st op) := by
  cases op with
  | write k est full => exact write_inv st k est full hinv
  | free o =>
    simp only [stepOp]
    cases hf : freeAt st o with
    | none => exact hinv
    | some s => exact free_inv st o s hinv hf
  | reset =>
    refine ⟨(step_wf st.seg Shm.Op.reset hinv.1).1, ?_⟩
    intro e he; simp [stepOp, resetAll] at he

/-- **live_regions_read_back**: after ANY history of writes (any layouts, any byte contents, any
estimates), frees and resets on a fresh segment of any size, every batch whose slot is still
allocated reads back exactly the bytes that were stored for it — later writes never touch it. -/
theorem live_regions_read_back (dataSize : Nat) (ops : List ShmBatch.Op) :
    Inv (ops.foldl stepOp (St.create dataSize)) := by
  suffices ∀ s, Inv s → Inv (ops.foldl stepOp s) from this _ (inv_create dataSize)
  induction ops with
  | nil => intro s h; exact h
  | cons op ops ih => intro s h; exact ih _ (step_inv s op h)


/-! ### Pointer safety: the error classes -/

/-- A pointer is *good* when its strings denote, in unbounded arithmetic, a region inside the
segment. -/
def GoodPointer (size : Nat) (md : Meta) : Prop :=
  ∃ (o : Nat) (l : Int), parseUint64 (offStr md) = some o ∧ atoi (lenStr md) = some l ∧
    0 ≤ l ∧ o + l.toNat ≤ size

/-- **bad_pointer_is_error**: on a pointer batch, `ResolveShmBatch` either reads a region — and
then the pointer is good — or ends in one of its four error exits (bad offset string, bad length
string, the explicit bounds error, the recovered slice panic). It never passes a pointer batch
through unresolved and never reads for a pointer that is not good. -/
theorem bad_pointer_is_error (size rows : Nat) (md : Meta) (hsize : size < two63)
    (hp : isPointer rows md = true) :
    ((∃ lo hi, resolve size rows md = .ok lo hi) ∧ GoodPointer size md) ∨
    ((resolve size rows md = .badOffset ∨ resolve size rows md = .badLength ∨
      resolve size rows md = .oob ∨ resolve size rows md = .panic) ∧ ¬ GoodPointer size md) := by
  cases h : resolve size rows md with
  | ok lo hi =>
    obtain ⟨_, o, l, h1, h2, h3, h4, _, _⟩ := (resolve_ok_iff size rows md lo hi hsize).1 h
    exact Or.inl ⟨⟨lo, hi, rfl⟩, o, l, h1, h2, h3, h4⟩
  | notPointer =>
    exfalso
    unfold resolve at h
    simp only [hp, Bool.not_true, Bool.false_eq_true, if_false] at h
    split at h
    · cases h
    · split at h
      · cases h
      · split at h <;> cases h
  | badOffset | badLength | oob | panic =>
    refine Or.inr ⟨by simp, ?_⟩
    rintro ⟨o, l, h1, h2, h3, h4⟩
    have := (resolve_ok_iff size rows md o (o + l.toNat) hsize).2 ⟨hp, o, l, h1, h2, h3, h4, rfl, rfl⟩
    rw [h] at this; cases this

/-- Malformed offset: empty, or any byte that is not an ASCII digit (sign, space, `x`, `_`, a
UTF-8 byte of a non-ASCII digit, NUL ...). -/
theorem malformed_offset_rejected (size rows : Nat) (md : Meta)
    (hp : isPointer rows md = true)
    (hbad : offStr md = [] ∨ ∃ b ∈ offStr md, isDigit b = false) :
    resolve size rows md = .badOffset := by
  have : parseUint64 (offStr md) = none := by
    cases h : parseUint64 (offStr md) with
    | none => rfl
    | some v =>
      obtain ⟨h1, h2, _⟩ := (parseUint64_some_iff _ v).1 h
      rcases hbad with hb | ⟨b, hb, hd⟩
      · exact absurd hb h1
      · rw [h2 b hb] at hd; cases hd
  unfold resolve
  unfold offStr at this
  simp [hp, this]

/-- Overflowing offset: a digit string whose value does not fit `uint64`. -/
theorem overflow_offset_rejected (size rows : Nat) (md : Meta)
    (hp : isPointer rows md = true) (hov : two64 ≤ decVal (offStr md)) :
    resolve size rows md = .badOffset := by
  have : parseUint64 (offStr md) = none := by
    cases h : parseUint64 (offStr md) with
    | none => rfl
    | some v =>
      obtain ⟨_, _, h3, h4⟩ := (parseUint64_some_iff _ v).1 h
      omega
  unfold resolve
  unfold offStr at this
  simp [hp, this]

/-- Negative length (whatever the offset): never a read. -/
theorem negative_length_rejected (size rows : Nat) (md : Meta) (l : Int) (hsize : size < two63)
    (hl : atoi (lenStr md) = some l) (hneg : l < 0) : ∀ lo hi, resolve size rows md ≠ .ok lo hi := by
  intro lo hi h
  obtain ⟨_, o, l', _, h2, h3, _⟩ := (resolve_ok_iff size rows md lo hi hsize).1 h
  rw [hl] at h2; cases h2; omega

/-- Out-of-segment region (including every `offset+length` that would wrap in `uint64`). -/
theorem out_of_segment_rejected (size rows : Nat) (md : Meta) (o : Nat) (l : Int) (hsize : size < two63)
    (ho : parseUint64 (offStr md) = some o) (hl : atoi (lenStr md) = some l)
    (hout : (o : Int) + l > size) : ∀ lo hi, resolve size rows md ≠ .ok lo hi := by
  intro lo hi h
  obtain ⟨_, o', l', h1, h2, h3, h4, _⟩ := (resolve_ok_iff size rows md lo hi hsize).1 h
  rw [ho] at h1; rw [hl] at h2; cases h1; cases h2; omega

/-! ### End to end: what the writer emits, the reader resolves to the same bytes -/

/-- **emitted_pointer_resolves**: in any reachable state, after a successful write the pointer
metadata `MaybeWriteToShm` builds (decimal offset and length plus the batch's own metadata, as
long as that is not log metadata) resolves — through the string parsers and the wrap-around
bounds code — to exactly the written slot, and the slot holds exactly the stored bytes. -/
theorem emitted_pointer_resolves (st : St) (k : Kind) (est : Int) (full : Bytes) (st' : St)
    (off len : Nat) (md : Meta) (hinv : Inv st) (hsize : st.seg.size < two63)
    (hw : write st k est full = (st', .ok off len)) (hlog : mget kLogLevel md = none) :
    resolve st'.seg.size 0 (pointerMeta off (Int.ofNat len) md) = .ok off (off + len) ∧
    ∃ stored, storedOf k full = some stored ∧ Mem.read st'.mem off (off + len) = stored := by
  obtain ⟨stored, hs, hlen, _, hsz, _, _, hin, hrd, _⟩ := write_ok_spec st k est full st' off len hinv hw
  obtain ⟨pm1, pm2, _, pm4⟩ := pointer_meta_written off (Int.ofNat len) md
  refine ⟨?_, stored, hs, hrd⟩
  rw [hsz] at hin ⊢
  rw [resolve_ok_iff _ _ _ _ _ hsize]
  refine ⟨?_, off, Int.ofNat len, ?_, ?_, by simp, by simpa using hin, rfl, by simp⟩
  · unfold isPointer; rw [pm1, pm4 hlog]; rfl
  · unfold offStr; rw [pm1]
    exact fmt_parse_offset off (by simp only [two63, two64] at *; omega)
  · unfold lenStr; rw [pm2]
    exact fmt_parse_length _ (by simp only [two63, Int.ofNat_eq_natCast] at *; omega)

/-- **batch_roundtrip**: additionally, if the batch's complete IPC stream is
`schemaMsg ++ rest ++ EOS` (and, for the stripped layout, `skipOneIPCMessage` finds the end of
`schemaMsg`), the stream `ReadBatch` hands to the IPC reader for the resolved pointer is that
complete stream, byte for byte — for all three layouts. What the Arrow reader makes of identical
bytes is outside the model. -/
theorem batch_roundtrip (st : St) (k : Kind) (est : Int) (schemaMsg rest : Bytes) (st' : St)
    (off len : Nat) (md : Meta) (hinv : Inv st) (hsize : st.seg.size < two63)
    (hskip : k = .top → skipOne (schemaMsg ++ rest ++ eos) = some (Int.ofNat schemaMsg.length))
    (hw : write st k est (schemaMsg ++ rest ++ eos) = (st', .ok off len))
    (hlog : mget kLogLevel md = none) :
    ∃ lo hi, resolve st'.seg.size 0 (pointerMeta off (Int.ofNat len) md) = .ok lo hi ∧
      loadOf k (schemaMsg ++ eos) (Mem.read st'.mem lo hi) = some (schemaMsg ++ rest ++ eos) := by
  obtain ⟨hr, stored, hs, hrd⟩ := emitted_pointer_resolves st k est _ st' off len md hinv hsize hw hlog
  exact ⟨off, off + len, hr, by rw [hrd]; exact store_load k schemaMsg rest stored hskip hs⟩

/-! ### Non-vacuity -/

def kv (k v : String) : Bytes × Bytes := (bytesOfString k, bytesOfString v)

/-- a good pointer resolves; hypotheses of `resolve_ok_iff` are met by a concrete pointer -/
example : resolve 70000 0 [(kShmOffset, [54, 53, 53, 51, 54]), (kShmLength, [52, 52, 56])]
    = .ok 65536 65984 := by decide
/-- negative length with |len| ≤ offset: the slice-panic exit (uint64 wrap, end < offset) -/
example : resolve 70000 0 [(kShmOffset, [54, 53, 53, 51, 54]), (kShmLength, [45, 49])] = .panic := by
  decide
/-- negative length with |len| > offset: wraps high, explicit bounds error -/
example : resolve 70000 0 [(kShmOffset, [53]), (kShmLength, [45, 57])] = .oob := by decide
/-- `+5` is a malformed offset (ParseUint) but a fine length (Atoi) -/
example : resolve 70000 0 [(kShmOffset, [43, 53]), (kShmLength, [53])] = .badOffset := by decide
example : resolve 70000 0 [(kShmOffset, [53]), (kShmLength, [43, 53])] = .ok 5 10 := by decide
/-- 2^64 does not parse as an offset; 2^64-1 does and is refused by the bounds code (wrap) -/
example : parseUint64 (fmtDec two64) = none := by
  rw [parseUint64, digitsVal_fmtDec]; simp
example : readBounds 70000 (two64 - 1) 2 = .panic := by decide
example : readBounds 70000 (two64 - 10) 20 = .panic := by decide
/-- missing length key = empty string = error -/
example : resolve 70000 0 [(kShmOffset, [53])] = .badLength := by decide
/-- log batches and non-empty batches are not pointers -/
example : resolve 70000 0 [(kShmOffset, [53]), (kLogLevel, [73])] = .notPointer := by decide
example : resolve 70000 3 [(kShmOffset, [53]), (kShmLength, [53])] = .notPointer := by decide

/-- a reachable state with two live batches, one freed slot reused: invariant instantiated -/
example :
    let st := ([.write .plain 4100 [1, 2, 3, 4, 5, 6, 7, 8], .write .plain 4100 [9, 9, 9],
                .free 65536, .write .plain 4100 [7, 7]] : List ShmBatch.Op).foldl stepOp (St.create 8192)
    st.seg.table = [(65536, 2), (65544, 3)] ∧ st.live = [(65536, [7, 7]), (65544, [9, 9, 9])] ∧
    Mem.read st.mem 65544 65547 = [9, 9, 9] ∧ Mem.read st.mem 65536 65538 = [7, 7] := by
  decide

/-- the write hypothesis of `emitted_pointer_resolves` is satisfiable, with the stripped layout -/
example : (write (St.create 8192) .top 4200 (sampleSchemaMsg ++ [1, 2, 3] ++ eos)).2 = .ok 65536 3 := by
  decide
example : (pointerMeta 65536 3 [([107], [118]), ([107], [119]), (kShmOffset, [49])]).map Prod.fst
    = [kShmOffset, kShmLength, [107]] := by decide

end Vgi.Props.C35
