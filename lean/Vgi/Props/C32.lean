import Vgi.Model.RangeFetch
/-!
# C32 — Parallel range fetches terminate with the exact resource or an error

Theorems about `Vgi.RangeFetch` (model of `FetchWithParallelRangeRequests`). A *schedule* is a
list of actions; each action picks which in-flight attempt is received next, what the server
answered to it (a `206` with any prefix of the range, a `200` with any prefix of the whole body,
or a failure), and the outcome of the time-dependent hedging tests. Every theorem quantifies
over all resources, all configurations (chunk sizes, hedge budgets, hedging on/off) and all
schedules of any length.
-/
namespace Vgi.Props.C32
open Vgi Vgi.RangeFetch

def countNone (l : List (Option Bytes)) : Nat := l.countP (·.isNone)
def countFalse (l : List Bool) : Nat := l.countP (!·)

/-- Work still possible: attempts in flight plus chunks that have not used their one hedge. -/
def measure (s : St) : Nat := s.inflight.length + countFalse s.hedged

/-- The loop invariant. `exp` is the heart of deadlock freedom: the Go counter `expected` equals
the number of attempts really in flight. -/
structure Inv (p : Params) (s : St) : Prop where
  lenR  : s.results.length = p.n
  lenH  : s.hedged.length = p.n
  exp   : s.expected = s.inflight.length
  rem   : s.remaining = countNone s.results
  exact : ∀ i d, s.results[i]? = some (some d) → d = chunkRange p.res p.cs i
  inb   : ∀ a ∈ s.inflight, a.chunk < p.n

/-! ### List lemmas -/

theorem countP_set {α : Type} (q : α → Bool) : ∀ (l : List α) (i : Nat) (v x : α),
    l[i]? = some x → q x = true → q v = false → (l.set i v).countP q + 1 = l.countP q
  | [], i, v, x, h, _, _ => by simp at h
  | a :: l, 0, v, x, h, hx, hv => by
    simp at h; subst h
    simp [List.countP_cons, hx, hv]
  | a :: l, i + 1, v, x, h, hx, hv => by
    simp at h
    have := countP_set q l i v x h hx hv
    simp only [List.set_cons_succ, List.countP_cons]
    omega

theorem getD_false_get {l : List Bool} {i : Nat} (hi : i < l.length) (h : l.getD i false = false) :
    l[i]? = some false := by
  rw [List.getD_eq_getElem?_getD] at h
  rw [List.getElem?_eq_getElem hi] at h ⊢
  simpa using h

theorem not_stored_get {s : St} {i : Nat} (hi : i < s.results.length) (h : stored s i = false) :
    s.results[i]? = some none := by
  unfold stored at h
  rw [List.getD_eq_getElem?_getD] at h
  rw [List.getElem?_eq_getElem hi] at h ⊢
  cases hx : s.results[i] with
  | none => rfl
  | some d => simp [hx] at h

theorem stored_get {s : St} {i : Nat} (h : stored s i = true) :
    ∃ d, s.results[i]? = some (some d) := by
  unfold stored at h
  rw [List.getD_eq_getElem?_getD] at h
  cases hx : s.results[i]? with
  | none => simp [hx] at h
  | some o =>
    cases o with
    | none => simp [hx] at h
    | some d => exact ⟨d, rfl⟩

/-! ### One attempt: an accepted answer is exactly the requested range -/

theorem take_len_eq {l : Bytes} {k : Nat} (h : (l.take k).length = l.length) : l.take k = l := by
  apply List.take_of_length_le
  simp at h
  omega

theorem chunk_whole {res : Bytes} {cs i : Nat} (h : (chunkRange res cs i).length = res.length) :
    chunkRange res cs i = res := by
  unfold chunkRange at h ⊢
  by_cases hr : res = []
  · subst hr; simp
  · have hpos : 0 < res.length := List.length_pos_iff.mpr hr
    have hl : min cs (res.length - i * cs) = res.length := by
      simpa [List.length_take, List.length_drop] using h
    generalize i * cs = a at *
    have h0 : a = 0 := by omega
    have hc : res.length ≤ cs := by omega
    subst h0
    simp [List.take_of_length_le hc]

/-- **attempt_exact**: whatever the server answers (any prefix length, `206` or `200`), a body
that `fetchChunk` accepts is exactly the bytes of the requested range. -/
theorem attempt_exact (res : Bytes) (cs i : Nat) (r : Resp) (d : Bytes)
    (h : attemptResult res cs i r = some d) : d = chunkRange res cs i := by
  cases r with
  | fail => simp [attemptResult] at h
  | partial206 k =>
    simp only [attemptResult] at h
    split at h
    · rename_i hl
      cases h
      exact take_len_eq hl
    · cases h
  | whole200 k =>
    simp only [attemptResult] at h
    split at h
    · cases h
    · rename_i hne
      split at h
      · rename_i hl
        cases h
        have hw : (chunkRange res cs i).length = res.length := by
          simpa using hne
        rw [chunk_whole hw] at hl ⊢
        exact take_len_eq hl
      · cases h

/-! ### Hedging preserves the invariant and the measure -/

/-- What a call of `maybeHedge` may change: it launches `k ≥ 0` hedges, each for a chunk that
had not been hedged, and touches nothing else. -/
structure HedgeRel (bound : Nat) (s s' : St) : Prop where
  res  : s'.results = s.results
  rem  : s'.remaining = s.remaining
  ferr : s'.firstErr = s.firstErr
  lenH : s'.hedged.length = s.hedged.length
  cnt  : ∃ k, s'.expected = s.expected + k ∧ s'.inflight.length = s.inflight.length + k ∧
           countFalse s'.hedged + k = countFalse s.hedged
  inb  : ∀ a ∈ s'.inflight, a ∈ s.inflight ∨ a.chunk < bound
  keep : ∀ a ∈ s.inflight, a ∈ s'.inflight

theorem HedgeRel.refl (bound : Nat) (s : St) : HedgeRel bound s s :=
  ⟨rfl, rfl, rfl, rfl, ⟨0, rfl, rfl, rfl⟩, fun _ h => Or.inl h, fun _ h => h⟩

theorem hedgeScan_rel (maxHedges : Int) (slow : List Nat) (bound : Nat) :
    ∀ (todo : List Nat) (s : St), (∀ i ∈ todo, i < bound) → s.hedged.length = bound →
      HedgeRel bound s (hedgeScan maxHedges slow todo s)
  | [], s, _, _ => by simpa [hedgeScan] using HedgeRel.refl bound s
  | i :: rest, s, hb, hl => by
    have hrest : ∀ x ∈ rest, x < bound := fun x hx => hb x (by simp [hx])
    simp only [hedgeScan]
    split
    · exact hedgeScan_rel maxHedges slow bound rest s hrest hl
    · rename_i hskip
      split
      · exact HedgeRel.refl bound s
      · split
        · -- hedge chunk i
          have hi : i < s.hedged.length := by rw [hl]; exact hb i (by simp)
          have hnh : s.hedged.getD i false = false := by
            cases hh : s.hedged.getD i false with
            | false => rfl
            | true => rw [hh] at hskip; simp at hskip
          have hget := getD_false_get hi hnh
          have hc : countFalse (s.hedged.set i true) + 1 = countFalse s.hedged :=
            countP_set (fun b => !b) s.hedged i true false hget rfl rfl
          have ih := hedgeScan_rel maxHedges slow bound rest
            { s with hedged := s.hedged.set i true, expected := s.expected + 1,
                     inflight := s.inflight ++ [⟨i, true⟩] } hrest (by simp [hl])
          obtain ⟨k, h1, h2, h3⟩ := ih.cnt
          refine ⟨ih.res, ih.rem, ih.ferr, by simpa using ih.lenH, ⟨k + 1, ?_, ?_, ?_⟩, ?_, ?_⟩
          · simp at h1; omega
          · simp at h2; omega
          · simp at h3; omega
          · intro a ha
            rcases ih.inb a ha with h | h
            · simp at h
              rcases h with h | h
              · exact Or.inl h
              · right; subst h; exact hb i (by simp)
            · exact Or.inr h
          · intro a ha
            exact ih.keep a (by simp [ha])
        · exact hedgeScan_rel maxHedges slow bound rest s hrest hl

theorem maybeHedge_rel (p : Params) (enough : Bool) (slow : List Nat) (s : St)
    (hl : s.hedged.length = p.n) : HedgeRel p.n s (maybeHedge p enough slow s) := by
  unfold maybeHedge
  split
  · exact HedgeRel.refl _ s
  · split
    · exact HedgeRel.refl _ s
    · split
      · exact HedgeRel.refl _ s
      · exact hedgeScan_rel p.maxHedges slow p.n (List.range p.n) s
          (fun i hi => by simpa using hi) hl

theorem inv_of_hedgeRel {p : Params} {s s' : St} (h : Inv p s) (r : HedgeRel p.n s s') :
    Inv p s' ∧ measure s' = measure s := by
  obtain ⟨k, h1, h2, h3⟩ := r.cnt
  refine ⟨⟨by rw [r.res]; exact h.lenR, by rw [r.lenH]; exact h.lenH, ?_, by rw [r.rem, r.res]; exact h.rem,
    by rw [r.res]; exact h.exact, ?_⟩, ?_⟩
  · have := h.exp; omega
  · intro a ha
    rcases r.inb a ha with hh | hh
    · exact h.inb a hh
    · exact hh
  · unfold measure; omega

/-! ### One loop iteration -/

/-- What one received result does, for every action: the invariant is kept, the measure drops by
exactly one, stored chunks are never replaced, and a failure for a chunk that is already stored
changes nothing but the in-flight set. -/
theorem step_spec (p : Params) (s s' : St) (a : Act) (h : Inv p s) (hs : step p s a = some s') :
    Inv p s' ∧ measure s' + 1 = measure s ∧
    (∀ (i : Nat) (d : Bytes), s.results[i]? = some (some d) → s'.results[i]? = some (some d)) ∧
    (∀ b ∈ s.inflight, b ∈ s'.inflight ∨ s.inflight[a.j]? = some b) := by
  unfold step at hs
  split at hs
  · cases hs
  · cases hatt : s.inflight[a.j]? with
    | none => simp [hatt] at hs
    | some att =>
      simp only [hatt] at hs
      have hj : a.j < s.inflight.length := by
        rcases List.getElem?_eq_some_iff.mp hatt with ⟨hlt, _⟩
        exact hlt
      have hmem : att ∈ s.inflight := List.mem_of_getElem? hatt
      have hchunk : att.chunk < p.n := h.inb att hmem
      have hlen1 : (s.inflight.eraseIdx a.j).length + 1 = s.inflight.length := by
        rw [List.length_eraseIdx]; simp [hj]; omega
      -- the state after the receive and `expected--`
      have inv1 : Inv p { s with inflight := s.inflight.eraseIdx a.j, expected := s.expected - 1 } :=
        ⟨h.lenR, h.lenH, by have := h.exp; simp; omega, h.rem, h.exact,
          fun b hb => h.inb b (List.mem_of_mem_eraseIdx hb)⟩
      have m1 : measure { s with inflight := s.inflight.eraseIdx a.j, expected := s.expected - 1 } + 1
          = measure s := by
        unfold measure; simp; omega
      have keep1 : ∀ b ∈ s.inflight, b ∈ s.inflight.eraseIdx a.j ∨ some att = some b := by
        intro b hb
        rcases List.getElem?_of_mem hb with ⟨k, hk⟩
        by_cases hkj : k = a.j
        · right; rw [← hatt, ← hkj]; exact hk
        · left; exact List.mem_eraseIdx_iff_getElem?.mpr ⟨k, hkj, hk⟩
      cases hres : attemptResult p.res p.cs att.chunk a.resp with
      | none =>
        simp only [hres] at hs
        split at hs
        · cases hs
          exact ⟨inv1, m1, fun _ _ hh => hh, keep1⟩
        · cases hs
          refine ⟨⟨inv1.lenR, inv1.lenH, inv1.exp, inv1.rem, inv1.exact, inv1.inb⟩, m1,
            fun _ _ hh => hh, keep1⟩
      | some data =>
        simp only [hres] at hs
        have hdata := attempt_exact p.res p.cs att.chunk a.resp data hres
        -- s2: store unless already stored
        generalize hs2 :
          (if stored { s with inflight := s.inflight.eraseIdx a.j, expected := s.expected - 1 } att.chunk = true
            then ({ s with inflight := s.inflight.eraseIdx a.j, expected := s.expected - 1 } : St)
            else { s with inflight := s.inflight.eraseIdx a.j, expected := s.expected - 1,
                          results := s.results.set att.chunk (some data),
                          remaining := s.remaining - 1 }) = s2 at hs
        have inv2 : Inv p s2 ∧ measure s2 + 1 = measure s ∧
            (∀ (i : Nat) (d : Bytes), s.results[i]? = some (some d) → s2.results[i]? = some (some d)) ∧
            s2.inflight = s.inflight.eraseIdx a.j := by
          by_cases hst : stored { s with inflight := s.inflight.eraseIdx a.j, expected := s.expected - 1 } att.chunk = true
          · simp only [hst, if_true] at hs2
            subst hs2
            exact ⟨inv1, m1, fun _ _ hh => hh, rfl⟩
          · simp only [hst] at hs2
            subst hs2
            have hst' : stored s att.chunk = false := by
              simpa [stored] using hst
            have hget := not_stored_get (by rw [h.lenR]; exact hchunk) hst'
            have hc : countNone (s.results.set att.chunk (some data)) + 1 = countNone s.results := by
              unfold countNone
              exact countP_set _ s.results att.chunk (some data) none hget rfl rfl
            refine ⟨⟨by simp [h.lenR], h.lenH, by have := h.exp; simp; omega, ?_, ?_,
              fun b hb => h.inb b (List.mem_of_mem_eraseIdx hb)⟩, ?_, ?_, rfl⟩
            · have := h.rem; (try simp); omega
            · intro i d hid
              replace hid : (s.results.set att.chunk (some data))[i]? = some (some d) := hid
              simp only [List.getElem?_set] at hid
              by_cases hic : att.chunk = i
              · subst hic
                simp [h.lenR, hchunk] at hid
                rw [← hid]; exact hdata
              · simp [hic] at hid
                exact h.exact i d hid
            · unfold measure; (try simp); omega
            · intro i d hid
              show (s.results.set att.chunk (some data))[i]? = some (some d)
              simp only [List.getElem?_set]
              by_cases hic : att.chunk = i
              · subst hic; rw [hget] at hid; cases hid
              · simp [hic, hid]
        obtain ⟨i2, m2, st2, infl2⟩ := inv2
        split at hs
        · cases hs
          have r := maybeHedge_rel p a.enough a.slow s2 i2.lenH
          have ⟨i3, m3⟩ := inv_of_hedgeRel i2 r
          refine ⟨i3, by omega, ?_, ?_⟩
          · intro i d hid; rw [r.res]; exact st2 i d hid
          · intro b hb
            rcases keep1 b hb with hk | hk
            · left; apply r.keep; rw [infl2]; exact hk
            · right; exact hk
        · cases hs
          refine ⟨i2, m2, st2, ?_⟩
          intro b hb
          rw [infl2]
          exact keep1 b hb

/-! ### Runs -/

theorem init_inv (p : Params) : Inv p (init p.n) := by
  refine ⟨by simp [init], by simp [init], by simp [init], ?_, ?_, ?_⟩
  · simp [init, countNone, List.countP_replicate]
  · intro i d hid
    simp [init, List.getElem?_replicate] at hid
  · intro a ha
    simp [init] at ha
    obtain ⟨i, hi, rfl⟩ := ha
    exact hi

theorem init_measure (n : Nat) : measure (init n) = 2 * n := by
  simp [measure, init, countFalse, List.countP_replicate]
  omega

theorem run_spec (p : Params) : ∀ (acts : List Act) (s s' : St), Inv p s → run p s acts = some s' →
    Inv p s' ∧ measure s' + acts.length = measure s ∧
    (∀ (i : Nat) (d : Bytes), s.results[i]? = some (some d) → s'.results[i]? = some (some d))
  | [], s, s', h, hr => by
    simp [run] at hr; subst hr; exact ⟨h, by simp, fun _ _ hh => hh⟩
  | a :: as, s, s', h, hr => by
    simp only [run] at hr
    cases hst : step p s a with
    | none => simp [hst] at hr
    | some s1 =>
      simp only [hst] at hr
      have ⟨i1, m1, k1, _⟩ := step_spec p s s1 a h hst
      have ⟨i2, m2, k2⟩ := run_spec p as s1 s' i1 hr
      exact ⟨i2, by simp; omega, fun i d hid => k2 i d (k1 i d hid)⟩

/-- **terminates**: from the start of the loop, no schedule — whatever the server answers,
whatever the interleaving, however hedges are launched — makes the loop receive more than
`2·numChunks` results (one initial attempt and at most one hedge per chunk). -/
theorem terminates (p : Params) (acts : List Act) (s : St)
    (hr : run p (init p.n) acts = some s) : acts.length ≤ 2 * p.n := by
  have ⟨_, m, _⟩ := run_spec p acts (init p.n) s (init_inv p) hr
  rw [init_measure] at m
  omega

/-- **never_waits_idle** (deadlock freedom): in every reachable state in which the loop is still
waiting on `resultCh`, at least one attempt is in flight, and the result of ANY in-flight
attempt — whatever the server answered — is accepted by the loop (the step is enabled). So the
loop can only wait for something that is really coming. -/
theorem never_waits_idle (p : Params) (acts : List Act) (s : St)
    (hr : run p (init p.n) acts = some s) (hrun : running s = true) :
    0 < s.inflight.length ∧
    ∀ (j : Nat) (r : Resp) (e : Bool) (sl : List Nat), j < s.inflight.length →
      (step p s ⟨j, r, e, sl⟩).isSome = true := by
  have ⟨i, _, _⟩ := run_spec p acts (init p.n) s (init_inv p) hr
  have hexp := i.exp
  simp [running] at hrun
  refine ⟨by omega, ?_⟩
  intro j r e sl hj
  unfold step
  have hr' : running s = true := by simp [running, hrun]
  simp only [hr', Bool.not_true, Bool.false_eq_true, if_false]
  rw [List.getElem?_eq_getElem hj]
  simp only
  split
  · split <;> simp
  · split <;> split <;> simp

theorem assemble_exact (res : Bytes) (cs : Nat) : ∀ (l : List (Option Bytes)) (k : Nat) (bs : Bytes),
    (∀ i d, l[i]? = some (some d) → d = chunkRange res cs (k + i)) →
    assemble l = some bs → bs = (res.drop (k * cs)).take (l.length * cs)
  | [], k, bs, _, h => by simp [assemble] at h; simp [h]
  | none :: r, k, bs, _, h => by simp [assemble] at h
  | some d :: r, k, bs, hx, h => by
    simp only [assemble] at h
    cases hr : assemble r with
    | none => simp [hr] at h
    | some bs' =>
      simp [hr] at h
      subst h
      have hd : d = chunkRange res cs k := by
        have := hx 0 d (by simp)
        simpa using this
      have ih := assemble_exact res cs r (k + 1) bs'
        (fun i d' hid => by
          have := hx (i + 1) d' (by simpa using hid)
          rw [this]; congr 1; omega) hr
      rw [hd, ih]
      unfold chunkRange
      have e1 : (k + 1) * cs = k * cs + cs := Nat.succ_mul k cs
      have e2 : (r.length + 1) * cs = cs + r.length * cs := by rw [Nat.succ_mul]; omega
      simp only [List.length_cons]
      rw [e1, e2, List.take_add, List.drop_drop]

theorem numChunks_covers (len cs : Nat) (hcs : 0 < cs) : len ≤ numChunks len cs * cs := by
  unfold numChunks
  have h1 := Nat.div_add_mod (len + cs - 1) cs
  have h2 := Nat.mod_lt (len + cs - 1) hcs
  rw [Nat.mul_comm]
  generalize cs * ((len + cs - 1) / cs) = t at *
  omega

/-- **exact_or_error**: for every resource, every positive chunk size, every hedging setting and
every schedule, if the function returns bytes then they are exactly the resource. -/
theorem exact_or_error (p : Params) (acts : List Act) (s : St) (bs : Bytes)
    (hcover : p.res.length ≤ p.n * p.cs)
    (hr : run p (init p.n) acts = some s) (hf : finish s = some bs) : bs = p.res := by
  have ⟨i, _, _⟩ := run_spec p acts (init p.n) s (init_inv p) hr
  have := assemble_exact p.res p.cs s.results 0 bs (fun k d hk => by simpa using i.exact k d hk) hf
  rw [this, i.lenR]
  simp
  exact List.take_of_length_le hcover

/-- The parameters the Go function derives from its configuration and the probed length. -/
def paramsOf (c : Cfg) (res : Bytes) : Params :=
  { res := res, cs := chunkSizeOf c, n := numChunks res.length (chunkSizeOf c),
    hedging := c.hedging, maxHedges := c.maxHedges }

theorem chunkSize_pos (c : Cfg) : 0 < chunkSizeOf c := by
  unfold chunkSizeOf defaultChunkSize
  split
  · decide
  · omega

/-- **fetch_exact_or_error**: the same for the parameters the function really uses, for EVERY
configuration — including zero or negative chunk sizes and hedge budgets. -/
theorem fetch_exact_or_error (c : Cfg) (res : Bytes) (acts : List Act) (s : St) (bs : Bytes)
    (hr : run (paramsOf c res) (init (paramsOf c res).n) acts = some s)
    (hf : finish s = some bs) : bs = res :=
  exact_or_error (paramsOf c res) acts s bs
    (numChunks_covers res.length (chunkSizeOf c) (chunkSize_pos c)) hr hf

/-- **plan_parallel_sound**: when the probe chooses the parallel path, the chunk size is positive,
there is at least one chunk, the chunks cover the content and every chunk is non-empty. -/
theorem plan_parallel_sound (c : Cfg) (headOk ranges : Bool) (len : Int) (n cs : Nat)
    (h : plan c headOk len ranges = .parallel n cs) :
    0 < cs ∧ 0 < len ∧ len ≤ c.maxFetch ∧ c.threshold ≤ len ∧
    n = numChunks len.toNat cs ∧ len.toNat ≤ n * cs ∧ (n - 1) * cs < len.toNat := by
  unfold plan at h
  split at h
  · cases h
  · split at h
    · cases h
    · rename_i hno
      split at h
      · cases h
      · rename_i hfit
        simp only [Plan.parallel.injEq] at h
        obtain ⟨hn, hc⟩ := h
        have hpos := chunkSize_pos c
        rw [hc] at hn hpos
        have hcov := numChunks_covers len.toNat cs hpos
        rw [hn] at hcov
        refine ⟨hpos, by omega, by omega, by omega, hn.symm, hcov, ?_⟩
        -- every chunk is non-empty: (n-1)*cs < len
        subst hn
        unfold numChunks
        have h1 := Nat.div_add_mod (len.toNat + cs - 1) cs
        have h2 := Nat.mod_lt (len.toNat + cs - 1) hpos
        have hlen : 0 < len.toNat := by omega
        have hq : 0 < (len.toNat + cs - 1) / cs := Nat.div_pos (by omega) hpos
        have e : ((len.toNat + cs - 1) / cs - 1) * cs + cs = cs * ((len.toNat + cs - 1) / cs) := by
          rw [Nat.mul_comm cs]
          have : (len.toNat + cs - 1) / cs = ((len.toNat + cs - 1) / cs - 1) + 1 := by omega
          rw [this, Nat.succ_mul]
          simp
        omega

/-- **simple_exact**: the fallback path returns the body it received or an error. -/
theorem simple_exact (maxFetch : Int) (status : Nat) (body b : Bytes)
    (h : fetchSimple maxFetch status body = some b) : b = body ∧ status = 200 := by
  unfold fetchSimple at h
  split at h
  · cases h
  · split at h
    · cases h
    · cases h; exact ⟨rfl, by omega⟩

/-! ### Hedged duplicates never change the result -/

/-- **stored_stable**: once a chunk is stored, no later result — duplicate success, duplicate
failure, hedge or original — ever replaces it. -/
theorem stored_stable (p : Params) (acts1 acts2 : List Act) (s1 s2 : St) (i : Nat) (d : Bytes)
    (h1 : run p (init p.n) acts1 = some s1) (h2 : run p s1 acts2 = some s2)
    (hst : s1.results[i]? = some (some d)) : s2.results[i]? = some (some d) := by
  have ⟨i1, _, _⟩ := run_spec p acts1 (init p.n) s1 (init_inv p) h1
  have ⟨_, _, k⟩ := run_spec p acts2 s1 s2 i1 h2
  exact k i d hst

/-- **late_failure_ignored**: a failed attempt (hedge or original) for a chunk that is already
stored neither records an error nor changes any result or the remaining count. -/
theorem late_failure_ignored (p : Params) (s s' : St) (a : Act) (att : Att)
    (hatt : s.inflight[a.j]? = some att) (hst : stored s att.chunk = true)
    (hfail : attemptResult p.res p.cs att.chunk a.resp = none) (hs : step p s a = some s') :
    s'.results = s.results ∧ s'.remaining = s.remaining ∧ s'.firstErr = s.firstErr ∧
    s'.hedged = s.hedged := by
  unfold step at hs
  split at hs
  · cases hs
  · simp only [hatt, hfail] at hs
    have : stored { s with inflight := s.inflight.eraseIdx a.j, expected := s.expected - 1 } att.chunk
        = true := by simpa [stored] using hst
    simp only [this, if_true] at hs
    cases hs
    exact ⟨rfl, rfl, rfl, rfl⟩

/-- **result_unique** (hedges are irrelevant to the value): any two complete runs — with
different schedules, different hedging decisions, hedging on or off, different budgets — that
both return bytes return the same bytes. -/
theorem result_unique (res : Bytes) (cs n : Nat) (hcover : res.length ≤ n * cs)
    (h1 h2 : Bool) (m1 m2 : Int) (acts1 acts2 : List Act) (s1 s2 : St) (b1 b2 : Bytes)
    (r1 : run ⟨res, cs, n, h1, m1⟩ (init n) acts1 = some s1)
    (r2 : run ⟨res, cs, n, h2, m2⟩ (init n) acts2 = some s2)
    (f1 : finish s1 = some b1) (f2 : finish s2 = some b2) : b1 = b2 := by
  have e1 := exact_or_error ⟨res, cs, n, h1, m1⟩ acts1 s1 b1 hcover r1 f1
  have e2 := exact_or_error ⟨res, cs, n, h2, m2⟩ acts2 s2 b2 hcover r2 f2
  simp at e1 e2
  rw [e1, e2]

/-! ### With a server that answers every request in full, the result is the resource -/

theorem assemble_some_of_all (l : List (Option Bytes)) (h : countNone l = 0) :
    ∃ bs, assemble l = some bs := by
  induction l with
  | nil => exact ⟨[], rfl⟩
  | cons o r ih =>
    cases o with
    | none => simp [countNone] at h
    | some d =>
      have : countNone r = 0 := by simpa [countNone, List.countP_cons] using h
      obtain ⟨bs, hb⟩ := ih this
      exact ⟨d ++ bs, by simp [assemble, hb]⟩

/-- Every chunk is stored or still has an attempt in flight. -/
def Covered (p : Params) (s : St) : Prop :=
  ∀ i, i < p.n → stored s i = true ∨ ∃ a ∈ s.inflight, a.chunk = i

theorem stored_of_get {s : St} {i : Nat} {d : Bytes} (h : s.results[i]? = some (some d)) :
    stored s i = true := by
  unfold stored
  rw [List.getD_eq_getElem?_getD, h]
  rfl

theorem step_covered (p : Params) (s s' : St) (a : Act) (h : Inv p s) (hc : Covered p s)
    (hok : ∀ att, s.inflight[a.j]? = some att → (attemptResult p.res p.cs att.chunk a.resp).isSome)
    (hs : step p s a = some s') : Covered p s' := by
  have ⟨_, _, keepR, keepI⟩ := step_spec p s s' a h hs
  intro i hi
  rcases hc i hi with hst | ⟨b, hb, hbi⟩
  · obtain ⟨d, hd⟩ := stored_get hst
    exact Or.inl (stored_of_get (keepR i d hd))
  · rcases keepI b hb with hk | hk
    · exact Or.inr ⟨b, hk, hbi⟩
    · -- the received attempt was b itself: chunk i is stored now
      left
      have hsome := hok b hk
      unfold step at hs
      split at hs
      · cases hs
      · simp only [hk] at hs
        cases hres : attemptResult p.res p.cs b.chunk a.resp with
        | none => simp [hres] at hsome
        | some data =>
          simp only [hres] at hs
          -- after the store step the chunk is stored; hedging keeps results
          have key : ∀ s2 : St, (s2 = (if stored { s with inflight := s.inflight.eraseIdx a.j, expected := s.expected - 1 } b.chunk = true
                then ({ s with inflight := s.inflight.eraseIdx a.j, expected := s.expected - 1 } : St)
                else { s with inflight := s.inflight.eraseIdx a.j, expected := s.expected - 1,
                              results := s.results.set b.chunk (some data),
                              remaining := s.remaining - 1 })) → stored s2 b.chunk = true := by
            intro s2 h2
            by_cases hst : stored { s with inflight := s.inflight.eraseIdx a.j, expected := s.expected - 1 } b.chunk = true
            · simp only [hst, if_true] at h2; subst h2; exact hst
            · simp only [hst] at h2
              subst h2
              have hlt : b.chunk < s.results.length := by rw [h.lenR]; exact h.inb b hb
              apply stored_of_get (d := data)
              simp [List.getElem?_set, hlt]
          generalize hs2 :
            (if stored { s with inflight := s.inflight.eraseIdx a.j, expected := s.expected - 1 } b.chunk = true
              then ({ s with inflight := s.inflight.eraseIdx a.j, expected := s.expected - 1 } : St)
              else { s with inflight := s.inflight.eraseIdx a.j, expected := s.expected - 1,
                            results := s.results.set b.chunk (some data),
                            remaining := s.remaining - 1 }) = s2 at hs
          have hst2 : stored s2 b.chunk = true := key s2 hs2.symm
          have hl2 : s2.hedged.length = p.n := by
            rw [← hs2]; split <;> simp [h.lenH]
          by_cases hpos : s2.remaining > 0
          · simp only [hpos, if_true] at hs
            cases hs
            have r := maybeHedge_rel p a.enough a.slow s2 hl2
            rw [← hbi]
            unfold stored at hst2 ⊢
            rw [r.res]; exact hst2
          · simp only [hpos, if_false] at hs
            cases hs
            rw [← hbi]; exact hst2

/-- **honest_server_succeeds**: if every received answer is acceptable (the server returns each
requested range in full), then whenever the loop has ended — under any schedule and any hedging —
the function returns the resource, not an error. -/
theorem honest_server_succeeds (p : Params) (hcover : p.res.length ≤ p.n * p.cs) :
    ∀ (acts : List Act) (s s' : St), Inv p s → Covered p s →
      (∀ a ∈ acts, ∀ i, i < p.n → (attemptResult p.res p.cs i a.resp).isSome) →
      run p s acts = some s' → running s' = false → finish s' = some p.res
  | [], s, s', h, hc, _, hr, hend => by
    simp [run] at hr; subst hr
    have hrem : s.remaining = 0 := by
      simp [running] at hend
      by_cases h0 : s.remaining = 0
      · exact h0
      · have hexp : s.expected = 0 := by omega
        have hinf : s.inflight = [] := by
          have := h.exp; rw [hexp] at this
          exact List.length_eq_zero_iff.mp this.symm
        -- every chunk is stored, so nothing remains
        have hall : ∀ i, i < p.n → stored s i = true := by
          intro i hi
          rcases hc i hi with hst | ⟨b, hb, _⟩
          · exact hst
          · simp [hinf] at hb
        have hz : countNone s.results = 0 := by
          unfold countNone
          rw [List.countP_eq_zero]
          intro o ho
          rcases List.getElem?_of_mem ho with ⟨k, hk⟩
          have hklt : k < p.n := by
            rw [← h.lenR]
            rcases List.getElem?_eq_some_iff.mp hk with ⟨hlt, _⟩
            exact hlt
          obtain ⟨d, hd⟩ := stored_get (hall k hklt)
          rw [hk] at hd
          cases hd
          simp
        have := h.rem; omega
    have hz : countNone s.results = 0 := by have := h.rem; omega
    obtain ⟨bs, hb⟩ := assemble_some_of_all s.results hz
    have := assemble_exact p.res p.cs s.results 0 bs (fun k d hk => by simpa using h.exact k d hk) hb
    unfold finish
    rw [hb, this, h.lenR]
    simp
    exact List.take_of_length_le hcover
  | a :: as, s, s', h, hc, hok, hr, hend => by
    simp only [run] at hr
    cases hst : step p s a with
    | none => simp [hst] at hr
    | some s1 =>
      simp only [hst] at hr
      have ⟨i1, _, _, _⟩ := step_spec p s s1 a h hst
      have c1 := step_covered p s s1 a h hc
        (fun att hatt => hok a (by simp) att.chunk (h.inb att (List.mem_of_getElem? hatt))) hst
      exact honest_server_succeeds p hcover as s1 s' i1 c1
        (fun b hb => hok b (by simp [hb])) hr hend

theorem init_covered (p : Params) : Covered p (init p.n) := by
  intro i hi
  right
  exact ⟨⟨i, false⟩, by simp [init]; exact hi, rfl⟩

/-! ### Non-vacuity: concrete runs of the same definitions -/

def demoRes : Bytes := [10, 11, 12, 13, 14, 15, 16, 17, 18, 19]
def demoP : Params := { res := demoRes, cs := 4, n := 3, hedging := true, maxHedges := 2 }

/-- chunk 2 fails first, chunks 0 and 1 arrive, chunk 2 is hedged and the hedge succeeds. -/
def demoActs : List Act :=
  [⟨2, .fail, false, []⟩, ⟨0, .partial206 4, false, []⟩, ⟨0, .partial206 9, true, [2]⟩,
   ⟨0, .partial206 2, false, []⟩]

example : (run demoP (init 3) demoActs).map finish = some (some demoRes) := by decide
example : numChunks demoRes.length 4 = 3 := by decide

/-- a short 206 and a whole-body 200 are both refused; with no hedge the loop ends with an error
instead of waiting (the state `remaining > 0 ∧ expected = 0` is left, not waited in). -/
example : (run { demoP with hedging := false } (init 3)
    [⟨0, .partial206 3, false, []⟩, ⟨0, .whole200 10, false, []⟩, ⟨0, .partial206 2, false, []⟩]).map
      (fun s => (running s, finish s, s.firstErr)) = some (false, none, true) := by decide

example : plan ⟨4, 0, 0, 100, true, 4⟩ true 10 true = .parallel 1 8388608 := by decide
example : plan ⟨4, 4, 2, 100, true, 4⟩ true 10 true = .parallel 3 4 := by decide

end Vgi.Props.C32
