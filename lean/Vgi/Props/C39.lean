import Vgi.Model.AccessLogEmit
/-!
# C39 — Access-log sampling and async emission lose nothing silently

Theorems about `Vgi.AccessLogEmit` (model of `accesslog_sample.go`, `accesslog_async.go` and
`AccessLogHook.emit`). Sampler theorems hold for every sampler state (any rate bits, any
threshold, any fallback counter) and every record. Async theorems hold for every capacity and
every schedule (`List Act`) of enqueuers, the writer goroutine and close.
-/
namespace Vgi.Props.C39
open Vgi Vgi.AccessLogEmit

/-! ## Sampling -/

/-- **errors_kept**: an error record is always kept, whatever the rate, threshold and counter;
the sampler does not touch it. -/
theorem errors_kept (s : Sampler) (r : Rec) (he : isError r = true) :
    (keep s r).1 = true ∧ (keep s r).2.2 = r := by
  unfold keep
  by_cases h1 : f64GeOne s.rateBits = true
  · simp [h1]
  · simp [h1, he]

/-- The decision for a record that has an identifier depends only on the identifier, the rate
bits and the threshold. -/
theorem keep_ident (s : Sampler) (r : Rec) (k : Bytes) (hn : isError r = false)
    (hk : identOf r = some k) :
    (keep s r).1 = (f64GeOne s.rateBits || decide (fnv1a32 k ≤ s.threshold)) := by
  unfold keep key
  by_cases h1 : f64GeOne s.rateBits = true
  · simp [h1]
  · simp only [h1, hn, hk]
    by_cases h2 : fnv1a32 k > s.threshold
    · simp [h2] <;> omega
    · simp [h2] <;> omega

/-- **same_key_same_fate**: two non-error records sharing their stream id (or, absent one, their
request id) get the same decision from the same sampler configuration — at any two moments
(the fallback counter may differ), for any rate and threshold, and whatever else the two
records carry (`extra`: trace_id, span_id, method, principal, … may all differ). -/
theorem same_key_same_fate (s₁ s₂ : Sampler) (r₁ r₂ : Rec) (k : Bytes)
    (hcfg : s₁.rateBits = s₂.rateBits ∧ s₁.threshold = s₂.threshold)
    (h₁ : isError r₁ = false) (h₂ : isError r₂ = false)
    (hk₁ : identOf r₁ = some k) (hk₂ : identOf r₂ = some k) :
    (keep s₁ r₁).1 = (keep s₂ r₂).1 := by
  rw [keep_ident s₁ r₁ k h₁ hk₁, keep_ident s₂ r₂ k h₂ hk₂, hcfg.1, hcfg.2]

/-- A non-empty string stream id is the identifier, whatever the request id. -/
theorem ident_stream_first (r : Rec) (b : UInt8) (bs : Bytes) (h : r.streamId = .str (b :: bs)) :
    identOf r = some (b :: bs) := by
  unfold identOf; rw [h]

/-- Without a usable stream id, a non-empty string request id is the identifier. -/
theorem ident_request_second (r : Rec) (b : UInt8) (bs : Bytes)
    (hs : r.streamId = .absent ∨ r.streamId = .other ∨ r.streamId = .str [])
    (h : r.requestId = .str (b :: bs)) : identOf r = some (b :: bs) := by
  unfold identOf
  rcases hs with hs | hs | hs <;> rw [hs, h]

/-- **rate_stamped**: with sampling active (rate < 1), every kept non-error record carries the
sampler's rate; nothing else on the record changes; a dropped record is not modified. -/
theorem rate_stamped (s : Sampler) (r : Rec) (hact : f64GeOne s.rateBits = false)
    (hn : isError r = false) :
    ((keep s r).1 = true → (keep s r).2.2 = { r with sampleRate := some s.rateBits }) ∧
    ((keep s r).1 = false → (keep s r).2.2 = r) := by
  unfold keep
  simp only [hact, hn]
  by_cases h2 : fnv1a32 (key s r).1 > s.threshold
  · simp [h2]
  · simp [h2]

/-- An installed sampler is always active (`SetSampleRate` stores nil for rate ≥ 1), and an
out-of-range or NaN rate is refused. -/
theorem installed_sampler_active (h h' : Hook) (bits thr : Nat) (s : Sampler)
    (hs : setSampleRate h bits thr = some h') (hi : h'.sampler = some s) :
    f64GeOne s.rateBits = false ∧ s.rateBits = bits ∧ s.threshold = thr := by
  unfold setSampleRate at hs
  cases hn : newSampler bits thr with
  | none => simp [hn] at hs
  | some s0 =>
    simp only [hn] at hs
    unfold newSampler at hn
    split at hn
    · cases hn
    · cases hn
      by_cases hg : f64GeOne bits = true
      · simp [hg] at hs; subst hs; simp at hi
      · simp [hg] at hs; subst hs
        simp at hi; subst hi
        simp at hg
        exact ⟨hg, rfl, rfl⟩

theorem bad_rate_refused (h : Hook) (bits thr : Nat)
    (hb : f64IsNaN bits = true ∨ f64LtZero bits = true ∨ f64GtOne bits = true) :
    setSampleRate h bits thr = none := by
  unfold setSampleRate newSampler
  rcases hb with hb | hb | hb <;> simp [hb]

/-- The hook never samples out an error record: it reaches the queue or the file. -/
theorem emit_error_delivered (h : Hook) (r : Rec) (he : isError r = true) :
    emit h r =
      match h.async with
      | some a => { h with async := some (enqueue a r) }
      | none => { h with direct := h.direct ++ [r] } := by
  unfold emit
  cases hs : h.sampler with
  | none => rfl
  | some s =>
    have := errors_kept s r he
    have hk : keep s r = (true, s, r) := by
      unfold keep
      by_cases h1 : f64GeOne s.rateBits = true
      · simp [h1]
      · simp [h1, he]
    simp only [hk]
    cases h.async <;> simp [← hs]

/-! ### Non-vacuity (sampling): half-rate sampler, threshold 2^31 -/

def halfBits : Nat := 4602678819172646912      -- 0.5
def smp : Sampler := { rateBits := halfBits, threshold := 2147483647, fallback := 0 }
def mkRec (id : Nat) (st sid rid : Field) : Rec :=
  { id := id, status := st, streamId := sid, requestId := rid, sampleRate := none, dropped := 0 }
def okB : Bytes := [111, 107]

-- FNV-1a test vectors: "" and "a"
example : fnv1a32 [] = 0x811c9dc5 ∧ fnv1a32 [97] = 0xe40c292c := by decide
-- "a" hashes above the threshold: dropped; "b" (0xe70c2de5) too; "e" = 0xe00c22e0; "foobar" kept?
example : (keep smp (mkRec 1 (.str okB) (.str [97]) .absent)).1 = false := by decide
example : fnv1a32 [102, 111, 111, 98, 97, 114] = 0xbf9cf968 := by decide
-- a kept record: key "ab" → 0x4d2505ca ≤ threshold; it is stamped
example : (keep smp (mkRec 2 (.str okB) (.str [97, 98]) (.str [97]))).1 = true ∧
    (keep smp (mkRec 2 (.str okB) (.str [97, 98]) (.str [97]))).2.2.sampleRate = some halfBits := by
  decide
-- same stream id, different request ids, different moments, different trace ids: same fate
example : (keep smp { mkRec 3 (.str okB) (.str [97]) (.str [97, 98]) with
                      extra := [([116, 114, 97, 99, 101, 95, 105, 100], .str [97, 98])] }).1 =
    (keep { smp with fallback := 9 } { mkRec 4 .absent (.str [97]) .other with
                      extra := [([116, 114, 97, 99, 101, 95, 105, 100], .str [99])] }).1 := by decide
-- the error record of the dropped stream "a" is kept
example : (keep smp (mkRec 5 (.str errorBytes) (.str [97]) .absent)).1 = true := by decide
example : f64GeOne halfBits = false ∧ f64GeOne f64One = true ∧ f64GtOne f64One = false := by decide
example : base36 35 = [122] ∧ base36 36 = [49, 48] := by decide

/-! ## Async emission -/

/-- What the log must contain for an enqueue history: every accepted record, in order, the one
following a run of drops stamped with the length of that run; plus the count still pending. -/
def spec : Nat → List (Rec × Bool) → List Rec × Nat
  | p, [] => ([], p)
  | p, (r, true) :: h => (stamp p r :: (spec 0 h).1, (spec 0 h).2)
  | p, (_, false) :: h => spec (p + 1) h

theorem spec_append : ∀ (h₁ h₂ : List (Rec × Bool)) (p : Nat),
    spec p (h₁ ++ h₂) =
      ((spec p h₁).1 ++ (spec (spec p h₁).2 h₂).1, (spec (spec p h₁).2 h₂).2)
  | [], h₂, p => by simp [spec]
  | (r, true) :: h₁, h₂, p => by
    simp only [List.cons_append, spec, spec_append h₁ h₂ 0]
  | (r, false) :: h₁, h₂, p => by
    simp only [List.cons_append, spec, spec_append h₁ h₂ (p + 1)]

theorem spec_drops (ds : List Rec) (p : Nat) (rest : List (Rec × Bool)) :
    spec p (ds.map (fun d => (d, false)) ++ rest) = spec (p + ds.length) rest := by
  induction ds generalizing p with
  | nil => simp
  | cons d ds ih =>
    simp only [List.map_cons, List.cons_append, spec, ih, List.length_cons]
    congr 1; omega

/-- **spec_run_counted**: the accepted record following a run of drops carries a count that
includes that whole run (exactly: the run plus whatever drops directly preceded it). -/
theorem spec_run_counted (pre : List (Rec × Bool)) (ds : List Rec) (a : Rec)
    (post : List (Rec × Bool)) (p : Nat) :
    (spec p (pre ++ ds.map (fun d => (d, false)) ++ (a, true) :: post)).1 =
      (spec p pre).1 ++ stamp ((spec p pre).2 + ds.length) a :: (spec 0 post).1 := by
  rw [List.append_assoc, spec_append, spec_drops]
  simp [spec]

/-- A trailing run of drops is exactly what is still pending. -/
theorem spec_trailing (pre : List (Rec × Bool)) (ds : List Rec) (p : Nat) :
    (spec p (pre ++ ds.map (fun d => (d, false)))).2 = (spec p pre).2 + ds.length := by
  have := spec_drops ds (spec p pre).2 []
  rw [List.append_nil] at this
  rw [spec_append, this]; simp [spec]

/-- Nothing pending right after an accepted record. -/
theorem spec_after_accept (pre : List (Rec × Bool)) (a : Rec) (p : Nat) :
    (spec p (pre ++ [(a, true)])).2 = 0 := by
  rw [spec_append]; simp [spec]

/-- Accepted records are written once each, in enqueue order. -/
theorem spec_ids : ∀ (h : List (Rec × Bool)) (p : Nat),
    (spec p h).1.map (·.id) = (h.filter (·.2)).map (·.1.id)
  | [], _ => rfl
  | (r, true) :: h, p => by
    simp only [spec, List.map_cons, List.filter_cons, if_true, spec_ids h 0]
    congr 1
    unfold stamp; split <;> rfl
  | (r, false) :: h, p => by
    simp only [spec, List.filter_cons, spec_ids h (p + 1)]
    simp

def stamps (l : List Rec) : Nat := (l.map (·.dropped)).sum

/-- Total accounting: the counts on the written records plus the pending count equal the number
of dropped records (for records that arrive without a `dropped_records` of their own). -/
theorem spec_total : ∀ (h : List (Rec × Bool)) (p : Nat), (∀ e ∈ h, e.1.dropped = 0) →
    stamps (spec p h).1 + (spec p h).2 = p + (h.filter (fun e => !e.2)).length
  | [], p, _ => by simp [spec, stamps]
  | (r, true) :: h, p, hz => by
    have ih := spec_total h 0 (fun e he => hz e (by simp [he]))
    have hr : r.dropped = 0 := hz (r, true) (by simp)
    have hst : (stamp p r).dropped = p := by
      unfold stamp; split
      · rfl
      · simp [hr]; omega
    simp only [stamps] at ih
    simp only [spec, stamps, List.map_cons, List.sum_cons, List.filter_cons, hst, Bool.not_true,
      Bool.false_eq_true, if_false]
    omega
  | (r, false) :: h, p, hz => by
    have ih := spec_total h (p + 1) (fun e he => hz e (by simp [he]))
    simp only [spec, List.filter_cons, Bool.not_false, if_true, List.length_cons]
    omega

/-- The accounting invariant of the running system. -/
def Inv (s : Sys) : Prop :=
  spec 0 s.hist = (s.written ++ s.hand.toList ++ s.queue, s.pending) ∧
  s.queue.length ≤ s.cap ∧
  (s.done = true → s.closed = true ∧ s.queue = [] ∧ s.hand = none)

theorem inv_init (cap : Nat) : Inv (initSys cap) := by
  simp [Inv, initSys, spec]

theorem inv_enqueue (s : Sys) (r : Rec) (h : Inv s) : Inv (enqueue s r) := by
  obtain ⟨h1, h2, h3⟩ := h
  unfold enqueue
  by_cases hc : s.closed = true
  · simp only [hc, if_true]; exact ⟨h1, h2, h3⟩
  · by_cases hl : s.queue.length < s.cap
    · simp only [hc, hl, if_true]
      refine ⟨?_, ?_, ?_⟩
      · show spec 0 (s.hist ++ [(r, true)]) = _
        rw [spec_append, h1]
        simp [spec]
      · simp; omega
      · intro hd; have := (h3 hd).1; exact absurd this hc
    · simp only [hc, hl, if_false]
      refine ⟨?_, h2, ?_⟩
      · show spec 0 (s.hist ++ [(r, false)]) = _
        rw [spec_append, h1]
        simp [spec]
      · intro hd; have := (h3 hd).1; exact absurd this hc

theorem inv_step (s s' : Sys) (a : Act) (h : Inv s) (hs : step s a = some s') : Inv s' := by
  cases a with
  | enqueue r =>
    simp only [step] at hs; cases hs; exact inv_enqueue s r h
  | recv =>
    obtain ⟨h1, h2, h3⟩ := h
    simp only [step] at hs
    split at hs
    · rename_i r q hh hq
      split at hs
      · cases hs
      · cases hs
        rw [hh, hq] at h1
        rw [hq] at h2
        refine ⟨?_, ?_, ?_⟩
        · simpa using h1
        · simp at h2 ⊢; omega
        · intro hd; simp_all
    · cases hs
  | wrote =>
    obtain ⟨h1, h2, h3⟩ := h
    simp only [step] at hs
    split at hs
    · rename_i r hh
      cases hs
      rw [hh] at h1
      refine ⟨?_, h2, ?_⟩
      · simpa using h1
      · intro hd; have := h3 hd; simp_all
    · cases hs
  | exit =>
    obtain ⟨h1, h2, h3⟩ := h
    simp only [step] at hs
    split at hs
    · rename_i hc
      cases hs
      simp only [Bool.and_eq_true, List.isEmpty_iff, Option.isNone_iff_eq_none] at hc
      exact ⟨h1, h2, fun _ => ⟨hc.1.1.1, hc.1.1.2, hc.1.2⟩⟩
    · cases hs
  | close =>
    obtain ⟨h1, h2, h3⟩ := h
    simp only [step] at hs
    cases hs
    exact ⟨h1, h2, fun hd => ⟨rfl, (h3 hd).2⟩⟩

theorem inv_run : ∀ (as : List Act) (s s' : Sys), Inv s → run s as = some s' → Inv s'
  | [], s, s', h, hr => by simp [run] at hr; subst hr; exact h
  | a :: as, s, s', h, hr => by
    simp only [run] at hr
    split at hr
    · cases hr
    · rename_i s1 h1
      exact inv_run as s1 s' (inv_step s s1 a h h1) hr

/-- **enqueue_never_blocks**: in EVERY state — queue full, writer stalled mid-write, emitter
closed, close waiting for the drain — the enqueue step is enabled and is a single step; the
writer, by contrast, can be blocked. -/
theorem enqueue_never_blocks (s : Sys) (r : Rec) : ∃ s', step s (.enqueue r) = some s' :=
  ⟨enqueue s r, rfl⟩

/-- …and it never grows the queue beyond its capacity, in any reachable state. -/
theorem queue_bounded (cap : Nat) (as : List Act) (s : Sys) (hr : run (initSys cap) as = some s) :
    s.queue.length ≤ cap := by
  have hcap : ∀ (as : List Act) (s s' : Sys), run s as = some s' → s'.cap = s.cap := by
    intro as
    induction as with
    | nil => intro s s' h; simp [run] at h; subst h; rfl
    | cons a as ih =>
      intro s s' h
      simp only [run] at h
      split at h
      · cases h
      · rename_i s1 h1
        rw [ih s1 s' h]
        cases a <;> simp only [step] at h1
        · cases h1; unfold enqueue; split
          · rfl
          · split <;> rfl
        · split at h1
          · split at h1
            · cases h1
            · cases h1; rfl
          · cases h1
        · split at h1
          · cases h1; rfl
          · cases h1
        · split at h1
          · cases h1; rfl
          · cases h1
        · cases h1; rfl
  have := (inv_run as _ s (inv_init cap) hr).2.1
  rw [hcap as _ s hr] at this
  exact this

/-- **accounting**: at every reachable state, under every interleaving, what has been written,
what the writer holds and what is queued are together exactly the accepted records of the
enqueue history, in order, each stamped with the run of drops before it; and `pending` is the
trailing run. -/
theorem accounting (cap : Nat) (as : List Act) (s : Sys) (hr : run (initSys cap) as = some s) :
    s.written ++ s.hand.toList ++ s.queue = (spec 0 s.hist).1 ∧ s.pending = (spec 0 s.hist).2 := by
  have := (inv_run as _ s (inv_init cap) hr).1
  rw [this]; exact ⟨rfl, rfl⟩

/-- After close has completed (the writer left its loop) everything accepted is written. -/
theorem drained_written (cap : Nat) (as : List Act) (s : Sys) (hr : run (initSys cap) as = some s)
    (hd : s.done = true) : s.written = (spec 0 s.hist).1 ∧ s.pending = (spec 0 s.hist).2 := by
  have hi := inv_run as _ s (inv_init cap) hr
  obtain ⟨h1, _, h3⟩ := hi
  obtain ⟨_, hq, hh⟩ := h3 hd
  rw [hq, hh] at h1
  rw [h1]; simp

theorem split_first_accepted : ∀ (rest : List (Rec × Bool)),
    (∃ ds : List Rec, rest = ds.map (fun d => (d, false))) ∨
    (∃ (ds : List Rec) (a : Rec) (post : List (Rec × Bool)),
      rest = ds.map (fun d => (d, false)) ++ (a, true) :: post)
  | [] => Or.inl ⟨[], rfl⟩
  | (r, true) :: rest => Or.inr ⟨[], r, rest, rfl⟩
  | (r, false) :: rest => by
    rcases split_first_accepted rest with ⟨ds, h⟩ | ⟨ds, a, post, h⟩
    · exact Or.inl ⟨r :: ds, by simp [h]⟩
    · exact Or.inr ⟨r :: ds, a, post, by simp [h]⟩

/-- **every_record_written_or_counted** (the property's sentence): once close has completed, a
record enqueued before close is
* written (with whatever count it was given), if the queue took it; or
* otherwise counted in the `dropped_records` of the NEXT written record — whose count is at
  least the number of drops from this one up to it; or
* part of a trailing run of drops with no later record, which is still counted in `pending`. -/
theorem every_record_written_or_counted (cap : Nat) (as : List Act) (s : Sys)
    (hr : run (initSys cap) as = some s) (hd : s.done = true)
    (pre : List (Rec × Bool)) (r : Rec) (acc : Bool) (rest : List (Rec × Bool))
    (hh : s.hist = pre ++ (r, acc) :: rest) :
    (acc = true → ∃ n, stamp n r ∈ s.written) ∧
    (acc = false →
      (∃ (ds : List Rec) (a : Rec) (post : List (Rec × Bool)) (n : Nat),
        rest = ds.map (fun d => (d, false)) ++ (a, true) :: post ∧
        n ≥ ds.length + 1 ∧ stamp n a ∈ s.written) ∨
      (∃ ds : List Rec, rest = ds.map (fun d => (d, false)) ∧ s.pending ≥ ds.length + 1)) := by
  obtain ⟨hw, hp⟩ := drained_written cap as s hr hd
  constructor
  · intro ha; subst ha
    have := spec_run_counted pre [] r rest 0
    simp only [List.map_nil, List.append_nil, List.length_nil, Nat.add_zero] at this
    rw [← hh, ← hw] at this
    exact ⟨(spec 0 pre).2, by rw [this]; simp⟩
  · intro ha; subst ha
    rcases split_first_accepted rest with ⟨ds, hrest⟩ | ⟨ds, a, post, hrest⟩
    · right
      refine ⟨ds, hrest, ?_⟩
      have := spec_trailing pre (r :: ds) 0
      simp only [List.map_cons] at this
      rw [hrest] at hh
      rw [← hh, ← hp] at this
      rw [this]; simp <;> omega
    · left
      have := spec_run_counted pre (r :: ds) a post 0
      simp only [List.map_cons, List.append_assoc, List.cons_append] at this
      rw [hrest] at hh
      rw [← hh, ← hw] at this
      refine ⟨ds, a, post, (spec 0 pre).2 + (r :: ds).length, hrest, by simp <;> omega, ?_⟩
      rw [this]; simp

/-- Exactness: when the run of drops starts right after an accepted record (or at the very
beginning), the next written record's count is exactly the length of the run. -/
theorem run_count_exact (cap : Nat) (as : List Act) (s : Sys)
    (hr : run (initSys cap) as = some s) (hd : s.done = true)
    (pre : List (Rec × Bool)) (ds : List Rec) (a : Rec) (post : List (Rec × Bool))
    (hpre : pre = [] ∨ ∃ pre' b, pre = pre' ++ [(b, true)])
    (hh : s.hist = pre ++ ds.map (fun d => (d, false)) ++ (a, true) :: post) :
    s.written = (spec 0 pre).1 ++ stamp ds.length a :: (spec 0 post).1 := by
  obtain ⟨hw, _⟩ := drained_written cap as s hr hd
  have := spec_run_counted pre ds a post 0
  rw [← hh, ← hw] at this
  have hz : (spec 0 pre).2 = 0 := by
    rcases hpre with h | ⟨pre', b, h⟩
    · subst h; rfl
    · subst h; exact spec_after_accept pre' b 0
  rw [hz, Nat.zero_add] at this
  exact this

/-- Written records are the accepted ones, each once, in enqueue (FIFO) order. -/
theorem written_fifo (cap : Nat) (as : List Act) (s : Sys)
    (hr : run (initSys cap) as = some s) (hd : s.done = true) :
    s.written.map (·.id) = (s.hist.filter (·.2)).map (·.1.id) := by
  rw [(drained_written cap as s hr hd).1, spec_ids]

/-- The counts add up: Σ dropped_records over the log + pending = number of records dropped. -/
theorem counts_add_up (cap : Nat) (as : List Act) (s : Sys)
    (hr : run (initSys cap) as = some s) (hd : s.done = true)
    (hz : ∀ e ∈ s.hist, e.1.dropped = 0) :
    stamps s.written + s.pending = (s.hist.filter (fun e => !e.2)).length := by
  obtain ⟨hw, hp⟩ := drained_written cap as s hr hd
  rw [hw, hp, spec_total s.hist 0 hz]; simp

/-- Records enqueued after close are discarded and change nothing. -/
theorem closed_enqueue_discarded (s : Sys) (r : Rec) (hc : s.closed = true) :
    step s (.enqueue r) = some s := by
  simp [step, enqueue, hc]

/-- Drain schedule of the writer for a queue of `n` records. -/
def drainActs (handFull : Bool) : Nat → List Act
  | 0 => (if handFull then [Act.wrote] else []) ++ [Act.exit]
  | n + 1 => (if handFull then [Act.wrote] else []) ++ Act.recv :: drainActs true n

/-- **close_completes**: from every closed, not yet drained state the writer alone (no help from
any enqueuer) reaches `done`, having written everything queued — so `close()` returns. -/
theorem close_completes : ∀ (q : List Rec) (s : Sys), s.queue = q → s.closed = true →
    s.done = false →
    ∃ s', run s (drainActs s.hand.isSome q.length) = some s' ∧ s'.done = true ∧
      s'.written = s.written ++ s.hand.toList ++ q ∧ s'.hist = s.hist ∧ s'.pending = s.pending
  | [], s, hq, hc, hd => by
    obtain ⟨cap, queue, pending, closed, hand, written, done, hist⟩ := s
    simp only at hq hc hd
    subst hq hc hd
    cases hand with
    | none => simp [drainActs, run, step]
    | some r => simp [drainActs, run, step]
  | r :: q, s, hq, hc, hd => by
    obtain ⟨cap, queue, pending, closed, hand, written, done, hist⟩ := s
    simp only at hq hc hd
    subst hq hc hd
    cases hand with
    | none =>
      have ih := close_completes q
        { cap := cap, queue := q, pending := pending, closed := true, hand := some r,
          written := written, done := false, hist := hist } rfl rfl rfl
      obtain ⟨s', h1, h2, h3, h4, h5⟩ := ih
      refine ⟨s', ?_, h2, ?_, h4, h5⟩
      · simpa [drainActs, run, step] using h1
      · rw [h3]; simp
    | some r0 =>
      have ih := close_completes q
        { cap := cap, queue := q, pending := pending, closed := true, hand := some r,
          written := written ++ [r0], done := false, hist := hist } rfl rfl rfl
      obtain ⟨s', h1, h2, h3, h4, h5⟩ := ih
      refine ⟨s', ?_, h2, ?_, h4, h5⟩
      · simpa [drainActs, run, step] using h1
      · rw [h3]; simp

/-! ### Non-vacuity (async): capacity 1, writer stalled, two drops, then a record that reports
them, a trailing drop, close, drain. -/

def rk (i : Nat) : Rec := mkRec i (.str okB) .absent .absent

def demo : List Act :=
  [.enqueue (rk 1), .recv, .enqueue (rk 2), .enqueue (rk 3), .enqueue (rk 4), .wrote, .recv,
   .enqueue (rk 5), .enqueue (rk 6), .close, .enqueue (rk 7), .wrote, .recv, .wrote, .exit]

example : (run (initSys 1) demo).map
    (fun s => (s.written.map (fun r => (r.id, r.dropped)), s.pending, s.done,
               s.hist.map (fun e => (e.1.id, e.2)))) =
    some ([(1, 0), (2, 0), (5, 2)], 1, true,
          [(1, true), (2, true), (3, false), (4, false), (5, true), (6, false)]) := by decide

-- the writer can be blocked while enqueue is not
example : step (initSys 1) .recv = none ∧ (step (initSys 1) (.enqueue (rk 1))).isSome := by decide

end Vgi.Props.C39
