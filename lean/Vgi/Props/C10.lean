import Vgi.Model.Semver
/-!
# C10 — The protocol-version gate admits exactly same-major.minor clients
-/
namespace Vgi.Props.C10
open Vgi Vgi.Semver

/-! ### Canonical numerals -/

theorem decVal_snoc (xs : Bytes) (d : UInt8) : decVal (xs ++ [d]) = decVal xs * 10 + digitVal d := by
  simp [decVal, List.foldl_append]

theorem digitChar_toNat (n : Nat) : (digitChar n).toNat = 48 + n % 10 := by
  unfold digitChar
  rw [UInt8.toNat_ofNat']
  omega

theorem digitVal_digitChar (n : Nat) : digitVal (digitChar n) = n % 10 := by
  unfold digitVal
  rw [digitChar_toNat]
  omega

theorem decVal_toDigits (n : Nat) : decVal (toDigits n) = n := by
  induction n using Nat.strongRecOn with
  | _ n ih =>
    rw [toDigits]
    by_cases h : n < 10
    · simp only [h, if_true]
      simp [decVal, digitVal_digitChar]
      omega
    · simp only [h, if_false]
      rw [decVal_snoc, ih (n / 10) (by omega), digitVal_digitChar]
      omega

theorem isDigit_iff (c : UInt8) : isDigit c = true ↔ 48 ≤ c.toNat ∧ c.toNat ≤ 57 := by
  simp [isDigit, UInt8.le_iff_toNat_le]

theorem nonzeroDigit_iff (c : UInt8) : ((49 ≤ c && c ≤ 57) = true) ↔ 49 ≤ c.toNat ∧ c.toNat ≤ 57 := by
  simp [UInt8.le_iff_toNat_le]

theorem eq48_iff (c : UInt8) : c = 48 ↔ c.toNat = 48 := by
  constructor
  · intro h; subst h; rfl
  · intro h; exact UInt8.toNat_inj.mp (by simpa using h)

theorem isDigit_digitChar (n : Nat) : isDigit (digitChar n) = true := by
  rw [isDigit_iff, digitChar_toNat]; omega

theorem toDigits_all_digits (n : Nat) : (toDigits n).all isDigit = true := by
  induction n using Nat.strongRecOn with
  | _ n ih =>
    rw [toDigits]
    by_cases h : n < 10
    · simp [h, isDigit_digitChar]
    · simp only [h, if_false, List.all_append, ih (n / 10) (by omega), Bool.true_and]
      simp [isDigit_digitChar]

/-- A positive number's numeral starts with a non-zero digit and continues with digits. -/
theorem toDigits_pos (n : Nat) (hn : 0 < n) :
    ∃ c rest, toDigits n = c :: rest ∧ 49 ≤ c.toNat ∧ c.toNat ≤ 57 ∧ rest.all isDigit = true := by
  induction n using Nat.strongRecOn with
  | _ n ih =>
    rw [toDigits]
    by_cases h : n < 10
    · simp only [h, if_true]
      refine ⟨digitChar n, [], rfl, ?_, ?_, rfl⟩ <;> rw [digitChar_toNat] <;> omega
    · simp only [h, if_false]
      obtain ⟨c, rest, e, h1, h2, h3⟩ := ih (n / 10) (by omega) (by omega)
      refine ⟨c, rest ++ [digitChar n], by simp [e], h1, h2, ?_⟩
      simp [List.all_append, h3, isDigit_digitChar]

theorem matchComp_toDigits (n : Nat) : matchComp (toDigits n) = true := by
  by_cases hn : n = 0
  · subst hn; rw [toDigits]; simp [matchComp, digitChar]
  · obtain ⟨c, rest, e, h1, h2, h3⟩ := toDigits_pos n (by omega)
    rw [e]
    have hc : c ≠ 48 := by rw [Ne, eq48_iff]; omega
    simp only [matchComp, hc, if_false, h3, Bool.and_true]
    rw [nonzeroDigit_iff]; exact ⟨h1, h2⟩

theorem digitChar_digitVal (k : Nat) (d : UInt8) (hd : isDigit d = true) :
    digitChar (k * 10 + digitVal d) = d := by
  rw [isDigit_iff] at hd
  apply UInt8.toNat_inj.mp
  rw [digitChar_toNat]
  unfold digitVal
  omega

theorem toDigits_snoc (xs : Bytes) (d : UInt8) (hd : isDigit d = true) (hpos : 0 < decVal xs)
    (hx : toDigits (decVal xs) = xs) : toDigits (decVal (xs ++ [d])) = xs ++ [d] := by
  rw [decVal_snoc, toDigits]
  have h10 : ¬ decVal xs * 10 + digitVal d < 10 := by omega
  have hdv : digitVal d < 10 := by
    rw [isDigit_iff] at hd; unfold digitVal; omega
  have hdiv : (decVal xs * 10 + digitVal d) / 10 = decVal xs := by omega
  simp only [h10, if_false, hdiv, hx, digitChar_digitVal _ d hd]

theorem toDigits_extend : ∀ (rest pre : Bytes), rest.all isDigit = true → 0 < decVal pre →
    toDigits (decVal pre) = pre → toDigits (decVal (pre ++ rest)) = pre ++ rest
  | [], pre, _, _, hx => by simpa using hx
  | d :: r, pre, hr, hpos, hx => by
    simp only [List.all_cons, Bool.and_eq_true] at hr
    have e : pre ++ d :: r = (pre ++ [d]) ++ r := by simp
    rw [e]
    apply toDigits_extend r (pre ++ [d]) hr.2
    · rw [decVal_snoc]; omega
    · exact toDigits_snoc pre d hr.1 hpos hx

/-- A canonical numeral is the numeral of its value: `0|[1-9]\d*` strings are exactly the
images of `toDigits`. -/
theorem toDigits_decVal (a : Bytes) (h : matchComp a = true) : toDigits (decVal a) = a := by
  cases a with
  | nil => simp [matchComp] at h
  | cons c rest =>
    simp only [matchComp] at h
    by_cases hc : c = 48
    · simp only [hc, if_true, List.isEmpty_iff] at h
      subst h; subst hc
      rw [toDigits]; simp [decVal, digitVal, digitChar]
    · simp only [hc, if_false, Bool.and_eq_true] at h
      have hnz := (nonzeroDigit_iff c).mp (by simpa using h.1)
      have hd : isDigit c = true := by rw [isDigit_iff]; omega
      have hval : decVal [c] = digitVal c := by simp [decVal]
      have hdv : digitVal c = c.toNat - 48 := rfl
      have base : toDigits (decVal [c]) = [c] := by
        rw [hval, toDigits]
        have : digitVal c < 10 := by omega
        simp only [this, if_true]
        have := digitChar_digitVal 0 c hd
        simpa using this
      have := toDigits_extend rest [c] h.2 (by rw [hval]; omega) base
      simpa using this

/-- Canonical numerals are unique: equal value ⇒ equal text. -/
theorem canonical_unique (a b : Bytes) (ha : matchComp a = true) (hb : matchComp b = true)
    (h : decVal a = decVal b) : a = b := by
  rw [← toDigits_decVal a ha, ← toDigits_decVal b hb, h]

theorem toDigits_injective (m n : Nat) (h : toDigits m = toDigits n) : m = n := by
  rw [← decVal_toDigits m, ← decVal_toDigits n, h]

/-! ### Splitting at dots -/

theorem splitDots_ne_nil : ∀ v : Bytes, splitDots v ≠ []
  | [] => by simp [splitDots]
  | c :: r => by
    simp only [splitDots]
    split
    · simp
    · split <;> simp

theorem splitDots_nodot : ∀ a : Bytes, dot ∉ a → splitDots a = [a]
  | [], _ => rfl
  | c :: r, h => by
    simp only [List.mem_cons, not_or] at h
    have hc : c ≠ dot := fun e => h.1 e.symm
    simp [splitDots, splitDots_nodot r h.2, hc]

theorem splitDots_append : ∀ (a r : Bytes), dot ∉ a → splitDots (a ++ dot :: r) = a :: splitDots r
  | [], r, _ => by
    simp only [List.nil_append, splitDots]
    cases h : splitDots r with
    | nil => exact absurd h (splitDots_ne_nil r)
    | cons x t => simp
  | c :: a, r, h => by
    simp only [List.mem_cons, not_or] at h
    have hc : c ≠ dot := fun e => h.1 e.symm
    simp [splitDots, splitDots_append a r h.2, hc]

/-- Inverse of `splitDots`. -/
def joinDots : List Bytes → Bytes
  | [] => []
  | [a] => a
  | a :: b :: t => a ++ dot :: joinDots (b :: t)

theorem joinDots_splitDots : ∀ v : Bytes, joinDots (splitDots v) = v
  | [] => rfl
  | c :: r => by
    have ih := joinDots_splitDots r
    simp only [splitDots]
    cases h : splitDots r with
    | nil => exact absurd h (splitDots_ne_nil r)
    | cons x t =>
      rw [h] at ih
      by_cases hc : c = dot
      · simp only [hc, if_true, joinDots, List.nil_append]
        rw [ih]
      · simp only [hc, if_false]
        cases t with
        | nil => simp only [joinDots] at ih ⊢; rw [ih]
        | cons y t' => simp only [joinDots, List.cons_append] at ih ⊢; rw [ih]

theorem digits_no_dot (a : Bytes) (h : a.all isDigit = true) : dot ∉ a := by
  intro hm
  have := List.all_eq_true.mp h dot hm
  revert this; decide

theorem matchComp_all_digits (a : Bytes) (h : matchComp a = true) : a.all isDigit = true := by
  rw [← toDigits_decVal a h]; exact toDigits_all_digits _

theorem toDigits_no_dot (n : Nat) : dot ∉ toDigits n := digits_no_dot _ (toDigits_all_digits n)

theorem splitDots_render (x y z : Nat) :
    splitDots (render x y z) = [toDigits x, toDigits y, toDigits z] := by
  unfold render
  simp only [List.append_assoc, List.cons_append, List.nil_append]
  rw [splitDots_append _ _ (toDigits_no_dot x), splitDots_append _ _ (toDigits_no_dot y),
    splitDots_nodot _ (toDigits_no_dot z)]

/-! ### `parseSemver` accepts exactly the canonical `MAJOR.MINOR.PATCH` strings -/

theorem regexMatch_some {v a b c : Bytes} (h : regexMatch v = some (a, b, c)) :
    splitDots v = [a, b, c] ∧ matchComp a = true ∧ matchComp b = true ∧ matchComp c = true := by
  unfold regexMatch at h
  split at h
  · rename_i a' b' c' heq
    split at h
    · rename_i hm
      simp only [Option.some.injEq, Prod.mk.injEq] at h
      obtain ⟨rfl, rfl, rfl⟩ := h
      simp only [Bool.and_eq_true] at hm
      exact ⟨heq, hm.1.1, hm.1.2, hm.2⟩
    · cases h
  · cases h

theorem regexMatch_render (x y z : Nat) :
    regexMatch (render x y z) = some (toDigits x, toDigits y, toDigits z) := by
  unfold regexMatch
  rw [splitDots_render]
  simp [matchComp_toDigits]

theorem parseSemver_render (x y z : Nat) : parseSemver (render x y z) = some (x, y, z) := by
  unfold parseSemver
  rw [regexMatch_render]
  simp [decVal_toDigits]

theorem parseSemver_some {v : Bytes} {x y z : Nat} (h : parseSemver v = some (x, y, z)) :
    v = render x y z := by
  unfold parseSemver at h
  split at h
  · cases h
  · rename_i a b c hre
    obtain ⟨hs, ma, mb, mc⟩ := regexMatch_some hre
    simp only [Option.some.injEq, Prod.mk.injEq] at h
    obtain ⟨rfl, rfl, rfl⟩ := h
    have hv := joinDots_splitDots v
    rw [hs] at hv
    simp only [joinDots] at hv
    rw [← hv]
    unfold render
    rw [toDigits_decVal a ma, toDigits_decVal b mb, toDigits_decVal c mc]
    simp

/-- **parseSemver_iff** — the parser accepts exactly the strings `render M m p` (decimal numerals
without leading zeros joined by dots; nothing before, between or after), for ALL naturals, and
returns those numbers. -/
theorem parseSemver_iff (v : Bytes) (x y z : Nat) :
    parseSemver v = some (x, y, z) ↔ v = render x y z :=
  ⟨parseSemver_some, fun hv => by rw [hv]; exact parseSemver_render x y z⟩

/-- The textual form determines the numbers. -/
theorem render_injective {x y z x' y' z' : Nat} (h : render x y z = render x' y' z') :
    x = x' ∧ y = y' ∧ z = z' := by
  have h1 := splitDots_render x y z
  rw [h, splitDots_render] at h1
  simp only [List.cons.injEq, and_true] at h1
  exact ⟨(toDigits_injective _ _ h1.1).symm, (toDigits_injective _ _ h1.2.1).symm,
    (toDigits_injective _ _ h1.2.2).symm⟩

/-! ### The gate -/

/-- **setVersion_spec** — configuration: "" opts out; a version is accepted exactly when it is a
canonical `MAJOR.MINOR.PATCH`, and then its text and components are stored; anything else
panics. -/
theorem setVersion_spec (v : Bytes) :
    (setVersion v = .unset ↔ v = []) ∧
    (∀ s, setVersion v = .set s ↔
      v ≠ [] ∧ s.text = v ∧ v = render s.major s.minor s.patch) ∧
    (setVersion v = .panic ↔ v ≠ [] ∧ ¬ ∃ M m p, v = render M m p) := by
  unfold setVersion
  by_cases he : v = []
  · subst he; simp
  · have he' : v.isEmpty = false := by simpa [List.isEmpty_iff] using he
    simp only [he', Bool.false_eq_true, if_false, he, false_iff, ne_eq, not_false_eq_true, true_and]
    cases hp : parseSemver v with
    | none =>
      refine ⟨by simp, fun s => ⟨by simp, ?_⟩, by simp; intro M m p hv; rw [(parseSemver_iff v M m p).mpr hv] at hp; cases hp⟩
      rintro ⟨_, hv⟩
      rw [(parseSemver_iff v _ _ _).mpr hv] at hp
      cases hp
    | some r =>
      obtain ⟨x, y, z⟩ := r
      have hv := parseSemver_some hp
      refine ⟨by simp, fun s => ⟨?_, ?_⟩, by simp; exact ⟨x, y, z, hv⟩⟩
      · intro h
        simp only [SetResult.set.injEq] at h
        subst h
        exact ⟨rfl, hv⟩
      · rintro ⟨ht, hv'⟩
        obtain ⟨e1, e2, e3⟩ := render_injective (hv.symm.trans hv')
        cases s
        simp only at ht e1 e2 e3 ⊢
        simp [ht, e1, e2, e3]

theorem check_none (s : Server) : check s none = .absent := rfl

theorem check_unparsed (s : Server) {v : Bytes} (h : parseSemver v = none) :
    check s (some v) = .malformed := by simp [check, h]

theorem check_parsed (s : Server) {v : Bytes} {x y z : Nat} (h : parseSemver v = some (x, y, z)) :
    check s (some v) =
      if x = s.major ∧ y = s.minor then .allow
      else if x < s.major ∨ (x = s.major ∧ y < s.minor) then .clientTooOld
      else .serverTooOld := by simp [check, h]

/-- **gate_iff** — with a declared version, a request passes the check if and only if it declares
a canonical `MAJOR.MINOR.PATCH` whose major and minor equal the server's; the patch is free.
Over unbounded naturals: no size limit on any component. -/
theorem gate_iff (s : Server) (c : Option Bytes) :
    check s c = .allow ↔ ∃ M m p, c = some (render M m p) ∧ M = s.major ∧ m = s.minor := by
  cases c with
  | none => simp [check_none]
  | some v =>
    simp only [Option.some.injEq]
    cases hp : parseSemver v with
    | none =>
      rw [check_unparsed s hp]
      simp only [reduceCtorEq, false_iff, not_exists, not_and]
      intro M m p hv
      rw [(parseSemver_iff v M m p).mpr hv] at hp
      cases hp
    | some r =>
      obtain ⟨x, y, z⟩ := r
      have hv := parseSemver_some hp
      rw [check_parsed s hp]
      constructor
      · intro h
        by_cases hxy : x = s.major ∧ y = s.minor
        · exact ⟨x, y, z, hv, hxy.1, hxy.2⟩
        · rw [if_neg hxy] at h
          split at h <;> cases h
      · rintro ⟨M, m, p, hv', hM, hm⟩
        obtain ⟨e1, e2, _⟩ := render_injective (hv.symm.trans hv')
        rw [if_pos ⟨e1.trans hM, e2.trans hm⟩]

/-- **refusal_absent / refusal_malformed / direction** — every refusal is classified exactly:
the "Direction:" sentence says `client is too old` iff the client's (major, minor) is
lexicographically below the server's, `server is too old` iff above; an absent key and a string
that is not a canonical version get their own sentences. -/
theorem refusal_absent (s : Server) (c : Option Bytes) : check s c = .absent ↔ c = none := by
  cases c with
  | none => simp [check_none]
  | some v =>
    simp only [reduceCtorEq, iff_false]
    cases hp : parseSemver v with
    | none => rw [check_unparsed s hp]; simp
    | some r =>
      obtain ⟨x, y, z⟩ := r
      rw [check_parsed s hp]
      split
      · simp
      · split <;> simp

theorem refusal_malformed (s : Server) (c : Option Bytes) :
    check s c = .malformed ↔ ∃ v, c = some v ∧ ¬ ∃ M m p, v = render M m p := by
  cases c with
  | none => simp [check_none]
  | some v =>
    simp only [Option.some.injEq, exists_eq_left']
    cases hp : parseSemver v with
    | none =>
      rw [check_unparsed s hp]
      simp only [true_iff]
      rintro ⟨M, m, p, h⟩
      rw [(parseSemver_iff v M m p).mpr h] at hp
      cases hp
    | some r =>
      obtain ⟨x, y, z⟩ := r
      have hh := parseSemver_some hp
      rw [check_parsed s hp]
      constructor
      · intro h
        split at h
        · cases h
        · split at h <;> cases h
      · intro h
        exact absurd ⟨x, y, z, hh⟩ h

theorem direction (s : Server) (c : Option Bytes) :
    (check s c = .clientTooOld ↔
      ∃ M m p, c = some (render M m p) ∧ (M < s.major ∨ (M = s.major ∧ m < s.minor))) ∧
    (check s c = .serverTooOld ↔
      ∃ M m p, c = some (render M m p) ∧ (s.major < M ∨ (M = s.major ∧ s.minor < m))) := by
  cases c with
  | none => simp [check_none]
  | some v =>
    simp only [Option.some.injEq]
    cases hp : parseSemver v with
    | none =>
      rw [check_unparsed s hp]
      simp only [reduceCtorEq, false_iff, not_exists, not_and]
      constructor <;>
      · intro M m p hv
        rw [(parseSemver_iff v M m p).mpr hv] at hp
        cases hp
    | some r =>
      obtain ⟨x, y, z⟩ := r
      have hv := parseSemver_some hp
      rw [check_parsed s hp]
      constructor
      · constructor
        · intro h
          refine ⟨x, y, z, hv, ?_⟩
          split at h
          · cases h
          · split at h
            · assumption
            · cases h
        · rintro ⟨M, m, p, hv', hlt⟩
          obtain ⟨e1, e2, _⟩ := render_injective (hv.symm.trans hv')
          subst e1; subst e2
          have hne : ¬ (x = s.major ∧ y = s.minor) := by omega
          rw [if_neg hne, if_pos hlt]
      · constructor
        · intro h
          refine ⟨x, y, z, hv, ?_⟩
          split at h
          · cases h
          · split at h
            · cases h
            · omega
        · rintro ⟨M, m, p, hv', hgt⟩
          obtain ⟨e1, e2, _⟩ := render_injective (hv.symm.trans hv')
          subst e1; subst e2
          have hne : ¬ (x = s.major ∧ y = s.minor) := by omega
          have hnl : ¬ (x < s.major ∨ (x = s.major ∧ y < s.minor)) := by omega
          rw [if_neg hne, if_neg hnl]

/-- **describe_exempt** — `__describe__` is never refused, whatever the server and the request
declare. -/
theorem describe_exempt (srv : Option Server) (c : Option Bytes) : gate srv true c = .allow := rfl

/-- **unset_admits_all** — with no declared version every call is admitted. -/
theorem unset_admits_all (isDescribe : Bool) (c : Option Bytes) : gate none isDescribe c = .allow := by
  cases isDescribe <;> rfl

/-- **dispatched_iff** — the whole property as one equivalence over every configuration, method
kind and client declaration: a call is dispatched iff it is `__describe__`, or no version is
declared, or the request declares a canonical version with the server's major and minor. -/
theorem dispatched_iff (srv : Option Server) (isDescribe : Bool) (c : Option Bytes) :
    gate srv isDescribe c = .allow ↔
      isDescribe = true ∨ srv = none ∨
        ∃ s, srv = some s ∧ ∃ M m p, c = some (render M m p) ∧ M = s.major ∧ m = s.minor := by
  cases isDescribe with
  | true => simp [gate]
  | false =>
    cases srv with
    | none => simp [gate]
    | some s =>
      simp only [gate, Bool.false_eq_true, if_false, false_or, reduceCtorEq, Option.some.injEq,
        exists_eq_left']
      exact gate_iff s c

/-! ### Configuration histories -/

/-- The last call of a history that did not panic (`""` or a canonical version). -/
def lastEffective : List Bytes → Option Bytes
  | [] => none
  | v :: r =>
    match lastEffective r with
    | some w => some w
    | none => if setVersion v = .panic then none else some v

/-- The declaration a single accepted call leaves behind. -/
def declOf (v : Bytes) : Option Server :=
  match setVersion v with
  | .set s => some s
  | _ => none

theorem foldl_setStep : ∀ (vs : List Bytes) (st : Option Server),
    vs.foldl setStep st = match lastEffective vs with
      | none => st
      | some v => declOf v
  | [], st => rfl
  | v :: r, st => by
    simp only [List.foldl_cons, lastEffective]
    rw [foldl_setStep r (setStep st v)]
    cases hl : lastEffective r with
    | some w => rfl
    | none =>
      simp only
      cases hs : setVersion v with
      | unset => simp [setStep, declOf, hs]
      | set s => simp [setStep, declOf, hs]
      | panic => simp [setStep, hs]

/-- **history_last** — after ANY sequence of `SetProtocolVersion` calls (declare, re-declare,
clear with "", invalid values that panic, repeats) the server's state is exactly what the LAST
non-panicking call declared: nothing if there was none or it was `""`. -/
theorem history_last (vs : List Bytes) :
    configureSeq vs = match lastEffective vs with
      | none => none
      | some v => declOf v :=
  foldl_setStep vs none

/-- **dispatched_iff_history** — the property over every configuration history: a call is
dispatched iff it is `__describe__`, or the last effective declaration is absent / `""`, or the
request declares a canonical version with that declaration's major and minor. -/
theorem dispatched_iff_history (vs : List Bytes) (isDescribe : Bool) (c : Option Bytes) :
    gate (configureSeq vs) isDescribe c = .allow ↔
      isDescribe = true ∨ (∀ v, lastEffective vs = some v → v = []) ∨
        ∃ v M m p, lastEffective vs = some v ∧ v = render M m p ∧
          ∃ p', c = some (render M m p') := by
  rw [dispatched_iff, history_last]
  cases hl : lastEffective vs with
  | none => simp
  | some v =>
    simp only [Option.some.injEq, forall_eq']
    have spec := setVersion_spec v
    constructor
    · rintro (h | h | ⟨s, hs, M, m, p, hc, hM, hm⟩)
      · exact Or.inl h
      · -- declOf v = none: v = "" (a panicking v is never `lastEffective`)
        right; left
        unfold declOf at h
        cases hv : setVersion v with
        | unset => exact spec.1.mp hv
        | set s => simp [hv] at h
        | panic =>
          exfalso
          -- lastEffective never returns a panicking value
          have : ∀ (l : List Bytes) (w : Bytes), lastEffective l = some w → setVersion w ≠ .panic := by
            intro l
            induction l with
            | nil => intro w hw; simp [lastEffective] at hw
            | cons a r ih =>
              intro w hw
              simp only [lastEffective] at hw
              cases hr : lastEffective r with
              | some x => rw [hr] at hw; simp only [Option.some.injEq] at hw; subst hw; exact ih x hr
              | none =>
                rw [hr] at hw
                simp only at hw
                split at hw
                · cases hw
                · simp only [Option.some.injEq] at hw; subst hw; assumption
          exact this vs v hl hv
      · right; right
        unfold declOf at hs
        cases hv : setVersion v with
        | unset => simp [hv] at hs
        | panic => simp [hv] at hs
        | set s' =>
          simp only [hv, Option.some.injEq] at hs
          subst hs
          have hh := (spec.2.1 s').mp hv
          exact ⟨v, s'.major, s'.minor, s'.patch, rfl, hh.2.2, p, by rw [hc, hM, hm]⟩
    · rintro (h | h | ⟨w, M, m, p, hw, hv, p', hc⟩)
      · exact Or.inl h
      · right; left
        subst h
        decide
      · right; right
        subst hw
        have hne : v ≠ [] := by
          rw [hv]; unfold render
          intro h0
          have := congrArg List.length h0
          simp at this
        have hset : setVersion v = .set { text := v, major := M, minor := m, patch := p } :=
          (spec.2.1 _).mpr ⟨hne, rfl, hv⟩
        exact ⟨{ text := v, major := M, minor := m, patch := p }, by simp [declOf, hset], M, m, p', hc, rfl, rfl⟩

/-! ### The guard is not masked by parameter binding -/

/-- **version_refusal_not_masked** — whatever else is wrong with the request's parameters (a
defect detected after the guard), a version the guard refuses is answered with the
ProtocolVersionError; only defects detected before the guard (framing, unknown method, …) take
precedence. -/
theorem version_refusal_not_masked (srv : Option Server) (isDescribe : Bool) (c : Option Bytes)
    (flaw : Stage) (hf : flaw ≠ .early) (hv : gate srv isDescribe c ≠ .allow) :
    callOutcome srv isDescribe c flaw = .refused (gate srv isDescribe c) := by
  unfold callOutcome
  cases flaw with
  | early => exact absurd rfl hf
  | none => cases hg : gate srv isDescribe c <;> simp_all
  | late => cases hg : gate srv isDescribe c <;> simp_all

theorem callOutcome_dispatched_iff (srv : Option Server) (isDescribe : Bool) (c : Option Bytes)
    (flaw : Stage) :
    callOutcome srv isDescribe c flaw = .dispatched ↔
      flaw = .none ∧ gate srv isDescribe c = .allow := by
  unfold callOutcome
  cases flaw <;> cases hg : gate srv isDescribe c <;> simp_all

/-! ### Non-vacuity (evaluating the executable definitions) -/

/-- "1.2.0" -/
def exServer : Server := { text := [49, 46, 50, 46, 48], major := 1, minor := 2, patch := 0 }

example : setVersion [49, 46, 50, 46, 48] = .set exServer := by decide
example : render 1 2 9 = [49, 46, 50, 46, 57] := by
  have h : ∀ n, n < 10 → toDigits n = [digitChar n] := fun n hn => by rw [toDigits]; simp [hn]
  unfold render
  rw [h 1 (by omega), h 2 (by omega), h 9 (by omega)]
  decide
example : check exServer (some [49, 46, 50, 46, 57]) = .allow := by decide
example : check exServer (some [49, 46, 51, 46, 48]) = .serverTooOld ∧ check exServer (some [48, 46, 57, 57, 46, 48]) = .clientTooOld ∧
    check exServer none = .absent ∧ check exServer (some [48, 49, 46, 50, 46, 48]) = .malformed ∧
    check exServer (some [49, 46, 50, 46, 48, 45, 114, 99, 49]) = .malformed ∧ check exServer (some [49, 46, 50, 46, 48, 10]) = .malformed := by decide
/-- F10's witness after the repair: 99999999999999999999999.1.0 against a server whose major is
2^63-1 is "server is too old" (before the repair both majors were clamped to 2^63-1: admitted). -/
example : check { text := [], major := 2 ^ 63 - 1, minor := 1, patch := 0 }
    (some [57, 57, 57, 57, 57, 57, 57, 57, 57, 57, 57, 57, 57, 57, 57, 57, 57, 57, 57, 57, 57, 57, 57, 46, 49, 46, 48]) = .serverTooOld := by decide
example : gate (some exServer) true (some [48, 49, 46, 50, 46, 48]) = .allow ∧ gate none false none = .allow := by decide
example : setVersion [48, 49, 46, 50, 46, 48] = .panic ∧ setVersion [] = .unset := by decide

/-- declare, then opt out: no declared version, everything admitted (seeded change C10-e). -/
example : configureSeq [[49, 46, 50, 46, 48], []] = none ∧ gate (configureSeq [[49, 46, 50, 46, 48], []]) false none = .allow ∧
    configureSeq [[49, 46, 50, 46, 48], [48, 49, 46, 50, 46, 48]] = some exServer ∧ configureSeq [[48, 49, 46, 50, 46, 48]] = none ∧
    configureSeq [[], [50, 46, 48, 46, 48], [49, 46, 50, 46, 48]] = some exServer := by decide
/-- a refused version wins over a parameter-binding defect, not over a framing defect. -/
example : callOutcome (some exServer) false (some [49, 46, 51, 46, 48]) .late = .refused .serverTooOld ∧
    callOutcome (some exServer) false (some [49, 46, 51, 46, 48]) .early = .otherError ∧
    callOutcome (some exServer) false (some [49, 46, 50, 46, 48]) .late = .otherError := by decide

end Vgi.Props.C10
