import Vgi.Model.Token
/-!
# C12 — Forged or altered state tokens never reach stream state

Theorems about `Vgi.Token.exchange` (model of `handleStreamExchange` with `openCursorToken`,
`resolveCall`, `openToken`). They hold for EVERY sealed-record table, every instance
configuration (key of any length, TTL, cache contents and size, hooks), every request (arbitrary
token bytes) and every clock value.

"Sealed by a server holding the same token key and unaltered" is `Minted`: the presented text
base64-decodes (Go's `StdEncoding`) to exactly `version ‖ nonce ‖ ciphertext` of a record that some
`Seal` under the same normalised key and the presenter's AAD produced.
-/
namespace Vgi.Props.C12
open Vgi Vgi.Token

/-- The token text decodes to the envelope of a record sealed under `key` with `aad`, and the
record's plaintext is `pt`. -/
def Minted (tbl : List SealRec) (key : Bytes) (version : UInt8) (aad token : Bytes) (pt : Plain) : Prop :=
  ∃ r ∈ tbl, r.key = normKey key ∧ r.aad = aad ∧ r.pt = pt ∧
    b64Std token = some (version :: (r.nonce ++ r.ct)) ∧ r.nonce.length = nonceLen ∧ tagLen ≤ r.ct.length

theorem aeadOpen_some {tbl : List SealRec} {key nonce aad ct : Bytes} {pt : Plain}
    (h : aeadOpen tbl key nonce aad ct = some pt) :
    ∃ r ∈ tbl, r.key = key ∧ r.nonce = nonce ∧ r.aad = aad ∧ r.ct = ct ∧ r.pt = pt := by
  unfold aeadOpen at h
  cases hf : tbl.find? (fun r => r.matches key nonce aad ct) with
  | none => simp [hf] at h
  | some r =>
    simp [hf] at h
    have hp := List.find?_some hf
    have hm := List.mem_of_find?_eq_some hf
    simp [SealRec.matches] at hp
    exact ⟨r, hm, hp.1, hp.2.1, hp.2.2.1, hp.2.2.2, h⟩

/-- A split envelope reassembles to the decoded bytes, and its nonce has full length. -/
theorem envelope_reassembles {raw : Bytes} {env : Envelope} (h : splitEnvelope raw = some env) :
    raw = env.version :: (env.nonce ++ env.ct) ∧ env.nonce.length = nonceLen ∧ minLen ≤ raw.length := by
  unfold splitEnvelope at h
  cases raw with
  | nil => simp at h
  | cons v rest =>
    simp only at h
    split at h
    · simp at h
    · rename_i hlen
      simp at h
      subst h
      simp only [List.length_cons, minLen, nonceLen, tagLen] at hlen
      refine ⟨by simp, ?_, by simp [minLen, nonceLen, tagLen]; omega⟩
      simp [nonceLen]
      omega

/-- **openToken_ok**: `openToken` succeeds only on an unaltered token minted under the same key
and the same AAD. -/
theorem openToken_ok {tbl : List SealRec} {key : Bytes} {v : UInt8} {tok aad : Bytes} {pt : Plain}
    (h : openToken tbl key v tok aad = .ok pt) : Minted tbl key v aad tok pt := by
  unfold openToken at h
  split at h
  · cases h
  · rename_i raw hraw
    split at h
    · cases h
    · rename_i env henv
      split at h
      · cases h
      · rename_i hv
        split at h
        · cases h
        · rename_i pt' hopen
          cases h
          obtain ⟨r, hm, hk, hn, ha, hc, hp⟩ := aeadOpen_some hopen
          obtain ⟨hre, hnl, hml⟩ := envelope_reassembles henv
          have hv' : env.version = v := by
            by_cases hx : env.version = v
            · exact hx
            · exact absurd hx hv
          refine ⟨r, hm, hk, ha, hp, ?_, ?_, ?_⟩
          · rw [hraw, hre, hv', hn, hc]
          · rw [hn]; exact hnl
          · rw [hre] at hml
            simp only [List.length_cons, List.length_append, minLen, nonceLen, tagLen] at hml hnl ⊢
            rw [hc]; omega

/-- `openCursor` succeeds only on a minted, in-date cursor. -/
theorem openCursor_ok {tbl : List SealRec} {key : Bytes} {ttl now : Int} {tok : Bytes} {who : Ident}
    {d : CursorData} (h : openCursor tbl key ttl now tok who = .ok d) :
    Minted tbl key cursorVersion (cursorAad who) tok (.cursor d) ∧ tooOld now ttl d.created = false := by
  unfold openCursor at h
  split at h
  · cases h
  · rename_i d' hopen
    split at h
    · cases h
    · rename_i hold
      cases h
      exact ⟨openToken_ok hopen, by simpa using hold⟩
  · cases h

/-- What `resolveCall` guarantees when it answers from the client's token (cache miss). -/
theorem resolveCall_miss_ok {tbl : List SealRec} {inst : Inst} {now : Int} {cur : CursorData}
    {callTok : Option Bytes} {who : Ident} {c : List CacheEntry} {rc : Resolved}
    (h : resolveCall tbl inst now cur callTok who = (c, .ok rc))
    (hmiss : (cacheGet inst.cacheMax inst.cache now (cacheKey cur.callId who)).1 = none) :
    ∃ t d, callTok = some t ∧ Minted tbl inst.key callVersion (callAad who) t (.call d) ∧
      d.callId = cur.callId ∧ tooOld now inst.ttl d.created = false ∧
      rc = d.resolved := by
  unfold resolveCall at h
  split at h
  · rename_i r c' hget
    rw [hget] at hmiss
    cases hmiss
  · rename_i c' hget
    split at h
    · cases h
    · cases h
    · rename_i t hne
      split at h
      · cases h
      · rename_i d hopen
        split at h
        · cases h
        · rename_i hold
          split at h
          · cases h
          · rename_i hid
            simp only [Prod.mk.injEq, Except.ok.injEq] at h
            refine ⟨t, d, rfl, openToken_ok hopen, ?_, by simpa using hold, h.2.symm⟩
            by_cases hx : d.callId = cur.callId
            · exact hx
            · exact absurd hx (by simpa using hid)
      · cases h

/-- The errors the token-opening steps can report. -/
def TokenErr : Err → Prop
  | .malformed | .version _ _ | .signature | .expired | .missingCall => True
  | _ => False

theorem openToken_err {tbl : List SealRec} {key : Bytes} {v : UInt8} {tok aad : Bytes} {e : Err}
    (h : openToken tbl key v tok aad = .error e) : TokenErr e := by
  unfold openToken at h
  split at h
  · cases h; trivial
  · split at h
    · cases h; trivial
    · split at h
      · cases h; trivial
      · split at h
        · cases h; trivial
        · cases h

theorem openCursor_err {tbl : List SealRec} {key : Bytes} {ttl now : Int} {tok : Bytes} {who : Ident}
    {e : Err} (h : openCursor tbl key ttl now tok who = .error e) : TokenErr e := by
  unfold openCursor at h
  split at h
  · rename_i e' ho; cases h; exact openToken_err ho
  · split at h
    · cases h; trivial
    · cases h
  · cases h; trivial

theorem resolveCall_err {tbl : List SealRec} {inst : Inst} {now : Int} {cur : CursorData}
    {callTok : Option Bytes} {who : Ident} {c : List CacheEntry} {e : Err}
    (h : resolveCall tbl inst now cur callTok who = (c, .error e)) : TokenErr e := by
  unfold resolveCall at h
  split at h
  · cases h
  · split at h
    · cases h; trivial
    · cases h; trivial
    · split at h
      · rename_i e' ho; cases h; exact openToken_err ho
      · split at h
        · cases h; trivial
        · split at h
          · cases h; trivial
          · cases h
      · cases h; trivial

theorem dispatch_status (tbl : List SealRec) (inst : Inst) (req : Req) (mi : MethodInfo)
    (cur : CursorData) (rc : Resolved) :
    (dispatch tbl inst req mi cur rc).status = 200 ∧
    ((dispatch tbl inst req mi cur rc).err = none ∨
     ((dispatch tbl inst req mi cur rc).err = some .sessionLost ∧ (dispatch tbl inst req mi cur rc).next = none)) := by
  unfold dispatch
  split
  · exact ⟨rfl, Or.inr ⟨rfl, rfl⟩⟩
  · split
    · exact ⟨rfl, Or.inl rfl⟩
    · split
      · exact ⟨rfl, Or.inl rfl⟩
      · exact ⟨rfl, Or.inl rfl⟩

/-- The shape of every run of `exchange` (one disjunct per exit of the Go handler). -/
theorem exchange_cases (tbl : List SealRec) (inst : Inst) (req : Req) :
    (inst.method? req.method = none ∧ exchange tbl inst req = (inst, refuse 404 .notFound)) ∨
    (∃ mi, inst.method? req.method = some mi ∧
      ((req.cursor = none ∧ exchange tbl inst req = (inst, refuse 400 .missingState)) ∨
       (∃ tok, req.cursor = some tok ∧
         ((∃ e, openCursor tbl inst.key inst.ttl req.now tok req.who = .error e ∧
             exchange tbl inst req = (inst, refuse 400 e)) ∨
          (∃ cur, openCursor tbl inst.key inst.ttl req.now tok req.who = .ok cur ∧
            (((cur.method ≠ req.method ∨ fits mi.type cur.kind = false) ∧
                exchange tbl inst req = (inst, refuse 400 .wrongMethod)) ∨
             (cur.method = req.method ∧ fits mi.type cur.kind = true ∧
               ((∃ c e, resolveCall tbl inst req.now cur req.call req.who = (c, .error e) ∧
                   exchange tbl inst req = ({ inst with cache := c }, refuse 400 e)) ∨
                (∃ c rc, resolveCall tbl inst req.now cur req.call req.who = (c, .ok rc) ∧
                   exchange tbl inst req =
                     ({ inst with cache := c }, dispatch tbl { inst with cache := c } req mi cur rc)))))))))) := by
  cases hm : inst.method? req.method with
  | none => left; exact ⟨rfl, by unfold exchange; simp only [hm]⟩
  | some mi =>
    right
    refine ⟨mi, rfl, ?_⟩
    cases hc : req.cursor with
    | none => left; exact ⟨rfl, by unfold exchange; simp only [hm, hc]⟩
    | some tok =>
      right
      refine ⟨tok, rfl, ?_⟩
      cases ho : openCursor tbl inst.key inst.ttl req.now tok req.who with
      | error e => left; exact ⟨e, rfl, by unfold exchange; simp only [hm, hc, ho]⟩
      | ok cur =>
        right
        refine ⟨cur, rfl, ?_⟩
        by_cases hw : cur.method ≠ req.method ∨ fits mi.type cur.kind = false
        · left
          exact ⟨hw, by unfold exchange; simp only [hm, hc, ho]; rw [if_pos hw]⟩
        · right
          have h1 : cur.method = req.method := by
            by_cases hx : cur.method = req.method
            · exact hx
            · exact absurd (Or.inl hx) hw
          have h2 : fits mi.type cur.kind = true := by
            cases hf : fits mi.type cur.kind with
            | true => rfl
            | false => exact absurd (Or.inr hf) hw
          refine ⟨h1, h2, ?_⟩
          cases hr : resolveCall tbl inst req.now cur req.call req.who with
          | mk c res =>
            cases res with
            | error e =>
              left
              exact ⟨c, e, rfl, by unfold exchange; simp only [hm, hc, ho]; rw [if_neg hw]; simp only [hr]⟩
            | ok rc =>
              right
              exact ⟨c, rc, rfl, by unfold exchange; simp only [hm, hc, ho]; rw [if_neg hw]; simp only [hr]⟩

/-- Every refusal before dispatch answers with the bare error and nothing else: the response is a
function of the error class alone. -/
theorem refusal_canonical (tbl : List SealRec) (inst : Inst) (req : Req) (e : Err)
    (h : (exchange tbl inst req).2.err = some e) (hs : e ≠ .sessionLost) :
    (exchange tbl inst req).2 = refuse (if e = .notFound then 404 else 400) e := by
  have tokNF : ∀ e', TokenErr e' → e' ≠ .notFound := by
    intro e' ht hx; subst hx; exact ht
  rcases exchange_cases tbl inst req with ⟨_, hx⟩ | ⟨mi, _, hrest⟩
  · rw [hx] at h ⊢; simp [refuse] at h; subst h; simp
  · rcases hrest with ⟨_, hx⟩ | ⟨tok, _, hrest⟩
    · rw [hx] at h ⊢; simp [refuse] at h; subst h; simp
    · rcases hrest with ⟨e', ho, hx⟩ | ⟨cur, _, hrest⟩
      · rw [hx] at h ⊢; simp [refuse] at h; subst h
        simp [tokNF _ (openCursor_err ho)]
      · rcases hrest with ⟨_, hx⟩ | ⟨_, _, hrest⟩
        · rw [hx] at h ⊢; simp [refuse] at h; subst h; simp
        · rcases hrest with ⟨c, e', hr, hx⟩ | ⟨c, rc, _, hx⟩
          · rw [hx] at h ⊢; simp [refuse] at h; subst h
            simp [tokNF _ (resolveCall_err hr)]
          · rw [hx] at h
            rcases (dispatch_status tbl { inst with cache := c } req mi cur rc).2 with hd | ⟨hd, _⟩
            · simp only at h; rw [hd] at h; cases h
            · simp only at h; rw [hd] at h; cases h; exact absurd rfl hs

/-- **bad_signature_uniform**: any two requests that fail at an AEAD step (bad tag, foreign key,
another caller's AAD, other token kind; cursor or call token; any instance, any table) get the
same response. -/
theorem bad_signature_uniform (tbl₁ tbl₂ : List SealRec) (inst₁ inst₂ : Inst) (req₁ req₂ : Req)
    (h₁ : (exchange tbl₁ inst₁ req₁).2.err = some .signature)
    (h₂ : (exchange tbl₂ inst₂ req₂).2.err = some .signature) :
    (exchange tbl₁ inst₁ req₁).2 = (exchange tbl₂ inst₂ req₂).2 := by
  rw [refusal_canonical _ _ _ _ h₁ (by simp), refusal_canonical _ _ _ _ h₂ (by simp)]

/-- **reject_runs_nothing**: a request not answered with status 200 (every token refusal is a
400) ran no rehydrate callback, no dispatch hook and no state method, minted nothing, and left the
session registry alone. -/
theorem reject_runs_nothing (tbl : List SealRec) (inst : Inst) (req : Req)
    (h : (exchange tbl inst req).2.status ≠ 200) :
    (exchange tbl inst req).2.events = [] ∧ (exchange tbl inst req).2.next = none ∧
    (exchange tbl inst req).1.sessions = inst.sessions := by
  rcases exchange_cases tbl inst req with ⟨_, hx⟩ | ⟨mi, _, hrest⟩
  · rw [hx]; exact ⟨rfl, rfl, rfl⟩
  · rcases hrest with ⟨_, hx⟩ | ⟨tok, _, hrest⟩
    · rw [hx]; exact ⟨rfl, rfl, rfl⟩
    · rcases hrest with ⟨e', _, hx⟩ | ⟨cur, _, hrest⟩
      · rw [hx]; exact ⟨rfl, rfl, rfl⟩
      · rcases hrest with ⟨_, hx⟩ | ⟨_, _, hrest⟩
        · rw [hx]; exact ⟨rfl, rfl, rfl⟩
        · rcases hrest with ⟨c, e', _, hx⟩ | ⟨c, rc, _, hx⟩
          · rw [hx]; exact ⟨rfl, rfl, rfl⟩
          · rw [hx] at h
            exact absurd (dispatch_status tbl { inst with cache := c } req mi cur rc).1 h

/-- Every token refusal is a 400 with no side effect on what user code can see. -/
theorem token_refusal_is_400 (tbl : List SealRec) (inst : Inst) (req : Req) (e : Err)
    (h : (exchange tbl inst req).2.err = some e) (ht : TokenErr e ∨ e = .wrongMethod ∨ e = .missingState) :
    (exchange tbl inst req).2 = refuse 400 e := by
  have hs : e ≠ .sessionLost := by
    rcases ht with ht | ht | ht
    · intro hx; subst hx; exact ht
    · subst ht; simp
    · subst ht; simp
  have hn : e ≠ .notFound := by
    rcases ht with ht | ht | ht
    · intro hx; subst hx; exact ht
    · subst ht; simp
    · subst ht; simp
  have := refusal_canonical tbl inst req e h hs
  simpa [hn] using this

/-- What it takes for user code to run, for the request to be accepted, or for a cursor to be minted. -/
theorem reaches_state_implies_minted (tbl : List SealRec) (inst : Inst) (req : Req)
    (h : (exchange tbl inst req).2.events ≠ [] ∨ (exchange tbl inst req).2.err = none ∨
         (exchange tbl inst req).2.next ≠ none) :
    ∃ tok d, req.cursor = some tok ∧
      Minted tbl inst.key cursorVersion (cursorAad req.who) tok (.cursor d) ∧
      tooOld req.now inst.ttl d.created = false ∧ d.method = req.method ∧
      ((cacheGet inst.cacheMax inst.cache req.now (cacheKey d.callId req.who)).1 = none →
        ∃ t k, req.call = some t ∧ Minted tbl inst.key callVersion (callAad req.who) t (.call k) ∧
          k.callId = d.callId ∧ tooOld req.now inst.ttl k.created = false) := by
  have refused : ∀ x st e, exchange tbl inst req = (x, refuse st e) → False := by
    intro x st e hx
    rw [hx] at h
    simp [refuse] at h
  rcases exchange_cases tbl inst req with ⟨_, hx⟩ | ⟨mi, _, hrest⟩
  · exact (refused _ _ _ hx).elim
  · rcases hrest with ⟨_, hx⟩ | ⟨tok, hc, hrest⟩
    · exact (refused _ _ _ hx).elim
    · rcases hrest with ⟨e', _, hx⟩ | ⟨cur, ho, hrest⟩
      · exact (refused _ _ _ hx).elim
      · rcases hrest with ⟨_, hx⟩ | ⟨hmeth, _, hrest⟩
        · exact (refused _ _ _ hx).elim
        · rcases hrest with ⟨c, e', _, hx⟩ | ⟨c, rc, hr, _⟩
          · exact (refused _ _ _ hx).elim
          · obtain ⟨hmint, hage⟩ := openCursor_ok ho
            refine ⟨tok, cur, hc, hmint, hage, hmeth, ?_⟩
            intro hmiss
            obtain ⟨t, k, h1, h2, h3, h4, _⟩ := resolveCall_miss_ok hr hmiss
            exact ⟨t, k, h1, h2, h3, h4⟩

/-- **accept_implies_minted**: an accepted continuation presented an unaltered cursor sealed under
this server's key for this caller, in date; and whenever the cache did not answer, an unaltered,
in-date call token sealed under the same key for the same caller, naming the same call. -/
theorem accept_implies_minted (tbl : List SealRec) (inst : Inst) (req : Req)
    (h : (exchange tbl inst req).2.accepted) :
    ∃ tok d, req.cursor = some tok ∧
      Minted tbl inst.key cursorVersion (cursorAad req.who) tok (.cursor d) ∧
      tooOld req.now inst.ttl d.created = false ∧ d.method = req.method ∧
      ((cacheGet inst.cacheMax inst.cache req.now (cacheKey d.callId req.who)).1 = none →
        ∃ t k, req.call = some t ∧ Minted tbl inst.key callVersion (callAad req.who) t (.call k) ∧
          k.callId = d.callId ∧ tooOld req.now inst.ttl k.created = false) :=
  reaches_state_implies_minted tbl inst req (Or.inr (Or.inl h))

/-- **forged_cursor_never_reaches_state**: if the presented cursor is not an unaltered token
sealed under this key for this caller (modified, truncated, extended, re-versioned, foreign key,
another caller's, another kind's, or no token at all), the answer is a 4xx client error, no user
code runs, nothing is minted and the server state is untouched. -/
theorem forged_cursor_never_reaches_state (tbl : List SealRec) (inst : Inst) (req : Req)
    (hforged : ∀ tok d, req.cursor = some tok →
      ¬ Minted tbl inst.key cursorVersion (cursorAad req.who) tok (.cursor d)) :
    ((exchange tbl inst req).2.status = 400 ∨ (exchange tbl inst req).2.status = 404) ∧
    (exchange tbl inst req).2.events = [] ∧ (exchange tbl inst req).2.next = none ∧
    (exchange tbl inst req).2.err ≠ none ∧ (exchange tbl inst req).1 = inst := by
  rcases exchange_cases tbl inst req with ⟨_, hx⟩ | ⟨mi, _, hrest⟩
  · rw [hx]; simp [refuse]
  · rcases hrest with ⟨_, hx⟩ | ⟨tok, hc, hrest⟩
    · rw [hx]; simp [refuse]
    · rcases hrest with ⟨e', _, hx⟩ | ⟨cur, ho, _⟩
      · rw [hx]; simp [refuse]
      · exact absurd (openCursor_ok ho).1 (hforged tok cur hc)

/-- **forged_call_token_never_reaches_state**: with a cache that cannot answer, a call token that
is not an unaltered token sealed under this key for this caller is refused (never a 200), no user
code runs and nothing is minted — whatever the cursor is. -/
theorem forged_call_token_never_reaches_state (tbl : List SealRec) (inst : Inst) (req : Req)
    (hmiss : ∀ callId, (cacheGet inst.cacheMax inst.cache req.now (cacheKey callId req.who)).1 = none)
    (hforged : ∀ t k, req.call = some t →
      ¬ Minted tbl inst.key callVersion (callAad req.who) t (.call k)) :
    (exchange tbl inst req).2.status ≠ 200 ∧ (exchange tbl inst req).2.events = [] ∧
    (exchange tbl inst req).2.next = none ∧ (exchange tbl inst req).2.err ≠ none := by
  rcases exchange_cases tbl inst req with ⟨_, hx⟩ | ⟨mi, _, hrest⟩
  · rw [hx]; simp [refuse]
  · rcases hrest with ⟨_, hx⟩ | ⟨tok, hc, hrest⟩
    · rw [hx]; simp [refuse]
    · rcases hrest with ⟨e', _, hx⟩ | ⟨cur, ho, hrest⟩
      · rw [hx]; simp [refuse]
      · rcases hrest with ⟨_, hx⟩ | ⟨_, _, hrest⟩
        · rw [hx]; simp [refuse]
        · rcases hrest with ⟨c, e', _, hx⟩ | ⟨c, rc, hr, _⟩
          · rw [hx]; simp [refuse]
          · obtain ⟨t, k, h1, h2, _⟩ := resolveCall_miss_ok hr (hmiss cur.callId)
            exact absurd h2 (hforged t k h1)

/-- **version_byte_checked**: a well-formed envelope whose first byte is not the cursor version
(all 255 other values) is refused, reporting both versions, whatever else it contains. -/
theorem version_byte_checked (tbl : List SealRec) (inst : Inst) (req : Req) (tok raw : Bytes)
    (env : Envelope) (mi : MethodInfo) (hm : inst.method? req.method = some mi)
    (hc : req.cursor = some tok) (hb : b64Std tok = some raw) (he : splitEnvelope raw = some env)
    (hv : env.version ≠ cursorVersion) :
    exchange tbl inst req = (inst, refuse 400 (.version env.version cursorVersion)) := by
  have : openCursor tbl inst.key inst.ttl req.now tok req.who = .error (.version env.version cursorVersion) := by
    unfold openCursor openToken
    simp only [hb, he, hv, if_true, ne_eq, not_false_eq_true]
  unfold exchange
  simp only [hm, hc, this]

/-- **short_or_bad_base64_rejected**: text that is not valid base64, or decodes to fewer than 41
bytes, is "Malformed state token". -/
theorem short_or_bad_base64_rejected (tbl : List SealRec) (inst : Inst) (req : Req) (tok : Bytes)
    (mi : MethodInfo) (hm : inst.method? req.method = some mi) (hc : req.cursor = some tok)
    (hbad : b64Std tok = none ∨ ∃ raw, b64Std tok = some raw ∧ raw.length < minLen) :
    exchange tbl inst req = (inst, refuse 400 .malformed) := by
  have : openCursor tbl inst.key inst.ttl req.now tok req.who = .error .malformed := by
    unfold openCursor openToken
    rcases hbad with hb | ⟨raw, hb, hl⟩
    · simp only [hb]
    · have : splitEnvelope raw = none := by
        unfold splitEnvelope
        cases raw with
        | nil => rfl
        | cons v rest => simp only [hl, if_true]
      simp only [hb, this]
  unfold exchange
  simp only [hm, hc, this]

/-- **foreign_key_refused**: when no record was sealed under this server's (normalised) key, every
continuation is refused and no user code runs — whatever key (of any length) minted the tokens. -/
theorem foreign_key_refused (tbl : List SealRec) (inst : Inst) (req : Req)
    (hkey : ∀ r ∈ tbl, r.key ≠ normKey inst.key) :
    (exchange tbl inst req).2.events = [] ∧ (exchange tbl inst req).2.err ≠ none ∧
    (exchange tbl inst req).2.next = none := by
  have := forged_cursor_never_reaches_state tbl inst req (by
    intro tok d _ hmint
    obtain ⟨r, hr, hk, _⟩ := hmint
    exact hkey r hr hk)
  exact ⟨this.2.1, this.2.2.2.1, this.2.2.1⟩

/-! ### Non-vacuity: a concrete minted cursor/call pair is accepted on a cold cache, and each of the
refusal hypotheses is met by a concrete request -/

def exKey : Bytes := List.replicate 32 7
def exNonce1 : Bytes := List.replicate 24 1
def exNonce2 : Bytes := List.replicate 24 2
def exCt : Bytes := List.replicate 16 9
def exCursor : CursorData := ⟨100, [65], [109], .exchange, 0, 5⟩
def exCall : CallData := ⟨100, [65], [], [83], []⟩
def exTbl : List SealRec :=
  [⟨exKey, exNonce1, cursorAad anon, exCt, .cursor exCursor⟩, ⟨exKey, exNonce2, callAad anon, exCt, .call exCall⟩]
def exInst : Inst := ⟨exKey, 60000, 0, [], false, [], [], true, true, [⟨[109], .exchange, .exchange, []⟩]⟩
/-- base64 text of `06 ‖ 01×24 ‖ 09×16`: "BgEBAQEBAQEBAQEBAQEBAQEBAQEBAQEBAQkJCQkJCQkJCQkJCQkJCQk=" -/
def exCursorTok : Bytes := [66, 103, 69, 66, 65, 81, 69, 66, 65, 81, 69, 66, 65, 81, 69, 66, 65, 81, 69, 66, 65, 81, 69, 66, 65, 81, 69, 66, 65, 81, 69, 66, 65, 81, 107, 74, 67, 81, 107, 74, 67, 81, 107, 74, 67, 81, 107, 74, 67, 81, 107, 74, 67, 81, 107, 61]
/-- base64 text of `01 ‖ 02×24 ‖ 09×16`: "AQICAgICAgICAgICAgICAgICAgICAgICAgkJCQkJCQkJCQkJCQkJCQk=" -/
def exCallTok : Bytes := [65, 81, 73, 67, 65, 103, 73, 67, 65, 103, 73, 67, 65, 103, 73, 67, 65, 103, 73, 67, 65, 103, 73, 67, 65, 103, 73, 67, 65, 103, 73, 67, 65, 103, 107, 74, 67, 81, 107, 74, 67, 81, 107, 74, 67, 81, 107, 74, 67, 81, 107, 74, 67, 81, 107, 61]
/-- the cursor with the last ciphertext byte changed: "BgEBAQEBAQEBAQEBAQEBAQEBAQEBAQEBAQkJCQkJCQkJCQkJCQkJCQg=" -/
def exFlipTok : Bytes := [66, 103, 69, 66, 65, 81, 69, 66, 65, 81, 69, 66, 65, 81, 69, 66, 65, 81, 69, 66, 65, 81, 69, 66, 65, 81, 69, 66, 65, 81, 69, 66, 65, 81, 107, 74, 67, 81, 107, 74, 67, 81, 107, 74, 67, 81, 107, 74, 67, 81, 107, 74, 67, 81, 103, 61]
/-- the cursor with version byte 7: "BwEBAQEBAQEBAQEBAQEBAQEBAQEBAQEBAQkJCQkJCQkJCQkJCQkJCQk=" -/
def exV7Tok : Bytes := [66, 119, 69, 66, 65, 81, 69, 66, 65, 81, 69, 66, 65, 81, 69, 66, 65, 81, 69, 66, 65, 81, 69, 66, 65, 81, 69, 66, 65, 81, 69, 66, 65, 81, 107, 74, 67, 81, 107, 74, 67, 81, 107, 74, 67, 81, 107, 74, 67, 81, 107, 74, 67, 81, 107, 61]
/-- the call token's envelope with its version byte rewritten to 6: "BgICAgICAgICAgICAgICAgICAgICAgICAgkJCQkJCQkJCQkJCQkJCQk=" -/
def exCallAsCursorTok : Bytes := [66, 103, 73, 67, 65, 103, 73, 67, 65, 103, 73, 67, 65, 103, 73, 67, 65, 103, 73, 67, 65, 103, 73, 67, 65, 103, 73, 67, 65, 103, 73, 67, 65, 103, 107, 74, 67, 81, 107, 74, 67, 81, 107, 74, 67, 81, 107, 74, 67, 81, 107, 74, 67, 81, 107, 61]
def exReq : Req := ⟨anon, [109], some exCursorTok, some exCallTok, false, none, 130000, []⟩

example : (exchange exTbl exInst exReq).2.err = none ∧
    (exchange exTbl exInst exReq).2.events = [.rehydrate [109], .hookStart [109] [83], .exchange [], .hookEnd] := by
  decide

-- one flipped ciphertext bit: signature failure, nothing runs
example : (exchange exTbl exInst ⟨anon, [109], some exFlipTok, some exCallTok, false, none, 130000, []⟩).2 =
    refuse 400 .signature := by decide

-- version byte 7
example : (exchange exTbl exInst ⟨anon, [109], some exV7Tok, some exCallTok, false, none, 130000, []⟩).2 =
    refuse 400 (.version 7 6) := by decide

-- a genuine cursor with the call token absent on a cold cache
example : (exchange exTbl exInst ⟨anon, [109], some exCursorTok, none, false, none, 130000, []⟩).2 =
    refuse 400 .missingCall := by decide

-- the hypothesis of `forged_cursor_never_reaches_state` holds for the flipped token
example : b64Std exFlipTok = some (6 :: (exNonce1 ++ (List.replicate 15 9 ++ [8]))) := by decide

end Vgi.Props.C12
