import Vgi.Model.Creds
namespace Vgi.Props.C24
open Vgi Vgi.Creds

end Vgi.Props.C24
