import Vgi.Model.Creds
/-!
# C24 — Credential extractors accept exactly what they are configured to accept

Theorems about `Vgi.Creds` (model of `BearerAuthenticateStatic`, `ParseXfcc`,
`splitRespectingQuotes`, `unescapeQuoted`, `extractCN`, default identity of
`MtlsAuthenticateXfcc`). All statements are for all byte strings / all lists.
-/
namespace Vgi.Props.C24
open Vgi Vgi.Creds

/-! ## Static bearer -/

theorem stripPrefix_iff : ∀ (p s t : Bytes), stripPrefix p s = some t ↔ s = p ++ t
  | [], s, t => by simp [stripPrefix, eq_comm]
  | _ :: _, [], t => by simp [stripPrefix]
  | a :: p, c :: s, t => by
    simp only [stripPrefix, List.cons_append, List.cons.injEq]
    by_cases h : a = c
    · simp only [h, if_true, true_and]; exact stripPrefix_iff p s t
    · simp only [h, if_false, reduceCtorEq, false_iff, not_and]
      intro hc; exact absurd hc.symm h

theorem lookupToken_iff (tok : Bytes) (i : Nat) : ∀ (tokens : List (Bytes × Nat)),
    (tokens.map Prod.fst).Nodup → (lookupToken tok tokens = some i ↔ (tok, i) ∈ tokens)
  | [], _ => by simp [lookupToken]
  | e :: r, hnd => by
    simp only [List.map_cons, List.nodup_cons] at hnd
    simp only [lookupToken, List.mem_cons]
    by_cases h : tok = e.1
    · simp only [h, if_true, Option.some.injEq]
      constructor
      · intro hi; left; rw [← hi]
      · rintro (he | hm)
        · rw [← he]
        · exact absurd (List.mem_map.mpr ⟨(e.1, i), hm, rfl⟩) hnd.1
    · simp only [h, if_false]
      rw [lookupToken_iff tok i r hnd.2]
      constructor
      · intro hm; right; exact hm
      · rintro (he | hm)
        · exact absurd (by rw [← he]) h
        · exact hm

/-- **bearer_iff** — the static bearer authenticator accepts a request, with identity `i`, if and
only if the FIRST Authorization value is exactly `"Bearer "` followed byte-for-byte by a
configured token whose identity is `i` (token keys distinct, as in a Go map). -/
theorem bearer_iff (tokens : List (Bytes × Nat)) (hnd : (tokens.map Prod.fst).Nodup)
    (hdrs : List Bytes) (i : Nat) :
    authStatic tokens hdrs = .ok i ↔
      ∃ t, hdrs.head? = some (bearerPrefix ++ t) ∧ (t, i) ∈ tokens := by
  unfold authStatic
  cases hdrs with
  | nil => simp
  | cons h rest =>
    simp only [List.headD_cons, List.head?_cons, Option.some.injEq]
    by_cases he : h.isEmpty
    · have : h = [] := List.isEmpty_iff.mp he
      subst this
      simp [bearerPrefix]
    · simp only [he, Bool.false_eq_true, if_false]
      cases hs : stripPrefix bearerPrefix h with
      | none =>
        simp only [reduceCtorEq, false_iff, not_exists, not_and]
        intro t ht
        rw [(stripPrefix_iff _ _ t).mpr ht] at hs
        cases hs
      | some t =>
        have ht := (stripPrefix_iff _ _ _).mp hs
        simp only
        cases hl : lookupToken t tokens with
        | none =>
          simp only [reduceCtorEq, false_iff, not_exists, not_and]
          intro t' ht' hm
          have : t' = t := List.append_cancel_left (ht'.symm.trans ht)
          subst this
          rw [(lookupToken_iff t' i tokens hnd).mpr hm] at hl
          cases hl
        | some j =>
          simp only [BearerResult.ok.injEq]
          constructor
          · intro hj
            subst hj
            exact ⟨t, ht, (lookupToken_iff t j tokens hnd).mp hl⟩
          · rintro ⟨t', ht', hm⟩
            have : t' = t := List.append_cancel_left (ht'.symm.trans ht)
            subst this
            have := (lookupToken_iff t' i tokens hnd).mpr hm
            rw [hl] at this
            exact Option.some.inj this

/-- A rejected request never yields an identity: every non-`ok` outcome is one of the three
refusals, so acceptance is exactly characterised by `bearer_iff`. -/
theorem bearer_reject_cases (tokens : List (Bytes × Nat)) (hdrs : List Bytes) :
    (∃ i, authStatic tokens hdrs = .ok i) ∨ authStatic tokens hdrs = .missing ∨
      authStatic tokens hdrs = .notBearer ∨ authStatic tokens hdrs = .unknown := by
  unfold authStatic
  simp only
  split
  · simp
  · split
    · simp
    · split <;> simp

/-! ## XFCC: splitting respects quotes -/

/-- Quote state after reading `t` from state `q`; `none` if `t` holds a delimiter outside quotes
or ends right after a backslash inside quotes. -/
def scanQ (d : UInt8) : Bool → Bytes → Option Bool
  | q, [] => some q
  | q, c :: r =>
    if c = dq then scanQ d (!q) r
    else if c = bs ∧ q = true then
      match r with
      | [] => none
      | _ :: r' => scanQ d q r'
    else if c = d ∧ q = false then none
    else scanQ d q r

theorem scanQ_cons (d : UInt8) (q : Bool) (c : UInt8) (r : Bytes) : scanQ d q (c :: r) =
    if c = dq then scanQ d (!q) r
    else if c = bs ∧ q = true then
      match r with
      | [] => none
      | _ :: r' => scanQ d q r'
    else if c = d ∧ q = false then none
    else scanQ d q r := by
  rw [scanQ.eq_def]; rfl

theorem splitQ_cons (d : UInt8) (q : Bool) (cur : Bytes) (c : UInt8) (r : Bytes) :
    splitQ d q cur (c :: r) =
    if c = dq then splitQ d (!q) (cur ++ [c]) r
    else if c = bs ∧ q = true then
      match r with
      | [] => [cur ++ [c]]
      | e :: r' => splitQ d q (cur ++ [c, e]) r'
    else if c = d ∧ q = false then cur :: splitQ d false [] r
    else splitQ d q (cur ++ [c]) r := by
  rw [splitQ.eq_def]; rfl

/-- Reading a self-contained piece `t` only accumulates it. -/
theorem splitQ_append (d : UInt8) : ∀ (n : Nat) (t : Bytes), t.length ≤ n → ∀ (q : Bool)
    (cur rest : Bytes) (q' : Bool), scanQ d q t = some q' →
    splitQ d q cur (t ++ rest) = splitQ d q' (cur ++ t) rest
  | _, [], _, q, cur, rest, q', h => by
    simp only [scanQ, Option.some.injEq] at h
    subst h; simp
  | 0, _ :: _, hl, _, _, _, _, _ => by simp at hl
  | n + 1, c :: r, hl, q, cur, rest, q', h => by
    have hl : r.length ≤ n := Nat.le_of_succ_le_succ hl
    rw [scanQ_cons] at h
    simp only [List.cons_append]
    rw [splitQ_cons]
    by_cases h1 : c = dq
    · simp only [h1, if_true] at h ⊢
      rw [splitQ_append d n r hl (!q) (cur ++ [dq]) rest q' h]
      simp
    · simp only [h1, if_false] at h ⊢
      by_cases h2 : c = bs ∧ q = true
      · simp only [h2, and_self, if_true] at h ⊢
        cases r with
        | nil => simp at h
        | cons e r' =>
          simp only [List.length_cons] at hl
          simp only [List.cons_append]
          rw [splitQ_append d n r' (by omega) true (cur ++ [bs, e]) rest q' (by simpa [h2.2] using h)]
          simp [h2.1]
      · simp only [h2, if_false] at h ⊢
        by_cases h3 : c = d ∧ q = false
        · simp [h3] at h
        · simp only [h3, if_false] at h ⊢
          rw [splitQ_append d n r hl q (cur ++ [c]) rest q' h]
          simp

theorem scanQ_append (d : UInt8) : ∀ (n : Nat) (t : Bytes), t.length ≤ n → ∀ (q : Bool)
    (rest : Bytes) (q' : Bool), scanQ d q t = some q' → scanQ d q (t ++ rest) = scanQ d q' rest
  | _, [], _, q, rest, q', h => by
    simp only [scanQ, Option.some.injEq] at h
    subst h; simp
  | 0, _ :: _, hl, _, _, _, _ => by simp at hl
  | n + 1, c :: r, hl, q, rest, q', h => by
    have hl : r.length ≤ n := Nat.le_of_succ_le_succ hl
    rw [scanQ_cons] at h
    simp only [List.cons_append]
    rw [scanQ_cons]
    by_cases h1 : c = dq
    · simp only [h1, if_true] at h ⊢
      exact scanQ_append d n r hl (!q) rest q' h
    · simp only [h1, if_false] at h ⊢
      by_cases h2 : c = bs ∧ q = true
      · simp only [h2, and_self, if_true] at h ⊢
        cases r with
        | nil => simp at h
        | cons e r' =>
          simp only [List.length_cons] at hl
          simp only [List.cons_append]
          exact scanQ_append d n r' (by omega) true rest q' (by simpa [h2.2] using h)
      · simp only [h2, if_false] at h ⊢
        by_cases h3 : c = d ∧ q = false
        · simp [h3] at h
        · simp only [h3, if_false] at h ⊢
          exact scanQ_append d n r hl q rest q' h

/-- Pieces joined by a delimiter. -/
def joinWith (d : UInt8) : List Bytes → Bytes
  | [] => []
  | [a] => a
  | a :: b :: r => a ++ d :: joinWith d (b :: r)

/-- **split_join** — splitting a delimiter-joined list of self-contained pieces (each leaves the
quote state closed and has no delimiter outside quotes) returns exactly the pieces: delimiters
inside quoted values never split. -/
theorem split_join (d : UInt8) (hd : d ≠ dq) : ∀ (a : Bytes) (r : List Bytes) (cur : Bytes),
    (∀ t ∈ a :: r, scanQ d false t = some false) →
    splitQ d false cur (joinWith d (a :: r)) = (cur ++ a) :: r
  | a, [], cur, h => by
    have := splitQ_append d a.length a (Nat.le_refl _) false cur [] false (h a (by simp))
    simp only [List.append_nil] at this
    simp [joinWith, this, splitQ]
  | a, b :: r, cur, h => by
    have ha := splitQ_append d a.length a (Nat.le_refl _) false cur (d :: joinWith d (b :: r)) false
      (h a (by simp))
    simp only [joinWith]
    rw [ha]
    have hdb : ¬ (d = bs ∧ false = true) := by simp
    rw [splitQ_cons]
    simp only [hd, if_false, hdb, and_self, if_true]
    rw [split_join d hd b r [] (fun t ht => h t (by simp [ht]))]
    simp

/-! ## XFCC: the grammar side -/

/-- Bytes that may appear in an unquoted value: printable ASCII except `"` `,` `;` `\`. -/
def plainByte (c : UInt8) : Bool :=
  0x21 ≤ c && c ≤ 0x7E && c != dq && c != comma && c != semi && c != bs

def Plain (v : Bytes) : Prop := ∀ c ∈ v, plainByte c = true

/-- Quoted-string escaping: `"` and `\` get a backslash. -/
def escape : Bytes → Bytes
  | [] => []
  | c :: r => if c = dq ∨ c = bs then bs :: c :: escape r else c :: escape r

def quote (w : Bytes) : Bytes := dq :: (escape w ++ [dq])

theorem plainByte_facts {c : UInt8} (h : plainByte c = true) :
    c ≠ dq ∧ c ≠ bs ∧ c ≠ comma ∧ c ≠ semi ∧ c.toNat < 128 ∧ asciiSpace c = false := by
  simp only [plainByte, Bool.and_eq_true, decide_eq_true_eq, bne_iff_ne, ne_eq,
    UInt8.le_iff_toNat_le] at h
  obtain ⟨⟨⟨⟨⟨h1, h2⟩, h3⟩, h4⟩, h5⟩, h6⟩ := h
  have h1' : 33 ≤ c.toNat := h1
  have h2' : c.toNat ≤ 126 := h2
  refine ⟨h3, h6, h4, h5, by omega, ?_⟩
  have e32 : (c == 32) = false := by
    rw [beq_eq_false_iff_ne]; intro hc; subst hc; simp at h1'
  have e9 : decide (c ≤ 13) = false := by
    rw [decide_eq_false_iff_not, UInt8.le_iff_toNat_le]
    have : (13 : UInt8).toNat = 13 := rfl
    omega
  simp [asciiSpace, e32, e9]

theorem scanQ_inert (d : UInt8) : ∀ (t : Bytes) (q : Bool),
    (∀ c ∈ t, c ≠ dq ∧ c ≠ bs ∧ c ≠ d) → scanQ d q t = some q
  | [], q, _ => rfl
  | c :: r, q, h => by
    have hc := h c (by simp)
    rw [scanQ_cons]
    simp only [hc.1, hc.2.1, hc.2.2, false_and, if_false]
    exact scanQ_inert d r q (fun x hx => h x (by simp [hx]))

theorem scanQ_escape (d : UInt8) : ∀ (w rest : Bytes),
    scanQ d true (escape w ++ rest) = scanQ d true rest
  | [], rest => by simp [escape]
  | c :: r, rest => by
    simp only [escape]
    by_cases h : c = dq ∨ c = bs
    · simp only [h, if_true, List.cons_append]
      rw [scanQ_cons]
      have h1 : bs ≠ dq := by decide
      simp only [h1, if_false, and_self, if_true]
      exact scanQ_escape d r rest
    · simp only [h, if_false, List.cons_append]
      simp only [not_or] at h
      rw [scanQ_cons]
      have h3 : ¬ (c = d ∧ true = false) := by simp
      simp only [h.1, h.2, if_false, false_and, h3]
      exact scanQ_escape d r rest

theorem scanQ_quote (d : UInt8) (w : Bytes) : scanQ d false (quote w) = some false := by
  unfold quote
  rw [scanQ_cons]
  simp only [if_true, Bool.not_false]
  rw [scanQ_escape, scanQ_cons]
  simp [scanQ]

theorem unescape_cons (c : UInt8) (r : Bytes) : unescapeQuoted (c :: r) =
    if c = bs then
      match r with
      | [] => [c]
      | e :: r' => if e = nl then c :: unescapeQuoted (e :: r') else e :: unescapeQuoted r'
    else c :: unescapeQuoted r := by
  rw [unescapeQuoted.eq_def]; rfl

/-- Unescaping undoes escaping. -/
theorem unescape_escape : ∀ w : Bytes, unescapeQuoted (escape w) = w
  | [] => by simp [escape, unescapeQuoted]
  | c :: r => by
    simp only [escape]
    by_cases h : c = dq ∨ c = bs
    · simp only [h, if_true]
      rw [unescape_cons]
      have hn : c ≠ nl := by rcases h with h | h <;> (subst h; decide)
      simp only [if_true, hn, if_false, unescape_escape r]
    · simp only [h, if_false]
      simp only [not_or] at h
      rw [unescape_cons]
      simp only [h.2, if_false, unescape_escape r]

/-! ## Trimming leaves text with solid ends alone -/

/-- An ASCII byte that is not white space: trimming never removes it, from either side. -/
def Solid (c : UInt8) : Prop := c.toNat < 128 ∧ asciiSpace c = false

theorem solid_ne {c : UInt8} (h : Solid c) (x : UInt8) (hx : 128 ≤ x.toNat) : c ≠ x := by
  intro e; subst e; exact absurd h.1 (by omega)

theorem trimLeft_solid {c : UInt8} (h : Solid c) (r : Bytes) : trimLeft (c :: r) = c :: r := by
  have n1 := solid_ne h 0xC2 (by decide)
  have n2 := solid_ne h 0xE1 (by decide)
  have n3 := solid_ne h 0xE2 (by decide)
  have n4 := solid_ne h 0xE3 (by decide)
  cases r with
  | nil => simp [trimLeft, h.2]
  | cons b r =>
    cases r with
    | nil => simp [trimLeft, h.2, n1]
    | cons c2 r => simp [trimLeft, h.2, n1, n2, n3, n4]

theorem trimLeftRev_solid {c : UInt8} (h : Solid c) (r : Bytes) :
    trimLeftRev (c :: r) = c :: r := by
  have m1 := solid_ne h 0x85 (by decide)
  have m2 := solid_ne h 0xA0 (by decide)
  have m3 := solid_ne h 0x80 (by decide)
  have m4 := solid_ne h 0x9F (by decide)
  have m5 : e280Space c = false := by
    have hc := h.1
    simp only [e280Space, Bool.or_eq_false_iff, Bool.and_eq_false_iff, beq_eq_false_iff_ne,
      decide_eq_false_iff_not, UInt8.le_iff_toNat_le]
    refine ⟨⟨⟨?_, ?_⟩, ?_⟩, ?_⟩
    · left; have : (0x80 : UInt8).toNat = 128 := rfl; omega
    · exact solid_ne h 0xA8 (by decide)
    · exact solid_ne h 0xA9 (by decide)
    · exact solid_ne h 0xAF (by decide)
  cases r with
  | nil => simp [trimLeftRev, h.2]
  | cons b r =>
    cases r with
    | nil => simp [trimLeftRev, h.2, m1, m2]
    | cons c2 r => simp [trimLeftRev, h.2, m1, m2, m3, m4, m5]

/-- Text that starts and ends with a solid byte is a fixed point of `strings.TrimSpace`. -/
theorem trimSpace_solid (t : Bytes) (c l : UInt8) (r i : Bytes) (ht : t = c :: r)
    (hl : t = i ++ [l]) (hc : Solid c) (hs : Solid l) : trimSpace t = t := by
  unfold trimSpace
  rw [ht, trimLeft_solid hc, ← ht, hl]
  simp only [List.reverse_append, List.reverse_cons, List.reverse_nil, List.nil_append,
    List.singleton_append]
  rw [trimLeftRev_solid hs]
  simp

theorem trimSpace_nil : trimSpace [] = [] := by decide

/-- First / last byte bookkeeping. -/
def FirstSolid (t : Bytes) : Prop := ∃ c r, t = c :: r ∧ Solid c
def LastSolid (t : Bytes) : Prop := ∃ i l, t = i ++ [l] ∧ Solid l

theorem trimSpace_ends {t : Bytes} (h1 : FirstSolid t) (h2 : LastSolid t) : trimSpace t = t := by
  obtain ⟨c, r, ht, hc⟩ := h1
  obtain ⟨i, l, hl, hs⟩ := h2
  exact trimSpace_solid t c l r i ht hl hc hs

theorem FirstSolid.append {a : Bytes} (h : FirstSolid a) (b : Bytes) : FirstSolid (a ++ b) := by
  obtain ⟨c, r, ht, hc⟩ := h
  exact ⟨c, r ++ b, by simp [ht], hc⟩

theorem LastSolid.prepend {b : Bytes} (h : LastSolid b) (a : Bytes) : LastSolid (a ++ b) := by
  obtain ⟨i, l, hl, hs⟩ := h
  exact ⟨a ++ i, l, by simp [hl], hs⟩

theorem solid_of_plain {c : UInt8} (h : plainByte c = true) : Solid c :=
  let f := plainByte_facts h
  ⟨f.2.2.2.2.1, f.2.2.2.2.2⟩

theorem plain_ends {v : Bytes} (hv : Plain v) (hne : v ≠ []) : FirstSolid v ∧ LastSolid v := by
  constructor
  · cases v with
    | nil => exact absurd rfl hne
    | cons c r => exact ⟨c, r, rfl, solid_of_plain (hv c (by simp))⟩
  · have := List.dropLast_concat_getLast hne
    exact ⟨v.dropLast, v.getLast hne, this.symm, solid_of_plain (hv _ (List.getLast_mem hne))⟩

theorem trimSpace_plain {v : Bytes} (hv : Plain v) : trimSpace v = v := by
  by_cases hne : v = []
  · subst hne; exact trimSpace_nil
  · exact trimSpace_ends (plain_ends hv hne).1 (plain_ends hv hne).2

/-! ## Rendering an XFCC header (Envoy's grammar) -/

/-- One `Key=Value` pair on the grammar side: `text` is the value as it stands between the quotes
(before escaping) or bare; for Cert/URI/By it is the URL-encoded form. -/
structure RPair where
  key : Key
  text : Bytes
  quoted : Bool

def keyName : Key → Bytes
  | .hash => [72, 97, 115, 104]                       -- "Hash"
  | .cert => [67, 101, 114, 116]                      -- "Cert"
  | .subject => [83, 117, 98, 106, 101, 99, 116]      -- "Subject"
  | .uri => [85, 82, 73]                              -- "URI"
  | .dns => [68, 78, 83]                              -- "DNS"
  | .by_ => [66, 121]                                 -- "By"

def renderValue (p : RPair) : Bytes := if p.quoted then quote p.text else p.text
def renderPair (p : RPair) : Bytes := keyName p.key ++ eqc :: renderValue p
def renderElem (ps : List RPair) : Bytes := joinWith semi (ps.map renderPair)
def renderHeader (es : List (List RPair)) : Bytes := joinWith comma (es.map renderElem)

/-- A bare value must consist of plain bytes; a quoted value may hold ANY bytes. -/
def WFPair (p : RPair) : Prop := p.quoted = true ∨ Plain p.text

/-- What the pair means: the value, URL-decoded for Cert/URI/By. -/
def pairValue (p : RPair) : Bytes := decodeFor p.key p.text

def assemble (ps : List RPair) : Elem := ps.foldl (fun e p => assign e p.key (pairValue p)) {}

theorem keyName_facts (k : Key) :
    (∀ c ∈ keyName k, c ≠ dq ∧ c ≠ bs ∧ c ≠ comma ∧ c ≠ semi ∧ c ≠ eqc) ∧
    FirstSolid (keyName k) ∧ LastSolid (keyName k) ∧ trimSpace (keyName k) = keyName k ∧
    keyOf (lowerKey (keyName k)) = some k := by
  have hs : ∀ c : UInt8, c.toNat < 128 → asciiSpace c = false → Solid c := fun _ a b => ⟨a, b⟩
  cases k
  all_goals
    refine ⟨by decide, ?_, ?_, by decide, by decide⟩
  · exact ⟨72, [97, 115, 104], rfl, hs _ (by decide) (by decide)⟩
  · exact ⟨[72, 97, 115], 104, rfl, hs _ (by decide) (by decide)⟩
  · exact ⟨67, [101, 114, 116], rfl, hs _ (by decide) (by decide)⟩
  · exact ⟨[67, 101, 114], 116, rfl, hs _ (by decide) (by decide)⟩
  · exact ⟨83, [117, 98, 106, 101, 99, 116], rfl, hs _ (by decide) (by decide)⟩
  · exact ⟨[83, 117, 98, 106, 101, 99], 116, rfl, hs _ (by decide) (by decide)⟩
  · exact ⟨85, [82, 73], rfl, hs _ (by decide) (by decide)⟩
  · exact ⟨[85, 82], 73, rfl, hs _ (by decide) (by decide)⟩
  · exact ⟨68, [78, 83], rfl, hs _ (by decide) (by decide)⟩
  · exact ⟨[68, 78], 83, rfl, hs _ (by decide) (by decide)⟩
  · exact ⟨66, [121], rfl, hs _ (by decide) (by decide)⟩
  · exact ⟨[66], 121, rfl, hs _ (by decide) (by decide)⟩

theorem splitAtEq_append : ∀ (k v : Bytes), eqc ∉ k → splitAtEq (k ++ eqc :: v) = some (k, v)
  | [], v, _ => by simp [splitAtEq]
  | c :: k, v, h => by
    simp only [List.mem_cons, not_or] at h
    have hc : c ≠ eqc := fun e => h.1 e.symm
    simp [splitAtEq, hc, splitAtEq_append k v h.2]

theorem solid_dq : Solid dq := ⟨by decide, by decide⟩
theorem solid_eqc : Solid eqc := ⟨by decide, by decide⟩

theorem quote_ends (w : Bytes) : FirstSolid (quote w) ∧ LastSolid (quote w) :=
  ⟨⟨dq, escape w ++ [dq], rfl, solid_dq⟩, ⟨dq :: escape w, dq, by simp [quote], solid_dq⟩⟩

theorem stripQuotes_quote (w : Bytes) : stripQuotes (quote w) = w := by
  unfold stripQuotes quote
  have h1 : (dq :: (escape w ++ [dq])).length ≥ 2 := by simp
  have h2 : (dq :: (escape w ++ [dq])).head? = some dq := rfl
  have h3 : (dq :: (escape w ++ [dq])).getLast? = some dq := by
    have e : dq :: (escape w ++ [dq]) = (dq :: escape w) ++ [dq] := by simp
    rw [e, List.getLast?_append]; simp
  have h4 : ((dq :: (escape w ++ [dq])).drop 1).dropLast = escape w := by simp
  simp only [h1, h2, h3, and_self, if_true, h4, unescape_escape]

theorem stripQuotes_plain {v : Bytes} (hv : Plain v) : stripQuotes v = v := by
  unfold stripQuotes
  have : ¬ (v.length ≥ 2 ∧ v.head? = some dq ∧ v.getLast? = some dq) := by
    rintro ⟨_, hh, _⟩
    cases v with
    | nil => simp at hh
    | cons c r =>
      simp only [List.head?_cons, Option.some.injEq] at hh
      exact (plainByte_facts (hv c (by simp))).1 hh
  simp only [this, if_false]

/-- The value text of a well-formed pair survives trimming and quote stripping. -/
theorem value_roundtrip (p : RPair) (h : WFPair p) :
    stripQuotes (trimSpace (renderValue p)) = p.text := by
  unfold renderValue
  by_cases hq : p.quoted = true
  · simp only [hq, if_true]
    rw [trimSpace_ends (quote_ends _).1 (quote_ends _).2, stripQuotes_quote]
  · have hp : Plain p.text := by
      rcases h with h | h
      · exact absurd h hq
      · exact h
    simp only [hq, Bool.false_eq_true, if_false]
    rw [trimSpace_plain hp, stripQuotes_plain hp]

theorem renderValue_last (p : RPair) (h : WFPair p) :
    LastSolid (eqc :: renderValue p) := by
  unfold renderValue
  by_cases hq : p.quoted = true
  · simp only [hq, if_true]
    exact (quote_ends _).2.prepend [eqc]
  · have hp : Plain p.text := by
      rcases h with h | h
      · exact absurd h hq
      · exact h
    simp only [hq, Bool.false_eq_true, if_false]
    by_cases hne : p.text = []
    · rw [hne]; exact ⟨[], eqc, rfl, solid_eqc⟩
    · exact (plain_ends hp hne).2.prepend [eqc]

theorem renderPair_ends (p : RPair) (h : WFPair p) :
    FirstSolid (renderPair p) ∧ LastSolid (renderPair p) :=
  ⟨(keyName_facts p.key).2.1.append _, (renderValue_last p h).prepend _⟩

/-- **parsePair_render** — one rendered pair is read as (key, decoded value). -/
theorem parsePair_render (e : Elem) (p : RPair) (h : WFPair p) :
    parsePair e (renderPair p) = assign e p.key (pairValue p) := by
  have kf := keyName_facts p.key
  have ends := renderPair_ends p h
  have hne : (trimSpace (renderPair p)).isEmpty = false := by
    rw [trimSpace_ends ends.1 ends.2]
    obtain ⟨c, r, ht, _⟩ := ends.1
    rw [ht]; rfl
  have heq : eqc ∉ keyName p.key := fun hm => (kf.1 eqc hm).2.2.2.2 rfl
  unfold parsePair
  simp only [hne, Bool.false_eq_true, if_false]
  rw [trimSpace_ends ends.1 ends.2]
  unfold renderPair
  rw [splitAtEq_append _ _ heq]
  simp only [kf.2.2.2.1, kf.2.2.2.2, value_roundtrip p h]
  rfl

/-! ## Elements and headers -/

theorem scanQ_renderPair (d : UInt8) (hd : d = comma ∨ d = semi) (p : RPair) (h : WFPair p) :
    scanQ d false (renderPair p) = some false := by
  have kf := (keyName_facts p.key).1
  have hk : ∀ c ∈ keyName p.key, c ≠ dq ∧ c ≠ bs ∧ c ≠ d := by
    intro c hc
    have := kf c hc
    rcases hd with hd | hd <;> subst hd
    · exact ⟨this.1, this.2.1, this.2.2.1⟩
    · exact ⟨this.1, this.2.1, this.2.2.2.1⟩
  unfold renderPair
  rw [scanQ_append d _ (keyName p.key) (Nat.le_refl _) false _ false (scanQ_inert d _ false hk)]
  have he : eqc ≠ dq ∧ eqc ≠ bs ∧ eqc ≠ d := by
    rcases hd with hd | hd <;> subst hd <;> decide
  rw [scanQ_cons]
  simp only [he.1, he.2.1, he.2.2, false_and, if_false]
  unfold renderValue
  by_cases hq : p.quoted = true
  · simp only [hq, if_true]; exact scanQ_quote d _
  · have hp : Plain p.text := by
      rcases h with h | h
      · exact absurd h hq
      · exact h
    simp only [hq, Bool.false_eq_true, if_false]
    apply scanQ_inert
    intro c hc
    have f := plainByte_facts (hp c hc)
    rcases hd with hd | hd <;> subst hd
    · exact ⟨f.1, f.2.1, f.2.2.1⟩
    · exact ⟨f.1, f.2.1, f.2.2.2.1⟩

theorem foldl_parsePair : ∀ (ps : List RPair) (e : Elem), (∀ p ∈ ps, WFPair p) →
    (ps.map renderPair).foldl parsePair e = ps.foldl (fun e p => assign e p.key (pairValue p)) e
  | [], _, _ => rfl
  | p :: ps, e, h => by
    simp only [List.map_cons, List.foldl_cons]
    rw [parsePair_render e p (h p (by simp))]
    exact foldl_parsePair ps _ (fun q hq => h q (by simp [hq]))

/-- **parseElement_render** — an element's pairs are read back in order; a `;` inside a quoted
value does not split. -/
theorem parseElement_render (p : RPair) (ps : List RPair) (h : ∀ q ∈ p :: ps, WFPair q) :
    parseElement (renderElem (p :: ps)) = assemble (p :: ps) := by
  unfold parseElement splitRespectingQuotes renderElem
  have hs : ∀ t ∈ renderPair p :: ps.map renderPair, scanQ semi false t = some false := by
    intro t ht
    rw [← List.map_cons] at ht
    obtain ⟨q, hq, rfl⟩ := List.mem_map.mp ht
    exact scanQ_renderPair semi (Or.inr rfl) q (h q hq)
  rw [List.map_cons, split_join semi (by decide) _ _ [] hs]
  simp only [List.nil_append]
  rw [← List.map_cons, foldl_parsePair (p :: ps) {} h]
  rfl

theorem scanQ_renderElem : ∀ (p : RPair) (ps : List RPair), (∀ q ∈ p :: ps, WFPair q) →
    scanQ comma false (renderElem (p :: ps)) = some false
  | p, [], h => by
    simp only [renderElem, List.map_cons, List.map_nil, joinWith]
    exact scanQ_renderPair comma (Or.inl rfl) p (h p (by simp))
  | p, p2 :: ps, h => by
    have ih := scanQ_renderElem p2 ps (fun q hq => h q (by simp [hq]))
    simp only [renderElem, List.map_cons, joinWith] at ih ⊢
    rw [scanQ_append comma _ (renderPair p) (Nat.le_refl _) false _ false
      (scanQ_renderPair comma (Or.inl rfl) p (h p (by simp)))]
    rw [scanQ_cons]
    have : semi ≠ dq ∧ semi ≠ bs ∧ semi ≠ comma := by decide
    simp only [this.1, this.2.1, this.2.2, false_and, if_false]
    exact ih

theorem renderElem_ends : ∀ (p : RPair) (ps : List RPair), (∀ q ∈ p :: ps, WFPair q) →
    FirstSolid (renderElem (p :: ps)) ∧ LastSolid (renderElem (p :: ps))
  | p, [], h => by
    simp only [renderElem, List.map_cons, List.map_nil, joinWith]
    exact renderPair_ends p (h p (by simp))
  | p, p2 :: ps, h => by
    have ih := renderElem_ends p2 ps (fun q hq => h q (by simp [hq]))
    simp only [renderElem, List.map_cons, joinWith] at ih ⊢
    refine ⟨(renderPair_ends p (h p (by simp))).1.append _, ?_⟩
    have := ih.2.prepend (renderPair p ++ [semi])
    simpa using this

/-- A well-formed header: every element has at least one pair and every pair is well formed. -/
def WFHeader (es : List (List RPair)) : Prop := ∀ ps ∈ es, ps ≠ [] ∧ ∀ p ∈ ps, WFPair p

theorem filterMap_elems : ∀ (es : List (List RPair)), WFHeader es →
    (es.map renderElem).filterMap (fun raw =>
      let t := trimSpace raw
      if t.isEmpty then none else some (parseElement t)) = es.map assemble
  | [], _ => rfl
  | ps :: es, h => by
    have hp := h ps (by simp)
    obtain ⟨p, rest, rfl⟩ : ∃ p rest, ps = p :: rest := by
      cases ps with
      | nil => exact absurd rfl hp.1
      | cons p rest => exact ⟨p, rest, rfl⟩
    have ends := renderElem_ends p rest hp.2
    have ht : trimSpace (renderElem (p :: rest)) = renderElem (p :: rest) :=
      trimSpace_ends ends.1 ends.2
    have hne : (renderElem (p :: rest)).isEmpty = false := by
      obtain ⟨c, r, e, _⟩ := ends.1
      rw [e]; rfl
    simp only [List.map_cons, List.filterMap_cons, ht, hne, Bool.false_eq_true, if_false,
      parseElement_render p rest hp.2]
    rw [filterMap_elems es (fun q hq => h q (by simp [hq]))]

/-- **xfcc_roundtrip** — `ParseXfcc` agrees with the header grammar: for every well-formed list of
elements (any number of elements, any pairs in any order, values of ANY bytes when quoted — so
commas, semicolons, quotes and backslashes inside quoted values never split anything — bare values
of plain bytes), parsing the rendered header returns exactly the elements, with Cert/URI/By
URL-decoded. -/
theorem xfcc_roundtrip (es : List (List RPair)) (h : WFHeader es) :
    parseXfcc (renderHeader es) = es.map assemble := by
  unfold parseXfcc splitRespectingQuotes renderHeader
  cases es with
  | nil => decide
  | cons ps es =>
    have hs : ∀ t ∈ renderElem ps :: es.map renderElem, scanQ comma false t = some false := by
      intro t ht
      rw [← List.map_cons] at ht
      obtain ⟨qs, hq, rfl⟩ := List.mem_map.mp ht
      have hw := h qs hq
      cases qs with
      | nil => exact absurd rfl hw.1
      | cons p rest => exact scanQ_renderElem p rest hw.2
    rw [List.map_cons, split_join comma (by decide) _ _ [] hs]
    simp only [List.nil_append]
    rw [← List.map_cons]
    exact filterMap_elems (ps :: es) h

/-! ## URL-encoded fields are decoded -/

def hexUp (n : UInt8) : UInt8 := if n < 10 then 48 + n else 55 + n

/-- Percent-encode every byte (`%XX`, upper-case hex). -/
def pctEncode : Bytes → Bytes
  | [] => []
  | c :: r => pct :: hexUp (c / 16) :: hexUp (c % 16) :: pctEncode r

set_option maxRecDepth 20000 in
theorem hex_roundtrip_nat : ∀ n, n < 256 →
    isHex (hexUp (UInt8.ofNat n / 16)) = true ∧ isHex (hexUp (UInt8.ofNat n % 16)) = true ∧
    unhex (hexUp (UInt8.ofNat n / 16)) * 16 + unhex (hexUp (UInt8.ofNat n % 16)) = UInt8.ofNat n ∧
    plainByte (hexUp (UInt8.ofNat n / 16)) = true ∧ plainByte (hexUp (UInt8.ofNat n % 16)) = true := by
  decide

theorem hex_roundtrip (c : UInt8) :
    isHex (hexUp (c / 16)) = true ∧ isHex (hexUp (c % 16)) = true ∧
    unhex (hexUp (c / 16)) * 16 + unhex (hexUp (c % 16)) = c ∧
    plainByte (hexUp (c / 16)) = true ∧ plainByte (hexUp (c % 16)) = true := by
  have := hex_roundtrip_nat c.toNat c.toNat_lt
  simpa using this

theorem queryUnescape_cons (c : UInt8) (r : Bytes) : queryUnescape (c :: r) =
    if c = pct then
      match r with
      | h :: l :: r' =>
        if isHex h ∧ isHex l then (queryUnescape r').map fun t => (unhex h * 16 + unhex l) :: t
        else none
      | _ => none
    else (queryUnescape r).map fun t => (if c = plus then 32 else c) :: t := by
  rw [queryUnescape.eq_def]; rfl

/-- **queryUnescape_pctEncode** — decoding undoes percent-encoding, for every byte string. -/
theorem queryUnescape_pctEncode : ∀ v : Bytes, queryUnescape (pctEncode v) = some v
  | [] => by simp [pctEncode, queryUnescape]
  | c :: r => by
    have hx := hex_roundtrip c
    simp only [pctEncode]
    rw [queryUnescape_cons]
    simp only [if_true, hx.1, hx.2.1, and_self, queryUnescape_pctEncode r, Option.map_some,
      hx.2.2.1]

theorem plain_pctEncode : ∀ v : Bytes, Plain (pctEncode v)
  | [] => by intro c hc; cases hc
  | c :: r => by
    have hx := hex_roundtrip c
    intro x hxm
    simp only [pctEncode, List.mem_cons] at hxm
    rcases hxm with h | h | h | h
    · subst h; decide
    · subst h; exact hx.2.2.2.1
    · subst h; exact hx.2.2.2.2
    · exact plain_pctEncode r x h

/-- A Cert/URI/By pair carrying the percent-encoding of `v` means `v`, quoted or bare. -/
theorem encoded_pair_value (k : Key) (hk : k = .cert ∨ k = .uri ∨ k = .by_) (v : Bytes) (b : Bool) :
    WFPair { key := k, text := pctEncode v, quoted := b } ∧
    pairValue { key := k, text := pctEncode v, quoted := b } = v := by
  refine ⟨Or.inr (plain_pctEncode v), ?_⟩
  rcases hk with h | h | h <;> subst h <;> simp [pairValue, decodeFor, queryUnescape_pctEncode]

/-- Hash/Subject/DNS values are taken as they are. -/
theorem raw_pair_value (k : Key) (hk : k = .hash ∨ k = .subject ∨ k = .dns) (v : Bytes) (b : Bool) :
    pairValue { key := k, text := v, quoted := b } = v := by
  rcases hk with h | h | h <;> subst h <;> rfl

/-! ## The CN of a subject -/

/-- One relative distinguished name `key=val`, `val` in its escaped string form. -/
structure RDN where
  key : Bytes
  val : Bytes

def renderRDN (r : RDN) : Bytes := r.key ++ eqc :: r.val
def renderDN (rs : List RDN) : Bytes := joinWith comma (rs.map renderRDN)

/-- `t` has no comma outside a backslash escape and does not end in a dangling backslash. -/
def dnTok : Bytes → Bool
  | [] => true
  | c :: r =>
    if c = comma then false
    else if c = bs then
      match r with
      | [] => false
      | e :: r' => if e = nl then dnTok (e :: r') else dnTok r'
    else dnTok r

theorem dnTok_cons (c : UInt8) (r : Bytes) : dnTok (c :: r) =
    if c = comma then false
    else if c = bs then
      match r with
      | [] => false
      | e :: r' => if e = nl then dnTok (e :: r') else dnTok r'
    else dnTok r := by
  rw [dnTok.eq_def]; rfl

theorem dnParts_cons (cur : Bytes) (c : UInt8) (r : Bytes) : dnParts cur (c :: r) =
    if c = comma then flush cur ++ dnParts [] r
    else if c = bs then
      match r with
      | [] => [cur ++ [c]]
      | e :: r' => if e = nl then dnParts (cur ++ [c]) (e :: r') else dnParts (cur ++ [c, e]) r'
    else dnParts (cur ++ [c]) r := by
  rw [dnParts.eq_def]; rfl

theorem dnParts_append : ∀ (n : Nat) (t : Bytes), t.length ≤ n → ∀ (cur rest : Bytes),
    dnTok t = true → dnParts cur (t ++ rest) = dnParts (cur ++ t) rest
  | _, [], _, cur, rest, _ => by simp
  | 0, _ :: _, hl, _, _, _ => by simp at hl
  | n + 1, c :: r, hl, cur, rest, h => by
    have hl : r.length ≤ n := Nat.le_of_succ_le_succ hl
    rw [dnTok_cons] at h
    simp only [List.cons_append]
    rw [dnParts_cons]
    by_cases h1 : c = comma
    · simp [h1] at h
    · simp only [h1, if_false] at h ⊢
      by_cases h2 : c = bs
      · simp only [h2, if_true] at h ⊢
        cases r with
        | nil => simp at h
        | cons e r' =>
          simp only [List.length_cons] at hl
          simp only [List.cons_append]
          by_cases h3 : e = nl
          · simp only [h3, if_true] at h ⊢
            have := dnParts_append n (nl :: r') (by simp; omega) (cur ++ [bs]) rest h
            simp only [List.cons_append] at this
            rw [this]; simp
          · simp only [h3, if_false] at h ⊢
            rw [dnParts_append n r' (by omega) (cur ++ [bs, e]) rest h]; simp
      · simp only [h2, if_false] at h ⊢
        rw [dnParts_append n r hl (cur ++ [c]) rest h]; simp

theorem dnParts_join : ∀ (a : Bytes) (r : List Bytes) (cur : Bytes),
    (∀ t ∈ a :: r, dnTok t = true ∧ t ≠ []) →
    dnParts cur (joinWith comma (a :: r)) = (cur ++ a) :: r
  | a, [], cur, h => by
    have ha := h a (by simp)
    have := dnParts_append a.length a (Nat.le_refl _) cur [] ha.1
    simp only [List.append_nil] at this
    have hne : (cur ++ a).isEmpty = false := by
      cases a with
      | nil => exact absurd rfl ha.2
      | cons x y => simp
    simp [joinWith, this, dnParts, flush, hne]
  | a, b :: r, cur, h => by
    have ha := h a (by simp)
    simp only [joinWith]
    rw [dnParts_append a.length a (Nat.le_refl _) cur _ ha.1, dnParts_cons]
    have hne : (cur ++ a).isEmpty = false := by
      cases a with
      | nil => exact absurd rfl ha.2
      | cons x y => simp
    simp only [if_true, flush, hne, Bool.false_eq_true, if_false]
    rw [dnParts_join b r [] (fun t ht => h t (by simp [ht]))]
    simp

/-- The key spells CN (any case). -/
def isCN (k : Bytes) : Bool :=
  match k with
  | [a, b] => (a == 67 || a == 99) && (b == 78 || b == 110)
  | _ => false

theorem cnOfPart_rdn (k v : Bytes) (hk : eqc ∉ k) :
    cnOfPart (k ++ eqc :: v) = if isCN k = true ∧ v ≠ [] then some v else none := by
  have e1 : eqc ≠ 67 ∧ eqc ≠ 99 ∧ eqc ≠ 78 ∧ eqc ≠ 110 := by decide
  match k, hk with
  | [], _ =>
    rcases v with _ | ⟨x, _ | ⟨y, _ | ⟨z, w⟩⟩⟩ <;> simp [cnOfPart, isCN, e1]
  | [a], _ =>
    cases v with
    | nil => simp [cnOfPart, isCN]
    | cons x y =>
      cases y with
      | nil => simp [cnOfPart, isCN]
      | cons z w => simp [cnOfPart, isCN, e1]
  | [a, b], _ =>
    cases v with
    | nil => simp [cnOfPart, isCN]
    | cons x y => simp [cnOfPart, isCN]
  | a :: b :: c :: k', hk =>
    have hc : c ≠ eqc := by
      intro e; apply hk; simp [e]
    cases k' with
    | nil => simp [cnOfPart, isCN, hc]
    | cons x y => simp [cnOfPart, isCN, hc]

/-- A relative distinguished name as it appears in a subject string: key of letters/digits (no
comma, backslash or '='; starts with a solid byte), value in escaped form (no bare comma, no
dangling backslash) that is empty or ends with a solid byte. -/
def WFRDN (r : RDN) : Prop :=
  FirstSolid r.key ∧ (∀ c ∈ r.key, c ≠ comma ∧ c ≠ bs ∧ c ≠ eqc) ∧ dnTok r.val = true ∧
    (r.val = [] ∨ LastSolid r.val)

theorem dnTok_inert : ∀ (k rest : Bytes), (∀ c ∈ k, c ≠ comma ∧ c ≠ bs) →
    dnTok (k ++ rest) = dnTok rest
  | [], _, _ => rfl
  | c :: k, rest, h => by
    have hc := h c (by simp)
    simp only [List.cons_append]
    rw [dnTok_cons]
    simp only [hc.1, hc.2, if_false]
    exact dnTok_inert k rest (fun x hx => h x (by simp [hx]))

theorem renderRDN_facts (r : RDN) (h : WFRDN r) :
    dnTok (renderRDN r) = true ∧ renderRDN r ≠ [] ∧ trimSpace (renderRDN r) = renderRDN r := by
  obtain ⟨hf, hk, hv, hl⟩ := h
  refine ⟨?_, ?_, ?_⟩
  · unfold renderRDN
    rw [dnTok_inert _ _ (fun c hc => ⟨(hk c hc).1, (hk c hc).2.1⟩), dnTok_cons]
    have : eqc ≠ comma ∧ eqc ≠ bs := by decide
    simp only [this.1, this.2, if_false, hv]
  · obtain ⟨c, t, e, _⟩ := hf
    simp [renderRDN, e]
  · apply trimSpace_ends (hf.append _)
    rcases hl with hl | hl
    · rw [hl]; exact ⟨r.key, eqc, rfl, solid_eqc⟩
    · have := hl.prepend (r.key ++ [eqc])
      simpa using this

/-- The value of the first RDN whose key is CN and whose value is not empty ("" if none). -/
def firstCN : List RDN → Bytes
  | [] => []
  | r :: rs => if isCN r.key = true ∧ r.val ≠ [] then r.val else firstCN rs

theorem findSome_rdns : ∀ (rs : List RDN), (∀ r ∈ rs, WFRDN r) →
    ((rs.map renderRDN).findSome? fun p => cnOfPart (trimSpace p)).getD [] = firstCN rs
  | [], _ => rfl
  | r :: rs, h => by
    have hr := h r (by simp)
    have hk : eqc ∉ r.key := fun hm => (hr.2.1 eqc hm).2.2 rfl
    simp only [List.map_cons, List.findSome?_cons, (renderRDN_facts r hr).2.2, firstCN]
    unfold renderRDN
    rw [cnOfPart_rdn r.key r.val hk]
    by_cases hc : isCN r.key = true ∧ r.val ≠ []
    · simp [hc]
    · simp only [hc, if_false]
      exact findSome_rdns rs (fun x hx => h x (by simp [hx]))

/-- **cn_of_subject** — for every subject string rendered from well-formed RDNs (escaped commas
inside values do not split), `extractCN` returns the value of the first CN RDN. -/
theorem cn_of_subject (rs : List RDN) (h : ∀ r ∈ rs, WFRDN r) :
    extractCN (renderDN rs) = firstCN rs := by
  unfold extractCN renderDN
  cases rs with
  | nil => rfl
  | cons r rs =>
    have hs : ∀ t ∈ renderRDN r :: rs.map renderRDN, dnTok t = true ∧ t ≠ [] := by
      intro t ht
      rw [← List.map_cons] at ht
      obtain ⟨x, hx, rfl⟩ := List.mem_map.mp ht
      exact ⟨(renderRDN_facts x (h x hx)).1, (renderRDN_facts x (h x hx)).2.1⟩
    rw [List.map_cons, dnParts_join _ _ [] hs]
    simp only [List.nil_append]
    rw [← List.map_cons]
    exact findSome_rdns (r :: rs) h

/-! ## Default identity of `MtlsAuthenticateXfcc` -/

theorem renderHeader_first : ∀ (ps : List RPair) (es : List (List RPair)), WFHeader (ps :: es) →
    FirstSolid (renderHeader (ps :: es))
  | ps, es, h => by
    have hp := h ps (by simp)
    obtain ⟨p, rest, rfl⟩ : ∃ p rest, ps = p :: rest := by
      cases ps with
      | nil => exact absurd rfl hp.1
      | cons p rest => exact ⟨p, rest, rfl⟩
    have f := (renderElem_ends p rest hp.2).1
    cases es with
    | nil => simpa [renderHeader, joinWith] using f
    | cons q qs => simpa [renderHeader, joinWith] using f.append _

/-- **xfcc_identity** — for a well-formed header with at least one element (first
X-Forwarded-Client-Cert value), the default authenticator accepts and the principal is the CN
extracted from the subject of the SELECTED element: the first one, or the last one when
`SelectElement = "last"`. -/
theorem xfcc_identity (last : Bool) (ps : List RPair) (es : List (List RPair))
    (h : WFHeader (ps :: es)) (more : List Bytes) :
    xfccAuth last (renderHeader (ps :: es) :: more) =
      let e := assemble (if last then (ps :: es).getLast (by simp) else ps)
      .ok (extractCN e.subject) e := by
  have hne : (renderHeader (ps :: es)).isEmpty = false := by
    obtain ⟨c, r, e, _⟩ := renderHeader_first ps es h
    rw [e]; rfl
  unfold xfccAuth
  simp only [List.headD_cons, hne, Bool.false_eq_true, if_false, xfcc_roundtrip _ h]
  cases last with
  | false => simp
  | true =>
    simp only [if_true]
    rw [List.getLast?_map, List.getLast?_eq_some_getLast (by simp)]
    simp

/-- … and when that subject is a rendered DN, the principal is its first CN. -/
theorem xfcc_identity_cn (last : Bool) (ps : List RPair) (es : List (List RPair))
    (h : WFHeader (ps :: es)) (more : List Bytes) (rs : List RDN) (hr : ∀ r ∈ rs, WFRDN r)
    (hsub : (assemble (if last then (ps :: es).getLast (by simp) else ps)).subject = renderDN rs) :
    ∃ e, xfccAuth last (renderHeader (ps :: es) :: more) = .ok (firstCN rs) e := by
  refine ⟨assemble (if last then (ps :: es).getLast (by simp) else ps), ?_⟩
  rw [xfcc_identity last ps es h more]
  simp only [hsub, cn_of_subject rs hr]

/-! ## Blank elements are skipped -/

/-- A piece between two commas: white space only (possibly nothing), or a real element. -/
inductive Piece
  | blank (b : Bytes)
  | elem (ps : List RPair)

def renderPiece : Piece → Bytes
  | .blank b => b
  | .elem ps => renderElem ps

def WFPiece : Piece → Prop
  | .blank b => ∀ c ∈ b, asciiSpace c = true
  | .elem ps => ps ≠ [] ∧ ∀ p ∈ ps, WFPair p

/-- The real elements among the pieces, in order. -/
def pieceElems : List Piece → List (List RPair)
  | [] => []
  | .blank _ :: r => pieceElems r
  | .elem ps :: r => ps :: pieceElems r

theorem trimLeft_blank : ∀ (b : Bytes), (∀ c ∈ b, asciiSpace c = true) → trimLeft b = []
  | [], _ => rfl
  | [a], h => by simp [trimLeft, h a (by simp)]
  | [a, b], h => by
    simp only [trimLeft, h a (by simp), if_true]
    exact trimLeft_blank [b] (fun c hc => h c (by simp at hc; simp [hc]))
  | a :: b :: c :: r, h => by
    simp only [trimLeft, h a (by simp), if_true]
    exact trimLeft_blank (b :: c :: r) (fun x hx => h x (by simp at hx ⊢; right; exact hx))

theorem trimSpace_blank (b : Bytes) (h : ∀ c ∈ b, asciiSpace c = true) : trimSpace b = [] := by
  unfold trimSpace
  rw [trimLeft_blank b h]
  rfl

theorem asciiSpace_inert {c : UInt8} (h : asciiSpace c = true) : c ≠ dq ∧ c ≠ bs ∧ c ≠ comma := by
  refine ⟨?_, ?_, ?_⟩ <;> (intro e; subst e; revert h; decide)

theorem scanQ_piece (pc : Piece) (h : WFPiece pc) : scanQ comma false (renderPiece pc) = some false := by
  cases pc with
  | blank b => exact scanQ_inert comma b false (fun c hc => asciiSpace_inert (h c hc))
  | elem ps =>
    obtain ⟨hne, hw⟩ := h
    cases ps with
    | nil => exact absurd rfl hne
    | cons p rest => exact scanQ_renderElem p rest hw

theorem filterMap_pieces : ∀ (pcs : List Piece), (∀ pc ∈ pcs, WFPiece pc) →
    (pcs.map renderPiece).filterMap (fun raw =>
      let t := trimSpace raw
      if t.isEmpty then none else some (parseElement t)) = (pieceElems pcs).map assemble
  | [], _ => rfl
  | .blank b :: r, h => by
    have hb : WFPiece (.blank b) := h _ (by simp)
    simp only [List.map_cons, renderPiece, List.filterMap_cons, trimSpace_blank b hb, pieceElems]
    exact filterMap_pieces r (fun q hq => h q (by simp [hq]))
  | .elem ps :: r, h => by
    have hp : WFPiece (.elem ps) := h _ (by simp)
    obtain ⟨p, rest, rfl⟩ : ∃ p rest, ps = p :: rest := by
      cases ps with
      | nil => exact absurd rfl hp.1
      | cons p rest => exact ⟨p, rest, rfl⟩
    have ends := renderElem_ends p rest hp.2
    have ht : trimSpace (renderElem (p :: rest)) = renderElem (p :: rest) :=
      trimSpace_ends ends.1 ends.2
    have hne : (renderElem (p :: rest)).isEmpty = false := by
      obtain ⟨c, t, e, _⟩ := ends.1
      rw [e]; rfl
    simp only [List.map_cons, renderPiece, List.filterMap_cons, ht, hne, Bool.false_eq_true,
      if_false, parseElement_render p rest hp.2, pieceElems]
    rw [filterMap_pieces r (fun q hq => h q (by simp [hq]))]

/-- **xfcc_roundtrip_blanks** — white-space-only and empty pieces between commas, anywhere in the
header (leading, trailing, in the middle), contribute no element: the parse is exactly the list of
the real elements. -/
theorem xfcc_roundtrip_blanks (pc : Piece) (pcs : List Piece) (h : ∀ q ∈ pc :: pcs, WFPiece q) :
    parseXfcc (joinWith comma ((pc :: pcs).map renderPiece)) = (pieceElems (pc :: pcs)).map assemble := by
  unfold parseXfcc splitRespectingQuotes
  have hs : ∀ t ∈ renderPiece pc :: pcs.map renderPiece, scanQ comma false t = some false := by
    intro t ht
    rw [← List.map_cons] at ht
    obtain ⟨q, hq, rfl⟩ := List.mem_map.mp ht
    exact scanQ_piece q (h q hq)
  rw [List.map_cons, split_join comma (by decide) _ _ [] hs]
  simp only [List.nil_append]
  rw [← List.map_cons]
  exact filterMap_pieces (pc :: pcs) h

/-- **xfcc_identity_blanks** — the default identity skips blank pieces: it is the CN of the subject
of the first (last) REAL element, and a header made of blank pieces only is never accepted. -/
theorem xfcc_identity_blanks (last : Bool) (pc : Piece) (pcs : List Piece)
    (h : ∀ q ∈ pc :: pcs, WFPiece q) (more : List Bytes) :
    xfccAuth last (joinWith comma ((pc :: pcs).map renderPiece) :: more) =
      if (joinWith comma ((pc :: pcs).map renderPiece)).isEmpty then .missing
      else match (if last then (pieceElems (pc :: pcs)).getLast? else (pieceElems (pc :: pcs)).head?) with
        | none => .empty
        | some ps => .ok (extractCN (assemble ps).subject) (assemble ps) := by
  by_cases he : (joinWith comma ((pc :: pcs).map renderPiece)).isEmpty = true
  · simp only [xfccAuth, List.headD_cons, he, if_true]
  · simp only [xfccAuth, List.headD_cons, he, Bool.false_eq_true, if_false]
    rw [xfcc_roundtrip_blanks pc pcs h]
    cases last with
    | false =>
      simp only [Bool.false_eq_true, if_false, List.head?_map]
      cases (pieceElems (pc :: pcs)).head? <;> rfl
    | true =>
      simp only [if_true, List.getLast?_map]
      cases (pieceElems (pc :: pcs)).getLast? <;> rfl

/-! ## Non-vacuity (evaluating the executable definitions) -/

/-- tokens "s3cret" ↦ 0, "s3cre" ↦ 1 (a proper prefix), "" ↦ 2 -/
def exTokens : List (Bytes × Nat) := [([115, 51, 99, 114, 101, 116], 0), ([115, 51, 99, 114, 101], 1), ([], 2)]

example : (exTokens.map Prod.fst).Nodup := by decide
example : authStatic exTokens [[66, 101, 97, 114, 101, 114, 32, 115, 51, 99, 114, 101, 116]] = .ok 0 ∧ authStatic exTokens [[66, 101, 97, 114, 101, 114, 32, 115, 51, 99, 114, 101]] = .ok 1 ∧
    authStatic exTokens [[66, 101, 97, 114, 101, 114, 32]] = .ok 2 ∧
    authStatic exTokens [[98, 101, 97, 114, 101, 114, 32, 115, 51, 99, 114, 101, 116]] = .notBearer ∧ authStatic exTokens [[66, 101, 97, 114, 101, 114, 32, 32, 115, 51, 99, 114, 101, 116]] = .unknown ∧
    authStatic exTokens [[66, 101, 97, 114, 101, 114, 32, 115, 51, 99, 114, 101, 116, 32]] = .unknown ∧ authStatic exTokens [] = .missing ∧
    authStatic exTokens [[66, 97, 115, 105, 99, 32, 120], [66, 101, 97, 114, 101, 114, 32, 115, 51, 99, 114, 101, 116]] = .notBearer := by decide

/-- `Hash=ab;Subject="CN=Doe\\, John,O=a;b";URI=%41,By="x"` rendered from the grammar. -/
def exHeader : List (List RPair) :=
  [[{ key := .hash, text := [97, 98], quoted := false },
    { key := .subject, text := [67, 78, 61, 68, 111, 101, 92, 44, 32, 74, 111, 104, 110, 44, 79, 61, 97, 59, 98], quoted := true },
    { key := .uri, text := [37, 52, 49], quoted := false }],
   [{ key := .by_, text := [120], quoted := true }]]

example : WFHeader exHeader := by
  intro ps hps
  simp only [exHeader, List.mem_cons, List.not_mem_nil, or_false] at hps
  rcases hps with rfl | rfl
  · refine ⟨by simp, ?_⟩
    intro p hp
    simp only [List.mem_cons, List.not_mem_nil, or_false] at hp
    rcases hp with rfl | rfl | rfl
    · right; unfold Plain; decide
    · left; rfl
    · right; unfold Plain; decide
  · refine ⟨by simp, ?_⟩
    intro p hp
    simp only [List.mem_cons, List.not_mem_nil, or_false] at hp
    subst hp; left; rfl

example : renderHeader exHeader = [72, 97, 115, 104, 61, 97, 98, 59, 83, 117, 98, 106, 101, 99, 116, 61, 34, 67, 78, 61, 68, 111, 101, 92, 92, 44, 32, 74, 111, 104, 110, 44, 79, 61, 97, 59, 98, 34, 59, 85, 82, 73, 61, 37, 52, 49, 44, 66, 121, 61, 34, 120, 34] := by decide
example : parseXfcc [72, 97, 115, 104, 61, 97, 98, 59, 83, 117, 98, 106, 101, 99, 116, 61, 34, 67, 78, 61, 68, 111, 101, 92, 92, 44, 32, 74, 111, 104, 110, 44, 79, 61, 97, 59, 98, 34, 59, 85, 82, 73, 61, 37, 52, 49, 44, 66, 121, 61, 34, 120, 34] =
    [{ hash := [97, 98], subject := [67, 78, 61, 68, 111, 101, 92, 44, 32, 74, 111, 104, 110, 44, 79, 61, 97, 59, 98], uri := [65] }, { by_ := [120] }] := by decide
example : extractCN [67, 78, 61, 68, 111, 101, 92, 44, 32, 74, 111, 104, 110, 44, 79, 61, 97, 59, 98] = [68, 111, 101, 92, 44, 32, 74, 111, 104, 110] := by decide
example : xfccAuth false [[72, 97, 115, 104, 61, 97, 98, 59, 83, 117, 98, 106, 101, 99, 116, 61, 34, 67, 78, 61, 68, 111, 101, 92, 92, 44, 32, 74, 111, 104, 110, 44, 79, 61, 97, 59, 98, 34, 59, 85, 82, 73, 61, 37, 52, 49, 44, 66, 121, 61, 34, 120, 34]] =
    .ok [68, 111, 101, 92, 44, 32, 74, 111, 104, 110] { hash := [97, 98], subject := [67, 78, 61, 68, 111, 101, 92, 44, 32, 74, 111, 104, 110, 44, 79, 61, 97, 59, 98], uri := [65] } := by decide
/-- noise: an unbalanced quote swallows the rest; `%zz` is left as is; NBSP is trimmed. -/
example : (parseXfcc [72, 97, 115, 104, 61, 34, 97, 44, 72, 97, 115, 104, 61, 98, 59, 83, 117, 98, 106, 101, 99, 116, 61, 99]).length = 1 ∧
    (parseXfcc [85, 82, 73, 61, 37, 122, 122]) = [{ uri := [37, 122, 122] }] ∧ trimSpace [194, 160, 97, 226, 128, 131, 32] = [97] := by decide

/-- blank pieces at either end: ` ,Hash=ab, ` parses to the one real element; a header of blanks
only is refused (seeded change C24-f). -/
example : parseXfcc [32, 44, 72, 97, 115, 104, 61, 97, 98, 44, 32] = [{ hash := [97, 98] }] ∧ xfccAuth true [[32, 44, 72, 97, 115, 104, 61, 97, 98, 44, 32]] = .ok [] { hash := [97, 98] } ∧
    xfccAuth true [[32, 44, 32]] = .empty ∧ xfccAuth false [[32, 44, 83, 117, 98, 106, 101, 99, 116, 61, 34, 67, 78, 61, 120, 34, 44, 32]] = .ok [120] { subject := [67, 78, 61, 120] } := by
  decide

end Vgi.Props.C24
