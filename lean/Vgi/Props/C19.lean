import Vgi.Proofs.HttpStream
/-!
# C19 — Response size caps hold on every response

Property theorems about the cap logic of `Vgi.HttpStream` (model of `vgirpc/http_response_cap.go`:
`enforceResponseBudgets`, `predictExternalizeBytes`; `vgirpc/http_unary.go`: the response part of
`handleUnary`; `vgirpc/http_stream.go`: `handleExchangeCall`, `checkExternalBudget`,
`runProduceLoopSized`, `handleProducerContinuation`).

Serialized sizes (`Env`: body length, per-batch wire sizes, buffer sizes, raw upload sizes) are
universally quantified environment inputs: every statement holds for ALL sizes, all caps, all
thresholds, all batch limits and all scripted states.
-/
namespace Vgi.Props.C19
open Vgi Vgi.HttpStream Vgi.Generated.C16

/-! ## Unary -/

theorem enforce_none {cfg : Cfg} {wire ext : Nat} (h : enforceBudgets cfg wire ext = none) :
    (cfg.maxResp > 0 → wire ≤ cfg.maxResp) ∧ (cfg.maxExt > 0 → ext ≤ cfg.maxExt) := by
  unfold enforceBudgets at h
  split at h
  · cases h
  · split at h
    · cases h
    · constructor <;> intro hp <;> omega

theorem enforce_some {cfg : Cfg} {wire ext : Nat} {e : Err} (h : enforceBudgets cfg wire ext = some e) :
    (e = .capWire ∧ cfg.maxResp > 0 ∧ wire > cfg.maxResp) ∨ (e = .capExt ∧ cfg.maxExt > 0 ∧ ext > cfg.maxExt) := by
  unfold enforceBudgets at h
  split at h
  · cases h; rename_i hc; exact Or.inl ⟨rfl, hc.1, hc.2⟩
  · split at h
    · cases h; rename_i hc; exact Or.inr ⟨rfl, hc.1, hc.2⟩
    · cases h

theorem unary_hard_caps (cfg : Cfg) (rq : UReq) (hok : (handleUnary cfg rq).rpcErr = false) :
    (cfg.maxResp > 0 → rq.env.wire ≤ cfg.maxResp) ∧ (cfg.maxExt > 0 → unaryCharged cfg rq ≤ cfg.maxExt) := by
  unfold handleUnary at hok
  unfold unaryCharged
  cases ho : rq.outcome with
  | fail k => simp [ho] at hok
  | panic k => simp [ho] at hok
  | value size =>
    simp only [ho] at hok ⊢
    split at hok
    · simp at hok
    · rename_i hpre
      simp only [hpre]
      split at hok
      · simp at hok
      · rename_i hb
        exact enforce_none hb

/-- a value that does not fit is replaced: the response carries no data batch, only the refusal
(after the logs when the refusal happened before the upload) -/
theorem unary_over_cap_replaced (cfg : Cfg) (rq : UReq) (size : Nat) (hv : rq.outcome = .value size)
    (hover : (cfg.maxResp > 0 ∧ rq.env.wire > cfg.maxResp) ∨ (cfg.maxExt > 0 ∧ unaryCharged cfg rq > cfg.maxExt)) :
    (handleUnary cfg rq).rpcErr = true ∧
    (∀ b ∈ (handleUnary cfg rq).batches, isData b = false) ∧
    ((RBatch.exc Err.capWire ∈ (handleUnary cfg rq).batches) ∨ (RBatch.exc Err.capExt ∈ (handleUnary cfg rq).batches)) := by
  have hcaps := unary_hard_caps cfg rq
  unfold handleUnary at hcaps ⊢
  unfold unaryCharged at hover hcaps
  simp only [hv] at hover hcaps ⊢
  split
  · refine ⟨rfl, ?_, Or.inr (by simp)⟩
    intro b hb
    simp only [List.mem_append, List.mem_map, List.mem_cons, List.not_mem_nil, or_false] at hb
    rcases hb with ⟨m, _, rfl⟩ | rfl <;> rfl
  · rename_i hpre
    simp only [hpre] at hover hcaps
    split
    · rename_i e hb
      refine ⟨rfl, by intro b hb; simp at hb; subst hb; rfl, ?_⟩
      rcases enforce_some hb with ⟨rfl, _⟩ | ⟨rfl, _⟩
      · exact Or.inl (by simp)
      · exact Or.inr (by simp)
    · rename_i hb
      simp only [hb] at hcaps
      have := hcaps rfl
      rcases hover with ⟨h1, h2⟩ | ⟨h1, h2⟩
      · have := this.1 h1; omega
      · have := this.2 h1; omega

/-! ## Exchange -/

theorem exchange_hard_caps (cfg : Cfg) (w : World) (cur : Cursor) (req : Req)
    (hok : (exchangeCall cfg w cur req).1.rpcErr = false) :
    (cfg.maxResp > 0 → req.env.wire ≤ cfg.maxResp) ∧
    (cfg.maxExt > 0 → exchangeCharged cfg cur req ≤ cfg.maxExt) := by
  unfold exchangeCall at hok
  unfold exchangeCharged
  simp only [] at hok ⊢
  generalize req.env.ticks.headD {} = te at hok ⊢
  rcases hr : runActs req.vals (Coll.new false) (turnTick cur req) with ⟨c, e⟩
  rw [hr] at hok
  cases e with
  | some err => simp [errResp] at hok
  | none =>
    simp only [] at hok ⊢
    cases hd : c.dataIdx with
    | none => simp [hd, errResp] at hok
    | some di =>
      simp only [hd] at hok
      simp only [Option.isNone_some, Bool.false_eq_true, if_false]
      cases hp : extPreflight cfg c te 0 with
      | true => rw [hp] at hok; simp [errResp] at hok
      | false =>
        rw [hp] at hok
        simp only [Bool.false_eq_true, if_false] at hok ⊢
        cases hb : enforceBudgets cfg req.env.wire (chargedExt cfg c te) with
        | some e2 => rw [hb] at hok; simp [errResp] at hok
        | none => exact enforce_none hb

theorem exchange_over_cap_replaced (cfg : Cfg) (w : World) (cur : Cursor) (req : Req)
    (hover : (cfg.maxResp > 0 ∧ req.env.wire > cfg.maxResp) ∨
             (cfg.maxExt > 0 ∧ exchangeCharged cfg cur req > cfg.maxExt)) :
    ∃ e, (exchangeCall cfg w cur req).1 = errResp 200 true e ∧ (exchangeCall cfg w cur req).2.1 = w := by
  rcases (exchangeCall_spec cfg w cur req).2 with h | ⟨pre, vs, md, post, hb, _⟩
  · exact h
  · have := exchange_hard_caps cfg w cur req (by rw [hb])
    rcases hover with ⟨h1, h2⟩ | ⟨h1, h2⟩
    · have := this.1 h1; omega
    · have := this.2 h1; omega

/-! ## Producer: the soft wire cap -/

theorem producer_soft_cap (cfg : Cfg) (hcap : 0 < cfg.maxResp) : ∀ (ticks : List Tick) (pos : Nat)
    (first : Option Meta) (nData ext : Nat) (envs : List TickEnv) (body : Nat) (sizes : List Nat),
    ((produceLoop cfg ticks pos first nData ext envs body sizes).lastStart = body ∨
     (produceLoop cfg ticks pos first nData ext envs body sizes).lastStart < cfg.maxResp) ∧
    (produceLoop cfg ticks pos first nData ext envs body sizes).lastStart ≤
      (produceLoop cfg ticks pos first nData ext envs body sizes).body ∧
    body ≤ (produceLoop cfg ticks pos first nData ext envs body sizes).lastStart := by
  intro ticks pos first nData ext envs body sizes
  fun_induction produceLoop cfg ticks pos first nData ext envs body sizes with
  | case1 => exact ⟨Or.inl rfl, Nat.le_refl _, Nat.le_refl _⟩
  | case2 => exact ⟨Or.inl rfl, Nat.le_add_right _ _, Nat.le_refl _⟩
  | case3 => exact ⟨Or.inl rfl, Nat.le_add_right _ _, Nat.le_refl _⟩
  | case4 => exact ⟨Or.inl rfl, Nat.le_add_right _ _, Nat.le_refl _⟩
  | case5 => exact ⟨Or.inl rfl, Nat.le_add_right _ _, Nat.le_refl _⟩
  | case6 => exact ⟨Or.inl rfl, Nat.le_add_right _ _, Nat.le_refl _⟩
  | case7 => exact ⟨Or.inl rfl, Nat.le_add_right _ _, Nat.le_refl _⟩
  | case8 t rest pos first nData ext envs body sizes ev te c hr h1 h2 flushed nData' body' up h3 h4 h5 r ih =>
    obtain ⟨i1, i2, i3⟩ := ih
    have hlt : body' < cfg.maxResp := by
      have : ¬ body' ≥ cfg.maxResp := fun h => h5 ⟨hcap, h⟩
      omega
    have hb : body ≤ body' := Nat.le_add_right _ _
    refine ⟨Or.inr ?_, i2, Nat.le_trans hb i3⟩
    rcases i1 with h | h
    · show r.lastStart < cfg.maxResp
      rw [h]; exact hlt
    · exact h

/-- a turn that ends unfinished and without error ended for a reason: the batch limit was reached
or the body reached the wire cap; and every turn runs at least one cycle -/
theorem producer_stop_reason (cfg : Cfg) : ∀ (ticks : List Tick) (pos : Nat)
    (first : Option Meta) (nData ext : Nat) (envs : List TickEnv) (body : Nat) (sizes : List Nat),
    ((produceLoop cfg ticks pos first nData ext envs body sizes).err = none →
     (produceLoop cfg ticks pos first nData ext envs body sizes).finished = false →
       (cfg.batchLimit > 0 ∧ (produceLoop cfg ticks pos first nData ext envs body sizes).nData ≥ cfg.batchLimit) ∨
       (cfg.maxResp > 0 ∧ (produceLoop cfg ticks pos first nData ext envs body sizes).body ≥ cfg.maxResp)) ∧
    pos < (produceLoop cfg ticks pos first nData ext envs body sizes).pos := by
  intro ticks pos first nData ext envs body sizes
  fun_induction produceLoop cfg ticks pos first nData ext envs body sizes with
  | case1 => exact ⟨(by intro _ h; cases h), Nat.lt_succ_self _⟩
  | case2 => exact ⟨(by intro h; cases h), Nat.lt_succ_self _⟩
  | case3 => exact ⟨(by intro h; cases h), Nat.lt_succ_self _⟩
  | case4 => exact ⟨(by intro h; cases h), Nat.lt_succ_self _⟩
  | case5 => exact ⟨(by intro _ h; cases h), Nat.lt_succ_self _⟩
  | case6 _ _ _ _ _ _ _ _ _ _ _ _ _ _ _ _ _ _ _ _ hl => exact ⟨fun _ _ => Or.inl hl, Nat.lt_succ_self _⟩
  | case7 _ _ _ _ _ _ _ _ _ _ _ _ _ _ _ _ _ _ _ _ _ hl => exact ⟨fun _ _ => Or.inr hl, Nat.lt_succ_self _⟩
  | case8 t rest pos first nData ext envs body sizes ev te c hr h1 h2 flushed nData' body' up h3 h4 h5 r ih =>
    exact ⟨ih.1, Nat.lt_trans (Nat.lt_succ_self _) ih.2⟩

/-! ## Producer: nothing is lost or duplicated at a turn boundary -/

/-- **turn_is_prefix**: one turn against the whole stream (`fullRun`), with no external cap in
force: a turn that ends the stream delivered exactly the whole rest of the stream with the same
outcome; a turn that stops early delivered a proper prefix made of whole cycles, and the rest of
the stream is exactly the stream of the state it left behind. (Proof in `Vgi.Proofs.HttpStream`.) -/
theorem turn_is_prefix (cfg : Cfg) (hext : cfg.maxExt = 0) (ticks : List Tick) (pos : Nat)
    (first : Option Meta) (nData ext : Nat) (envs : List TickEnv) (body : Nat) (sizes : List Nat) :
    (((produceLoop cfg ticks pos first nData ext envs body sizes).finished = true ∨
      (produceLoop cfg ticks pos first nData ext envs body sizes).err.isSome = true) ∧
     (produceLoop cfg ticks pos first nData ext envs body sizes).out = (fullRun ticks).1 ∧
     (produceLoop cfg ticks pos first nData ext envs body sizes).finished = (fullRun ticks).2.1 ∧
     (produceLoop cfg ticks pos first nData ext envs body sizes).err = (fullRun ticks).2.2) ∨
    ((produceLoop cfg ticks pos first nData ext envs body sizes).finished = false ∧
     (produceLoop cfg ticks pos first nData ext envs body sizes).err = none ∧
     ∃ k, 0 < k ∧ (produceLoop cfg ticks pos first nData ext envs body sizes).pos = pos + k ∧
       (fullRun ticks).1 = (produceLoop cfg ticks pos first nData ext envs body sizes).out ++ (fullRun (ticks.drop k)).1 ∧
       (fullRun ticks).2 = (fullRun (ticks.drop k)).2) :=
  produceLoop_prefix cfg hext ticks pos first nData ext envs body sizes

/-- A client that follows the continuation tokens of a producer stream from position `pos` (the
remaining script is `ticks`): a chain of turns, each started from the state the previous one left
behind, each with its own first-tick metadata and its own serialized sizes. `outs` is everything
the turns delivered, in order; `fin`/`err` how the last turn ended. -/
inductive Drains (cfg : Cfg) : List Tick → Nat → List RBatch → Bool → Option Err → Prop
  | last (ticks : List Tick) (pos : Nat) (first : Option Meta) (envs : List TickEnv) (body : Nat) (sizes : List Nat) :
      ((produceLoop cfg ticks pos first 0 0 envs body sizes).finished = true ∨
       (produceLoop cfg ticks pos first 0 0 envs body sizes).err.isSome = true) →
      Drains cfg ticks pos (produceLoop cfg ticks pos first 0 0 envs body sizes).out
        (produceLoop cfg ticks pos first 0 0 envs body sizes).finished
        (produceLoop cfg ticks pos first 0 0 envs body sizes).err
  | step (ticks : List Tick) (pos : Nat) (first : Option Meta) (envs : List TickEnv) (body : Nat) (sizes : List Nat)
      (outs : List RBatch) (fin : Bool) (err : Option Err) :
      (produceLoop cfg ticks pos first 0 0 envs body sizes).finished = false →
      (produceLoop cfg ticks pos first 0 0 envs body sizes).err = none →
      Drains cfg (ticks.drop ((produceLoop cfg ticks pos first 0 0 envs body sizes).pos - pos))
        (produceLoop cfg ticks pos first 0 0 envs body sizes).pos outs fin err →
      Drains cfg ticks pos ((produceLoop cfg ticks pos first 0 0 envs body sizes).out ++ outs) fin err

/-- **producer_complete**: whatever the wire cap, the batch limit and the sizes of the individual
batches, a client following the continuation tokens receives exactly the stream — every batch of
every cycle once, in order, with the same final outcome — that an unlimited single turn delivers. -/
theorem producer_complete (cfg : Cfg) (hext : cfg.maxExt = 0) {ticks : List Tick} {pos : Nat}
    {outs : List RBatch} {fin : Bool} {err : Option Err} (h : Drains cfg ticks pos outs fin err) :
    outs = (fullRun ticks).1 ∧ fin = (fullRun ticks).2.1 ∧ err = (fullRun ticks).2.2 := by
  induction h with
  | last ticks pos first envs body sizes hend =>
    rcases turn_is_prefix cfg hext ticks pos first 0 0 envs body sizes with ⟨_, a2, a3, a4⟩ | ⟨b1, b2, _⟩
    · exact ⟨a2, a3, a4⟩
    · rcases hend with h | h
      · rw [b1] at h; cases h
      · rw [b2] at h; cases h
  | step ticks pos first envs body sizes outs fin err hf he _ ih =>
    rcases turn_is_prefix cfg hext ticks pos first 0 0 envs body sizes with ⟨a1, _⟩ | ⟨_, _, k, _, b3, b4, b5⟩
    · rcases a1 with h | h
      · rw [hf] at h; cases h
      · rw [he] at h; cases h
    · have hk : (produceLoop cfg ticks pos first 0 0 envs body sizes).pos - pos = k := by rw [b3]; omega
      rw [hk] at ih
      obtain ⟨i1, i2, i3⟩ := ih
      refine ⟨by rw [b4, i1], ?_, ?_⟩
      · rw [i2, b5]
      · rw [i3, b5]

/-- **producer_drain_terminates**: such a chain always exists and is finite, whatever sizes each
turn meets (`pick` chooses the metadata and sizes of the turn that starts at a given position):
every turn runs at least one cycle. -/
theorem producer_drain_terminates (cfg : Cfg) (hext : cfg.maxExt = 0)
    (pick : Nat → Option Meta × List TickEnv × Nat × List Nat) :
    ∀ (n : Nat) (ticks : List Tick) (pos : Nat), ticks.length ≤ n →
      ∃ outs fin err, Drains cfg ticks pos outs fin err := by
  intro n
  induction n with
  | zero =>
    intro ticks pos hlen
    have : ticks = [] := List.eq_nil_of_length_eq_zero (Nat.le_zero.mp hlen)
    subst this
    exact ⟨_, _, _, Drains.last [] pos (pick pos).1 (pick pos).2.1 (pick pos).2.2.1 (pick pos).2.2.2 (Or.inl rfl)⟩
  | succ n ih =>
    intro ticks pos hlen
    rcases turn_is_prefix cfg hext ticks pos (pick pos).1 0 0 (pick pos).2.1 (pick pos).2.2.1 (pick pos).2.2.2 with
      ⟨a1, _⟩ | ⟨b1, b2, k, hk, b3, _, _⟩
    · exact ⟨_, _, _, Drains.last ticks pos _ _ _ _ a1⟩
    · have hk' : (produceLoop cfg ticks pos (pick pos).1 0 0 (pick pos).2.1 (pick pos).2.2.1 (pick pos).2.2.2).pos - pos = k := by
        rw [b3]; omega
      have hshort : (ticks.drop k).length ≤ n := by
        rw [List.length_drop]; omega
      obtain ⟨outs, fin, err, hd⟩ := ih (ticks.drop k) (pos + k) hshort
      refine ⟨_, fin, err, Drains.step ticks pos _ _ _ _ outs fin err b1 b2 ?_⟩
      rw [hk', b3]; exact hd

/-! ## Producer: the external cap is hard -/

theorem predict_le_buf (cfg : Cfg) (rows buf : Nat) : predictExt cfg rows buf ≤ buf := by
  unfold predictExt
  split
  · exact Nat.zero_le _
  · split
    · exact Nat.zero_le _
    · split
      · exact Nat.zero_le _
      · exact Nat.le_refl _

theorem preflight_pass {cfg : Cfg} (hon : cfg.extOn = true) (hcap : 0 < cfg.maxExt) {c : Coll} {te : TickEnv}
    {ext : Nat} (hflag : chargedExtFlag cfg c te = true) (hpass : ¬ extPreflight cfg c te ext = true) :
    ext + predictExt cfg (dataRows c) te.buf ≤ cfg.maxExt := by
  unfold chargedExtFlag at hflag
  simp only [Bool.and_eq_true, decide_eq_true_eq] at hflag
  obtain ⟨hsome, hpos⟩ := hflag
  unfold extPreflight at hpass
  have h0 : cfg.maxExt ≠ 0 := by omega
  have hnone : c.dataIdx.isNone = false := by
    cases hd : c.dataIdx with
    | none => simp [hd] at hsome
    | some _ => rfl
  have hp0 : ¬ predictExt cfg (dataRows c) te.buf = 0 := by omega
  simp [hon, h0, hnone, hp0] at hpass
  exact hpass

theorem headD_le {envs : List TickEnv} (h : ∀ te ∈ envs, te.buf ≤ te.raw) :
    (envs.headD {}).buf ≤ (envs.headD {}).raw := by
  cases envs with
  | nil => exact Nat.le_refl _
  | cons a r => exact h a (by simp)

/-- **external_never_exceeds**: with a storage and an external cap configured, a producer turn
uploads a data batch only when the raw bytes already uploaded in this turn plus the Arrow (buffer)
size of that batch stay within the cap; hence — a raw upload being at least as large as the
buffers it serializes — the Arrow sizes of everything a turn uploads sum to at most the cap. -/
theorem external_never_exceeds (cfg : Cfg) (hon : cfg.extOn = true) (hcap : 0 < cfg.maxExt) :
    ∀ (ticks : List Tick) (pos : Nat) (first : Option Meta) (nData ext : Nat) (envs : List TickEnv)
      (body : Nat) (sizes : List Nat), (∀ te ∈ envs, te.buf ≤ te.raw) →
      (produceLoop cfg ticks pos first nData ext envs body sizes).uploads = [] ∨
      ext + sumList (produceLoop cfg ticks pos first nData ext envs body sizes).uploads ≤ cfg.maxExt := by
  intro ticks pos first nData ext envs body sizes
  fun_induction produceLoop cfg ticks pos first nData ext envs body sizes with
  | case1 => intro _; exact Or.inl rfl
  | case2 => intro _; exact Or.inl rfl
  | case3 => intro _; exact Or.inl rfl
  | case4 => intro _; exact Or.inl rfl
  | case5 t rest pos first nData ext envs body sizes ev te c hr h1 h2 flushed nData' body' up h3 =>
    intro _
    show up = [] ∨ ext + sumList up ≤ cfg.maxExt
    cases hf : chargedExtFlag cfg c te with
    | false => exact Or.inl (by simp [up, hf])
    | true =>
      refine Or.inr ?_
      have := preflight_pass hon hcap hf h2
      simp only [up, hf, if_true, sumList]
      omega
  | case6 t rest pos first nData ext envs body sizes ev te c hr h1 h2 flushed nData' body' up h3 h4 =>
    intro _
    show up = [] ∨ ext + sumList up ≤ cfg.maxExt
    cases hf : chargedExtFlag cfg c te with
    | false => exact Or.inl (by simp [up, hf])
    | true =>
      refine Or.inr ?_
      have := preflight_pass hon hcap hf h2
      simp only [up, hf, if_true, sumList]
      omega
  | case7 t rest pos first nData ext envs body sizes ev te c hr h1 h2 flushed nData' body' up h3 h4 h5 =>
    intro _
    show up = [] ∨ ext + sumList up ≤ cfg.maxExt
    cases hf : chargedExtFlag cfg c te with
    | false => exact Or.inl (by simp [up, hf])
    | true =>
      refine Or.inr ?_
      have := preflight_pass hon hcap hf h2
      simp only [up, hf, if_true, sumList]
      omega
  | case8 t rest pos first nData ext envs body sizes ev te c hr h1 h2 flushed nData' body' up h3 h4 h5 r ih =>
    intro henv
    have ih : r.uploads = [] ∨ (ext + chargedExt cfg c te) + sumList r.uploads ≤ cfg.maxExt :=
      ih (fun te hte => henv te (List.mem_of_mem_tail hte))
    show up ++ r.uploads = [] ∨ ext + sumList (up ++ r.uploads) ≤ cfg.maxExt
    have hte : te.buf ≤ te.raw := headD_le henv
    cases hf : chargedExtFlag cfg c te with
    | false =>
      have hc0 : chargedExt cfg c te = 0 := by
        unfold chargedExt; unfold chargedExtFlag at hf; simp [hf]
      have hup : up = [] := by simp [up, hf]
      rw [hup, List.nil_append]
      rw [hc0, Nat.add_zero] at ih
      exact ih
    | true =>
      refine Or.inr ?_
      have hpass := preflight_pass hon hcap hf h2
      have hc : chargedExt cfg c te = te.raw := by
        unfold chargedExt; unfold chargedExtFlag at hf; simp [hf]
      have hp := predict_le_buf cfg (dataRows c) te.buf
      have hup : up = [predictExt cfg (dataRows c) te.buf] := by simp [up, hf]
      rw [hup]
      simp only [List.cons_append, List.nil_append, sumList]
      rcases ih with h | h
      · show ext + (predictExt cfg (dataRows c) te.buf + sumList r.uploads) ≤ cfg.maxExt
        rw [h]; simp only [sumList]; omega
      · rw [hc] at h
        show ext + (predictExt cfg (dataRows c) te.buf + sumList r.uploads) ≤ cfg.maxExt
        omega

/-- without a storage nothing is ever uploaded -/
theorem no_storage_no_upload (cfg : Cfg) (hoff : cfg.extOn = false) : ∀ (ticks : List Tick) (pos : Nat)
    (first : Option Meta) (nData ext : Nat) (envs : List TickEnv) (body : Nat) (sizes : List Nat),
    (produceLoop cfg ticks pos first nData ext envs body sizes).uploads = [] := by
  intro ticks pos first nData ext envs body sizes
  have hflag : ∀ c te, chargedExtFlag cfg c te = false := by
    intro c te; simp [chargedExtFlag, predictExt, hoff]
  fun_induction produceLoop cfg ticks pos first nData ext envs body sizes with
  | case1 => rfl
  | case2 => rfl
  | case3 => rfl
  | case4 => rfl
  | case5 t rest pos first nData ext envs body sizes ev te c hr h1 h2 flushed nData' body' up h3 =>
    show up = []
    simp [up, hflag c te]
  | case6 t rest pos first nData ext envs body sizes ev te c hr h1 h2 flushed nData' body' up h3 h4 =>
    show up = []
    simp [up, hflag c te]
  | case7 t rest pos first nData ext envs body sizes ev te c hr h1 h2 flushed nData' body' up h3 h4 h5 =>
    show up = []
    simp [up, hflag c te]
  | case8 t rest pos first nData ext envs body sizes ev te c hr h1 h2 flushed nData' body' up h3 h4 h5 r ih =>
    show up ++ r.uploads = []
    have hup : up = [] := by simp [up, hflag c te]
    rw [hup, List.nil_append]
    exact ih

/-! ## Lifting to whole continuation requests -/

/-- **exchange_request_within_caps**: a delivered exchange continuation (200, no error header) has
a body within `max_response_bytes` and uploaded at most `max_externalized_response_bytes` raw bytes. -/
theorem exchange_request_within_caps (cfg : Cfg) (w : World) (req : Req)
    (hroute : req.routeProducer = false) (hnc : (getFirst keyCancel req.md).isSome = false)
    (hst : (handleExchange cfg w req).1.status = 200) (hok : (handleExchange cfg w req).1.rpcErr = false) :
    (cfg.maxResp > 0 → req.env.wire ≤ cfg.maxResp) ∧
    ∃ tv cur, getFirst keyState req.md = some tv ∧ openCursor w tv = some cur ∧
      (cfg.maxExt > 0 → exchangeCharged cfg cur req ≤ cfg.maxExt) := by
  rcases handleExchange_cases cfg w req with ⟨e, w0, h, _, _⟩ | ⟨tv, cur, w1, htv, hcur, _, _, _, _, h⟩
  · rw [h] at hst; simp [errResp] at hst
  · rcases h with ⟨hc, _⟩ | ⟨_, hr, _⟩ | ⟨_, _, _, h⟩
    · rw [hnc] at hc; cases hc
    · rw [hroute] at hr; cases hr
    · rw [h] at hok
      have := exchange_hard_caps cfg w1 cur req hok
      exact ⟨this.1, tv, cur, htv, hcur, this.2⟩

/-- **producer_token_iff**: a producer continuation answers with the batches of its cycles, followed
by a continuation token (a fresh cursor at the position the loop reached) exactly when the loop
stopped without error before the stream finished. -/
theorem producer_token_iff (cfg : Cfg) (w : World) (cur : Cursor) (req : Req) :
    (producerContinuation cfg w cur req).1.batches =
      (produceLoop cfg (cur.st.prog.drop cur.st.pos) cur.st.pos (some (stripFramework req.md)) 0 0
        req.env.ticks req.env.body0 req.env.sizes).out ++
      (if (produceLoop cfg (cur.st.prog.drop cur.st.pos) cur.st.pos (some (stripFramework req.md)) 0 0
            req.env.ticks req.env.body0 req.env.sizes).err.isNone &&
          !(produceLoop cfg (cur.st.prog.drop cur.st.pos) cur.st.pos (some (stripFramework req.md)) 0 0
            req.env.ticks req.env.body0 req.env.sizes).finished
       then [RBatch.token [(keyState, Val.cursor w.minted.length)]] else []) ∧
    (((produceLoop cfg (cur.st.prog.drop cur.st.pos) cur.st.pos (some (stripFramework req.md)) 0 0
            req.env.ticks req.env.body0 req.env.sizes).err.isNone &&
          !(produceLoop cfg (cur.st.prog.drop cur.st.pos) cur.st.pos (some (stripFramework req.md)) 0 0
            req.env.ticks req.env.body0 req.env.sizes).finished) = true →
      (producerContinuation cfg w cur req).2.1.minted = w.minted ++
        [advance cur (produceLoop cfg (cur.st.prog.drop cur.st.pos) cur.st.pos (some (stripFramework req.md)) 0 0
            req.env.ticks req.env.body0 req.env.sizes).pos]) := by
  unfold producerContinuation
  simp only []
  split
  · rename_i h; simp [h]
  · rename_i h; simp [h]

/-! ## Non-vacuity -/

section Examples

def capCfg : Cfg :=
  { cacheOn := true, maxResp := 1000, maxExt := 5000, extOn := true, threshold := 100, batchLimit := 0 }

/-- five cycles of one data batch each (the third with a log batch in front) -/
def fiveTicks : List Tick :=
  [[.emit (.rep 20 1) [] true], [.emit (.rep 20 2) [] true], [.log 1, .emit (.rep 20 3) [] true],
   [.emit (.rep 20 4) [] true], [.emit (.rep 2 5) [] true]]

def fiveSizes : List Nat := [400, 300, 200, 300, 300, 150]

-- the wire cap stops the first turn after the cycle that crossed it: 400+300+(200+300) = 1200 ≥ 1000
example : (produceLoop capCfg fiveTicks 0 none 0 0 [] 0 fiveSizes).pos = 3 ∧
    (produceLoop capCfg fiveTicks 0 none 0 0 [] 0 fiveSizes).finished = false ∧
    (produceLoop capCfg fiveTicks 0 none 0 0 [] 0 fiveSizes).err = none ∧
    (produceLoop capCfg fiveTicks 0 none 0 0 [] 0 fiveSizes).body = 1200 ∧
    (produceLoop capCfg fiveTicks 0 none 0 0 [] 0 fiveSizes).lastStart = 700 := by decide

-- a two-turn drain of the same stream equals the unlimited run (hypotheses of `producer_complete`)
example : Drains { capCfg with maxExt := 0 } fiveTicks 0
    ((produceLoop { capCfg with maxExt := 0 } fiveTicks 0 none 0 0 [] 0 fiveSizes).out ++
      (produceLoop { capCfg with maxExt := 0 } (fiveTicks.drop 3) 3 none 0 0 [] 0 [300, 150]).out) true none := by
  have h1 := Drains.last (cfg := { capCfg with maxExt := 0 }) (fiveTicks.drop 3) 3 none [] 0 [300, 150] (Or.inl (by decide))
  have h2 := Drains.step (cfg := { capCfg with maxExt := 0 }) fiveTicks 0 none [] 0 fiveSizes _ _ _ (by decide) (by decide)
    (by
      have e : (produceLoop { capCfg with maxExt := 0 } fiveTicks 0 none 0 0 [] 0 fiveSizes).pos - 0 = 3 := by decide
      have e2 : (produceLoop { capCfg with maxExt := 0 } fiveTicks 0 none 0 0 [] 0 fiveSizes).pos = 3 := by decide
      rw [e, e2]; exact h1)
  have e3 : (produceLoop { capCfg with maxExt := 0 } (fiveTicks.drop 3) 3 none 0 0 [] 0 [300, 150]).finished = true := by decide
  have e4 : (produceLoop { capCfg with maxExt := 0 } (fiveTicks.drop 3) 3 none 0 0 [] 0 [300, 150]).err = none := by decide
  rw [e3, e4] at h2
  exact h2

-- external cap: 160-byte buffers, raw uploads of 400 bytes, cap 5000 → not refused; cap 500 → the second
-- upload is refused by the pre-flight (400 raw already + 160 > 500)
example : (produceLoop { capCfg with maxResp := 0, maxExt := 500 } fiveTicks 0 none 0 0
      [{ buf := 160, raw := 400 }, { buf := 160, raw := 400 }] 0 []).err = some .capExt ∧
    (produceLoop { capCfg with maxResp := 0, maxExt := 500 } fiveTicks 0 none 0 0
      [{ buf := 160, raw := 400 }, { buf := 160, raw := 400 }] 0 []).uploads = [160] := by decide

-- unary: a 900-byte body under a 1000-byte cap is delivered, a 1001-byte one is replaced
example : (handleUnary capCfg { logs := [0, 1], outcome := .value 7, env := { wire := 900 } }).rpcErr = false ∧
    (handleUnary capCfg { logs := [0, 1], outcome := .value 7, env := { wire := 1001 } }).batches = [.exc .capWire] := by
  decide

-- unary: the pre-flight refuses a 6000-byte buffer against the 5000-byte external cap and keeps the logs
example : (handleUnary capCfg { logs := [0], outcome := .value 7, env := { wire := 10, ticks := [{ buf := 6000, raw := 6100 }] } }).batches
    = [.log 0, .exc .capExt] ∧
    unaryUploads capCfg { logs := [0], outcome := .value 7, env := { wire := 10, ticks := [{ buf := 6000, raw := 6100 }] } } = 0 := by
  decide

-- unary: buffer 4990 passes the pre-flight, the 5100 raw bytes uploaded fail the post-flush check
example : (handleUnary capCfg { logs := [0], outcome := .value 7, env := { wire := 10, ticks := [{ buf := 4990, raw := 5100 }] } }).batches
    = [.exc .capExt] ∧
    unaryUploads capCfg { logs := [0], outcome := .value 7, env := { wire := 10, ticks := [{ buf := 4990, raw := 5100 }] } } = 1 := by
  decide

end Examples

end Vgi.Props.C19
