import Vgi.Model.Errors
/-!
# C05 — Error envelopes carry a stable cross-language error type

Theorems about `Vgi.Errors` (model of `vgirpc/errors.go:buildErrorExtra`,
`vgirpc/wire.go:writeErrorBatch` and the panic-recovering raise sites). Every statement is for
ALL error values (arbitrary strings, arbitrarily deep `%w`/`Join` nesting, arbitrary user types),
all panic values, all four raise sites, both debug settings and every runtime stack.
-/
namespace Vgi.Props.C05
open Vgi Vgi.Errors

/-- The value is an `*RpcError` itself. -/
def IsRpc : GoErr → Prop
  | .rpc .. => True
  | _ => False

instance : DecidablePred IsRpc := fun e => by
  cases e <;> simp only [IsRpc] <;> infer_instance

/-- The typed framework errors and their documented wire names
(method-not-implemented, protocol-version, session-lost, draining, cap refusal). -/
def frameworkName : GoErr → Option String
  | .notImpl .. => some "AttributeError"
  | .protoVersion .. => some "ProtocolVersionError"
  | .sessionLost .. => some "SessionLostError"
  | .draining => some "ServerDrainingError"
  | .extCap .. => some "RuntimeError"
  | _ => none

/-- Every name the framework itself can put on the wire. -/
def wireNames : List String :=
  ["RuntimeError", "AttributeError", "ProtocolVersionError", "SessionLostError", "ServerDrainingError"]

/-- A Go type name as `%T` prints it: pointer star, package qualifier or path. -/
def looksLikeGoType (s : String) : Prop := '*' ∈ s.toList ∨ '.' ∈ s.toList ∨ '/' ∈ s.toList

instance (s : String) : Decidable (looksLikeGoType s) := by unfold looksLikeGoType; infer_instance

/-! ## 1. Which name goes out -/

/-- An `*RpcError` is named by its own `Type`, whatever it is. -/
theorem rpc_names_its_type (env : Env) (ty msg kind tb rid : String) (debug : Bool) :
    (writeErrorBatch env (.rpc ty msg kind tb rid) debug).extra.exceptionType = ty := rfl

/-- A typed framework error is named by its wire name. -/
theorem framework_wire_name (env : Env) (e : GoErr) (n : String) (debug : Bool)
    (h : frameworkName e = some n) :
    (writeErrorBatch env e debug).extra.exceptionType = n := by
  cases e <;> simp [frameworkName] at h <;> subst h <;> rfl

/-- Anything else — plain, wrapped (even when an `*RpcError` or a typed framework error is
somewhere inside the chain), joined, user-defined (even with its own `ErrorType()` method) —
is a `RuntimeError`. -/
theorem other_is_runtime_error (env : Env) (e : GoErr) (debug : Bool)
    (hr : ¬ IsRpc e) (hf : frameworkName e = none) :
    (writeErrorBatch env e debug).extra.exceptionType = "RuntimeError" := by
  cases e <;> simp [frameworkName, IsRpc] at hr hf <;> rfl

/-- A panic with any value, at any site, is a `RuntimeError` whose message is the rendered value
(prefixed in unary and stream-init handlers). -/
theorem panic_is_runtime_error (env : Env) (site : Site) (v : PanicVal) (debug : Bool) :
    let b := exceptionBatch env site (.panic v) debug
    b.extra.exceptionType = "RuntimeError" ∧ b.errorKind = none ∧
    ∃ pfx, (pfx = "" ∨ pfx = "handler panicked: ") ∧
      b.extra.exceptionMessage = "RuntimeError: " ++ (pfx ++ v.render) := by
  cases site
  · exact ⟨rfl, rfl, "handler panicked: ", Or.inr rfl, rfl⟩
  · exact ⟨rfl, rfl, "handler panicked: ", Or.inr rfl, rfl⟩
  · exact ⟨rfl, rfl, "", Or.inl rfl, by
      simp [exceptionBatch, writeErrorBatch, buildErrorExtra, raised, GoErr.message, runtimeError]⟩
  · exact ⟨rfl, rfl, "", Or.inl rfl, by
      simp [exceptionBatch, writeErrorBatch, buildErrorExtra, raised, GoErr.message, runtimeError]⟩

/-- The name on the wire is `wireType` of the value the site hands to `writeErrorBatch`. -/
theorem exceptionBatch_type (env : Env) (site : Site) (o : Outcome) (debug : Bool) :
    (exceptionBatch env site o debug).extra.exceptionType = wireType (raised site o) := rfl

theorem wireType_mem (e : GoErr) (hr : ¬ IsRpc e) : wireType e ∈ wireNames := by
  cases e <;> first
    | exact absurd trivial hr
    | simp [wireType, wireNames, runtimeError, attributeError, protocolVersionError,
        sessionLostError, serverDrainingError]

/-- The complete classification at every site: the name on the wire is the returned
`*RpcError`'s `Type`, or one of the five fixed framework names. -/
theorem exception_type_classified (env : Env) (site : Site) (o : Outcome) (debug : Bool) :
    let t := (exceptionBatch env site o debug).extra.exceptionType
    (∃ ty msg kind tb rid, o = .ret (.rpc ty msg kind tb rid) ∧ t = ty) ∨ t ∈ wireNames := by
  cases o with
  | ret e =>
    by_cases hr : IsRpc e
    · cases e with
      | rpc ty msg kind tb rid => exact Or.inl ⟨ty, msg, kind, tb, rid, rfl, by cases site <;> rfl⟩
      | _ => exact absurd hr (by simp [IsRpc])
    · refine Or.inr ?_
      have : raised site (.ret e) = e := by cases site <;> rfl
      simp only [exceptionBatch_type, this]
      exact wireType_mem e hr
  | panic v =>
    refine Or.inr ?_
    simp only [exceptionBatch_type]
    cases site <;> simp [raised, wireType, wireNames, runtimeError]

example :
    (exceptionBatch ⟨"goroutine 1", []⟩ .exchange
      (.ret (.wrapped "ctx: " (.rpc "ValueError" "bad" "k" "tb" "r1"))) true).extra.exceptionType
      = "RuntimeError" := by decide
example :
    (exceptionBatch ⟨"", []⟩ .unary (.ret (.rpc "ValueError" "bad" "k" "" "")) false).extra.exceptionType
      = "ValueError" := by decide
example : frameworkName (.sessionLost "x") = some "SessionLostError" ∧
    ¬ IsRpc (.custom "*main.myErr" "boom" none (some "KeyError")) ∧
    frameworkName (.custom "*main.myErr" "boom" none (some "KeyError")) = none := by decide

/-! ## 2. No Go type name ever reaches the wire -/

/-- None of the framework's names looks like a Go type. -/
theorem wire_names_not_go_types : ∀ n ∈ wireNames, ¬ looksLikeGoType n := by decide

/-- For every error that is not itself an `*RpcError` (whose `Type` is the handler author's own
choice), at every site: the name on the wire is one of the fixed names, does not look like a Go
type, and in particular is not the value's `%T` name — and it does not depend on that name. -/
theorem no_go_type_on_wire (env : Env) (e : GoErr) (debug : Bool) (hr : ¬ IsRpc e) :
    let t := (writeErrorBatch env e debug).extra.exceptionType
    t ∈ wireNames ∧ ¬ looksLikeGoType t ∧ (looksLikeGoType e.goTypeName → t ≠ e.goTypeName) := by
  have hmem : (writeErrorBatch env e debug).extra.exceptionType ∈ wireNames :=
    wireType_mem e hr
  refine ⟨hmem, wire_names_not_go_types _ hmem, ?_⟩
  intro hg heq
  rw [heq] at hmem
  exact wire_names_not_go_types _ hmem hg

/-- The `%T` name of a user-defined error type has no influence on the envelope. -/
theorem go_type_never_used (env : Env) (g g' msg : String) (k t : Option String) (debug : Bool) :
    writeErrorBatch env (.custom g msg k t) debug = writeErrorBatch env (.custom g' msg k t) debug :=
  rfl

/-- Same statement for panics: whatever was thrown, the name is `RuntimeError`, never a Go type
(e.g. never `*runtime.PanicNilError`, `*errors.errorString`). -/
theorem panic_no_go_type (env : Env) (site : Site) (v : PanicVal) (debug : Bool) :
    ¬ looksLikeGoType (exceptionBatch env site (.panic v) debug).extra.exceptionType := by
  have h : (exceptionBatch env site (.panic v) debug).extra.exceptionType = "RuntimeError" :=
    (panic_is_runtime_error env site v debug).1
  rw [h]; decide

example : looksLikeGoType (GoErr.plain "x").goTypeName ∧
    looksLikeGoType (GoErr.wrapped "a: " (.plain "x")).goTypeName ∧
    looksLikeGoType (GoErr.custom "main.valErr" "x" none none).goTypeName := by decide

/-! ## 3. Message, error_kind and the debug gate are carried alongside -/

/-- The batch is an EXCEPTION batch and both message slots carry `err.Error()`. -/
theorem message_carried (env : Env) (e : GoErr) (debug : Bool) :
    let b := writeErrorBatch env e debug
    b.level = "EXCEPTION" ∧ b.logMessage = e.message ∧ b.extra.exceptionMessage = e.message :=
  ⟨rfl, rfl, rfl⟩

/-- A returned error reaches the envelope unchanged at every site (only panics are rewritten). -/
theorem returned_error_unchanged (env : Env) (site : Site) (e : GoErr) (debug : Bool) :
    exceptionBatch env site (.ret e) debug = writeErrorBatch env e debug := by
  cases site <;> rfl

/-- `error_kind` is present exactly when the value's own type has an `ErrorKind()` method
returning a non-empty string, and then carries exactly that string. -/
theorem kind_only_when_set (env : Env) (e : GoErr) (debug : Bool) (k : String) :
    (writeErrorBatch env e debug).errorKind = some k ↔ (carrierKind e = some k ∧ k ≠ "") := by
  simp only [writeErrorBatch, errorKind]
  cases h : carrierKind e with
  | none => simp
  | some k' =>
    by_cases hk : k' = ""
    · subst hk
      simp only [ne_eq, not_true_eq_false, if_false, Option.some.injEq]
      constructor
      · intro h2; cases h2
      · intro h2; exact absurd h2.1.symm h2.2
    · simp only [ne_eq, hk, not_false_eq_true, if_true, Option.some.injEq]
      constructor
      · intro h2; subst h2; exact ⟨rfl, hk⟩
      · intro h2; exact h2.1

/-- An `*RpcError`'s kind is its `Kind` field (omitted when empty); the framework errors have
fixed kinds; a cap refusal, plain, wrapped and joined errors have none. -/
theorem kind_table (ty msg kind tb rid method reason pfx : String) (a b : GoErr) :
    errorKind (.rpc ty msg kind tb rid) = (if kind ≠ "" then some kind else none) ∧
    errorKind (.notImpl method msg) = some "MethodNotImplementedError" ∧
    errorKind (.protoVersion msg) = some "protocol_version_mismatch" ∧
    errorKind (.sessionLost reason) = some "session_lost" ∧
    errorKind .draining = some "server_draining" ∧
    errorKind (.extCap msg) = none ∧ errorKind (.plain msg) = none ∧
    errorKind (.wrapped pfx a) = none ∧ errorKind (.joined a b) = none := by
  refine ⟨rfl, ?_, ?_, ?_, ?_, rfl, rfl, rfl, rfl⟩ <;>
    simp [errorKind, carrierKind, kindNotImpl, kindProtoVersion, kindSessionLost, kindDraining]

/-- Traceback and frames are present only when debug errors are enabled; then they are what
the runtime reported (at most five frames). -/
theorem debug_gates_traceback (env : Env) (e : GoErr) :
    (let x := (writeErrorBatch env e false).extra; x.traceback = "" ∧ x.frames = []) ∧
    (let x := (writeErrorBatch env e true).extra;
      x.traceback = env.stack ∧ x.frames = env.callers.take 5 ∧ x.frames.length ≤ 5) := by
  refine ⟨⟨rfl, rfl⟩, rfl, rfl, ?_⟩
  simp [writeErrorBatch, buildErrorExtra, maxFrames]
  omega

/-- An `*RpcError`'s own `Traceback` and `RequestID` fields (a relayed upstream error carries the
upstream's stack there) never reach the envelope: with debug off the batch has no traceback and
no frames whatever the value holds, with debug on they are this process's own; the whole
envelope is the one of the same error with those fields empty. -/
theorem rpc_own_traceback_never_carried (env : Env) (site : Site) (ty msg kind tb rid : String)
    (debug : Bool) :
    exceptionBatch env site (.ret (.rpc ty msg kind tb rid)) debug =
      exceptionBatch env site (.ret (.rpc ty msg kind "" "")) debug ∧
    (exceptionBatch env site (.ret (.rpc ty msg kind tb rid)) false).extra.traceback = "" ∧
    (exceptionBatch env site (.ret (.rpc ty msg kind tb rid)) false).extra.frames = [] ∧
    (exceptionBatch env site (.ret (.rpc ty msg kind tb rid)) true).extra.traceback = env.stack := by
  cases site <;> exact ⟨rfl, rfl, rfl, rfl⟩

example :
    (exceptionBatch ⟨"goroutine 1", [⟨"f.go", 1, "f"⟩]⟩ .produce
      (.ret (.rpc "ValueError" "relayed" "" "goroutine 99 [running]: upstream secret" "req-7")) false).extra
    = ⟨"ValueError", "ValueError: relayed", "", []⟩ := by decide

/-- The debug setting changes nothing but traceback and frames. -/
theorem debug_only_affects_trace (env : Env) (e : GoErr) :
    let a := writeErrorBatch env e true
    let b := writeErrorBatch env e false
    a.level = b.level ∧ a.logMessage = b.logMessage ∧ a.errorKind = b.errorKind ∧
    a.extra.exceptionType = b.extra.exceptionType ∧
    a.extra.exceptionMessage = b.extra.exceptionMessage :=
  ⟨rfl, rfl, rfl, rfl, rfl⟩

example :
    writeErrorBatch ⟨"goroutine 7 [running]:", [⟨"a.go", 1, "f"⟩, ⟨"b.go", 2, "g"⟩]⟩
      (.joined (.rpc "ValueError" "v" "kk" "" "") (.plain "p")) true
    = { level := "EXCEPTION", logMessage := "ValueError: v\np",
        extra := { exceptionType := "RuntimeError", exceptionMessage := "ValueError: v\np",
                   traceback := "goroutine 7 [running]:",
                   frames := [⟨"a.go", 1, "f"⟩, ⟨"b.go", 2, "g"⟩] },
        errorKind := none } := by decide
example : errorKind (.custom "main.kindErr" "m" (some "my_kind") none) = some "my_kind" ∧
    errorKind (.custom "main.kindErr" "m" (some "") none) = none ∧
    errorKind (.rpc "T" "m" "" "upstream traceback" "r") = none := by decide

end Vgi.Props.C05
