import Vgi.Model.Keys
import Vgi.Generated.C33
/-!
# C33 — Storage backends never reuse an object key

Theorems about `Vgi.Keys` (model of the key derivation in `vgirpc/s3/s3.go` after the F33 repair
and in `vgirpc/gcs/gcs.go`). The key of an upload is a function of the configured prefix and of
that upload's own random draw only; the theorems show the function loses nothing of the draw, so
distinct draws give distinct keys — for any number of uploads, in any order, in one process or in
several (the draws of all processes together being distinct).
-/
namespace Vgi.Props.C33
open Vgi Vgi.Keys

/-! ### Formatting loses nothing -/

theorem hexVal_hexDigit : ∀ n, n < 16 → hexVal (hexDigit n) = some n := by decide

theorem hexDigit_ne_dash : ∀ n, n < 16 → (hexDigit n != '-') = true := by decide

theorem decode_hexByte (b : UInt8) (rest : List Char) :
    bytesOfHexAux (hexByte b ++ rest) = (bytesOfHexAux rest).map (b :: ·) := by
  have h1 := hexVal_hexDigit (b.toNat / 16) (by have := b.toNat_lt; omega)
  have h2 := hexVal_hexDigit (b.toNat % 16) (by omega)
  simp only [hexByte, List.cons_append, List.nil_append, bytesOfHexAux, h1, h2]
  have hb : UInt8.ofNat (b.toNat / 16 * 16 + b.toNat % 16) = b := by
    have : b.toNat / 16 * 16 + b.toNat % 16 = b.toNat := by
      have := Nat.div_add_mod b.toNat 16; omega
    rw [this]; exact UInt8.ofNat_toNat
  cases bytesOfHexAux rest <;> simp [hb]

theorem decode_hexStr : ∀ (bs : Bytes), bytesOfHexAux (hexStr bs) = some bs
  | [] => rfl
  | b :: r => by
    have : hexStr (b :: r) = hexByte b ++ hexStr r := by simp [hexStr]
    rw [this, decode_hexByte, decode_hexStr r]; rfl

theorem filter_hexStr : ∀ (bs : Bytes), (hexStr bs).filter (· != '-') = hexStr bs
  | [] => rfl
  | b :: r => by
    have e : hexStr (b :: r) = hexByte b ++ hexStr r := by simp [hexStr]
    have h1 := hexDigit_ne_dash (b.toNat / 16) (by have := b.toNat_lt; omega)
    have h2 := hexDigit_ne_dash (b.toNat % 16) (by omega)
    rw [e, List.filter_append, filter_hexStr r]
    simp [hexByte, List.filter, h1, h2]

theorem hexStr_append (a b : Bytes) : hexStr (a ++ b) = hexStr a ++ hexStr b := by
  simp [hexStr]

theorem regroup (b : Bytes) :
    b.take 4 ++ ((b.drop 4).take 2 ++ ((b.drop 6).take 2 ++ ((b.drop 8).take 2 ++ b.drop 10))) = b := by
  have h8 : (b.drop 8).take 2 ++ b.drop 10 = b.drop 8 := by
    have := List.take_append_drop 2 (b.drop 8)
    rw [List.drop_drop] at this
    exact this
  have h6 : (b.drop 6).take 2 ++ b.drop 8 = b.drop 6 := by
    have := List.take_append_drop 2 (b.drop 6)
    rw [List.drop_drop] at this
    exact this
  have h4 : (b.drop 4).take 2 ++ b.drop 6 = b.drop 4 := by
    have := List.take_append_drop 2 (b.drop 4)
    rw [List.drop_drop] at this
    exact this
  rw [h8, h6, h4, List.take_append_drop]

/-- **unformat_format**: the canonical text determines all the bytes (for byte strings of ANY
length, 16 in particular). -/
theorem unformat_format (b : Bytes) : unformat (formatUUID b) = some b := by
  unfold unformat formatUUID
  have hd : (('-' : Char) != '-') = false := by decide
  simp only [List.filter_append, List.filter_cons, hd, filter_hexStr]
  simp only [Bool.false_eq_true, if_false]
  rw [← hexStr_append, ← hexStr_append, ← hexStr_append, ← hexStr_append]
  rw [List.append_assoc, List.append_assoc, List.append_assoc, regroup, decode_hexStr]

/-- **format_injective**. -/
theorem format_injective (a b : Bytes) (h : formatUUID a = formatUUID b) : a = b := by
  have ha := unformat_format a
  rw [h, unformat_format b] at ha
  exact (Option.some.inj ha).symm

/-! ### The version bits cost exactly six bits of the draw -/

theorem mapAt_mapAt (i : Nat) (f g : UInt8 → UInt8) : ∀ (l : Bytes),
    mapAt i f (mapAt i g l) = mapAt i (fun x => f (g x)) l
  | [] => by simp [mapAt]
  | x :: r => by
    cases i with
    | zero => rfl
    | succ i => simp only [mapAt]; rw [mapAt_mapAt i f g r]

theorem mapAt_comm (i j : Nat) (hij : i ≠ j) (f g : UInt8 → UInt8) : ∀ (l : Bytes),
    mapAt i f (mapAt j g l) = mapAt j g (mapAt i f l)
  | [] => by simp [mapAt]
  | x :: r => by
    cases i with
    | zero =>
      cases j with
      | zero => exact absurd rfl hij
      | succ j => rfl
    | succ i =>
      cases j with
      | zero => rfl
      | succ j =>
        simp only [mapAt]
        rw [mapAt_comm i j (by omega) f g r]

theorem mapAt_congr (i : Nat) (f g : UInt8 → UInt8) (h : ∀ x, f x = g x) : ∀ (l : Bytes),
    mapAt i f l = mapAt i g l
  | [] => by simp [mapAt]
  | x :: r => by
    cases i with
    | zero => simp [mapAt, h]
    | succ i => simp only [mapAt]; rw [mapAt_congr i f g h r]

set_option maxRecDepth 100000 in
theorem nibble6_nat : ∀ n, n < 256 →
    ((UInt8.ofNat n &&& 0x0f ||| 0x40) &&& 0x0f) = UInt8.ofNat n &&& 0x0f := by decide

set_option maxRecDepth 100000 in
theorem bits8_nat : ∀ n, n < 256 →
    ((UInt8.ofNat n &&& 0x3f ||| 0x80) &&& 0x3f) = UInt8.ofNat n &&& 0x3f := by decide

theorem nibble6 (x : UInt8) : ((x &&& 0x0f ||| 0x40) &&& 0x0f) = x &&& 0x0f := by
  have := nibble6_nat x.toNat x.toNat_lt
  rwa [UInt8.ofNat_toNat] at this

theorem bits8 (x : UInt8) : ((x &&& 0x3f ||| 0x80) &&& 0x3f) = x &&& 0x3f := by
  have := bits8_nat x.toNat x.toNat_lt
  rwa [UInt8.ofNat_toNat] at this

/-- The free bits can be read back from the version-4 value. -/
theorem freeBits_of_setV4 (b : Bytes) : freeBits (setV4 b) = freeBits b := by
  unfold freeBits setV4
  rw [mapAt_comm 6 8 (by decide), mapAt_mapAt, mapAt_mapAt]
  rw [mapAt_congr 6 _ (fun x => x &&& 0x0f) nibble6, mapAt_congr 8 _ (fun x => x &&& 0x3f) bits8]

theorem setV4_injective (a b : Bytes) (h : setV4 a = setV4 b) : freeBits a = freeBits b := by
  rw [← freeBits_of_setV4 a, ← freeBits_of_setV4 b, h]

/-! ### S3 -/

/-- **s3_key_injective** (`keys_injective_in_randomness`): two uploads under the same prefix get
the same key only if their draws agree on all 122 bits that the version-4 layout keeps. -/
theorem s3_key_injective (pfx : List Char) (d1 d2 : Bytes) (h : s3Key pfx d1 = s3Key pfx d2) :
    freeBits d1 = freeBits d2 := by
  unfold s3Key generateUUID at h
  exact setV4_injective d1 d2 (format_injective _ _ (List.append_cancel_left h))

theorem nodup_map_of_imp {α β γ : Type} (f : α → β) (g : α → γ)
    (himp : ∀ a b, f a = f b → g a = g b) (l : List α) (h : (l.map g).Nodup) : (l.map f).Nodup := by
  rw [List.Nodup, List.pairwise_map] at h ⊢
  exact h.imp (fun hne heq => hne (himp _ _ heq))

/-- **s3_keys_unique**: for ANY number of uploads, if the draws are pairwise different (in their
122 free bits) then all object keys are pairwise different. The key of an upload depends on
nothing but its own draw, so the order / interleaving of the uploads is irrelevant. -/
theorem s3_keys_unique (pfx : List Char) (draws : List Bytes) (h : (draws.map freeBits).Nodup) :
    (draws.map (s3Key pfx)).Nodup :=
  nodup_map_of_imp (s3Key pfx) freeBits (s3_key_injective pfx) draws h

/-- Two processes (or goroutines) with the same prefix: distinct draws overall, distinct keys
overall — no upload of one overwrites an upload of the other. -/
theorem s3_keys_unique_across (pfx : List Char) (p1 p2 : List Bytes)
    (h : ((p1 ++ p2).map freeBits).Nodup) :
    ∀ k1 ∈ p1.map (s3Key pfx), ∀ k2 ∈ p2.map (s3Key pfx), k1 ≠ k2 := by
  have := s3_keys_unique pfx (p1 ++ p2) h
  rw [List.map_append] at this
  intro k1 h1 k2 h2 heq
  exact (List.nodup_append.mp this).2.2 k1 h1 k2 h2 heq

/-! ### GCS -/

theorem hexStr_length (bs : Bytes) : (hexStr bs).length = 2 * bs.length := by
  induction bs with
  | nil => rfl
  | cons b r ih =>
    have : hexStr (b :: r) = hexByte b ++ hexStr r := by simp [hexStr]
    rw [this, List.length_append, ih]; simp [hexByte]; omega

theorem formatUUID_length (b : Bytes) (h : b.length = 16) : (formatUUID b).length = 36 := by
  unfold formatUUID
  simp [hexStr_length, h]

/-- **gcs_key_injective**: under one prefix, equal GCS keys mean the same UUID value (and the same
extension). -/
theorem gcs_key_injective (pfx : List Char) (u1 u2 : Bytes) (z1 z2 : Bool)
    (h1 : u1.length = 16) (h2 : u2.length = 16) (h : gcsKey pfx u1 z1 = gcsKey pfx u2 z2) :
    u1 = u2 ∧ z1 = z2 := by
  unfold gcsKey at h
  rw [List.append_assoc, List.append_assoc] at h
  have h' := List.append_cancel_left h
  have l1 := formatUUID_length u1 h1
  have l2 := formatUUID_length u2 h2
  have hf : formatUUID u1 = formatUUID u2 := by
    have := congrArg (List.take 36) h'
    rwa [List.take_left' l1, List.take_left' l2] at this
  have hu := format_injective u1 u2 hf
  refine ⟨hu, ?_⟩
  rw [hf] at h'
  have he := List.append_cancel_left h'
  cases z1 <;> cases z2 <;> first | rfl | (exact absurd he (by decide))

/-- **gcs_keys_unique**: distinct UUID values, distinct GCS keys — whatever the encodings. -/
theorem gcs_keys_unique (pfx : List Char) (ups : List (Bytes × Bool))
    (hlen : ∀ u ∈ ups, u.1.length = 16) (h : (ups.map (·.1)).Nodup) :
    (ups.map fun u => gcsKey pfx u.1 u.2).Nodup := by
  rw [List.Nodup, List.pairwise_map] at h ⊢
  have h2 : List.Pairwise (fun a b : Bytes × Bool => a.1.length = 16 ∧ b.1.length = 16 ∧ a.1 ≠ b.1) ups := by
    rw [List.pairwise_iff_forall_sublist] at h ⊢
    intro a b hab
    exact ⟨hlen a (hab.subset (by simp)), hlen b (hab.subset (by simp)), h hab⟩
  exact h2.imp (fun ⟨la, lb, hne⟩ heq => hne (gcs_key_injective pfx _ _ _ _ la lb heq).1)

def drawA' : Bytes := [1, 2, 3, 4, 5, 6, 7, 8, 9, 10, 11, 12, 13, 14, 15, 16]
def drawB' : Bytes := [2, 2, 3, 4, 5, 6, 7, 8, 9, 10, 11, 12, 13, 14, 15, 16]

/-! ### Uploads while the entropy source fails -/

/-- **no_key_without_randomness**: an upload whose entropy read failed writes to no key at all
(it fails); it never falls back to a fixed or predictable key. -/
theorem no_key_without_randomness (pfx : List Char) (z : Bool) :
    s3Upload pfx none = none ∧ gcsUpload pfx none z = none := ⟨rfl, rfl⟩

/-- **gcs_uploads_unique_with_faults**: any sequence of GCS uploads, some of them hit by an entropy
failure: the keys actually written are pairwise distinct whenever the successful draws are. -/
theorem gcs_uploads_unique_with_faults (pfx : List Char) (ups : List (Option Bytes × Bool))
    (hlen : ∀ u ∈ ups, ∀ x, u.1 = some x → x.length = 16)
    (h : (ups.filterMap (·.1)).Nodup) :
    (ups.filterMap fun u => gcsUpload pfx u.1 u.2).Nodup := by
  induction ups with
  | nil => simp
  | cons u rest ih =>
    have hrest : ∀ v ∈ rest, ∀ x, v.1 = some x → x.length = 16 :=
      fun v hv => hlen v (by simp [hv])
    obtain ⟨d, z⟩ := u
    cases d with
    | none =>
      simp only [List.filterMap_cons, gcsUpload] at h ⊢
      exact ih hrest h
    | some x =>
      simp only [List.filterMap_cons, gcsUpload, List.nodup_cons] at h ⊢
      refine ⟨?_, ih hrest h.2⟩
      intro hmem
      rw [List.mem_filterMap] at hmem
      obtain ⟨v, hv, hk⟩ := hmem
      obtain ⟨d', z'⟩ := v
      cases d' with
      | none => simp [gcsUpload] at hk
      | some y =>
        simp only [gcsUpload, Option.some.injEq] at hk
        have hx := hlen (some x, z) (by simp) x rfl
        have hy := hrest (some y, z') hv y rfl
        have := (gcs_key_injective pfx y x z' z hy hx hk).1
        apply h.1
        rw [List.mem_filterMap]
        exact ⟨(some y, z'), hv, by simp [this]⟩

/-- The same for S3 (distinctness in the 122 free bits). -/
theorem s3_uploads_unique_with_faults (pfx : List Char) (ups : List (Option Bytes))
    (h : ((ups.filterMap id).map freeBits).Nodup) :
    (ups.filterMap (s3Upload pfx)).Nodup := by
  have e : ∀ l : List (Option Bytes), l.filterMap (s3Upload pfx) = (l.filterMap id).map (s3Key pfx) := by
    intro l
    induction l with
    | nil => rfl
    | cons u rest ih =>
      cases u with
      | none =>
        have h0 : (none :: rest).filterMap (s3Upload pfx) = rest.filterMap (s3Upload pfx) := by
          simp [List.filterMap_cons, s3Upload]
        rw [h0, ih]; simp
      | some d => simp [s3Upload, ih]
  rw [e ups]
  exact s3_keys_unique pfx _ h

/-! ### Short reads of the entropy source -/

/-- **readFull_chunking_irrelevant**: however the source cuts its output into reads (one byte at a
time, empty reads in between, …), as long as it delivers `n` bytes in total the buffer receives
exactly the first `n` bytes of the stream — never a partly filled (zero-padded) buffer. -/
theorem readFull_chunking_irrelevant : ∀ (chunks : List Bytes) (n : Nat), n ≤ chunks.flatten.length →
    readFull chunks n = some (chunks.flatten.take n)
  | [], n, h => by
    simp at h
    simp [readFull, h]
  | c :: rest, n, h => by
    simp only [readFull]
    by_cases hn : n ≤ c.length
    · simp only [hn, if_true, List.flatten_cons]
      rw [List.take_append_of_le_length hn]
    · simp only [hn, if_false, List.flatten_cons]
      have h' : n - c.length ≤ rest.flatten.length := by
        rw [List.flatten_cons, List.length_append] at h; omega
      rw [readFull_chunking_irrelevant rest (n - c.length) h', List.take_append]
      have : c.take n = c := List.take_of_length_le (by omega)
      simp [this]

/-- **key_independent_of_chunking**: two sources that deliver the same byte stream in different
read sizes give the same key; in particular a one-byte-per-read source gives the key of its first
16 bytes, with all 122 free bits taken from the source. -/
theorem key_independent_of_chunking (c1 c2 : List Bytes) (h : c1.flatten = c2.flatten)
    (hl : 16 ≤ c1.flatten.length) : generateUUIDFrom c1 = generateUUIDFrom c2 ∧
    generateUUIDFrom c1 = some (generateUUID (c1.flatten.take 16)) := by
  unfold generateUUIDFrom
  rw [readFull_chunking_irrelevant c1 16 hl, readFull_chunking_irrelevant c2 16 (h ▸ hl), h]
  simp

example : generateUUIDFrom (drawA'.map fun b => [b]) = some (generateUUID drawA') := by decide
example : generateUUIDFrom [[1, 2, 3], [], [4]] = none := by decide

/-! ### Where the draws come from (facts regenerated from the source on every run) -/

/-- **keys_draw_from_os_entropy**: in the CURRENT source the S3 generator `generateUUID` references
`crypto/rand` and not the clock, the GCS `Upload` references `github.com/google/uuid`, and neither
storage package imports `math/rand` or `math/rand/v2` at all (a process-global pseudo-random
source repeats its sequence in every process that starts from the same seed, e.g. under
`GODEBUG=randautoseed=0`). The lists are `Vgi.Generated.C33`, rewritten by `tools/factgen/c33`. -/
theorem keys_draw_from_os_entropy :
    "crypto/rand" ∈ Vgi.Generated.C33.s3GeneratorPkgs ∧
    "time" ∉ Vgi.Generated.C33.s3GeneratorPkgs ∧
    "math/rand" ∉ Vgi.Generated.C33.s3Imports ∧ "math/rand/v2" ∉ Vgi.Generated.C33.s3Imports ∧
    "github.com/google/uuid" ∈ Vgi.Generated.C33.gcsUploadPkgs ∧
    "math/rand" ∉ Vgi.Generated.C33.gcsImports ∧ "math/rand/v2" ∉ Vgi.Generated.C33.gcsImports := by
  decide

/-! ### Non-vacuity, and the finding the repair removed -/

example : [some drawA', none, some drawB', none].filterMap (s3Upload []) = [s3Key [] drawA', s3Key [] drawB'] := rfl


def drawA : Bytes := [0xde, 0xad, 0xbe, 0xef, 1, 2, 0xff, 4, 0x05, 6, 7, 8, 9, 10, 11, 12]
def drawB : Bytes := [0xde, 0xad, 0xbe, 0xef, 1, 2, 0xfe, 4, 0x05, 6, 7, 8, 9, 10, 11, 12]
/-- differs from `drawA` only in bits that the version-4 layout overwrites -/
def drawC : Bytes := [0xde, 0xad, 0xbe, 0xef, 1, 2, 0x0f, 4, 0xc5, 6, 7, 8, 9, 10, 11, 12]

example : String.ofList (s3Key "vgi-rpc/".toList drawA) = "vgi-rpc/deadbeef-0102-4f04-8506-0708090a0b0c" := by
  decide
example : ([drawA, drawB].map freeBits).Nodup ∧ s3Key [] drawA ≠ s3Key [] drawB := by decide
example : freeBits drawA = freeBits drawC ∧ s3Key [] drawA = s3Key [] drawC := by decide
example : String.ofList (gcsKey "p/".toList drawA true) = "p/deadbeef-0102-ff04-0506-0708090a0b0c.arrow.zst" := by
  decide

/-- **F33 (before the repair)**: two clock readings one nanosecond apart — indeed any two within
the same microsecond — produced the same key. -/
theorem old_generator_collides :
    oldGenerateUUID 1758499200123456001 = oldGenerateUUID 1758499200123456002 ∧
    oldGenerateUUID 1758499200123456001 = oldGenerateUUID 1758499200123456999 := by decide

end Vgi.Props.C33
