import Vgi.Proofs.ShmSession
/-!
# C36 — Shared-memory pipe sessions match plain pipe sessions and leak no slots

Theorems about `Vgi.ShmSession` (model of the shared-memory handling of `serveOne`, `serveUnary`,
`serveStream` together with the client's release discipline), for ALL call histories: any number
and size of client segments, any interleaving of unary calls, exchange and producer streams, any
advertisement on any request, any batch sizes/estimates/size-gate outcomes, any scripted handler
outcomes, pointers released at once or held until a later `release`.
-/
namespace Vgi.Props.C36
open Vgi Vgi.Shm Vgi.ShmSession Vgi.Proofs.ShmSession Vgi.Props.C34

/-- A session start: `sizes.length` fresh client segments, nothing attached, nothing held. -/
def freshSegs : List Nat → Segs
  | [] => Segs.empty
  | d :: r => (freshSegs r).push (SegSt.create d)

def freshWorld (sizes : List Nat) : World := { segs := freshSegs sizes, cached := none, held := [] }

theorem segInv_create (d : Nat) : SegInv (SegSt.create d) :=
  ⟨create_wf d, by simp [SegSt.create, Vgi.Shm.create]⟩

theorem fresh_inv : ∀ (sizes : List Nat), SInv (freshSegs sizes) ∧ Acc (freshSegs sizes) []
  | [] => ⟨fun k hk => absurd hk (by simp [freshSegs, Segs.empty]), fun k hk => absurd hk (by simp [freshSegs, Segs.empty])⟩
  | d :: r => by
    obtain ⟨h1, h2⟩ := fresh_inv r
    constructor
    · intro k hk
      simp only [freshSegs, Segs.push] at hk ⊢
      by_cases h : k = (freshSegs r).n
      · simp [h, segInv_create]
      · simp only [h, if_false]; exact h1 k (by omega)
    · intro k hk e he
      simp only [freshSegs, Segs.push] at hk he
      by_cases h : k = (freshSegs r).n
      · simp [h, SegSt.create] at he
      · simp only [h, if_false] at he; exact h2 k (by omega) e he

/-- The session-level invariant. -/
def Good (w : World) : Prop := SInv w.segs ∧ Acc w.segs w.held

theorem good_fresh (sizes : List Nat) : Good (freshWorld sizes) := fresh_inv sizes

theorem runAll_cons (w : World) (c : Call) (rest : List Call) :
    runAll w (c :: rest) =
      ((runAll (runCall w c).1 rest).1, (runCall w c).2 ++ (runAll (runCall w c).1 rest).2) := rfl

theorem runAll_good : ∀ (calls : List Call) (w : World), (∀ c ∈ calls, c.wellBehaved = true) → Good w →
    Good (runAll w calls).1 ∧ (runAll w calls).2.map Item.view = calls.flatMap plainItems ∧
      (runAll w calls).1.segs.n = w.segs.n
  | [], w, _, hg => ⟨hg, rfl, rfl⟩
  | c :: rest, w, hwb, hg => by
    obtain ⟨h1, h2, h3, h4⟩ := runCall_spec w c (hwb c (by simp)) hg.1 hg.2
    obtain ⟨g, v, n⟩ := runAll_good rest (runCall w c).1 (fun c' hc => hwb c' (by simp [hc])) ⟨h2, h3⟩
    rw [runAll_cons]
    exact ⟨g, by simp [h4, v], by simp only []; omega⟩

theorem runAll_append : ∀ (a b : List Call) (w : World),
    runAll w (a ++ b) = ((runAll (runAll w a).1 b).1, (runAll w a).2 ++ (runAll (runAll w a).1 b).2)
  | [], b, w => by simp [runAll]
  | c :: a, b, w => by
    rw [List.cons_append, runAll_cons, runAll_cons, runAll_append a b]
    simp

theorem freshSegs_n : ∀ sizes : List Nat, (freshSegs sizes).n = sizes.length
  | [] => rfl
  | d :: r => by simp [freshSegs, Segs.push, freshSegs_n r]

theorem runAll_plain : ∀ (calls : List Call) (w : World),
    (runAll w (calls.map Call.plain)).2 = calls.flatMap plainItems
  | [], _ => rfl
  | c :: rest, w => by
    rw [List.map_cons, runAll_cons, runCall_plain, List.flatMap_cons]
    show plainItems c ++ (runAll _ (rest.map Call.plain)).2 = _
    rw [runAll_plain rest]

/-- **shm_transparent**: a session whose client advertises segments, sends requests and stream
inputs through them and receives results through them, shows the client exactly the results —
same batches, same errors, same order — of the same history run by a client that never mentions
shared memory, whatever state (`w'`) that other connection is in. -/
theorem shm_transparent (calls : List Call) (w w' : World)
    (hwb : ∀ c ∈ calls, c.wellBehaved = true) (hg : Good w) :
    (runAll w calls).2.map Item.view = (runAll w' (calls.map Call.plain)).2.map Item.view := by
  have h := (runAll_good calls w hwb hg).2.1
  have idem : ∀ i : Item, i.view.view = i.view := by intro i; cases i <;> rfl
  rw [runAll_plain, ← h, List.map_map]
  apply List.map_congr_left
  intro i _
  exact (idem i).symm

/-- **no_leak**: when the history is over and the client has released every pointer it received,
the allocation table of every segment is empty — every slot the server allocated was handed to the
client, every slot the client allocated was freed by the server that resolved it (or taken back by
the client when the call was refused first). -/
theorem no_leak (sizes : List Nat) (calls : List Call) (hwb : ∀ c ∈ calls, c.wellBehaved = true) :
    ∀ k, k < sizes.length →
      ((runAll (freshWorld sizes) (calls ++ [.release])).1.segs.get k).seg.table = [] ∧
      ((runAll (freshWorld sizes) (calls ++ [.release])).1.segs.get k).cont = [] := by
  intro k hk
  obtain ⟨hg, _, hn⟩ := runAll_good calls (freshWorld sizes) hwb (good_fresh sizes)
  rw [runAll_append]
  simp only [runAll_cons, runAll, runCall]
  -- the last step releases everything held
  obtain ⟨r1, r2, r3⟩ := releaseAll_spec (runAll (freshWorld sizes) calls).1.held
    (runAll (freshWorld sizes) calls).1.segs [] hg.1 (by simpa using hg.2)
  have hk' : k < (releaseAll (runAll (freshWorld sizes) calls).1.segs (runAll (freshWorld sizes) calls).1.held).n := by
    rw [r1, hn]; simpa [freshWorld, freshSegs_n] using hk
  have hc : ((releaseAll (runAll (freshWorld sizes) calls).1.segs (runAll (freshWorld sizes) calls).1.held).get k).cont = [] := by
    rw [List.eq_nil_iff_forall_not_mem]
    intro e he
    have := r3 k hk' e he
    simp at this
  refine ⟨?_, hc⟩
  have hp := (r2 k hk').2
  rw [hc] at hp
  simpa using hp

/-! ### Pointers the server cannot resolve -/

/-- **unadvertised_request_pointer_refused**: whenever no segment is attached after reading the
request's own segment keys — never advertised, advertised with a bad size or without a size, or
not attachable — a pointer request of any shape is refused before dispatch, nothing is touched. -/
theorem unadvertised_request_pointer_refused (segs : Segs) (cached : Option Nat) (adv : Adv) (wire : Wire)
    (hnone : (ensure cached adv).1 = none) (hp : wire.isPtr = true) :
    serveShm segs cached adv wire = (segs, (ensure cached adv).2, none) := by
  unfold serveShm
  cases he : ensure cached adv with
  | mk seg c' =>
    rw [he] at hnone; simp only [] at hnone; subst hnone
    cases wire with
    | inline b => simp [Wire.isPtr] at hp
    | ptr k off len => simp [serverTake]
    | bad => simp [serverTake]

/-- on a connection with nothing attached, every advertisement except a good one leaves it so -/
theorem ensure_none_of_not_good (adv : Adv) (h : ∀ k, adv ≠ .good k) : ensure none adv = (none, none) := by
  cases adv with
  | good k => exact absurd rfl (h k)
  | _ => rfl

/-- **unadvertised_pointer_is_error_and_session_continues** (unary): on a connection that has no
segment attached, a pointer request is answered with exactly one `IOError`, and the connection,
the segments and the client's bookkeeping are exactly as before — so the rest of the session is
served as if the call had not happened. -/
theorem unadvertised_pointer_is_error_and_session_continues (w : World) (adv : Adv) (param : B)
    (outcome : Outcome) (hold : Bool) (rest : List Call)
    (hc : w.cached = none) (hadv : ∀ k, adv ≠ .good k) :
    runCall w (.unary adv param .raw outcome hold) = (w, [.err ioError]) ∧
    runAll w (.unary adv param .raw outcome hold :: rest) =
      ((runAll w rest).1, .err ioError :: (runAll w rest).2) := by
  have h1 : runCall w (.unary adv param .raw outcome hold) = (w, [.err ioError]) := by
    have he := ensure_none_of_not_good adv hadv
    simp only [runCall, clientSend, hc]
    rw [unadvertised_request_pointer_refused _ none adv .bad (by rw [he]) rfl, he]
    simp only [clientReclaim]
    cases w with
    | mk sg c h => simp only [] at hc ⊢; subst hc; rfl
  exact ⟨h1, by rw [runAll_cons, h1]; rfl⟩

/-- the same for a stream call: the refusal comes before dispatch, the input the client had
already sent is drained unread, and the session continues in frame -/
theorem unadvertised_stream_pointer_is_error_and_session_continues (w : World) (adv : Adv) (param : B)
    (initErr : Option String) (turns : List Turn) (hold : Bool) (rest : List Call)
    (hc : w.cached = none) (hadv : ∀ k, adv ≠ .good k)
    (hfirst : ∀ t ∈ turns.head?, t.via.wellBehaved = true) :
    runAll w (.stream adv param .raw initErr turns hold :: rest) =
      ((runAll w rest).1, .err ioError :: (runAll w rest).2) := by
  have he := ensure_none_of_not_good adv hadv
  have heng : engaged none adv .bad = none := by simp [engaged, he]
  have hsn : sendNext none w.segs turns = (w.segs, (sendNext none w.segs turns).2) ∧
      reclaimOpt w.segs (sendNext none w.segs turns).2 = w.segs := by
    cases turns with
    | nil => exact ⟨rfl, rfl⟩
    | cons t r =>
      have hv := hfirst t (by simp)
      cases hvia : t.via with
      | inline => simp [sendNext, clientSend, hvia, reclaimOpt, clientReclaim]
      | shm k => simp [sendNext, clientSend, hvia, reclaimOpt, clientReclaim]
      | force k => rw [hvia] at hv; simp [Via.wellBehaved] at hv
      | raw => rw [hvia] at hv; simp [Via.wellBehaved] at hv
  have h1 : runCall w (.stream adv param .raw initErr turns hold) = (w, [.err ioError]) := by
    simp only [runCall, clientSend, hc, heng]
    have hfst : (sendNext none w.segs turns).1 = w.segs := congrArg Prod.fst hsn.1
    rw [hfst]
    rw [unadvertised_request_pointer_refused _ none adv .bad (by rw [he]) rfl, he]
    simp only [clientReclaim, hsn.2]
    cases w with
    | mk sg c h => simp only [] at hc ⊢; subst hc; rfl
  rw [runAll_cons, h1]; rfl

/-- **unadvertised_input_pointer_refused**: in a stream call for which no segment is engaged, an
input pointer batch ends the stream with exactly one `IOError`; the handler does not run for that
turn nor for any later one, and the client takes its slot back. A pointer whose offset/length do
not resolve is refused the same way whatever is engaged. -/
theorem unadvertised_input_pointer_refused (hold : Bool) (segs : Segs) (held : Held) (t : Turn)
    (rest : List Turn) (wire : Wire) (hp : wire.isPtr = true) :
    runTurns none hold segs held (t :: rest) (some wire) = (clientReclaim segs wire, held, [.err ioError]) ∧
    (∀ shm, runTurns shm hold segs held (t :: rest) (some .bad) = (segs, held, [.err ioError])) := by
  constructor
  · cases wire with
    | inline b => simp [Wire.isPtr] at hp
    | ptr k off len => simp [runTurns, serverTake]
    | bad => simp [runTurns, serverTake]
  · intro shm
    cases shm with
    | none => simp [runTurns, serverTake, clientReclaim]
    | some k => simp [runTurns, serverTake, resolveWire, clientReclaim]

/-! ### Non-vacuity -/

def bigB (id : Nat) : B := { id := id, rows := 1, big := true, est := 4400, len := 300 }
def smallB (id : Nat) : B := { id := id, rows := 1, big := false, est := 4106, len := 200 }

/-- a well-behaved history that really uses the segment: request, inputs and results all travel
as pointers, one result is held across calls, the segment is too small for a second large batch
while the first is held (pipe fallback), then everything is released -/
def sampleCalls : List Call :=
  [ .unary (.good 0) (bigB 1) (.shm 0) (.result (bigB 2)) true,
    .stream .none (bigB 3) (.shm 0) none
      [ { input := bigB 4, via := .shm 0, outcome := .result (bigB 5) },
        { input := smallB 6, via := .inline, outcome := .error "ValueError" } ] false,
    .unary .none (smallB 7) .inline (.result (bigB 8)) false ]

example : ∀ c ∈ sampleCalls, c.wellBehaved = true := by decide

example : (runAll (freshWorld [4500]) sampleCalls).2 =
    [.ok 2 true, .ok 5 false, .err "ValueError", .ok 8 false] := by decide

example : ((runAll (freshWorld [4500]) sampleCalls).1.segs.get 0).seg.table = [(65536, 300)] ∧
    (runAll (freshWorld [4500]) sampleCalls).1.held = [(0, 65536)] := by decide

example : ((runAll (freshWorld [4500]) (sampleCalls ++ [.release])).1.segs.get 0).seg.table = [] := by
  decide

/-- with room for several batches the stream's pointers are really exercised -/
example : (runAll (freshWorld [20000]) sampleCalls).2 =
    [.ok 2 true, .ok 5 true, .err "ValueError", .ok 8 false] := by decide

/-- misuse is refused: a raw pointer where nothing was ever advertised -/
example : (runCall (freshWorld [20000]) (.unary .none (bigB 1) .raw (.result (bigB 2)) false)).2 =
    [.err ioError] := by decide

end Vgi.Props.C36
