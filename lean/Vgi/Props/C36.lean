import Vgi.Model.ShmSession
namespace Vgi.Props.C36
open Vgi Vgi.Shm Vgi.ShmSession

theorem placeholder_ensure_none (c : Option Nat) : ensure c .none = (c, c) := rfl

end Vgi.Props.C36
