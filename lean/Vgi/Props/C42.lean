import Vgi.Proofs.Listener
import Vgi.Generated.C42
/-!
# C42 — Socket listeners serve connections independently and stop only when idle

Theorems about `Vgi.Listener.step` (model of `Server.RunUnix` / `Server.RunTcp`). "Reachable"
is reachability by ANY action list: every interleaving of connection arrivals, client writes,
serve rounds, connection ends, timer expiries (including callbacks that fired but have not yet
taken the mutex), Accept errors and the return path, for any number of connections.
-/
namespace Vgi.Props.C42
open Vgi Vgi.Listener Vgi.TS

theorem reachable_inv (C : Cfg) (s : LState) (hr : Reachable (sys C) s) : Inv C s :=
  invariant_of_step (sys C) (Inv C) (inv_init C) (fun s a s' hi hs => inv_step C s s' a hi hs) s hr

/-! ### The counter is the number of open connections -/

/-- **active_counts_open**: `active` always equals the number of connections that were counted
and whose serve loop has not ended (it never goes negative, never drifts). -/
theorem active_counts_open (C : Cfg) (s : LState) (hr : Reachable (sys C) s) :
    s.active = (openCount s : Int) :=
  (reachable_inv C s hr).cnt

/-! ### The listener stops only when idle -/

/-- **shutdown_only_when_idle**: whichever step sets `shutdown` (and closes the listener), it is
the timer callback's critical section (`timerRun`, or `expire` in the timed system), an idle timeout is configured, and at that instant the
counter is zero and no connection is being served. -/
theorem shutdown_only_when_idle (C : Cfg) (s s' : LState) (a : Act) (hr : Reachable (sys C) s)
    (hs : step C s a = some s') (h0 : s.shutdown = false) (h1 : s'.shutdown = true) :
    (∃ g, a = .timerRun g ∨ a = .expire g) ∧ C.idle = true ∧ s.active = 0 ∧ ∀ c ∈ s.ids, s.stage c ≠ .serving := by
  have hI := reachable_inv C s hr
  have hI' := inv_step C s s' a hI hs
  have hidle : C.idle = true := by
    cases hi : C.idle with
    | true => rfl
    | false => have := (hI'.noIdle hi).2.2; rw [h1] at this; cases this
  have key : (∃ g, a = .timerRun g ∨ a = .expire g) ∧ s.active = 0 := by
    cases a with
    | timerRun g =>
      simp only [step] at hs
      split at hs
      · cases hs
        by_cases ha : s.active = 0
        · exact ⟨⟨g, Or.inl rfl⟩, ha⟩
        · simp only [ha, if_false] at h1; rw [h0] at h1; cases h1
      · cases hs
    | expire g =>
      simp only [step] at hs
      split at hs
      · cases hs
        by_cases ha : s.active = 0
        · exact ⟨⟨g, Or.inr rfl⟩, ha⟩
        · simp only [ha, if_false] at h1; rw [h0] at h1; cases h1
      · cases hs
    | tick t => simp only [step] at hs; cases hs; simp_all
    | bind st =>
      simp only [step] at hs; split at hs
      · cases hs; split at h1 <;> simp_all [arm]
      · cases hs
    | accept c => simp only [step] at hs; split at hs <;> cases hs; simp_all
    | count =>
      simp only [step] at hs; split at hs
      · cases hs; simp_all [disarm]
      · cases hs
    | send c x => simp only [step] at hs; split at hs <;> cases hs; simp_all
    | serveOne c =>
      simp only [step] at hs; split at hs
      · split at hs
        · cases hs
        · cases hs; simp_all
      · cases hs
    | connDone c =>
      simp only [step] at hs; split at hs
      · cases hs; split at h1 <;> simp_all [arm]
      · cases hs
    | fire g => simp only [step] at hs; split at hs <;> cases hs; simp_all
    | acceptErr f => simp only [step] at hs; split at hs <;> cases hs; simp_all
    | leave => simp only [step] at hs; split at hs <;> cases hs; simp_all [disarm]
    | ret => simp only [step] at hs; split at hs <;> cases hs; simp_all
  refine ⟨key.1, hidle, key.2, ?_⟩
  intro c hc hst
  have hcnt := hI.cnt
  rw [key.2] at hcnt
  have hpos : 0 < openCount s := by
    simp only [openCount, List.countP_pos_iff]; exact ⟨c, hc, by simp [hst]⟩
  omega

/-! ### Timed system: the idle period is a full one -/

theorem treachable_reachable (C : Cfg) (s : LState) (hr : Reachable (tsys C) s) : Reachable (sys C) s := by
  refine reachable_mono (tsys C) (sys C) rfl ?_ s hr
  intro s a s' hs
  cases a <;> first | exact hs | (simp [tsys] at hs)

theorem reachable_tinv (C : Cfg) (hTG : C.T ≤ C.G) (s : LState) (hr : Reachable (tsys C) s) : TInv C s :=
  invariant_of_step_using (tsys C) (Inv C) (TInv C)
    (fun s hr => reachable_inv C s (treachable_reachable C s hr)) (tinv_init C)
    (fun s a s' haux hi hs => tinv_step C hTG s s' a haux hi hs) s hr

/-- **shutdown_only_after_full_idle_period** (timed system `tsys`: every timer carries its deadline
`now + d` from the moment it was armed, re-arming resets it, counting a connection cancels it, and
a due timer's callback runs without delay): the step that shuts the listener down is the expiry
of the armed timer, and at that instant the counter is zero, it dropped to zero at least the full
idle timeout `T` ago (`zeroSince + T ≤ now`; start-up: the grace `G ≥ T`), and no connection has
been counted since (`lastCount ≤ zeroSince`) — a reconnect in between restarts the period. -/
theorem shutdown_only_after_full_idle_period (C : Cfg) (hTG : C.T ≤ C.G) (s s' : LState) (a : Act)
    (hr : Reachable (tsys C) s) (hs : (tsys C).step s a = some s')
    (h0 : s.shutdown = false) (h1 : s'.shutdown = true) :
    (∃ g, a = .expire g) ∧ s.active = 0 ∧ s.zeroSince + C.T ≤ s.now ∧ s.lastCount ≤ s.zeroSince := by
  have hT := reachable_tinv C hTG s hr
  have hsys : step C s a = some s' := by
    cases a <;> first | exact hs | (simp [tsys] at hs)
  obtain ⟨⟨g, hg⟩, _, ha, _⟩ := shutdown_only_when_idle C s s' a (treachable_reachable C s hr) hsys h0 h1
  rcases hg with hg | hg
  · subst hg; simp [tsys] at hs
  · subst hg
    simp only [step] at hsys
    split at hsys
    · rename_i hc
      obtain ⟨_, hz⟩ := hT.armed g hc.1
      exact ⟨⟨g, rfl⟩, ha, by omega, hT.cz ha⟩
    · cases hsys

/-- **armed_only_when_idle**: a timer that can still fire exists only while no connection is
counted (every `count` disarms, only the last `connDone` arms). -/
theorem armed_only_when_idle (C : Cfg) (s : LState) (hr : Reachable (sys C) s) (g : Nat)
    (h : s.timer = some (g, true)) : s.active = 0 ∧ ∀ c ∈ s.ids, s.stage c ≠ .serving := by
  have hI := reachable_inv C s hr
  have ha := hI.armed g h
  refine ⟨ha, ?_⟩
  intro c hc hst
  have hcnt := hI.cnt
  rw [ha] at hcnt
  have hpos : 0 < openCount s := by
    simp only [openCount, List.countP_pos_iff]; exact ⟨c, hc, by simp [hst]⟩
  omega

/-- **never_stops_with_idle_disabled**: without an idle timeout no timer is ever armed, no
callback ever runs, `shutdown` is never set, and the accept loop is left only through an Accept
error of the environment. -/
theorem never_stops_with_idle_disabled (C : Cfg) (hC : C.idle = false) (s : LState)
    (hr : Reachable (sys C) s) :
    s.timer = none ∧ s.fired = [] ∧ s.shutdown = false ∧
    (s.envFault = false → s.main = .init ∨ s.main = .accepting ∨ ∃ c, s.main = .gotConn c) := by
  have hI := reachable_inv C s hr
  obtain ⟨h1, h2, h3⟩ := hI.noIdle hC
  refine ⟨h1, h2, h3, ?_⟩
  intro hf
  cases hm : s.main with
  | init => exact Or.inl rfl
  | accepting => exact Or.inr (Or.inl rfl)
  | gotConn c => exact Or.inr (Or.inr ⟨c, rfl⟩)
  | broke => have := hI.stop (by rw [hm]; rfl); rw [h3, hf] at this; simp at this
  | waiting => have := hI.stop (by rw [hm]; rfl); rw [h3, hf] at this; simp at this
  | returned => have := hI.stop (by rw [hm]; rfl); rw [h3, hf] at this; simp at this

/-- **stops_only_after_idle_shutdown**: if the accept loop has been left and no environment
Accept error occurred, then the idle shutdown happened (which `shutdown_only_when_idle` pins to
an instant with zero open connections); and the listener socket is closed before return only by
that shutdown. -/
theorem stops_only_after_idle_shutdown (C : Cfg) (s : LState) (hr : Reachable (sys C) s) :
    ((s.main = .broke ∨ s.main = .waiting ∨ s.main = .returned) → s.envFault = false → s.shutdown = true) ∧
    (s.lnClosed = true → s.shutdown = true ∨ s.main = .returned) := by
  have hI := reachable_inv C s hr
  refine ⟨?_, hI.closed⟩
  intro hm hf
  have : stopped s.main = true := by rcases hm with h | h | h <;> rw [h] <;> rfl
  rcases hI.stop this with h | h
  · exact h
  · rw [hf] at h; cases h

/-- **return_only_after_all_done**: when the listener function has returned, every connection
`Accept` ever handed out — including one accepted in the instant before the shutdown — has been
served to the end of its serve loop. -/
theorem return_only_after_all_done (C : Cfg) (s : LState) (hr : Reachable (sys C) s)
    (hm : s.main = .returned) : ∀ c ∈ s.ids, s.stage c = .done :=
  (reachable_inv C s hr).retd hm

/-! ### Connections are independent -/

/-- **connections_isolated**: on every connection, in every interleaving with any other
connections, the responses written are exactly the method applied to that connection's own
requests, in order, and nothing the client sent is lost or duplicated (it is either served or
still unread). -/
theorem connections_isolated (C : Cfg) (s : LState) (hr : Reachable (sys C) s) (c : Nat) :
    s.outbox c = (s.served c).map C.h ∧ s.sent c = s.served c ++ s.inbox c :=
  (reachable_inv C s hr).iso c

/-! ### Socket file -/

/-- **socket_file_lifecycle**: for `RunUnix` the socket file is owner-only (0600) from bind until
return and absent after return; `RunTcp` never has one. -/
theorem socket_file_lifecycle (C : Cfg) (s : LState) (hr : Reachable (sys C) s) :
    (C.unix = true → (s.main ≠ .init ∧ s.main ≠ .returned → s.file = some 0o600) ∧
                      (s.main = .returned → s.file = none)) ∧
    (C.unix = false → s.file = none) := by
  have hI := reachable_inv C s hr
  exact ⟨hI.fileU, hI.fileT⟩

/-! ### Facts regenerated from the source on every run (tools/factgen/c42) -/

/-- **lockset_discipline**: every read and write of `active`, `timer` and `shutdown` in `RunUnix`
and `RunTcp` (including the `arm`/`disarm` helpers at all their call sites and the timer callback)
happens with `mu` held — which is what makes each of the model's actions one critical section. -/
theorem lockset_discipline : ∀ a ∈ Vgi.Generated.C42.accesses, "mu" ∈ a.held := by decide

/-- The analysis saw all three variables, written and read, in both files. -/
theorem lockset_covers :
    ∀ f ∈ ["server_unix.go", "server_tcp.go"], ∀ v ∈ ["active", "timer", "shutdown"],
      (Vgi.Generated.C42.accesses.any fun a => a.file = f ∧ a.field = v ∧ a.write = true) = true ∧
      (Vgi.Generated.C42.accesses.any fun a => a.file = f ∧ a.field = v ∧ a.write = false) = true := by decide

/-- **structure_facts**: `shutdown = true` only under `if active == 0`; the idle re-arm only under
`active == 0`; `wg.Add`/`wg.Wait` bracket the connections; `serveOne` gets the connection's own
reader/writer and a shm state allocated per connection. -/
theorem structure_facts : ∀ f ∈ Vgi.Generated.C42.facts, f.2 = true := by decide

/-! ### Non-vacuity -/

def exCfg : Cfg := { idle := true, unix := true, h := fun x => x + 100 }

/-- Two connections with interleaved calls; the first ends while the second is open (no timer);
the second ends, the timer fires, the listener shuts down and returns. -/
def exSched : List Act :=
  [.bind none, .accept 1, .count, .accept 2, .count, .send 1 7, .send 2 9, .serveOne 2, .serveOne 1,
   .connDone 1, .send 2 3, .serveOne 2, .connDone 2, .fire 1, .timerRun 1, .acceptErr false, .leave, .ret]

example : ((run (sys exCfg) init exSched).map fun s =>
    decide (s.main = .returned ∧ s.shutdown = true ∧ s.file = none ∧ s.outbox 1 = [107] ∧ s.outbox 2 = [109, 103] ∧
      s.active = 0 ∧ s.envFault = false)) = some true := by decide

-- while connection 2 is open nothing can stop the listener: no timer is armed
example : ((run (sys exCfg) init (exSched.take 10)).map fun s =>
    decide (s.active = 1 ∧ s.timer = none ∧ s.fired = [] ∧ s.file = some 0o600)) = some true := by decide

-- the stale-callback window: timer 1 fires, a new connection is counted before the callback gets
-- the mutex; the callback then sees active = 1 and does nothing
example : ((run (sys exCfg) init [.bind none, .accept 1, .count, .connDone 1, .fire 1, .accept 2, .count, .timerRun 1]).map
    fun s => decide (s.shutdown = false ∧ s.active = 1 ∧ s.lnClosed = false)) = some true := by decide

-- the accepted-but-not-yet-counted window: shutdown happens, the connection is still served, and
-- the function cannot return before it is done
example : ((run (sys exCfg) init [.bind none, .accept 1, .count, .connDone 1, .fire 1, .accept 2, .timerRun 1, .count,
      .acceptErr false, .leave]).map
    fun s => decide (s.shutdown = true ∧ s.stage 2 = .serving ∧ step exCfg s .ret = none)) = some true := by decide

-- timed: close at 100 (armed for 100+50), reconnect at 120 (cancels), close at 130 (re-armed for 180):
-- at 160 the old deadline has passed but nothing can expire; at 180 it can
def tCfg : Cfg := { idle := true, unix := false, h := id, T := 50, G := 1000 }

example : ((run (tsys tCfg) init [.bind none, .accept 1, .count, .tick 100, .connDone 1, .tick 120, .accept 2, .count,
      .tick 130, .connDone 2, .tick 160]).map fun s =>
    decide (s.deadline = 180 ∧ s.zeroSince = 130 ∧ s.lastCount = 120 ∧ (Listener.step tCfg s (.expire 2)).isNone ∧
      (Listener.step tCfg { s with now := 180 } (.expire 2)).isSome)) = some true := by decide

end Vgi.Props.C42
